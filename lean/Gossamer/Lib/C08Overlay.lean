/-
C08: one level of overlay, abstractly.  `res` is the ordered map obtained from the ordered map
`base` by the upserts `ups` and the deletions `dels` (disjoint key sets).  The way `TrieState`
computes next-key, entry listings and key listings from (`ups`, `dels`, `base`) agrees with the
ordered-map operations on `res`.
-/
import Gossamer.Lib.C08Sim
set_option linter.unusedSectionVars false
set_option linter.unusedSimpArgs false
namespace Gossamer.C08
open Gossamer

/-! ### least element above `k` in a strictly ascending list -/

def firstGt (k : Bytes) (l : List Bytes) : Option Bytes := l.find? (fun x => klt k x)

theorem firstGt_none {k : Bytes} {l : List Bytes} (h : firstGt k l = none) :
    ∀ y ∈ l, klt k y = false := by
  intro y hy
  have := List.find?_eq_none.mp h y hy
  simpa using this

theorem firstGt_some {k x : Bytes} {l : List Bytes} (hs : KSet.Sorted l) (h : firstGt k l = some x) :
    x ∈ l ∧ klt k x = true ∧ ∀ y ∈ l, klt k y = true → x = y ∨ klt x y = true := by
  induction l with
  | nil => simp [firstGt] at h
  | cons e r ih =>
    simp only [firstGt, List.find?_cons] at h
    by_cases he : klt k e = true
    · simp only [he] at h
      cases h
      refine ⟨by simp, he, ?_⟩
      intro y hy _
      rcases List.mem_cons.mp hy with hy | hy
      · exact Or.inl hy.symm
      · exact Or.inr (hs.1 y hy)
    · have he' : klt k e = false := by simpa using he
      simp only [he', Bool.false_eq_true] at h
      obtain ⟨h1, h2, h3⟩ := ih hs.2 h
      refine ⟨by simp [h1], h2, ?_⟩
      intro y hy hky
      rcases List.mem_cons.mp hy with hy | hy
      · subst hy; rw [he'] at hky; cases hky
      · exact h3 y hy hky

/-- the least element above `k` is determined by membership -/
theorem firstGt_unique {k : Bytes} {l : List Bytes} (hs : KSet.Sorted l) {x : Bytes}
    (hx : x ∈ l) (hk : klt k x = true)
    (hmin : ∀ y ∈ l, klt k y = true → x = y ∨ klt x y = true) : firstGt k l = some x := by
  cases h : firstGt k l with
  | none => have := firstGt_none h x hx; rw [hk] at this; cases this
  | some z =>
    obtain ⟨z1, z2, z3⟩ := firstGt_some hs h
    rcases hmin z z1 z2 with e | e
    · rw [e]
    · rcases z3 x hx hk with e' | e'
      · rw [e']
      · have := klt_asymm e; rw [e'] at this; cases this

theorem firstGt_eq_none_of {k : Bytes} {l : List Bytes} (h : ∀ y ∈ l, klt k y = false) :
    firstGt k l = none := by
  apply List.find?_eq_none.mpr
  intro y hy
  simp [h y hy]

/-- `slices.BinarySearch` + "skip the key itself" on a strictly ascending slice = least element above -/
theorem nextSorted_eq (key : Bytes) (l : List Bytes) (hs : KSet.Sorted l) :
    nextSorted key l = firstGt key l := by
  induction l with
  | nil => rfl
  | cons e r ih =>
    by_cases h1 : klt e key = true
    · -- e < key: the search moves on
      have h2 : klt key e = false := klt_asymm h1
      have hne : e ≠ key := klt_ne h1
      have : nextSorted key (e :: r) = nextSorted key r := by
        unfold nextSorted bsearch
        simp only [List.takeWhile_cons, h1, if_true, List.length_cons, List.getElem?_cons_succ]
        split <;> simp [List.getElem?_cons_succ]
      rw [this, ih hs.2]
      simp [firstGt, List.find?_cons, h2]
    · have h1' : klt e key = false := by simpa using h1
      by_cases he : e = key
      · subst he
        have : nextSorted e (e :: r) = r.head? := by
          unfold nextSorted bsearch
          simp [List.takeWhile_cons, h1', List.head?_eq_getElem?]
        rw [this]
        simp only [firstGt, List.find?_cons, klt_irrefl]
        cases r with
        | nil => rfl
        | cons e' r' =>
          have := hs.1 e' (by simp)
          simp [List.find?_cons, this]
      · have h3 : klt key e = true := by
          rcases klt_trichotomy key e with h | h | h
          · exact h
          · exact absurd h.symm he
          · rw [h] at h1'; cases h1'
        have : nextSorted key (e :: r) = some e := by
          unfold nextSorted bsearch
          simp [List.takeWhile_cons, h1', he]
        rw [this]
        simp [firstGt, List.find?_cons, h3]

/-! ### keys of maps -/

theorem mem_keys_iff {α : Type} (m : KMap α) (k : Bytes) : k ∈ KMap.keys m ↔ KMap.find k m ≠ none := by
  unfold KMap.keys
  rw [Ne, find_none_iff]
  simp

theorem sorted_keys {α : Type} {m : KMap α} (h : KMap.Sorted m) : KSet.Sorted (KMap.keys m) := by
  induction m with
  | nil => trivial
  | cons e r ih =>
    refine ⟨?_, ih h.2⟩
    intro x hx
    obtain ⟨y, hy, rfl⟩ := List.mem_map.mp hx
    exact h.1 y hy

theorem omap_sorted_keys {es : Entries} (h : OMap.Sorted es) : KSet.Sorted (es.map (·.1)) := by
  induction es with
  | nil => trivial
  | cons e r ih =>
    refine ⟨?_, ih h.2⟩
    intro x hx
    obtain ⟨y, hy, rfl⟩ := List.mem_map.mp hx
    exact h.1 y hy

theorem omap_mem_keys (es : Entries) (k : Bytes) : k ∈ es.map (·.1) ↔ OMap.get k es ≠ none := by
  induction es with
  | nil => simp [OMap.get]
  | cons e r ih =>
    simp only [List.map_cons, List.mem_cons, OMap.get]
    by_cases h : e.1 = k
    · simp [h]
    · have : ¬ k = e.1 := fun x => h x.symm
      simp [h, this, ih]

theorem nextKey_eq_firstGt (k : Bytes) (es : Entries) :
    OMap.nextKey k es = firstGt k (es.map (·.1)) := by
  unfold OMap.nextKey firstGt
  induction es with
  | nil => rfl
  | cons e r ih =>
    simp only [List.find?_cons, List.map_cons]
    by_cases h : klt k e.1 = true
    · simp [h]
    · have h' : klt k e.1 = false := by simpa using h
      simp only [h', Bool.false_eq_true]
      exact ih

theorem find_keysAfter (base : Entries) (k : Bytes) (p : Bytes → Bool) :
    (Logical.keysAfterE base k).find? p = firstGt k ((base.map (·.1)).filter p) := by
  unfold Logical.keysAfterE firstGt
  induction base with
  | nil => rfl
  | cons e r ih =>
    cases h1 : klt k e.1 <;> cases h2 : p e.1 <;>
      simp only [List.filter_cons, List.map_cons, List.find?_cons, h1, h2, if_true, if_false,
        Bool.false_eq_true] <;> first | exact ih | rfl

/-! ### the overlay of one level -/

structure Overlay (base : Entries) (ups : KMap Bytes) (dels : KSet) (res : Entries) : Prop where
  sbase : OMap.Sorted base
  sups : KMap.Sorted ups
  sres : OMap.Sorted res
  disj : ∀ x, x ∈ dels → KMap.find x ups = none
  get : ∀ x, OMap.get x res = if x ∈ dels then none else ov (KMap.find x ups) (OMap.get x base)

section overlay
variable {base : Entries} {ups : KMap Bytes} {dels : KSet} {res : Entries}

theorem Overlay.mem_res (h : Overlay base ups dels res) (x : Bytes) :
    x ∈ res.map (·.1) ↔ (x ∈ KMap.keys ups ∨ (x ∈ base.map (·.1) ∧ x ∉ dels)) := by
  rw [omap_mem_keys, h.get, mem_keys_iff, omap_mem_keys]
  by_cases hd : x ∈ dels
  · simp [hd, h.disj x hd]
  · simp only [hd, if_false, not_false_eq_true, and_true]
    cases hf : KMap.find x ups with
    | none => simp
    | some v => simp

/-- `NextKey` / `GetChildNextKey` inside a transaction -/
theorem Overlay.next (h : Overlay base ups dels res) (k : Bytes) :
    OMap.nextKey k res =
      mergeNext (firstGt k (KMap.keys ups))
        ((Logical.keysAfterE base k).find? (fun x => !KSet.has x dels)) := by
  -- the second candidate: least key of `base` above `k` that is not deleted
  have hB : (Logical.keysAfterE base k).find? (fun x => !KSet.has x dels) =
      firstGt k ((base.map (·.1)).filter (fun x => !KSet.has x dels)) :=
    find_keysAfter base k _
  rw [hB, nextKey_eq_firstGt]
  have sR := omap_sorted_keys h.sres
  have sU := sorted_keys h.sups
  have sB : KSet.Sorted ((base.map (·.1)).filter (fun x => !KSet.has x dels)) := by
    have := omap_sorted_keys h.sbase
    generalize base.map (·.1) = l at this
    induction l with
    | nil => trivial
    | cons e r ih =>
      simp only [List.filter_cons]
      split
      · exact ⟨fun x hx => this.1 x (List.mem_filter.mp hx).1, ih this.2⟩
      · exact ih this.2
  have memB : ∀ x, x ∈ (base.map (·.1)).filter (fun x => !KSet.has x dels) ↔
      (x ∈ base.map (·.1) ∧ x ∉ dels) := by
    intro x
    simp [List.mem_filter, KSet.has]
  have memR : ∀ x, x ∈ res.map (·.1) ↔ (x ∈ KMap.keys ups ∨
      x ∈ (base.map (·.1)).filter (fun x => !KSet.has x dels)) := by
    intro x; rw [h.mem_res, memB]
  generalize (base.map (·.1)).filter (fun x => !KSet.has x dels) = B at sB memR
  generalize KMap.keys ups = U at sU memR
  generalize res.map (·.1) = R at sR memR
  cases hU : firstGt k U with
  | none =>
    cases hBv : firstGt k B with
    | none =>
      simp only [mergeNext]
      apply firstGt_eq_none_of
      intro y hy
      rcases (memR y).mp hy with hy | hy
      · exact firstGt_none hU y hy
      · exact firstGt_none hBv y hy
    | some b =>
      obtain ⟨b1, b2, b3⟩ := firstGt_some sB hBv
      simp only [mergeNext]
      apply firstGt_unique sR ((memR b).mpr (Or.inr b1)) b2
      intro y hy hky
      rcases (memR y).mp hy with hy | hy
      · have := firstGt_none hU y hy; rw [hky] at this; cases this
      · exact b3 y hy hky
  | some u =>
    obtain ⟨u1, u2, u3⟩ := firstGt_some sU hU
    cases hBv : firstGt k B with
    | none =>
      simp only [mergeNext]
      apply firstGt_unique sR ((memR u).mpr (Or.inl u1)) u2
      intro y hy hky
      rcases (memR y).mp hy with hy | hy
      · exact u3 y hy hky
      · have := firstGt_none hBv y hy; rw [hky] at this; cases this
    | some b =>
      obtain ⟨b1, b2, b3⟩ := firstGt_some sB hBv
      simp only [mergeNext]
      by_cases hbu : klt b u = true
      · simp only [hbu, if_true]
        apply firstGt_unique sR ((memR b).mpr (Or.inr b1)) b2
        intro y hy hky
        rcases (memR y).mp hy with hy | hy
        · rcases u3 y hy hky with e | e
          · subst e; exact Or.inr hbu
          · exact Or.inr (klt_trans hbu e)
        · exact b3 y hy hky
      · have hbu' : klt b u = false := by simpa using hbu
        simp only [hbu', Bool.false_eq_true, if_false]
        apply firstGt_unique sR ((memR u).mpr (Or.inl u1)) u2
        intro y hy hky
        rcases (memR y).mp hy with hy | hy
        · exact u3 y hy hky
        · rcases b3 y hy hky with e | e
          · subst e
            rcases klt_trichotomy u b with t | t | t
            · exact Or.inr t
            · exact Or.inl t
            · rw [t] at hbu'; cases hbu'
          · rcases klt_trichotomy u b with t | t | t
            · exact Or.inr (klt_trans t e)
            · subst t; exact Or.inr e
            · rw [t] at hbu'; cases hbu'

/-! #### entry listing -/

theorem find_map_some (es : Entries) (k : Bytes) :
    KMap.find k (es.map (fun e => (e.1, some e.2))) = (OMap.get k es).map some := by
  induction es with
  | nil => rfl
  | cons e r ih =>
    simp only [List.map_cons, KMap.find, OMap.get]
    by_cases h : e.1 = k <;> simp [h, ih]

theorem sorted_map_some {es : Entries} (h : OMap.Sorted es) :
    KMap.Sorted (es.map (fun e => (e.1, some e.2))) := by
  induction es with
  | nil => trivial
  | cons e r ih =>
    refine ⟨?_, ih h.2⟩
    intro x hx
    obtain ⟨y, hy, rfl⟩ := List.mem_map.mp hx
    exact h.1 y hy

theorem find_foldl_ins {α : Type} (f : Bytes → α) (l : List (Bytes × Bytes)) (hn : NodupKeys l)
    (m : KMap α) (k : Bytes) :
    KMap.find k (l.foldl (fun m e => KMap.ins e.1 (f e.2) m) m) =
      ov ((KMap.find k l).map f) (KMap.find k m) := by
  induction l generalizing m with
  | nil => rfl
  | cons e r ih =>
    simp only [List.foldl_cons, KMap.find]
    rw [ih hn.tail, KMap.find_ins]
    by_cases hk : e.1 = k
    · subst hk
      simp [hn.head_not_mem]
    · have : ¬ k = e.1 := fun h => hk h.symm
      simp [hk, this]

theorem sorted_foldl_ins {α : Type} (f : Bytes → α) (l : List (Bytes × Bytes)) {m : KMap α}
    (h : KMap.Sorted m) : KMap.Sorted (l.foldl (fun m e => KMap.ins e.1 (f e.2) m) m) := by
  induction l generalizing m with
  | nil => exact h
  | cons e r ih => exact ih (KMap.sorted_ins _ _ h)

theorem find_foldl_del {α : Type} (ds : List Bytes) (m : KMap α) (k : Bytes) :
    KMap.find k (ds.foldl (fun m d => KMap.del d m) m) = if k ∈ ds then none else KMap.find k m := by
  induction ds generalizing m with
  | nil => simp
  | cons d r ih =>
    simp only [List.foldl_cons, List.mem_cons]
    rw [ih, KMap.find_del]
    by_cases h1 : k ∈ r
    · simp [h1]
    · by_cases h2 : k = d <;> simp [h1, h2]

theorem sorted_foldl_del {α : Type} (ds : List Bytes) {m : KMap α} (h : KMap.Sorted m) :
    KMap.Sorted (ds.foldl (fun m d => KMap.del d m) m) := by
  induction ds generalizing m with
  | nil => exact h
  | cons d r ih => exact ih (KMap.sorted_del _ h)

/-- `TrieEntries` / the map built by `GetKeysWithPrefixFromChild` inside a transaction -/
theorem Overlay.entries (h : Overlay base ups dels res) :
    dels.foldl (fun m k => KMap.del k m)
        (ups.foldl (fun (m : KMap (Option Bytes)) e => KMap.ins e.1 (some e.2) m)
          (base.map (fun e => (e.1, some e.2)))) =
      res.map (fun e => (e.1, some e.2)) := by
  apply KMap.ext (sorted_foldl_del _ (sorted_foldl_ins _ _ (sorted_map_some h.sbase)))
    (sorted_map_some h.sres)
  intro k
  rw [find_foldl_del, find_foldl_ins some _ (nodupKeys_of_sorted h.sups), find_map_some,
    find_map_some, h.get]
  by_cases hd : k ∈ dels
  · simp [hd]
  · simp only [hd, if_false]
    cases KMap.find k ups <;> simp

end overlay

/-! ### the main trie as an overlay: committed view, diff, view of the level -/

theorem get_foldl_upsert_congr (es : Entries) (m m' : Entries) (k : Bytes)
    (h : OMap.get k m = OMap.get k m') :
    OMap.get k (es.foldl (fun m e => OMap.upsert e.1 e.2 m) m) =
      OMap.get k (es.foldl (fun m e => OMap.upsert e.1 e.2 m) m') := by
  induction es generalizing m m' with
  | nil => exact h
  | cons e r ih =>
    simp only [List.foldl_cons]
    apply ih
    rw [OMap.get_upsert, OMap.get_upsert, h]

theorem view_sorted (Hc : Entries → Bytes) {l : Logical} (h : OMap.Sorted l.main) :
    OMap.Sorted (Logical.view Hc l) := by
  unfold Logical.view
  generalize Logical.rootEntries Hc l.kids = es
  generalize l.main = m at h
  induction es generalizing m with
  | nil => exact h
  | cons e r ih => exact ih _ (OMap.sorted_upsert _ _ h)

theorem view_overlay (Hc : Entries → Bytes) {CK : Bytes → Bool} {b : Logical} {d : Diff}
    (hb : BaseInv CK b) (hd : DiffInv CK d) :
    Overlay (Logical.view Hc b) d.c.upserts d.c.deletes
      (Logical.view Hc { main := (effL b d).main, kids := b.kids }) := by
  have hw := effL_wf (d := d) hb.wf
  refine ⟨view_sorted Hc hb.wf.main, hd.sorted.c.ups, view_sorted Hc hw.main, hd.upsDel, ?_⟩
  intro x
  by_cases hc : Logical.isChildKey x = true
  · have h1 : x ∉ d.c.deletes := fun h => by
      have := hd.delsNoChild x h; rw [hc] at this; cases this
    have h2 := hd.upsCK x (Or.inr hc)
    simp only [h1, if_false, h2, ov_none]
    unfold Logical.view
    apply get_foldl_upsert_congr
    simp only
    rw [hw.noChild x hc, hb.wf.noChild x hc]
  · have hc' : Logical.isChildKey x = false := by simpa using hc
    rw [view_get Hc _ x hc', view_get Hc _ x hc', eff_main hb hd]

end Gossamer.C08
