/-
C04, from stored encodings to reads.  `Sto H db t N`: `N` is the node (C07 codec form, real children)
of the trie `t`, and the database holds, under its hash, the encoding of every proper descendant whose
encoding has 32 bytes or more, and, under `partialKey ‖ hash`, every storage value that is hashed.
Then the DECODED root encoding represents `t` (`Rep`), hence `GetFromDB` reads `t` exactly
(`getFromDB_rep`).  The decoder is the model of `node.Decode` of C07 (`C07_node_roundtrip`).
-/
import Gossamer.Lib.C04Read
import Gossamer.Props.C07
namespace Gossamer
namespace TrieHeap
open Trie TrieCodec

/-- `N` is the codec node of the trie `t`; everything below it that does not travel inside its
    parent's encoding is held by `G` (`G k v`: the store maps the key `k` to `v`) -/
def StoG (H : Bytes → Bytes) (G : Bytes → Bytes → Prop) : Trie → Node → Prop
  | .nil, n => n = .empty
  | .leaf pk v, n =>
    ∃ pkb hashed, n = .leaf pkb (some v) hashed ∧ pkb.map toNib = pk ∧
      (hashed = true → G (pkb ++ H v) v)
  | .branch pk v cs, n =>
    ∃ pkb hashed kids, n = .branch pkb v hashed kids ∧ pkb.map toNib = pk ∧
      (hashed = true → ∀ x, v = some x → G (pkb ++ H x) x) ∧
      ∀ i : Nib, StoG H G (cs i) ((kids[i.val]?).getD .empty) ∧
        (cs i ≠ .nil → 32 ≤ (encode H ((kids[i.val]?).getD .empty)).length →
          G (H (encode H ((kids[i.val]?).getD .empty))) (encode H ((kids[i.val]?).getD .empty)))

/-- the store may grow -/
theorem StoG.mono {H : Bytes → Bytes} {G G' : Bytes → Bytes → Prop} (h : ∀ k v, G k v → G' k v) :
    ∀ (t : Trie) (N : Node), StoG H G t N → StoG H G' t N
  | .nil, _, hs => hs
  | .leaf _ _, _, hs => by
    obtain ⟨pkb, hashed, h1, h2, h3⟩ := hs
    exact ⟨pkb, hashed, h1, h2, fun hh => h _ _ (h3 hh)⟩
  | .branch _ _ cs, _, hs => by
    obtain ⟨pkb, hashed, kids, h1, h2, h3, h4⟩ := hs
    exact ⟨pkb, hashed, kids, h1, h2, fun hh x hx => h _ _ (h3 hh x hx),
      fun i => ⟨StoG.mono h (cs i) _ (h4 i).1, fun a b => h _ _ ((h4 i).2 a b)⟩⟩

/-- the database holds the trie: `StoG` with `db.Get` -/
abbrev Sto (H : Bytes → Bytes) (db : DB) : Trie → Node → Prop :=
  StoG H (fun k v => dbGet db k = some v)

/-- the decoded form of one child slot -/
def viewKid (H : Bytes → Bytes) : Node → Node
  | .empty => .empty
  | .stub mv => .stub mv
  | .leaf a b c =>
    if (encode H (.leaf a b c)).length < 32 then C07.view H (.leaf a b c) else .stub (H (encode H (.leaf a b c)))
  | .branch a b c d =>
    if (encode H (.branch a b c d)).length < 32 then C07.view H (.branch a b c d)
    else .stub (H (encode H (.branch a b c d)))

theorem viewKid_leaf (H : Bytes → Bytes) (a : Bytes) (b : Option Bytes) (c : Bool) :
    viewKid H (.leaf a b c) =
      if (encode H (.leaf a b c)).length < 32 then C07.view H (.leaf a b c) else .stub (H (encode H (.leaf a b c))) :=
  rfl

theorem viewKid_branch (H : Bytes → Bytes) (a : Bytes) (b : Option Bytes) (c : Bool) (d : List Node) :
    viewKid H (.branch a b c d) =
      if (encode H (.branch a b c d)).length < 32 then C07.view H (.branch a b c d)
      else .stub (H (encode H (.branch a b c d))) := rfl

theorem viewKids_get (H : Bytes → Bytes) : ∀ (kids : List Node) (i : Nat),
    (C07.viewKids H kids)[i]? = (kids[i]?).map (viewKid H)
  | [], i => by simp [C07.viewKids]
  | c :: cs, 0 => by
    cases c <;> simp [C07.viewKids, viewKid]
  | c :: cs, i + 1 => by
    simp only [C07.viewKids, List.getElem?_cons_succ]
    exact viewKids_get H cs i

/-- what `WFKids` says of one child slot -/
def KidOK : Node → Prop
  | .empty => True
  | .stub mv => mv.length = 32
  | .leaf a b c => C07.WF (.leaf a b c)
  | .branch a b c d => C07.WF (.branch a b c d)

theorem wfKids_get : ∀ (kids : List Node) (i : Nat) (c : Node), C07.WFKids kids → kids[i]? = some c → KidOK c
  | [], i, c, _, h => by simp at h
  | d :: ds, 0, c, hw, h => by
    simp only [List.getElem?_cons_zero, Option.some.injEq] at h
    subst h
    unfold C07.WFKids at hw
    cases d <;> exact hw.1
  | d :: ds, i + 1, c, hw, h => by
    simp only [List.getElem?_cons_succ] at h
    unfold C07.WFKids at hw
    exact wfKids_get ds i c hw.2 h

theorem sto_nil_iff {H : Bytes → Bytes} {db : DB} {t : Trie} {n : Node} (h : Sto H db t n) :
    t = .nil ↔ n = .empty := by
  cases t with
  | nil => exact ⟨fun _ => h, fun _ => rfl⟩
  | leaf pk v =>
    obtain ⟨_, _, rfl, _⟩ := h
    exact ⟨(fun e => nomatch e), (fun e => nomatch e)⟩
  | branch pk v cs =>
    obtain ⟨_, _, _, rfl, _⟩ := h
    exact ⟨(fun e => nomatch e), (fun e => nomatch e)⟩

/-- the clause of `Rep` for one child slot -/
def KidRep (db : DB) (R : Node → Prop) (t : Trie) : Option Node → Prop
  | none => t = .nil
  | some .empty => t = .nil
  | some (.stub mv) => ∃ enc n', dbGet db mv = some enc ∧ decodeNode enc = some n' ∧ R n'
  | some (.leaf a b c) => R (.leaf a b c)
  | some (.branch a b c d) => R (.branch a b c d)

theorem rep_branch_iff (db : DB) (pk : Nibs) (v : Option Bytes) (cs : Nib → Trie) (n : Node) :
    Rep db (.branch pk v cs) n ↔
      ∃ pkb v' hashed kids, n = .branch pkb v' hashed kids ∧ IsNib pkb ∧ pkb.map toNib = pk ∧
        ValRep db pkb v' hashed v ∧ ∀ i : Nib, KidRep db (Rep db (cs i)) (cs i) kids[i.val]? := by
  constructor
  · rintro ⟨pkb, v', hashed, kids, h1, h2, h3, h4, h5⟩
    refine ⟨pkb, v', hashed, kids, h1, h2, h3, h4, fun i => ?_⟩
    have := h5 i
    cases hk : kids[i.val]? with
    | none => rw [hk] at this; exact this
    | some c => rw [hk] at this; cases c <;> exact this
  · rintro ⟨pkb, v', hashed, kids, h1, h2, h3, h4, h5⟩
    refine ⟨pkb, v', hashed, kids, h1, h2, h3, h4, fun i => ?_⟩
    have := h5 i
    cases hk : kids[i.val]? with
    | none => rw [hk] at this; exact this
    | some c => rw [hk] at this; cases c <;> exact this

/-- **stored encodings represent the trie**: the decoded form of a stored node represents `t` -/
theorem rep_of_sto (H : Bytes → Bytes) (hH : ∀ m, (H m).length = 32) (db : DB) :
    ∀ (t : Trie) (N : Node), Sto H db t N → C07.WF N → t ≠ .nil → Rep db t (C07.view H N)
  | .nil, _, _, _, hne => absurd rfl hne
  | .leaf pk v, N, h, hwf, _ => by
    obtain ⟨pkb, hashed, rfl, hpk, hv⟩ := h
    unfold C07.WF at hwf
    obtain ⟨hnib, _, _, _⟩ := hwf
    refine ⟨pkb, C07.viewValue H (some v) hashed, hashed, by simp [C07.view], hnib, hpk, ?_⟩
    cases hashed with
    | false => left; simp [C07.viewValue]
    | true => right; exact ⟨rfl, v, rfl, by simpa [C07.viewValue] using hv rfl⟩
  | .branch pk v cs, N, h, hwf, _ => by
    obtain ⟨pkb, hashed, kids, rfl, hpk, hv, hkids⟩ := h
    unfold C07.WF at hwf
    obtain ⟨hnib, _, _, hlen, hwk⟩ := hwf
    rw [rep_branch_iff]
    refine ⟨pkb, C07.viewValue H v hashed, hashed && v.isSome, C07.viewKids H kids, by simp [C07.view],
      hnib, hpk, ?_, ?_⟩
    · cases hashed with
      | false => left; cases v <;> simp [C07.viewValue]
      | true =>
        cases v with
        | none => left; simp [C07.viewValue]
        | some x => right; exact ⟨by simp, x, rfl, by simpa [C07.viewValue] using hv rfl x rfl⟩
    · intro i
      have hi : i.val < kids.length := by rw [hlen]; exact i.isLt
      obtain ⟨hsto, hdb⟩ := hkids i
      rw [viewKids_get]
      have hget : kids[i.val]? = some kids[i.val] := List.getElem?_eq_getElem hi
      rw [hget] at hsto hdb ⊢
      simp only [Option.getD_some, Option.map_some] at hsto hdb ⊢
      have hwc := wfKids_get kids i.val _ hwk hget
      generalize kids[i.val] = c at hsto hdb hwc ⊢
      cases c with
      | empty => exact (sto_nil_iff hsto).mpr rfl
      | stub mv =>
        -- a child that is only known by its hash is not the node of any trie
        exfalso
        cases hci : cs i with
        | nil => rw [hci] at hsto; cases hsto
        | leaf _ _ => rw [hci] at hsto; obtain ⟨_, _, h1, _⟩ := hsto; cases h1
        | branch _ _ _ => rw [hci] at hsto; obtain ⟨_, _, _, h1, _⟩ := hsto; cases h1
      | leaf a b c =>
        have hne : cs i ≠ .nil := fun e => by
          have := (sto_nil_iff hsto).mp e; cases this
        have hr := rep_of_sto H hH db (cs i) _ hsto hwc hne
        rw [viewKid_leaf]
        by_cases hl : (encode H (.leaf a b c)).length < 32
        · rw [if_pos hl]
          simp only [C07.view] at hr ⊢
          exact hr
        · rw [if_neg hl]
          refine ⟨_, _, hdb hne (by omega), ?_, hr⟩
          unfold decodeNode
          rw [C07.C07_node_roundtrip H hH true _ hwc]
      | branch a b c d =>
        have hne : cs i ≠ .nil := fun e => by
          have := (sto_nil_iff hsto).mp e; cases this
        have hr := rep_of_sto H hH db (cs i) _ hsto hwc hne
        rw [viewKid_branch]
        by_cases hl : (encode H (.branch a b c d)).length < 32
        · rw [if_pos hl]
          simp only [C07.view] at hr ⊢
          exact hr
        · rw [if_neg hl]
          refine ⟨_, _, hdb hne (by omega), ?_, hr⟩
          unfold decodeNode
          rw [C07.C07_node_roundtrip H hH true _ hwc]

/-- **A stored trie is read back exactly by `GetFromDB`.**  If the database holds the encoding of the
    root under the root hash and everything below it (`Sto`), then for every key — present or
    absent — `GetFromDB(db, root, key)` is the in-memory `Get`. -/
theorem getFromDB_of_sto (H : Bytes → Bytes) (hH : ∀ m, (H m).length = 32) (db : DB) (t : Trie) (N : Node)
    (hs : Sto H db t N) (hwf : C07.WF N) (hne : t ≠ .nil) (hroot : H (encode H N) ≠ H [0])
    (hdb : dbGet db (H (encode H N)) = some (encode H N)) (key : Bytes) :
    getFromDB H db (H (encode H N)) key = some (Trie.get t key) := by
  apply getFromDB_rep
  right
  refine ⟨hroot, _, _, hdb, ?_, rep_of_sto H hH db t N hs hwf hne⟩
  unfold decodeNode
  rw [C07.C07_node_roundtrip H hH true _ hwf]

end TrieHeap
end Gossamer
