/-
C33: what a SUCCESSFUL Go SCALE decode returns (any input, zero-filled short reads included):
a well-typed value all of whose Go `uint` leaves and sequence lengths lie in the range the Go
decoder accepts — hence a value that survives `Marshal` then `Unmarshal` (`unmarshal_reencode`).
Generic part (`decode_good`) over any primitive codec, then the instance for `C11.codec`.
-/
import Gossamer.Props.C12
namespace Gossamer.C33
open Gossamer Gossamer.Scale

theorem decN_all (f : Bytes → Option (Val × Bytes)) (P : Val → Prop)
    (hf : ∀ bs v r, f bs = some (v, r) → P v) :
    ∀ (n : Nat) (bs : Bytes) (vs : List Val) (r : Bytes),
      decN f n bs = some (vs, r) → vs.length = n ∧ ∀ v ∈ vs, P v := by
  intro n
  induction n with
  | zero =>
    intro bs vs r h
    simp only [decN, Option.some.injEq, Prod.mk.injEq] at h
    obtain ⟨h1, _⟩ := h; subst h1; simp
  | succ n ih =>
    intro bs vs r h
    simp only [decN] at h
    cases hd : f bs with
    | none => simp [hd] at h
    | some p =>
      obtain ⟨v, r1⟩ := p
      simp only [hd] at h
      cases hn : decN f n r1 with
      | none => simp [hn] at h
      | some q =>
        obtain ⟨ws, r2⟩ := q
        simp only [hn, Option.some.injEq, Prod.mk.injEq] at h
        obtain ⟨h1, _⟩ := h; subst h1
        have ⟨hl, hall⟩ := ih r1 ws r2 hn
        refine ⟨by simp [hl], ?_⟩
        intro w hw
        simp only [List.mem_cons] at hw
        rcases hw with e | e
        · subst e; exact hf bs _ r1 hd
        · exact hall w e

/-- the statement carried through the induction: well-typed, good leaves, and an enum returns the
    variant named by the first input byte -/
def Good (Q : Prim → Val → Bool) (QL : Nat → Bool) (t : Ty) (bs : Bytes) (v : Val) : Prop :=
  wt t v = true ∧ leavesOk Q QL t v = true ∧
    (t.isEnum = true → ∀ tag r0, bs = tag :: r0 → ∃ x, v = .variant tag.toNat x)

theorem decode_good (C : Codec) (Q : Prim → Val → Bool) (QL : Nat → Bool)
    (hP : ∀ p bs v r, C.decP p bs = some (v, r) → wtKind p.kind v = true ∧ Q p v = true)
    (hL : ∀ bs n r, C.decLen bs = some (n, r) → n < maxSeqLen ∧ QL n = true) :
    ∀ (t : Ty), t.wf = true → ∀ (bs : Bytes) (v : Val) (r : Bytes),
      decode C t bs = some (v, r) → Good Q QL t bs v := by
  intro t
  induction t with
  | prim p =>
    intro _ bs v r h
    have := hP p bs v r h
    exact ⟨by simpa [wt] using this.1, by simpa [leavesOk] using this.2, by simp [Ty.isEnum]⟩
  | unit =>
    intro _ bs v r h
    simp only [decode, Option.some.injEq, Prod.mk.injEq] at h
    obtain ⟨h1, _⟩ := h; subst h1
    exact ⟨by simp [wt], by simp [leavesOk], by simp [Ty.isEnum]⟩
  | pair a b iha ihb =>
    intro hwf bs v r h
    simp only [Ty.wf, Bool.and_eq_true] at hwf
    simp only [decode] at h
    cases ha : decode C a bs with
    | none => simp [ha] at h
    | some p =>
      obtain ⟨x, r1⟩ := p
      simp only [ha] at h
      cases hb : decode C b r1 with
      | none => simp [hb] at h
      | some q =>
        obtain ⟨y, r2⟩ := q
        simp only [hb, Option.some.injEq, Prod.mk.injEq] at h
        obtain ⟨h1, _⟩ := h; subst h1
        have ⟨w1, l1, _⟩ := iha hwf.1 bs x r1 ha
        have ⟨w2, l2, _⟩ := ihb hwf.2 r1 y r2 hb
        exact ⟨by simp [wt, w1, w2], by simp [leavesOk, l1, l2], by simp [Ty.isEnum]⟩
  | option t ih =>
    intro hwf bs v r h
    have ih := ih (by simpa [Ty.wf] using hwf)
    cases bs with
    | nil => simp [decode] at h
    | cons tag r0 =>
      simp only [decode] at h
      by_cases h0 : tag = 0
      · simp only [h0, if_true, Option.some.injEq, Prod.mk.injEq] at h
        obtain ⟨h1, _⟩ := h; subst h1
        exact ⟨by simp [wt], by simp [leavesOk], by simp [Ty.isEnum]⟩
      · by_cases h1 : tag = 1
        · subst h1
          simp only [h0, if_false, if_true] at h
          cases hd : decode C t r0 with
          | none => simp [hd] at h
          | some p =>
            obtain ⟨x, r1⟩ := p
            simp only [hd, Option.some.injEq, Prod.mk.injEq] at h
            obtain ⟨e1, _⟩ := h; subst e1
            have ⟨w, l, _⟩ := ih r0 x r1 hd
            exact ⟨by simp [wt, w], by simp [leavesOk, l], by simp [Ty.isEnum]⟩
        · simp [h0, h1] at h
  | result a b iha ihb =>
    intro hwf bs v r h
    simp only [Ty.wf, Bool.and_eq_true] at hwf
    cases bs with
    | nil => simp [decode] at h
    | cons tag r0 =>
      simp only [decode] at h
      by_cases h0 : tag = 0
      · subst h0
        simp only [if_true] at h
        cases hd : decode C a r0 with
        | none => simp [hd] at h
        | some p =>
          obtain ⟨x, r1⟩ := p
          simp only [hd, Option.some.injEq, Prod.mk.injEq] at h
          obtain ⟨e1, _⟩ := h; subst e1
          have ⟨w, l, _⟩ := iha hwf.1 r0 x r1 hd
          exact ⟨by simp [wt, w], by simp [leavesOk, l], by simp [Ty.isEnum]⟩
      · by_cases h1 : tag = 1
        · subst h1
          simp only [h0, if_false, if_true] at h
          cases hd : decode C b r0 with
          | none => simp [hd] at h
          | some p =>
            obtain ⟨x, r1⟩ := p
            simp only [hd, Option.some.injEq, Prod.mk.injEq] at h
            obtain ⟨e1, _⟩ := h; subst e1
            have ⟨w, l, _⟩ := ihb hwf.2 r0 x r1 hd
            exact ⟨by simp [wt, w], by simp [leavesOk, l], by simp [Ty.isEnum]⟩
        · simp [h0, h1] at h
  | array n t ih =>
    intro hwf bs v r h
    have ih := ih (by simpa [Ty.wf] using hwf)
    simp only [decode] at h
    cases hd : decN (decode C t) n bs with
    | none => simp [hd] at h
    | some p =>
      obtain ⟨vs, r1⟩ := p
      simp only [hd, Option.some.injEq, Prod.mk.injEq] at h
      obtain ⟨e1, _⟩ := h; subst e1
      have ⟨hl, hall⟩ := decN_all (decode C t) (fun v => wt t v = true ∧ leavesOk Q QL t v = true)
        (fun bs v r h => ⟨(ih bs v r h).1, (ih bs v r h).2.1⟩) n bs vs r1 hd
      refine ⟨?_, ?_, by simp [Ty.isEnum]⟩
      · simp only [wt, Bool.and_eq_true, beq_iff_eq, List.all_eq_true]
        exact ⟨hl, fun w hw => (hall w hw).1⟩
      · simp only [leavesOk, List.all_eq_true]
        exact fun w hw => (hall w hw).2
  | seq t ih =>
    intro hwf bs v r h
    have ih := ih (by simpa [Ty.wf] using hwf)
    simp only [decode] at h
    cases hl : C.decLen bs with
    | none => simp [hl] at h
    | some q =>
      obtain ⟨n, r0⟩ := q
      simp only [hl] at h
      cases hd : decN (decode C t) n r0 with
      | none => simp [hd] at h
      | some p =>
        obtain ⟨vs, r1⟩ := p
        simp only [hd, Option.some.injEq, Prod.mk.injEq] at h
        obtain ⟨e1, _⟩ := h; subst e1
        have ⟨hn, hq⟩ := hL bs n r0 hl
        have ⟨hlen, hall⟩ := decN_all (decode C t) (fun v => wt t v = true ∧ leavesOk Q QL t v = true)
          (fun bs v r h => ⟨(ih bs v r h).1, (ih bs v r h).2.1⟩) n r0 vs r1 hd
        refine ⟨?_, ?_, by simp [Ty.isEnum]⟩
        · simp only [wt, Bool.and_eq_true, decide_eq_true_eq, List.all_eq_true]
          exact ⟨by rw [hlen]; exact hn, fun w hw => (hall w hw).1⟩
        · simp only [leavesOk, Bool.and_eq_true, List.all_eq_true]
          exact ⟨by rw [hlen]; exact hq, fun w hw => (hall w hw).2⟩
  | enumNil => intro _ bs v r h; simp [decode] at h
  | enumCons i t rest iht ihr =>
    intro hwf bs v r h
    simp only [Ty.wf, Bool.and_eq_true] at hwf
    have hen := hwf.1.2
    cases bs with
    | nil => simp [decode] at h
    | cons tag r0 =>
      have htag := tag.toNat_lt
      simp only [decode] at h
      by_cases ht : tag.toNat = i
      · simp only [ht, if_true] at h
        cases hd : decode C t r0 with
        | none => simp [hd] at h
        | some p =>
          obtain ⟨x, r1⟩ := p
          simp only [hd, Option.some.injEq, Prod.mk.injEq] at h
          obtain ⟨e1, _⟩ := h; subst e1
          have ⟨w, l, _⟩ := iht hwf.1.1 r0 x r1 hd
          refine ⟨by simp [wt, w]; omega, by simp [leavesOk, l], ?_⟩
          intro _ tag' r0' e
          simp only [List.cons.injEq] at e
          exact ⟨x, by rw [← e.1, ht]⟩
      · simp only [ht, if_false] at h
        have ⟨w, l, hv⟩ := ihr hwf.2 (tag :: r0) v r h
        obtain ⟨x, hx⟩ := hv hen tag r0 rfl
        subst hx
        have hji : ¬ tag.toNat = i := ht
        refine ⟨by rw [wt_enumCons_ne _ _ _ hji]; exact w, by simp [leavesOk, hji, l], ?_⟩
        intro _ tag' r0' e
        simp only [List.cons.injEq] at e
        exact ⟨x, by rw [← e.1]⟩

/-! ## the Go primitives -/

theorem decBytes_good (bs : Bytes) (v : Val) (r : Bytes) (h : (C11.decBytes bs).res = some (v, r)) :
    ∃ b, v = .bytes b ∧ b.length < maxBytesLen := by
  unfold C11.decBytes at h
  simp only at h
  cases hd : C11.decodeUintV bs with
  | none => simp [hd, C11.PRes.fail] at h
  | some q =>
    obtain ⟨len, r0⟩ := q
    simp only [hd] at h
    split at h
    · simp [C11.PRes.fail] at h
    · rename_i h1
      split at h
      · simp only [C11.PRes.ok, Option.some.injEq, Prod.mk.injEq] at h
        exact ⟨[], h.1.symm, by simp [maxBytesLen]⟩
      · split at h
        · simp [C11.PRes.fail] at h
        · simp only [C11.PRes.ok, Option.some.injEq, Prod.mk.injEq] at h
          refine ⟨_, h.1.symm, ?_⟩
          simp only [List.length_append, List.length_take, List.length_replicate, maxBytesLen]
          have : (4294967296 : Nat) = 2 ^ 32 := by decide
          omega

theorem zf_false_of_not_bytes (p : Prim) (bs : Bytes) (h1 : p ≠ .bytes) (h2 : p ≠ .str) :
    (C11.decPA p bs).zf = false := by
  have hf : ∀ w s, (C11.decFixed w s bs).zf = false := by
    intro w s; unfold C11.decFixed; split <;> rfl
  cases p <;> simp only [C11.decPA] <;> first
    | exact hf _ _
    | exact (C11.decCompact_spec bs).2
    | exact (C11.decBig_spec bs).2
    | exact (C11.decBool_spec bs).2
    | exact absurd rfl h1
    | exact absurd rfl h2

theorem okLeaf_of_goFilter (p : Prim) (o : Option (Val × Bytes)) (v : Val) (r : Bytes)
    (h : C11.goFilter p o = some (v, r)) : C11.okLeaf p v = true := by
  cases p <;> try (cases v <;> rfl)
  -- compact
  cases o with
  | none => simp [C11.goFilter] at h
  | some q =>
    obtain ⟨w, r'⟩ := q
    cases w <;> simp only [C11.goFilter] at h
    case nat n =>
      by_cases hok : C11.uintOk n = true
      · simp only [hok, if_true, Option.some.injEq, Prod.mk.injEq] at h
        rw [← h.1]; exact hok
      · simp [hok] at h
    all_goals (simp only [Option.some.injEq, Prod.mk.injEq] at h; rw [← h.1]; rfl)

/-- a successful Go primitive decode returns a value of the type, inside the re-decodable range -/
theorem prim_good (p : Prim) (bs : Bytes) (v : Val) (r : Bytes)
    (h : C11.codec.decP p bs = some (v, r)) : wtKind p.kind v = true ∧ C11.okLeaf p v = true := by
  have h' : (C11.decPA p bs).res = some (v, r) := h
  by_cases hb : p = .bytes
  · subst hb
    obtain ⟨b, hv, hl⟩ := decBytes_good bs v r h'
    subst hv; exact ⟨by simpa [Prim.kind, wtKind] using hl, rfl⟩
  · by_cases hs : p = .str
    · subst hs
      obtain ⟨b, hv, hl⟩ := decBytes_good bs v r h'
      subst hv; exact ⟨by simpa [Prim.kind, wtKind] using hl, rfl⟩
    · have hz := zf_false_of_not_bytes p bs hb hs
      have e := (C11.decPA_spec p bs).1 hz
      rw [e] at h'
      have hspec := C12.goFilter_some p _ _ h'
      exact ⟨(Spec.snd.sndP p bs v r hspec).1, okLeaf_of_goFilter p _ v r h'⟩

theorem len_good (bs : Bytes) (n : Nat) (r : Bytes) (h : C11.codec.decLen bs = some (n, r)) :
    n < maxSeqLen ∧ C11.okLen n = true := by
  have h' : C11.decodeUintV bs = some (n, r) := h
  rw [C11.decodeUint_spec] at h'
  have hc := C12.filt_some _ _ h'
  have hok : C11.uintOk n = true := by
    rw [hc] at h'
    by_cases hok : C11.uintOk n = true
    · exact hok
    · simp [C11.filt, hok] at h'
  have hlt := C11.uintOk_lt hok
  exact ⟨by rw [C11.maxSeqLen_eq, C11.pow2_64, ← C11.pow256_8]; exact hlt, hok⟩

/-- what `scale.Unmarshal` returns is well-typed and re-decodable -/
theorem unmarshal_good (t : Ty) (hwf : t.wf = true) (bs : Bytes) (v : Val) (r : Bytes)
    (h : C11.unmarshal t bs = some (v, r)) :
    wt t v = true ∧ leavesOk C11.okLeaf C11.okLen t v = true := by
  have := decode_good C11.codec C11.okLeaf C11.okLen prim_good len_good t hwf bs v r h
  exact ⟨this.1, this.2.1⟩

/-- **re-encoding**: a decoded value, marshalled, decodes to itself with nothing left -/
theorem unmarshal_reencode (t : Ty) (hwf : t.wf = true) (bs : Bytes) (v : Val) (r : Bytes)
    (h : C11.unmarshal t bs = some (v, r)) :
    C11.unmarshal t (C11.marshal t v) = some (v, []) := by
  have ⟨w, l⟩ := unmarshal_good t hwf bs v r h
  have := C11.C11_roundtrip_partial t v [] w l
  simpa using this

end Gossamer.C33
