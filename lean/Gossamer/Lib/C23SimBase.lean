/-
C23: list helpers, the digests of a well-formed header, `RInv` along fresh histories, and the simulation
relation between the model state and the specification state.  Core Lean only.
-/
import Gossamer.Lib.C23Fin
namespace Gossamer.C23

/-! ### lists -/

theorem find?_filter_of_imp {α : Type} (P keep : α → Bool) : ∀ (l : List α),
    (∀ x ∈ l, P x = true → keep x = true) → (l.filter keep).find? P = l.find? P := by
  intro l
  induction l with
  | nil => intro _; rfl
  | cons a l ih =>
    intro h
    have ih' := ih (fun x hx => h x (by simp [hx]))
    by_cases hk : keep a = true
    · simp only [List.filter, hk, List.find?]
      cases P a <;> simp [ih']
    · have hk' : keep a = false := by simpa using hk
      have hp : P a = false := by
        cases hpa : P a with
        | false => rfl
        | true => have := h a (by simp) hpa; rw [hk'] at this; exact absurd this (by simp)
      simp only [List.filter, hk', List.find?, hp]
      exact ih'

theorem any_filter_of_find_none {α : Type} (P keep : α → Bool) (l : List α) (h : l.find? P = none) :
    (l.filter keep).any P = false := by
  rw [List.find?_eq_none] at h
  rw [List.any_eq_false]
  intro x hx
  have := h x (List.mem_filter.1 hx).1
  simpa using this

theorem pairwise_mem {α : Type} {R : α → α → Prop} : ∀ {l : List α}, l.Pairwise R → ∀ {a b : α}, a ∈ l → b ∈ l →
    a = b ∨ R a b ∨ R b a := by
  intro l h
  induction h with
  | nil => intro a b ha; simp at ha
  | cons hx _ ih =>
    intro a b ha hb
    simp only [List.mem_cons] at ha hb
    rcases ha with rfl | ha
    · rcases hb with rfl | hb
      · exact Or.inl rfl
      · exact Or.inr (Or.inl (hx _ hb))
    · rcases hb with rfl | hb
      · exact Or.inr (Or.inr (hx _ ha))
      · exact ih ha hb

theorem find?_perm_unique {α : Type} (P : α → Bool) {l l' : List α} (hp : l.Perm l')
    (hu : ∀ a ∈ l, ∀ b ∈ l, P a = true → P b = true → a = b) : l.find? P = l'.find? P := by
  cases h : l.find? P with
  | none =>
    rw [List.find?_eq_none] at h
    symm
    rw [List.find?_eq_none]
    intro x hx
    exact h x (hp.symm.subset hx)
  | some a =>
    have ha := List.find?_some h
    have ham := List.mem_of_find?_eq_some h
    cases h' : l'.find? P with
    | none =>
      rw [List.find?_eq_none] at h'
      have := h' a (hp.subset ham)
      rw [ha] at this; exact absurd this (by simp)
    | some a' =>
      have ha' := List.find?_some h'
      have ham' := hp.symm.subset (List.mem_of_find?_eq_some h')
      rw [hu a ham a' ham' ha ha']

theorem lookup_enact (m : List (Nat × Nat)) (l : List Nat) (k v : Nat) (hlen : l.length = k + 1)
    (h : ∀ i, i ≤ k → lookup m i = l[i]?) : ∀ i, i ≤ k + 1 → lookup ((k + 1, v) :: m) i = (l ++ [v])[i]? := by
  intro i hi
  rw [lookup_cons]
  by_cases e : k + 1 = i
  · subst e
    simp [List.getElem?_append_right, hlen]
  · have hik : i ≤ k := by omega
    simp only [e, if_false, h i hik]
    rw [List.getElem?_append_left (by omega)]

/-! ### the digests of a header -/

theorem digests_wellformed (ds : List Ann) (h1 : (ds.filter (fun d : Ann => d.forced)).length ≤ 1)
    (h2 : (ds.filter (fun d : Ann => !d.forced)).length ≤ 1) :
    filterDigests ds =
      (match ds.find? (fun d : Ann => d.forced) with | some f => some f | none => ds.head?).toList := by
  unfold filterDigests
  match ds, h1, h2 with
  | [], _, _ => simp
  | [a], _, _ =>
    cases ha : a.forced <;> simp [ha, List.filter, List.find?]
  | [a, b], h1, h2 =>
    cases ha : a.forced <;> cases hb : b.forced <;> simp [ha, hb, List.filter, List.find?] at h1 h2 ⊢
  | a :: b :: c :: rest, h1, h2 =>
    exfalso
    cases ha : a.forced <;> cases hb : b.forced <;> cases hc : c.forced <;>
      simp [ha, hb, hc, List.filter] at h1 h2 <;> omega

theorem digests_of_header (t : Tree) (b : Nat) (h : malformed t b = false) :
    filterDigests (t.anns.filter (·.blk = b)) = (signalled t b).toList := by
  unfold malformed at h
  simp only [Bool.or_eq_false_iff, decide_eq_false_iff_not, Nat.not_lt] at h
  exact digests_wellformed _ h.1 h.2

theorem signalled_blk (t : Tree) (b : Nat) (d : Ann) (h : signalled t b = some d) : d.blk = b := by
  unfold signalled at h
  dsimp only at h
  have key : ∀ x ∈ t.anns.filter (·.blk = b), x.blk = b := by
    intro x hx; simpa using (List.mem_filter.1 hx).2
  split at h
  · rename_i f hf
    simp only [Option.some.injEq] at h; subst h
    exact key _ (List.mem_of_find?_eq_some hf)
  · exact key _ (List.mem_of_mem_head? h)

/-! ### `RInv` along a fresh history -/

theorem importKids_blocks (t : Tree) (isD : IsD) (pc : Ann) : ∀ (l l' : List Node),
    importKids t isD pc l = .ok (some l') → ∀ x ∈ blocksF l', x = pc.blk ∨ x ∈ blocksF l
  | [], _, h => by rw [importKids_nil] at h; simp at h
  | .mk c kids :: rest, l', h => by
    rw [importKids_cons] at h
    intro x hx
    split at h
    · exact absurd h (by simp)
    · rename_i n' hn
      simp only [Except.ok.injEq, Option.some.injEq] at h; subst h
      -- the node took the change
      rw [importNode_mk] at hn
      split at hn
      · exact absurd hn (by simp)
      · split at hn
        · exact absurd hn (by simp)
        · exact absurd hn (by simp)
        · split at hn
          · exact absurd hn (by simp)
          · split at hn
            · exact absurd hn (by simp)
            · rename_i kids' hk
              simp only [Except.ok.injEq, Option.some.injEq] at hn; subst hn
              simp only [blocksF_cons, List.mem_cons, List.mem_append] at hx ⊢
              rcases hx with hx | hx | hx
              · exact Or.inr (Or.inl hx)
              · rcases importKids_blocks t isD pc kids kids' hk x hx with h' | h'
                · exact Or.inl h'
                · exact Or.inr (Or.inr (Or.inl h'))
              · exact Or.inr (Or.inr (Or.inr hx))
            · simp only [Except.ok.injEq, Option.some.injEq] at hn; subst hn
              simp only [blocksF_cons, blocksF_append, blocksF_nil, List.mem_cons, List.mem_append,
                List.append_nil, List.not_mem_nil, or_false] at hx ⊢
              rcases hx with hx | (hx | hx) | hx
              · exact Or.inr (Or.inl hx)
              · exact Or.inr (Or.inr (Or.inl hx))
              · exact Or.inl hx
              · exact Or.inr (Or.inr (Or.inr hx))
    · split at h
      · exact absurd h (by simp)
      · rename_i rest' hr
        simp only [Except.ok.injEq, Option.some.injEq] at h; subst h
        simp only [blocksF_cons, List.mem_cons, List.mem_append] at hx ⊢
        rcases hx with hx | hx | hx
        · exact Or.inr (Or.inl hx)
        · exact Or.inr (Or.inr (Or.inl hx))
        · rcases importKids_blocks t isD pc rest rest' hr x hx with h' | h'
          · exact Or.inl h'
          · exact Or.inr (Or.inr (Or.inr h'))
      · exact absurd h (by simp)

theorem schedImport_blocks (t : Tree) (isD : IsD) (pc : Ann) (l l' : List Node)
    (h : schedImport t isD pc l = .ok l') : ∀ x ∈ blocksF l', x = pc.blk ∨ x ∈ blocksF l := by
  unfold schedImport at h
  split at h
  · exact absurd h (by simp)
  · rename_i r hr
    simp only [Except.ok.injEq] at h; subst h
    exact importKids_blocks t isD pc l _ hr
  · simp only [Except.ok.injEq] at h; subst h
    intro x hx
    simp only [blocksF_append, blocksF_cons, blocksF_nil, List.mem_append, List.mem_cons, List.append_nil,
      List.not_mem_nil, or_false] at hx
    rcases hx with hx | hx
    · exact Or.inr hx
    · exact Or.inl hx

/-- the roots only gain the block being imported while its digests are handled -/
theorem handleDigests_blocks {t : Tree} {b : Nat} : ∀ (ds : List Ann) (s s' : St), (∀ d ∈ ds, d.blk = b) →
    handleDigests t s ds = .ok s' → ∀ x ∈ blocksF s'.roots, x = b ∨ x ∈ blocksF s.roots := by
  intro ds
  induction ds with
  | nil => intro s s' _ h; simp only [handleDigests, Except.ok.injEq] at h; subst h; exact fun x hx => Or.inr hx
  | cons d ds ih =>
    intro s s' hds h
    simp only [handleDigests] at h
    have hd := hds d (by simp)
    have hds' : ∀ d ∈ ds, d.blk = b := fun x hx => hds x (by simp [hx])
    split at h
    · split at h
      · exact absurd h (by simp)
      · rename_i f _
        exact ih { s with forced := f } _ hds' h
    · split at h
      · exact absurd h (by simp)
      · rename_i r hr
        intro x hx
        rcases ih { s with roots := r } _ hds' h x hx with h' | h'
        · exact Or.inl h'
        · rcases schedImport_blocks t _ d s.roots r hr x h' with h'' | h''
          · exact Or.inl (h''.trans hd)
          · exact Or.inr h''

theorem handleDigestsPartial_blocks {t : Tree} {b : Nat} : ∀ (ds : List Ann) (s : St), (∀ d ∈ ds, d.blk = b) →
    ∀ x ∈ blocksF (handleDigestsPartial t s ds).roots, x = b ∨ x ∈ blocksF s.roots := by
  intro ds
  induction ds with
  | nil => intro s _ x hx; exact Or.inr hx
  | cons d ds ih =>
    intro s hds
    simp only [handleDigestsPartial]
    have hd := hds d (by simp)
    have hds' : ∀ d ∈ ds, d.blk = b := fun x hx => hds x (by simp [hx])
    split
    · split
      · exact fun x hx => Or.inr hx
      · rename_i f _
        exact ih { s with forced := f } hds'
    · split
      · exact fun x hx => Or.inr hx
      · rename_i r hr
        intro x hx
        rcases ih { s with roots := r } hds' x hx with h' | h'
        · exact Or.inl h'
        · rcases schedImport_blocks t _ d s.roots r hr x h' with h'' | h''
          · exact Or.inl (h''.trans hd)
          · exact Or.inr h''

theorem lookupRoots_mem (cond : Node → Except Err Bool) : ∀ (l : List Node) (r : Node),
    lookupRoots cond l = .ok (some r) → r ∈ l := by
  intro l
  induction l with
  | nil => intro r h; simp [lookupRoots] at h
  | cons a l ih =>
    intro r h
    simp only [lookupRoots] at h
    split at h
    · exact absurd h (by simp)
    · simp only [Except.ok.injEq, Option.some.injEq] at h; subst h; simp
    · exact List.mem_cons_of_mem _ (ih r h)

theorem schedFindApplicable_blocks (t : Tree) (s : St) (b n : Nat) (res : Option Node) (roots' : List Node)
    (h : schedFindApplicable t (isDesc t s) b n s.roots = .ok (res, roots')) :
    ∀ x ∈ blocksF roots', x ∈ blocksF s.roots := by
  unfold schedFindApplicable at h
  split at h
  · exact absurd h (by simp)
  · rename_i r hr
    simp only [Except.ok.injEq, Prod.mk.injEq] at h
    rw [← h.2]
    exact fun x hx => mem_blocksF_kids (lookupRoots_mem _ _ _ hr) hx
  · rw [schedPrune_eq _ _ (isDesc_ne_none t s)] at h
    simp only [Except.ok.injEq, Prod.mk.injEq] at h
    rw [← h.2]
    exact fun x hx => blocksF_filter_sub _ _ hx

theorem rInv_init (t : Tree) : RInv t St.init := by
  intro x hx; simp [St.init, blocksF_nil] at hx

theorem rInv_step {t : Tree} (wf : t.WF) (s : St) (op : Op) (hl : LiveInv t s) (hfresh : FreshOp t s op)
    (hr : RInv t s) : RInv t (step t s op).1 := by
  cases op with
  | imp b =>
    simp only [step, importBlock]
    split
    · exact hr
    · rename_i hpar
      simp only [Bool.not_eq_true', Bool.not_eq_false] at hpar
      have hb : inBt t s b = false := hfresh
      simp only [hb, Bool.false_eq_true, if_false]
      have hr0 : ∀ (s1 : St), s1.live = s.live ++ [b] → s1.root = s.root →
          (∀ x ∈ blocksF s1.roots, x = b ∨ x ∈ blocksF s.roots) → RInv t s1 := by
        intro s1 e1 e2 hsub x hx
        rw [e1, e2]
        rcases hsub x hx with rfl | h'
        · exact Or.inl (by simp)
        · rcases hr x h' with h'' | h''
          · exact Or.inl (by simp [h''])
          · exact Or.inr h''
      split
      · have hc := handleDigestsPartial_core t (filterDigests (t.anns.filter (·.blk = b)))
          { s with live := s.live ++ [b] }
        exact hr0 _ hc.2.2.2.1 hc.2.2.2.2 (handleDigestsPartial_blocks _ _ (filterDigests_blk t b))
      · rename_i s1 hd
        have hc := handleDigests_core t _ _ _ hd
        have h1 := hr0 s1 hc.2.2.2.1 hc.2.2.2.2 (handleDigests_blocks _ { s with live := s.live ++ [b] } _ (filterDigests_blk t b) hd)
        split
        · exact h1
        · rename_i s2 hfo
          have hfr := applyForced_frame t s1 s2 b hfo
          rcases hfr.2.2 with ⟨_, e2⟩ | ⟨_, e2⟩
          · exact rInv_of_sub hfr.1 hfr.2.1 (by rw [e2]; exact fun x hx => hx) h1
          · intro x hx; rw [e2, blocksF_nil] at hx; simp at hx
  | fin b =>
    simp only [step, finalise]
    split
    · exact hr
    · rename_i s1 hs
      unfold setFinalised at hs
      split at hs
      · rename_i hb
        simp only [Option.some.injEq] at hs
        have h1 : RInv t s1 := by rw [← hs]; exact rInv_setFinalised wf hr hb
        split
        · have hfr := applyScheduledPartial_frame t s1 b
          exact rInv_of_sub hfr.1 hfr.2.1 (by rw [hfr.2.2.2]; exact fun x hx => hx) h1
        · rename_i s2 ha
          have hfr := applyScheduled_frame t s1 s2 b ha
          refine rInv_of_sub hfr.1 hfr.2.1 ?_ h1
          -- the roots after `ApplyScheduledChanges` come from the roots before
          unfold applyScheduled at ha
          rw [forcedPrune_eq _ _ (isDesc_ne_none t s1)] at ha
          dsimp only at ha
          split at ha
          · simp only [Except.ok.injEq] at ha; subst ha; exact fun x hx => hx
          · split at ha
            · exact absurd ha (by simp)
            · rename_i roots' hsf
              simp only [Except.ok.injEq] at ha; subst ha
              exact schedFindApplicable_blocks t { s1 with forced := _ } b _ none roots'
                (by rw [isDesc_congr t _ s1 rfl] at hsf ⊢; exact hsf)
            · rename_i r roots' hsf
              simp only [Except.ok.injEq] at ha; subst ha
              exact schedFindApplicable_blocks t { s1 with forced := _ } b _ (some r) roots'
                (by rw [isDesc_congr t _ s1 rfl] at hsf ⊢; exact hsf)
      · exact absurd hs (by simp)

theorem rInv_run {t : Tree} (wf : t.WF) (ops : List Op) : ∀ s, LiveInv t s → RInv t s → Fresh t s ops →
    RInv t (run t s ops) := by
  induction ops with
  | nil => intro s _ h _; exact h
  | cons op ops ih =>
    intro s hl hr hfr
    exact ih _ (liveInv_step wf s op hl) (rInv_step wf s op hl hfr.1 hr) hfr.2

end Gossamer.C23
