/-
C06, step 3: one `TrieDB` session that starts on an empty database.  The in-memory tree is the
all-new image of the canonical trie of the current map; `commit` hashes the spec encoding.
-/
import Gossamer.Lib.TrieDBEnc
set_option linter.unusedSectionVars false
set_option linter.unusedSimpArgs false
namespace Gossamer.C06
open Gossamer Gossamer.Trie

/-! ### the shadow operations refine the ordered map -/

theorem entriesN_tRemove (t : Trie) (key : Nibs) :
    entriesN (tRemove t key) = OMap.erase key (entriesN t) := by
  apply OMap.sorted_ext (sorted_entriesN _) (OMap.sorted_erase _ (sorted_entriesN t))
  intro k
  rw [get_entriesN, lookup_tRemove, OMap.get_erase, get_entriesN]

theorem rep_tInsert {t : Trie} {es : Entries} (h : Rep t es) (k v : Bytes) :
    Rep (tInsert t (toNibs k) v) (OMap.upsert k v es) := by
  have := h.put k v
  rwa [Trie.put, keyLEToNibbles_eq, ← tInsert_eq] at this

theorem rep_tRemove {t : Trie} {es : Entries} (h : Rep t es) (k : Bytes) :
    Rep (tRemove t (toNibs k)) (OMap.erase k es) := by
  refine ⟨OMap.sorted_erase _ h.sorted, canon_tRemove _ _ h.canon, ?_⟩
  rw [entriesN_tRemove, h.entries, OMap.erase_mapK toNibs_keyEmb]

/-! ### the state of a session over the empty database -/

/-- the root handle that stands for the trie `t`: the hash of the empty node for the empty trie,
    the all-new in-memory image otherwise -/
def rootOf (ver : Ver) (H : Bytes → Bytes) (t : Trie) : Hd :=
  if t.isNil then .persisted (H [0]) else ofTrie ver t

/-- session state: nothing written yet, the root handle stands for `t`, and the root hash is the
    hash of the empty node while the trie is empty -/
structure Sess (c : Cfg) (s : St) (t : Trie) : Prop where
  db : s.db = []
  root : s.root = rootOf c.ver c.H t
  hash : t = nil → s.rootHash = c.H [0]

theorem hasSuffix_self (k : Bytes) : hasSuffix k k = true := by
  simp [hasSuffix]

theorem sess_init (c : Cfg) : Sess c (St.init c.H) nil := ⟨rfl, rfl, fun _ => rfl⟩

theorem load_empty (c : Cfg) (hdec0 : c.dec [0] = some .empty) (s : St) :
    (c.env s).load [] (c.H [0]) = some (.empty (some (c.H [0]))) := by
  simp [Env.load, Cfg.env, dbGet, rowKey, prefixBytes, hasSuffix_self, ofEncoded, hdec0]

theorem isNil_false_of_ne {t : Trie} (h : t ≠ nil) : t.isNil = false := by
  cases t <;> simp_all [Trie.isNil]

/-- `Put` keeps the session relation: the new tree is the image of `tInsert` -/
theorem sess_put (c : Cfg) (hdec0 : c.dec [0] = some .empty) {s : St} {t : Trie} (h : Sess c s t)
    (k v : Bytes) : ∃ s', doPut c s k v = .ok s' ∧ Sess c s' (tInsert t (toNibs k) v) := by
  have hne : tInsert t (toNibs k) v ≠ nil := by
    rw [tInsert_eq]
    cases t with
    | nil => simp [Trie.insert]
    | leaf pk lv => simp only [Trie.insert]; exact (insertInLeaf_ne_nil pk lv _ _).1
    | branch pk bv cs =>
      intro e
      have := lookup_insert (branch pk bv cs) (toNibs k) v (toNibs k)
      rw [e] at this
      simp at this
  by_cases ht : t = nil
  · subst ht
    have hr : s.root = .persisted (c.H [0]) := by rw [h.root]; rfl
    refine ⟨{ s with root := .leaf none (toNibs k) (newValue c.ver v),
                     death := rowKey [] (c.H [0]) :: s.death }, ?_, ?_⟩
    · simp only [doPut, hr, insertAt, insertNode, Env.resolve, load_empty c hdec0, afterInspect, Hd.cached,
        Hd.asNew]
      rfl
    · refine ⟨h.db, ?_, fun e => absurd e hne⟩
      simp [rootOf, tInsert, Trie.isNil, ofTrie]
  · have hr : s.root = ofTrie c.ver t := by rw [h.root, rootOf, isNil_false_of_ne ht]; rfl
    obtain ⟨ch, hch⟩ := insertAt_ofTrie (c.env s) t ht ((toNibs k).length + 1) [] (toNibs k) v
      s.death (by omega)
    refine ⟨{ s with root := ofTrie c.ver (tInsert t (toNibs k) v) }, ?_, ?_⟩
    · have hv : (c.env s).ver = c.ver := rfl
      rw [hv] at hch
      simp only [doPut, hr, hch]
    · refine ⟨h.db, ?_, fun e => absurd e hne⟩
      simp [rootOf, isNil_false_of_ne hne]

/-- `Delete` keeps the session relation: the new tree is the image of `tRemove` -/
theorem sess_del (c : Cfg) (hdec0 : c.dec [0] = some .empty) {s : St} {t : Trie} (h : Sess c s t)
    (hcan : Canon t) (k : Bytes) : ∃ s', doDel c s k = .ok s' ∧ Sess c s' (tRemove t (toNibs k)) := by
  by_cases ht : t = nil
  · subst ht
    have hr : s.root = .persisted (c.H [0]) := by rw [h.root]; rfl
    refine ⟨{ s with root := .persisted (c.H [0]), rootHash := c.H [0],
                     death := rowKey [] (c.H [0]) :: s.death }, ?_, ?_⟩
    · simp only [doDel, hr, removeAt, removeNode, Env.resolve, load_empty c hdec0, afterDelete, Hd.cached]
    · exact ⟨h.db, rfl, fun _ => rfl⟩
  · have hr : s.root = ofTrie c.ver t := by rw [h.root, rootOf, isNil_false_of_ne ht]; rfl
    obtain ⟨ch, hch⟩ := removeAt_ofTrie (c.env s) t ht hcan ((toNibs k).length + 1) [] (toNibs k)
      s.death (by omega)
    have hv : (c.env s).ver = c.ver := rfl
    rw [hv] at hch
    by_cases hn : (tRemove t (toNibs k)).isNil = true
    · refine ⟨{ s with root := .persisted (c.H [0]), rootHash := c.H [0] }, ?_, ?_⟩
      · simp only [doDel, hr, hch, hn, if_true]
      · refine ⟨h.db, ?_, fun _ => rfl⟩
        simp [rootOf, hn]
    · refine ⟨{ s with root := ofTrie c.ver (tRemove t (toNibs k)) }, ?_, ?_⟩
      · simp only [doDel, hr, hch, hn, Bool.false_eq_true, if_false]
      · refine ⟨h.db, ?_, fun e => ?_⟩
        · simp [rootOf, hn]
        · rw [e] at hn; simp [Trie.isNil] at hn

/-- `commit` of a session: the root hash is the hash of the spec encoding of the trie -/
theorem sess_commit (c : Cfg) {s : St} {t : Trie} (h : Sess c s t) :
    ∃ s', commit c.H s = .ok s' ∧ s'.rootHash = hashTrie c.ver c.H t := by
  by_cases ht : t = nil
  · subst ht
    have hr : s.root = .persisted (c.H [0]) := by rw [h.root]; rfl
    refine ⟨{ s with death := [] }, ?_, ?_⟩
    · simp only [commit, hr]
    · simp [h.hash rfl, hashTrie, encodeNode]
  · have hr : s.root = ofTrie c.ver t := by rw [h.root, rootOf, isNil_false_of_ne ht]; rfl
    have henc := encNew_ofTrie c.ver c.H t ht []
    cases t with
    | nil => exact absurd rfl ht
    | leaf pk v =>
      simp only [ofTrie] at hr henc
      refine ⟨_, by simp only [commit, hr, Hd.cached, henc]; rfl, ?_⟩
      rfl
    | branch pk v cs =>
      simp only [ofTrie] at hr henc
      refine ⟨_, by simp only [commit, hr, Hd.cached, henc]; rfl, ?_⟩
      rfl

end Gossamer.C06
