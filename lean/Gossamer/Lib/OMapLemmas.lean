/-
Lemmas about the ordered-map specification `OMap` (sorted association lists over list keys).
-/
import Gossamer.Lib.TrieSpec
set_option linter.unusedSectionVars false
set_option linter.unusedSimpArgs false
namespace Gossamer
open Rank

section klt
variable {α : Type} [Rank α]

theorem klt_nil_right (a : List α) : klt a [] = false := by
  cases a <;> rfl

theorem klt_irrefl (a : List α) : klt a a = false := by
  induction a with
  | nil => rfl
  | cons x xs ih => simp [klt, ih]

theorem klt_trans {a b c : List α} (h1 : klt a b = true) (h2 : klt b c = true) :
    klt a c = true := by
  induction a generalizing b c with
  | nil =>
    cases b with
    | nil => simp [klt] at h1
    | cons y ys => cases c with
      | nil => simp [klt] at h2
      | cons z zs => simp [klt]
  | cons x xs ih =>
    cases b with
    | nil => simp [klt] at h1
    | cons y ys =>
      cases c with
      | nil => simp [klt] at h2
      | cons z zs =>
        simp only [klt, Bool.or_eq_true, decide_eq_true_eq, Bool.and_eq_true, beq_iff_eq] at h1 h2 ⊢
        rcases h1 with h1 | ⟨e1, h1⟩ <;> rcases h2 with h2 | ⟨e2, h2⟩
        · left; omega
        · left; omega
        · left; omega
        · right; exact ⟨by omega, ih h1 h2⟩

theorem klt_asymm {a b : List α} (h : klt a b = true) : klt b a = false := by
  cases hb : klt b a with
  | false => rfl
  | true => have := klt_trans h hb; simp [klt_irrefl] at this

theorem klt_trichotomy (a b : List α) : klt a b = true ∨ a = b ∨ klt b a = true := by
  induction a generalizing b with
  | nil => cases b with
    | nil => right; left; rfl
    | cons y ys => left; rfl
  | cons x xs ih =>
    cases b with
    | nil => right; right; rfl
    | cons y ys =>
      simp only [klt, Bool.or_eq_true, decide_eq_true_eq, Bool.and_eq_true, beq_iff_eq, List.cons.injEq]
      rcases Nat.lt_trichotomy (rank x) (rank y) with h | h | h
      · left; left; exact h
      · rcases ih ys with h' | h' | h'
        · left; right; exact ⟨h, h'⟩
        · right; left; exact ⟨rank_inj h, h'⟩
        · right; right; right; exact ⟨h.symm, h'⟩
      · right; right; left; exact h

theorem klt_ne {a b : List α} (h : klt a b = true) : a ≠ b := by
  intro e; subst e; simp [klt_irrefl] at h

/-- a key is smaller than each of its proper extensions -/
theorem klt_append_cons (a : List α) (x : α) (r : List α) : klt a (a ++ x :: r) = true := by
  induction a with
  | nil => rfl
  | cons y ys ih => simp [klt, ih]

theorem klt_append_left (p a b : List α) : klt (p ++ a) (p ++ b) = klt a b := by
  induction p with
  | nil => rfl
  | cons y ys ih => simp [klt, ih]

end klt

namespace OMap
variable {α : Type} [Rank α] [DecidableEq α]

abbrev E (α : Type) := List (List α × Bytes)

theorem sorted_cons {e : List α × Bytes} {r : E α} :
    Sorted (e :: r) ↔ (∀ e' ∈ r, klt e.1 e'.1 = true) ∧ Sorted r := Iff.rfl

theorem Sorted.tail {e : List α × Bytes} {r : E α} (h : Sorted (e :: r)) : Sorted r := h.2

theorem get_eq_none_of_lt {k : List α} {es : E α} (h : ∀ e ∈ es, klt k e.1 = true) :
    get k es = none := by
  induction es with
  | nil => rfl
  | cons e r ih =>
    have h1 := h e (by simp)
    have : e.1 ≠ k := fun he => by subst he; simp [klt_irrefl] at h1
    simp [get, this]
    exact ih (fun e' he' => h e' (by simp [he']))

theorem get_some_mem {k : List α} {v : Bytes} {es : E α} (h : get k es = some v) : (k, v) ∈ es := by
  induction es with
  | nil => simp [get] at h
  | cons e r ih =>
    simp only [get] at h
    split at h
    · rename_i he; cases h; subst he; simp
    · simp [ih h]

theorem get_of_mem_sorted {k : List α} {v : Bytes} {es : E α} (hs : Sorted es) (h : (k, v) ∈ es) :
    get k es = some v := by
  induction es with
  | nil => simp at h
  | cons e r ih =>
    simp only [get]
    rcases List.mem_cons.mp h with h | h
    · subst h; simp
    · have := hs.1 _ h
      have hne : e.1 ≠ k := klt_ne this
      simp [hne, ih hs.2 h]

/-- two strictly sorted lists that agree as maps are equal -/
theorem sorted_ext {a b : E α} (ha : Sorted a) (hb : Sorted b)
    (h : ∀ k, get k a = get k b) : a = b := by
  induction a generalizing b with
  | nil =>
    cases b with
    | nil => rfl
    | cons e r => have := h e.1; simp [get] at this
  | cons e r ih =>
    cases b with
    | nil => have := h e.1; simp [get] at this
    | cons e' r' =>
      -- heads have equal keys
      have hk : e.1 = e'.1 := by
        rcases klt_trichotomy e.1 e'.1 with hlt | heq | hgt
        · have h1 := h e.1
          have : get e.1 (e' :: r') = none :=
            get_eq_none_of_lt (by
              intro x hx
              rcases List.mem_cons.mp hx with hx | hx
              · subst hx; exact hlt
              · exact klt_trans hlt (hb.1 x hx))
          rw [this] at h1
          simp [get] at h1
        · exact heq
        · have h1 := h e'.1
          have : get e'.1 (e :: r) = none :=
            get_eq_none_of_lt (by
              intro x hx
              rcases List.mem_cons.mp hx with hx | hx
              · subst hx; exact hgt
              · exact klt_trans hgt (ha.1 x hx))
          rw [this] at h1
          simp [get] at h1
      have hv : e.2 = e'.2 := by
        have h1 := h e.1
        simp [get, hk] at h1
        exact h1
      have he : e = e' := Prod.ext hk hv
      subst he
      congr 1
      apply ih ha.2 hb.2
      intro k
      have h1 := h k
      simp only [get] at h1
      by_cases hek : e.1 = k
      · subst hek
        rw [get_eq_none_of_lt ha.1, get_eq_none_of_lt hb.1]
      · simpa [hek] using h1

/-! #### upsert -/

theorem get_upsert (k : List α) (v : Bytes) (es : E α) (k' : List α) :
    get k' (upsert k v es) = if k' = k then some v else get k' es := by
  induction es with
  | nil => simp [upsert, get, eq_comm]
  | cons e r ih =>
    simp only [upsert]
    split
    · rename_i he
      subst he
      by_cases hk : k' = e.1 <;> simp [get, hk, eq_comm]
    · rename_i he
      split
      · by_cases hk : k' = k
        · simp [get, hk]
        · have : ¬ k = k' := fun h => hk h.symm
          simp [get, hk, this]
      · by_cases hk : k' = k
        · subst hk
          have : ¬ e.1 = k' := he
          simp [get, this, ih]
        · simp [get, ih, hk]

theorem mem_upsert {k : List α} {v : Bytes} {es : E α} {x : List α × Bytes}
    (h : x ∈ upsert k v es) : x = (k, v) ∨ x ∈ es := by
  induction es with
  | nil => simp [upsert] at h; exact Or.inl h
  | cons e r ih =>
    simp only [upsert] at h
    split at h
    · rcases List.mem_cons.mp h with h | h
      · exact Or.inl h
      · exact Or.inr (by simp [h])
    · split at h
      · rcases List.mem_cons.mp h with h | h
        · exact Or.inl h
        · exact Or.inr h
      · rcases List.mem_cons.mp h with h | h
        · exact Or.inr (by simp [h])
        · rcases ih h with h | h
          · exact Or.inl h
          · exact Or.inr (by simp [h])

theorem sorted_upsert (k : List α) (v : Bytes) {es : E α} (hs : Sorted es) :
    Sorted (upsert k v es) := by
  induction es with
  | nil => simp [upsert, Sorted]
  | cons e r ih =>
    simp only [upsert]
    split
    · rename_i he
      exact ⟨by simpa [he] using hs.1, hs.2⟩
    · rename_i he
      split
      · rename_i hlt
        refine ⟨?_, hs⟩
        intro x hx
        rcases List.mem_cons.mp hx with hx | hx
        · subst hx; exact hlt
        · exact klt_trans hlt (hs.1 x hx)
      · rename_i hlt
        refine ⟨?_, ih hs.2⟩
        intro x hx
        rcases mem_upsert hx with hx | hx
        · subst hx
          rcases klt_trichotomy k e.1 with h | h | h
          · simp [h] at hlt
          · exact absurd h.symm he
          · exact h
        · exact hs.1 x hx

/-! #### filters (erase, clearPrefix) -/

theorem sorted_filter (p : List α × Bytes → Bool) {es : E α} (hs : Sorted es) :
    Sorted (es.filter p) := by
  induction es with
  | nil => simp [Sorted]
  | cons e r ih =>
    simp only [List.filter_cons]
    split
    · exact ⟨fun x hx => hs.1 x (List.mem_filter.mp hx).1, ih hs.2⟩
    · exact ih hs.2

theorem get_filter_key (q : List α → Bool) (es : E α) (k : List α) :
    get k (es.filter (fun e => q e.1)) = if q k then get k es else none := by
  induction es with
  | nil => simp [get]
  | cons e r ih =>
    simp only [List.filter_cons]
    by_cases hq : q e.1
    · simp only [hq, if_true, get]
      by_cases hk : e.1 = k
      · subst hk; simp [hq]
      · simp [hk, ih]
    · simp only [hq, get]
      by_cases hk : e.1 = k
      · subst hk; simp [hq, ih]
      · simp [hk, ih]

theorem get_erase (k : List α) (es : E α) (k' : List α) :
    get k' (erase k es) = if k' = k then none else get k' es := by
  have := get_filter_key (fun x => !(x == k)) es k'
  simp only [erase]
  rw [this]
  by_cases h : k' = k <;> simp [h]

theorem sorted_erase (k : List α) {es : E α} (hs : Sorted es) : Sorted (erase k es) :=
  sorted_filter _ hs

theorem get_clearPrefix (p : List α) (es : E α) (k : List α) :
    get k (clearPrefix p es) = if p.isPrefixOf k then none else get k es := by
  have := get_filter_key (fun x => !(p.isPrefixOf x)) es k
  simp only [clearPrefix]
  rw [this]
  by_cases h : p.isPrefixOf k <;> simp [h]

theorem sorted_clearPrefix (p : List α) {es : E α} (hs : Sorted es) : Sorted (clearPrefix p es) :=
  sorted_filter _ hs

end OMap
end Gossamer
