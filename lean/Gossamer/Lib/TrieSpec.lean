/-
Trie specification shared by C01–C06, C10, C38.  Core Lean only.

* `OMap`: the ordered map over list keys (byte strings, nibble strings): a strictly sorted
  association list with `get / upsert / erase / clearPrefix / clearPrefixLimit / nextKey /
  keysWithPrefix`.  This is what property C02 demands of the trie.
* `Trie`: radix-16 trie nodes (`nil` is the Go nil pointer).  Children are a function
  `Nib → Trie` (16 slots by construction), so every recursive definition is plainly structural.
* `build`: the canonical trie of a finite map (Polkadot spec: longest common prefix, split on
  the next nibble), `encodeNode ver H`, `merkleValue`, `specRoot ver H`.
-/
import Gossamer.Base.Bytes
namespace Gossamer

/-- Element types of keys: ordered through an injective rank (byte value / nibble value). -/
class Rank (α : Type) where
  rank : α → Nat
  rank_inj : ∀ {a b : α}, rank a = rank b → a = b

instance : Rank UInt8 := ⟨UInt8.toNat, fun h => UInt8.toNat_inj.mp h⟩

abbrev Nib := Fin 16
abbrev Nibs := List Nib

instance : Rank Nib := ⟨Fin.val, fun h => Fin.ext h⟩

/-- strict lexicographic order on keys (Go `bytes.Compare(a, b) == -1`) -/
def klt {α : Type} [Rank α] : List α → List α → Bool
  | _, [] => false
  | [], _ :: _ => true
  | a :: as, b :: bs =>
    Rank.rank a < Rank.rank b || (Rank.rank a == Rank.rank b && klt as bs)

namespace OMap
variable {α : Type} [Rank α] [DecidableEq α]

/-- strictly ascending keys -/
def Sorted : List (List α × Bytes) → Prop
  | [] => True
  | e :: r => (∀ e' ∈ r, klt e.1 e'.1 = true) ∧ Sorted r

def get (k : List α) : List (List α × Bytes) → Option Bytes
  | [] => none
  | e :: r => if e.1 = k then some e.2 else get k r

def upsert (k : List α) (v : Bytes) : List (List α × Bytes) → List (List α × Bytes)
  | [] => [(k, v)]
  | e :: r =>
    if e.1 = k then (k, v) :: r
    else if klt k e.1 then (k, v) :: e :: r
    else e :: upsert k v r

def erase (k : List α) (es : List (List α × Bytes)) : List (List α × Bytes) :=
  es.filter (fun e => !(e.1 == k))

/-- remove every key that has the prefix `p` -/
def clearPrefix (p : List α) (es : List (List α × Bytes)) : List (List α × Bytes) :=
  es.filter (fun e => !(p.isPrefixOf e.1))

def keysWithPrefix (p : List α) (es : List (List α × Bytes)) : List (List α) :=
  (es.filter (fun e => p.isPrefixOf e.1)).map (·.1)

/-- smallest key strictly greater than `k` -/
def nextKey (k : List α) (es : List (List α × Bytes)) : Option (List α) :=
  (es.find? (fun e => klt k e.1)).map (·.1)

/-- drop the first (= smallest) `n` entries whose key has prefix `p` -/
def dropMatching (p : List α) : Nat → List (List α × Bytes) → List (List α × Bytes)
  | 0, es => es
  | _, [] => []
  | n + 1, e :: r =>
    if p.isPrefixOf e.1 then dropMatching p n r else e :: dropMatching p (n + 1) r

/-- `ClearPrefixLimit`: new map, number of keys removed, "no key with the prefix remains".
    A zero limit removes nothing and reports `false` (as the Go doc comment and tests state). -/
def clearPrefixLimit (p : List α) (n : Nat) (es : List (List α × Bytes)) :
    List (List α × Bytes) × Nat × Bool :=
  if n = 0 then (es, 0, false)
  else
    let m := (keysWithPrefix p es).length
    (dropMatching p n es, min n m, decide (m ≤ n))

end OMap

/-- byte-string state of the storage -/
abbrev Entries := List (Bytes × Bytes)

/-! ### nibbles -/

def hiNib (b : UInt8) : Nib := Fin.ofNat 16 (b.toNat / 16)
def loNib (b : UInt8) : Nib := Fin.ofNat 16 (b.toNat % 16)

/-- a byte key as nibbles, high nibble first -/
def toNibs : Bytes → Nibs
  | [] => []
  | b :: r => hiNib b :: loNib b :: toNibs r

def byteOf (h l : Nib) : UInt8 := UInt8.ofNat (h.val * 16 + l.val)

/-- inverse of `toNibs` on even-length nibble strings (a trailing odd nibble is dropped) -/
def ofNibs : Nibs → Bytes
  | h :: l :: r => byteOf h l :: ofNibs r
  | _ => []

/-! ### trie nodes -/

inductive Trie where
  | nil
  | leaf (pk : Nibs) (v : Bytes)
  | branch (pk : Nibs) (v : Option Bytes) (cs : Nib → Trie)

namespace Trie

def isNil : Trie → Bool
  | nil => true
  | _ => false

def noChildren : Nib → Trie := fun _ => nil

/-- `children[i] = c` -/
def setChild (cs : Nib → Trie) (i : Nib) (c : Trie) : Nib → Trie :=
  fun j => if j = i then c else cs j

/-- indices of the non-nil children, ascending -/
def childIdx (cs : Nib → Trie) : List Nib := (List.finRange 16).filter (fun i => !(cs i).isNil)

/-- all (nibble key, value) pairs in trie order (pre-order, children ascending) -/
def entriesN : Trie → List (Nibs × Bytes)
  | nil => []
  | leaf pk v => [(pk, v)]
  | branch pk v cs =>
    (match v with | some x => [(pk, x)] | none => []) ++
    (List.finRange 16).flatMap (fun i => (entriesN (cs i)).map (fun e => (pk ++ i :: e.1, e.2)))

/-- the value stored under a nibble key (reference semantics of a trie) -/
def lookup : Trie → Nibs → Option Bytes
  | nil, _ => none
  | leaf pk v, k => if k = pk then some v else none
  | branch pk v cs, k =>
    if k = pk then v
    else if pk.isPrefixOf k then
      match k.drop pk.length with
      | [] => none
      | i :: rest => lookup (cs i) rest
    else none

/-- Canonical form: every branch has two children, or a value and a child (no empty branch, no
    branch that should have been merged into its only child).  Children are 16 slots and nibbles
    are `< 16` by construction. -/
def Canon : Trie → Prop
  | nil => True
  | leaf _ _ => True
  | branch _ v cs =>
    (∀ i, Canon (cs i)) ∧
    ((∃ i j, i ≠ j ∧ cs i ≠ nil ∧ cs j ≠ nil) ∨ (v.isSome = true ∧ ∃ i, cs i ≠ nil))

end Trie

/-! ### canonical trie of a finite map -/

/-- longest common prefix of two nibble strings -/
def lcp {α : Type} [DecidableEq α] : List α → List α → List α
  | a :: as, b :: bs => if a = b then a :: lcp as bs else []
  | _, _ => []

/-- longest common prefix of all keys of a non-empty entry list -/
def lcpAll : List (Nibs × Bytes) → Nibs
  | [] => []
  | [e] => e.1
  | e :: r => lcp e.1 (lcpAll r)

/-- entries below child `i`: keys that start with `i`, with that nibble removed -/
def subEntries (i : Nib) (es : List (Nibs × Bytes)) : List (Nibs × Bytes) :=
  es.filterMap (fun e => match e.1 with
    | j :: rest => if j = i then some (rest, e.2) else none
    | [] => none)

/-- The canonical trie of the entries `es` (distinct keys): empty ↦ nil, one entry ↦ leaf,
    otherwise a branch at the longest common prefix `p` holding the value of `p` (if any) with
    child `i` built from the keys `p ++ i :: _`.  `fuel ≥ es.length` suffices. -/
def buildF : Nat → List (Nibs × Bytes) → Trie
  | _, [] => Trie.nil
  | _, [e] => Trie.leaf e.1 e.2
  | 0, _ => Trie.nil
  | fuel + 1, es =>
    let p := lcpAll es
    let es' := es.map (fun e => (e.1.drop p.length, e.2))
    Trie.branch p (OMap.get [] es') (fun i => buildF fuel (subEntries i es'))

def buildN (es : List (Nibs × Bytes)) : Trie := buildF es.length es

/-- canonical trie of a byte-keyed map -/
def build (es : Entries) : Trie := buildN (es.map (fun e => (toNibs e.1, e.2)))

/-! ### node encoding and Merkle value (Polkadot spec §"Merkle value", Go `pkg/trie/node`) -/

inductive Ver where
  | v0
  | v1
deriving DecidableEq, Repr

/-- Go `mustBeHashed`: V1 and the value is longer than 32 bytes -/
def mustBeHashed (ver : Ver) (v : Bytes) : Bool := ver == Ver.v1 && decide (v.length > 32)

/-- SCALE compact integer -/
def compactNat (n : Nat) : Bytes :=
  if n < 64 then [UInt8.ofNat (n * 4)]
  else if n < 2 ^ 14 then leBytes 2 (n * 4 + 1)
  else if n < 2 ^ 30 then leBytes 4 (n * 4 + 2)
  else
    let b := leMin n
    UInt8.ofNat ((b.length - 4) * 4 + 3) :: b

/-- SCALE encoding of a byte slice -/
def scaleBytes (b : Bytes) : Bytes := compactNat b.length ++ b

/-- `codec.NibblesToKeyLE`: two nibbles per byte, an odd first nibble alone in the first byte -/
def packEven : Nibs → Bytes
  | h :: l :: r => byteOf h l :: packEven r
  | _ => []

def packNibs (k : Nibs) : Bytes :=
  if k.length % 2 = 0 then packEven k
  else match k with
    | [] => []
    | a :: r => UInt8.ofNat a.val :: packEven r

/-- continuation bytes of a partial-key length that does not fit the header byte -/
def lenTail : Nat → Nat → Bytes
  | 0, _ => []
  | fuel + 1, n => if n < 255 then [UInt8.ofNat n] else 255 :: lenTail fuel (n - 255)

/-- header: variant bits, then the partial key length in the remaining `mask` bits, 255-runs after -/
def header (bits mask len : Nat) : Bytes :=
  if len < mask then [UInt8.ofNat (bits + len)]
  else UInt8.ofNat (bits + mask) :: lenTail (len / 255 + 2) (len - mask)

def bitmap (cs : Nib → Trie) : Nat :=
  ((List.finRange 16).map (fun i => if (cs i).isNil then 0 else 2 ^ i.val)).sum

/-- node value: hashed in V1 when longer than 32 bytes, SCALE bytes otherwise -/
def encodeValue (ver : Ver) (H : Bytes → Bytes) (v : Bytes) : Bytes :=
  if mustBeHashed ver v then H v else scaleBytes v

def merkleValue (H : Bytes → Bytes) (enc : Bytes) : Bytes :=
  if enc.length < 32 then enc else H enc

def encodeNode (ver : Ver) (H : Bytes → Bytes) : Trie → Bytes
  | Trie.nil => [0]
  | Trie.leaf pk v =>
    (if mustBeHashed ver v then header 0x20 0x1f pk.length else header 0x40 0x3f pk.length)
      ++ packNibs pk ++ encodeValue ver H v
  | Trie.branch pk v cs =>
    (match v with
      | none => header 0x80 0x3f pk.length
      | some x => if mustBeHashed ver x then header 0x10 0x0f pk.length
                  else header 0xc0 0x3f pk.length)
      ++ packNibs pk ++ leBytes 2 (bitmap cs)
      ++ (match v with | none => [] | some x => encodeValue ver H x)
      ++ (List.finRange 16).flatMap (fun i =>
            if (cs i).isNil then [] else scaleBytes (merkleValue H (encodeNode ver H (cs i))))

/-- root hash of a trie: the root encoding is always hashed; the empty trie encodes as `[0]` -/
def hashTrie (ver : Ver) (H : Bytes → Bytes) (t : Trie) : Bytes := H (encodeNode ver H t)

/-- the Merkle root the Polkadot spec assigns to a finite map -/
def specRoot (ver : Ver) (H : Bytes → Bytes) (es : Entries) : Bytes := hashTrie ver H (build es)

end Gossamer
