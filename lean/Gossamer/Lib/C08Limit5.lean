/-
C08: DeleteChildLimit (with and without limit) inside a transaction.
-/
import Gossamer.Lib.C08Limit4
set_option linter.unusedSectionVars false
set_option linter.unusedSimpArgs false
namespace Gossamer.C08
open Gossamer

theorem takeLim_none (isOld : Bytes → Bool) (ks : List Bytes) : takeLim isOld ks none = ks := by
  induction ks with
  | nil => rfl
  | cons k r ih =>
    simp only [takeLim]
    have : ¬ ((none : Option Nat) = some 0) := by simp
    simp only [this, if_false]
    have e : (if isOld k = true then Option.map (· - 1) (none : Option Nat) else none) = none := by
      split <;> rfl
    rw [e, ih]

theorem length_insDup (k : Bytes) (l : List Bytes) : (insDup k l).length = l.length + 1 := by
  induction l with
  | nil => rfl
  | cons e r ih =>
    simp only [insDup]
    split
    · simp [ih]
    · simp

theorem length_sortKeys (l : List Bytes) : (sortKeys l).length = l.length := by
  induction l with
  | nil => rfl
  | cons e r ih =>
    have : sortKeys (e :: r) = insDup e (sortKeys r) := rfl
    rw [this, length_insDup, ih]
    rfl

theorem eq_nil_of_get_none {es : Entries} (hs : OMap.Sorted es) (h : ∀ k, OMap.get k es = none) :
    es = [] := by
  have hnil : OMap.Sorted ([] : Entries) := trivial
  exact OMap.sorted_ext hs hnil (fun k => by rw [h k]; rfl)

section lemmas
variable {CK : Bytes → Bool} {b : Logical} {d : Diff}

/-- candidates of `deleteChildLimit` and of the specification -/
theorem killl_candidates (hb : BaseInv CK b) (hd : DiffInv CK d) (ck : Bytes) (hnd : ck ∉ d.c.deletes) :
    let cur := (kidOf b ck).map (·.1)
    let nk := (KMap.keys (d.kid ck).upserts).filter (fun k => !cur.contains k)
    unionKeys (((kidOf (effL b d) ck).map (·.1)).filter (fun _ => true))
        (((kidOf b ck).map (·.1)).filter (fun _ => true)) = sortKeys (cur ++ nk) ∧
      (∀ k ∈ sortKeys (cur ++ nk), nk.contains k = !(cur.contains k)) ∧
      (∀ k ∈ sortKeys (cur ++ nk), (OMap.get k (kidOf b ck)).isSome = cur.contains k) ∧
      (∀ k, OMap.get k (kidOf (effL b d) ck) ≠ none → k ∈ sortKeys (cur ++ nk)) := by
  intro cur nk
  have hcurS : KSet.Sorted cur := omap_sorted_keys (kidOf_sorted hb.wf ck)
  have hchS := Diff.sorted_kid hd.sorted ck
  have hkidL : ∀ y, OMap.get y (kidOf (effL b d) ck) =
      if y ∈ (d.kid ck).deletes then none
      else ov (KMap.find y (d.kid ck).upserts) (OMap.get y (kidOf b ck)) := by
    intro y
    rw [eff_kid' hb hd]
    simp [hnd]
  have hG : ∀ y, y ∈ sortKeys (cur ++ nk) ↔ (y ∈ cur ∨ y ∈ KMap.keys (d.kid ck).upserts) := by
    intro y
    simp only [nk, mem_sortKeys, List.mem_append, List.mem_filter, List.contains_eq_mem,
      Bool.not_eq_true', decide_eq_false_iff_not]
    constructor
    · rintro (h | ⟨h, _⟩)
      · exact Or.inl h
      · exact Or.inr h
    · rintro (h | h)
      · exact Or.inl h
      · by_cases hy : y ∈ cur
        · exact Or.inl hy
        · exact Or.inr ⟨h, hy⟩
  have hmemL : ∀ k, OMap.get k (kidOf (effL b d) ck) ≠ none → k ∈ sortKeys (cur ++ nk) := by
    intro k h1
    rw [hG]
    rw [hkidL] at h1
    by_cases hdl : k ∈ (d.kid ck).deletes
    · simp [hdl] at h1
    · simp only [hdl, if_false] at h1
      cases hf : KMap.find k (d.kid ck).upserts with
      | some v => exact Or.inr ((mem_keys_iff _ _).mpr (by rw [hf]; simp))
      | none =>
        rw [hf] at h1
        simp only [ov_none] at h1
        exact Or.inl ((omap_mem_keys _ _).mpr h1)
  refine ⟨?_, ?_, ?_, hmemL⟩
  · rw [filter_const_true, filter_const_true]
    apply kset_ext (sorted_unionKeys _ _)
    · apply sorted_sortKeys
      rw [List.nodup_append]
      refine ⟨nodup_of_sorted hcurS, nodup_of_sorted (sorted_filterK (sorted_keys hchS.ups) _), ?_⟩
      intro a ha c hc hac
      subst hac
      have := (List.mem_filter.mp hc).2
      simp at this
      exact this ha
    · intro y
      rw [mem_unionKeys, hG, omap_mem_keys]
      constructor
      · rintro (h | h)
        · exact (hG y).mp (hmemL y h)
        · exact Or.inl h
      · rintro (h | h)
        · exact Or.inr h
        · left
          rw [hkidL]
          have hf := (mem_keys_iff _ _).mp h
          have hdl : y ∉ (d.kid ck).deletes := fun hm => hf (kid_disj hd ck y hm)
          simp only [hdl, if_false]
          cases hfv : KMap.find y (d.kid ck).upserts with
          | none => exact absurd hfv hf
          | some v => simp
  · intro k hk
    simp only [nk, List.contains_eq_mem, List.mem_filter, Bool.not_eq_true',
      decide_eq_false_iff_not]
    by_cases hkk : k ∈ cur
    · simp [hkk]
    · have : k ∈ KMap.keys (d.kid ck).upserts := by
        rcases (hG k).mp hk with h | h
        · exact absurd h hkk
        · exact h
      simp [hkk, this]
  · intro k _
    simp only [List.contains_eq_mem]
    by_cases hkk : k ∈ cur
    · have := (omap_mem_keys _ _).mp hkk
      cases hg : OMap.get k (kidOf b ck) with
      | none => exact absurd hg this
      | some v => simp [hkk]
    · cases hg : OMap.get k (kidOf b ck) with
      | none => simp [hkk]
      | some v => exact absurd ((omap_mem_keys _ _).mpr (by rw [hg]; simp)) hkk

/-- `DeleteChildLimit` inside a transaction, on a child that was not deleted in it -/
theorem eff_killLimit (hb : BaseInv CK b) (hd : DiffInv CK d) (ck : Bytes) (limit : Option Nat)
    (hck : CK ck = true) (hnc : Logical.isChildKey ck = false) (hnd : ck ∉ d.c.deletes) :
    let x := d.deleteChildLimit ck ((kidOf b ck).map (·.1)) limit
    let r := specLimit (kidOf (effL b d) ck) (kidOf b ck) (fun _ => true) limit
    effL b x.1 = Logical.setKid (effL b d) ck r.1 ∧ DiffInv CK x.1 ∧ x.2.1 = r.2.1 ∧
      x.2.2 = r.2.2 := by
  intro x r
  have hw := effL_wf (d := d) hb.wf
  obtain ⟨hGS, hnew, hold, hmemL⟩ := killl_candidates hb hd ck hnd
  let cur := (kidOf b ck).map (·.1)
  let nk := (KMap.keys (d.kid ck).upserts).filter (fun k => !cur.contains k)
  let G := sortKeys (cur ++ nk)
  let isOld : Bytes → Bool := fun k => cur.contains k
  have hs := specLoop_take (kidOf b ck) isOld G hold limit (kidOf (effL b d) ck) 0
  have hr1 : r.1 = (takeLim isOld G limit).foldl (fun t k => OMap.erase k t) (kidOf (effL b d) ck) := by
    show (specLimit _ _ _ _).1 = _
    unfold specLimit
    simp only []
    rw [hGS]
    exact congrArg Prod.fst hs
  have hr2 : r.2.1 = (takeLim isOld G limit).length := by
    show (specLimit _ _ _ _).2.1 = _
    unfold specLimit
    simp only []
    rw [hGS]
    have := congrArg Prod.snd hs
    simp only [Nat.zero_add] at this
    exact this
  have hr3 : r.2.2 = ((takeLim isOld G limit).length == G.length) := by
    show (specLimit _ _ _ _).2.2 = _
    unfold specLimit
    simp only []
    rw [hGS]
    have := congrArg Prod.snd hs
    simp only [Nat.zero_add] at this
    rw [this]
  cases limit with
  | none =>
    -- the whole child is deleted
    have hx : x = (d.delete ck, nk.length + cur.length, true) := rfl
    rw [takeLim_none] at hr1 hr2 hr3
    have hnil : r.1 = [] := by
      rw [hr1]
      apply eq_nil_of_get_none (sorted_foldl_erase _ (kidOf_sorted hw ck))
      intro k
      rw [get_foldl_erase]
      by_cases hk : k ∈ G
      · simp [hk]
      · simp only [hk, if_false]
        cases hg : OMap.get k (kidOf (effL b d) ck) with
        | none => rfl
        | some v => exact absurd (hmemL k (by rw [hg]; simp)) hk
    rw [hx]
    refine ⟨?_, inv_kill hd ck hck hnc, ?_, ?_⟩
    · simp only []
      rw [eff_kill hb hd ck hck hnc, hnil]
      simp [Logical.setKid]
    · simp only []
      rw [hr2, length_sortKeys, List.length_append]
      omega
    · simp only []
      rw [hr3]
      simp
  | some n =>
    have hm := limitLoop_take CDiff.delete (fun _ => true) nk isOld G (fun _ _ => rfl) hnew
      (some n) (d.kid ck) 0
    let T := takeLim isOld G (some n)
    have hx1 : x.1 = { d with kids := KMap.ins ck (T.foldl CDiff.delete (d.kid ck)) d.kids } := by
      show (Diff.deleteChildLimit d ck cur (some n)).1 = _
      unfold Diff.deleteChildLimit
      simp only []
      rw [show (limitLoop CDiff.delete (fun _ => true) nk G (some n) (d.kid ck) 0).1 =
        T.foldl CDiff.delete (d.kid ck) from congrArg Prod.fst hm]
    have hx2 : x.2.1 = T.length := by
      show (Diff.deleteChildLimit d ck cur (some n)).2.1 = _
      unfold Diff.deleteChildLimit
      simp only []
      have := congrArg Prod.snd hm
      simp only [Nat.zero_add] at this
      exact this
    have hx3 : x.2.2 = (T.length == G.length) := by
      show (Diff.deleteChildLimit d ck cur (some n)).2.2 = _
      unfold Diff.deleteChildLimit
      simp only []
      have := congrArg Prod.snd hm
      simp only [Nat.zero_add] at this
      rw [this]
    refine ⟨?_, ?_, by rw [hx2, hr2], by rw [hx3, hr3]⟩
    · rw [hx1, hr1, foldl_erase_eq_filter T (kidOf_sorted hw ck)]
      exact eff_kidDeleteAll hb hd ck hck T (fun y => T.contains y) (fun y hy => by simpa using hy)
        (fun y hy hn => by simp at hy; exact absurd hy hn)
    · rw [hx1]; exact inv_setKidFold hd ck hck T

end lemmas

end Gossamer.C08
