/-
Lemmas about the codec pieces of `Gossamer.Lib.TrieCodec`: header, partial key, SCALE byte slices and
the children bitmap all decode from their encodings.  Core Lean only.
-/
import Gossamer.Lib.TrieCodec
namespace Gossamer.TrieCodec


def nodeVariants : List Variant := [leafV, branchV, branchValV, leafHashedV, branchHashedV]

theorem dhb_enc : ∀ v ∈ nodeVariants, ∀ n, n ≤ v.pklMask.toNat →
    decodeHeaderByte (v.bits ||| UInt8.ofNat n) = some (v, UInt8.ofNat n) := by decide

theorem mask_facts : ∀ v ∈ nodeVariants, (v.pklMask == emptyV.bits) = false ∧ v.pklMask.toNat < 256 ∧
    0 < v.pklMask.toNat := by decide

theorem ofNat_toNat_lt (n : Nat) (h : n < 256) : (UInt8.ofNat n).toNat = n := by
  simp [UInt8.toNat_ofNat']; omega

theorem decodeLenRun_lenRun (v : Variant) (r : Bytes) (m : Nat) :
    ∀ acc : UInt16, acc.toNat + m ≤ 65535 →
      decodeLenRun v acc (lenRun m ++ r) = .ok (v, acc.toNat + m, r) := by
  induction m using Nat.strongRecOn with
  | _ m ih =>
    intro acc h
    unfold lenRun
    by_cases hm : m < 255
    · simp only [hm, if_true, List.cons_append, List.nil_append, decodeLenRun]
      have h1 : (acc + (UInt8.ofNat m).toUInt16).toNat = acc.toNat + m := by
        simp [UInt16.toNat_add, UInt8.toNat_ofNat']; omega
      have h2 : ¬ (acc + (UInt8.ofNat m).toUInt16 < acc) := by
        rw [UInt16.lt_iff_toNat_lt, h1]; omega
      have h3 : UInt8.ofNat m < 255 := by
        rw [UInt8.lt_iff_toNat_lt, ofNat_toNat_lt m (by omega)]; simpa using hm
      simp [h2, h3, h1]
    · simp only [hm, if_false, List.cons_append, decodeLenRun]
      have h1 : (acc + (255 : UInt8).toUInt16).toNat = acc.toNat + 255 := by
        simp [UInt16.toNat_add]; omega
      have h2 : ¬ (acc + (255 : UInt8).toUInt16 < acc) := by
        rw [UInt16.lt_iff_toNat_lt, h1]; omega
      have h3 : ¬ ((255 : UInt8) < 255) := by decide
      simp only [h2, h3, if_false]
      have hih := ih (m - 255) (by omega) (acc + (255 : UInt8).toUInt16) (by rw [h1]; omega)
      rw [hih, h1]
      have : acc.toNat + 255 + (m - 255) = acc.toNat + m := by omega
      rw [this]

theorem header_roundtrip (v : Variant) (hv : v ∈ nodeVariants) (n : Nat) (hn : n ≤ 65535) (r : Bytes) :
    decodeHeader (encodeHeader v n ++ r) = .ok (v, n, r) := by
  obtain ⟨hm1, hm2, hm3⟩ := mask_facts v hv
  unfold encodeHeader
  by_cases h : n < v.pklMask.toNat
  · simp only [h, if_true, List.cons_append, List.nil_append, decodeHeader]
    rw [dhb_enc v hv n (by omega)]
    have : UInt8.ofNat n < v.pklMask := by
      rw [UInt8.lt_iff_toNat_lt, ofNat_toNat_lt n (by omega)]; exact h
    simp [hm1, this, ofNat_toNat_lt n (by omega)]
  · simp only [h, if_false, List.cons_append, decodeHeader]
    have e : v.pklMask = UInt8.ofNat v.pklMask.toNat := by simp
    have := dhb_enc v hv v.pklMask.toNat (Nat.le_refl _)
    rw [← e] at this
    rw [this]
    have h2 : ¬ (v.pklMask < v.pklMask) := by rw [UInt8.lt_iff_toNat_lt]; omega
    simp only [hm1, h2, if_false, Bool.false_eq_true]
    rw [decodeLenRun_lenRun v r _ _ (by simp; omega)]
    simp; omega





/-! key -/
theorem pack_nat : ∀ a, a < 16 → ∀ b, b < 16 →
    ((((UInt8.ofNat a) <<< 4) &&& 0xf0) ||| ((UInt8.ofNat b) &&& 0x0f)) / 16 = UInt8.ofNat a ∧
    ((((UInt8.ofNat a) <<< 4) &&& 0xf0) ||| ((UInt8.ofNat b) &&& 0x0f)) % 16 = UInt8.ofNat b := by decide

theorem pack_byte (a b : UInt8) (ha : a < 16) (hb : b < 16) :
    (((a <<< 4) &&& 0xf0) ||| (b &&& 0x0f)) / 16 = a ∧ (((a <<< 4) &&& 0xf0) ||| (b &&& 0x0f)) % 16 = b := by
  have h := pack_nat a.toNat (by simpa [UInt8.lt_iff_toNat_lt] using ha) b.toNat
    (by simpa [UInt8.lt_iff_toNat_lt] using hb)
  simpa using h

theorem nib_byte : ∀ a, a < 16 → (UInt8.ofNat a) / 16 = 0 ∧ (UInt8.ofNat a) % 16 = UInt8.ofNat a := by decide

theorem k2n_pack : (l : Bytes) → (∀ x ∈ l, x < 16) → l.length % 2 = 0 → keyLEToNibbles (packPairs l) = l
  | [], _, _ => rfl
  | [_], _, h => by simp at h
  | a :: b :: rest, hn, hl => by
    have ha := hn a (by simp)
    have hb := hn b (by simp)
    have ih := k2n_pack rest (fun x hx => hn x (by simp [hx])) (by simp at hl; omega)
    obtain ⟨h1, h2⟩ := pack_byte a b ha hb
    simp only [keyLEToNibbles] at ih
    simp [packPairs, keyLEToNibbles, h1, h2, ih]

theorem packPairs_length : (l : Bytes) → (packPairs l).length = l.length / 2
  | [] => rfl
  | [_] => by simp [packPairs]
  | a :: b :: rest => by simp [packPairs, packPairs_length rest]; omega

theorem nibblesToKeyLE_odd (a : UInt8) (rest : Bytes) (hr : rest.length % 2 = 0) :
    nibblesToKeyLE (a :: rest) = a :: packPairs rest := by
  have : ¬ ((rest.length + 1) % 2 = 0) := by omega
  simp [nibblesToKeyLE, this]

theorem readN_append (a r : Bytes) (h : a ≠ []) : readN a.length (a ++ r) = some (a, r) := by
  cases a with
  | nil => exact absurd rfl h
  | cons x xs => simp [readN]

theorem key_roundtrip (pk r : Bytes) (hn : ∀ x ∈ pk, x < 16) :
    decodeKey pk.length (nibblesToKeyLE pk ++ r) = .ok (pk, r) := by
  unfold decodeKey
  by_cases h0 : pk.length = 0
  · have : pk = [] := List.eq_nil_of_length_eq_zero h0
    subst this; simp [nibblesToKeyLE, packPairs]
  · simp only [h0, if_false]
    by_cases he : pk.length % 2 = 0
    · have hl : (nibblesToKeyLE pk).length = pk.length / 2 + pk.length % 2 := by
        simp [nibblesToKeyLE, he, packPairs_length]
      have hne : nibblesToKeyLE pk ≠ [] := by
        intro h; rw [h] at hl; simp at hl; omega
      rw [← hl, readN_append _ _ hne]
      simp only [ne_eq, not_true_eq_false, if_false]
      have : keyLEToNibbles (nibblesToKeyLE pk) = pk := by
        simp only [nibblesToKeyLE, he, if_true]; exact k2n_pack pk hn he
      rw [this]; simp [he]
    · cases pk with
      | nil => simp at h0
      | cons a rest =>
        have hr : rest.length % 2 = 0 := by simp at he; omega
        have hk2 := nibblesToKeyLE_odd a rest hr
        have hl : (nibblesToKeyLE (a :: rest)).length = (a :: rest).length / 2 + (a :: rest).length % 2 := by
          rw [hk2]; simp [packPairs_length]; omega
        have hne : nibblesToKeyLE (a :: rest) ≠ [] := by rw [hk2]; simp
        rw [← hl, readN_append _ _ hne]
        simp only [ne_eq, not_true_eq_false, if_false]
        have ha := hn a (by simp)
        have hk := k2n_pack rest (fun x hx => hn x (by simp [hx])) hr
        have hnb := nib_byte a.toNat (by simpa [UInt8.lt_iff_toNat_lt] using ha)
        simp only [UInt8.ofNat_toNat] at hnb
        have : keyLEToNibbles (nibblesToKeyLE (a :: rest)) = 0 :: a :: rest := by
          rw [hk2]
          simp only [keyLEToNibbles, List.flatMap_cons, hnb.1, hnb.2]
          simp only [keyLEToNibbles] at hk
          simp [hk]
        rw [this]
        have h1 : (a :: rest).length % 2 = 1 := by simp; omega
        rw [h1]
        simp



theorem ofNat_toNat_mod (n : Nat) : (UInt8.ofNat n).toNat = n % 256 := by
  simp [UInt8.toNat_ofNat']

theorem readBuf_append (strict : Bool) (a r : Bytes) (h : a ≠ []) :
    readBuf strict a.length (a ++ r) = some (a, r) := by
  cases a with
  | nil => exact absurd rfl h
  | cons x xs =>
    have h1 : ¬ ((xs.length + 1 + r.length) < xs.length + 1) := by omega
    simp [readBuf, h1]

theorem compactLen_enc (strict : Bool) (n : Nat) (hn : n < 1073741824) (r : Bytes) :
    compactLen strict (compactEnc n ++ r) = some (n, r) := by
  unfold compactEnc
  by_cases h1 : n < 64
  · simp only [h1, if_true, List.cons_append, List.nil_append, compactLen, ofNat_toNat_mod]
    have : n * 4 % 256 % 4 = 0 := by omega
    simp only [this, if_true]
    congr 2; omega
  · by_cases h2 : n < 16384
    · simp only [h1, h2, if_false, if_true, leBytes, List.cons_append, List.nil_append, compactLen,
        ofNat_toNat_mod]
      have e1 : ¬ ((n * 4 + 1) % 256 % 256 % 4 = 0) := by omega
      have e2 : (n * 4 + 1) % 256 % 256 % 4 = 1 := by omega
      simp only [e1, e2, if_false, if_true]
      have e3 : ((n * 4 + 1) % 256 % 256 + 256 * ((n * 4 + 1) / 256 % 256 % 256)) / 4 = n := by omega
      rw [e3]
      have e4 : ¬ (n ≤ 63 ∨ n > 32767) := by omega
      simp [e4]
    · simp only [h1, h2, hn, if_false, if_true]
      have hl : leBytes 4 (n * 4 + 2) = UInt8.ofNat ((n * 4 + 2) % 256) :: leBytes 3 ((n * 4 + 2) / 256) := rfl
      rw [hl]
      simp only [List.cons_append, compactLen, ofNat_toNat_mod]
      have e1 : ¬ ((n * 4 + 2) % 256 % 256 % 4 = 0) := by omega
      have e2 : ¬ ((n * 4 + 2) % 256 % 256 % 4 = 1) := by omega
      have e3 : (n * 4 + 2) % 256 % 256 % 4 = 2 := by omega
      simp only [e1, e2, e3, if_false, if_true]
      have hb := readBuf_append strict (leBytes 3 ((n * 4 + 2) / 256)) r (by simp [leBytes])
      rw [length_leBytes] at hb
      rw [hb]
      simp only []
      rw [← hl, natOfLE_leBytes]
      have e5 : (n * 4 + 2) % 256 ^ 4 / 4 = n := by
        have : (256:Nat) ^ 4 = 4294967296 := by decide
        rw [this]; omega
      rw [e5]
      have e4 : ¬ (n ≤ 16383 ∨ n > 1073741823) := by omega
      simp [e4]

theorem scaleBytes_enc (strict : Bool) (b : Bytes) (hb : b.length < 1073741824) (r : Bytes) :
    scaleBytes strict (scaleEncBytes b ++ r) = some (b, r) := by
  unfold scaleBytes scaleEncBytes
  rw [List.append_assoc, compactLen_enc strict b.length hb]
  have : ¬ (b.length > 4294967295) := by omega
  simp only [this, if_false]
  by_cases h0 : b.length = 0
  · have : b = [] := List.eq_nil_of_length_eq_zero h0
    subst this; simp
  · simp only [h0, if_false]
    exact readBuf_append strict b r (by intro h; simp [h] at h0)

/-! bitmap -/
theorem bits8 : ∀ a b c d e f g h : Bool,
    (List.range 8).map (testBit (UInt8.ofNat (bitmapNat [a, b, c, d, e, f, g, h]))) = [a, b, c, d, e, f, g, h] := by
  decide

theorem bitmapNat_lt : (l : List Bool) → bitmapNat l < 2 ^ l.length
  | [] => by simp [bitmapNat]
  | b :: bs => by
    have := bitmapNat_lt bs
    simp only [bitmapNat, List.length_cons, Nat.pow_succ]
    cases b <;> simp <;> omega

theorem bitmapNat_append : (a b : List Bool) → bitmapNat (a ++ b) = bitmapNat a + 2 ^ a.length * bitmapNat b
  | [], b => by simp [bitmapNat]
  | x :: xs, b => by
    simp only [List.cons_append, bitmapNat, bitmapNat_append xs b, List.length_cons, Nat.pow_succ]
    rw [Nat.mul_add, ← Nat.mul_assoc, Nat.mul_comm 2 (2 ^ xs.length)]; omega

theorem bitmap_roundtrip (l : List Bool) (h : l.length = 16) :
    ∃ b0 b1, bitmapBytes l = [b0, b1] ∧ bitmapBits b0 b1 = l := by
  match l, h with
  | [a0, a1, a2, a3, a4, a5, a6, a7, c0, c1, c2, c3, c4, c5, c6, c7], _ =>
    refine ⟨_, _, rfl, ?_⟩
    have h1 := bitmapNat_lt [a0, a1, a2, a3, a4, a5, a6, a7]
    have h2 := bitmapNat_lt [c0, c1, c2, c3, c4, c5, c6, c7]
    simp only [List.length_cons, List.length_nil] at h1 h2
    have hn : bitmapNat [a0, a1, a2, a3, a4, a5, a6, a7, c0, c1, c2, c3, c4, c5, c6, c7] =
        bitmapNat [a0, a1, a2, a3, a4, a5, a6, a7] + 256 * bitmapNat [c0, c1, c2, c3, c4, c5, c6, c7] := by
      have := bitmapNat_append [a0, a1, a2, a3, a4, a5, a6, a7] [c0, c1, c2, c3, c4, c5, c6, c7]
      simp only [List.length_cons, List.length_nil] at this
      have h256 : (2:Nat) ^ (0 + 1 + 1 + 1 + 1 + 1 + 1 + 1 + 1) = 256 := by decide
      rw [h256] at this
      exact this
    simp only [bitmapBits]
    rw [hn]
    have e1 : (bitmapNat [a0, a1, a2, a3, a4, a5, a6, a7] + 256 * bitmapNat [c0, c1, c2, c3, c4, c5, c6, c7]) % 65536 % 256
        = bitmapNat [a0, a1, a2, a3, a4, a5, a6, a7] := by omega
    have e2 : (bitmapNat [a0, a1, a2, a3, a4, a5, a6, a7] + 256 * bitmapNat [c0, c1, c2, c3, c4, c5, c6, c7]) % 65536 / 256
        = bitmapNat [c0, c1, c2, c3, c4, c5, c6, c7] := by omega
    rw [e1, e2, bits8, bits8]; rfl

/-! ### the read mode of the compact length is unobservable -/

theorem scaleBytes2_self (s : Bool) (r : Bytes) : scaleBytes2 s s r = scaleBytes s r := rfl

theorem readBuf_cases (n : Nat) (r : Bytes) :
    readBuf true n r = readBuf false n r ∨
      (readBuf true n r = none ∧ ∃ buf, readBuf false n r = some (buf, [])) := by
  cases r with
  | nil => left; rfl
  | cons x xs =>
    by_cases h : (x :: xs).length < n
    · right
      have h' : xs.length + 1 < n := by simpa using h
      refine ⟨by simp [readBuf, h'], (x :: xs).take n ++ List.replicate (n - (x :: xs).length) 0, ?_⟩
      have hd : (x :: xs).drop n = [] := List.drop_eq_nil_of_le (by omega)
      simp only [readBuf, Bool.false_and, Bool.false_eq_true, if_false, hd]
    · left
      have h' : ¬ (xs.length + 1 < n) := by simpa using h
      simp [readBuf, h']

theorem readBuf_nil (s : Bool) (n : Nat) : readBuf s n [] = none := rfl

/-- the outcome of `compactLen` under the two behaviours: equal, or the strict one fails while the
    lenient one returns a non-zero length with nothing left to read -/
theorem compactLen_cases (r : Bytes) :
    compactLen true r = compactLen false r ∨
      (compactLen true r = none ∧
        (compactLen false r = none ∨ ∃ len, compactLen false r = some (len, []) ∧ len ≠ 0)) := by
  cases r with
  | nil => left; rfl
  | cons p r1 =>
    simp only [compactLen]
    split
    · left; rfl
    · split
      · left; rfl
      · split
        · rcases readBuf_cases 3 r1 with h | ⟨h1, buf, h2⟩
          · left; rw [h]
          · right
            rw [h1, h2]
            refine ⟨rfl, ?_⟩
            simp only []
            split
            · left; rfl
            · right; rename_i hv; exact ⟨_, rfl, by omega⟩
        · rcases readBuf_cases (p.toNat / 4 + 4) r1 with h | ⟨h1, buf, h2⟩
          · left; rw [h]
          · right
            rw [h1, h2]
            refine ⟨rfl, ?_⟩
            simp only []
            split
            · split
              · left; rfl
              · right; rename_i hv; exact ⟨_, rfl, by omega⟩
            · split
              · split
                · left; rfl
                · right; rename_i hv; exact ⟨_, rfl, by omega⟩
              · left; rfl

/-- **The behaviour of the integer reads is unobservable through `decodeBytes`**: a compact length
    whose bytes are cut short leaves nothing for the data read, which then fails in either case. -/
theorem scaleBytes2_int_irrelevant (si si' sd : Bool) (r : Bytes) :
    scaleBytes2 si sd r = scaleBytes2 si' sd r := by
  have key : scaleBytes2 true sd r = scaleBytes2 false sd r := by
    unfold scaleBytes2
    rcases compactLen_cases r with h | ⟨h1, h2 | ⟨len, h2, h3⟩⟩
    · rw [h]
    · rw [h1, h2]
    · rw [h1, h2]
      simp only [h3, if_false, readBuf_nil]
      split <;> rfl
  cases si <;> cases si' <;> simp [key]


end Gossamer.TrieCodec
