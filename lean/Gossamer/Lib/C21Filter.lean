/-
C21: `validateVoteMessage` as a filter – what a message must satisfy to touch the tallies, and what the tallies
can become.
-/
import Gossamer.Lib.C21Tally
namespace Gossamer.C21

theorem isDesc_yes_mem {t : Tree} {p c : Nat} (h : isDesc t p c = .yes) : p ∈ t.chain c := by
  unfold isDesc at h
  by_cases h1 : p = c
  · rw [h1]; exact t.mem_chain_self _
  · by_cases h2 : t.size ≤ p
    · simp [h1, h2] at h
    · by_cases h3 : t.size ≤ c
      · simp [h1, h2, h3] at h
      · by_cases h4 : t.le p c = true
        · exact Tree.le_iff.1 h4
        · simp [h1, h2, h3, h4] at h

/-- what `validateVote` accepts -/
theorem validateVote_none {c : Cfg} {v : Vote} (h : validateVote c v = none) :
    v.blk < c.t.size ∧ c.fin ∈ c.t.chain v.blk ∧ (c.strict = true → v.num = c.number v.blk) := by
  unfold validateVote at h
  by_cases hs : c.t.size ≤ v.blk
  · simp [hs] at h
  · by_cases hn : (c.strict && v.num != c.number v.blk) = true
    · simp [hs, hn] at h
    · simp only [hs, hn, if_false, Bool.false_eq_true] at h
      refine ⟨by omega, ?_, ?_⟩
      · cases hd : isDesc c.t c.fin v.blk with
        | yes => exact isDesc_yes_mem hd
        | no => simp [hd] at h
        | errStart => simp [hd] at h
        | errEnd => simp [hd] at h
      · intro hst
        simp only [hst, Bool.true_and, bne_iff_ne, ne_eq, Decidable.not_not] at hn
        exact hn

/-- the message reaches the equivocation check and the store -/
def Passes (c : Cfg) (m : Msg) : Prop :=
  m.sigOK = true ∧ m.mset = c.set ∧ m.mround = c.round ∧ m.key ∈ c.voters ∧ m.key ≠ c.me ∧
    validateVote c ⟨m.blk, m.num⟩ = none

/-- the four tallies -/
def St.tallies (s : St) : List (Nat × Vote) × List (Nat × Vote) × List (Nat × Nat) × List (Nat × Nat) :=
  (s.pv, s.pc, s.pve, s.pce)

/-- a message that does not pass every check is answered with an error and leaves the tallies alone -/
theorem vvm_reject {c : Cfg} (s : St) {m : Msg} (h : ¬ Passes c m) :
    (validateVoteMessage c s m).1 ≠ none ∧ (validateVoteMessage c s m).2.tallies = s.tallies := by
  unfold validateVoteMessage
  by_cases h1' : ¬ m.sigOK = true
  · simp [h1', St.tallies]
  have h1 : m.sigOK = true := Classical.not_not.1 h1'
  by_cases h2' : ¬ m.mset = c.set
  · simp [h1, h2', St.tallies]
  have h2 : m.mset = c.set := Classical.not_not.1 h2'
  by_cases h3 : m.mround < c.round - 1 ∨ c.round + 1 < m.mround
  · simp [h1, h2, h3, St.tallies]
  by_cases h4 : m.mround < c.round
  · simp [h1, h2, h3, h4, St.tallies]
  by_cases h5 : c.round < m.mround
  · simp [h1, h2, h3, h4, h5, St.tallies]
  by_cases h6 : m.key ∉ c.voters
  · simp [h1, h2, h3, h4, h5, h6, St.tallies]
  by_cases h7 : m.key = c.me
  · simp [h1, h2, h3, h4, h5, h6, if_pos h7, St.tallies]
  simp only [h1, h2, h3, h4, h5, h6, h7, Bool.not_true, Bool.false_eq_true, if_false, ne_eq,
    not_true_eq_false]
  cases hv : validateVote c ⟨m.blk, m.num⟩ with
  | none => exact absurd ⟨h1, h2, by omega, Classical.not_not.1 h6, h7, hv⟩ h
  | some e => cases e <;> simp [St.tallies]

/-- what the prevote and precommit tallies can become: unchanged, the sender's entry set to the (validated)
vote, or the sender's entry deleted (equivocation) -/
theorem vvm_votes {c : Cfg} (s : St) (m : Msg) :
    ((validateVoteMessage c s m).2.pv = s.pv ∨
      ((validateVoteMessage c s m).2.pv = aset s.pv m.key ⟨m.blk, m.num⟩ ∧ Passes c m) ∨
      (validateVoteMessage c s m).2.pv = adel s.pv m.key) ∧
    ((validateVoteMessage c s m).2.pc = s.pc ∨
      ((validateVoteMessage c s m).2.pc = aset s.pc m.key ⟨m.blk, m.num⟩ ∧ Passes c m) ∨
      (validateVoteMessage c s m).2.pc = adel s.pc m.key) := by
  by_cases hp' : ¬ Passes c m
  · have := (vvm_reject s hp').2
    simp only [St.tallies, Prod.mk.injEq] at this
    exact ⟨Or.inl this.1, Or.inl this.2.1⟩
  have hp : Passes c m := Classical.not_not.1 hp'
  obtain ⟨h1, h2, h3, h4, h5, hv⟩ := hp
  have hp : Passes c m := ⟨h1, h2, h3, h4, h5, hv⟩
  unfold validateVoteMessage
  have g3 : ¬ (m.mround < c.round - 1 ∨ c.round + 1 < m.mround) := by omega
  have g4 : ¬ m.mround < c.round := by omega
  have g5 : ¬ c.round < m.mround := by omega
  have g6 : ¬ m.key ∉ c.voters := fun hn => hn h4
  simp only [h1, h2, g3, g4, g5, g6, h5, hv, Bool.not_true, Bool.false_eq_true, if_false, ne_eq,
    not_true_eq_false]
  by_cases hs : isPvStage m.stage = true
  · simp only [hs, if_true]
    by_cases he : ahas s.pve m.key = true
    · simp [he]
    · simp only [he, Bool.false_eq_true, if_false]
      cases hg : aget s.pv m.key with
      | none => simp [hp]
      | some ev =>
        by_cases hb : ev.blk = m.blk
        · simp [hb, hp]
        · simp [hb]
  · simp only [hs, Bool.false_eq_true, if_false]
    by_cases hc : isPcStage m.stage = true
    · simp only [hc, if_true]
      by_cases he : ahas s.pce m.key = true
      · simp [he]
      · simp only [he, Bool.false_eq_true, if_false]
        cases hg : aget s.pc m.key with
        | none => simp [hp]
        | some ev =>
          by_cases hb : ev.blk = m.blk
          · simp [hb, hp]
          · simp [hb]
    · simp [hc]

end Gossamer.C21
