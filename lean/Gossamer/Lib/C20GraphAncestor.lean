/-
C20 layer (b), proofs: `FindAncestor` on the compressed graph returns what `findAncestor` of the uncompressed
model returns (with the right block number).
-/
import Gossamer.Lib.C20GraphInsert
namespace Gossamer.C20

variable {t : Tree}

/-- the block has a vote-node or lies inside an ancestor edge -/
def InG (t : Tree) (ins : Ins) (b : Nat) : Prop := isNode ins b = true ∨ ∃ d, Containing t ins b d

theorem chain_find_unfold (h : t.WF) (p : Nat → Bool) (b : Nat) :
    (t.chain b).find? p = if p b then some b else if b = 0 then none else (t.chain (t.parent b)).find? p := by
  by_cases hb : b = 0
  · subst hb; simp [Tree.chain_zero, List.find?_cons]
    cases p 0 <;> simp
  · rw [Tree.chain_pos h (by omega), List.find?_cons]
    cases p b <;> simp [hb]

theorem node_cum_ne_zero {ins : Ins} {b : Nat} (hN : isNode ins b = true) (hb : b ≠ 0) :
    cumOf t ins b ≠ 0 := by
  unfold isNode at hN
  rcases Bool.or_eq_true_iff.1 hN with h0 | h1
  · exact absurd (by simpa using h0) hb
  · obtain ⟨p, hp, hpb⟩ := List.any_eq_true.1 h1
    have hpb' : p.1 = b := by simpa using hpb
    apply mask_ne_zero.2
    refine ⟨p.2, ?_⟩
    rw [cumOf_testBit]
    exact List.any_eq_true.2 ⟨p, hp, by simp [hpb', t.mem_chain_self b]⟩

theorem cum_mono_chain (h : t.WF) (ins : Ins) {a b : Nat} (hab : a ∈ t.chain b) (q : Nat)
    (hq : (cumOf t ins b).testBit q = true) : (cumOf t ins a).testBit q = true := by
  rw [cumOf_testBit] at *
  obtain ⟨p, hp, hpq⟩ := List.any_eq_true.1 hq
  simp only [Bool.and_eq_true, List.contains_iff_mem] at hpq
  exact List.any_eq_true.2 ⟨p, hp, by simp [hpq.1, Tree.le_trans h hab hpq.2]⟩

/-- in the graph (uncompressed sense) iff vote-node or inside an edge -/
theorem inGraph_iff (h : t.WF) {ins : Ins} {g : Graph} (inv : GInv t ins g) (b : Nat) :
    inGraph (cumOf t ins) b = true ↔ InG t ins b := by
  have N0 := isNode_zero ins
  constructor
  · intro hg
    by_cases hN : isNode ins b = true
    · exact Or.inl hN
    · have hN' : isNode ins b = false := by simpa using hN
      right
      apply Classical.byContradiction
      intro hne
      have hfree : ∀ d, ¬ Containing t ins b d := fun d hd => hne ⟨d, hd⟩
      have hz := cumOf_zero_of_free h hN' hfree
      have hb0 : b ≠ 0 := fun e => by subst e; rw [N0] at hN'; cases hN'
      simp [inGraph, hz, hb0] at hg
  · rintro (hN | ⟨d, hd⟩)
    · by_cases hb : b = 0
      · simp [inGraph, hb]
      · have := node_cum_ne_zero (t := t) hN hb
        simp [inGraph, this]
    · have hd0 : d ≠ 0 := fun e => by have := hd.2; rw [e] at this; simp [edge_zero] at this
      obtain ⟨q, hq⟩ := mask_ne_zero.1 (node_cum_ne_zero (t := t) hd.1 hd0)
      have := cum_mono_chain h ins (edge_mem_chain h hd.2) q hq
      have hne : cumOf t ins b ≠ 0 := mask_ne_zero.2 ⟨q, this⟩
      simp [inGraph, hne]

/-- the parent of a block in the graph is in the graph -/
theorem InG_parent (h : t.WF) {ins : Ins} {g : Graph} (inv : GInv t ins g) {b : Nat} (hb : 0 < b)
    (hg : InG t ins b) : InG t ins (t.parent b) := by
  rw [← inGraph_iff h inv] at hg ⊢
  have hpc : t.parent b ∈ t.chain b := Tree.parent_mem_chain h hb
  simp only [inGraph, Bool.or_eq_true, beq_iff_eq, bne_iff_ne, ne_eq] at hg ⊢
  rcases hg with h0 | hne
  · omega
  · right
    obtain ⟨q, hq⟩ := mask_ne_zero.1 hne
    exact mask_ne_zero.2 ⟨q, cum_mono_chain h ins hpc q hq⟩

end Gossamer.C20

namespace Gossamer.C20

variable {t : Tree}

theorem Tree.chain_head (t : Tree) (b : Nat) : (t.chain b)[0]? = some b := by
  unfold Tree.chain
  cases b with
  | zero => simp [chainUp]
  | succ b => simp [chainUp]

/-- a non-node inside an edge is not its last block, and the next block of the edge is its parent -/
theorem edge_next (h : t.WF) {ins : Ins} {hash d : Nat} (hN : isNode ins hash = false)
    (hc : Containing t ins hash d) :
    (edge t (isNode ins) d)[t.num d - t.num hash]? = some (t.parent hash) ∧ 0 < hash := by
  have N0 := isNode_zero ins
  have hpos : 0 < hash := by
    rcases Nat.eq_zero_or_pos hash with hz | hz
    · subst hz; rw [N0] at hN; cases hN
    · exact hz
  obtain ⟨i, hi⟩ := List.getElem?_of_mem hc.2
  have hnum := edge_num h hi
  have hil : i < (edge t (isNode ins) d).length := by
    rcases Nat.lt_or_ge i (edge t (isNode ins) d).length with h1 | h1
    · exact h1
    · rw [List.getElem?_eq_none h1] at hi; cases hi
  have hd : 0 < d := by
    rcases Nat.eq_zero_or_pos d with hz | hz
    · subst hz; have := hc.2; simp [edge_zero] at this
    · exact hz
  obtain ⟨pre, l, e, hl, _⟩ := edge_shape h N0 hd
  have hnl : i + 1 < (edge t (isNode ins) d).length := by
    rcases Nat.lt_or_ge (i + 1) (edge t (isNode ins) d).length with h1 | h1
    · exact h1
    · exfalso
      have hl' : (edge t (isNode ins) d)[i]? = some l := by
        rw [e]
        have : i = pre.length := by rw [e] at h1 hil; simp at h1 hil; omega
        subst this; simp
      rw [hi] at hl'
      have : hash = l := Option.some.inj hl'
      subst this; rw [hN] at hl; cases hl
  have hidx : t.num d - t.num hash = i + 1 := by omega
  rw [hidx]
  refine ⟨?_, hpos⟩
  have hx : (edge t (isNode ins) d)[i + 1]? = some ((edge t (isNode ins) d)[i + 1]) :=
    List.getElem?_eq_getElem hnl
  have hcx := edge_getElem h hx
  have hch := Tree.chain_getElem h d (i + 1) hash (edge_getElem h hi)
  -- (chain hash)[1] = (chain d)[i+2] and = parent hash
  have h1 : (t.chain hash)[1]? = some (t.parent hash) := by
    rw [Tree.chain_pos h hpos]; simp [Tree.chain_head]
  rw [hch, List.getElem?_drop] at h1
  have : i + 1 + 1 = i + 1 + 1 := rfl
  rw [hx]
  rw [hcx] at h1
  exact h1

theorem foldl_or_testBit (g : Graph) (q : Nat) : ∀ (R : List Nat) (m : Nat),
    (R.foldl (fun m c => match g.entries c with | some e => m ||| e.cum | none => m) m).testBit q =
      (m.testBit q || R.any (fun c => match g.entries c with | some e => e.cum.testBit q | none => false)) := by
  intro R
  induction R with
  | nil => intro m; simp
  | cons c R ih =>
    intro m
    simp only [List.foldl_cons, List.any_cons]
    rw [ih]
    cases g.entries c with
    | none => simp
    | some e => simp [Nat.testBit_or, Bool.or_assoc]

/-- **`FindAncestor` refines the uncompressed `findAncestor`** -/
theorem findAncestor_in (h : t.WF) {ins : Ins} {g : Graph} (inv : GInv t ins g) (key : Nat → Nat)
    (cond : Mask → Bool) : ∀ (f hash : Nat), hash < f → InG t ins hash →
    g.findAncestor key (t.size + 1) cond f hash (t.num hash) =
      ((t.chain hash).find? (fun B => cond (cumOf t ins B))).map (fun B => (B, t.num B)) := by
  intro f
  induction f with
  | zero => intro hash hlt; omega
  | succ f ih =>
    intro hash hlt hin
    obtain ⟨c1, c2⟩ := findContaining_spec h inv key hash
    rw [chain_find_unfold h]
    unfold Graph.findAncestor
    cases hN : isNode ins hash with
    | true =>
      rw [c1 hN]
      obtain ⟨node, hnode⟩ := inv.entry_of_node hN
      simp only [hnode, inv.cum hash node hnode]
      by_cases hc : cond (cumOf t ins hash) = true
      · simp [hc]
      · have hc' : cond (cumOf t ins hash) = false := by simpa using hc
        simp only [hc', Bool.false_eq_true, if_false]
        by_cases h0 : hash = 0
        · subst h0
          have : node.ancestors = [] := by rw [inv.anc 0 node hnode]; rfl
          simp [this]
        · have hpos : 0 < hash := by omega
          simp only [h0, if_false]
          obtain ⟨pre, l, e, _, _⟩ := edge_shape h (isNode_zero ins) hpos
          have hanc := inv.anc hash node hnode
          -- the first block of the edge is the parent
          have hhead : ∃ rest, node.ancestors = t.parent hash :: rest := by
            have hne : edge t (isNode ins) hash ≠ [] := by rw [e]; simp
            cases hed : edge t (isNode ins) hash with
            | nil => exact absurd hed hne
            | cons x rest =>
              have hx : (edge t (isNode ins) hash)[0]? = some x := by rw [hed]; rfl
              have := edge_getElem h hx
              rw [Tree.chain_pos h hpos] at this
              simp [Tree.chain_head] at this
              exact ⟨rest, by rw [hanc, hed, this]⟩
          obtain ⟨rest, hrest⟩ := hhead
          simp only [hrest]
          have hnum : node.number - 1 = t.num (t.parent hash) := by
            rw [inv.number hash node hnode, Tree.num_pos h hpos]; omega
          rw [hnum]
          exact ih (t.parent hash) (by have := Tree.parent_lt h hpos; omega) (InG_parent h inv hpos hin)
    | false =>
      obtain ⟨R, hR, _, hmem⟩ := c2 hN
      rw [hR]
      have hRne : R ≠ [] := by
        rcases hin with hn | ⟨d, hd⟩
        · rw [hn] at hN; cases hN
        · exact List.ne_nil_of_mem ((hmem d).2 hd)
      have hv : g.orCums R = cumOf t ins hash := by
        apply Nat.eq_of_testBit_eq
        intro q
        have hfold : (g.orCums R).testBit q = (Nat.testBit 0 q ||
            R.any (fun c => match g.entries c with | some e => e.cum.testBit q | none => false)) :=
          foldl_or_testBit g q R 0
        rw [hfold, cum_containing h inv hN R hmem q, Nat.zero_testBit, Bool.false_or]
        apply Bool.eq_iff_iff.2
        simp only [List.any_eq_true]
        constructor
        · rintro ⟨c, hc, hq⟩
          obtain ⟨ec, hec⟩ := inv.entry_of_node ((hmem c).1 hc).1
          rw [hec] at hq
          exact ⟨c, hc, by rw [← inv.cum c ec hec]; exact hq⟩
        · rintro ⟨c, hc, hq⟩
          obtain ⟨ec, hec⟩ := inv.entry_of_node ((hmem c).1 hc).1
          exact ⟨c, hc, by rw [hec]; simp only; rw [inv.cum c ec hec]; exact hq⟩
      cases R with
      | nil => exact absurd rfl hRne
      | cons r0 rs =>
        simp only [hv]
        by_cases hc : cond (cumOf t ins hash) = true
        · simp [hc]
        · have hc' : cond (cumOf t ins hash) = false := by simpa using hc
          simp only [hc', Bool.false_eq_true, if_false]
          obtain ⟨child, hchild⟩ : ∃ child, (r0 :: rs).getLast? = some child := by
            cases hl : (r0 :: rs).getLast? with
            | none => simp at hl
            | some c => exact ⟨c, rfl⟩
          have hcm : child ∈ r0 :: rs := List.mem_of_getLast? hchild
          have hcc := (hmem child).1 hcm
          obtain ⟨entry, hentry⟩ := inv.entry_of_node hcc.1
          obtain ⟨hnext, hpos⟩ := edge_next h hN hcc
          have h0 : hash ≠ 0 := by omega
          simp only [hchild, hentry, inv.number child entry hentry, inv.anc child entry hentry, hnext, h0,
            if_false]
          have hnum : t.num hash - 1 = t.num (t.parent hash) := by
            rw [Tree.num_pos h hpos]; omega
          rw [hnum]
          exact ih (t.parent hash) (by have := Tree.parent_lt h hpos; omega) (InG_parent h inv hpos hin)

theorem findAncestor_out (h : t.WF) {ins : Ins} {g : Graph} (inv : GInv t ins g) (key : Nat → Nat)
    (cond : Mask → Bool) (f hash : Nat) (hout : ¬ InG t ins hash) :
    g.findAncestor key (t.size + 1) cond f hash (t.num hash) = none := by
  cases f with
  | zero => rfl
  | succ f =>
    obtain ⟨_, c2⟩ := findContaining_spec h inv key hash
    have hN : isNode ins hash = false := by
      cases hn : isNode ins hash with
      | true => exact absurd (Or.inl hn) hout
      | false => rfl
    obtain ⟨R, hR, _, hmem⟩ := c2 hN
    have : R = [] := by
      cases R with
      | nil => rfl
      | cons r rs => exact absurd (Or.inr ⟨r, (hmem r).1 List.mem_cons_self⟩) hout
    subst this
    unfold Graph.findAncestor
    rw [hR]

/-- `FindAncestor(hash, number, cond)` on the compressed graph = `findAncestor` on the uncompressed one -/
theorem findAncestor_refines (h : t.WF) {ins : Ins} {g : Graph} (inv : GInv t ins g) (key : Nat → Nat)
    (cond : Mask → Bool) (hash : Nat) (hlt : hash < t.size) :
    g.findAncestor key (t.size + 1) cond (t.size + 1) hash (t.num hash) =
      (findAncestor t (cumOf t ins) hash cond).map (fun B => (B, t.num B)) := by
  unfold findAncestor
  by_cases hin : inGraph (cumOf t ins) hash = true
  · simp only [hin, if_true]
    exact findAncestor_in h inv key cond (t.size + 1) hash (by omega) ((inGraph_iff h inv hash).1 hin)
  · simp only [hin, if_false, Option.map_none]
    exact findAncestor_out h inv key cond _ hash (fun hg => hin ((inGraph_iff h inv hash).2 hg))

end Gossamer.C20
