/-
C21: `getPreVotedBlock` / `getGrandpaGHOST` for every iteration order versus the closed form (`cands`, `candsDown`,
`maxDepth`, `pvbSet`).
-/
import Gossamer.Lib.C21Blocks
namespace Gossamer.C21

theorem mem_maxDepth {t : Tree} {l : List Nat} {b : Nat} :
    b ∈ maxDepth t l ↔ b ∈ l ∧ ∀ b' ∈ l, t.depth b' ≤ t.depth b := by
  simp [maxDepth, List.mem_filter, List.all_eq_true]

/-! ### the `if n > highest.Number` loops -/

theorem pickHighest_spec : ∀ (l : List (Nat × Nat)) (init : Vote),
    (pickHighest init l = init ∧ ∀ p ∈ l, p.2 ≤ init.num) ∨
    (∃ p ∈ l, pickHighest init l = ⟨p.1, p.2⟩ ∧ init.num < p.2 ∧ ∀ q ∈ l, q.2 ≤ p.2) := by
  intro l
  induction l with
  | nil => intro init; left; exact ⟨rfl, fun p hp => by cases hp⟩
  | cons a rest ih =>
    intro init
    unfold pickHighest
    rw [List.foldl_cons]
    by_cases ha : init.num < a.2
    · rw [if_pos ha]
      rcases ih ⟨a.1, a.2⟩ with ⟨h1, h2⟩ | ⟨p, hp, h1, h2, h3⟩
      · right
        refine ⟨a, List.mem_cons_self, h1, ha, fun q hq => ?_⟩
        rcases List.mem_cons.1 hq with rfl | hq
        · exact Nat.le_refl _
        · exact h2 q hq
      · right
        refine ⟨p, List.mem_cons_of_mem _ hp, h1, by simp at h2; omega, fun q hq => ?_⟩
        rcases List.mem_cons.1 hq with rfl | hq
        · simp at h2; omega
        · exact h3 q hq
    · rw [if_neg ha]
      rcases ih init with ⟨h1, h2⟩ | ⟨p, hp, h1, h2, h3⟩
      · left
        refine ⟨h1, fun q hq => ?_⟩
        rcases List.mem_cons.1 hq with rfl | hq
        · omega
        · exact h2 q hq
      · right
        refine ⟨p, List.mem_cons_of_mem _ hp, h1, h2, fun q hq => ?_⟩
        rcases List.mem_cons.1 hq with rfl | hq
        · omega
        · exact h3 q hq

/-! ### the selected blocks against the candidates of the closed form -/

structure SelRel (c : Cfg) (cs : List Nat) (sel : Sel) : Prop where
  sub : ∀ q ∈ sel, q.1 ∈ cs
  dom : ∀ b ∈ cs, ∃ q ∈ sel, c.t.depth b ≤ c.t.depth q.1
  num : ∀ q ∈ sel, q.2 = c.number q.1
  fin : ∀ q ∈ sel, c.fin ∈ c.t.chain q.1

theorem SelRel.nil_iff {c : Cfg} {cs : List Nat} {sel : Sel} (h : SelRel c cs sel) : sel = [] ↔ cs = [] := by
  constructor
  · intro hs
    cases cs with
    | nil => rfl
    | cons b rest =>
      obtain ⟨q, hq, _⟩ := h.dom b List.mem_cons_self
      rw [hs] at hq; cases hq
  · intro hc
    cases sel with
    | nil => rfl
    | cons q rest =>
      have := h.sub q List.mem_cons_self
      rw [hc] at this; cases this

theorem mem_dirSel {c : Cfg} {votes : List (Nat × Vote)} {e th b : Nat} :
    b ∈ dirSel c votes e th ↔ (∃ kv ∈ votes, kv.2.blk = b) ∧ th < cnt c.t votes b + e := by
  simp [dirSel, votedBlocks, List.mem_filter, total_eq]

theorem mem_superBlocks {c : Cfg} {votes : List (Nat × Vote)} {e th b : Nat} :
    b ∈ superBlocks c votes e th ↔ b < c.t.size ∧ th < cnt c.t votes b + e := by
  simp [superBlocks, List.mem_filter, total_eq]

theorem selRel_of_char {c : Cfg} {votes : List (Nat × Vote)} {e th : Nat} {sel : Sel}
    (h : PsbChar c votes e th sel) : SelRel c (cands c votes e th) sel := by
  have hnum : ∀ q ∈ sel, q.2 = c.number q.1 := fun q hq => (h.ok q hq).2.1
  have hfin : ∀ q ∈ sel, c.fin ∈ c.t.chain q.1 := fun q hq => (h.ok q hq).2.2.2
  unfold cands
  by_cases hd : dirSel c votes e th = []
  · -- no directly voted block has more than `th` votes
    have hD : ∀ kv ∈ votes, cnt c.t votes kv.2.blk + e ≤ th := by
      intro kv hkv
      apply Classical.byContradiction
      intro hn
      have : kv.2.blk ∈ dirSel c votes e th := mem_dirSel.2 ⟨⟨kv, hkv, rfl⟩, by omega⟩
      rw [hd] at this; cases this
    simp only [hd, List.isEmpty_nil, Bool.not_true, Bool.false_eq_true, if_false]
    by_cases hv : votes = []
    · have := h.nil hv
      subst hv
      simp only [List.isEmpty_nil, if_true]
      rw [this]
      exact ⟨fun q hq => (by cases hq), fun b hb => (by cases hb), fun q hq => (by cases hq),
        fun q hq => (by cases hq)⟩
    · have hve : votes.isEmpty = false := by
        cases votes with
        | nil => exact absurd rfl hv
        | cons _ _ => rfl
      simp only [hve, Bool.false_eq_true, if_false]
      refine ⟨fun q hq => mem_superBlocks.2 ⟨(h.ok q hq).1, (h.ok q hq).2.2.1⟩, ?_, hnum, hfin⟩
      intro b hb
      have hsne : superBlocks c votes e th ≠ [] := fun hn => by rw [hn] at hb; cases hb
      obtain ⟨G, hG, hmax⟩ := exists_max (fun b => c.t.depth b) _ hsne
      have hG' := mem_superBlocks.1 hG
      refine ⟨(G, c.number G), h.complete hD hv G hG'.1 hG'.2 ?_, hmax b hb⟩
      intro b' hb's hb't
      exact hmax b' (mem_superBlocks.2 ⟨hb's, hb't⟩)
  · have hde : (!(dirSel c votes e th).isEmpty) = true := by
      cases hh : dirSel c votes e th with
      | nil => exact absurd hh hd
      | cons _ _ => rfl
    rw [if_pos hde]
    obtain ⟨b0, hb0⟩ := List.exists_mem_of_ne_nil _ hd
    obtain ⟨⟨kv0, hkv0, hkb0⟩, ht0⟩ := mem_dirSel.1 hb0
    have hex : ∃ kv ∈ votes, th < cnt c.t votes kv.2.blk + e := ⟨kv0, hkv0, by rw [hkb0]; exact ht0⟩
    refine ⟨?_, ?_, hnum, hfin⟩
    · intro q hq
      obtain ⟨kv, hkv, he⟩ := h.onlyDirect hex q hq
      exact mem_dirSel.2 ⟨⟨kv, hkv, he⟩, (h.ok q hq).2.2.1⟩
    · intro b hb
      obtain ⟨⟨kv, hkv, hkb⟩, ht⟩ := mem_dirSel.1 hb
      refine ⟨(b, c.number b), ?_, Nat.le_refl _⟩
      have := h.direct kv hkv (by rw [hkb]; exact ht)
      rw [hkb] at this
      exact this

/-- the block picked among the selected ones is one of the deepest candidates, with its own number -/
theorem pick_mem {c : Cfg} (hw : c.t.WF) {cs : List Nat} {sel L : Sel} (h : SelRel c cs sel)
    (hL : L.Perm sel) (hne : sel ≠ []) :
    (pickHighest c.head L).blk ∈ maxDepth c.t cs ∧
      pickHighest c.head L = c.voteOf (pickHighest c.head L).blk := by
  have hmem : ∀ q, q ∈ L ↔ q ∈ sel := fun q => hL.mem_iff
  -- depth and number go together
  have hdn : ∀ q ∈ sel, ∀ q' ∈ sel, q'.2 ≤ q.2 → c.t.depth q'.1 ≤ c.t.depth q.1 := by
    intro q hq q' hq' hle
    rw [h.num q hq, h.num q' hq'] at hle
    unfold Cfg.number at hle
    omega
  rcases pickHighest_spec L c.head with ⟨h1, h2⟩ | ⟨p, hp, h1, _, h3⟩
  · -- nothing is higher than the finalised head: every selected block is the head
    have hall : ∀ q ∈ sel, q.1 = c.fin := by
      intro q hq
      have hle := h2 q ((hmem q).2 hq)
      rw [h.num q hq] at hle
      have hf := h.fin q hq
      have hd := Tree.depth_le hw hf
      have : c.t.depth c.fin = c.t.depth q.1 := by
        simp only [Cfg.head, Cfg.voteOf, Cfg.number] at hle
        omega
      exact (Tree.eq_of_depth_eq hw hf (c.t.mem_chain_self q.1) this).symm
    obtain ⟨q0, hq0⟩ := List.exists_mem_of_ne_nil _ hne
    rw [h1]
    refine ⟨mem_maxDepth.2 ⟨?_, ?_⟩, rfl⟩
    · have := h.sub q0 hq0
      rw [hall q0 hq0] at this
      exact this
    · intro b' hb'
      obtain ⟨q, hq, hd⟩ := h.dom b' hb'
      rw [hall q hq] at hd
      exact hd
  · have hps : p ∈ sel := (hmem p).1 hp
    rw [h1]
    refine ⟨mem_maxDepth.2 ⟨h.sub p hps, ?_⟩, ?_⟩
    · intro b' hb'
      obtain ⟨q, hq, hd⟩ := h.dom b' hb'
      have := hdn p hps q hq (h3 q ((hmem q).2 hq))
      simp only at this ⊢
      omega
    · simp only [Cfg.voteOf, h.num p hps]

theorem single_mem {c : Cfg} {cs : List Nat} {hh n : Nat} (h : SelRel c cs [(hh, n)]) :
    hh ∈ maxDepth c.t cs ∧ (⟨hh, n⟩ : Vote) = c.voteOf hh := by
  refine ⟨mem_maxDepth.2 ⟨h.sub _ List.mem_cons_self, ?_⟩, ?_⟩
  · intro b' hb'
    obtain ⟨q, hq, hd⟩ := h.dom b' hb'
    simp at hq
    subst hq
    exact hd
  · have := h.num _ List.mem_cons_self
    simp only at this
    simp [Cfg.voteOf, this]

/-! ### the fallback: thresholds `th, th-1, …, 0` -/

theorem ghostLoop_rel {c : Cfg} (hw : c.t.WF) {votes : List (Nat × Vote)} (hg : GoodVotes c votes) {o : Ord}
    (ho : o.Valid) (e : Nat) : ∀ th, SelRel c (candsDown c votes e th) (ghostLoop c o votes e th) := by
  intro th
  induction th with
  | zero => exact selRel_of_char (psb_char hw hg (ho.sub 0) e 0)
  | succ th ih =>
    have hr := selRel_of_char (psb_char hw hg (ho.sub (th + 1)) e (th + 1))
    unfold ghostLoop candsDown
    by_cases hs : psb c (o.sub (th + 1)) votes e (th + 1) = []
    · have hc := hr.nil_iff.1 hs
      simp only [hs, hc, List.isEmpty_nil, Bool.not_true, Bool.false_eq_true, if_false]
      exact ih
    · have hc : cands c votes e (th + 1) ≠ [] := fun hn => hs (hr.nil_iff.2 hn)
      have h1 : (!(psb c (o.sub (th + 1)) votes e (th + 1)).isEmpty) = true := by
        cases hh : psb c (o.sub (th + 1)) votes e (th + 1) with
        | nil => exact absurd hh hs
        | cons _ _ => rfl
      have h2 : (!(cands c votes e (th + 1)).isEmpty) = true := by
        cases hh : cands c votes e (th + 1) with
        | nil => exact absurd hh hc
        | cons _ _ => rfl
      simp only [h1, h2, if_true]
      exact hr

theorem candsDown_of_ne {c : Cfg} {votes : List (Nat × Vote)} {e th : Nat} (h : cands c votes e th ≠ []) :
    candsDown c votes e th = cands c votes e th := by
  cases th with
  | zero => rfl
  | succ th =>
    unfold candsDown
    have h2 : (!(cands c votes e (th + 1)).isEmpty) = true := by
      cases hh : cands c votes e (th + 1) with
      | nil => exact absurd hh h
      | cons _ _ => rfl
    simp only [h2, if_true]

/-- the pre-voted block in closed form, for every iteration order (`C21_prevoted_closed_form`) -/
theorem gpv_closed_form {c : Cfg} (hw : c.t.WF) {s : St} (hg : GoodVotes c s.pv) {o : Ord}
    (ho : o.Valid) :
    (∀ v, getPreVotedBlock c o s = .ok v → v.blk ∈ pvbSet c s ∧ v = c.voteOf v.blk) ∧
    (∀ e, getPreVotedBlock c o s = .error e → e = .noghost ∧ pvbSet c s = []) := by
  have hr := selRel_of_char (psb_char hw hg (ho.sub 0) s.pve.length (thr c.n))
  unfold pvbSet
  cases hsel : psb c (o.sub 0) s.pv s.pve.length (thr c.n) with
  | nil =>
    -- no block above the threshold: getGrandpaGHOST
    have hrel := ghostLoop_rel hw hg ((ho.sub 2).sub 0) s.pve.length (thr c.n)
    have hgp : getPreVotedBlock c o s = getGrandpaGHOST c (o.sub 2) s := by
      simp only [getPreVotedBlock, hsel]
    rw [hgp]
    unfold getGrandpaGHOST
    by_cases hb : ghostLoop c ((o.sub 2).sub 0) s.pv s.pve.length (thr c.n) = []
    · simp only [hb, List.isEmpty_nil, if_true]
      refine ⟨fun v hv => (by cases hv), fun e he => ?_⟩
      cases he
      refine ⟨rfl, ?_⟩
      rw [hrel.nil_iff.1 hb]
      rfl
    · have he : (ghostLoop c ((o.sub 2).sub 0) s.pv s.pve.length (thr c.n)).isEmpty = false := by
        cases hh : ghostLoop c ((o.sub 2).sub 0) s.pv s.pve.length (thr c.n) with
        | nil => exact absurd hh hb
        | cons _ _ => rfl
      simp only [he, Bool.false_eq_true, if_false]
      refine ⟨fun v hv => ?_, fun e he => (by cases he)⟩
      cases hv
      exact pick_mem hw hrel ((ho.sub 2 [1]).2.2 _) hb
  | cons a rest =>
    rw [hsel] at hr
    have hne : cands c s.pv s.pve.length (thr c.n) ≠ [] := fun hn => by
      have := hr.nil_iff.2 hn
      cases this
    rw [candsDown_of_ne hne]
    cases rest with
    | nil =>
      obtain ⟨h, n⟩ := a
      have hgp : getPreVotedBlock c o s = .ok ⟨h, n⟩ := by
        simp only [getPreVotedBlock, hsel]
      rw [hgp]
      refine ⟨fun v hv => ?_, fun e he => (by cases he)⟩
      cases hv
      exact single_mem hr
    | cons b rest =>
      have hgp : getPreVotedBlock c o s = .ok (pickHighest c.head ((o [1]).blocks (a :: b :: rest))) := by
        simp only [getPreVotedBlock, hsel]
      rw [hgp]
      refine ⟨fun v hv => ?_, fun e he => (by cases he)⟩
      cases hv
      exact pick_mem hw hr ((ho [1]).2.2 _) (by simp)

end Gossamer.C21
