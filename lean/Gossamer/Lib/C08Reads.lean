/-
C08: the ordered reads of `TrieState` over the ideal backend (NextKey, TrieEntries,
GetChildNextKey, GetKeysWithPrefixFromChild) agree with the ordered-map reads of the level.
-/
import Gossamer.Lib.C08Overlay
set_option linter.unusedSectionVars false
set_option linter.unusedSimpArgs false
namespace Gossamer.C08
open Gossamer

section reads
variable (Hc Hm : Entries → Bytes) {CK : Bytes → Bool} {b : Logical} {d : Diff}

/-- the main trie as read inside a level -/
def levelView (b : Logical) (d : Diff) : Entries :=
  Logical.view Hc { main := (effL b d).main, kids := b.kids }

theorem next_sim (hb : BaseInv CK b) (hd : DiffInv CK d) (r : List Diff) (k : Bytes) :
    nextKeyTS (idealBackend Hc Hm) { base := b, txs := d :: r } k =
      OMap.nextKey k (levelView Hc b d) := by
  unfold levelView
  rw [(view_overlay Hc hb hd).next k]
  simp only [nextKeyTS, idealBackend]
  rw [hd.sk, nextSorted_eq _ _ (sorted_keys hd.sorted.c.ups)]

theorem ents_sim (hb : BaseInv CK b) (hd : DiffInv CK d) (r : List Diff) :
    trieEntriesTS (idealBackend Hc Hm) { base := b, txs := d :: r } =
      (levelView Hc b d).map (fun e => (e.1, some e.2)) := by
  unfold levelView
  rw [← (view_overlay Hc hb hd).entries]
  simp only [trieEntriesTS, idealBackend]

/-! ### child tries -/

theorem kid_overlay (hb : BaseInv CK b) (hd : DiffInv CK d) {ck : Bytes} {ch : CDiff}
    (hf : KMap.find ck d.kids = some ch) (hnd : ck ∉ d.c.deletes) :
    Overlay (kidOf b ck) ch.upserts ch.deletes (kidOf (effL b d) ck) := by
  refine ⟨kidOf_sorted hb.wf ck, (hd.sorted.kid (ck, ch) (KMap.find_some_mem hf)).ups,
    kidOf_sorted (effL_wf hb.wf) ck, hd.kidDisj ck ch hf, ?_⟩
  intro x
  rw [eff_kid hb hd]
  simp [hnd, hf]

theorem kid_deleted (hb : BaseInv CK b) (hd : DiffInv CK d) {ck : Bytes} (h : ck ∈ d.c.deletes) :
    kidOf (effL b d) ck = [] := by
  have hnil : OMap.Sorted ([] : Entries) := trivial
  apply OMap.sorted_ext (kidOf_sorted (effL_wf hb.wf) ck) hnil
  intro k
  rw [eff_kid hb hd]
  simp [h, OMap.get]

theorem kid_same (hb : BaseInv CK b) (hd : DiffInv CK d) {ck : Bytes} (h : ck ∉ d.c.deletes)
    (hf : KMap.find ck d.kids = none) : kidOf (effL b d) ck = kidOf b ck := by
  apply OMap.sorted_ext (kidOf_sorted (effL_wf hb.wf) ck) (kidOf_sorted hb.wf ck)
  intro k
  rw [eff_kid hb hd]
  simp [h, hf]

theorem has_false_of_not_mem {k : Bytes} {s : KSet} (h : k ∉ s) : KSet.has k s = false := by
  cases hh : KSet.has k s with
  | false => rfl
  | true => exact absurd ((KSet.has_iff _ _).mp hh) h

theorem kidOf_none {l : Logical} {ck : Bytes} (h : KMap.find ck l.kids = none) : kidOf l ck = [] := by
  unfold kidOf; rw [h]; rfl

theorem kidOf_some {l : Logical} {ck : Bytes} {es : Entries} (h : KMap.find ck l.kids = some es) :
    kidOf l ck = es := by
  unfold kidOf; rw [h]; rfl

theorem getChild_ideal (b : Logical) (ck : Bytes) :
    (idealBackend Hc Hm).getChild b ck =
      match KMap.find ck b.kids with
      | none => .missing
      | some es => .present es := rfl

/-- reads of a child on the committed state -/
theorem cnext_base (b : Logical) (ck k : Bytes) :
    (match (idealBackend Hc Hm).getChild b ck with
      | .present c => Out.val ((idealBackend Hc Hm).T.nextKey c k)
      | _ => Out.val none) = Out.val (OMap.nextKey k (kidOf b ck)) := by
  rw [getChild_ideal]
  unfold kidOf
  cases KMap.find ck b.kids with
  | none => rfl
  | some es => rfl

theorem cnext_sim (hb : BaseInv CK b) (hd : DiffInv CK d) (r : List Diff) (ck k : Bytes) :
    getChildNextKeyTS (idealBackend Hc Hm) { base := b, txs := d :: r } ck k =
      .val (OMap.nextKey k (kidOf (effL b d) ck)) := by
  simp only [getChildNextKeyTS]
  by_cases hdel : ck ∈ d.c.deletes
  · have : KSet.has ck d.c.deletes = true := (KSet.has_iff _ _).mpr hdel
    simp only [this, if_true, kid_deleted hb hd hdel]
    rfl
  · simp only [has_false_of_not_mem hdel, Bool.false_eq_true, if_false]
    cases hf : KMap.find ck d.kids with
    | none =>
      simp only []
      rw [kid_same hb hd hdel hf, getChild_ideal]
      cases hfb : KMap.find ck b.kids with
      | none => simp [kidOf_none hfb, OMap.nextKey]
      | some es => simp [kidOf_some hfb, idealBackend, omapOps]
    | some ch =>
      simp only []
      have ho := kid_overlay hb hd hf hdel
      have hs := sorted_keys (hd.sorted.kid (ck, ch) (KMap.find_some_mem hf)).ups
      rw [ho.next k, getChild_ideal, hd.kidSk ck ch hf, nextSorted_eq _ _ hs]
      unfold kidOf
      cases hfb : KMap.find ck b.kids with
      | none => simp [Logical.keysAfterE, mergeNext]
      | some es => simp [idealBackend, omapOps]

theorem sortKeys_sorted {l : List Bytes} (h : KSet.Sorted l) : sortKeys l = l := by
  induction l with
  | nil => rfl
  | cons e r ih =>
    have : sortKeys (e :: r) = insDup e (sortKeys r) := rfl
    rw [this, ih h.2]
    cases r with
    | nil => rfl
    | cons x r' =>
      have hx := h.1 x (by simp)
      simp [insDup, klt_asymm hx]

theorem keysWithPrefix_sorted {es : Entries} (h : OMap.Sorted es) (p : Bytes) :
    KSet.Sorted (OMap.keysWithPrefix p es) := by
  unfold OMap.keysWithPrefix
  exact omap_sorted_keys (OMap.sorted_filter _ h)

theorem ckeys_base (b : Logical) (hb : b.WF) (ck p : Bytes) :
    (match (idealBackend Hc Hm).getChild b ck with
      | .present c => Out.keys (sortKeys ((idealBackend Hc Hm).T.keysWithPrefix c p))
      | _ => Out.keys []) = Out.keys (OMap.keysWithPrefix p (kidOf b ck)) := by
  rw [getChild_ideal]
  have hs := kidOf_sorted hb ck
  unfold kidOf at hs ⊢
  cases hf : KMap.find ck b.kids with
  | none => rfl
  | some es =>
    rw [hf] at hs
    simp only [Option.getD_some] at hs ⊢
    simp only [idealBackend, omapOps]
    rw [sortKeys_sorted (keysWithPrefix_sorted hs p)]

theorem keys_filter_map (es : Entries) (p : Bytes) :
    (KMap.keys (es.map (fun e => (e.1, some e.2)))).filter (fun k => p.isPrefixOf k) =
      OMap.keysWithPrefix p es := by
  unfold KMap.keys OMap.keysWithPrefix
  induction es with
  | nil => rfl
  | cons e r ih =>
    simp only [List.map_cons, List.filter_cons]
    by_cases h : p.isPrefixOf e.1 = true
    · simp only [h, if_true, List.map_cons]; rw [ih]
    · simp only [h, Bool.false_eq_true, if_false]; exact ih

theorem ckeys_sim (hb : BaseInv CK b) (hd : DiffInv CK d) (r : List Diff) (ck p : Bytes) :
    getKeysWithPrefixFromChildTS (idealBackend Hc Hm) { base := b, txs := d :: r } ck p =
      .keys (OMap.keysWithPrefix p (kidOf (effL b d) ck)) := by
  simp only [getKeysWithPrefixFromChildTS]
  by_cases hdel : ck ∈ d.c.deletes
  · have : KSet.has ck d.c.deletes = true := (KSet.has_iff _ _).mpr hdel
    simp only [this, if_true, kid_deleted hb hd hdel]
    rfl
  · simp only [has_false_of_not_mem hdel, Bool.false_eq_true, if_false]
    cases hf : KMap.find ck d.kids with
    | none =>
      simp only []
      rw [kid_same hb hd hdel hf, getChild_ideal]
      cases hfb : KMap.find ck b.kids with
      | none => simp [kidOf_none hfb, OMap.keysWithPrefix]
      | some es =>
        have hs : OMap.Sorted es := (hb.wf.kid ck es hfb).1
        simp only [kidOf_some hfb, idealBackend, omapOps]
        rw [sortKeys_sorted (keysWithPrefix_sorted hs p)]
    | some ch =>
      simp only []
      have ho := kid_overlay hb hd hf hdel
      have he := ho.entries
      rw [getChild_ideal]
      cases hfb : KMap.find ck b.kids with
      | none =>
        rw [kidOf_none hfb] at he
        simp only [List.map_nil] at he
        simp only []
        by_cases hemp : ch.upserts.isEmpty = true
        · have hu : ch.upserts = [] := by simpa using hemp
          simp only [hemp, if_true]
          rw [hu] at he
          simp only [List.foldl_nil] at he
          have hnil : (kidOf (effL b d) ck).map (fun e => (e.1, some e.2)) = [] := by
            rw [← he]
            generalize ch.deletes = ds
            induction ds with
            | nil => rfl
            | cons x xs ih => simpa [KMap.del] using ih
          have : kidOf (effL b d) ck = [] := by simpa using hnil
          rw [this]; rfl
        · simp only [hemp, Bool.false_eq_true, if_false]
          rw [he, keys_filter_map]
      | some es =>
        rw [kidOf_some hfb] at he
        simp only [idealBackend, omapOps]
        rw [he, keys_filter_map]

end reads

end Gossamer.C08
