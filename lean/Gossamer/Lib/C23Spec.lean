/-
Specification side of property C23: Substrate's `AuthoritySet` rules (client/consensus/grandpa/src/authorities.rs,
fork-tree `import` / `finalize_with_descendent_if`) over the block tree of a case.  Core Lean only.

Ancestry is a total relation on the static tree (no errors).  The pending standard changes form a fork tree
keyed by announcing block; pending forced changes are a set with at most one per fork.
Choices where Substrate's code is not a function of the history alone are stated at the definitions.
-/
import Gossamer.Model.C23
namespace Gossamer.C23

structure Spec where
  /-- accepted blocks that are on the finalised chain or descend from the finalised block -/
  known : List Nat
  fin : Nat
  setId : Nat
  /-- authorities (tag) of set `s` at index `s` -/
  auths : List Nat
  /-- `starts[s]` = last block number of set `s-1` (0 for the genesis set): set `s` is in charge of the
      block numbers above it -/
  starts : List Nat
  std : List Node
  forced : List Ann
deriving Repr, Inhabited

def Spec.init : Spec :=
  { known := [0], fin := 0, setId := 0, auths := [0], starts := [0], std := [], forced := [] }

/-- a new set begins: the previous set's last block number is `last` -/
def Spec.enact (p : Spec) (tag last : Nat) : Spec :=
  { p with setId := p.setId + 1, auths := p.auths ++ [tag], starts := p.starts ++ [last] }

mutual
/-- fork-tree `import` at one node: below the deepest node whose block is a strict ancestor -/
def specImportNode (t : Tree) (pc : Ann) : Node → Option Node
  | .mk c kids =>
    if c.blk ≠ pc.blk ∧ anc t c.blk pc.blk then
      match specImportKids t pc kids with
      | some kids' => some (.mk c kids')
      | none => some (.mk c (kids ++ [.mk pc []]))
    else none
def specImportKids (t : Tree) (pc : Ann) : List Node → Option (List Node)
  | [] => none
  | n :: rest =>
    match specImportNode t pc n with
    | some n' => some (n' :: rest)
    | none =>
      match specImportKids t pc rest with
      | some rest' => some (n :: rest')
      | none => none
end

/-- fork-tree `import`: below the deepest node whose block is a strict ancestor, else a new root -/
def specImportStd (t : Tree) (pc : Ann) (roots : List Node) : List Node :=
  match specImportKids t pc roots with
  | some r => r
  | none => roots ++ [.mk pc []]

/-- the change a header signals: its forced change if it has one, otherwise its scheduled change
    (`check_new_change`) -/
def signalled (t : Tree) (b : Nat) : Option Ann :=
  let ds := t.anns.filter (·.blk = b)
  match ds.find? (·.forced) with
  | some f => some f
  | none => ds.head?

/-- comparable with `b`: on the chain of `b` or descending from it -/
def cmp (t : Tree) (b x : Nat) : Bool := anc t b x || anc t x b

/-- a header with two scheduled or two forced changes (no runtime emits one) -/
def malformed (t : Tree) (b : Nat) : Bool :=
  let ds := t.anns.filter (·.blk = b)
  decide ((ds.filter (·.forced)).length > 1) || decide ((ds.filter (fun d => !d.forced)).length > 1)

/-- `add_pending_change`: a forced change is refused when another one is pending on the same fork -/
def Spec.addChange (t : Tree) (p : Spec) (b : Nat) : Except Res Spec :=
  match signalled t b with
  | none => .ok p
  | some c =>
    if c.forced then
      if p.forced.any (fun f => anc t f.blk b) then .error (.eDigest .already)
      else .ok { p with forced := p.forced ++ [c] }
    else .ok { p with std := specImportStd t c p.std }

/-- `apply_forced_changes` at the imported block `b` (`p` = state before the block, `p1` = with its change) -/
def Spec.enactForced (t : Tree) (p p1 : Spec) (b : Nat) : Spec × Res :=
  match p1.forced.find? (fun f => anc t f.blk b && decide (eff t f = num t b)) with
  | none => ({ p1 with known := p1.known ++ [b] }, .ok)
  | some f =>
    if p1.std.any (fun r => decide (eff t r.ann ≤ f.best) && anc t r.ann.blk f.blk) then (p, .eForced .pending)
    else
      let p2 := p1.enact f.tag f.best
      ({ p2 with std := [], forced := [], known := p1.known ++ [b] }, .ok)

/-- `imp b`.  A block is accepted when its parent is accepted and not below the finalised block.
    A block whose forced change would be the second one pending on its fork, or that enacts a forced change
    depending on a pending standard change, is rejected as a whole (nothing changes). -/
def Spec.importBlock (t : Tree) (p : Spec) (b : Nat) : Spec × Res :=
  if !(p.known.contains (par t b) && anc t p.fin (par t b)) then (p, .eParent)
  else
    match p.addChange t b with
    | .error e => (p, e)
    | .ok p1 => Spec.enactForced t p p1 b

/-- `fin b` for an accepted block that is the finalised block or descends from it
    (`apply_standard_changes` / `finalize_with_descendent_if`).
    Choice: the block-level finalisation always takes place (that is property C17's subject); when the fork
    tree reports an unfinalised ancestor the set id, the authorities and the pending standard changes on the
    finalised branch are left untouched.
    Choice: pending changes on forks that the finalisation abandons are discarded at every finalisation, and
    a pending forced change stays pending exactly while its announcing block is the finalised block or
    descends from it. -/
def Spec.finalise (t : Tree) (p : Spec) (b : Nat) : Spec × Res :=
  if !(p.known.contains b && anc t p.fin b) then (p, .eFin)
  else
    let n := num t b
    let p0 := { p with fin := b, known := p.known.filter (cmp t b),
                       forced := p.forced.filter (fun f => anc t b f.blk),
                       std := p.std.filter (fun r => cmp t b r.ann.blk) }
    match p.std.find? (fun r => decide (eff t r.ann ≤ n) && anc t r.ann.blk b) with
    | some r =>
      if r.kids.any (fun k => decide (num t k.ann.blk ≤ n) && anc t k.ann.blk b) then
        (p0, .okSched .unfin)
      else
        ({ p0 with std := r.kids.filter (fun k => cmp t b k.ann.blk) }.enact r.ann.tag n, .ok)
    | none => (p0, .ok)

def Spec.step (t : Tree) (p : Spec) : Op → Spec × Res
  | .imp b => p.importBlock t b
  | .fin b => p.finalise t b

/-- the largest `i` in `1..k` with `f i < n`, 0 if there is none -/
def topBelow (f : Nat → Nat) (n : Nat) : Nat → Nat
  | 0 => 0
  | k + 1 => if f (k + 1) < n then k + 1 else topBelow f n k

/-- the set in charge of block number `n`: the latest set that began below `n` (the genesis set if none).
    When the sets' last blocks increase (as Substrate assumes) this is the first set whose last block is
    not below `n`. -/
def Spec.setIdAt (p : Spec) (n : Nat) : Nat := topBelow (fun i => p.starts.getD i 0) n p.setId

/-- the lowest effective number, not above the number of `x`, of a pending change (forced, or a root of the
    standard-change tree) announced on the chain of `x`; 0 = none -/
def Spec.nextChange (t : Tree) (p : Spec) (x : Nat) : Nat :=
  let n := num t x
  let cands := (p.forced.filter (fun f => anc t f.blk x && decide (eff t f ≤ n))).map (eff t) ++
    ((p.std.map Node.ann).filter (fun c => anc t c.blk x && decide (eff t c ≤ n))).map (eff t)
  match cands with
  | [] => 0
  | c :: cs => cs.foldl min c

end Gossamer.C23
