/-
C20: bitfield.go (model `C20Bitfield`) refines the Nat bit masks the round model uses:
`SetBit` sets exactly that position, `Merge` is the union, `testBit` reads machine bit 63 − position.
-/
import Gossamer.Lib.C20Bitfield
import Gossamer.Model.C20
namespace Gossamer.C20.BF

theorem getD_padTo (b : Words) (n i : Nat) : (padTo b n).getD i 0 = b.getD i 0 := by
  unfold padTo
  simp only [List.getD_eq_getElem?_getD]
  by_cases h : i < b.length
  · rw [List.getElem?_append_left h]
  · rw [List.getElem?_append_right (by omega)]
    rw [List.getElem?_eq_none (l := b) (by omega)]
    by_cases h2 : i - b.length < n - b.length
    · simp [List.getElem?_replicate, h2]
    · simp [List.getElem?_replicate, h2]

theorem length_padTo (b : Words) (n : Nat) : (padTo b n).length = max b.length n := by
  unfold padTo; simp; omega

theorem getD_set (l : Words) (w x i : Nat) (hw : w < l.length) :
    (l.set w x).getD i 0 = if i = w then x else l.getD i 0 := by
  simp only [List.getD_eq_getElem?_getD, List.getElem?_set]
  by_cases h : w = i
  · subst h; simp [hw]
  · have : ¬ i = w := fun e => h e.symm
    simp [h, this]

/-- `testBit(word, pos)` of bitfield.go reads machine bit `63 - pos` -/
theorem testBitGo_eq (word pos : Nat) : testBitGo word pos = word.testBit (63 - pos) := by
  unfold testBitGo
  simp only [Nat.one_shiftLeft]
  generalize 63 - pos = k
  apply Bool.eq_iff_iff.2
  simp only [beq_iff_eq]
  constructor
  · intro h
    have := congrArg (fun x => x.testBit k) h
    simpa [Nat.testBit_and, Nat.testBit_two_pow] using this
  · intro h
    apply Nat.eq_of_testBit_eq
    intro i
    rw [Nat.testBit_and, Nat.testBit_two_pow]
    by_cases hi : k = i
    · subst hi; simp [h]
    · simp [hi]

/-- `SetBit(p)` sets position `p` and nothing else -/
theorem get_setBit (b : Words) (p q : Nat) : get (setBit b p) q = (get b q || decide (p = q)) := by
  unfold get setBit
  simp only
  have hlen : p / 64 < (if p / 64 ≥ b.length then padTo b (p / 64 + 1) else b).length := by
    split
    · rw [length_padTo]; omega
    · omega
  have hget : ∀ i, (if p / 64 ≥ b.length then padTo b (p / 64 + 1) else b).getD i 0 = b.getD i 0 := by
    intro i; split
    · exact getD_padTo b _ i
    · rfl
  rw [getD_set _ _ _ _ hlen]
  by_cases hw : q / 64 = p / 64
  · simp only [hw, if_true, hget]
    rw [Nat.testBit_or, Nat.one_shiftLeft, Nat.testBit_two_pow]
    have : (63 - p % 64 = 63 - q % 64) ↔ p = q := by omega
    simp only [this]
  · simp only [hw, if_false, hget]
    have : ¬ p = q := fun e => hw (e ▸ rfl)
    simp [this]

theorem getD_orInto : ∀ (a b : Words) (i : Nat), b.length ≤ a.length →
    (orInto a b).getD i 0 = (a.getD i 0 ||| b.getD i 0) := by
  intro a
  induction a with
  | nil => intro b i h; have : b = [] := List.eq_nil_of_length_eq_zero (by simpa using h)
           subst this; simp [orInto]
  | cons x xs ih =>
    intro b i h
    cases b with
    | nil => simp [orInto]
    | cons y ys =>
      cases i with
      | zero => simp [orInto]
      | succ i =>
        have := ih ys i (by simpa using h)
        simpa [orInto] using this

/-- `Merge` is the union -/
theorem get_merge (a b : Words) (q : Nat) : get (merge a b) q = (get a q || get b q) := by
  unfold get merge
  have hlen : b.length ≤ (if a.length < b.length then padTo a b.length else a).length := by
    split
    · rw [length_padTo]; omega
    · omega
  rw [getD_orInto _ _ _ hlen, Nat.testBit_or]
  congr 2
  split
  · exact getD_padTo a _ _
  · rfl

theorem get_nil (q : Nat) : get [] q = false := by simp [get]

theorem isBlank_get {b : Words} (h : isBlank b = true) (q : Nat) : get b q = false := by
  have : b = [] := by simpa [isBlank] using h
  subst this; exact get_nil q

/-- a bitfield represents a Nat mask of the round model -/
def Rep (b : Words) (m : Nat) : Prop := ∀ p, get b p = m.testBit p

theorem rep_empty : Rep [] 0 := fun p => by rw [get_nil, Nat.zero_testBit]

theorem rep_setBit {b : Words} {m : Nat} (h : Rep b m) (p : Nat) : Rep (setBit b p) (Gossamer.C20.setBit m p) := by
  intro q
  rw [get_setBit, h q]
  simp [Gossamer.C20.setBit, Nat.testBit_or, Nat.one_shiftLeft, Nat.testBit_two_pow]

theorem rep_merge {a b : Words} {m n : Nat} (ha : Rep a m) (hb : Rep b n) : Rep (merge a b) (m ||| n) := by
  intro q
  rw [get_merge, ha q, hb q, Nat.testBit_or]

end Gossamer.C20.BF
