/-
C21: `getBestFinalCandidate` in closed form (`bfcOf`) when at most one third of the authorities equivocated in
their precommits: the candidate is determined by the pre-voted block, whatever the iteration orders.
-/
import Gossamer.Lib.C21Final
namespace Gossamer.C21

theorem lca_eq_left {t : Tree} (hw : t.WF) {a b : Nat} (ha : a < t.size) (hb : b < t.size)
    (hab : a ∈ t.chain b) : lca t a b = some a := by
  obtain ⟨p, hl, hpa, _, hq⟩ := lca_spec hw a b ha hb
  have : a ∈ t.chain p := hq a (t.mem_chain_self a) hab
  rw [hl, Tree.le_antisymm hw hpa this]

/-- the common ancestor with `p` grows with the block -/
theorem lca_mono {t : Tree} (hw : t.WF) {h q p x y : Nat} (hhq : h ∈ t.chain q)
    (hx : lca t h p = some x) (hy : lca t q p = some y) : x ∈ t.chain y := by
  obtain ⟨hxh, hxp, _⟩ := lca_mem hw hx
  obtain ⟨_, _, hu⟩ := lca_mem hw hy
  exact hu x (Tree.le_trans hw hxh hhq) hxp

/-- the block on the chain of `p` a selected block `h` stands for -/
def candOf (c : Cfg) (p h : Nat) : Nat := (lca c.t h p).getD h

theorem bfcStep_eq {c : Cfg} (hw : c.t.WF) {p v : Vote} (hp : p.blk < c.t.size) {q : Nat × Nat}
    (hq : q.1 < c.t.size) (hqn : q.2 = c.number q.1) :
    bfcStep c p (.ok v) q =
      if v.num < c.number (candOf c p.blk q.1) then .ok (c.voteOf (candOf c p.blk q.1)) else .ok v := by
  rcases isDesc_known hq hp with hd | hd
  · have hm := isDesc_yes_mem hd
    have hc : candOf c p.blk q.1 = q.1 := by simp [candOf, lca_eq_left hw hq hp hm]
    rw [hc]
    simp [bfcStep, hd, bind, Except.bind, Cfg.voteOf, hqn]
  · obtain ⟨pred, hl, _⟩ := lca_spec hw q.1 p.blk hq hp
    have hc : candOf c p.blk q.1 = pred := by simp [candOf, hl]
    rw [hc]
    simp [bfcStep, hd, hl, bind, Except.bind, Cfg.voteOf]

/-- the candidate loop picks a block `candOf q` of maximal number -/
theorem bfcFold_max {c : Cfg} (hw : c.t.WF) {p : Vote} (hp : p.blk < c.t.size) :
    ∀ (L : List (Nat × Nat)) (v : Vote), (∀ q ∈ L, q.1 < c.t.size ∧ q.2 = c.number q.1) →
    ∃ v', L.foldl (bfcStep c p) (.ok v) = .ok v' ∧ v.num ≤ v'.num ∧
      (∀ q ∈ L, c.number (candOf c p.blk q.1) ≤ v'.num) ∧
      (v' = v ∨ ∃ q ∈ L, v' = c.voteOf (candOf c p.blk q.1)) := by
  intro L
  induction L with
  | nil => intro v _; exact ⟨v, rfl, Nat.le_refl _, fun q hq => (by cases hq), Or.inl rfl⟩
  | cons q rest ih =>
    intro v hq
    rw [List.foldl_cons, bfcStep_eq hw hp (hq q List.mem_cons_self).1 (hq q List.mem_cons_self).2]
    have hrest := fun q' hq' => hq q' (List.mem_cons_of_mem _ hq')
    by_cases hlt : v.num < c.number (candOf c p.blk q.1)
    · rw [if_pos hlt]
      obtain ⟨v', hf, hle, hall, hsrc⟩ := ih (c.voteOf (candOf c p.blk q.1)) hrest
      refine ⟨v', hf, ?_, ?_, ?_⟩
      · simp only [Cfg.voteOf] at hle; omega
      · intro q' hq'
        rcases List.mem_cons.1 hq' with rfl | hq'
        · simpa [Cfg.voteOf] using hle
        · exact hall q' hq'
      · rcases hsrc with h | ⟨q', hq', h⟩
        · exact Or.inr ⟨q, List.mem_cons_self, h⟩
        · exact Or.inr ⟨q', List.mem_cons_of_mem _ hq', h⟩
    · rw [if_neg hlt]
      obtain ⟨v', hf, hle, hall, hsrc⟩ := ih v hrest
      refine ⟨v', hf, hle, ?_, ?_⟩
      · intro q' hq'
        rcases List.mem_cons.1 hq' with rfl | hq'
        · omega
        · exact hall q' hq'
      · rcases hsrc with h | ⟨q', hq', h⟩
        · exact Or.inl h
        · exact Or.inr ⟨q', List.mem_cons_of_mem _ hq', h⟩

theorem onMap_eq {c : Cfg} (hw : c.t.WF) {p h : Nat} (hp : p < c.t.size) (hh : h < c.t.size) :
    (if c.t.le h p then some h else lca c.t h p) = some (candOf c p h) := by
  by_cases hl : c.t.le h p = true
  · rw [if_pos hl]
    simp [candOf, lca_eq_left hw hh hp (Tree.le_iff.1 hl)]
  · rw [if_neg hl]
    obtain ⟨x, hx, _⟩ := lca_spec hw h p hh hp
    simp [candOf, hx]

theorem candOf_mem {c : Cfg} (hw : c.t.WF) {p h : Nat} (hp : p < c.t.size) (hh : h < c.t.size) :
    candOf c p h ∈ c.t.chain p ∧ lca c.t h p = some (candOf c p h) := by
  obtain ⟨x, hx, _, hxp, _⟩ := lca_spec hw h p hh hp
  simp [candOf, hx, hxp]

/-- **`getBestFinalCandidate` in closed form, for every iteration order**, when the precommitting authorities are
distinct and at most one third of them equivocated -/
theorem gbfc_closed {c : Cfg} (hw : c.t.WF) {s : St} (hgv : GoodVotes c s.pv) (hgc : GoodVotes c s.pc)
    {o : Ord} (ho : o.Valid) (hacc : s.pc.length + s.pce.length ≤ c.n) (he : 3 * s.pce.length ≤ c.n)
    {b : Vote} (h : getBestFinalCandidate c o s = .ok b) :
    ∃ p, getPreVotedBlock c (o.sub 0) s = .ok p ∧ p.blk ∈ pvbSet c s ∧ b = c.voteOf (bfcOf c s p.blk) := by
  unfold getBestFinalCandidate at h
  cases hp : getPreVotedBlock c (o.sub 0) s with
  | error e => rw [hp] at h; simp [bind, Except.bind] at h
  | ok p =>
    rw [hp] at h
    simp only [bind, Except.bind] at h
    obtain ⟨hpm, hpv⟩ := (gpv_closed_form hw hgv (ho.sub 0)).1 p hp
    have hpk : p.blk < c.t.size := pvbSet_known hgv.known hpm
    refine ⟨p, rfl, hpm, ?_⟩
    have r := selRel_of_char (psb_char hw hgc (ho.sub 1) s.pce.length (thr c.n))
    by_cases hb : psb c (o.sub 1) s.pc s.pce.length (thr c.n) = []
    · rw [hb] at h
      simp only [List.isEmpty_nil, if_true] at h
      cases h
      have hcn := r.nil_iff.1 hb
      unfold bfcOf
      simp only [hcn, List.isEmpty_nil, if_true]
      exact hpv
    · have he' : (psb c (o.sub 1) s.pc s.pce.length (thr c.n)).isEmpty = false := by
        cases hh : psb c (o.sub 1) s.pc s.pce.length (thr c.n) with
        | nil => exact absurd hh hb
        | cons _ _ => rfl
      simp only [he', Bool.false_eq_true, if_false] at h
      have hperm := (ho [2]).2.2 (psb c (o.sub 1) s.pc s.pce.length (thr c.n))
      have hchar := psb_char hw hgc (ho.sub 1) s.pce.length (thr c.n)
      have hL : ∀ q ∈ (o [2]).blocks (psb c (o.sub 1) s.pc s.pce.length (thr c.n)),
          q.1 < c.t.size ∧ q.2 = c.number q.1 := by
        intro q hq
        obtain ⟨h1, h2, _, _⟩ := hchar.ok q (hperm.mem_iff.1 hq)
        exact ⟨h1, h2⟩
      obtain ⟨v', hf, _, hall, hsrc⟩ := bfcFold_max hw hpk _ ⟨c.genesis, 0⟩ hL
      rw [hf] at h
      cases h
      -- the result is the candidate of some selected block
      have hLne : (o [2]).blocks (psb c (o.sub 1) s.pc s.pce.length (thr c.n)) ≠ [] := fun hn =>
        hb (List.Perm.eq_nil (hn ▸ hperm.symm))
      have hsrc' : ∃ q ∈ (o [2]).blocks (psb c (o.sub 1) s.pc s.pce.length (thr c.n)),
          b = c.voteOf (candOf c p.blk q.1) := by
        rcases hsrc with hgen | hq
        · obtain ⟨q0, hq0⟩ := List.exists_mem_of_ne_nil _ hLne
          refine ⟨q0, hq0, ?_⟩
          have h0 := hall q0 hq0
          rw [hgen] at h0
          simp only [Cfg.number] at h0
          have hb0 : c.base = 0 := by omega
          have hd0 : c.t.depth (candOf c p.blk q0.1) = 0 := by omega
          have hc0 := (Tree.depth_zero_iff hw).1 hd0
          rw [hgen, hc0]
          simp [Cfg.voteOf, Cfg.number, Cfg.genesis, hb0, (Tree.depth_zero_iff hw).2 rfl]
        · exact hq
      obtain ⟨q, hqL, hbq⟩ := hsrc'
      have hqs := hperm.mem_iff.1 hqL
      have hcne : cands c s.pc s.pce.length (thr c.n) ≠ [] := fun hn => hb (r.nil_iff.2 hn)
      have hce : (cands c s.pc s.pce.length (thr c.n)).isEmpty = false := by
        cases hh : cands c s.pc s.pce.length (thr c.n) with
        | nil => exact absurd hh hcne
        | cons _ _ => rfl
      rw [hbq]
      congr 1
      unfold bfcOf
      simp only [hce, Bool.false_eq_true, if_false]
      -- the mapped candidates
      have hon : ∀ x, x ∈ (cands c s.pc s.pce.length (thr c.n)).filterMap
          (fun h => if c.t.le h p.blk then some h else lca c.t h p.blk) ↔
          ∃ h ∈ cands c s.pc s.pce.length (thr c.n), candOf c p.blk h = x := by
        intro x
        rw [List.mem_filterMap]
        constructor
        · rintro ⟨h', hh', hx⟩
          rw [onMap_eq hw hpk (mem_cands_super hgc.known hh').1] at hx
          exact ⟨h', hh', Option.some.inj hx⟩
        · rintro ⟨h', hh', hx⟩
          exact ⟨h', hh', by rw [onMap_eq hw hpk (mem_cands_super hgc.known hh').1, hx]⟩
      have hXon : candOf c p.blk q.1 ∈ (cands c s.pc s.pce.length (thr c.n)).filterMap
          (fun h => if c.t.le h p.blk then some h else lca c.t h p.blk) :=
        (hon _).2 ⟨q.1, r.sub q hqs, rfl⟩
      have hBound : ∀ x ∈ (cands c s.pc s.pce.length (thr c.n)).filterMap
          (fun h => if c.t.le h p.blk then some h else lca c.t h p.blk),
          c.t.depth x ≤ c.t.depth (candOf c p.blk q.1) ∧ x ∈ c.t.chain p.blk := by
        intro x hx
        obtain ⟨h', hh', rfl⟩ := (hon x).1 hx
        obtain ⟨hh's, hh't⟩ := mem_cands_super hgc.known hh'
        obtain ⟨q', hq', hd⟩ := r.dom h' hh'
        obtain ⟨hq's, hq't⟩ := mem_cands_super hgc.known (r.sub q' hq')
        have hanc : h' ∈ c.t.chain q'.1 := by
          rcases super_comparable hw hgc.known hacc he hh's hq's hh't hq't with hc | hc
          · exact hc
          · by_cases hne : q'.1 = h'
            · rw [hne]; exact c.t.mem_chain_self _
            · have := Tree.depth_lt' hw hc hne; omega
        have hm := lca_mono hw hanc (candOf_mem hw hpk hh's).2 (candOf_mem hw hpk hq's).2
        have h1 := Tree.depth_le hw hm
        have h2 := hall q' (hperm.mem_iff.2 hq')
        rw [hbq] at h2
        simp only [Cfg.voteOf, Cfg.number] at h2
        exact ⟨by omega, (candOf_mem hw hpk hh's).1⟩
      have hmax : candOf c p.blk q.1 ∈ maxDepth c.t ((cands c s.pc s.pce.length (thr c.n)).filterMap
          (fun h => if c.t.le h p.blk then some h else lca c.t h p.blk)) :=
        mem_maxDepth.2 ⟨hXon, fun x hx => (hBound x hx).1⟩
      cases hmd : maxDepth c.t ((cands c s.pc s.pce.length (thr c.n)).filterMap
          (fun h => if c.t.le h p.blk then some h else lca c.t h p.blk)) with
      | nil => rw [hmd] at hmax; cases hmax
      | cons y rest =>
        simp only
        have hy : y ∈ maxDepth c.t ((cands c s.pc s.pce.length (thr c.n)).filterMap
            (fun h => if c.t.le h p.blk then some h else lca c.t h p.blk)) := by
          rw [hmd]; exact List.mem_cons_self
        obtain ⟨hyon, hymax⟩ := mem_maxDepth.1 hy
        have h1 := hymax _ hXon
        have h2 := (hBound y hyon).1
        exact (Tree.eq_of_depth_eq hw (hBound y hyon).2 (hBound _ hXon).2 (by omega)).symm

end Gossamer.C21
