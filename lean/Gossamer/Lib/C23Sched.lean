/-
C23: the pending scheduled changes of the model.  Every announcing block found in the change tree is either
known to the block state or on a fork that finalisation abandoned (`RInv`); under that invariant the Go
functions over the tree are the plain functional forms used by the specification.  Core Lean only.
-/
import Gossamer.Lib.C23Forced
namespace Gossamer.C23

/-- all announcing blocks of a forest -/
def blocksF : List Node → List Nat
  | [] => []
  | .mk c kids :: rest => c.blk :: (blocksF kids ++ blocksF rest)

theorem blocksF_cons (c : Ann) (kids rest : List Node) :
    blocksF (.mk c kids :: rest) = c.blk :: (blocksF kids ++ blocksF rest) := by rw [blocksF]

theorem blocksF_nil : blocksF [] = [] := by rw [blocksF]

theorem blocksF_append : ∀ (a b : List Node), blocksF (a ++ b) = blocksF a ++ blocksF b
  | [], b => by simp [blocksF_nil]
  | .mk c kids :: rest, b => by
    simp only [List.cons_append, blocksF_cons, blocksF_append rest b, List.append_assoc]

theorem mem_blocksF_of_mem {r : Node} : ∀ {l : List Node}, r ∈ l → r.ann.blk ∈ blocksF l
  | .mk c kids :: rest, h => by
    simp only [List.mem_cons] at h
    rcases h with rfl | h
    · simp [blocksF_cons, Node.ann]
    · simp [blocksF_cons, mem_blocksF_of_mem h]

theorem mem_blocksF_kids {r : Node} {l : List Node} (hr : r ∈ l) {x : Nat} (hx : x ∈ blocksF r.kids) :
    x ∈ blocksF l := by
  induction l with
  | nil => simp at hr
  | cons a rest ih =>
    obtain ⟨c, kids⟩ := a
    simp only [List.mem_cons] at hr
    rcases hr with rfl | hr
    · simp only [Node.kids] at hx; simp [blocksF_cons, hx]
    · simp [blocksF_cons, ih hr]

theorem blocksF_filter_sub (p : Node → Bool) : ∀ (l : List Node) {x : Nat}, x ∈ blocksF (l.filter p) → x ∈ blocksF l
  | [], _, h => h
  | .mk c kids :: rest, x, h => by
    simp only [List.filter] at h
    split at h
    · simp only [blocksF_cons, List.mem_cons, List.mem_append] at h ⊢
      rcases h with h | h | h
      · exact Or.inl h
      · exact Or.inr (Or.inl h)
      · exact Or.inr (Or.inr (blocksF_filter_sub p rest h))
    · simp only [blocksF_cons, List.mem_cons, List.mem_append]
      exact Or.inr (Or.inr (blocksF_filter_sub p rest h))

/-- every announcing block in the change tree is known, or not comparable with the finalised block -/
def RInv (t : Tree) (s : St) : Prop := ∀ x ∈ blocksF s.roots, x ∈ s.live ∨ cmp t s.root x = false

/-- a block that is not known and whose change is still tracked is unrelated to every node of the block tree -/
theorem dead_anc_false {t : Tree} (wf : t.WF) {s : St} {x b : Nat} (hx : cmp t s.root x = false)
    (hb : anc t s.root b = true) : anc t x b = false := by
  cases h : anc t x b with
  | false => rfl
  | true =>
    have := anc_linear wf b _ _ hb h
    simp only [cmp, Bool.or_eq_false_iff] at hx
    rcases this with h1 | h1
    · rw [hx.1] at h1; exact absurd h1 (by simp)
    · rw [hx.2] at h1; exact absurd h1 (by simp)

/-- ancestry as `isDesc` sees it, for a target in the block tree -/
theorem isDesc_eq_anc {t : Tree} (wf : t.WF) {s : St} (hl : LiveInv t s) {x b : Nat}
    (hx : x ∈ s.live ∨ cmp t s.root x = false) (hb : inBt t s b = true) :
    isDesc t s x b = some (anc t x b) := by
  have hb' := (inBt_iff t s b).1 hb
  by_cases hxb : x = b
  · subst hxb; simp [isDesc, anc_refl wf]
  · by_cases hxl : x ∈ s.live
    · exact isDesc_live hxl hb'.1 hxb
    · rcases hx with hx | hx
      · exact absurd hx hxl
      · rw [isDesc_dead (Or.inl hxl) hxb, dead_anc_false wf hx hb'.2]

/-! ### importing a scheduled change -/

theorem importNode_mk (t : Tree) (isD : IsD) (pc c : Ann) (kids : List Node) :
    importNode t isD pc (.mk c kids) =
      if pc.blk = c.blk then .error .dup
      else match isD c.blk pc.blk with
        | none => .error .anc
        | some false => .ok none
        | some true =>
          if num t pc.blk ≤ num t c.blk then .ok none
          else match importKids t isD pc kids with
            | .error e => .error e
            | .ok (some kids') => .ok (some (.mk c kids'))
            | .ok none => .ok (some (.mk c (kids ++ [.mk pc []]))) := by
  rw [importNode]; rfl

theorem importKids_nil (t : Tree) (isD : IsD) (pc : Ann) : importKids t isD pc [] = .ok none := by
  rw [importKids]

theorem importKids_cons (t : Tree) (isD : IsD) (pc : Ann) (n : Node) (rest : List Node) :
    importKids t isD pc (n :: rest) =
      match importNode t isD pc n with
      | .error e => .error e
      | .ok (some n') => .ok (some (n' :: rest))
      | .ok none =>
        match importKids t isD pc rest with
        | .error e => .error e
        | .ok (some rest') => .ok (some (n :: rest'))
        | .ok none => .ok none := by
  rw [importKids]; rfl

theorem specImportNode_mk (t : Tree) (pc c : Ann) (kids : List Node) :
    specImportNode t pc (.mk c kids) =
      if c.blk ≠ pc.blk ∧ anc t c.blk pc.blk then
        match specImportKids t pc kids with
        | some kids' => some (.mk c kids')
        | none => some (.mk c (kids ++ [.mk pc []]))
      else none := by
  rw [specImportNode]; rfl

theorem specImportKids_nil (t : Tree) (pc : Ann) : specImportKids t pc [] = none := by
  rw [specImportKids]

theorem specImportKids_cons (t : Tree) (pc : Ann) (n : Node) (rest : List Node) :
    specImportKids t pc (n :: rest) =
      match specImportNode t pc n with
      | some n' => some (n' :: rest)
      | none =>
        match specImportKids t pc rest with
        | some rest' => some (n :: rest')
        | none => none := by
  rw [specImportKids]; rfl

/-- the forest form of `specImportKids` -/
theorem specImportKids_mk (t : Tree) (pc c : Ann) (kids rest : List Node) :
    specImportKids t pc (.mk c kids :: rest) =
      if c.blk ≠ pc.blk ∧ anc t c.blk pc.blk then
        match specImportKids t pc kids with
        | some kids' => some (.mk c kids' :: rest)
        | none => some (.mk c (kids ++ [.mk pc []]) :: rest)
      else
        match specImportKids t pc rest with
        | some rest' => some (.mk c kids :: rest')
        | none => none := by
  rw [specImportKids_cons, specImportNode_mk]
  by_cases h : c.blk ≠ pc.blk ∧ anc t c.blk pc.blk = true
  · rw [if_pos h, if_pos h]
    cases specImportKids t pc kids <;> rfl
  · rw [if_neg h, if_neg h]

/-- `importKids` on a fresh tip is the fork-tree import -/
theorem importKids_eq {t : Tree} (wf : t.WF) {s : St} (hl : LiveInv t s) (pc : Ann) (hb : inBt t s pc.blk = true) :
    ∀ (l : List Node), (∀ x ∈ blocksF l, (x ∈ s.live ∨ cmp t s.root x = false) ∧ x ≠ pc.blk) →
      importKids t (isDesc t s) pc l = .ok (specImportKids t pc l)
  | [], _ => by rw [importKids_nil, specImportKids_nil]
  | .mk c kids :: rest, h => by
    have hc := h c.blk (by simp [blocksF_cons])
    have hkids : ∀ x ∈ blocksF kids, (x ∈ s.live ∨ cmp t s.root x = false) ∧ x ≠ pc.blk :=
      fun x hx => h x (by simp [blocksF_cons, hx])
    have hrest : ∀ x ∈ blocksF rest, (x ∈ s.live ∨ cmp t s.root x = false) ∧ x ≠ pc.blk :=
      fun x hx => h x (by simp [blocksF_cons, hx])
    have ihk := importKids_eq wf hl pc hb kids hkids
    have ihr := importKids_eq wf hl pc hb rest hrest
    have hne : ¬ pc.blk = c.blk := fun e => hc.2 e.symm
    rw [importKids_cons, importNode_mk, specImportKids_mk]
    simp only [hne, if_false, isDesc_eq_anc wf hl hc.1 hb, ihk, ihr]
    cases ha : anc t c.blk pc.blk with
    | false =>
      simp only [Bool.false_eq_true, and_false, if_false]
      cases specImportKids t pc rest <;> rfl
    | true =>
      have hlt := num_lt_of_anc_ne wf ha hc.2
      have : ¬ num t pc.blk ≤ num t c.blk := by omega
      simp only [this, if_false, ne_eq, hc.2, not_false_eq_true, and_self, if_true]
      cases specImportKids t pc kids <;> rfl

theorem schedImport_eq {t : Tree} (wf : t.WF) {s : St} (hl : LiveInv t s) (pc : Ann) (hb : inBt t s pc.blk = true)
    (l : List Node) (h : ∀ x ∈ blocksF l, (x ∈ s.live ∨ cmp t s.root x = false) ∧ x ≠ pc.blk) :
    schedImport t (isDesc t s) pc l = .ok (specImportStd t pc l) := by
  unfold schedImport specImportStd
  rw [importKids_eq wf hl pc hb l h]
  cases specImportKids t pc l <;> rfl

/-- the blocks of the tree after an import: the old ones and the new one -/
theorem blocksF_specImportKids (t : Tree) (pc : Ann) : ∀ (l l' : List Node), specImportKids t pc l = some l' →
    ∀ x, x ∈ blocksF l' ↔ x = pc.blk ∨ x ∈ blocksF l
  | [], _, h => by simp [specImportKids_nil] at h
  | .mk c kids :: rest, l', h => by
    rw [specImportKids_mk] at h
    intro x
    split at h
    · cases hk : specImportKids t pc kids with
      | some kids' =>
        simp only [hk, Option.some.injEq] at h; subst h
        have := blocksF_specImportKids t pc kids kids' hk x
        simp only [blocksF_cons, List.mem_cons, List.mem_append, this]
        constructor
        · rintro (h | (h | h) | h) <;> simp [h]
        · rintro (h | h | h | h) <;> simp [h]
      | none =>
        simp only [hk, Option.some.injEq] at h; subst h
        simp only [blocksF_cons, blocksF_append, List.mem_cons, List.mem_append, blocksF_nil, List.append_nil,
          List.not_mem_nil, or_false, or_assoc]
        constructor
        · rintro (h | h | h | h) <;> simp [h]
        · rintro (h | h | h | h) <;> simp [h]
    · cases hr : specImportKids t pc rest with
      | some rest' =>
        simp only [hr, Option.some.injEq] at h; subst h
        have := blocksF_specImportKids t pc rest rest' hr x
        simp only [blocksF_cons, List.mem_cons, List.mem_append, this]
        constructor
        · rintro (h | h | h | h) <;> simp [h]
        · rintro (h | h | h | h) <;> simp [h]
      | none => simp [hr] at h

theorem blocksF_specImportStd (t : Tree) (pc : Ann) (l : List Node) (x : Nat) :
    x ∈ blocksF (specImportStd t pc l) ↔ x = pc.blk ∨ x ∈ blocksF l := by
  unfold specImportStd
  cases h : specImportKids t pc l with
  | some l' => exact blocksF_specImportKids t pc l l' h x
  | none =>
    simp only [blocksF_append, List.mem_append, blocksF_cons, blocksF_nil, List.append_nil, List.mem_singleton]
    constructor
    · rintro (h | h) <;> simp [h]
    · rintro (h | h) <;> simp [h]

/-- nodes whose block is not known never take the new change: the import commutes with dropping them -/
theorem specImportKids_filter' {t : Tree} (pc : Ann) (keep : Node → Bool)
    (hk : ∀ (c : Ann) (k1 k2 : List Node), keep (.mk c k1) = keep (.mk c k2)) :
    ∀ (l : List Node), (∀ r ∈ l, keep r = false → anc t r.ann.blk pc.blk = false) →
      specImportKids t pc (l.filter keep) = (specImportKids t pc l).map (·.filter keep)
  | [], _ => by simp [specImportKids_nil]
  | .mk c kids :: rest, hdead => by
    have ih := specImportKids_filter' pc keep hk rest (fun r hr => hdead r (by simp [hr]))
    by_cases hkeep : keep (.mk c kids) = true
    · simp only [List.filter, hkeep]
      rw [specImportKids_mk, specImportKids_mk]
      split
      · cases specImportKids t pc kids with
        | some kids' =>
          have := hk c kids' kids
          simp [List.filter, this, hkeep]
        | none =>
          have := hk c (kids ++ [.mk pc []]) kids
          simp [List.filter, this, hkeep]
      · rw [ih]
        cases specImportKids t pc rest <;> simp [List.filter, hkeep]
    · simp only [Bool.not_eq_true] at hkeep
      simp only [List.filter, hkeep]
      rw [ih, specImportKids_mk]
      have := hdead (.mk c kids) (by simp) hkeep
      simp only [Node.ann] at this
      simp only [this, Bool.false_eq_true, and_false, if_false]
      cases specImportKids t pc rest <;> simp [List.filter, hkeep]

end Gossamer.C23
