/-
C19 helper lemmas: the ancestry relation of `Gossamer.C19.Chain` (`pathTo` / `desc`).
`Up c b a` : `a` is reached from `b` by following parent steps (a is `b` or an ancestor of it).
-/
import Gossamer.Model.C19
namespace Gossamer.C19

theorem step_some {c : Chain} {b p : Nat} (h : c.step b = some p) :
    b < c.par.length ∧ (p < b ∨ p = c.par.length) := by
  unfold Chain.step at h
  split at h
  · rename_i hb
    simp only [Option.some.injEq] at h
    refine ⟨hb.1, ?_⟩
    split at h
    · left; omega
    · right; omega
  · simp at h

theorem step_sentinel (c : Chain) {b : Nat} (h : c.par.length ≤ b) : c.step b = none := by
  unfold Chain.step
  have : ¬ (b < c.par.length ∧ b ∈ c.has) := by omega
  simp [this]

inductive Up (c : Chain) : Nat → Nat → Prop
  | refl (b : Nat) : Up c b b
  | step {b p a : Nat} : c.step b = some p → Up c p a → Up c b a

theorem Up.trans {c : Chain} {b a a' : Nat} (h1 : Up c b a) (h2 : Up c a a') : Up c b a' := by
  induction h1 with
  | refl => exact h2
  | step hs _ ih => exact Up.step hs (ih h2)

/-- the ancestors of a block form a chain -/
theorem Up.total {c : Chain} {v y z : Nat} (h1 : Up c v y) (h2 : Up c v z) : Up c y z ∨ Up c z y := by
  induction h1 with
  | refl => exact Or.inl h2
  | step hs h1' ih =>
    cases h2 with
    | refl => exact Or.inr (Up.step hs h1')
    | step hs' h2' =>
      rw [hs] at hs'
      cases hs'
      exact ih h2'

/-- going up strictly changes the index in a well-founded way -/
theorem Up.lt {c : Chain} {b a : Nat} (h : Up c b a) :
    a = b ∨ (b < c.par.length ∧ (a < b ∨ a = c.par.length)) := by
  induction h with
  | refl => exact Or.inl rfl
  | step hs _ ih =>
    have := step_some hs
    right
    rcases ih with ih | ih
    · subst ih; exact this
    · omega

theorem Up.antisymm {c : Chain} {a b : Nat} (h1 : Up c a b) (h2 : Up c b a) : a = b := by
  have := h1.lt
  have := h2.lt
  omega

/-- the number of parent steps available from `b` is at most this -/
def upBound (c : Chain) (b : Nat) : Nat := if b < c.par.length then b + 1 else 0

theorem upBound_step {c : Chain} {b p : Nat} (h : c.step b = some p) : upBound c p < upBound c b := by
  have := step_some h
  unfold upBound
  split <;> split <;> omega

theorem pathAux_sound {c : Chain} {base : Nat} : ∀ (f cur : Nat) (path : List Nat),
    pathAux c base f cur = some path → Up c cur base := by
  intro f
  induction f with
  | zero =>
    intro cur path h
    simp only [pathAux] at h
    split at h
    · rename_i hb; subst hb; exact Up.refl _
    · simp at h
  | succ f ih =>
    intro cur path h
    simp only [pathAux] at h
    split at h
    · rename_i hb; subst hb; exact Up.refl _
    · split at h
      · simp at h
      · rename_i p hs
        cases hp : pathAux c base f p with
        | none => simp [hp] at h
        | some q => exact Up.step hs (ih p q hp)

/-- with enough fuel the result does not depend on the fuel -/
theorem pathAux_fuel {c : Chain} {base : Nat} : ∀ (f g cur : Nat), upBound c cur ≤ f → upBound c cur ≤ g →
    pathAux c base f cur = pathAux c base g cur := by
  intro f
  induction f with
  | zero =>
    intro g cur hf hg
    cases g with
    | zero => rfl
    | succ g =>
      simp only [pathAux]
      split
      · rfl
      · cases hs : c.step cur with
        | none => rfl
        | some p => have := upBound_step hs; omega
  | succ f ih =>
    intro g cur hf hg
    cases g with
    | zero =>
      simp only [pathAux]
      split
      · rfl
      · cases hs : c.step cur with
        | none => rfl
        | some p => have := upBound_step hs; omega
    | succ g =>
      simp only [pathAux]
      split
      · rfl
      · cases hs : c.step cur with
        | none => rfl
        | some p =>
          have := upBound_step hs
          simp only
          rw [ih g p (by omega) (by omega)]

theorem upBound_le (c : Chain) (b : Nat) : upBound c b ≤ c.par.length + 1 := by
  unfold upBound; split <;> omega

theorem pathAux_complete {c : Chain} {cur base : Nat} (h : Up c cur base) :
    ∀ f, upBound c cur ≤ f → ∃ path, pathAux c base f cur = some path := by
  induction h with
  | refl b =>
    intro f _
    cases f <;> simp [pathAux]
  | step hs _ ih =>
    rename_i b p a
    intro f hf
    have hlt := upBound_step hs
    cases f with
    | zero => omega
    | succ f =>
      simp only [pathAux]
      split
      · exact ⟨[], rfl⟩
      · obtain ⟨q, hq⟩ := ih f (by omega)
        simp [hs, hq]

theorem desc_iff {c : Chain} {base blk : Nat} : desc c base blk = true ↔ Up c blk base := by
  unfold desc pathTo
  constructor
  · intro h
    cases hp : pathAux c base (c.par.length + 1) blk with
    | none => simp [hp] at h
    | some p => exact pathAux_sound _ _ _ hp
  · intro h
    obtain ⟨p, hp⟩ := pathAux_complete h _ (upBound_le c blk)
    simp [hp]

theorem desc_refl (c : Chain) (b : Nat) : desc c b b = true := desc_iff.2 (Up.refl b)

theorem desc_trans {c : Chain} {a b d : Nat} (h1 : desc c a b = true) (h2 : desc c b d = true) :
    desc c a d = true := desc_iff.2 ((desc_iff.1 h2).trans (desc_iff.1 h1))

theorem desc_total {c : Chain} {y z v : Nat} (h1 : desc c y v = true) (h2 : desc c z v = true) :
    desc c y z = true ∨ desc c z y = true := by
  rcases (desc_iff.1 h1).total (desc_iff.1 h2) with h | h
  · exact Or.inr (desc_iff.2 h)
  · exact Or.inl (desc_iff.2 h)

theorem desc_antisymm {c : Chain} {a b : Nat} (h1 : desc c a b = true) (h2 : desc c b a = true) : a = b :=
  (desc_iff.1 h2).antisymm (desc_iff.1 h1)

/-! ### the path itself -/

/-- membership in a path: strictly below the base, at or above the start -/
theorem pathAux_mem {c : Chain} {base : Nat} : ∀ (f cur : Nat) (path : List Nat),
    pathAux c base f cur = some path → ∀ h, h ∈ path → Up c cur h ∧ Up c h base ∧ h ≠ base := by
  intro f
  induction f with
  | zero =>
    intro cur path hp h hm
    simp only [pathAux] at hp
    split at hp <;> simp at hp
    subst hp; simp at hm
  | succ f ih =>
    intro cur path hp h hm
    simp only [pathAux] at hp
    split at hp
    · simp at hp; subst hp; simp at hm
    · rename_i hne
      split at hp
      · simp at hp
      · rename_i p hs
        cases hq : pathAux c base f p with
        | none => simp [hq] at hp
        | some q =>
          simp [hq] at hp
          subst hp
          rcases List.mem_cons.1 hm with rfl | hm
          · exact ⟨Up.refl _, Up.step hs (pathAux_sound _ _ _ hq), hne⟩
          · obtain ⟨a, b, d⟩ := ih p q hq h hm
            exact ⟨Up.step hs a, b, d⟩

/-- the last element of a non-empty path is a child of the base -/
theorem pathAux_last {c : Chain} {base : Nat} : ∀ (f cur : Nat) (path : List Nat) (x : Nat),
    pathAux c base f cur = some path → path.getLast? = some x → c.step x = some base ∧ Up c cur x := by
  intro f
  induction f with
  | zero =>
    intro cur path x hp hl
    simp only [pathAux] at hp
    split at hp <;> simp at hp
    subst hp; simp at hl
  | succ f ih =>
    intro cur path x hp hl
    simp only [pathAux] at hp
    split at hp
    · simp at hp; subst hp; simp at hl
    · split at hp
      · simp at hp
      · rename_i p hs
        cases hq : pathAux c base f p with
        | none => simp [hq] at hp
        | some q =>
          simp [hq] at hp
          subst hp
          cases q with
          | nil =>
            simp at hl
            subst hl
            -- the rest of the path is empty: p = base
            have : p = base := by
              cases f with
              | zero => simp only [pathAux] at hq; split at hq <;> simp_all
              | succ f =>
                simp only [pathAux] at hq
                split at hq
                · assumption
                · split at hq
                  · simp at hq
                  · rename_i p' _
                    cases h' : pathAux c base f p' <;> simp [h'] at hq
            subst this
            exact ⟨hs, Up.refl _⟩
          | cons y ys =>
            have hl' : (y :: ys).getLast? = some x := by
              simpa [List.getLast?_cons_cons] using hl
            obtain ⟨a, b⟩ := ih p (y :: ys) x hq hl'
            exact ⟨a, Up.step hs b⟩

theorem pathAux_length {c : Chain} {base : Nat} : ∀ (f cur : Nat) (path : List Nat),
    pathAux c base f cur = some path → path.length ≤ f := by
  intro f
  induction f with
  | zero =>
    intro cur path hp
    simp only [pathAux] at hp
    split at hp <;> simp at hp
    subst hp; simp
  | succ f ih =>
    intro cur path hp
    simp only [pathAux] at hp
    split at hp
    · simp at hp; subst hp; simp
    · split at hp
      · simp at hp
      · rename_i p hs
        cases hq : pathAux c base f p with
        | none => simp [hq] at hp
        | some q =>
          simp [hq] at hp
          subst hp
          have := ih p q hq
          simp; omega

theorem dist_le (c : Chain) (base b : Nat) : dist c base b ≤ c.par.length + 1 := by
  unfold dist pathTo
  cases hp : pathAux c base (c.par.length + 1) b with
  | none => simp
  | some p => simpa using pathAux_length _ _ _ hp

theorem childToward_spec {c : Chain} {cur t x : Nat} (h : childToward c cur t = some x) :
    c.step x = some cur ∧ desc c x t = true := by
  unfold childToward pathTo at h
  cases hp : pathAux c cur (c.par.length + 1) t with
  | none => simp [hp] at h
  | some p =>
    simp [hp] at h
    obtain ⟨a, b⟩ := pathAux_last _ _ _ _ hp h
    exact ⟨a, desc_iff.2 b⟩

/-- converse of `childToward_spec`: the child of `cur` below which `t` lies is found -/
theorem pathAux_child {c : Chain} {cur x t : Nat} (hs : c.step x = some cur) (hu : Up c t x) :
    ∀ f, upBound c t ≤ f → ∃ q, pathAux c cur f t = some q ∧ q.getLast? = some x := by
  have hxc : Up c x cur := Up.step hs (Up.refl _)
  have hne : x ≠ cur := by
    have := step_some hs; omega
  induction hu with
  | refl b =>
    intro f hf
    have hb := step_some hs
    cases f with
    | zero => unfold upBound at hf; simp [hb.1] at hf
    | succ f =>
      simp only [pathAux, hne, if_false, hs]
      cases f <;> simp [pathAux]
  | step hst hu' ih =>
    rename_i b p a
    intro f hf
    have ihh := ih hs hxc hne
    have hlt := upBound_step hst
    have hbne : b ≠ cur := by
      intro e
      subst e
      -- b = cur is above x, and x is reached from b: cycle
      have h1 : Up c b a := Up.step hst hu'
      exact hne (h1.antisymm hxc).symm
    cases f with
    | zero => omega
    | succ f =>
      obtain ⟨q, hq, hl⟩ := ihh f (by omega)
      simp only [pathAux, hbne, if_false, hst, hq, Option.map_some]
      refine ⟨b :: q, rfl, ?_⟩
      cases q with
      | nil => simp at hl
      | cons y ys => simpa [List.getLast?_cons_cons] using hl

theorem childToward_of_step {c : Chain} {cur x t : Nat} (hs : c.step x = some cur)
    (hd : desc c x t = true) : childToward c cur t = some x := by
  obtain ⟨q, hq, hl⟩ := pathAux_child hs (desc_iff.1 hd) _ (upBound_le c t)
  unfold childToward pathTo
  simp [hq, hl]

/-- on the way up from `t` to a strict ancestor `cur` there is a child of `cur` -/
theorem Up.child {c : Chain} {t cur : Nat} (h : Up c t cur) (hne : cur ≠ t) :
    ∃ x, c.step x = some cur ∧ Up c t x := by
  induction h with
  | refl => exact absurd rfl hne
  | step hs hu ih =>
    rename_i b p a
    by_cases hp : a = p
    · subst hp; exact ⟨b, hs, Up.refl _⟩
    · obtain ⟨x, hx, hux⟩ := ih hp
      exact ⟨x, hx, Up.step hs hux⟩

theorem pathTo_nil {c : Chain} {base blk : Nat} (h : pathTo c base blk = some []) : blk = base := by
  unfold pathTo at h
  simp only [pathAux] at h
  split at h
  · assumption
  · split at h
    · simp at h
    · rename_i p _
      cases hq : pathAux c base c.par.length p <;> simp [hq] at h

end Gossamer.C19
