/-
C08: lemmas about `KMap` / `KSet` (key-sorted association lists with arbitrary values).
-/
import Gossamer.Lib.C08Map
import Gossamer.Lib.OMapLemmas
set_option linter.unusedSectionVars false
set_option linter.unusedSimpArgs false
namespace Gossamer.C08
open Gossamer

namespace KMap
variable {α : Type}

/-- strictly ascending keys -/
def Sorted : KMap α → Prop
  | [] => True
  | e :: r => (∀ e' ∈ r, klt e.1 e'.1 = true) ∧ Sorted r

theorem find_eq_none_of_lt {k : Bytes} {m : KMap α} (h : ∀ e ∈ m, klt k e.1 = true) :
    find k m = none := by
  induction m with
  | nil => rfl
  | cons e r ih =>
    have h1 := h e (by simp)
    have : e.1 ≠ k := fun he => by subst he; simp [klt_irrefl] at h1
    simp [find, this]
    exact ih (fun e' he' => h e' (by simp [he']))

theorem find_some_mem {k : Bytes} {v : α} {m : KMap α} (h : find k m = some v) : (k, v) ∈ m := by
  induction m with
  | nil => simp [find] at h
  | cons e r ih =>
    simp only [find] at h
    split at h
    · rename_i he; cases h; subst he; simp
    · simp [ih h]

theorem find_of_mem_sorted {k : Bytes} {v : α} {m : KMap α} (hs : Sorted m) (h : (k, v) ∈ m) :
    find k m = some v := by
  induction m with
  | nil => simp at h
  | cons e r ih =>
    simp only [find]
    rcases List.mem_cons.mp h with h | h
    · subst h; simp
    · have := hs.1 _ h
      have hne : e.1 ≠ k := klt_ne this
      simp [hne, ih hs.2 h]

/-- two strictly sorted maps that agree pointwise are equal -/
theorem ext {a b : KMap α} (ha : Sorted a) (hb : Sorted b)
    (h : ∀ k, find k a = find k b) : a = b := by
  induction a generalizing b with
  | nil =>
    cases b with
    | nil => rfl
    | cons e r => have := h e.1; simp [find] at this
  | cons e r ih =>
    cases b with
    | nil => have := h e.1; simp [find] at this
    | cons e' r' =>
      have hk : e.1 = e'.1 := by
        rcases klt_trichotomy e.1 e'.1 with hlt | heq | hgt
        · have h1 := h e.1
          have : find e.1 (e' :: r') = none :=
            find_eq_none_of_lt (by
              intro x hx
              rcases List.mem_cons.mp hx with hx | hx
              · subst hx; exact hlt
              · exact klt_trans hlt (hb.1 x hx))
          rw [this] at h1
          simp [find] at h1
        · exact heq
        · have h1 := h e'.1
          have : find e'.1 (e :: r) = none :=
            find_eq_none_of_lt (by
              intro x hx
              rcases List.mem_cons.mp hx with hx | hx
              · subst hx; exact hgt
              · exact klt_trans hgt (ha.1 x hx))
          rw [this] at h1
          simp [find] at h1
      have hv : e.2 = e'.2 := by
        have h1 := h e.1
        simp [find, hk] at h1
        exact h1
      have he : e = e' := Prod.ext hk hv
      subst he
      congr 1
      apply ih ha.2 hb.2
      intro k
      have h1 := h k
      simp only [find] at h1
      by_cases hek : e.1 = k
      · subst hek
        rw [find_eq_none_of_lt ha.1, find_eq_none_of_lt hb.1]
      · simpa [hek] using h1

theorem find_ins (k : Bytes) (v : α) (m : KMap α) (k' : Bytes) :
    find k' (ins k v m) = if k' = k then some v else find k' m := by
  induction m with
  | nil => simp [ins, find, eq_comm]
  | cons e r ih =>
    simp only [ins]
    split
    · rename_i he
      subst he
      by_cases hk : k' = e.1 <;> simp [find, hk, eq_comm]
    · rename_i he
      split
      · by_cases hk : k' = k
        · simp [find, hk]
        · have : ¬ k = k' := fun h => hk h.symm
          simp [find, hk, this]
      · by_cases hk : k' = k
        · subst hk
          have : ¬ e.1 = k' := he
          simp [find, this, ih]
        · simp [find, ih, hk]

theorem mem_ins {k : Bytes} {v : α} {m : KMap α} {x : Bytes × α}
    (h : x ∈ ins k v m) : x = (k, v) ∨ x ∈ m := by
  induction m with
  | nil => simp [ins] at h; exact Or.inl h
  | cons e r ih =>
    simp only [ins] at h
    split at h
    · rcases List.mem_cons.mp h with h | h
      · exact Or.inl h
      · exact Or.inr (by simp [h])
    · split at h
      · rcases List.mem_cons.mp h with h | h
        · exact Or.inl h
        · exact Or.inr h
      · rcases List.mem_cons.mp h with h | h
        · exact Or.inr (by simp [h])
        · rcases ih h with h | h
          · exact Or.inl h
          · exact Or.inr (by simp [h])

theorem sorted_ins (k : Bytes) (v : α) {m : KMap α} (hs : Sorted m) : Sorted (ins k v m) := by
  induction m with
  | nil => simp [ins, Sorted]
  | cons e r ih =>
    simp only [ins]
    split
    · rename_i he
      exact ⟨by simpa [he] using hs.1, hs.2⟩
    · rename_i he
      split
      · rename_i hlt
        refine ⟨?_, hs⟩
        intro x hx
        rcases List.mem_cons.mp hx with hx | hx
        · subst hx; exact hlt
        · exact klt_trans hlt (hs.1 x hx)
      · rename_i hlt
        refine ⟨?_, ih hs.2⟩
        intro x hx
        rcases mem_ins hx with hx | hx
        · subst hx
          rcases klt_trichotomy k e.1 with h | h | h
          · simp [h] at hlt
          · exact absurd h.symm he
          · exact h
        · exact hs.1 x hx

theorem sorted_filter (p : Bytes × α → Bool) {m : KMap α} (hs : Sorted m) :
    Sorted (m.filter p) := by
  induction m with
  | nil => simp [Sorted]
  | cons e r ih =>
    simp only [List.filter_cons]
    split
    · exact ⟨fun x hx => hs.1 x (List.mem_filter.mp hx).1, ih hs.2⟩
    · exact ih hs.2

theorem find_filter_key (q : Bytes → Bool) (m : KMap α) (k : Bytes) :
    find k (m.filter (fun e => q e.1)) = if q k then find k m else none := by
  induction m with
  | nil => simp [find]
  | cons e r ih =>
    simp only [List.filter_cons]
    by_cases hq : q e.1
    · simp only [hq, if_true, find]
      by_cases hk : e.1 = k
      · subst hk; simp [hq]
      · simp [hk, ih]
    · simp only [hq, find]
      by_cases hk : e.1 = k
      · subst hk; simp [hq, ih]
      · simp [hk, ih]

theorem find_del (k : Bytes) (m : KMap α) (k' : Bytes) :
    find k' (del k m) = if k' = k then none else find k' m := by
  have := find_filter_key (fun x => !(x == k)) m k'
  simp only [del]
  rw [this]
  by_cases h : k' = k <;> simp [h]

theorem sorted_del (k : Bytes) {m : KMap α} (hs : Sorted m) : Sorted (del k m) :=
  sorted_filter _ hs

end KMap

namespace KSet

/-- strictly ascending -/
def Sorted : KSet → Prop
  | [] => True
  | e :: r => (∀ e' ∈ r, klt e e' = true) ∧ Sorted r

theorem has_iff (k : Bytes) (s : KSet) : has k s = true ↔ k ∈ s := by
  simp [has]

theorem mem_ins (k : Bytes) (s : KSet) (k' : Bytes) : k' ∈ ins k s ↔ k' = k ∨ k' ∈ s := by
  induction s with
  | nil => simp [ins]
  | cons e r ih =>
    simp only [ins]
    split
    · rename_i he; subst he
      simp only [List.mem_cons]
      constructor
      · intro h; exact Or.inr h
      · rintro (h | h)
        · exact Or.inl h
        · exact h
    · split
      · simp [List.mem_cons]
      · simp only [List.mem_cons, ih]
        constructor
        · rintro (h | h | h)
          · exact Or.inr (Or.inl h)
          · exact Or.inl h
          · exact Or.inr (Or.inr h)
        · rintro (h | h | h)
          · exact Or.inr (Or.inl h)
          · exact Or.inl h
          · exact Or.inr (Or.inr h)

theorem mem_del (k : Bytes) (s : KSet) (k' : Bytes) : k' ∈ del k s ↔ k' ≠ k ∧ k' ∈ s := by
  simp only [del, List.mem_filter, Bool.not_eq_true', beq_eq_false_iff_ne, ne_eq]
  exact And.comm

theorem has_ins (k : Bytes) (s : KSet) (k' : Bytes) :
    has k' (ins k s) = true ↔ k' = k ∨ has k' s = true := by
  rw [has_iff, has_iff, mem_ins]

theorem has_del (k : Bytes) (s : KSet) (k' : Bytes) :
    has k' (del k s) = true ↔ k' ≠ k ∧ has k' s = true := by
  rw [has_iff, has_iff, mem_del]

end KSet

end Gossamer.C08
