/-
Canonical form of tries: preserved by the Go operations, and unique for a given content.
-/
import Gossamer.Lib.TrieLemmas
set_option linter.unusedSectionVars false
set_option linter.unusedSimpArgs false
namespace Gossamer
open Rank OMap
namespace Trie

@[simp] theorem canon_nil : Canon nil := trivial
@[simp] theorem canon_leaf (pk : Nibs) (v : Bytes) : Canon (leaf pk v) := trivial

theorem canon_branch_iff (pk : Nibs) (v : Option Bytes) (cs : Nib → Trie) :
    Canon (branch pk v cs) ↔ (∀ i, Canon (cs i)) ∧
      ((∃ i j, i ≠ j ∧ cs i ≠ nil ∧ cs j ≠ nil) ∨ (v.isSome = true ∧ ∃ i, cs i ≠ nil)) := Iff.rfl

theorem canon_prepend (p : Nibs) {t : Trie} (h : Canon t) : Canon (prepend p t) := by
  cases t with
  | nil => trivial
  | leaf pk v => trivial
  | branch pk v cs => exact h

/-! ### insert -/

theorem insertInLeaf_ne_nil (pk : Nibs) (lv : Bytes) (key : Nibs) (value : Bytes) :
    insertInLeaf pk lv key value ≠ nil ∧ Canon (insertInLeaf pk lv key value) := by
  unfold insertInLeaf
  by_cases hpk : pk = key
  · simp [hpk]
  · simp only [hpk, if_false]
    obtain ⟨c, ka, pa, rfl, rfl, h3, h4⟩ := lcp_split key pk
    rw [h3]
    cases ka with
    | nil =>
      cases pa with
      | nil => exact absurd rfl hpk
      | cons i rest =>
        simp only [List.append_nil, List.length_append, List.length_cons, if_true,
          Nat.lt_add_right_iff_pos, Nat.zero_lt_succ, drop_length_append, List.take_length]
        refine ⟨by simp, ?_⟩
        rw [canon_branch_iff]
        refine ⟨fun x => ?_, Or.inr ⟨rfl, i, by simp⟩⟩
        by_cases hx : x = i
        · subst hx; simp
        · simp [setChild_other _ _ _ _ hx, noChildren]
    | cons j krest =>
      cases pa with
      | nil =>
        have : ¬ (c ++ j :: krest).length = c.length := by simp
        simp only [this, if_false, List.append_nil, if_true, drop_length_append]
        refine ⟨by simp, ?_⟩
        rw [canon_branch_iff]
        refine ⟨fun x => ?_, Or.inr ⟨rfl, j, by simp⟩⟩
        by_cases hx : x = j
        · subst hx; simp
        · simp [setChild_other _ _ _ _ hx, noChildren]
      | cons i rest =>
        have hij : j ≠ i := h4 j krest i rest rfl rfl
        have h1 : ¬ (c ++ j :: krest).length = c.length := by simp
        have h2 : ¬ (c ++ i :: rest).length = c.length := by simp
        simp only [h1, h2, if_false, drop_length_append]
        refine ⟨by simp, ?_⟩
        rw [canon_branch_iff]
        refine ⟨fun x => ?_, Or.inl ⟨i, j, fun e => hij e.symm, ?_, by simp⟩⟩
        · by_cases hx : x = j
          · subst hx; simp
          · rw [setChild_other _ _ _ _ hx]
            by_cases hx2 : x = i
            · subst hx2; simp
            · simp [setChild_other _ _ _ _ hx2, noChildren]
        · rw [setChild_other _ _ _ _ (fun e => hij e.symm)]; simp

theorem insert_ne_nil_canon (t : Trie) (key : Nibs) (value : Bytes) (h : Canon t) :
    insert t key value ≠ nil ∧ Canon (insert t key value) := by
  induction t generalizing key with
  | nil => simp [insert]
  | leaf pk lv => simp only [insert]; exact insertInLeaf_ne_nil pk lv key value
  | branch pk v cs ih =>
    rw [canon_branch_iff] at h
    obtain ⟨hcs, hcount⟩ := h
    simp only [insert]
    by_cases hk : key = pk
    · subst hk
      simp only [if_true]
      refine ⟨by simp, ?_⟩
      rw [canon_branch_iff]
      refine ⟨hcs, Or.inr ⟨rfl, ?_⟩⟩
      rcases hcount with ⟨i, _, _, hi, _⟩ | ⟨_, i, hi⟩ <;> exact ⟨i, hi⟩
    · simp only [hk, if_false]
      rcases key_cases pk key with rfl | ⟨i, rest, rfl⟩ | hoff
      · exact absurd rfl hk
      · simp only [isPrefixOf_append_self, if_true, drop_length_append]
        refine ⟨by simp, ?_⟩
        rw [canon_branch_iff]
        have hne := (ih i rest (hcs i)).1
        have hset : ∀ x, cs x ≠ nil → setChild cs i (insert (cs i) rest value) x ≠ nil := by
          intro x hx
          by_cases hxi : x = i
          · subst hxi; simpa using hne
          · rwa [setChild_other _ _ _ _ hxi]
        refine ⟨fun x => ?_, ?_⟩
        · by_cases hx : x = i
          · subst hx; simpa using (ih x rest (hcs x)).2
          · rw [setChild_other _ _ _ _ hx]; exact hcs x
        · rcases hcount with ⟨a, b, hab, ha, hb⟩ | ⟨hv, a, ha⟩
          · exact Or.inl ⟨a, b, hab, hset a ha, hset b hb⟩
          · exact Or.inr ⟨hv, a, hset a ha⟩
      · simp only [hoff, Bool.false_eq_true, if_false]
        obtain ⟨c, ka, pa, rfl, rfl, h3, h4⟩ := lcp_split key pk
        rw [h3]
        cases pa with
        | nil => simp [isPrefixOf_append_self] at hoff
        | cons oi orest =>
          simp only [drop_length_append]
          have hold : Canon (branch orest v cs) := (canon_branch_iff _ _ _).mpr ⟨hcs, hcount⟩
          cases ka with
          | nil =>
            simp only [List.append_nil, List.length_append, Nat.le_refl, if_true, List.take_length]
            refine ⟨by simp, ?_⟩
            rw [canon_branch_iff]
            refine ⟨fun x => ?_, Or.inr ⟨rfl, oi, by simp⟩⟩
            by_cases hx : x = oi
            · subst hx; simpa using hold
            · simp [setChild_other _ _ _ _ hx, noChildren]
          | cons j krest =>
            have hij : j ≠ oi := h4 j krest oi orest rfl rfl
            have h1 : ¬ (c ++ j :: krest).length ≤ c.length := by simp
            simp only [h1, if_false, drop_length_append]
            refine ⟨by simp, ?_⟩
            rw [canon_branch_iff]
            refine ⟨fun x => ?_, Or.inl ⟨oi, j, fun e => hij e.symm, ?_, by simp⟩⟩
            · by_cases hx : x = j
              · subst hx; simp
              · rw [setChild_other _ _ _ _ hx]
                by_cases hx2 : x = oi
                · subst hx2; simpa using hold
                · simp [setChild_other _ _ _ _ hx2, noChildren]
            · rw [setChild_other _ _ _ _ (fun e => hij e.symm)]; simp

theorem canon_insert {t : Trie} (h : Canon t) (key : Nibs) (value : Bytes) :
    Canon (insert t key value) := (insert_ne_nil_canon t key value h).2


/-! ### handleDeletion, delete -/

theorem childIdx_nodup (cs : Nib → Trie) : (childIdx cs).Nodup :=
  (List.nodup_finRange 16).filter _

/-- three shapes of the children of a branch -/
theorem childIdx_cases (cs : Nib → Trie) :
    childIdx cs = [] ∨ (∃ i, childIdx cs = [i]) ∨
      (∃ i j, i ≠ j ∧ cs i ≠ nil ∧ cs j ≠ nil ∧ ∃ r, childIdx cs = i :: j :: r) := by
  have hnd := childIdx_nodup cs
  cases h : childIdx cs with
  | nil => left; rfl
  | cons a l =>
    cases l with
    | nil => right; left; exact ⟨a, rfl⟩
    | cons b l' =>
      right; right
      rw [h] at hnd
      have hab : a ≠ b := by
        intro e; subst e; simp at hnd
      have ha : cs a ≠ nil := (mem_childIdx cs a).mp (by simp [h])
      have hb : cs b ≠ nil := (mem_childIdx cs b).mp (by simp [h])
      exact ⟨a, b, hab, ha, hb, l', rfl⟩

theorem canon_handleDeletion (pk : Nibs) (v : Option Bytes) (cs : Nib → Trie) (key : Nibs)
    (hcs : ∀ i, Canon (cs i)) (hne : v.isSome = true ∨ ∃ i, cs i ≠ nil) :
    handleDeletion pk v cs key ≠ nil ∧ Canon (handleDeletion pk v cs key) := by
  unfold handleDeletion
  rcases childIdx_cases cs with h0 | ⟨i, h1⟩ | ⟨i, j, hij, hi, hj, r, h2⟩
  · rw [h0]
    cases v with
    | some x => simp
    | none =>
      rcases hne with h | ⟨i, hi⟩
      · simp at h
      · exact absurd (childIdx_nil h0 i) hi
  · rw [h1]
    cases v with
    | some x =>
      simp only
      refine ⟨by simp, ?_⟩
      rw [canon_branch_iff]
      exact ⟨hcs, Or.inr ⟨rfl, i, (childIdx_single h1 i).mpr rfl⟩⟩
    | none =>
      simp only
      have hci : cs i ≠ nil := (childIdx_single h1 i).mpr rfl
      have hcan := hcs i
      cases hc : cs i with
      | nil => exact absurd hc hci
      | leaf cpk cv => simp
      | branch cpk cv ccs => rw [hc] at hcan; exact ⟨by simp, hcan⟩
  · rw [h2]
    refine ⟨by cases v <;> simp, ?_⟩
    have : Canon (branch pk v cs) := (canon_branch_iff _ _ _).mpr ⟨hcs, Or.inl ⟨i, j, hij, hi, hj⟩⟩
    cases v <;> simpa using this

theorem canon_deleteAtNode (t : Trie) (key : Nibs) (h : Canon t) : Canon (deleteAtNode t key).1 := by
  induction t generalizing key with
  | nil => simp [deleteAtNode]
  | leaf pk v => simp only [deleteAtNode]; split <;> simp
  | branch pk v cs ih =>
    have h' := h
    rw [canon_branch_iff] at h'
    obtain ⟨hcs, hcount⟩ := h'
    have hsome : ∃ i, cs i ≠ nil := by
      rcases hcount with ⟨i, _, _, hi, _⟩ | ⟨_, i, hi⟩ <;> exact ⟨i, hi⟩
    simp only [deleteAtNode]
    split
    · exact (canon_handleDeletion pk none cs key hcs (Or.inr hsome)).2
    · split
      · exact h
      · split
        · rename_i i rest _
          split
          · exact h
          · refine (canon_handleDeletion pk v _ key ?_ ?_).2
            · intro x
              by_cases hx : x = i
              · subst hx; simpa using ih x rest (hcs x)
              · rw [setChild_other _ _ _ _ hx]; exact hcs x
            · rcases hcount with ⟨a, b, hab, ha, hb⟩ | ⟨hv, _⟩
              · right
                by_cases hai : a = i
                · refine ⟨b, ?_⟩
                  rw [setChild_other _ _ _ _ (fun e => hab (hai.trans e.symm))]; exact hb
                · exact ⟨a, by rw [setChild_other _ _ _ _ hai]; exact ha⟩
              · exact Or.inl hv
        · exact h


/-! ### uniqueness of the canonical form -/

/-- a canonical non-nil node holds at least one key -/
theorem canon_has_key (t : Trie) (h : Canon t) (hne : t ≠ nil) : ∃ k v, lookup t k = some v := by
  induction t with
  | nil => exact absurd rfl hne
  | leaf pk v => exact ⟨pk, v, by simp⟩
  | branch pk v cs ih =>
    rw [canon_branch_iff] at h
    obtain ⟨hcs, hcount⟩ := h
    have ⟨i, hi⟩ : ∃ i, cs i ≠ nil := by
      rcases hcount with ⟨i, _, _, hi, _⟩ | ⟨_, i, hi⟩ <;> exact ⟨i, hi⟩
    obtain ⟨k, x, hk⟩ := ih i (hcs i) hi
    exact ⟨pk ++ i :: k, x, by rw [lookup_branch_child]; exact hk⟩

/-- every key of a branch extends its partial key -/
theorem branch_key_prefix {pk : Nibs} {v : Option Bytes} {cs : Nib → Trie} {k : Nibs} {x : Bytes}
    (h : lookup (branch pk v cs) k = some x) : pk.isPrefixOf k = true := by
  cases hp : pk.isPrefixOf k with
  | true => rfl
  | false => rw [lookup_branch_off _ _ _ _ hp] at h; cases h

/-- the partial key of a canonical branch is the longest common prefix of its keys -/
theorem canon_branch_glb {pk : Nibs} {v : Option Bytes} {cs : Nib → Trie}
    (h : Canon (branch pk v cs)) (p : Nibs)
    (hp : ∀ k x, lookup (branch pk v cs) k = some x → p.isPrefixOf k = true) :
    p.isPrefixOf pk = true := by
  rw [canon_branch_iff] at h
  obtain ⟨hcs, hcount⟩ := h
  -- a common prefix of `pk ++ i :: _` and `pk ++ j :: _` with `i ≠ j`, or of `pk` itself
  have hlen : ∀ i r, p.isPrefixOf (pk ++ i :: r) = true → pk.length < p.length →
      ∃ q, p = pk ++ i :: q := by
    intro i r h1 h2
    obtain ⟨s, hs⟩ := isPrefixOf_iff.mp h1
    have hpk : pk.isPrefixOf p = true := by
      rw [List.isPrefixOf_iff_prefix]
      have a1 : pk <+: pk ++ i :: r := List.prefix_append _ _
      have a2 : p <+: pk ++ i :: r := ⟨s, hs.symm⟩
      exact List.prefix_of_prefix_length_le a1 a2 (Nat.le_of_lt h2)
    obtain ⟨q, hq⟩ := isPrefixOf_iff.mp hpk
    subst hq
    cases q with
    | nil => simp at h2
    | cons a q' =>
      rw [List.append_assoc] at hs
      have := List.append_cancel_left hs
      simp at this
      exact ⟨q', by rw [this.1]⟩
  rcases hcount with ⟨i, j, hij, hi, hj⟩ | ⟨hv, _⟩
  · obtain ⟨k1, x1, h1⟩ := canon_has_key (cs i) (hcs i) hi
    obtain ⟨k2, x2, h2⟩ := canon_has_key (cs j) (hcs j) hj
    have p1 := hp (pk ++ i :: k1) x1 (by rw [lookup_branch_child]; exact h1)
    have p2 := hp (pk ++ j :: k2) x2 (by rw [lookup_branch_child]; exact h2)
    by_cases hl : pk.length < p.length
    · obtain ⟨q1, e1⟩ := hlen i k1 p1 hl
      obtain ⟨q2, e2⟩ := hlen j k2 p2 hl
      rw [e1] at e2
      have := List.append_cancel_left e2
      simp at this
      exact absurd this.1 hij
    · rw [List.isPrefixOf_iff_prefix]
      obtain ⟨s, hs⟩ := isPrefixOf_iff.mp p1
      exact List.prefix_of_prefix_length_le ⟨s, hs.symm⟩ (List.prefix_append _ _) (Nat.le_of_not_lt hl)
  · obtain ⟨x, hx⟩ := Option.isSome_iff_exists.mp hv
    exact hp pk x (by rw [lookup_branch_self]; exact hx)

theorem isPrefixOf_antisymm {a b : Nibs} (h1 : a.isPrefixOf b = true) (h2 : b.isPrefixOf a = true) :
    a = b := by
  obtain ⟨r, hr⟩ := isPrefixOf_iff.mp h1
  obtain ⟨s, hs⟩ := isPrefixOf_iff.mp h2
  have := congrArg List.length hr
  have := congrArg List.length hs
  simp at *
  have : r = [] := by
    cases r with
    | nil => rfl
    | cons x xs => simp at *; omega
  subst this
  simpa using hr.symm

theorem leaf_ne_branch_of_lookup {pk : Nibs} {lv : Bytes} {pk' : Nibs} {v' : Option Bytes}
    {cs' : Nib → Trie} (hb : Canon (branch pk' v' cs'))
    (h : ∀ k, lookup (leaf pk lv) k = lookup (branch pk' v' cs') k) : False := by
  have h1 : pk'.isPrefixOf pk = true :=
    branch_key_prefix (x := lv) (by rw [← h]; simp)
  have h2 : pk.isPrefixOf pk' = true := by
    apply canon_branch_glb hb
    intro k x hk
    rw [← h] at hk
    simp only [lookup_leaf] at hk
    split at hk
    · rename_i e; subst e; exact isPrefixOf_self _
    · cases hk
  have e := isPrefixOf_antisymm h1 h2
  subst e
  rw [canon_branch_iff] at hb
  obtain ⟨hcs, hcount⟩ := hb
  have ⟨i, hi⟩ : ∃ i, cs' i ≠ nil := by
    rcases hcount with ⟨i, _, _, hi, _⟩ | ⟨_, i, hi⟩ <;> exact ⟨i, hi⟩
  obtain ⟨k, x, hk⟩ := canon_has_key (cs' i) (hcs i) hi
  have := h (pk' ++ i :: k)
  rw [lookup_branch_child, hk] at this
  simp [append_cons_ne_self] at this

theorem canon_unique {a b : Trie} (ha : Canon a) (hb : Canon b)
    (h : ∀ k, lookup a k = lookup b k) : a = b := by
  induction a generalizing b with
  | nil =>
    cases hbn : b with
    | nil => rfl
    | _ =>
      obtain ⟨k, x, hk⟩ := canon_has_key b hb (by rw [hbn]; simp)
      have := h k; rw [hk] at this; simp at this
  | leaf pk lv =>
    cases b with
    | nil => have := h pk; simp at this
    | leaf pk' lv' =>
      have h1 := h pk
      simp only [lookup_leaf, if_true] at h1
      split at h1
      · rename_i e; subst e; cases h1; rfl
      · cases h1
    | branch pk' v' cs' => exact (leaf_ne_branch_of_lookup hb h).elim
  | branch pk v cs ih =>
    cases b with
    | nil =>
      obtain ⟨k, x, hk⟩ := canon_has_key _ ha (by simp)
      have := h k; rw [hk] at this; simp at this
    | leaf pk' lv' => exact (leaf_ne_branch_of_lookup ha (fun k => (h k).symm)).elim
    | branch pk' v' cs' =>
      have h1 : pk'.isPrefixOf pk = true :=
        canon_branch_glb ha pk' (fun k x hk => branch_key_prefix (by rw [← h]; exact hk))
      have h2 : pk.isPrefixOf pk' = true :=
        canon_branch_glb hb pk (fun k x hk => branch_key_prefix (by rw [h]; exact hk))
      have e := isPrefixOf_antisymm h2 h1
      subst e
      have hv : v = v' := by
        have := h pk
        rwa [lookup_branch_self, lookup_branch_self] at this
      subst hv
      have hcs : cs = cs' := by
        funext i
        apply ih i (((canon_branch_iff _ _ _).mp ha).1 i) (((canon_branch_iff _ _ _).mp hb).1 i)
        intro r
        have := h (pk ++ i :: r)
        rwa [lookup_branch_child, lookup_branch_child] at this
      subst hcs
      rfl

end Trie
end Gossamer
