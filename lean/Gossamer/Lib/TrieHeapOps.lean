/-
Every function of the heap model of `in_memory.go` keeps the write discipline `Good`
(`TrieHeapGood`): by induction over the fuel, with the primitive lemmas `Good.alloc`,
`Good.modify`, `Good.of_calc`.
-/
import Gossamer.Lib.TrieHeapGood
namespace Gossamer
namespace TrieHeap
open Trie

/-- the context of an operation of the trie described by the frame -/
def Frame.ctx (F : Frame) (ver : Ver) : Ctx := { H := F.H, g := F.g, ver := ver, troot := F.r0 }

/-- outcome of a function of the model that returns a node pointer -/
structure Step (F : Frame) (hp hp' : Heap) (y : Option Nat) : Prop where
  good : Good F hp'
  mono : hp.size ≤ hp'.size
  inw : ∀ a, y = some a → InW F hp' a

theorem Step.trans_mono {F : Frame} {hp hp1 hp2 : Heap} {y : Option Nat} (h : hp.size ≤ hp1.size)
    (s : Step F hp1 hp2 y) : Step F hp hp2 y := ⟨s.good, Nat.le_trans h s.mono, s.inw⟩

theorem setKid_some {ks : Nib → Option Nat} {i j : Nib} {y : Option Nat} {x : Nat}
    (h : setKid ks i y j = some x) : y = some x ∨ ks j = some x := by
  unfold setKid at h
  split at h
  · exact Or.inl h
  · exact Or.inr h

/-- a field write that keeps generation and children -/
theorem Good.modify_fields {F : Frame} {hp : Heap} (hg : Good F hp) {a : Nat} (ha : InW F hp a)
    (hgen : (hp.get a).gen = F.g) (f : HNode → HNode) (hf : ∀ x, (f x).gen = x.gen)
    (hk : ∀ x, (f x).kids = x.kids) : Good F (hp.modify a f) :=
  hg.modify ha hgen f (hf _) (fun i x hx => hg.kids a ha.1 i x (by rw [hk] at hx; exact hx))

/-- `children[i] = y` on an owned or new cell -/
theorem Good.modify_kid {F : Frame} {hp : Heap} (hg : Good F hp) {a : Nat} (ha : InW F hp a)
    (hgen : (hp.get a).gen = F.g) (i : Nib) (y : Option Nat) (hy : ∀ x, y = some x → InW F hp x) :
    Good F (hp.modify a (fun x => { x with kids := setKid x.kids i y })) :=
  hg.modify ha hgen _ rfl (fun j x hx => by
    rcases setKid_some hx with h | h
    · exact hy x h
    · exact hg.kids a ha.1 j x h)

/-! ### hashing inside mutations -/

theorem calcRootMV_eq (H : Bytes → Bytes) (hp : Heap) (a : Nat) :
    calcRootMV H hp a =
      if (hp.get a).dirty = false ∧ ((hp.get a).mv.getD []).length = 32 then (hp, (hp.get a).mv)
      else ((encodeAndHash H true hp a).1, (encodeAndHash H true hp a).2.map (·.2)) := by
  unfold calcRootMV
  by_cases h : (hp.get a).dirty = false ∧ ((hp.get a).mv.getD []).length = 32
  · simp [h.1, h.2]
  · rw [if_neg h]
    have : ¬ ((!(hp.get a).dirty && ((hp.get a).mv.getD []).length == 32) = true) := by
      intro hc
      apply h
      simp only [Bool.and_eq_true, Bool.not_eq_true', beq_iff_eq] at hc
      exact hc
    simp [this]

theorem ensureMV_some (c : Ctx) (hp : Heap) (a : Nat) :
    ensureMV c hp (some a) =
      if c.troot = some a then (calcRootMV c.H hp a).1 else (calcMV c.H (bigFuel + 1) hp a).1 := rfl

theorem good_calcRootMV {F : Frame} {hp : Heap} (hg : Good F hp) (r : Nat) (hr : F.r0 = some r) :
    Good F (calcRootMV F.H hp r).1 := by
  rw [calcRootMV_eq]
  by_cases hu : (hp.get r).dirty = false ∧ ((hp.get r).mv.getD []).length = 32
  · rw [if_pos hu]; exact hg
  · rw [if_neg hu]
    obtain ⟨hm, hspec⟩ := encodeAndHash_spec F.H true hp r
    cases he : (encodeAndHash F.H true hp r).2 with
    | none =>
      rw [he] at hspec
      exact hg.of_calc hm hspec
    | some em =>
      obtain ⟨enc, m⟩ := em
      rw [he] at hspec
      obtain ⟨henc, hmv, hp1, hm1, ht1, heq⟩ := hspec
      have hg1 : Good F hp1 := hg.of_calc hm1 ht1
      refine hg.of_mvOnly hm (fun P ρ ad => ?_)
      show VP F.H P ρ F.hp0 (encodeAndHash F.H true hp r).1
      rw [heq]
      refine (hg1.views P ρ ad).write_mv r m (fun hP => absurd hP (ad.root r hr)) ?_
      rintro rfl
      right
      have hrv : RVal F.H hp r m := by
        simp only [if_true] at hmv
        exact Or.inr ⟨hu, enc, henc, hmv⟩
      exact ((hg.views P r ad).rval_iff ad.view m).mpr hrv

theorem mvOnly_calcRootMV (H : Bytes → Bytes) (hp : Heap) (a : Nat) : MvOnly hp (calcRootMV H hp a).1 := by
  rw [calcRootMV_eq]
  split
  · exact MvOnly.refl hp
  · exact (encodeAndHash_spec H true hp a).1

theorem good_ensureMV {F : Frame} {hp : Heap} (hg : Good F hp) (ver : Ver) (x : Option Nat) :
    Good F (ensureMV (F.ctx ver) hp x) := by
  cases x with
  | none => exact hg
  | some a =>
    rw [ensureMV_some]
    by_cases h : (F.ctx ver).troot = some a
    · rw [if_pos h]; exact good_calcRootMV hg a h
    · rw [if_neg h]
      have ok := calcMV_ok F.H (bigFuel + 1) hp a
      exact hg.of_calc ok.mvOnly ok.trp

theorem mvOnly_ensureMV (c : Ctx) (hp : Heap) (x : Option Nat) : MvOnly hp (ensureMV c hp x) := by
  cases x with
  | none => exact MvOnly.refl hp
  | some a =>
    rw [ensureMV_some]
    split
    · exact mvOnly_calcRootMV c.H hp a
    · exact (calcMV_ok c.H (bigFuel + 1) hp a).mvOnly

theorem mvOnly_registerDeleted (c : Ctx) (hp : Heap) (a : Nat) : MvOnly hp (registerDeleted c hp a) :=
  mvOnly_ensureMV c hp (some a)

theorem good_registerDeleted {F : Frame} {hp : Heap} (hg : Good F hp) (ver : Ver) (a : Nat) :
    Good F (registerDeleted (F.ctx ver) hp a) := good_ensureMV hg ver (some a)

/-! ### prepForMutation, handleDeletion -/

theorem prep_eq (c : Ctx) (cv : Bool) (hp : Heap) (a : Nat) :
    prepForMutation c cv hp a =
      if (hp.get a).gen = c.g then (hp.modify a HNode.setDirty, a)
      else (registerDeleted c hp a).alloc
        { (registerDeleted c hp a).get a with
          val := if cv then ((registerDeleted c hp a).get a).val else none,
          gen := c.g, dirty := true, mv := none } := rfl

theorem prep_spec {F : Frame} {hp : Heap} (hg : Good F hp) (ver : Ver) (cv : Bool) {a : Nat}
    (ha : InW F hp a) :
    Step F hp (prepForMutation (F.ctx ver) cv hp a).1 (some (prepForMutation (F.ctx ver) cv hp a).2) ∧
    ((prepForMutation (F.ctx ver) cv hp a).1.get (prepForMutation (F.ctx ver) cv hp a).2).gen = F.g := by
  rw [prep_eq]
  by_cases hgen : (hp.get a).gen = (F.ctx ver).g
  · rw [if_pos hgen]
    have hgen' : (hp.get a).gen = F.g := hgen
    have hgd : Good F (hp.modify a HNode.setDirty) :=
      hg.modify_fields ha hgen' HNode.setDirty (fun _ => rfl) (fun _ => rfl)
    refine ⟨⟨hgd, by simp, ?_⟩, ?_⟩
    · intro b hb; cases hb; exact ⟨ha.1, by simpa using ha.2⟩
    · show ((hp.modify a HNode.setDirty).get a).gen = F.g
      rw [Heap.get_modify, if_pos ⟨rfl, ha.2⟩]; exact hgen'
  · rw [if_neg hgen]
    have hm := mvOnly_ensureMV (F.ctx ver) hp (some a)
    have hg1 : Good F (registerDeleted (F.ctx ver) hp a) := good_ensureMV hg ver (some a)
    have hsz : (registerDeleted (F.ctx ver) hp a).size = hp.size := hm.size
    obtain ⟨hga, hin⟩ := hg1.alloc
      { (registerDeleted (F.ctx ver) hp a).get a with
        val := if cv then ((registerDeleted (F.ctx ver) hp a).get a).val else none,
        gen := (F.ctx ver).g, dirty := true, mv := none } rfl
      (fun i x hx => hg1.kids a ha.1 i x hx)
    refine ⟨⟨hga, by simp [hsz], ?_⟩, ?_⟩
    · intro b hb; cases hb; exact hin
    · simp only [Heap.alloc_snd, Heap.get_alloc_self]; rfl

theorem kidIdx_mem {ks : Nib → Option Nat} {i : Nib} (h : i ∈ kidIdx ks) : (ks i).isSome := by
  unfold kidIdx at h
  exact (List.mem_filter.mp h).2

/-- outcome of a function that returns a prepared node: a usable address of the trie's generation -/
def PostG (F : Frame) (hp : Heap) (r : Heap × Nat) : Prop :=
  Step F hp r.1 (some r.2) ∧ (r.1.get r.2).gen = F.g

theorem prep_post {F : Frame} {hp : Heap} (hg : Good F hp) (ver : Ver) (cv : Bool) {a : Nat}
    (ha : InW F hp a) : PostG F hp (prepForMutation (F.ctx ver) cv hp a) := prep_spec hg ver cv ha

theorem handleDeletion_post {F : Frame} {hp : Heap} (hg : Good F hp) (ver : Ver) {b : Nat}
    (hb : InW F hp b) (hgen : (hp.get b).gen = F.g) (key : Nibs) :
    PostG F hp (handleDeletion (F.ctx ver) hp b key) := by
  have hsame : PostG F hp (hp, b) := ⟨⟨hg, Nat.le_refl _, fun a ha => by cases ha; exact hb⟩, hgen⟩
  unfold handleDeletion
  simp only []
  split
  · -- no child, a value: the branch becomes a leaf
    rename_i x _ _
    obtain ⟨hga, hin⟩ := hg.alloc
      { pk := key.take (lcpLen (hp.get b).pk key), val := some x, isBranch := false, kids := noKids,
        mbh := (hp.get b).mbh, ihv := false, gen := (hp.get b).gen, dirty := true, mv := none } hgen
      (fun i x hx => by simp [noKids] at hx)
    refine ⟨⟨hga, by simp, fun a ha => by cases ha; exact hin⟩, ?_⟩
    simp only [Heap.alloc_snd, Heap.get_alloc_self]; exact hgen
  · -- one child, no value: merge
    rename_i i _ _
    split
    · rename_i ch hch
      have hchW : InW F hp ch := hg.kids b hb.1 i ch hch
      have hm := mvOnly_ensureMV (F.ctx ver) hp (some ch)
      have hg1 : Good F (registerDeleted (F.ctx ver) hp ch) := good_ensureMV hg ver (some ch)
      have hsz : (registerDeleted (F.ctx ver) hp ch).size = hp.size := hm.size
      split
      · obtain ⟨hga, hin⟩ := hg1.alloc
          { pk := (hp.get b).pk ++ i :: ((registerDeleted (F.ctx ver) hp ch).get ch).pk,
            val := ((registerDeleted (F.ctx ver) hp ch).get ch).val, isBranch := false, kids := noKids,
            mbh := ((registerDeleted (F.ctx ver) hp ch).get ch).mbh,
            ihv := ((registerDeleted (F.ctx ver) hp ch).get ch).ihv,
            gen := (hp.get b).gen, dirty := true, mv := none } hgen
          (fun i x hx => by simp [noKids] at hx)
        refine ⟨⟨hga, by simp [hsz], fun a ha => by cases ha; exact hin⟩, ?_⟩
        simp only [Heap.alloc_snd, Heap.get_alloc_self]; exact hgen
      · obtain ⟨hga, hin⟩ := hg1.alloc
          { pk := (hp.get b).pk ++ i :: ((registerDeleted (F.ctx ver) hp ch).get ch).pk,
            val := ((registerDeleted (F.ctx ver) hp ch).get ch).val, isBranch := true,
            kids := ((registerDeleted (F.ctx ver) hp ch).get ch).kids,
            mbh := ((registerDeleted (F.ctx ver) hp ch).get ch).mbh, ihv := false,
            gen := (hp.get b).gen, dirty := true, mv := none } hgen
          (fun j x hx => hg1.kids ch hchW.1 j x hx)
        refine ⟨⟨hga, by simp [hsz], fun a ha => by cases ha; exact hin⟩, ?_⟩
        simp only [Heap.alloc_snd, Heap.get_alloc_self]; exact hgen
    · exact hsame
  · exact hsame

/-! ### building blocks -/

theorem Step.refl {F : Frame} {hp : Heap} (hg : Good F hp) {y : Option Nat}
    (hy : ∀ a, y = some a → InW F hp a) : Step F hp hp y := ⟨hg, Nat.le_refl _, hy⟩

theorem Step.of_some {F : Frame} {hp hp' : Heap} {b : Nat} (hg : Good F hp') (hm : hp.size ≤ hp'.size)
    (hb : InW F hp' b) : Step F hp hp' (some b) := ⟨hg, hm, fun a ha => by cases ha; exact hb⟩

theorem Step.inw' {F : Frame} {hp hp' : Heap} {b : Nat} (s : Step F hp hp' (some b)) : InW F hp' b :=
  s.inw b rfl

/-- allocation as a step -/
theorem alloc_step {F : Frame} {hp0 hp : Heap} (hm : hp0.size ≤ hp.size) (hg : Good F hp) (n : HNode)
    (hgen : n.gen = F.g) (hk : ∀ i x, n.kids i = some x → InW F hp x) :
    Step F hp0 (hp.alloc n).1 (some (hp.alloc n).2) := by
  obtain ⟨hga, hin⟩ := hg.alloc n hgen hk
  exact Step.of_some hga (by simp; omega) hin

/-- `prepForMutation` followed by a field write that keeps generation and children -/
theorem prep_fields {F : Frame} {hp : Heap} (hg : Good F hp) (ver : Ver) (cv : Bool) {a : Nat}
    (ha : InW F hp a) (f : HNode → HNode) (hf : ∀ x, (f x).gen = x.gen) (hk : ∀ x, (f x).kids = x.kids) :
    PostG F hp (((prepForMutation (F.ctx ver) cv hp a).1.modify (prepForMutation (F.ctx ver) cv hp a).2 f),
      (prepForMutation (F.ctx ver) cv hp a).2) := by
  obtain ⟨st, hgen⟩ := prep_post hg ver cv ha
  have hb := st.inw'
  refine ⟨Step.of_some (st.good.modify_fields hb hgen f hf hk) (by simpa using st.mono)
    ⟨hb.1, by simpa using hb.2⟩, ?_⟩
  show ((Heap.modify _ _ f).get _).gen = F.g
  rw [Heap.get_modify, if_pos ⟨rfl, hb.2⟩, hf]; exact hgen

/-- `children[i] = y` on a prepared node -/
theorem kid_post {F : Frame} {hp0 hp : Heap} {b : Nat} (hm : hp0.size ≤ hp.size) (hg : Good F hp)
    (hb : InW F hp b) (hgen : (hp.get b).gen = F.g) (i : Nib) (y : Option Nat)
    (hy : ∀ x, y = some x → InW F hp x) :
    PostG F hp0 (hp.modify b (fun x => { x with kids := setKid x.kids i y }), b) := by
  refine ⟨Step.of_some (hg.modify_kid hb hgen i y hy) (by simpa using hm) ⟨hb.1, by simpa using hb.2⟩, ?_⟩
  show ((Heap.modify _ _ _).get _).gen = F.g
  rw [Heap.get_modify, if_pos ⟨rfl, hb.2⟩]; exact hgen

/-- `prepForMutation` followed by `children[i] = y` -/
theorem prep_kid {F : Frame} {hp0 hp : Heap} (hm : hp0.size ≤ hp.size) (hg : Good F hp) (ver : Ver) {a : Nat}
    (ha : InW F hp a) (i : Nib) (y : Option Nat) (hy : ∀ x, y = some x → InW F hp x) :
    PostG F hp0 (((prepForMutation (F.ctx ver) true hp a).1.modify (prepForMutation (F.ctx ver) true hp a).2
      (fun x => { x with kids := setKid x.kids i y })), (prepForMutation (F.ctx ver) true hp a).2) := by
  obtain ⟨st, hgen⟩ := prep_post hg ver true ha
  have hb := st.inw'
  refine ⟨Step.of_some (st.good.modify_kid hb hgen i y (fun x hx => (hy x hx).mono st.mono))
    (by simp; exact Nat.le_trans hm st.mono) ⟨hb.1, by simpa using hb.2⟩, ?_⟩
  show ((Heap.modify _ _ _).get _).gen = F.g
  rw [Heap.get_modify, if_pos ⟨rfl, hb.2⟩]; exact hgen

theorem noKids_none (i : Nib) (x : Nat) (h : noKids i = some x) : False := by simp [noKids] at h

/-! ### insert -/

def PostA (F : Frame) (hp : Heap) (r : Heap × Nat × Bool) : Prop := Step F hp r.1 (some r.2.1)
def PostO (F : Frame) (hp : Heap) (r : Heap × Option Nat × Bool) : Prop := Step F hp r.1 r.2.1

theorem newLeaf_gen (F : Frame) (ver : Ver) (k : Nibs) (v : Bytes) : (newLeaf (F.ctx ver) k v).gen = F.g := rfl
theorem newLeaf_kids (c : Ctx) (k : Nibs) (v : Bytes) : (newLeaf c k v).kids = noKids := rfl
theorem newBranch_gen (F : Frame) (ver : Ver) (k : Nibs) : (newBranch (F.ctx ver) k).gen = F.g := rfl

theorem insertInLeaf_post {F : Frame} {hp : Heap} (hg : Good F hp) (ver : Ver) {a : Nat}
    (ha : InW F hp a) (key : Nibs) (value : Bytes) :
    PostA F hp (insertInLeaf (F.ctx ver) hp a key value) := by
  have hsame : ∀ b : Bool, PostA F hp (hp, a, b) := fun _ => Step.of_some hg (Nat.le_refl _) ha
  unfold insertInLeaf
  simp only []
  split
  · -- same key
    split
    · exact hsame _
    · exact (prep_fields hg ver false ha
        (fun x => { x with mbh := mustBeHashed (F.ctx ver).ver value, val := some value })
        (fun _ => rfl) (fun _ => rfl)).1
  · split
    · -- key is included in the parent leaf key
      split
      · split
        · rename_i i rest _
          obtain ⟨st, _⟩ := prep_fields hg ver true ha (fun x => { x with pk := rest })
            (fun _ => rfl) (fun _ => rfl)
          have hb := st.inw'
          refine alloc_step st.mono st.good _ rfl ?_
          intro j x hx
          rcases setKid_some hx with h | h
          · cases h; exact hb
          · exact (noKids_none _ _ h).elim
        · exact hsame _
      · exact alloc_step (Nat.le_refl _) hg _ rfl (fun j x hx => (noKids_none j x hx).elim)
    · split
      · -- the key of the parent leaf is at the new branch
        split
        · rename_i j krest _
          have s1 := alloc_step (Nat.le_refl _) hg (newLeaf (F.ctx ver) krest value) rfl
            (fun j x hx => (noKids_none j x hx).elim)
          have hl := s1.inw'
          refine alloc_step s1.mono s1.good _ rfl ?_
          intro j' x hx
          rcases setKid_some hx with h | h
          · cases h; exact hl
          · exact (noKids_none _ _ h).elim
        · exact hsame _
      · split
        · rename_i i rest j krest _ _
          obtain ⟨st, _⟩ := prep_fields hg ver true ha (fun x => { x with pk := rest })
            (fun _ => rfl) (fun _ => rfl)
          have hb := st.inw'
          have s1 := alloc_step st.mono st.good (newLeaf (F.ctx ver) krest value) rfl
            (fun j x hx => (noKids_none j x hx).elim)
          have hl := s1.inw'
          refine alloc_step s1.mono s1.good _ rfl ?_
          intro j' x hx
          rcases setKid_some hx with h | h
          · cases h; exact hl
          · rcases setKid_some h with h | h
            · cases h; exact hb.mono (by simp)
            · exact (noKids_none _ _ h).elim
        · exact hsame _

theorem insertF_post {F : Frame} (ver : Ver) : ∀ (f : Nat) {hp : Heap}, Good F hp →
    ∀ (x : Option Nat), (∀ a, x = some a → InW F hp a) → ∀ (key : Nibs) (value : Bytes),
      PostO F hp (insertF (F.ctx ver) f hp x key value)
  | f, hp, hg, none, _, key, value => by
    have : insertF (F.ctx ver) f hp none key value =
        ((hp.alloc (newLeaf (F.ctx ver) key value)).1, some (hp.alloc (newLeaf (F.ctx ver) key value)).2, true) := by
      cases f <;> rfl
    rw [this]
    exact alloc_step (Nat.le_refl _) hg _ rfl (fun j x hx => (noKids_none j x hx).elim)
  | 0, hp, hg, some a, hx, key, value => Step.refl hg hx
  | f + 1, hp, hg, some a, hx, key, value => by
    have ha : InW F hp a := hx a rfl
    have ih := @insertF_post F ver f
    have hsame : PostO F hp (hp, some a, false) := Step.refl hg hx
    unfold insertF
    simp only []
    split
    · exact insertInLeaf_post hg ver ha key value
    · split
      · -- the key of the branch
        split
        · exact hsame
        · exact (prep_fields hg ver true ha
            (fun x => { x with mbh := mustBeHashed (F.ctx ver).ver value, val := some value })
            (fun _ => rfl) (fun _ => rfl)).1
      · split
        · -- key is included in parent branch key
          split
          · rename_i i rest _
            split
            · -- no child there yet
              have s1 := alloc_step (Nat.le_refl _) hg (newLeaf (F.ctx ver) rest value) rfl
                (fun j x hx => (noKids_none j x hx).elim)
              exact (prep_kid s1.mono s1.good ver (ha.mono s1.mono) i _
                (fun x hx => by cases hx; exact s1.inw')).1
            · rename_i ch hch
              have hchW : InW F hp ch := hg.kids a ha.1 i ch hch
              have sr := ih hg (some ch) (fun b hb => by cases hb; exact hchW) rest value
              split
              · exact ⟨sr.good, sr.mono, fun b hb => by cases hb; exact ha.mono sr.mono⟩
              · exact (prep_kid sr.mono sr.good ver (ha.mono sr.mono) i _ sr.inw).1
          · exact hsame
        · -- branch out
          split
          · rename_i oi orest _
            obtain ⟨st, _⟩ := prep_fields hg ver true ha (fun x => { x with pk := orest })
              (fun _ => rfl) (fun _ => rfl)
            have hb := st.inw'
            split
            · refine alloc_step st.mono st.good _ rfl ?_
              intro j x hx
              rcases setKid_some hx with h | h
              · cases h; exact hb
              · exact (noKids_none _ _ h).elim
            · split
              · rename_i j krest _
                have s1 := alloc_step st.mono st.good (newLeaf (F.ctx ver) krest value) rfl
                  (fun j x hx => (noKids_none j x hx).elim)
                have hl := s1.inw'
                refine alloc_step s1.mono s1.good _ rfl ?_
                intro j' x hx
                rcases setKid_some hx with h | h
                · cases h; exact hl
                · rcases setKid_some h with h | h
                  · cases h; exact hb.mono (by simp)
                  · exact (noKids_none _ _ h).elim
              · exact hsame
          · exact hsame

/-! ### delete, ClearPrefix -/

theorem then_handleDeletion {F : Frame} {hp hp2 : Heap} {b : Nat} (ver : Ver) (h : PostG F hp (hp2, b))
    (key : Nibs) : PostG F hp (handleDeletion (F.ctx ver) hp2 b key) := by
  obtain ⟨st, hgen⟩ := h
  obtain ⟨sd, hgd⟩ := handleDeletion_post st.good ver st.inw' hgen key
  exact ⟨sd.trans_mono st.mono, hgd⟩

theorem ensureMV_step {F : Frame} {hp : Heap} (hg : Good F hp) (ver : Ver) (x : Option Nat) :
    Step F hp (ensureMV (F.ctx ver) hp x) none :=
  ⟨good_ensureMV hg ver x, by rw [(mvOnly_ensureMV (F.ctx ver) hp x).size]; exact Nat.le_refl _,
    fun _ h => by cases h⟩

theorem deleteF_post {F : Frame} (ver : Ver) : ∀ (f : Nat) {hp : Heap}, Good F hp →
    ∀ (x : Option Nat), (∀ a, x = some a → InW F hp a) → ∀ (key : Nibs),
      PostO F hp (deleteF (F.ctx ver) f hp x key)
  | f, hp, hg, none, hx, key => by
    have : deleteF (F.ctx ver) f hp none key = (hp, none, false) := by cases f <;> rfl
    rw [this]; exact Step.refl hg hx
  | 0, hp, hg, some a, hx, key => Step.refl hg hx
  | f + 1, hp, hg, some a, hx, key => by
    have ha : InW F hp a := hx a rfl
    have ih := @deleteF_post F ver f
    have hsame : PostO F hp (hp, some a, false) := Step.refl hg hx
    unfold deleteF
    simp only []
    split
    · split
      · exact hsame
      · exact ensureMV_step hg ver (some a)
    · split
      · exact (then_handleDeletion ver (prep_fields hg ver false ha (fun x => { x with val := none })
          (fun _ => rfl) (fun _ => rfl)) key).1
      · split
        · exact hsame
        · split
          · rename_i i rest _
            have sr := ih hg ((hp.get a).kids i) (fun b hb => hg.kids a ha.1 i b hb) rest
            split
            · exact ⟨sr.good, sr.mono, fun b hb => by cases hb; exact ha.mono sr.mono⟩
            · exact (then_handleDeletion ver
                (prep_kid sr.mono sr.good ver (ha.mono sr.mono) i _ sr.inw) key).1
          · exact hsame

theorem clearPrefixF_post {F : Frame} (ver : Ver) : ∀ (f : Nat) {hp : Heap}, Good F hp →
    ∀ (x : Option Nat), (∀ a, x = some a → InW F hp a) → ∀ (pre : Nibs),
      PostO F hp (clearPrefixF (F.ctx ver) f hp x pre)
  | f, hp, hg, none, hx, pre => by
    have : clearPrefixF (F.ctx ver) f hp none pre = (hp, none, false) := by cases f <;> rfl
    rw [this]; exact Step.refl hg hx
  | 0, hp, hg, some a, hx, pre => Step.refl hg hx
  | f + 1, hp, hg, some a, hx, pre => by
    have ha : InW F hp a := hx a rfl
    have ih := @clearPrefixF_post F ver f
    have hsame : PostO F hp (hp, some a, false) := Step.refl hg hx
    unfold clearPrefixF
    simp only []
    split
    · exact ensureMV_step hg ver (some a)
    · split
      · exact hsame
      · split
        · -- the prefix is one of the children of the branch
          split
          · rename_i i _ _
            split
            · exact hsame
            · rename_i ch hch
              obtain ⟨st, hgen⟩ := prep_post hg ver true ha
              have hb := st.inw'
              have hm := mvOnly_registerDeleted (F.ctx ver) (prepForMutation (F.ctx ver) true hp a).1 ch
              have hg1 := good_registerDeleted st.good ver ch
              have hb1 : InW F (registerDeleted (F.ctx ver) (prepForMutation (F.ctx ver) true hp a).1 ch)
                  (prepForMutation (F.ctx ver) true hp a).2 := ⟨hb.1, by rw [hm.size]; exact hb.2⟩
              have hgen1 : ((registerDeleted (F.ctx ver) (prepForMutation (F.ctx ver) true hp a).1 ch).get
                  (prepForMutation (F.ctx ver) true hp a).2).gen = F.g := by
                rw [strip_gen (hm.cell _).1]; exact hgen
              exact (then_handleDeletion ver (kid_post (by rw [hm.size]; exact st.mono) hg1 hb1 hgen1 i none
                (fun x hx => by cases hx)) pre).1
          · exact hsame
        · split
          · exact hsame
          · split
            · rename_i i rest _
              have sr := ih hg ((hp.get a).kids i) (fun b hb => hg.kids a ha.1 i b hb) rest
              split
              · exact ⟨sr.good, sr.mono, fun b hb => by cases hb; exact ha.mono sr.mono⟩
              · exact (then_handleDeletion ver
                  (prep_kid sr.mono sr.good ver (ha.mono sr.mono) i _ sr.inw) pre).1
            · exact hsame

/-! ### ClearPrefixLimit -/

def PostN (F : Frame) (hp : Heap) (r : Heap × Option Nat × Nat) : Prop := Step F hp r.1 r.2.1

/-- the generation of a usable cell does not change between two good heaps -/
theorem gen_stable {F : Frame} {hp hp' : Heap} (hg : Good F hp) (hg' : Good F hp') {b : Nat}
    (hb : b < hp.size) (hs : hp.size ≤ hp'.size) (hgen : (hp.get b).gen = F.g) : (hp'.get b).gen = F.g := by
  by_cases h : b < F.hp0.size
  · rw [hg'.gen b h, ← hg.gen b h]; exact hgen
  · exact hg'.fresh b (by omega) (by omega)

/-- invariant of the loop of `deleteNodesLimit` -/
structure DnlInv (F : Frame) (hp : Heap) (b : Nat) (s : DnlSt) : Prop where
  good : Good F s.hp
  mono : hp.size ≤ s.hp.size
  inb : InW F s.hp b
  genb : (s.hp.get b).gen = F.g
  res : ∀ r, s.result = some r → ∀ a, r.1 = some a → InW F s.hp a

theorem dnlTail_inv {F : Frame} (ver : Ver) {hp hp1 : Heap} {b : Nat} (hg : Good F hp1)
    (hm : hp.size ≤ hp1.size) (hb : InW F hp1 b) (hgen : (hp1.get b).gen = F.g) (l d : Nat) :
    DnlInv F hp b (dnlTail (F.ctx ver) b hp1 l d) := by
  obtain ⟨sd, _⟩ := handleDeletion_post hg ver hb hgen (hp1.get b).pk
  have hbd := hb.mono sd.mono
  have hgd := gen_stable hg sd.good hb.2 sd.mono hgen
  have hmd := Nat.le_trans hm sd.mono
  unfold dnlTail
  simp only []
  split
  · exact ⟨sd.good, hmd, hbd, hgd, fun r hr a ha => by cases hr; cases ha⟩
  · split
    · exact ⟨sd.good, hmd, hbd, hgd, fun r hr a ha => by cases hr; cases ha; exact sd.inw'⟩
    · exact ⟨sd.good, hmd, hbd, hgd, fun r hr => by cases hr⟩

theorem dnlStep_inv {F : Frame} (ver : Ver) {hp : Heap} {b : Nat}
    (rec : Heap → Option Nat → Nat → Heap × Option Nat × Nat)
    (hrec : ∀ {hp : Heap}, Good F hp → ∀ (x : Option Nat), (∀ a, x = some a → InW F hp a) → ∀ (l : Nat),
      PostN F hp (rec hp x l))
    (s : DnlSt) (hs : DnlInv F hp b s) (i : Nib) : DnlInv F hp b (dnlStep (F.ctx ver) b rec s i) := by
  unfold dnlStep
  split
  · exact hs
  · split
    · exact hs
    · rename_i ch hch
      have hchW : InW F s.hp ch := hs.good.kids b hs.inb.1 i ch hch
      have sr := hrec hs.good (some ch) (fun a ha => by cases ha; exact hchW) s.limit
      simp only []
      split
      · exact ⟨sr.good, Nat.le_trans hs.mono sr.mono, hs.inb.mono sr.mono,
          gen_stable hs.good sr.good hs.inb.2 sr.mono hs.genb, fun r hr a ha => by cases hr; cases ha⟩
      · have hb1 := hs.inb.mono sr.mono
        have hgen1 := gen_stable hs.good sr.good hs.inb.2 sr.mono hs.genb
        obtain ⟨sk, hgk⟩ := kid_post (hp0 := hp) (Nat.le_trans hs.mono sr.mono) sr.good hb1 hgen1 i _ sr.inw
        exact dnlTail_inv ver sk.good sk.mono sk.inw' hgk _ _

theorem dnlLoop_inv {F : Frame} (ver : Ver) {hp : Heap} {b : Nat}
    (rec : Heap → Option Nat → Nat → Heap × Option Nat × Nat)
    (hrec : ∀ {hp : Heap}, Good F hp → ∀ (x : Option Nat), (∀ a, x = some a → InW F hp a) → ∀ (l : Nat),
      PostN F hp (rec hp x l))
    (hp1 : Heap) (limit : Nat) (hg : Good F hp1) (hm : hp.size ≤ hp1.size) (hb : InW F hp1 b)
    (hgen : (hp1.get b).gen = F.g) : DnlInv F hp b (dnlLoop (F.ctx ver) b rec hp1 limit) := by
  rw [dnlLoop_eq]
  have h0 : DnlInv F hp b { hp := hp1, limit := limit, deleted := 0, result := none } :=
    ⟨hg, hm, hb, hgen, fun r hr => by cases hr⟩
  generalize (List.finRange 16) = l
  generalize ({ hp := hp1, limit := limit, deleted := 0, result := none } : DnlSt) = s at h0
  induction l generalizing s with
  | nil => exact h0
  | cons i l ih => exact ih _ (dnlStep_inv ver rec hrec s h0 i)

theorem dnlF_post {F : Frame} (ver : Ver) : ∀ (f : Nat) {hp : Heap}, Good F hp →
    ∀ (x : Option Nat), (∀ a, x = some a → InW F hp a) → ∀ (limit : Nat),
      PostN F hp (dnlF (F.ctx ver) f hp x limit)
  | f, hp, hg, none, hx, limit => by
    have : dnlF (F.ctx ver) f hp none limit = (hp, none, 0) := by cases f <;> rfl
    rw [this]; exact Step.refl hg hx
  | 0, hp, hg, some a, hx, limit => Step.refl hg hx
  | f + 1, hp, hg, some a, hx, limit => by
    have ha : InW F hp a := hx a rfl
    have ih := @dnlF_post F ver f
    have hsame : ∀ n : Nat, PostN F hp (hp, some a, n) := fun _ => Step.refl hg hx
    unfold dnlF
    simp only []
    split
    · exact hsame _
    · split
      · exact ensureMV_step hg ver (some a)
      · split
        · exact hsame _
        · obtain ⟨st, hgen⟩ := prep_post hg ver true ha
          have inv := dnlLoop_inv ver (hp := hp) (dnlF (F.ctx ver) f) ih _ limit st.good st.mono st.inw' hgen
          split
          · rename_i r hr
            exact ⟨inv.good, inv.mono, fun b hb => inv.res r hr b hb⟩
          · exact ⟨inv.good, inv.mono, fun b hb => by cases hb⟩

def PostC (F : Frame) (hp : Heap) (r : Heap × Option Nat × Nat × Bool) : Prop := Step F hp r.1 r.2.1

theorem cplF_post {F : Frame} (ver : Ver) : ∀ (f : Nat) {hp : Heap}, Good F hp →
    ∀ (x : Option Nat), (∀ a, x = some a → InW F hp a) → ∀ (pre : Nibs) (limit : Nat),
      PostC F hp (cplF (F.ctx ver) f hp x pre limit)
  | f, hp, hg, none, hx, pre, limit => by
    have : cplF (F.ctx ver) f hp none pre limit = (hp, none, 0, true) := by cases f <;> rfl
    rw [this]; exact Step.refl hg hx
  | 0, hp, hg, some a, hx, pre, limit => Step.refl hg hx
  | f + 1, hp, hg, some a, hx, pre, limit => by
    have ha : InW F hp a := hx a rfl
    have ih := @cplF_post F ver f
    have hsame : ∀ (n : Nat) (b : Bool), PostC F hp (hp, some a, n, b) := fun _ _ => Step.refl hg hx
    unfold cplF
    simp only []
    split
    · split
      · exact ensureMV_step hg ver (some a)
      · exact hsame _ _
    · split
      · exact dnlF_post ver bigFuel hg (some a) hx limit
      · split
        · -- clearPrefixLimitChild
          split
          · rename_i i _ _
            split
            · exact hsame _ _
            · rename_i ch hch
              have hchW : InW F hp ch := hg.kids a ha.1 i ch hch
              have sr := dnlF_post ver bigFuel hg (some ch) (fun b hb => by cases hb; exact hchW) limit
              split
              · exact ⟨sr.good, sr.mono, fun b hb => by cases hb; exact ha.mono sr.mono⟩
              · exact (then_handleDeletion ver
                  (prep_kid sr.mono sr.good ver (ha.mono sr.mono) i _ sr.inw) pre).1
          · exact hsame _ _
        · split
          · exact hsame _ _
          · split
            · rename_i i rest _
              have sr := ih hg ((hp.get a).kids i) (fun b hb => hg.kids a ha.1 i b hb) rest limit
              split
              · exact ⟨sr.good, sr.mono, fun b hb => by cases hb; exact ha.mono sr.mono⟩
              · exact (then_handleDeletion ver
                  (prep_kid sr.mono sr.good ver (ha.mono sr.mono) i _ sr.inw) pre).1
            · exact hsame _ _

end TrieHeap
end Gossamer
