/-
C23: the pending forced changes of the model along every fresh history: all announced by nodes of the block
tree, pairwise on different forks.  Core Lean only.
-/
import Gossamer.Lib.C23Inv
namespace Gossamer.C23

/-- the announcing blocks are not related by ancestry -/
def Unrel (t : Tree) (a b : Ann) : Prop := anc t a.blk b.blk = false ∧ anc t b.blk a.blk = false

theorem Unrel.symm {t : Tree} {a b : Ann} (h : Unrel t a b) : Unrel t b a := ⟨h.2, h.1⟩

def FInv (t : Tree) (s : St) : Prop :=
  (∀ c ∈ s.forced, inBt t s c.blk = true) ∧ s.forced.Pairwise (Unrel t)

theorem mem_insertAt {α : Type} (l : List α) (i : Nat) (c x : α) :
    x ∈ l.take i ++ c :: l.drop i ↔ x = c ∨ x ∈ l := by
  constructor
  · intro h
    simp only [List.mem_append, List.mem_cons] at h
    rcases h with h | h | h
    · exact Or.inr (List.mem_of_mem_take h)
    · exact Or.inl h
    · exact Or.inr (List.mem_of_mem_drop h)
  · intro h
    rcases h with h | h
    · simp [h]
    · rw [← List.take_append_drop i l] at h
      simp only [List.mem_append, List.mem_cons] at h ⊢
      rcases h with h | h
      · exact Or.inl h
      · exact Or.inr (Or.inr h)

theorem pairwise_insertAt {α : Type} {R : α → α → Prop} (hs : ∀ a b, R a b → R b a) (l : List α) (i : Nat) (c : α)
    (hp : l.Pairwise R) (hc : ∀ e ∈ l, R e c) : (l.take i ++ c :: l.drop i).Pairwise R := by
  have hp' := hp
  rw [← List.take_append_drop i l, List.pairwise_append] at hp'
  rw [List.pairwise_append, List.pairwise_cons]
  refine ⟨hp'.1, ⟨fun e he => hs _ _ (hc e (List.mem_of_mem_drop he)), hp'.2.1⟩, ?_⟩
  intro a ha b hb
  simp only [List.mem_cons] at hb
  rcases hb with rfl | hb
  · exact hc a (List.mem_of_mem_take ha)
  · exact hp'.2.2 a ha b hb

theorem forcedGuard_ok (isD : IsD) (pc : Ann) : ∀ (oc : List Ann), forcedGuard isD pc oc = .ok () →
    ∀ c ∈ oc, c.blk ≠ pc.blk ∧ isD c.blk pc.blk = some false := by
  intro oc
  induction oc with
  | nil => intro _ c hc; simp at hc
  | cons x xs ih =>
    intro h c hc
    simp only [forcedGuard] at h
    split at h
    · exact absurd h (by simp)
    · rename_i hne
      split at h
      · exact absurd h (by simp)
      · exact absurd h (by simp)
      · rename_i hd
        simp only [List.mem_cons] at hc
        rcases hc with rfl | hc
        · exact ⟨hne, hd⟩
        · exact ih h c hc

theorem forcedImport_ok (t : Tree) (isD : IsD) (pc : Ann) (oc f : List Ann) (h : forcedImport t isD pc oc = .ok f) :
    (∃ i, f = oc.take i ++ pc :: oc.drop i) ∧ ∀ c ∈ oc, c.blk ≠ pc.blk ∧ isD c.blk pc.blk = some false := by
  unfold forcedImport at h
  split at h
  · exact absurd h (by simp)
  · rename_i hg
    simp only [Except.ok.injEq] at h
    exact ⟨⟨_, h.symm⟩, forcedGuard_ok isD pc oc hg⟩

/-- while the digests of a freshly imported tip `b` are handled -/
structure TipCtx (t : Tree) (s : St) (b : Nat) : Prop where
  live : LiveInv t s
  inbt : inBt t s b = true
  tip : ∀ x ∈ s.live, anc t b x = true → x = b

theorem fInv_forcedImport {t : Tree} {s : St} {b : Nat} (ctx : TipCtx t s b) (hf : FInv t s)
    (d : Ann) (hd : d.blk = b) (f : List Ann) (h : forcedImport t (isDesc t s) d s.forced = .ok f) :
    FInv t { s with forced := f } := by
  obtain ⟨⟨i, rfl⟩, hg⟩ := forcedImport_ok t _ d s.forced f h
  have hb := (inBt_iff t s b).1 ctx.inbt
  have hrel : ∀ e ∈ s.forced, Unrel t e d := by
    intro e he
    have hge := hg e he
    have hel := ((inBt_iff t s _).1 (hf.1 e he)).1
    rw [hd] at hge
    rw [isDesc_live hel hb.1 hge.1] at hge
    refine ⟨by rw [hd]; simpa using hge.2, ?_⟩
    rw [hd]
    cases hx : anc t b e.blk with
    | false => rfl
    | true => exact absurd (ctx.tip _ hel hx) hge.1
  refine ⟨?_, ?_⟩
  · intro c hc
    rcases (mem_insertAt s.forced i d c).1 hc with rfl | hc
    · show inBt t s c.blk = true
      rw [hd]; exact ctx.inbt
    · exact hf.1 c hc
  · exact pairwise_insertAt (fun _ _ => Unrel.symm) s.forced i d hf.2 hrel

theorem fInv_handleDigests {t : Tree} {b : Nat} : ∀ (ds : List Ann) (s s' : St), (∀ d ∈ ds, d.blk = b) →
    TipCtx t s b → FInv t s → handleDigests t s ds = .ok s' → FInv t s' := by
  intro ds
  induction ds with
  | nil => intro s s' _ _ hf h; simp only [handleDigests, Except.ok.injEq] at h; subst h; exact hf
  | cons d ds ih =>
    intro s s' hds ctx hf h
    simp only [handleDigests] at h
    have hd := hds d (by simp)
    have hds' : ∀ d ∈ ds, d.blk = b := fun x hx => hds x (by simp [hx])
    split at h
    · split at h
      · exact absurd h (by simp)
      · rename_i f hfi
        exact ih { s with forced := f } _ hds' ⟨ctx.live, ctx.inbt, ctx.tip⟩ (fInv_forcedImport ctx hf d hd f hfi) h
    · split at h
      · exact absurd h (by simp)
      · rename_i r _
        exact ih { s with roots := r } _ hds' ⟨ctx.live, ctx.inbt, ctx.tip⟩ hf h

theorem fInv_handleDigestsPartial {t : Tree} {b : Nat} : ∀ (ds : List Ann) (s : St), (∀ d ∈ ds, d.blk = b) →
    TipCtx t s b → FInv t s → FInv t (handleDigestsPartial t s ds) := by
  intro ds
  induction ds with
  | nil => intro s _ _ hf; exact hf
  | cons d ds ih =>
    intro s hds ctx hf
    simp only [handleDigestsPartial]
    have hd := hds d (by simp)
    have hds' : ∀ d ∈ ds, d.blk = b := fun x hx => hds x (by simp [hx])
    split
    · split
      · exact hf
      · rename_i f hfi
        exact ih { s with forced := f } hds' ⟨ctx.live, ctx.inbt, ctx.tip⟩ (fInv_forcedImport ctx hf d hd f hfi)
    · split
      · exact hf
      · rename_i r _
        exact ih { s with roots := r } hds' ⟨ctx.live, ctx.inbt, ctx.tip⟩ hf

theorem filterDigests_blk (t : Tree) (b : Nat) : ∀ d ∈ filterDigests (t.anns.filter (·.blk = b)), d.blk = b := by
  intro d hd
  unfold filterDigests at hd
  split at hd
  · simp only [List.mem_filter, decide_eq_true_eq] at hd; exact hd.1.2
  · simp only [List.mem_filter, decide_eq_true_eq] at hd; exact hd.2

theorem fInv_frame {t : Tree} {s s' : St} (hl : s'.live = s.live) (hr : s'.root = s.root) (hf : s'.forced = s.forced)
    (h : FInv t s) : FInv t s' := by
  refine ⟨?_, by rw [hf]; exact h.2⟩
  intro c hc
  rw [hf] at hc
  have := h.1 c hc
  simpa [inBt, hl, hr] using this

theorem fInv_empty {t : Tree} {s : St} (h : s.forced = []) : FInv t s := by
  refine ⟨by intro c hc; rw [h] at hc; simp at hc, by rw [h]; exact List.Pairwise.nil⟩

theorem fInv_step {t : Tree} (wf : t.WF) (s : St) (op : Op) (hl : LiveInv t s) (hfresh : FreshOp t s op)
    (hf : FInv t s) : FInv t (step t s op).1 := by
  cases op with
  | imp b =>
    simp only [step, importBlock]
    split
    · exact hf
    · rename_i hpar
      simp only [Bool.not_eq_true', Bool.not_eq_false] at hpar
      have hfr : FreshImp t s b := ⟨hpar, hfresh⟩
      have hb : inBt t s b = false := hfresh
      simp only [hb, Bool.false_eq_true, if_false]
      -- the state with `b` added
      have hl0 := liveInv_add wf hl hfr
      have hpos := freshImp_pos wf hfr
      have hp := (inBt_iff t s _).1 hpar
      have ctx : TipCtx t { s with live := s.live ++ [b] } b := by
        refine ⟨hl0, ?_, ?_⟩
        · rw [inBt_iff]
          exact ⟨by simp, anc_trans wf _ _ _ hp.2 (anc_par wf hpos)⟩
        · intro x hx hbx
          simp only [List.mem_append, List.mem_singleton] at hx
          rcases hx with hx | hx
          · have := freshImp_tip wf hl hfr x hx
            rw [this] at hbx; exact absurd hbx (by simp)
          · exact hx
      have hf0 : FInv t { s with live := s.live ++ [b] } := by
        refine ⟨?_, hf.2⟩
        intro c hc
        have := (inBt_iff t s _).1 (hf.1 c hc)
        rw [inBt_iff]
        exact ⟨by simp [this.1], this.2⟩
      split
      · exact fInv_handleDigestsPartial _ _ (filterDigests_blk t b) ctx hf0
      · rename_i s1 hd
        have h1 := fInv_handleDigests _ _ _ (filterDigests_blk t b) ctx hf0 hd
        split
        · exact h1
        · rename_i s2 hfo
          have hfr := applyForced_frame t s1 s2 b hfo
          rcases hfr.2.2 with ⟨e1, _⟩ | ⟨e1, _⟩
          · exact fInv_frame hfr.1 hfr.2.1 e1 h1
          · exact fInv_empty e1
  | fin b =>
    simp only [step, finalise]
    split
    · exact hf
    · rename_i s1 hs
      unfold setFinalised at hs
      split at hs
      · rename_i hb
        simp only [Option.some.injEq] at hs
        have hb' := (inBt_iff t s b).1 hb
        -- after pruning the forced slice
        have key : ∀ (s2 : St), s2.live = s1.live → s2.root = s1.root →
            s2.forced = s1.forced.filter (fun c => isDesc t s1 b c.blk == some true) → FInv t s2 := by
          intro s2 e1 e2 e3
          refine ⟨?_, ?_⟩
          · intro c hc
            rw [e3] at hc
            simp only [List.mem_filter, beq_iff_eq] at hc
            have hd := isDesc_true wf hc.2
            rw [inBt_iff, e1, e2, ← hs]
            simp only [List.mem_filter, Bool.or_eq_true]
            rcases hd.2 with e | ⟨_, hl2⟩
            · rw [← e]; exact ⟨⟨hb'.1, Or.inl (anc_refl wf b)⟩, anc_refl wf b⟩
            · rw [← hs] at hl2
              simp only [List.mem_filter, Bool.or_eq_true] at hl2
              exact ⟨hl2, hd.1⟩
          · rw [e3]
            have : s1.forced = s.forced := by rw [← hs]
            rw [this]
            exact hf.2.sublist (List.filter_sublist)
        split
        · have hfr := applyScheduledPartial_frame t s1 b
          exact key _ hfr.1 hfr.2.1 hfr.2.2.1
        · rename_i s2 ha
          have hfr := applyScheduled_frame t s1 s2 b ha
          exact key _ hfr.1 hfr.2.1 hfr.2.2
      · exact absurd hs (by simp)

theorem fInv_init (t : Tree) : FInv t St.init := fInv_empty rfl

theorem fInv_run {t : Tree} (wf : t.WF) (ops : List Op) : ∀ s, LiveInv t s → FInv t s → Fresh t s ops →
    FInv t (run t s ops) := by
  induction ops with
  | nil => intro s _ h _; exact h
  | cons op ops ih =>
    intro s hl hf hfr
    exact ih _ (liveInv_step wf s op hl) (fInv_step wf s op hl hfr.1 hf) hfr.2

end Gossamer.C23
