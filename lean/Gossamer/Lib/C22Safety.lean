/-
C22 library: the safety argument.

`Hist` collects what is true of the set of all votes ever cast (`sent`) in every reachable state of the
protocol.  From `Hist` alone (no reference to time) the paper's lemma follows: a block with a supermajority
of the precommits of round r is an ancestor of every estimate that an honest voter can record for a round
≥ r, hence of every honest vote of a later round (`locked_later`).
-/
import Gossamer.Lib.C22Votes
namespace Gossamer.C22
set_option linter.unusedSectionVars false

section
variable {B : Type} [DecidableEq B]

theorem single_round_comparable (vs : Voters) (O : BlockOrder B) (castV S1 S2 : Votes B) (b1 b2 : B)
    (hmin : vs.minority) (hhon : ∀ v, vs.honest v → single castV v)
    (h1 : ∀ p, p ∈ S1 → p ∈ castV) (h2 : ∀ p, p ∈ S2 → p ∈ castV)
    (hs1 : hasSuper vs O S1 b1) (hs2 : hasSuper vs O S2 b2) : O.comparable b1 b2 := by
  have ⟨v, hm, ha, hb, hz⟩ :=
    vs.two_super_meet (supports O S1 b1) (supports O S2 b2) vs.byz hmin hs1 hs2
  have hsingle := hhon v ⟨hm, hz⟩
  have ⟨c1, hc1, hl1⟩ := supports_single O S1 b1 v (single_sub h1 v hsingle) ha
  have ⟨c2, hc2, hl2⟩ := supports_single O S2 b2 v (single_sub h2 v hsingle) hb
  have : c1 = c2 := hsingle c1 c2 (h1 _ hc1) (h2 _ hc2)
  subst this
  exact O.chain b1 b2 c1 hl1 hl2

/-- facts about the votes ever cast -/
structure Hist (vs : Voters) (O : BlockOrder B) (sent : List (Msg B)) : Prop where
  /-- an honest voter casts at most one vote per round and stage -/
  hon_single : ∀ m m', m ∈ sent → m' ∈ sent → vs.honest m.voter → m.voter = m'.voter →
    m.round = m'.round → m.stage = m'.stage → m.block = m'.block
  /-- an honest vote of round q+1 extends an estimate its voter could record for round q -/
  hon_ext : ∀ m, m ∈ sent → vs.honest m.voter → ∀ q, q + 1 = m.round →
    ∃ (view : List (Msg B)) (g e : B), (∀ x, x ∈ view → x ∈ sent) ∧ closable vs O view q g e ∧
      O.le e m.block = true
  /-- an honest precommit has a supermajority of the prevotes its voter had received -/
  hon_pc : ∀ m, m ∈ sent → vs.honest m.voter → m.stage = .precommit →
    ∃ view : List (Msg B), (∀ x, x ∈ view → x ∈ sent) ∧
      hasSuper vs O (votesOf view m.round .prevote) m.block

variable {vs : Voters} {O : BlockOrder B} {sent : List (Msg B)}

theorem Hist.single (H : Hist vs O sent) (r : Nat) (st : Stage) :
    ∀ v, vs.honest v → single (votesOf sent r st) v := by
  intro v hv b b' h1 h2
  rw [mem_votesOf] at h1 h2
  exact H.hon_single _ _ h1 h2 hv rfl rfl rfl

/-- in the votes ever cast, only Byzantine voters equivocate -/
theorem Hist.equivocators_light (H : Hist vs O sent) (hmin : vs.minority) (r : Nat) (st : Stage) :
    3 * vs.weight (equivocates (votesOf sent r st)) < vs.total := by
  have : vs.weight (equivocates (votesOf sent r st)) ≤ vs.weight vs.byz := by
    apply vs.weight_mono
    intro v hm he
    cases hb : vs.byz v with
    | true => rfl
    | false =>
      rw [not_equivocates_of_single _ v (H.single r st v ⟨hm, hb⟩)] at he
      exact absurd he (by simp)
  unfold Voters.minority at hmin
  omega

/-- Lemma (round r itself): a block that has a supermajority of the precommits of round r is below every
    estimate recordable for round r. -/
theorem Hist.est_ge_locked (H : Hist vs O sent) (hmin : vs.minority) (r : Nat) (x : B)
    (hx : hasSuper vs O (votesOf sent r .precommit) x)
    (view : List (Msg B)) (g e : B) (hview : ∀ m, m ∈ view → m ∈ sent)
    (hc : closable vs O view r g e) : O.le x e = true := by
  have ⟨hg, _, hall⟩ := hc
  -- it is possible for the received precommits to have a supermajority for x: they do, eventually
  have hposs : possible vs O (votesOf view r .precommit) x :=
    ⟨votesOf sent r .precommit, votesOf_sub hview r .precommit,
      H.equivocators_light hmin r .precommit, hx⟩
  -- x is comparable with g: both are tied to blocks with a supermajority of the prevotes of round r
  have ⟨v, c, hv, hvc, hxc⟩ :=
    hasSuper_honest_vote vs O _ x hmin (H.single r .precommit) hx
  rw [mem_votesOf] at hvc
  have ⟨view', hview', hsc⟩ := H.hon_pc _ hvc hv rfl
  have hsc' : hasSuper vs O (votesOf sent r .prevote) c :=
    hasSuper_mono vs O (votesOf_sub hview' r .prevote) c hsc
  have hg' : hasSuper vs O (votesOf sent r .prevote) g :=
    hasSuper_mono vs O (votesOf_sub hview r .prevote) g hg
  have hcg : O.comparable c g :=
    single_round_comparable vs O _ _ _ c g hmin (H.single r .prevote) (fun _ h => h) (fun _ h => h)
      hsc' hg'
  have hxg : O.comparable x g := by
    cases hcg with
    | inl h => left; exact O.trans _ _ _ hxc h
    | inr h => exact O.chain x g c hxc h
  exact hall x hxg hposs

/-- If every honest precommit of round q is for `x` or a descendant, a supermajority for `x` stays possible
    whatever part of the precommits one has received. -/
theorem Hist.possible_of_honest_above (H : Hist vs O sent) (hmin : vs.minority) (q : Nat) (x : B)
    (habove : ∀ v c, vs.honest v → (v, c) ∈ votesOf sent q .precommit → O.le x c = true)
    (S : Votes B) (hS : ∀ p, p ∈ S → p ∈ votesOf sent q .precommit) : possible vs O S x := by
  let extra : Votes B := (vs.ids.filter (fun v => !voted S v)).map (fun v => (v, x))
  have hextra : ∀ v b, (v, b) ∈ extra → b = x ∧ voted S v = false ∧ v ∈ vs.ids := by
    intro v b h
    have ⟨u, hu, he⟩ := List.mem_map.mp h
    have ⟨hu1, hu2⟩ := List.mem_filter.mp hu
    simp at he
    rw [← he.1, ← he.2]
    exact ⟨rfl, by simpa using hu2, hu1⟩
  have hsplit : ∀ v b, (v, b) ∈ S ++ extra → (v, b) ∈ S ∨ (v, b) ∈ extra := fun v b h =>
    List.mem_append.mp h
  refine ⟨S ++ extra, fun p hp => List.mem_append.mpr (Or.inl hp), ?_, ?_⟩
  · -- only Byzantine voters equivocate in S ++ extra
    have : vs.weight (equivocates (S ++ extra)) ≤ vs.weight vs.byz := by
      apply vs.weight_mono
      intro v hm he
      cases hb : vs.byz v with
      | true => rfl
      | false =>
        have ⟨b, b', h1, h2, hne⟩ := (equivocates_iff _ v).mp he
        have hsing := H.single q .precommit v ⟨hm, hb⟩
        cases hsplit v b h1 with
        | inl h1 =>
          have hvoted : voted S v = true := (voted_iff S v).mpr ⟨b, h1⟩
          cases hsplit v b' h2 with
          | inl h2 => exact absurd (hsing b b' (hS _ h1) (hS _ h2)) hne
          | inr h2 => have := (hextra v b' h2).2.1; rw [hvoted] at this; exact absurd this (by simp)
        | inr h1 =>
          have hnv := (hextra v b h1).2.1
          cases hsplit v b' h2 with
          | inl h2 =>
            have hvoted : voted S v = true := (voted_iff S v).mpr ⟨b', h2⟩
            rw [hvoted] at hnv; exact absurd hnv (by simp)
          | inr h2 => exact absurd ((hextra v b h1).1.trans (hextra v b' h2).1.symm) hne
    unfold Voters.minority at hmin
    omega
  · -- every honest voter supports x in S ++ extra
    have hsup : vs.weight (fun v => !vs.byz v) ≤ tally vs O (S ++ extra) x := by
      apply vs.weight_mono
      intro v hm hb
      have hb' : vs.byz v = false := by simpa using hb
      rw [supports_iff]
      left
      cases hvoted : voted S v with
      | true =>
        have ⟨b, hb1⟩ := (voted_iff S v).mp hvoted
        exact ⟨b, List.mem_append.mpr (Or.inl hb1), habove v b ⟨hm, hb'⟩ (hS _ hb1)⟩
      | false =>
        refine ⟨x, List.mem_append.mpr (Or.inr ?_), O.refl x⟩
        exact List.mem_map.mpr ⟨v, List.mem_filter.mpr ⟨hm, by simp [hvoted]⟩, rfl⟩
    have := vs.honest_super hmin
    unfold hasSuper supermajority at *
    omega

/-- The paper's invariant: a block with a supermajority of the precommits of round r is an ancestor of
    every honest vote (prevote or precommit) of every later round. -/
theorem Hist.locked_later (H : Hist vs O sent) (hmin : vs.minority) (r : Nat) (x : B)
    (hx : hasSuper vs O (votesOf sent r .precommit) x) :
    ∀ d m, m ∈ sent → vs.honest m.voter → m.round = r + 1 + d → O.le x m.block = true := by
  intro d
  induction d with
  | zero =>
    intro m hm hv hr
    have ⟨view, g, e, hview, hc, hle⟩ := H.hon_ext m hm hv r (by omega)
    exact O.trans _ _ _ (H.est_ge_locked hmin r x hx view g e hview hc) hle
  | succ d ih =>
    intro m hm hv hr
    have ⟨view, g, e, hview, hc, hle⟩ := H.hon_ext m hm hv (r + 1 + d) (by omega)
    have ⟨hg, _, hall⟩ := hc
    -- g is comparable with x: an honest prevote of round r+1+d is above both
    have hg' : hasSuper vs O (votesOf sent (r + 1 + d) .prevote) g :=
      hasSuper_mono vs O (votesOf_sub hview _ .prevote) g hg
    have ⟨v, c, hvh, hvc, hgc⟩ :=
      hasSuper_honest_vote vs O _ g hmin (H.single (r + 1 + d) .prevote) hg'
    rw [mem_votesOf] at hvc
    have hxc : O.le x c = true := ih _ hvc hvh rfl
    have hxg : O.comparable x g := O.chain x g c hxc hgc
    have hposs : possible vs O (votesOf view (r + 1 + d) .precommit) x := by
      apply H.possible_of_honest_above hmin (r + 1 + d) x
      · intro u c' hu hc'
        rw [mem_votesOf] at hc'
        exact ih _ hc' hu rfl
      · exact votesOf_sub hview _ .precommit
    exact O.trans _ _ _ (hall x hxg hposs) hle

/-- two blocks with a supermajority of precommits, in any two rounds, are on one chain -/
theorem Hist.safe (H : Hist vs O sent) (hmin : vs.minority) (r1 r2 : Nat) (b1 b2 : B)
    (h1 : hasSuper vs O (votesOf sent r1 .precommit) b1)
    (h2 : hasSuper vs O (votesOf sent r2 .precommit) b2) : O.comparable b1 b2 := by
  have later : ∀ (ra rb : Nat) (ba bb : B), ra < rb →
      hasSuper vs O (votesOf sent ra .precommit) ba → hasSuper vs O (votesOf sent rb .precommit) bb →
      O.comparable ba bb := by
    intro ra rb ba bb hlt ha hb
    have ⟨v, c, hv, hvc, hbc⟩ :=
      hasSuper_honest_vote vs O _ bb hmin (H.single rb .precommit) hb
    rw [mem_votesOf] at hvc
    have hac : O.le ba c = true :=
      H.locked_later hmin ra ba ha (rb - ra - 1) _ hvc hv (by simp; omega)
    exact O.chain ba bb c hac hbc
  rcases Nat.lt_trichotomy r1 r2 with h | h | h
  · exact later r1 r2 b1 b2 h h1 h2
  · subst h
    exact single_round_comparable vs O _ _ _ b1 b2 hmin (H.single r1 .precommit)
      (fun _ h => h) (fun _ h => h) h1 h2
  · exact (later r2 r1 b2 b1 h h2 h1).symm

end

end Gossamer.C22
