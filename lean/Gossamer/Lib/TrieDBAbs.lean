/-
C06, step 6 (sessions over a non-empty database): the trie a handle tree stands for, relative to the
trie `T0` that was committed when the session started.

* `subAt T0 p`: the node of `T0` whose path from the root is `p`;
* `abs T0 hd pre`: the trie denoted by the handle `hd` at path `pre` — a `persisted` handle stands
  for the node of `T0` at the same path, a `valueRef` for the value `T0` holds under the same key;
* `Ok`: the handle tree is consistent with `T0` (hashes are the hashes of the nodes of `T0` at the
  same path, cached nodes are unchanged, inline/new values are held as `NewValue` would hold them).
-/
import Gossamer.Lib.TrieDBReopen
set_option linter.unusedSectionVars false
set_option linter.unusedSimpArgs false
namespace Gossamer.C06
open Gossamer Gossamer.Trie

/-! ### nodes of a trie by path -/

def subAt : Trie → Nibs → Trie
  | nil, _ => nil
  | leaf pk v, p => if p = [] then leaf pk v else nil
  | branch pk v cs, p =>
    if p = [] then branch pk v cs
    else if pk.isPrefixOf p then
      match p.drop pk.length with
      | i :: rest => subAt (cs i) rest
      | [] => nil
    else nil

@[simp] theorem subAt_nil_path (t : Trie) : subAt t [] = t := by
  cases t <;> simp [subAt]

@[simp] theorem subAt_nil (p : Nibs) : subAt nil p = nil := rfl

theorem subAt_child (pk : Nibs) (v : Option Bytes) (cs : Nib → Trie) (i : Nib) (rest : Nibs) :
    subAt (branch pk v cs) (pk ++ i :: rest) = subAt (cs i) rest := by
  have : ¬ (pk ++ i :: rest = []) := by simp
  simp [subAt, this, isPrefixOf_append_self]

/-- the shape of a path that leads to a node -/
theorem subAt_ne_nil {t : Trie} {p : Nibs} (h : subAt t p ≠ nil) :
    p = [] ∨ ∃ pk v cs i rest, t = branch pk v cs ∧ p = pk ++ i :: rest ∧ subAt (cs i) rest ≠ nil := by
  cases t with
  | nil => simp at h
  | leaf pk v =>
    by_cases hp : p = []
    · exact Or.inl hp
    · simp [subAt, hp] at h
  | branch pk v cs =>
    by_cases hp : p = []
    · exact Or.inl hp
    · right
      rcases key_cases pk p with rfl | ⟨i, rest, rfl⟩ | hoff
      · simp [subAt, hp, isPrefixOf_self] at h
      · rw [subAt_child] at h
        exact ⟨pk, v, cs, i, rest, rfl, rfl, h⟩
      · simp [subAt, hp, hoff] at h

/-- descending from a node that exists -/
theorem subAt_append (t : Trie) (p q : Nibs) (h : subAt t p ≠ nil) :
    subAt t (p ++ q) = subAt (subAt t p) q := by
  induction t generalizing p with
  | nil => simp at h
  | leaf pk v =>
    rcases subAt_ne_nil h with rfl | ⟨_, _, _, _, _, ht, _⟩
    · simp
    · cases ht
  | branch pk v cs ih =>
    rcases subAt_ne_nil h with rfl | ⟨pk', v', cs', i, rest, ht, rfl, hne⟩
    · simp
    · cases ht
      rw [List.append_assoc, List.cons_append, subAt_child, subAt_child]
      exact ih i rest hne

theorem subAt_step {T0 : Trie} {pre pk : Nibs} {v : Option Bytes} {cs : Nib → Trie}
    (h : subAt T0 pre = branch pk v cs) (i : Nib) : subAt T0 (pre ++ pk ++ [i]) = cs i := by
  rw [List.append_assoc, subAt_append T0 pre _ (by rw [h]; simp), h, subAt_child]
  simp

theorem lookup_subAt (t : Trie) (p k : Nibs) (h : subAt t p ≠ nil) :
    lookup t (p ++ k) = lookup (subAt t p) k := by
  induction t generalizing p with
  | nil => simp at h
  | leaf pk v =>
    rcases subAt_ne_nil h with rfl | ⟨_, _, _, _, _, ht, _⟩
    · simp
    · cases ht
  | branch pk v cs ih =>
    rcases subAt_ne_nil h with rfl | ⟨pk', v', cs', i, rest, ht, rfl, hne⟩
    · simp
    · cases ht
      rw [List.append_assoc, List.cons_append, lookup_branch_child, subAt_child]
      exact ih i rest hne

theorem nodeOf_subAt (t : Trie) (p : Nibs) (h : subAt t p ≠ nil) : NodeOf (subAt t p) t := by
  induction t generalizing p with
  | nil => simp at h
  | leaf pk v =>
    rcases subAt_ne_nil h with rfl | ⟨_, _, _, _, _, ht, _⟩
    · simp [NodeOf]
    · cases ht
  | branch pk v cs ih =>
    rcases subAt_ne_nil h with rfl | ⟨pk', v', cs', i, rest, ht, rfl, hne⟩
    · simp [NodeOf]
    · cases ht
      rw [subAt_child]
      exact Or.inr ⟨i, ih i rest hne⟩

/-! ### rows of the nodes and values of a stored trie -/

theorem stored_subAt {ver : Ver} {H : Bytes → Bytes} {get : Bytes → Option Bytes} (t : Trie) :
    ∀ (base p : Nibs), Stored ver H get t base → subAt t p ≠ nil → p ≠ [] →
      32 ≤ (encodeNode ver H (subAt t p)).length →
      get (rowKey (base ++ p) (H (encodeNode ver H (subAt t p)))) = some (encodeNode ver H (subAt t p)) := by
  induction t with
  | nil => intro base p _ h; simp at h
  | leaf pk v =>
    intro base p _ h hp
    rcases subAt_ne_nil h with rfl | ⟨_, _, _, _, _, ht, _⟩
    · exact absurd rfl hp
    · cases ht
  | branch pk v cs ih =>
    intro base p hst h hp hl
    rcases subAt_ne_nil h with rfl | ⟨pk', v', cs', i, rest, ht, rfl, hne⟩
    · exact absurd rfl hp
    · cases ht
      rw [subAt_child] at hl ⊢
      obtain ⟨_, hkids⟩ := hst
      by_cases hr : rest = []
      · subst hr
        simp only [subAt_nil_path] at hl hne ⊢
        have := (hkids i).1 (isNil_false_of_ne hne) hl
        simpa using this
      · have := ih i (base ++ pk ++ [i]) rest (hkids i).2 hne hr hl
        simpa using this

theorem stored_at {ver : Ver} {H : Bytes → Bytes} {get : Bytes → Option Bytes} (t : Trie) :
    ∀ (base p : Nibs), Stored ver H get t base → subAt t p ≠ nil →
      Stored ver H get (subAt t p) (base ++ p) := by
  induction t with
  | nil => intro base p _ h; simp at h
  | leaf pk v =>
    intro base p hst h
    rcases subAt_ne_nil h with rfl | ⟨_, _, _, _, _, ht, _⟩
    · simpa using hst
    · cases ht
  | branch pk v cs ih =>
    intro base p hst h
    rcases subAt_ne_nil h with rfl | ⟨pk', v', cs', i, rest, ht, rfl, hne⟩
    · simpa using hst
    · cases ht
      rw [subAt_child]
      have := ih i (base ++ pk ++ [i]) rest (hst.2 i).2 hne
      simpa using this

theorem stored_value {ver : Ver} {H : Bytes → Bytes} {get : Bytes → Option Bytes} (t : Trie) :
    ∀ (base k : Nibs) (v : Bytes), Stored ver H get t base → lookup t k = some v →
      mustBeHashed ver v = true → get (rowKey (base ++ k) (H v)) = some v := by
  induction t with
  | nil => intro base k v _ h; simp at h
  | leaf pk x =>
    intro base k v hst h hm
    simp only [lookup_leaf] at h
    split at h
    · rename_i hk
      cases h
      subst hk
      exact hst hm
    · cases h
  | branch pk x cs ih =>
    intro base k v hst h hm
    rcases key_cases pk k with rfl | ⟨i, rest, rfl⟩ | hoff
    · rw [lookup_branch_self] at h
      exact hst.1 v h hm
    · rw [lookup_branch_child] at h
      have := ih i (base ++ pk ++ [i]) rest v (hst.2 i).2 h hm
      simpa using this
    · rw [lookup_branch_off _ _ _ _ hoff] at h
      cases h

/-! ### the trie a handle tree stands for -/

def absV (T0 : Trie) (fk : Nibs) : DVal → Bytes
  | .inl x => x
  | .fresh x => x
  | .ref _ => (lookup T0 fk).getD []

def abs (T0 : Trie) : Hd → Nibs → Trie
  | .none, _ => nil
  | .persisted _, pre => subAt T0 pre
  | .empty _, _ => nil
  | .leaf _ pk dv, pre => leaf pk (absV T0 (pre ++ pk) dv)
  | .branch _ pk dvo cs, pre =>
    branch pk (dvo.map (absV T0 (pre ++ pk))) (fun i => abs T0 (cs i) (pre ++ pk ++ [i]))

def DVal.isFresh : DVal → Bool
  | .fresh _ => true
  | _ => false

/-- no `newValueRef` anywhere in the in-memory part of the tree -/
def noFresh : Hd → Prop
  | .leaf _ _ dv => dv.isFresh = false
  | .branch _ _ dvo cs => (∀ dv, dvo = some dv → dv.isFresh = false) ∧ ∀ i, noFresh (cs i)
  | _ => True

/-- a node value is held the way `NewValue` / the decoder would hold it -/
def OkV (ver : Ver) (H : Bytes → Bytes) (T0 : Trie) (fk : Nibs) : DVal → Prop
  | .inl x => mustBeHashed ver x = false
  | .fresh x => mustBeHashed ver x = true
  | .ref h => ∃ v, lookup T0 fk = some v ∧ mustBeHashed ver v = true ∧ h = H v

/-- a hash `h` stands at path `pre` for the node of `T0` at that path (children of a branch are
    referenced by hash only when their encoding has at least 32 bytes) -/
def HashAt (ver : Ver) (H : Bytes → Bytes) (T0 : Trie) (pre : Nibs) (h : Bytes) : Prop :=
  subAt T0 pre ≠ nil ∧ h = H (encodeNode ver H (subAt T0 pre)) ∧
    (pre ≠ [] → 32 ≤ (encodeNode ver H (subAt T0 pre)).length)

/-- consistency of a handle tree with the committed trie `T0` -/
def Ok (ver : Ver) (H : Bytes → Bytes) (T0 : Trie) : Hd → Nibs → Prop
  | .none, _ => True
  | .persisted h, pre => HashAt ver H T0 pre h
  | .empty _, _ => False
  | .leaf c pk dv, pre =>
    OkV ver H T0 (pre ++ pk) dv ∧
    ∀ h, c = some h →
      HashAt ver H T0 pre h ∧ leaf pk (absV T0 (pre ++ pk) dv) = subAt T0 pre ∧ dv.isFresh = false
  | .branch c pk dvo cs, pre =>
    (∀ dv, dvo = some dv → OkV ver H T0 (pre ++ pk) dv) ∧
    (∀ i, Ok ver H T0 (cs i) (pre ++ pk ++ [i])) ∧
    ∀ h, c = some h →
      HashAt ver H T0 pre h ∧ abs T0 (.branch c pk dvo cs) pre = subAt T0 pre ∧
        noFresh (.branch c pk dvo cs)

theorem absV_new (ver : Ver) (T0 : Trie) (fk : Nibs) (v : Bytes) :
    absV T0 fk (newValue ver v) = v := by
  unfold newValue; split <;> rfl

theorem okV_new (ver : Ver) (H : Bytes → Bytes) (T0 : Trie) (fk : Nibs) (v : Bytes) :
    OkV ver H T0 fk (newValue ver v) := by
  unfold newValue
  rw [exceeds_eq_mustBeHashed]
  cases h : mustBeHashed ver v <;> simp [OkV, h]

theorem abs_ofTrie (ver : Ver) (T0 : Trie) (t : Trie) : ∀ pre, abs T0 (ofTrie ver t) pre = t := by
  induction t with
  | nil => intro pre; rfl
  | leaf pk v => intro pre; simp [ofTrie, abs, absV_new]
  | branch pk v cs ih =>
    intro pre
    simp only [ofTrie, abs, ih]
    cases v with
    | none => rfl
    | some x => simp [absV_new]

theorem ok_ofTrie (ver : Ver) (H : Bytes → Bytes) (T0 : Trie) (t : Trie) :
    ∀ pre, Ok ver H T0 (ofTrie ver t) pre := by
  induction t with
  | nil => intro pre; trivial
  | leaf pk v => intro pre; exact ⟨okV_new ver H T0 _ v, fun h hh => by cases hh⟩
  | branch pk v cs ih =>
    intro pre
    refine ⟨?_, fun i => ih i _, fun h hh => by cases hh⟩
    intro dv hdv
    cases v with
    | none => cases hdv
    | some x =>
      simp only [Option.map_some, Option.some.injEq] at hdv
      subst hdv
      exact okV_new ver H T0 _ x

end Gossamer.C06
