/-
The canonical trie `build` of a finite map is canonical and represents the map; every canonical
trie is the `build` of its own content.
-/
import Gossamer.Lib.TrieCanon
set_option linter.unusedSectionVars false
set_option linter.unusedSimpArgs false
namespace Gossamer
open Rank OMap Trie

/-! ### the canonical trie `build` -/

theorem lcp_spec (a b : Nibs) : ∃ a' b', a = lcp a b ++ a' ∧ b = lcp a b ++ b' ∧
    (∀ x xs y ys, a' = x :: xs → b' = y :: ys → x ≠ y) := by
  induction a generalizing b with
  | nil => exact ⟨[], b, by simp [lcp], by simp [lcp], by intros; simp_all⟩
  | cons x xs ih =>
    cases b with
    | nil => exact ⟨x :: xs, [], by simp [lcp], by simp [lcp], by intros; simp_all⟩
    | cons y ys =>
      by_cases hxy : x = y
      · subst hxy
        obtain ⟨a', b', h1, h2, h3⟩ := ih ys
        refine ⟨a', b', ?_, ?_, h3⟩
        · simp only [lcp, if_true, List.cons_append]; rw [← h1]
        · simp only [lcp, if_true, List.cons_append]; rw [← h2]
      · refine ⟨x :: xs, y :: ys, by simp [lcp, hxy], by simp [lcp, hxy], ?_⟩
        intro x' xs' y' ys' h1 h2
        cases h1; cases h2; exact hxy

theorem lcp_isPrefix_left (a b : Nibs) : (lcp a b).isPrefixOf a = true := by
  obtain ⟨a', _, h1, _, _⟩ := lcp_spec a b
  exact isPrefixOf_iff.mpr ⟨a', h1⟩

theorem lcp_isPrefix_right (a b : Nibs) : (lcp a b).isPrefixOf b = true := by
  obtain ⟨_, b', _, h2, _⟩ := lcp_spec a b
  exact isPrefixOf_iff.mpr ⟨b', h2⟩

theorem isPrefixOf_trans {a b c : Nibs} (h1 : a.isPrefixOf b = true) (h2 : b.isPrefixOf c = true) :
    a.isPrefixOf c = true := by
  obtain ⟨r, rfl⟩ := isPrefixOf_iff.mp h1
  obtain ⟨s, rfl⟩ := isPrefixOf_iff.mp h2
  exact isPrefixOf_iff.mpr ⟨r ++ s, by simp⟩

/-- (L1) the common prefix is a prefix of every key -/
theorem lcpAll_isPrefix (es : List (Nibs × Bytes)) : ∀ e ∈ es, (lcpAll es).isPrefixOf e.1 = true := by
  induction es with
  | nil => simp
  | cons e r ih =>
    cases r with
    | nil => simp [lcpAll, isPrefixOf_self]
    | cons e2 r2 =>
      intro x hx
      simp only [lcpAll]
      rcases List.mem_cons.mp hx with rfl | hx
      · exact lcp_isPrefix_left _ _
      · exact isPrefixOf_trans (lcp_isPrefix_right _ _) (ih x hx)

/-- (M) maximality: some key equals the common prefix, or two keys leave it with different nibbles -/
theorem lcpAll_max (es : List (Nibs × Bytes)) (hne : es ≠ []) :
    (∃ e ∈ es, e.1 = lcpAll es) ∨
    (∃ e1 ∈ es, ∃ e2 ∈ es, ∃ a r1 b r2, a ≠ b ∧ e1.1 = lcpAll es ++ a :: r1 ∧ e2.1 = lcpAll es ++ b :: r2) := by
  induction es with
  | nil => exact absurd rfl hne
  | cons e r ih =>
    cases r with
    | nil => left; exact ⟨e, by simp, by simp [lcpAll]⟩
    | cons e2 r2 =>
      simp only [lcpAll]
      obtain ⟨ea, qa, h1, h2, h3⟩ := lcp_spec e.1 (lcpAll (e2 :: r2))
      generalize hp : lcp e.1 (lcpAll (e2 :: r2)) = p at *
      cases ea with
      | nil => left; exact ⟨e, by simp, by simpa using h1⟩
      | cons a r1 =>
        cases qa with
        | nil =>
          have hq : lcpAll (e2 :: r2) = p := by simpa using h2
          rcases ih (by simp) with ⟨x, hx, hxe⟩ | ⟨x1, hx1, x2, hx2, a', r1', b', r2', hab, e1, e2'⟩
          · left; exact ⟨x, by simp [hx], by rw [hxe, hq]⟩
          · right
            refine ⟨x1, by simp [hx1], x2, by simp [hx2], a', r1', b', r2', hab, ?_, ?_⟩
            · rw [e1, hq]
            · rw [e2', hq]
        | cons b rb =>
          right
          have hab : a ≠ b := h3 a r1 b rb rfl rfl
          have hpre := lcpAll_isPrefix (e2 :: r2) e2 (by simp)
          rw [h2] at hpre
          obtain ⟨s, hs⟩ := isPrefixOf_iff.mp hpre
          refine ⟨e, by simp, e2, by simp, a, r1, b, rb ++ s, hab, h1, ?_⟩
          rw [hs]; simp

end Gossamer

namespace Gossamer
open Rank OMap Trie

def strip (n : Nat) (es : List (Nibs × Bytes)) : List (Nibs × Bytes) :=
  es.map (fun e => (e.1.drop n, e.2))

def Distinct (es : List (Nibs × Bytes)) : Prop := es.Pairwise (fun a b => a.1 ≠ b.1)

theorem get_isSome_of_mem {es : List (Nibs × Bytes)} {e : Nibs × Bytes} (h : e ∈ es) :
    (OMap.get e.1 es).isSome = true := by
  induction es with
  | nil => simp at h
  | cons x r ih =>
    simp only [OMap.get]
    split
    · rfl
    · rcases List.mem_cons.mp h with rfl | h
      · rename_i hne; exact absurd rfl hne
      · exact ih h

theorem get_none_of_not_mem {es : List (Nibs × Bytes)} {k : Nibs} (h : ∀ e ∈ es, e.1 ≠ k) :
    OMap.get k es = none := by
  induction es with
  | nil => rfl
  | cons x r ih =>
    simp only [OMap.get]
    rw [if_neg (h x (by simp))]
    exact ih (fun e he => h e (by simp [he]))

/-- (L2) -/
theorem get_strip (p : Nibs) (es : List (Nibs × Bytes))
    (hp : ∀ e ∈ es, p.isPrefixOf e.1 = true) (k : Nibs) :
    OMap.get (p ++ k) es = OMap.get k (strip p.length es) := by
  induction es with
  | nil => rfl
  | cons e r ih =>
    obtain ⟨s, hs⟩ := isPrefixOf_iff.mp (hp e (by simp))
    have ih' := ih (fun x hx => hp x (by simp [hx]))
    simp only [strip, List.map_cons, OMap.get] at ih' ⊢
    rw [hs]
    simp only [drop_length_append, List.append_cancel_left_eq]
    split
    · rfl
    · exact ih'

theorem get_off (p : Nibs) (es : List (Nibs × Bytes))
    (hp : ∀ e ∈ es, p.isPrefixOf e.1 = true) (k : Nibs) (h : p.isPrefixOf k = false) :
    OMap.get k es = none := by
  apply get_none_of_not_mem
  intro e he hk
  rw [← hk, hp e he] at h
  cases h

/-- (L3) -/
theorem get_subEntries (i : Nib) (r : Nibs) (es : List (Nibs × Bytes)) :
    OMap.get (i :: r) es = OMap.get r (subEntries i es) := by
  induction es with
  | nil => rfl
  | cons e es ih =>
    obtain ⟨k, v⟩ := e
    cases k with
    | nil => simp [subEntries, OMap.get] at ih ⊢; exact ih
    | cons j q =>
      by_cases hj : j = i
      · subst hj
        simp only [subEntries, List.filterMap_cons, if_true, OMap.get, List.cons.injEq, true_and] at ih ⊢
        split
        · rfl
        · exact ih
      · have : ¬ (j :: q = i :: r) := by simp [hj]
        simp only [subEntries, List.filterMap_cons, hj, if_false, OMap.get, this] at ih ⊢
        exact ih

theorem mem_subEntries {i : Nib} {r : Nibs} {v : Bytes} {es : List (Nibs × Bytes)}
    (h : (i :: r, v) ∈ es) : (r, v) ∈ subEntries i es := by
  simp only [subEntries, List.mem_filterMap]
  exact ⟨(i :: r, v), h, by simp⟩

theorem mem_subEntries_inv {i : Nib} {x : Nibs × Bytes} {es : List (Nibs × Bytes)}
    (h : x ∈ subEntries i es) : (i :: x.1, x.2) ∈ es := by
  simp only [subEntries, List.mem_filterMap] at h
  obtain ⟨e, he, hx⟩ := h
  obtain ⟨k, v⟩ := e
  cases k with
  | nil => simp at hx
  | cons j q =>
    simp only at hx
    split at hx
    · rename_i hj; subst hj; cases hx; exact he
    · cases hx

/-- (L4) -/
theorem distinct_strip (p : Nibs) {es : List (Nibs × Bytes)}
    (hp : ∀ e ∈ es, p.isPrefixOf e.1 = true) (hd : Distinct es) : Distinct (strip p.length es) := by
  unfold Distinct strip
  rw [List.pairwise_map]
  refine hd.imp_of_mem ?_
  intro a b ha hb hab
  obtain ⟨s, hs⟩ := isPrefixOf_iff.mp (hp a ha)
  obtain ⟨t, ht⟩ := isPrefixOf_iff.mp (hp b hb)
  simp only [hs, ht, drop_length_append]
  intro e; subst e; exact hab (by rw [hs, ht])

theorem distinct_subEntries (i : Nib) {es : List (Nibs × Bytes)} (hd : Distinct es) :
    Distinct (subEntries i es) := by
  induction es with
  | nil => simp [subEntries, Distinct]
  | cons e r ih =>
    have hd' := List.pairwise_cons.mp hd
    have ihr := ih hd'.2
    obtain ⟨k, v⟩ := e
    cases k with
    | nil => simpa [subEntries] using ihr
    | cons j q =>
      by_cases hj : j = i
      · subst hj
        simp only [subEntries, List.filterMap_cons, if_true]
        refine List.pairwise_cons.mpr ⟨?_, ihr⟩
        intro x hx
        have := hd'.1 _ (mem_subEntries_inv hx)
        simpa using this
      · simpa [subEntries, hj] using ihr

/-- (L5) -/
theorem length_filterMap_lt {α β : Type} (f : α → Option β) {l : List α} {a : α}
    (ha : a ∈ l) (hf : f a = none) : (l.filterMap f).length < l.length := by
  induction l with
  | nil => simp at ha
  | cons x r ih =>
    rcases List.mem_cons.mp ha with rfl | h
    · simp only [List.filterMap_cons, hf, List.length_cons]
      exact Nat.lt_succ_of_le (List.length_filterMap_le f r)
    · simp only [List.filterMap_cons, List.length_cons]
      split
      · exact Nat.lt_succ_of_lt (ih h)
      · simp only [List.length_cons]; exact Nat.succ_lt_succ (ih h)

theorem length_subEntries_lt_of_nil {i : Nib} {es : List (Nibs × Bytes)} {v : Bytes}
    (h : ([], v) ∈ es) : (subEntries i es).length < es.length :=
  length_filterMap_lt _ h (by simp)

theorem length_subEntries_lt_of_other {i j : Nib} {r : Nibs} {es : List (Nibs × Bytes)} {v : Bytes}
    (h : (j :: r, v) ∈ es) (hj : j ≠ i) : (subEntries i es).length < es.length :=
  length_filterMap_lt _ h (by simp [hj])

theorem mem_strip {p : Nibs} {es : List (Nibs × Bytes)} {e : Nibs × Bytes} {s : Nibs}
    (he : e ∈ es) (hs : e.1 = p ++ s) : (s, e.2) ∈ strip p.length es := by
  simp only [strip, List.mem_map]
  exact ⟨e, he, by simp [hs]⟩

end Gossamer

namespace Gossamer
open Rank OMap Trie

theorem buildF_cons2 (fuel : Nat) (a b : Nibs × Bytes) (r : List (Nibs × Bytes)) :
    buildF (fuel + 1) (a :: b :: r) =
      Trie.branch (lcpAll (a :: b :: r))
        (OMap.get [] (strip (lcpAll (a :: b :: r)).length (a :: b :: r)))
        (fun i => buildF fuel (subEntries i (strip (lcpAll (a :: b :: r)).length (a :: b :: r)))) := rfl

theorem buildF_spec (fuel : Nat) : ∀ es : List (Nibs × Bytes), es.length ≤ fuel + 1 → Distinct es →
    Canon (buildF fuel es) ∧ (∀ k, lookup (buildF fuel es) k = OMap.get k es) ∧
    (es ≠ [] → buildF fuel es ≠ Trie.nil) := by
  induction fuel with
  | zero =>
    intro es hlen _
    match es, hlen with
    | [], _ => simp [buildF, OMap.get]
    | [e], _ => simp [buildF, OMap.get, eq_comm]
  | succ fuel ih =>
    intro es hlen hd
    match es, hlen, hd with
    | [], _, _ => simp [buildF, OMap.get]
    | [e], _, _ => simp [buildF, OMap.get, eq_comm]
    | a :: b :: r, hlen, hd =>
      rw [buildF_cons2]
      have hab : a.1 ≠ b.1 := (List.pairwise_cons.mp hd).1 b (by simp)
      have ha : a ∈ a :: b :: r := by simp
      have hb : b ∈ a :: b :: r := by simp
      generalize a :: b :: r = es at *
      have hp := lcpAll_isPrefix es
      have hmax := lcpAll_max es (by intro e; rw [e] at ha; simp at ha)
      generalize lcpAll es = p at *
      have hd' : Distinct (strip p.length es) := distinct_strip p hp hd
      have hlen' : (strip p.length es).length = es.length := by simp [strip]
      -- an entry strictly below the branch key gives a non-empty child list
      have hchild : ∀ e ∈ es, ∀ i s, e.1 = p ++ i :: s →
          (s, e.2) ∈ subEntries i (strip p.length es) := by
        intro e he i s hs
        exact mem_subEntries (mem_strip he hs)
      -- every child list is shorter
      have hshort : ∀ i, (subEntries i (strip p.length es)).length ≤ fuel + 1 := by
        intro i
        have : (subEntries i (strip p.length es)).length < es.length := by
          rw [← hlen']
          rcases hmax with ⟨e, he, hep⟩ | ⟨e1, he1, e2, he2, x, r1, y, r2, hxy, h1, h2⟩
          · exact length_subEntries_lt_of_nil (v := e.2) (mem_strip he (by simpa using hep))
          · by_cases hx : x = i
            · exact length_subEntries_lt_of_other (mem_strip he2 h2) (fun e => hxy (hx.trans e.symm))
            · exact length_subEntries_lt_of_other (mem_strip he1 h1) hx
        omega
      have hIH := fun i => ih (subEntries i (strip p.length es)) (hshort i) (distinct_subEntries i hd')
      have hnn : ∀ e ∈ es, ∀ i s, e.1 = p ++ i :: s →
          buildF fuel (subEntries i (strip p.length es)) ≠ Trie.nil := by
        intro e he i s hs
        exact (hIH i).2.2 (List.ne_nil_of_mem (hchild e he i s hs))
      refine ⟨?_, ?_, by simp⟩
      · rw [canon_branch_iff]
        refine ⟨fun i => (hIH i).1, ?_⟩
        rcases hmax with ⟨e, he, hep⟩ | ⟨e1, he1, e2, he2, x, r1, y, r2, hxy, h1, h2⟩
        · right
          constructor
          · have := get_isSome_of_mem (mem_strip he (show e.1 = p ++ [] by simpa using hep))
            simpa using this
          · -- another entry lies strictly below the branch key
            have ⟨o, ho, hop⟩ : ∃ o ∈ es, o.1 ≠ p := by
              by_cases hap : a.1 = p
              · exact ⟨b, hb, fun e => hab (hap.trans e.symm)⟩
              · exact ⟨a, ha, hap⟩
            obtain ⟨s, hs⟩ := isPrefixOf_iff.mp (hp o ho)
            cases s with
            | nil => exact absurd (by simpa using hs) hop
            | cons i s => exact ⟨i, hnn o ho i s hs⟩
        · left
          exact ⟨x, y, hxy, hnn e1 he1 x r1 h1, hnn e2 he2 y r2 h2⟩
      · intro k
        rcases key_cases p k with rfl | ⟨i, s, rfl⟩ | hoff
        · rw [lookup_branch_self]
          have := get_strip k es hp []
          simpa using this.symm
        · rw [lookup_branch_child, (hIH i).2.1, ← get_subEntries, ← get_strip p es hp]
        · rw [lookup_branch_off _ _ _ _ hoff, get_off p es hp k hoff]

theorem buildN_spec {es : List (Nibs × Bytes)} (hd : Distinct es) :
    Canon (buildN es) ∧ ∀ k, lookup (buildN es) k = OMap.get k es := by
  have := buildF_spec es.length es (Nat.le_succ _) hd
  exact ⟨this.1, this.2.1⟩

theorem distinct_of_sorted {es : List (Nibs × Bytes)} (hs : OMap.Sorted es) : Distinct es := by
  rw [OMap.sorted_iff_pairwise] at hs
  exact hs.imp (fun h => klt_ne h)

/-- a canonical trie is the canonical trie of its own content -/
theorem eq_buildN_of_canon {t : Trie} (h : Canon t) : t = buildN (entriesN t) := by
  have hb := buildN_spec (distinct_of_sorted (sorted_entriesN t))
  apply canon_unique h hb.1
  intro k
  rw [hb.2, get_entriesN]

end Gossamer
