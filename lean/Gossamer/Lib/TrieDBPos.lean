/-
C06, step 8: positions of the committed trie `T0` (a node by its path, a hashed value by its key),
the database row of a position, and the positions a handle tree still refers to (`Needs`,
over-approximated for `persisted` handles by everything at or below their path).
-/
import Gossamer.Lib.TrieDBLoad
set_option linter.unusedSectionVars false
set_option linter.unusedSimpArgs false
namespace Gossamer.C06
open Gossamer Gossamer.Trie

inductive Pos where
  | node (p : Nibs)
  | val (k : Nibs)
deriving DecidableEq

/-- the database key of the row of a position of `T0` -/
def rowOf (ver : Ver) (H : Bytes → Bytes) (T0 : Trie) : Pos → Bytes
  | .node p => rowKey p (H (encodeNode ver H (subAt T0 p)))
  | .val k => rowKey k (H ((lookup T0 k).getD []))

/-- the position has a row: a node that is referenced by hash (the root, or an encoding of at least
    32 bytes), a value that is stored by hash -/
def ValidPos (ver : Ver) (H : Bytes → Bytes) (T0 : Trie) : Pos → Prop
  | .node p => subAt T0 p ≠ nil ∧ (p ≠ [] → 32 ≤ (encodeNode ver H (subAt T0 p)).length)
  | .val k => ∃ v, lookup T0 k = some v ∧ mustBeHashed ver v = true

theorem validPos_of_hashAt {ver : Ver} {H : Bytes → Bytes} {T0 : Trie} {pre : Nibs} {h : Bytes}
    (hh : HashAt ver H T0 pre h) : ValidPos ver H T0 (.node pre) := ⟨hh.1, hh.2.2⟩

/-- the position lies at or below the path `pre` -/
def Below (pre : Nibs) : Pos → Prop
  | .node p => pre <+: p
  | .val k => pre <+: k

theorem below_trans {a b : Nibs} (h : a <+: b) {pos : Pos} (hb : Below b pos) : Below a pos := by
  cases pos <;> exact List.IsPrefix.trans h hb

theorem below_disjoint {a : Nibs} {i j : Nib} {pos : Pos} (h1 : Below (a ++ [i]) pos)
    (h2 : Below (a ++ [j]) pos) : i = j := by
  have key : ∀ p : Nibs, a ++ [i] <+: p → a ++ [j] <+: p → i = j := by
    intro p ⟨r1, hr1⟩ ⟨r2, hr2⟩
    rw [← hr2, List.append_assoc, List.append_assoc] at hr1
    have := List.append_cancel_left hr1
    simp at this
    exact this.1
  cases pos with
  | node p => exact key p h1 h2
  | val k => exact key k h1 h2

def DVal.isRef : DVal → Bool
  | .ref _ => true
  | _ => false

def optIsRef : Option DVal → Bool
  | some dv => dv.isRef
  | none => false

/-- the positions of `T0` whose rows the handle tree at path `pre` may still read (for a persisted
    or cached node: everything at or below its path) -/
def Needs : Hd → Nibs → Pos → Prop
  | .none, _, _ => False
  | .persisted _, pre, pos => Below pre pos
  | .empty _, _, _ => False
  | .leaf c pk dv, pre, pos =>
    (c.isSome = true ∧ Below pre pos) ∨ (dv.isRef = true ∧ pos = .val (pre ++ pk))
  | .branch c pk dvo cs, pre, pos =>
    (c.isSome = true ∧ Below pre pos) ∨ (optIsRef dvo = true ∧ pos = .val (pre ++ pk)) ∨
      ∃ i, Needs (cs i) (pre ++ pk ++ [i]) pos

theorem needs_below (hd : Hd) : ∀ pre pos, Needs hd pre pos → Below pre pos := by
  induction hd with
  | none => intro _ _ h; exact h.elim
  | persisted h => intro _ _ h; exact h
  | empty c => intro _ _ h; exact h.elim
  | leaf c pk dv =>
    intro pre pos h
    rcases h with ⟨_, h⟩ | ⟨_, rfl⟩
    · exact h
    · exact List.prefix_append _ _
  | branch c pk dvo cs ih =>
    intro pre pos h
    rcases h with ⟨_, h⟩ | ⟨_, rfl⟩ | ⟨i, hi⟩
    · exact h
    · exact List.prefix_append _ _
    · refine below_trans ?_ (ih i _ _ hi)
      rw [List.append_assoc]
      exact List.prefix_append _ _

/-- a position strictly inside a child slot is neither the node nor the value of the parent -/
theorem below_child_ne_node {pre pk : Nibs} {i : Nib} {pos : Pos}
    (h : Below (pre ++ pk ++ [i]) pos) : pos ≠ .node pre := by
  intro e; subst e
  obtain ⟨r, hr⟩ := h
  have := congrArg List.length hr
  simp at this

theorem below_child_ne_val {pre pk : Nibs} {i : Nib} {pos : Pos}
    (h : Below (pre ++ pk ++ [i]) pos) : pos ≠ .val (pre ++ pk) := by
  intro e; subst e
  obtain ⟨r, hr⟩ := h
  have := congrArg List.length hr
  simp at this

theorem ofTrie_needs (ver : Ver) (t : Trie) : ∀ pre pos, ¬ Needs (ofTrie ver t) pre pos := by
  induction t with
  | nil => intro _ _ h; exact h
  | leaf pk v =>
    intro pre pos h
    simp only [ofTrie, Needs] at h
    rcases h with ⟨h, _⟩ | ⟨h, _⟩
    · cases h
    · unfold newValue at h; split at h <;> cases h
  | branch pk v cs ih =>
    intro pre pos h
    simp only [ofTrie, Needs] at h
    rcases h with ⟨h, _⟩ | ⟨h, _⟩ | ⟨i, hi⟩
    · cases h
    · cases v with
      | none => cases h
      | some x =>
        simp only [Option.map_some, optIsRef] at h
        unfold newValue at h; split at h <;> cases h
    · exact ih i _ _ hi

end Gossamer.C06
