/-
C20 layer (b), proofs: edges and nearest vote-nodes after a block became a vote-node; the bits of the
uncompressed cumulative vote; a non-node below a vote target lies inside the edge of a vote-node.
-/
import Gossamer.Lib.C20GraphEdge2
namespace Gossamer.C20

variable {t : Tree}

/-- the node set after `hash` got a vote-node -/
def addNode (N : Nat → Bool) (hash : Nat) : Nat → Bool := fun b => N b || b == hash

theorem isNode_append_eq (ins : Ins) (p : Nat × Nat) : isNode (ins ++ [p]) = addNode (isNode ins) p.1 := by
  funext b
  rw [isNode_append, addNode]
  congr 1
  by_cases hb : p.1 = b
  · subst hb; simp
  · have hb' : ¬ b = p.1 := fun e => hb e.symm
    have h1 : (p.1 == b) = false := by simpa using hb
    have h2 : (b == p.1) = false := by simpa using hb'
    rw [h1, h2]

theorem edge_add_of_not_mem {N : Nat → Bool} {hash d : Nat} (hn : hash ∉ edge t N d) :
    edge t (addNode N hash) d = edge t N d := by
  unfold edge
  apply takeThrough_congr
  intro x hx
  have : x ≠ hash := fun e => hn (e ▸ hx)
  simp [addNode, this]

theorem edge_add_self (h : t.WF) {N : Nat → Bool} (hash : Nat) :
    edge t (addNode N hash) hash = edge t N hash :=
  edge_add_of_not_mem (fun hm => edge_ne_self h hm rfl)

theorem edge_add_of_mem (h : t.WF) {N : Nat → Bool} {hash d i : Nat} (hN : N hash = false)
    (hi : (edge t N d)[i]? = some hash) :
    edge t (addNode N hash) d = (edge t N d).take (i + 1) ∧ edge t N hash = (edge t N d).drop (i + 1) := by
  have hnd : (t.chain d).tail.Nodup := (Tree.chain_nodup h d).sublist (List.tail_sublist _)
  obtain ⟨e1, e2⟩ := takeThrough_add N hash (t.chain d).tail i hnd hi hN
  refine ⟨e1, ?_⟩
  show takeThrough N (t.chain hash).tail = (takeThrough N (t.chain d).tail).drop (i + 1)
  rw [← e2]
  congr 1
  have hc := Tree.chain_getElem h d (i + 1) hash (edge_getElem h hi)
  rw [hc]
  simp [List.tail_drop]

theorem getLast?_take_succ {l : List Nat} {i : Nat} (hi : i < l.length) :
    (l.take (i + 1)).getLast? = l[i]? := by
  rw [List.getLast?_eq_getElem?]
  have : (l.take (i + 1)).length - 1 = i := by simp; omega
  rw [this, List.getElem?_take]
  simp

theorem ancNode_add_of_not_mem {N : Nat → Bool} {hash d : Nat} (hn : hash ∉ edge t N d) :
    ancNode t (addNode N hash) d = ancNode t N d := by
  unfold ancNode; rw [edge_add_of_not_mem hn]

/-- when `hash` lies inside the edge of `d`: `d` now hangs below `hash`, and `hash` below the old ancestor -/
theorem ancNode_add_of_mem (h : t.WF) {N : Nat → Bool} (h0 : N 0 = true) {hash d : Nat} (hN : N hash = false)
    (hm : hash ∈ edge t N d) :
    ancNode t (addNode N hash) d = some hash ∧ ancNode t N hash = ancNode t N d ∧
    ancNode t (addNode N hash) hash = ancNode t N d := by
  obtain ⟨i, hi⟩ := List.getElem?_of_mem hm
  obtain ⟨e1, e2⟩ := edge_add_of_mem h hN hi
  have hil : i < (edge t N d).length := by
    rcases Nat.lt_or_ge i (edge t N d).length with h1 | h1
    · exact h1
    · rw [List.getElem?_eq_none h1] at hi; cases hi
  have hd : 0 < d := by
    rcases Nat.eq_zero_or_pos d with hz | hz
    · subst hz; simp [edge_zero] at hm
    · exact hz
  obtain ⟨pre, l, e, hl, hpre⟩ := edge_shape h h0 hd
  -- hash is not the last element (the last one is a vote-node)
  have hnl : i + 1 < (edge t N d).length := by
    rcases Nat.lt_or_ge (i + 1) (edge t N d).length with h1 | h1
    · exact h1
    · exfalso
      have hl' : (edge t N d)[i]? = some l := by
        rw [e]
        have : i = pre.length := by rw [e] at h1 hil; simp at h1 hil; omega
        subst this; simp
      rw [hi] at hl'
      have : hash = l := Option.some.inj hl'
      subst this; rw [hN] at hl; cases hl
  have a2 : ancNode t N hash = ancNode t N d := by
    unfold ancNode
    rw [e2, List.getLast?_drop]
    have : ¬ (edge t N d).length ≤ i + 1 := by omega
    simp [this]
  refine ⟨?_, a2, ?_⟩
  · unfold ancNode; rw [e1, getLast?_take_succ hil, hi]
  · unfold ancNode at a2 ⊢; rw [edge_add_self h]; exact a2

/-- a block of the chain of `b` strictly above `b` and not above the nearest vote-node is on the edge -/
theorem mem_edge_of_between (h : t.WF) {N : Nat → Bool} {b a x : Nat} (ha : ancNode t N b = some a)
    (hx : x ∈ t.chain b) (hne : x ≠ b) (hnum : t.num a ≤ t.num x) : x ∈ edge t N b := by
  have hlen := edge_length h ha
  have n1 := Tree.num_lt_of_mem h hx hne
  obtain ⟨j, hj⟩ := List.getElem?_of_mem hx
  have nj := Tree.num_getElem h hj
  have hjl : j - 1 < (edge t N b).length := by omega
  have hel : (edge t N b)[j - 1]? = some ((edge t N b)[j - 1]) := List.getElem?_eq_getElem hjl
  have hc := edge_getElem h hel
  have hjj : j - 1 + 1 = j := by omega
  rw [hjj, hj] at hc
  have : (edge t N b)[j - 1] = x := (Option.some.inj hc).symm
  rw [← this]; exact List.getElem_mem hjl

/-- a non-node on the chain of a vote-node lies inside the edge of a vote-node of that chain -/
theorem below_in_edge (h : t.WF) {N : Nat → Bool} (h0 : N 0 = true) {hash : Nat} (hN : N hash = false) :
    ∀ x, N x = true → hash ∈ t.chain x → ∃ y, N y = true ∧ hash ∈ edge t N y ∧ y ∈ t.chain x := by
  intro x
  induction x using Nat.strongRecOn with
  | _ x ih =>
    intro hx hm
    by_cases hx0 : x = 0
    · subst hx0
      have : hash = 0 := by simpa [Tree.chain_zero] using hm
      subst this; rw [h0] at hN; cases hN
    · have hpos : 0 < x := by omega
      obtain ⟨a, ha, haN, hae⟩ := ancNode_some h h0 hpos
      have hne : hash ≠ x := fun e => by subst e; rw [hx] at hN; cases hN
      by_cases hnum : t.num a ≤ t.num hash
      · exact ⟨x, hx, mem_edge_of_between h ha hm hne hnum, t.mem_chain_self x⟩
      · have hac : a ∈ t.chain x := edge_mem_chain h hae
        have hha : hash ∈ t.chain a := by
          rcases Tree.comparable h hm hac with h1 | h1
          · exact h1
          · have := Tree.num_le_of_mem h h1; omega
        have halt : a < x := by
          have := Tree.mem_chain_le h _ _ hac
          have := edge_ne_self h hae
          omega
        obtain ⟨y, hy, hye, hya⟩ := ih a halt haN hha
        exact ⟨y, hy, hye, Tree.le_trans h hya hac⟩

/-- bit `q` of the uncompressed cumulative vote of `B`: some inserted vote with that bit targets a block ≥ B -/
theorem cumOf_testBit (t : Tree) (ins : Ins) (B q : Nat) :
    (cumOf t ins B).testBit q = ins.any (fun p => p.2 == q && (t.chain p.1).contains B) := by
  have key : ∀ (l : Ins) (c : Nat → Mask),
      ((l.foldl (fun c p => insert t c p.1 p.2) c) B).testBit q =
        ((c B).testBit q || l.any (fun p => p.2 == q && (t.chain p.1).contains B)) := by
    intro l
    induction l with
    | nil => intro c; simp
    | cons p l ih =>
      intro c
      simp only [List.foldl_cons, List.any_cons]
      rw [ih]
      simp only [insert]
      generalize (t.chain p.1).contains B = cb
      cases cb
      · simp
      · simp only [if_true, testBit_setBit, Bool.and_true]
        by_cases hq : p.2 = q
        · simp [hq]
        · have hq' : (p.2 == q) = false := by simpa using hq
          simp [hq, hq']
  have := key ins (fun _ => 0)
  simpa [cumOf] using this

end Gossamer.C20
