/-
C21: `getBestFinalCandidate` – the candidate is the pre-voted block (no block has a precommit supermajority
selected) or a block with more than two thirds of the precommits on the chain of the pre-voted block.
-/
import Gossamer.Lib.C21Unique
import Gossamer.Lib.C21Filter
namespace Gossamer.C21

theorem isDesc_known {t : Tree} {p c : Nat} (hp : p < t.size) (hc : c < t.size) :
    isDesc t p c = .yes ∨ isDesc t p c = .no := by
  unfold isDesc
  by_cases h1 : p = c
  · simp [h1]
  · have h2 : ¬ t.size ≤ p := by omega
    have h3 : ¬ t.size ≤ c := by omega
    by_cases h4 : t.le p c = true <;> simp [h1, h2, h3, h4]

theorem candsDown_mem {c : Cfg} {votes : List (Nat × Vote)} {e b : Nat} :
    ∀ th, b ∈ candsDown c votes e th → ∃ th', b ∈ cands c votes e th' := by
  intro th
  induction th with
  | zero => intro h; exact ⟨0, h⟩
  | succ th ih =>
    intro h
    unfold candsDown at h
    by_cases hd : (!(cands c votes e (th + 1)).isEmpty) = true
    · simp only [hd, if_true] at h
      exact ⟨th + 1, h⟩
    · simp only [hd, Bool.false_eq_true, if_false] at h
      exact ih h

/-- a good best final candidate relative to the pre-voted block `p` -/
structure BfcGood (c : Cfg) (s : St) (p v : Vote) : Prop where
  known : v.blk < c.t.size
  sup : thr c.n < pcTotal c s v.blk
  anc : v.blk ∈ c.t.chain p.blk
  num : v = c.voteOf v.blk

theorem bfcStep_good {c : Cfg} (hw : c.t.WF) {s : St} (hk : KnownVotes c s.pc) {p v : Vote}
    (hp : p.blk < c.t.size) (hv : v = ⟨c.genesis, 0⟩ ∨ BfcGood c s p v) {q : Nat × Nat}
    (hq : q.1 < c.t.size ∧ q.2 = c.number q.1 ∧ thr c.n < pcTotal c s q.1) :
    ∃ v', bfcStep c p (.ok v) q = .ok v' ∧ BfcGood c s p v' := by
  -- the candidate of this iteration
  have hcand : ∃ cd : Nat × Nat, BfcGood c s p ⟨cd.1, cd.2⟩ ∧
      bfcStep c p (.ok v) q = if v.num < cd.2 then .ok ⟨cd.1, cd.2⟩ else .ok v := by
    rcases isDesc_known hq.1 hp with hd | hd
    · refine ⟨q, ⟨hq.1, hq.2.2, isDesc_yes_mem hd, ?_⟩, ?_⟩
      · simp [Cfg.voteOf, hq.2.1]
      · simp [bfcStep, hd, bind, Except.bind]
    · obtain ⟨pred, hl, hpq, hpp, _⟩ := lca_spec hw q.1 p.blk hq.1 hp
      have hps : pred < c.t.size := by
        have := Tree.mem_chain_le hw _ _ hpp
        omega
      refine ⟨(pred, c.number pred), ⟨hps, ?_, hpp, rfl⟩, ?_⟩
      · show thr c.n < pcTotal c s pred
        have := cnt_mono hw hk hps hq.1 hpq
        have h1 := hq.2.2
        unfold pcTotal at h1 ⊢
        rw [total_eq] at h1 ⊢
        omega
      · simp [bfcStep, hd, hl, bind, Except.bind]
  obtain ⟨cd, hgood, hstep⟩ := hcand
  rw [hstep]
  by_cases hlt : v.num < cd.2
  · rw [if_pos hlt]; exact ⟨_, rfl, hgood⟩
  · rw [if_neg hlt]
    refine ⟨v, rfl, ?_⟩
    rcases hv with hv | hv
    · -- still the initial (genesis, 0): the candidate has number 0, it is the root = genesis
      subst hv
      have hn := hgood.num
      simp only [Cfg.voteOf, Vote.mk.injEq, true_and] at hn
      have h0 : cd.2 = 0 := by simp at hlt; omega
      rw [h0] at hn
      unfold Cfg.number at hn
      have hb : c.base = 0 := by omega
      have hd : c.t.depth cd.1 = 0 := by omega
      have hc0 : cd.1 = 0 := (Tree.depth_zero_iff hw).1 hd
      have hg : c.genesis = 0 := by simp [Cfg.genesis, hb]
      rw [hg]
      have hgk := hgood.known
      have hgs := hgood.sup
      have hga := hgood.anc
      simp only [hc0] at hgk hgs hga
      refine ⟨hgk, hgs, hga, ?_⟩
      simp only [Cfg.voteOf, Cfg.number, hb, Vote.mk.injEq, true_and]
      rw [(Tree.depth_zero_iff hw).2 rfl]
    · exact hv

theorem bfcFold_good {c : Cfg} (hw : c.t.WF) {s : St} (hk : KnownVotes c s.pc) {p : Vote}
    (hp : p.blk < c.t.size) : ∀ (L : List (Nat × Nat)) (v : Vote),
    (v = ⟨c.genesis, 0⟩ ∨ BfcGood c s p v) →
    (∀ q ∈ L, q.1 < c.t.size ∧ q.2 = c.number q.1 ∧ thr c.n < pcTotal c s q.1) →
    ∃ v', L.foldl (bfcStep c p) (.ok v) = .ok v' ∧ (BfcGood c s p v' ∨ (L = [] ∧ v' = v)) := by
  intro L
  induction L with
  | nil => intro v _ _; exact ⟨v, rfl, Or.inr ⟨rfl, rfl⟩⟩
  | cons q rest ih =>
    intro v hv hq
    rw [List.foldl_cons]
    obtain ⟨v1, h1, g1⟩ := bfcStep_good hw hk hp hv (hq q List.mem_cons_self)
    rw [h1]
    obtain ⟨v', h2, g2⟩ := ih v1 (Or.inr g1) (fun q' hq' => hq q' (List.mem_cons_of_mem _ hq'))
    refine ⟨v', h2, Or.inl ?_⟩
    rcases g2 with g2 | ⟨_, g2⟩
    · exact g2
    · rw [g2]; exact g1

/-- the pre-voted block is a block of the tree -/
theorem pvbSet_known {c : Cfg} {s : St} (hk : KnownVotes c s.pv) {b : Nat} (hb : b ∈ pvbSet c s) :
    b < c.t.size := by
  unfold pvbSet at hb
  obtain ⟨th', h⟩ := candsDown_mem _ (mem_maxDepth.1 hb).1
  exact (mem_cands_super hk h).1

/-- what `getBestFinalCandidate` answers, for every iteration order -/
theorem gbfc_spec {c : Cfg} (hw : c.t.WF) {s : St} (hgv : GoodVotes c s.pv) (hgc : GoodVotes c s.pc)
    {o : Ord} (ho : o.Valid) {b : Vote} (h : getBestFinalCandidate c o s = .ok b) :
    ∃ p, getPreVotedBlock c (o.sub 0) s = .ok p ∧ p.blk < c.t.size ∧
      ((psb c (o.sub 1) s.pc s.pce.length (thr c.n) = [] ∧ b = p) ∨
       (psb c (o.sub 1) s.pc s.pce.length (thr c.n) ≠ [] ∧ BfcGood c s p b)) := by
  unfold getBestFinalCandidate at h
  cases hp : getPreVotedBlock c (o.sub 0) s with
  | error e => rw [hp] at h; simp [bind, Except.bind] at h
  | ok p =>
    rw [hp] at h
    simp only [bind, Except.bind] at h
    have hpk : p.blk < c.t.size :=
      pvbSet_known hgv.known ((gpv_closed_form hw hgv (ho.sub 0)).1 p hp).1
    refine ⟨p, rfl, hpk, ?_⟩
    by_cases hb : psb c (o.sub 1) s.pc s.pce.length (thr c.n) = []
    · left
      rw [hb] at h
      simp only [List.isEmpty_nil, if_true] at h
      cases h
      exact ⟨hb, rfl⟩
    · right
      have he : (psb c (o.sub 1) s.pc s.pce.length (thr c.n)).isEmpty = false := by
        cases hh : psb c (o.sub 1) s.pc s.pce.length (thr c.n) with
        | nil => exact absurd hh hb
        | cons _ _ => rfl
      simp only [he, Bool.false_eq_true, if_false] at h
      have hchar := psb_char hw hgc (ho.sub 1) s.pce.length (thr c.n)
      have hL : ∀ q ∈ (o [2]).blocks (psb c (o.sub 1) s.pc s.pce.length (thr c.n)),
          q.1 < c.t.size ∧ q.2 = c.number q.1 ∧ thr c.n < pcTotal c s q.1 := by
        intro q hq
        have hq' := (((ho [2]).2.2 _).mem_iff).1 hq
        obtain ⟨h1, h2, h3, _⟩ := hchar.ok q hq'
        refine ⟨h1, h2, ?_⟩
        unfold pcTotal
        rw [total_eq]
        exact h3
      obtain ⟨v', hf, hg⟩ := bfcFold_good hw hgc.known hpk _ ⟨c.genesis, 0⟩ (Or.inl rfl) hL
      rw [hf] at h
      cases h
      refine ⟨hb, ?_⟩
      rcases hg with hg | ⟨hnil, _⟩
      · exact hg
      · exfalso
        have : psb c (o.sub 1) s.pc s.pce.length (thr c.n) = [] :=
          List.Perm.eq_nil (hnil ▸ ((ho [2]).2.2 _).symm)
        exact hb this

end Gossamer.C21
