/-
C21: facts about the tally code of the model (`aset`, `directVotes`, `votesFor`, `total`,
`getPossibleSelectedAncestors`, `getPossibleSelectedBlocks`).
-/
import Gossamer.Lib.C21Tree
namespace Gossamer.C21

/-! ### association lists -/

theorem mem_aset_self {α : Type} (l : List (Nat × α)) (k : Nat) (v : α) : (k, v) ∈ aset l k v := by
  induction l with
  | nil => simp [aset]
  | cons p rest ih =>
    obtain ⟨k', v'⟩ := p
    unfold aset
    split
    · exact List.mem_cons_self
    · exact List.mem_cons_of_mem _ ih

theorem mem_aset {α : Type} {l : List (Nat × α)} {k : Nat} {v : α} {p : Nat × α} (h : p ∈ aset l k v) :
    p = (k, v) ∨ p ∈ l := by
  induction l with
  | nil => simp [aset] at h; exact Or.inl h
  | cons q rest ih =>
    obtain ⟨k', v'⟩ := q
    unfold aset at h
    split at h
    · rcases List.mem_cons.1 h with h | h
      · exact Or.inl h
      · exact Or.inr (List.mem_cons_of_mem _ h)
    · rcases List.mem_cons.1 h with h | h
      · exact Or.inr (h ▸ List.mem_cons_self)
      · rcases ih h with h | h
        · exact Or.inl h
        · exact Or.inr (List.mem_cons_of_mem _ h)

/-- storing `f k` under `k` keeps every pair of the form `(G, f G)` -/
theorem mem_aset_keep {l : List (Nat × Nat)} {k G : Nat} (f : Nat → Nat) (h : (G, f G) ∈ l) :
    (G, f G) ∈ aset l k (f k) := by
  induction l with
  | nil => cases h
  | cons q rest ih =>
    obtain ⟨k', v'⟩ := q
    unfold aset
    split
    · rename_i hk
      rcases List.mem_cons.1 h with h | h
      · have : G = k' := (Prod.mk.inj h).1
        subst this; subst hk
        exact List.mem_cons_self
      · exact List.mem_cons_of_mem _ h
    · rcases List.mem_cons.1 h with h | h
      · exact h ▸ List.mem_cons_self
      · exact List.mem_cons_of_mem _ (ih h)

theorem aset_ne_nil {α : Type} (l : List (Nat × α)) (k : Nat) (v : α) : aset l k v ≠ [] := by
  intro h
  have := mem_aset_self l k v
  rw [h] at this
  cases this

/-! ### direct votes and totals -/

theorem mem_keys_dvAdd {dv : List (Vote × Nat)} {v w : Vote} :
    w ∈ (dvAdd dv v).map (·.1) ↔ w = v ∨ w ∈ dv.map (·.1) := by
  induction dv with
  | nil => simp [dvAdd]
  | cons p rest ih =>
    obtain ⟨u, c⟩ := p
    unfold dvAdd
    split
    · rename_i hu
      subst hu
      simp
    · simp only [List.map_cons, List.mem_cons, ih]
      constructor
      · rintro (h | h | h)
        · exact Or.inr (Or.inl h)
        · exact Or.inl h
        · exact Or.inr (Or.inr h)
      · rintro (h | h | h)
        · exact Or.inr (Or.inl h)
        · exact Or.inl h
        · exact Or.inr (Or.inr h)

/-- the keys of the Go map of direct votes are the votes stored for some authority -/
theorem mem_keys_directVotes {votes : List (Nat × Vote)} {w : Vote} :
    w ∈ (directVotes votes).map (·.1) ↔ ∃ kv ∈ votes, kv.2 = w := by
  induction votes with
  | nil => simp [directVotes]
  | cons kv rest ih =>
    unfold directVotes
    rw [mem_keys_dvAdd, ih]
    constructor
    · rintro (h | ⟨kv', hm, he⟩)
      · exact ⟨kv, List.mem_cons_self, h.symm⟩
      · exact ⟨kv', List.mem_cons_of_mem _ hm, he⟩
    · rintro ⟨kv', hm, he⟩
      rcases List.mem_cons.1 hm with h | h
      · exact Or.inl (by rw [← he, h])
      · exact Or.inr ⟨kv', h, he⟩

theorem directVotes_eq_nil {votes : List (Nat × Vote)} : directVotes votes = [] ↔ votes = [] := by
  constructor
  · intro h
    cases votes with
    | nil => rfl
    | cons kv rest =>
      have : kv.2 ∈ (directVotes (kv :: rest)).map (·.1) :=
        mem_keys_directVotes.2 ⟨kv, List.mem_cons_self, rfl⟩
      rw [h] at this
      cases this
  · intro h; subst h; rfl

theorem votesFor_dvAdd (t : Tree) (b : Nat) (dv : List (Vote × Nat)) (v : Vote) :
    votesFor t b (dvAdd dv v) = votesFor t b dv + (if isDesc t b v.blk = .yes then 1 else 0) := by
  induction dv with
  | nil => simp [dvAdd, votesFor]
  | cons p rest ih =>
    obtain ⟨u, c⟩ := p
    unfold dvAdd
    split
    · rename_i hu
      subst hu
      simp only [votesFor]
      split <;> omega
    · simp only [votesFor, ih]
      omega

/-- the number of stored votes of a stage for `b` or a descendant of `b` -/
def cnt (t : Tree) (votes : List (Nat × Vote)) (b : Nat) : Nat :=
  votes.countP (fun kv => isDesc t b kv.2.blk = .yes)

/-- `getVotesForBlock` over the Go map of direct votes counts the authorities whose stored vote is for the
block or one of its descendants -/
theorem votesFor_directVotes (t : Tree) (b : Nat) (votes : List (Nat × Vote)) :
    votesFor t b (directVotes votes) = cnt t votes b := by
  induction votes with
  | nil => simp [directVotes, votesFor, cnt]
  | cons kv rest ih =>
    unfold directVotes cnt
    rw [votesFor_dvAdd, ih, List.countP_cons]
    unfold cnt
    by_cases h : isDesc t b kv.2.blk = .yes <;> simp [h]

theorem total_eq (t : Tree) (votes : List (Nat × Vote)) (e b : Nat) :
    total t (directVotes votes) e b = cnt t votes b + e := by
  unfold total
  rw [votesFor_directVotes]

theorem isDesc_yes_iff {t : Tree} {b v : Nat} (hb : b < t.size) (hv : v < t.size) :
    isDesc t b v = .yes ↔ b ∈ t.chain v := by
  unfold isDesc
  by_cases h : b = v
  · subst h; simp [Tree.mem_chain_self]
  · have h1 : ¬ t.size ≤ b := by omega
    have h2 : ¬ t.size ≤ v := by omega
    simp only [h, h1, h2, if_false]
    by_cases hl : t.le b v = true
    · simp [hl, Tree.le_iff.1 hl]
    · simp only [hl]
      constructor
      · intro hh; cases hh
      · intro hh; exact absurd (Tree.le_iff.2 hh) hl

/-- the stored votes name blocks of the tree on the chain of the finalised head -/
def KnownVotes (c : Cfg) (votes : List (Nat × Vote)) : Prop :=
  ∀ kv ∈ votes, kv.2.blk < c.t.size ∧ c.fin ∈ c.t.chain kv.2.blk

/-- … and carry the number of their block -/
def GoodVotes (c : Cfg) (votes : List (Nat × Vote)) : Prop :=
  ∀ kv ∈ votes, kv.2.blk < c.t.size ∧ c.fin ∈ c.t.chain kv.2.blk ∧ kv.2.num = c.number kv.2.blk

theorem GoodVotes.known {c : Cfg} {votes : List (Nat × Vote)} (h : GoodVotes c votes) : KnownVotes c votes :=
  fun kv hkv => ⟨(h kv hkv).1, (h kv hkv).2.1⟩

theorem countP_le_of_imp {α : Type} (l : List α) (p q : α → Bool) (h : ∀ x ∈ l, p x = true → q x = true) :
    l.countP p ≤ l.countP q := by
  induction l with
  | nil => simp
  | cons x rest ih =>
    have ih' := ih (fun y hy => h y (List.mem_cons_of_mem _ hy))
    have hx := h x List.mem_cons_self
    rw [List.countP_cons, List.countP_cons]
    by_cases hp : p x = true
    · simp [hp, hx hp]; exact ih'
    · simp [hp]; omega

/-- a block has at least the votes of each of its descendants -/
theorem cnt_mono {c : Cfg} (hw : c.t.WF) {votes : List (Nat × Vote)} (hk : KnownVotes c votes) {a b : Nat}
    (ha : a < c.t.size) (hb : b < c.t.size) (hab : a ∈ c.t.chain b) : cnt c.t votes b ≤ cnt c.t votes a := by
  unfold cnt
  apply countP_le_of_imp
  intro kv hkv hy
  have hv := (hk kv hkv).1
  have hy' : isDesc c.t b kv.2.blk = .yes := by simpa using hy
  have : b ∈ c.t.chain kv.2.blk := (isDesc_yes_iff hb hv).1 hy'
  have : isDesc c.t a kv.2.blk = .yes := (isDesc_yes_iff ha hv).2 (Tree.le_trans hw hab this)
  simpa using this

/-- if `a` has more votes than `b` some vote counts for `a` and not for `b` -/
theorem exists_vote_of_cnt_lt {t : Tree} {votes : List (Nat × Vote)} {a b : Nat}
    (h : cnt t votes b < cnt t votes a) :
    ∃ kv ∈ votes, isDesc t a kv.2.blk = .yes ∧ isDesc t b kv.2.blk ≠ .yes := by
  apply Classical.byContradiction
  intro hn
  have : cnt t votes a ≤ cnt t votes b := by
    unfold cnt
    apply countP_le_of_imp
    intro kv hkv hy
    have hy' : isDesc t a kv.2.blk = .yes := by simpa using hy
    apply Classical.byContradiction
    intro hq
    exact hn ⟨kv, hkv, hy', by simpa using hq⟩
  omega

theorem exists_max {α : Type} (f : α → Nat) : ∀ (l : List α), l ≠ [] → ∃ x ∈ l, ∀ y ∈ l, f y ≤ f x := by
  intro l
  induction l with
  | nil => intro h; exact absurd rfl h
  | cons a rest ih =>
    intro _
    by_cases hr : rest = []
    · subst hr
      exact ⟨a, List.mem_cons_self, fun y hy => by simp at hy; subst hy; exact Nat.le_refl _⟩
    · obtain ⟨x, hx, hmax⟩ := ih hr
      by_cases hax : f x ≤ f a
      · refine ⟨a, List.mem_cons_self, fun y hy => ?_⟩
        rcases List.mem_cons.1 hy with rfl | hy
        · exact Nat.le_refl _
        · exact Nat.le_trans (hmax y hy) hax
      · refine ⟨x, List.mem_cons_of_mem _ hx, fun y hy => ?_⟩
        rcases List.mem_cons.1 hy with rfl | hy
        · omega
        · exact hmax y hy

end Gossamer.C21
