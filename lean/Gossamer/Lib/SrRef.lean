/-
Executable reference for sr25519 (schnorrkel) signature verification as Substrate uses it (C29):

* STROBE-128/1600 restricted to the operations merlin needs (meta-AD, AD, PRF), written from the
  STROBE v1.0.2 specification / merlin's `strobe.rs` over Keccak-f[1600] of Lib/HashRef.lean;
* merlin transcripts (`Transcript::new`, `append_message`, `challenge_bytes`);
* ristretto255 decoding / encoding / equality (RFC 9496) over the edwards25519 arithmetic of
  Lib/SigRef.lean;
* schnorrkel `PublicKey::verify` on a `SigningContext` transcript, the signature format
  (R ‖ s with the schnorrkel marker bit), `verify_simple_preaudit_deprecated`;
* beside the *reference* (rules of the Rust crate that Substrate links) a *model of what
  go-schnorrkel / gossamer do* where the two differ (identity public key, deprecated entry point).

Core Lean only; arithmetic over `Nat`.
-/
import Gossamer.Lib.SigRef
namespace Gossamer.SrRef
open Gossamer Gossamer.HashRef Gossamer.SigRef

/-! ### STROBE-128 (the subset used by merlin) -/

/-- rate in bytes minus the two padding bytes: 1600/8 − 128/4 − 2 -/
def strobeR : Nat := 166

def flagI : UInt8 := 1
def flagA : UInt8 := 2
def flagC : UInt8 := 4
def flagT : UInt8 := 8
def flagM : UInt8 := 16
def flagK : UInt8 := 32

/-- duplex state: 200 state bytes, position in the rate, start of the current operation -/
structure Strobe where
  st : Array UInt8
  pos : Nat
  posBegin : Nat

/-- Keccak-f[1600] on the byte view of the state (lanes little-endian) -/
def permute (st : Array UInt8) : Array UInt8 :=
  let lanes : Array UInt64 := (Array.range 25).map fun i => le64 st (8 * i)
  ((keccakF lanes).toList.flatMap u64le).toArray

def xorAt (st : Array UInt8) (i : Nat) (b : UInt8) : Array UInt8 := st.modify i (· ^^^ b)

/-- pad with (pos_begin, 0x04, …, 0x80) and permute -/
def runF (s : Strobe) : Strobe :=
  let st := xorAt s.st s.pos s.posBegin.toUInt8
  let st := xorAt st (s.pos + 1) 0x04
  let st := xorAt st (strobeR + 1) 0x80
  ⟨permute st, 0, 0⟩

def absorbByte (s : Strobe) (b : UInt8) : Strobe :=
  let s' : Strobe := ⟨xorAt s.st s.pos b, s.pos + 1, s.posBegin⟩
  if s'.pos == strobeR then runF s' else s'

def absorb (s : Strobe) (data : Bytes) : Strobe := data.foldl absorbByte s

/-- one output byte of a PRF: read the state byte, zero it, advance -/
def squeezeByte (s : Strobe) : Strobe × UInt8 :=
  let b := s.st.getD s.pos 0
  let s' : Strobe := ⟨s.st.setIfInBounds s.pos 0, s.pos + 1, s.posBegin⟩
  (if s'.pos == strobeR then runF s' else s', b)

def squeeze : Nat → Strobe → Strobe × Bytes
  | 0, s => (s, [])
  | n + 1, s =>
    let (s1, b) := squeezeByte s
    let (s2, bs) := squeeze n s1
    (s2, b :: bs)

/-- begin_op without the `more` continuation: absorb (old pos_begin, flags); operations with C or K
    start on a fresh block -/
def beginOp (s : Strobe) (flags : UInt8) : Strobe :=
  let old := s.posBegin
  let s1 : Strobe := ⟨s.st, s.pos, s.pos + 1⟩
  let s2 := absorb s1 [old.toUInt8, flags]
  if (flags &&& (flagC ||| flagK)) != 0 && s2.pos != 0 then runF s2 else s2

/-- meta-AD of `data` (label ‖ length go in ONE meta-AD operation: merlin's `more` continuation) -/
def metaAd (s : Strobe) (data : Bytes) : Strobe := absorb (beginOp s (flagM ||| flagA)) data
def ad (s : Strobe) (data : Bytes) : Strobe := absorb (beginOp s flagA) data
def prf (s : Strobe) (n : Nat) : Strobe × Bytes := squeeze n (beginOp s (flagI ||| flagA ||| flagC))

/-- Strobe-128 initial state: F([1, R+2, 1, 0, 1, 96] ‖ "STROBEv1.0.2" ‖ 0…), then meta-AD of the protocol label -/
def strobeInit (proto : Bytes) : Strobe :=
  let hdr : Bytes := [1, (strobeR + 2).toUInt8, 1, 0, 1, 96] ++ "STROBEv1.0.2".toUTF8.toList
  let st0 : Array UInt8 := (hdr ++ List.replicate (200 - hdr.length) 0).toArray
  metaAd ⟨permute st0, 0, 0⟩ proto

/-! ### merlin transcripts -/

def str (s : String) : Bytes := s.toUTF8.toList

def u32le (n : Nat) : Bytes := leBytes 4 n

abbrev Transcript := Strobe

def appendMessage (t : Transcript) (label msg : Bytes) : Transcript :=
  ad (metaAd t (label ++ u32le msg.length)) msg

def challengeBytes (t : Transcript) (label : Bytes) (n : Nat) : Transcript × Bytes :=
  prf (metaAd t (label ++ u32le n)) n

def newTranscript (appLabel : Bytes) : Transcript :=
  appendMessage (strobeInit (str "Merlin v1.0")) (str "dom-sep") appLabel

/-! ### ristretto255 (RFC 9496) -/

def fneg (a : Nat) : Nat := subMod 0 a edP
def fisNeg (a : Nat) : Bool := a % edP % 2 == 1
def fabs (a : Nat) : Nat := if fisNeg a then fneg a else a % edP

/-- SQRT_RATIO_M1(u, v): (was_square, non-negative root of u/v or of i·u/v) -/
def sqrtRatioM1 (u v : Nat) : Bool × Nat :=
  let p := edP
  let u := u % p
  let v := v % p
  let v3 := v * v % p * v % p
  let v7 := v3 * v3 % p * v % p
  let r := u * v3 % p * powMod (u * v7 % p) ((p - 5) / 8) p % p
  let check := v * (r * r % p) % p
  let correct := check == u
  let flipped := check == fneg u
  let flippedI := check == fneg (u * edI % p)
  let r := if flipped || flippedI then r * edI % p else r
  (correct || flipped, fabs r)

/-- 1/sqrt(a − d) for a = −1 -/
def invsqrtAMinusD : Nat := (sqrtRatioM1 1 (subMod (fneg 1) edD edP)).2

/-- DECODE: canonical, non-negative s only; rejects non-squares, negative t, y = 0 -/
def rDecode (b : Bytes) : Option EdPt :=
  if b.length ≠ 32 then none else
  let s := natOfLE b
  if s ≥ edP then none else
  if s % 2 == 1 then none else
  let p := edP
  let ss := s * s % p
  let u1 := subMod 1 ss p
  let u2 := (1 + ss) % p
  let u2s := u2 * u2 % p
  let v := subMod (fneg (edD * (u1 * u1 % p) % p)) u2s p
  let (wasSquare, inv) := sqrtRatioM1 1 (v * u2s % p)
  let dx := inv * u2 % p
  let dy := inv * dx % p * v % p
  let x := fabs (2 * s % p * dx % p)
  let y := u1 * dy % p
  let t := x * y % p
  if !wasSquare || fisNeg t || y == 0 then none else some ⟨x, y, 1, t⟩

/-- ENCODE of an extended-coordinates point -/
def rEncode (q : EdPt) : Bytes :=
  let p := edP
  let u1 := (q.z + q.y) % p * subMod q.z q.y p % p
  let u2 := q.x * q.y % p
  let (_, inv) := sqrtRatioM1 1 (u1 * (u2 * u2 % p) % p)
  let den1 := inv * u1 % p
  let den2 := inv * u2 % p
  let zInv := den1 * den2 % p * q.t % p
  let ix := q.x * edI % p
  let iy := q.y * edI % p
  let ench := den1 * invsqrtAMinusD % p
  let rotate := fisNeg (q.t * zInv % p)
  let x := if rotate then iy else q.x % p
  let y := if rotate then ix else q.y % p
  let denInv := if rotate then ench else den2
  let y := if fisNeg (x * zInv % p) then fneg y else y
  leBytes 32 (fabs (denInv * subMod q.z y p % p))

/-- ristretto equality of two internal representatives: x1·y2 = y1·x2 or y1·y2 = x1·x2 -/
def rEq (a b : EdPt) : Bool :=
  a.x * b.y % edP == a.y * b.x % edP || a.y * b.y % edP == a.x * b.x % edP

/-- s·B − k·A, variable-time double-base multiplication -/
def sBminusKA (s k : Nat) (a : EdPt) : EdPt := edAdd (edMul s edB) (edMul k (edNeg a))

/-- `Scalar::from_bytes_mod_order_wide` -/
def scalarWide (b : Bytes) : Nat := natOfLE b % edL

/-! ### schnorrkel -/

/-- `SigningContext::new(ctx).bytes(msg)` -/
def signingContext (ctx msg : Bytes) : Transcript :=
  appendMessage (appendMessage (newTranscript (str "SigningContext")) [] ctx) (str "sign-bytes") msg

/-- the context Substrate signs under -/
def substrateCtx : Bytes := str "substrate"

/-- schnorrkel 0.1.1 ("pre-audit") transcript: `Transcript::new(ctx)` + `sign-bytes` -/
def legacyTranscript (ctx msg : Bytes) : Transcript :=
  appendMessage (newTranscript ctx) (str "sign-bytes") msg

/-- labels of the Schnorr protocol: (public key, nonce commitment, challenge) -/
structure SigLabels where
  pk : Bytes
  r : Bytes
  c : Bytes

/-- labels since the audit (schnorrkel ≥ 0.8) -/
def auditedLabels : SigLabels := ⟨str "sign:pk", str "sign:R", str "sign:c"⟩
/-- labels of schnorrkel 0.1.1, kept in `verify_simple_preaudit_deprecated` -/
def preauditLabels : SigLabels := ⟨str "pk", str "no", []⟩

/-- the challenge scalar k: proto-name, public key, R are committed, 64 challenge bytes reduced mod ℓ -/
def challengeScalar (t : Transcript) (lb : SigLabels) (pkBytes rBytes : Bytes) : Nat :=
  let t := appendMessage t (str "proto-name") (str "Schnorr-sig")
  let t := appendMessage t lb.pk pkBytes
  let t := appendMessage t lb.r rBytes
  scalarWide (challengeBytes t lb.c 64).2

def markerSet (sig : Bytes) : Bool := (sig.getD 63 0) &&& 0x80 != 0

/-- the scalar half with the marker bit cleared, as a number -/
def sigScalar (sig : Bytes) : Nat := natOfLE (sig.drop 32) % 2 ^ 255

/-- the Schnorr equation on a parsed signature, Rust rule: compress(s·B − k·A) = R byte-wise -/
def equationRef (t : Transcript) (lb : SigLabels) (pk sig : Bytes) (a : EdPt) : Bool :=
  let rB := sig.take 32
  let k := challengeScalar t lb pk rB
  rEncode (sBminusKA (sigScalar sig) k a) == rB

/-- `Signature::from_bytes` ∘ `PublicKey::from_bytes` ∘ `PublicKey::verify` of the Rust crate:
    32-byte canonical ristretto public key, 64-byte signature with the marker bit, canonical s -/
def verifyRef (t : Transcript) (lb : SigLabels) (pk sig : Bytes) : Bool :=
  if pk.length ≠ 32 ∨ sig.length ≠ 64 then false else
  if !markerSet sig then false else
  if sigScalar sig ≥ edL then false else
  match rDecode pk with
  | none => false
  | some a => equationRef t lb pk sig a

/-- sr25519 verification as Substrate performs it (`sr25519::Pair::verify`) -/
def srVerifyRef (pk msg sig : Bytes) : Bool :=
  verifyRef (signingContext substrateCtx msg) auditedLabels pk sig

/-- set the marker bit (`from_bytes_not_distinguished_from_ed25519`) -/
def setMarker (sig : Bytes) : Bytes := sig.take 63 ++ [(sig.getD 63 0) ||| 0x80]

/-- `PublicKey::verify_simple_preaudit_deprecated(b"substrate", msg, sig)`, behind
    `ext_crypto_sr25519_verify_version_1`: a marked, well-formed signature is checked under the
    current protocol only; anything else is re-read with the marker forced and checked under the
    0.1.1 protocol only -/
def srVerifyDeprecatedRef (pk msg sig : Bytes) : Bool :=
  if pk.length ≠ 32 ∨ sig.length ≠ 64 then false else
  if markerSet sig && sigScalar sig < edL then srVerifyRef pk msg sig
  else verifyRef (legacyTranscript substrateCtx msg) preauditLabels pk (setMarker sig)

/-! ### what go-schnorrkel v1.1.0 + lib/crypto/sr25519 do -/

/-- go-schnorrkel `PublicKey.Verify` on a decoded signature: identity public key is an error,
    R is decoded (non-canonical ⇒ error) and compared as a ristretto element -/
def verifyGo (t : Transcript) (pk sig : Bytes) : Bool :=
  if pk.length ≠ 32 ∨ sig.length ≠ 64 then false else
  if !markerSet sig then false else
  match rDecode pk, rDecode (sig.take 32) with
  | some a, some r =>
    if sigScalar sig ≥ edL then false else
    if rEq a edId then false else
    -- the transcript gets the canonical re-encodings, equal to the input bytes once decoding succeeded
    let k := challengeScalar t auditedLabels (rEncode a) (rEncode r)
    rEq (sBminusKA (sigScalar sig) k a) r
  | _, _ => false

/-- `sr25519.VerifySignature` / `PublicKey.Verify` of gossamer -/
def srVerifyGo (pk msg sig : Bytes) : Bool := verifyGo (signingContext substrateCtx msg) pk sig

/-- `PublicKey.VerifyDeprecated` of gossamer: marker forced; current protocol, then a second try on
    `merlin.NewTranscript("substrate")` + sign-bytes with the *current* labels -/
def srVerifyDeprecatedGo (pk msg sig : Bytes) : Bool :=
  if sig.length ≠ 64 then false else
  let sg := setMarker sig
  verifyGo (signingContext substrateCtx msg) pk sg || verifyGo (legacyTranscript substrateCtx msg) pk sg

end Gossamer.SrRef
