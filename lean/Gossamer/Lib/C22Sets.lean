/-
C22 library: executions that span several authority sets.

Votes are signed with a set id, so the votes of different sets are disjoint histories; set `s` has its own
voter set `P.vs s` (weights, its own Byzantine members; a key that is not in `(P.vs s).ids` weighs nothing in
set `s` whatever it sends — a retired authority that keeps voting is outside every budget).  The state of
the whole system is one protocol state per set id; a step is a step of the single-set protocol in one set.

What joins consecutive sets is the HANDOVER block `P.limit s` (the block that enacts the change from set s
to set s+1).  Assumed honest behaviour, beyond the single-set rules (`okVote`, required of PRECOMMITS only):
  cap     a precommit of set s never lies strictly above `limit s` (voters cap their votes at the pending
          change: determinePreCommit → NextGrandpaAuthorityChange in lib/grandpa);
  base    a precommit of set s+1 descends from `limit s`, and is cast only when `limit s` has a supermajority of
          the precommits of some round of set s (a voter enters set s+1 by finalising the handover block).
Prevotes need not obey either rule (lib/grandpa's determinePreVote asks for the pending change on the chain of
its BEST block, so a primary's block on another chain is copied uncapped).
Assumed of the parameters: the handover blocks lie on one chain, `limit s ≤ limit (s+1)`.

Proved (`sets_safe`): blocks finalised by honest voters — in the same set or in different sets — lie on one
chain.  Within one set only that set's 1/3 bound is used; across sets s1 < s2 the bound is used for every set
from s1 to s2.
-/
import Gossamer.Lib.C22Inv
namespace Gossamer.C22
set_option linter.unusedSectionVars false

section
variable {B : Type} [DecidableEq B]

theorem Step.sent_mono {vs : Voters} {O : BlockOrder B} {s t : State B} (h : Step vs O s t) :
    ∀ m, m ∈ s.sent → m ∈ t.sent := by
  intro m hm
  cases h with
  | byzCast _ _ => exact List.mem_cons_of_mem _ hm
  | drop _ => exact hm
  | dup _ _ => exact hm
  | reorder _ _ => exact hm
  | deliver _ _ _ => exact hm
  | prevote _ _ _ _ _ => exact List.mem_cons_of_mem _ hm
  | precommit _ _ _ _ _ _ => exact List.mem_cons_of_mem _ hm
  | advance _ _ _ _ _ => exact hm
  | finalise _ _ _ _ _ => exact hm

structure SetParams (B : Type) where
  vs : Nat → Voters
  limit : Nat → B

abbrev MState (B : Type) := Nat → State B

/-- the rules that tie a vote of set `s` to the handover blocks -/
def okVote (P : SetParams B) (O : BlockOrder B) (σ : MState B) (s : Nat) (b : B) : Prop :=
  (O.le (P.limit s) b = true → O.le b (P.limit s) = true) ∧
  ∀ p, p + 1 = s → O.le (P.limit p) b = true ∧
    ∃ r, hasSuper (P.vs p) O (votesOf (σ p).sent r .precommit) (P.limit p)

inductive MStep (P : SetParams B) (O : BlockOrder B) : MState B → MState B → Prop
  | mk (σ : MState B) (s : Nat) (t : State B) : Step (P.vs s) O (σ s) t →
      (∀ m, m ∈ t.sent → m ∉ (σ s).sent → (P.vs s).honest m.voter → m.stage = .precommit →
        okVote P O σ s m.block) →
      MStep P O σ (upd σ s t)

inductive MReachable (P : SetParams B) (O : BlockOrder B) : MState B → Prop
  | init : MReachable P O (fun _ => State.init)
  | step (σ τ : MState B) : MReachable P O σ → MStep P O σ τ → MReachable P O τ

structure MInv (P : SetParams B) (O : BlockOrder B) (σ : MState B) : Prop where
  inv : ∀ s, Inv (P.vs s) O (σ s)
  ok : ∀ s m, m ∈ (σ s).sent → (P.vs s).honest m.voter → m.stage = .precommit → okVote P O σ s m.block

variable {P : SetParams B} {O : BlockOrder B}

theorem okVote_lift {σ τ : MState B} (hsub : ∀ p m, m ∈ (σ p).sent → m ∈ (τ p).sent) (s : Nat) (b : B)
    (h : okVote P O σ s b) : okVote P O τ s b := by
  refine ⟨h.1, ?_⟩
  intro p hp
  have ⟨h1, r, hr⟩ := h.2 p hp
  exact ⟨h1, r, hasSuper_mono (P.vs p) O (votesOf_sub (hsub p) r .precommit) _ hr⟩

theorem MInv.init : MInv P O (fun _ => (State.init : State B)) where
  inv := fun _ => Inv.init
  ok := fun _ _ h => by simp [State.init] at h

theorem MInv.step {σ τ : MState B} (I : MInv P O σ) (h : MStep P O σ τ) : MInv P O τ := by
  cases h with
  | mk s t hst hguard =>
    have hsub : ∀ p m, m ∈ (σ p).sent → m ∈ (upd σ s t p).sent := by
      intro p m hm
      simp only [upd]
      by_cases hp : p = s
      · rw [if_pos hp]; subst hp; exact hst.sent_mono m hm
      · rw [if_neg hp]; exact hm
    constructor
    · intro s'
      simp only [upd]
      by_cases hs : s' = s
      · rw [if_pos hs]; subst hs; exact (I.inv s').step hst
      · rw [if_neg hs]; exact I.inv s'
    · intro s' m hm hv hst'
      apply okVote_lift hsub
      simp only [upd] at hm
      by_cases hs : s' = s
      · rw [if_pos hs] at hm
        subst hs
        rcases Classical.em (m ∈ (σ s').sent) with hold | hnew
        · exact I.ok s' m hold hv hst'
        · exact hguard m hm hnew hv hst'
      · rw [if_neg hs] at hm
        exact I.ok s' m hm hv hst'

theorem MReachable.minv {σ : MState B} (h : MReachable P O σ) : MInv P O σ := by
  induction h with
  | init => exact MInv.init
  | step σ τ _ hst ih => exact ih.step hst

theorem limit_mono (hlim : ∀ s, O.le (P.limit s) (P.limit (s + 1)) = true) (s : Nat) :
    ∀ d, O.le (P.limit s) (P.limit (s + d)) = true := by
  intro d
  induction d with
  | zero => exact O.refl _
  | succ d ih => exact O.trans _ _ _ ih (hlim (s + d))

/-- if some honest voter of set s1+d+1 has voted, the handover block of set s1 got a supermajority of the
    precommits of some round of set s1 -/
theorem MInv.handover {σ : MState B} (I : MInv P O σ) (s1 : Nat) :
    ∀ d s2, s2 = s1 + d + 1 → (∀ k, s1 < k → k < s2 → (P.vs k).minority) →
      (∃ m, m ∈ (σ s2).sent ∧ (P.vs s2).honest m.voter ∧ m.stage = .precommit) →
      ∃ r, hasSuper (P.vs s1) O (votesOf (σ s1).sent r .precommit) (P.limit s1) := by
  intro d
  induction d with
  | zero =>
    intro s2 hs2 _ ⟨m, hm, hv, hst⟩
    exact ((I.ok s2 m hm hv hst).2 s1 (by omega)).2
  | succ d ih =>
    intro s2 hs2 hmin ⟨m, hm, hv, hst⟩
    have ⟨_, r, hr⟩ := (I.ok s2 m hm hv hst).2 (s1 + d + 1) (by omega)
    have ⟨v, c, hvh, hvc, _⟩ := hasSuper_honest_vote (P.vs (s1 + d + 1)) O _ _
      (hmin (s1 + d + 1) (by omega) (by omega)) ((I.inv (s1 + d + 1)).hist.single r .precommit) hr
    rw [mem_votesOf] at hvc
    exact ih (s1 + d + 1) rfl (fun k h1 h2 => hmin k h1 (by omega)) ⟨_, hvc, hvh, rfl⟩

/-- safety across authority sets -/
theorem MInv.safe {σ : MState B} (I : MInv P O σ)
    (hlim : ∀ s, O.le (P.limit s) (P.limit (s + 1)) = true)
    (s1 s2 r1 r2 : Nat) (b1 b2 : B) (hle : s1 ≤ s2)
    (hmin : ∀ k, s1 ≤ k → k ≤ s2 → (P.vs k).minority)
    (h1 : hasSuper (P.vs s1) O (votesOf (σ s1).sent r1 .precommit) b1)
    (h2 : hasSuper (P.vs s2) O (votesOf (σ s2).sent r2 .precommit) b2) : O.comparable b1 b2 := by
  by_cases heq : s1 = s2
  · subst heq
    exact (I.inv s1).hist.safe (hmin s1 (Nat.le_refl _) (Nat.le_refl _)) r1 r2 b1 b2 h1 h2
  · have hlt : s1 < s2 := by omega
    have hm1 := hmin s1 (Nat.le_refl _) hle
    have hm2 := hmin s2 hle (Nat.le_refl _)
    -- an honest precommit of set s2 above b2
    have ⟨v2, c2, hv2, hvc2, hb2⟩ :=
      hasSuper_honest_vote (P.vs s2) O _ b2 hm2 ((I.inv s2).hist.single r2 .precommit) h2
    rw [mem_votesOf] at hvc2
    -- the handover block of set s1 was finalisable in set s1
    have ⟨r, hr⟩ := I.handover s1 (s2 - s1 - 1) s2 (by omega)
      (fun k h1 h2 => hmin k (by omega) (by omega)) ⟨_, hvc2, hv2, rfl⟩
    -- … so b1 is below it
    have hcmp : O.comparable b1 (P.limit s1) := (I.inv s1).hist.safe hm1 r1 r b1 _ h1 hr
    have hb1 : O.le b1 (P.limit s1) = true := by
      cases hcmp with
      | inl h => exact h
      | inr h =>
        have ⟨v1, c1, hv1, hvc1, hbc1⟩ :=
          hasSuper_honest_vote (P.vs s1) O _ b1 hm1 ((I.inv s1).hist.single r1 .precommit) h1
        rw [mem_votesOf] at hvc1
        have hcap := (I.ok s1 _ hvc1 hv1 rfl).1 (O.trans _ _ _ h hbc1)
        exact O.trans _ _ _ hbc1 hcap
    -- and the precommit of set s2 is above the handover block of set s2-1, hence of set s1
    have hbase := ((I.ok s2 _ hvc2 hv2 rfl).2 (s2 - 1) (by omega)).1
    have hmono := limit_mono hlim s1 (s2 - 1 - s1)
    have hidx : s1 + (s2 - 1 - s1) = s2 - 1 := by omega
    rw [hidx] at hmono
    exact O.chain b1 b2 c2 (O.trans _ _ _ hb1 (O.trans _ _ _ hmono hbase)) hb2

end

end Gossamer.C22
