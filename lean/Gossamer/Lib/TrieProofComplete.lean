/-
C05 completeness: the proof `Generate` builds for present keys verifies — unless two DIFFERENT honest
strings of the state (node encodings, stored values) collide under `H`.  Core Lean only.
-/
import Gossamer.Lib.TrieProofSound
import Gossamer.Lib.TrieLemmas
namespace Gossamer.C05
open Gossamer Gossamer.TrieCodec Gossamer.Bridge

/-! ### sums over the sixteen children -/

theorem le_sum_map (f : Nib → Nat) : ∀ (l : List Nib) (i : Nib), i ∈ l → f i ≤ (l.map f).sum := by
  intro l
  induction l with
  | nil => intro i h; cases h
  | cons a r ih =>
    intro i h
    simp only [List.map_cons, List.sum_cons]
    rcases List.mem_cons.mp h with rfl | h
    · omega
    · have := ih i h; omega

theorem length_flatMap_ge {α : Type} (g : Nib → List α) (l : List Nib) (i : Nib) (h : i ∈ l) :
    (g i).length ≤ (l.flatMap g).length := by
  induction l with
  | nil => cases h
  | cons a r ih =>
    simp only [List.flatMap_cons, List.length_append]
    rcases List.mem_cons.mp h with rfl | h
    · omega
    · have := ih h; omega

/-- an inlined child is shorter than the encoding of its branch -/
theorem enc_child_lt (ver : Ver) (H : Bytes → Bytes) (pk : Nibs) (v : Option Bytes) (cs : Nib → Trie)
    (i : Nib) (hn : (cs i).isNil = false) (hl : (encodeNode ver H (cs i)).length < 32) :
    (encodeNode ver H (cs i)).length < (encodeNode ver H (.branch pk v cs)).length := by
  have hg := length_flatMap_ge (fun j => if (cs j).isNil then []
      else Gossamer.scaleBytes (Gossamer.merkleValue H (encodeNode ver H (cs j))))
    (List.finRange 16) i (List.mem_finRange i)
  simp only [hn, Bool.false_eq_true, if_false] at hg
  have hs : (Gossamer.scaleBytes (Gossamer.merkleValue H (encodeNode ver H (cs i)))).length =
      1 + (encodeNode ver H (cs i)).length := by
    simp only [Gossamer.scaleBytes, Gossamer.merkleValue, hl, if_true, List.length_append, compactNat]
    have : (encodeNode ver H (cs i)).length < 64 := by omega
    simp [this]
  rw [hs] at hg
  simp only [encodeNode, List.length_append]
  omega

/-! ### proper descendants -/

/-- `d` is a proper descendant of the second argument -/
def PDesc (d : Trie) : Trie → Prop
  | .branch _ _ cs => ∃ i, d = cs i ∨ PDesc d (cs i)
  | _ => False

def tsize : Trie → Nat
  | .branch _ _ cs => 1 + ((List.finRange 16).map fun i => tsize (cs i)).sum
  | _ => 1

theorem pdesc_size (d : Trie) : ∀ c : Trie, PDesc d c → tsize d < tsize c := by
  intro c
  induction c with
  | nil => intro h; cases h
  | leaf _ _ => intro h; cases h
  | branch pk v cs ih =>
    intro h
    obtain ⟨i, h⟩ := h
    have hle := le_sum_map (fun j => tsize (cs j)) (List.finRange 16) i (List.mem_finRange i)
    simp only [tsize]
    rcases h with rfl | h
    · omega
    · have := ih i h; omega

theorem pdesc_child {pk : Nibs} {v : Option Bytes} {cs : Nib → Trie} (i : Nib) :
    ∀ T : Trie, PDesc (.branch pk v cs) T → PDesc (cs i) T := by
  intro T
  induction T with
  | nil => intro h; cases h
  | leaf _ _ => intro h; cases h
  | branch pk' v' cs' ih =>
    intro h
    obtain ⟨j, h⟩ := h
    rcases h with h | h
    · refine ⟨j, .inr ?_⟩
      rw [← h]
      exact ⟨i, .inl rfl⟩
    · exact ⟨j, .inr (ih j h)⟩

/-- `t` is `T` or a proper descendant of `T` -/
def Within (t T : Trie) : Prop := t = T ∨ PDesc t T

theorem Within.child {pk : Nibs} {v : Option Bytes} {cs : Nib → Trie} {T : Trie}
    (h : Within (.branch pk v cs) T) (i : Nib) : PDesc (cs i) T := by
  rcases h with rfl | h
  · exact ⟨i, .inl rfl⟩
  · exact pdesc_child i T h

theorem honest_pdesc (ver : Ver) (H : Bytes → Bytes) (d : Trie) (x : Bytes) :
    ∀ c : Trie, PDesc d c → Honest ver H d x → Honest ver H c x := by
  intro c
  induction c with
  | nil => intro h; cases h
  | leaf _ _ => intro h; cases h
  | branch pk v cs ih =>
    intro h hx
    obtain ⟨i, h⟩ := h
    rcases h with rfl | h
    · exact honest_child hx
    · exact honest_child (ih i h hx)

theorem honest_within {ver : Ver} {H : Bytes → Bytes} {t T : Trie} {x : Bytes} (h : Within t T)
    (hx : Honest ver H t x) : Honest ver H T x := by
  rcases h with rfl | h
  · exact hx
  · exact honest_pdesc ver H t x T h hx

theorem wft_pdesc (d : Trie) : ∀ c : Trie, PDesc d c → WFT c → WFT d := by
  intro c
  induction c with
  | nil => intro h; cases h
  | leaf _ _ => intro h; cases h
  | branch pk v cs ih =>
    intro h hw
    obtain ⟨i, h⟩ := h
    rcases h with rfl | h
    · exact hw.2.2 i
    · exact ih i h (hw.2.2 i)

/-! ### the decoded view determines the node -/

/-- no two different strings of the set `S` have the same hash -/
def InjS (H : Bytes → Bytes) (S : Bytes → Prop) : Prop := ∀ x y, S x → S y → H x = H y → x = y

theorem storedValue_inj {ver : Ver} {H : Bytes → Bytes} {S : Bytes → Prop} (hS : InjS H S) {x y : Bytes}
    (hx : S x) (hy : S y) (hf : mustBeHashed ver x = mustBeHashed ver y)
    (h : storedValue ver H x = storedValue ver H y) : x = y := by
  unfold storedValue at h
  rw [← hf] at h
  by_cases hm : mustBeHashed ver x = true
  · simp only [hm, if_true] at h; exact hS x y hx hy h
  · simpa [hm] using h

theorem view_inj (ver : Ver) (H : Bytes → Bytes) (hH : ∀ m, (H m).length = 32) (strict : Bool)
    (S : Bytes → Prop) (hS : InjS H S) :
    ∀ a b : Trie, WFT a → WFT b → (∀ x, Honest ver H a x → S x) → (∀ x, Honest ver H b x → S x) →
      viewT ver H a = viewT ver H b → a = b := by
  intro a
  induction a with
  | nil =>
    intro b _ _ _ _ h
    cases b with
    | nil => rfl
    | leaf pk v => rw [viewT_nil, viewT_leaf] at h; cases h
    | branch pk v cs =>
      exact absurd h.symm (viewT_ne_empty ver H _ rfl)
  | leaf pk v =>
    intro b _ hwb ha hb h
    cases b with
    | nil => rw [viewT_nil, viewT_leaf] at h; cases h
    | branch pk' v' cs' => rw [viewT_leaf, viewT_branch ver H hH pk' v' cs' hwb.2.2] at h; cases h
    | leaf pk' v' =>
      rw [viewT_leaf, viewT_leaf] at h
      simp only [Node.leaf.injEq, Option.some.injEq, nibB_eq_iff] at h
      obtain ⟨rfl, hv, hf⟩ := h
      rw [storedValue_inj hS (ha v (.inr rfl)) (hb v' (.inr rfl)) hf hv]
  | branch pk v cs ih =>
    intro b hwa hwb ha hb h
    cases b with
    | nil => exact absurd h (viewT_ne_empty ver H _ rfl)
    | leaf pk' v' => rw [viewT_leaf, viewT_branch ver H hH pk v cs hwa.2.2] at h; cases h
    | branch pk' v' cs' =>
      rw [viewT_branch ver H hH pk v cs hwa.2.2, viewT_branch ver H hH pk' v' cs' hwb.2.2] at h
      simp only [Node.branch.injEq, nibB_eq_iff] at h
      obtain ⟨rfl, hv, hf, hk⟩ := h
      have hvv : v = v' := by
        cases v with
        | none => cases v' with
          | none => rfl
          | some y => simp at hv
        | some x => cases v' with
          | none => simp at hv
          | some y =>
            simp only [Option.map_some, Option.some.injEq] at hv
            simp only [hashedFlag] at hf
            rw [storedValue_inj hS (ha x (.inr (.inl rfl))) (hb y (.inr (.inl rfl))) hf hv]
      subst hvv
      have hcs : cs = cs' := by
        funext i
        have hi : vkid ver H (cs i) = vkid ver H (cs' i) := by
          have := congrArg (fun l => l.getD i.val Node.empty) hk
          simpa [getD_finRange_map] using this
        have hSa : ∀ x, Honest ver H (cs i) x → S x := fun x hx => ha x (honest_child hx)
        have hSb : ∀ x, Honest ver H (cs' i) x → S x := fun x hx => hb x (honest_child hx)
        cases hna : (cs i).isNil <;> cases hnb : (cs' i).isNil
        · -- both children present
          simp only [vkid, hna, hnb, Bool.false_eq_true, if_false] at hi
          by_cases hla : (encodeNode ver H (cs i)).length < 32 <;>
            by_cases hlb : (encodeNode ver H (cs' i)).length < 32
          · simp only [hla, hlb, if_true] at hi
            exact ih i _ (hwa.2.2 i) (hwb.2.2 i) hSa hSb hi
          · simp only [hla, hlb, if_true, if_false] at hi
            exact absurd hi (viewT_not_stub ver H hH _ hna (hwa.2.2 i) _)
          · simp only [hla, hlb, if_true, if_false] at hi
            exact absurd hi.symm (viewT_not_stub ver H hH _ hnb (hwb.2.2 i) _)
          · simp only [hla, hlb, if_false, Node.stub.injEq] at hi
            have henc := hS _ _ (hSa _ (honest_self ver H _)) (hSb _ (honest_self ver H _)) hi
            have hd := decode_encodeNode ver H hH strict _ (hwa.2.2 i)
            rw [henc, decode_encodeNode ver H hH strict _ (hwb.2.2 i)] at hd
            simp only [Out.ok.injEq] at hd
            exact ih i _ (hwa.2.2 i) (hwb.2.2 i) hSa hSb hd.symm
        · -- present / nil
          exfalso
          simp only [vkid, hna, hnb, Bool.false_eq_true, if_false, if_true] at hi
          split at hi
          · exact viewT_ne_empty ver H _ hna hi
          · cases hi
        · exfalso
          simp only [vkid, hna, hnb, Bool.false_eq_true, if_false, if_true] at hi
          split at hi
          · exact viewT_ne_empty ver H _ hnb hi.symm
          · cases hi
        · rw [eq_nil_of_isNil hna, eq_nil_of_isNil hnb]
      rw [hcs]

/-- a proper descendant never has the encoding of its ancestor -/
theorem enc_ne_of_pdesc (ver : Ver) (H : Bytes → Bytes) (hH : ∀ m, (H m).length = 32)
    (T : Trie) (hw : WFT T) (hS : InjS H (Honest ver H T)) (d : Trie) (hd : PDesc d T) :
    encodeNode ver H d ≠ encodeNode ver H T := by
  intro he
  have hwd := wft_pdesc d T hd hw
  have h1 := decode_encodeNode ver H hH false d hwd
  rw [he, decode_encodeNode ver H hH false T hw] at h1
  simp only [Out.ok.injEq] at h1
  have := view_inj ver H hH false _ hS d T hwd hw (fun x hx => honest_pdesc ver H d x T hd hx)
    (fun x hx => hx) h1.symm
  have hs := pdesc_size d T hd
  rw [this] at hs
  omega

/-! ### the recursion of `loadProof` is no deeper than the number of proof items -/

/-- `loadProof` descends into the child `c`: it is referenced by hash and an item with its
    encoding is among `L` -/
def Follows (ver : Ver) (H : Bytes → Bytes) (L : List Bytes) (c : Trie) : Prop :=
  c.isNil = false ∧ 32 ≤ (encodeNode ver H c).length ∧ encodeNode ver H c ∈ L

/-- fuel `f` suffices to load `t` when the map holds the items `L` -/
def Fits (ver : Ver) (H : Bytes → Bytes) (L : List Bytes) : Nat → Trie → Prop
  | f, .branch _ _ cs => 1 ≤ f ∧ ∀ i, Follows ver H L (cs i) → Fits ver H L (f - 1) (cs i)
  | f, _ => 1 ≤ f

theorem fits_pos {ver : Ver} {H : Bytes → Bytes} {L : List Bytes} {f : Nat} {t : Trie}
    (h : Fits ver H L f t) : 1 ≤ f := by
  cases t with
  | nil => exact h
  | leaf _ _ => exact h
  | branch _ _ _ => exact h.1

theorem fits_mono (ver : Ver) (H : Bytes → Bytes) (L : List Bytes) :
    ∀ (t : Trie) (f g : Nat), f ≤ g → Fits ver H L f t → Fits ver H L g t := by
  intro t
  induction t with
  | nil => intro f g hfg h; simp only [Fits] at h ⊢; omega
  | leaf _ _ => intro f g hfg h; simp only [Fits] at h ⊢; omega
  | branch pk v cs ih =>
    intro f g hfg h
    exact ⟨by have := h.1; omega, fun i hi => ih i (f - 1) (g - 1) (by omega) (h.2 i hi)⟩

theorem fits_filter (ver : Ver) (H : Bytes → Bytes) (L : List Bytes) (e : Bytes) :
    ∀ (c : Trie) (f : Nat), (∀ d, PDesc d c → encodeNode ver H d ≠ e) →
      Fits ver H (L.filter (fun x => !(x == e))) f c → Fits ver H L f c := by
  intro c
  induction c with
  | nil => intro f _ h; exact h
  | leaf _ _ => intro f _ h; exact h
  | branch pk v cs ih =>
    intro f hd h
    refine ⟨h.1, fun i hi => ?_⟩
    have hne : encodeNode ver H (cs i) ≠ e := hd _ ⟨i, .inl rfl⟩
    have hi' : Follows ver H (L.filter (fun x => !(x == e))) (cs i) := by
      refine ⟨hi.1, hi.2.1, ?_⟩
      simp only [List.mem_filter, Bool.not_eq_eq_eq_not, Bool.not_true, beq_eq_false_iff_ne]
      exact ⟨hi.2.2, hne⟩
    exact ih i (f - 1) (fun d hdd => hd d ⟨i, .inr hdd⟩) (h.2 i hi')

theorem length_filter_ne_lt (L : List Bytes) (e : Bytes) (h : e ∈ L) :
    (L.filter (fun x => !(x == e))).length < L.length := by
  induction L with
  | nil => cases h
  | cons a r ih =>
    simp only [List.filter_cons]
    by_cases hae : a = e
    · subst hae
      simp only [beq_self_eq_true, Bool.not_true, Bool.false_eq_true, if_false, List.length_cons]
      have := List.length_filter_le (fun x => !(x == a)) r
      omega
    · have hb : (!(a == e)) = true := by simp [hae]
      simp only [hb, if_true, List.length_cons]
      rcases List.mem_cons.mp h with rfl | h
      · exact absurd rfl hae
      · have := ih h; omega

theorem fits_len (ver : Ver) (H : Bytes → Bytes) (hH : ∀ m, (H m).length = 32) :
    ∀ (n : Nat) (L : List Bytes) (t : Trie), L.length ≤ n → WFT t → InjS H (Honest ver H t) →
      Fits ver H L (L.length + 1) t := by
  intro n
  induction n with
  | zero =>
    intro L t hL _ _
    have : L = [] := List.eq_nil_of_length_eq_zero (by omega)
    subst this
    cases t with
    | nil => simp [Fits]
    | leaf _ _ => simp [Fits]
    | branch pk v cs => exact ⟨by simp, fun i hi => absurd hi.2.2 (by simp)⟩
  | succ n ih =>
    intro L t hL hw hS
    cases t with
    | nil => simp [Fits]
    | leaf _ _ => simp [Fits]
    | branch pk v cs =>
      refine ⟨by omega, fun i hi => ?_⟩
      have hlt := length_filter_ne_lt L _ hi.2.2
      have hSi : InjS H (Honest ver H (cs i)) :=
        fun x y hx hy hxy => hS x y (honest_child hx) (honest_child hy) hxy
      have h1 := ih (L.filter (fun x => !(x == encodeNode ver H (cs i)))) (cs i) (by omega) (hw.2.2 i) hSi
      have h2 := fits_mono ver H _ (cs i) _ (L.length + 1 - 1) (by omega) h1
      exact fits_filter ver H L _ (cs i) _
        (fun d hd => enc_ne_of_pdesc ver H hH (cs i) (hw.2.2 i) hSi d hd) h2

/-! ### `loadProof` succeeds on honest items -/

theorem mapGet_mem {m : Pairs} {d e : Bytes} (h : mapGet m d = some e) : (d, e) ∈ m := by
  unfold mapGet at h
  cases hf : m.reverse.find? (fun p => p.1 == d) with
  | none => simp [hf] at h
  | some p =>
    simp only [hf, Option.map_some, Option.some.injEq] at h
    have hmem : p ∈ m := by simpa using List.mem_of_find?_eq_some hf
    have hd : p.1 = d := by simpa using List.find?_some hf
    subst h; rw [← hd]; exact hmem

theorem loadKids_ok (strict : Bool) (m : Pairs) (rec : Node → Except VOut Node) :
    ∀ kids : List Node,
      (∀ c ∈ kids, ∀ mv, c = .stub mv → ∀ enc, mapGet m mv = some enc →
        ∃ n c', decode strict enc = .ok n ∧ n ≠ .empty ∧ rec n = .ok c') →
      ∃ kids', loadKids strict m rec kids = .ok kids' := by
  intro kids
  induction kids with
  | nil => intro _; exact ⟨[], rfl⟩
  | cons c cs ih =>
    intro h
    obtain ⟨cs', hcs⟩ := ih (fun c hc => h c (List.mem_cons_of_mem _ hc))
    unfold loadKids
    cases c with
    | empty => simp only [hcs]; exact ⟨_, rfl⟩
    | leaf _ _ _ => simp only [hcs]; exact ⟨_, rfl⟩
    | branch _ _ _ _ => simp only [hcs]; exact ⟨_, rfl⟩
    | stub mv =>
      simp only
      cases hg : mapGet m mv with
      | none => simp only [hcs]; exact ⟨_, rfl⟩
      | some enc =>
        obtain ⟨n, c', hd, hne, hr⟩ := h _ (List.mem_cons_self ..) mv rfl enc hg
        simp only [hd]
        cases n with
        | empty => exact absurd rfl hne
        | stub _ => simp only [hr, hcs]; exact ⟨_, rfl⟩
        | leaf _ _ _ => simp only [hr, hcs]; exact ⟨_, rfl⟩
        | branch _ _ _ _ => simp only [hr, hcs]; exact ⟨_, rfl⟩

theorem loadKids_nostub (strict : Bool) (m : Pairs) (rec : Node → Except VOut Node) :
    ∀ kids : List Node, (∀ c ∈ kids, ∀ mv, c ≠ .stub mv) → loadKids strict m rec kids = .ok kids := by
  intro kids
  induction kids with
  | nil => intro _; rfl
  | cons c cs ih =>
    intro h
    have hcs := ih (fun c hc => h c (List.mem_cons_of_mem _ hc))
    unfold loadKids
    cases c with
    | stub mv => exact absurd rfl (h _ (List.mem_cons_self ..) mv)
    | empty => simp only [hcs]
    | leaf _ _ _ => simp only [hcs]
    | branch _ _ _ _ => simp only [hcs]

/-- the items of the map -/
def mapItems (m : Pairs) : List Bytes := m.map (·.2)

theorem load_ok (ver : Ver) (H : Bytes → Bytes) (hH : ∀ m, (H m).length = 32) (strict : Bool)
    (T : Trie) (hS : InjS H (Honest ver H T)) (m : Pairs) (hm : MapOK H (Honest ver H T) m) :
    ∀ (t : Trie) (f : Nat), WFT t → Within t T → Fits ver H (mapItems m) f t →
      ∃ P, loadF strict m f (viewT ver H t) = .ok P := by
  intro t
  induction t with
  | nil =>
    intro f _ _ hf
    obtain ⟨f', rfl⟩ : ∃ f', f = f' + 1 := ⟨f - 1, by have := fits_pos hf; omega⟩
    exact ⟨.empty, by simp [viewT_nil, loadF]⟩
  | leaf pk v =>
    intro f _ _ hf
    obtain ⟨f', rfl⟩ : ∃ f', f = f' + 1 := ⟨f - 1, by have := fits_pos hf; omega⟩
    exact ⟨viewT ver H (.leaf pk v), by simp [viewT_leaf, loadF]⟩
  | branch pk v cs ih =>
    intro f hw hin hf
    obtain ⟨f', rfl⟩ : ∃ f', f = f' + 1 := ⟨f - 1, by have := fits_pos hf; omega⟩
    rw [viewT_branch ver H hH pk v cs hw.2.2]
    simp only [loadF]
    have hk : ∃ kids', loadKids strict m (loadF strict m f')
        ((List.finRange 16).map fun i => vkid ver H (cs i)) = .ok kids' := by
      apply loadKids_ok
      intro c hc mv hcm enc hg
      simp only [List.mem_map, List.mem_finRange, true_and] at hc
      obtain ⟨i, rfl⟩ := hc
      -- the slot is a stub: the child exists and is referenced by hash
      unfold vkid at hcm
      split at hcm
      · cases hcm
      · rename_i hnil
        have hnil' : (cs i).isNil = false := by simpa using hnil
        split at hcm
        · exact absurd hcm (viewT_not_stub ver H hH _ hnil' (hw.2.2 i) mv)
        · rename_i hlen
          simp only [Node.stub.injEq] at hcm
          subst hcm
          have hge := mapGet_some hm hg
          have hchild : Honest ver H T (encodeNode ver H (cs i)) :=
            honest_pdesc ver H _ _ T (hin.child i) (honest_self ver H _)
          have henc : enc = encodeNode ver H (cs i) := hS _ _ hge.2 hchild hge.1
          have hfol : Follows ver H (mapItems m) (cs i) := by
            refine ⟨hnil', by omega, ?_⟩
            rw [← henc]
            have := mapGet_mem hg
            simp only [mapItems, List.mem_map]
            exact ⟨_, this, rfl⟩
          obtain ⟨P, hP⟩ := ih i f' (hw.2.2 i) (.inr (hin.child i)) (by simpa using hf.2 i hfol)
          exact ⟨_, P, by rw [henc]; exact decode_encodeNode ver H hH strict _ (hw.2.2 i),
            viewT_ne_empty ver H _ hnil', hP⟩
    obtain ⟨kids', hk⟩ := hk
    simp only [hk]
    exact ⟨_, rfl⟩

/-! ### inlined subtrees are kept as decoded -/

theorem vkid_not_stub_of_short (ver : Ver) (H : Bytes → Bytes) (hH : ∀ m, (H m).length = 32)
    (pk : Nibs) (v : Option Bytes) (cs : Nib → Trie) (hw : ∀ i, WFT (cs i))
    (hl : (encodeNode ver H (.branch pk v cs)).length < 32) (i : Nib) :
    ∀ mv, vkid ver H (cs i) ≠ .stub mv := by
  intro mv
  unfold vkid
  split
  · intro h; cases h
  · rename_i hnil
    have hnil' : (cs i).isNil = false := by simpa using hnil
    split
    · exact viewT_not_stub ver H hH _ hnil' (hw i) mv
    · rename_i hlen
      exfalso
      -- a child referenced by hash takes 33 bytes of the branch encoding
      have hg := length_flatMap_ge (fun j => if (cs j).isNil then []
          else Gossamer.scaleBytes (Gossamer.merkleValue H (encodeNode ver H (cs j))))
        (List.finRange 16) i (List.mem_finRange i)
      simp only [hnil', Bool.false_eq_true, if_false] at hg
      have hs : (Gossamer.scaleBytes (Gossamer.merkleValue H (encodeNode ver H (cs i)))).length = 33 := by
        simp only [Gossamer.scaleBytes, Gossamer.merkleValue, hlen, if_false, List.length_append, hH, compactNat]
        simp
      rw [hs] at hg
      simp only [encodeNode, List.length_append] at hl
      omega

theorem load_inline (ver : Ver) (H : Bytes → Bytes) (hH : ∀ m, (H m).length = 32) (strict : Bool)
    (m : Pairs) (t : Trie) (hw : WFT t) (hl : (encodeNode ver H t).length < 32) :
    loadF strict m 1 (viewT ver H t) = .ok (viewT ver H t) := by
  cases t with
  | nil => simp [viewT_nil, loadF]
  | leaf pk v => simp [viewT_leaf, loadF]
  | branch pk v cs =>
    rw [viewT_branch ver H hH pk v cs hw.2.2]
    simp only [loadF]
    rw [loadKids_nostub]
    · simp [rebuild]
    · intro c hc mv
      simp only [List.mem_map, List.mem_finRange, true_and] at hc
      obtain ⟨i, rfl⟩ := hc
      exact vkid_not_stub_of_short ver H hH pk v cs hw.2.2 hl i mv

end Gossamer.C05
