/-
C05 completeness: the proof `Generate` builds for present keys verifies — unless two DIFFERENT honest
strings of the state (node encodings, stored values) collide under `H`.  Core Lean only.
-/
import Gossamer.Lib.TrieProofSound
import Gossamer.Lib.TrieLemmas
import Gossamer.Lib.TrieBytes
namespace Gossamer.C05
open Gossamer Gossamer.TrieCodec Gossamer.Bridge

/-! ### sums over the sixteen children -/

theorem le_sum_map (f : Nib → Nat) : ∀ (l : List Nib) (i : Nib), i ∈ l → f i ≤ (l.map f).sum := by
  intro l
  induction l with
  | nil => intro i h; cases h
  | cons a r ih =>
    intro i h
    simp only [List.map_cons, List.sum_cons]
    rcases List.mem_cons.mp h with rfl | h
    · omega
    · have := ih i h; omega

theorem length_flatMap_ge {α : Type} (g : Nib → List α) (l : List Nib) (i : Nib) (h : i ∈ l) :
    (g i).length ≤ (l.flatMap g).length := by
  induction l with
  | nil => cases h
  | cons a r ih =>
    simp only [List.flatMap_cons, List.length_append]
    rcases List.mem_cons.mp h with rfl | h
    · omega
    · have := ih h; omega

/-- an inlined child is shorter than the encoding of its branch -/
theorem enc_child_lt (ver : Ver) (H : Bytes → Bytes) (pk : Nibs) (v : Option Bytes) (cs : Nib → Trie)
    (i : Nib) (hn : (cs i).isNil = false) (hl : (encodeNode ver H (cs i)).length < 32) :
    (encodeNode ver H (cs i)).length < (encodeNode ver H (.branch pk v cs)).length := by
  have hg := length_flatMap_ge (fun j => if (cs j).isNil then []
      else Gossamer.scaleBytes (Gossamer.merkleValue H (encodeNode ver H (cs j))))
    (List.finRange 16) i (List.mem_finRange i)
  simp only [hn, Bool.false_eq_true, if_false] at hg
  have hs : (Gossamer.scaleBytes (Gossamer.merkleValue H (encodeNode ver H (cs i)))).length =
      1 + (encodeNode ver H (cs i)).length := by
    simp only [Gossamer.scaleBytes, Gossamer.merkleValue, hl, if_true, List.length_append, compactNat]
    have : (encodeNode ver H (cs i)).length < 64 := by omega
    simp [this]
  rw [hs] at hg
  simp only [encodeNode, List.length_append]
  omega

/-! ### proper descendants -/

/-- `d` is a proper descendant of the second argument -/
def PDesc (d : Trie) : Trie → Prop
  | .branch _ _ cs => ∃ i, d = cs i ∨ PDesc d (cs i)
  | _ => False

def tsize : Trie → Nat
  | .branch _ _ cs => 1 + ((List.finRange 16).map fun i => tsize (cs i)).sum
  | _ => 1

theorem pdesc_size (d : Trie) : ∀ c : Trie, PDesc d c → tsize d < tsize c := by
  intro c
  induction c with
  | nil => intro h; cases h
  | leaf _ _ => intro h; cases h
  | branch pk v cs ih =>
    intro h
    obtain ⟨i, h⟩ := h
    have hle := le_sum_map (fun j => tsize (cs j)) (List.finRange 16) i (List.mem_finRange i)
    simp only [tsize]
    rcases h with rfl | h
    · omega
    · have := ih i h; omega

theorem pdesc_child {pk : Nibs} {v : Option Bytes} {cs : Nib → Trie} (i : Nib) :
    ∀ T : Trie, PDesc (.branch pk v cs) T → PDesc (cs i) T := by
  intro T
  induction T with
  | nil => intro h; cases h
  | leaf _ _ => intro h; cases h
  | branch pk' v' cs' ih =>
    intro h
    obtain ⟨j, h⟩ := h
    rcases h with h | h
    · refine ⟨j, .inr ?_⟩
      rw [← h]
      exact ⟨i, .inl rfl⟩
    · exact ⟨j, .inr (ih j h)⟩

/-- `t` is `T` or a proper descendant of `T` -/
def Within (t T : Trie) : Prop := t = T ∨ PDesc t T

theorem Within.child {pk : Nibs} {v : Option Bytes} {cs : Nib → Trie} {T : Trie}
    (h : Within (.branch pk v cs) T) (i : Nib) : PDesc (cs i) T := by
  rcases h with rfl | h
  · exact ⟨i, .inl rfl⟩
  · exact pdesc_child i T h

theorem honest_pdesc (ver : Ver) (H : Bytes → Bytes) (d : Trie) (x : Bytes) :
    ∀ c : Trie, PDesc d c → Honest ver H d x → Honest ver H c x := by
  intro c
  induction c with
  | nil => intro h; cases h
  | leaf _ _ => intro h; cases h
  | branch pk v cs ih =>
    intro h hx
    obtain ⟨i, h⟩ := h
    rcases h with rfl | h
    · exact honest_child hx
    · exact honest_child (ih i h hx)

theorem honest_within {ver : Ver} {H : Bytes → Bytes} {t T : Trie} {x : Bytes} (h : Within t T)
    (hx : Honest ver H t x) : Honest ver H T x := by
  rcases h with rfl | h
  · exact hx
  · exact honest_pdesc ver H t x T h hx

theorem wft_pdesc (d : Trie) : ∀ c : Trie, PDesc d c → WFT c → WFT d := by
  intro c
  induction c with
  | nil => intro h; cases h
  | leaf _ _ => intro h; cases h
  | branch pk v cs ih =>
    intro h hw
    obtain ⟨i, h⟩ := h
    rcases h with rfl | h
    · exact hw.2.2 i
    · exact ih i h (hw.2.2 i)

/-! ### the decoded view determines the node -/

/-- no two different strings of the set `S` have the same hash -/
def InjS (H : Bytes → Bytes) (S : Bytes → Prop) : Prop := ∀ x y, S x → S y → H x = H y → x = y

theorem storedValue_inj {ver : Ver} {H : Bytes → Bytes} {S : Bytes → Prop} (hS : InjS H S) {x y : Bytes}
    (hx : S x) (hy : S y) (hf : mustBeHashed ver x = mustBeHashed ver y)
    (h : storedValue ver H x = storedValue ver H y) : x = y := by
  unfold storedValue at h
  rw [← hf] at h
  by_cases hm : mustBeHashed ver x = true
  · simp only [hm, if_true] at h; exact hS x y hx hy h
  · simpa [hm] using h

theorem view_inj (ver : Ver) (H : Bytes → Bytes) (hH : ∀ m, (H m).length = 32) (strict : Bool)
    (S : Bytes → Prop) (hS : InjS H S) :
    ∀ a b : Trie, WFT a → WFT b → (∀ x, Honest ver H a x → S x) → (∀ x, Honest ver H b x → S x) →
      viewT ver H a = viewT ver H b → a = b := by
  intro a
  induction a with
  | nil =>
    intro b _ _ _ _ h
    cases b with
    | nil => rfl
    | leaf pk v => rw [viewT_nil, viewT_leaf] at h; cases h
    | branch pk v cs =>
      exact absurd h.symm (viewT_ne_empty ver H _ rfl)
  | leaf pk v =>
    intro b _ hwb ha hb h
    cases b with
    | nil => rw [viewT_nil, viewT_leaf] at h; cases h
    | branch pk' v' cs' => rw [viewT_leaf, viewT_branch ver H hH pk' v' cs' hwb.2.2] at h; cases h
    | leaf pk' v' =>
      rw [viewT_leaf, viewT_leaf] at h
      simp only [Node.leaf.injEq, Option.some.injEq, nibB_eq_iff] at h
      obtain ⟨rfl, hv, hf⟩ := h
      rw [storedValue_inj hS (ha v (.inr rfl)) (hb v' (.inr rfl)) hf hv]
  | branch pk v cs ih =>
    intro b hwa hwb ha hb h
    cases b with
    | nil => exact absurd h (viewT_ne_empty ver H _ rfl)
    | leaf pk' v' => rw [viewT_leaf, viewT_branch ver H hH pk v cs hwa.2.2] at h; cases h
    | branch pk' v' cs' =>
      rw [viewT_branch ver H hH pk v cs hwa.2.2, viewT_branch ver H hH pk' v' cs' hwb.2.2] at h
      simp only [Node.branch.injEq, nibB_eq_iff] at h
      obtain ⟨rfl, hv, hf, hk⟩ := h
      have hvv : v = v' := by
        cases v with
        | none => cases v' with
          | none => rfl
          | some y => simp at hv
        | some x => cases v' with
          | none => simp at hv
          | some y =>
            simp only [Option.map_some, Option.some.injEq] at hv
            simp only [hashedFlag] at hf
            rw [storedValue_inj hS (ha x (.inr (.inl rfl))) (hb y (.inr (.inl rfl))) hf hv]
      subst hvv
      have hcs : cs = cs' := by
        funext i
        have hi : vkid ver H (cs i) = vkid ver H (cs' i) := by
          have := congrArg (fun l => l.getD i.val Node.empty) hk
          simpa [getD_finRange_map] using this
        have hSa : ∀ x, Honest ver H (cs i) x → S x := fun x hx => ha x (honest_child hx)
        have hSb : ∀ x, Honest ver H (cs' i) x → S x := fun x hx => hb x (honest_child hx)
        cases hna : (cs i).isNil <;> cases hnb : (cs' i).isNil
        · -- both children present
          simp only [vkid, hna, hnb, Bool.false_eq_true, if_false] at hi
          by_cases hla : (encodeNode ver H (cs i)).length < 32 <;>
            by_cases hlb : (encodeNode ver H (cs' i)).length < 32
          · simp only [hla, hlb, if_true] at hi
            exact ih i _ (hwa.2.2 i) (hwb.2.2 i) hSa hSb hi
          · simp only [hla, hlb, if_true, if_false] at hi
            exact absurd hi (viewT_not_stub ver H hH _ hna (hwa.2.2 i) _)
          · simp only [hla, hlb, if_true, if_false] at hi
            exact absurd hi.symm (viewT_not_stub ver H hH _ hnb (hwb.2.2 i) _)
          · simp only [hla, hlb, if_false, Node.stub.injEq] at hi
            have henc := hS _ _ (hSa _ (honest_self ver H _)) (hSb _ (honest_self ver H _)) hi
            have hd := decode_encodeNode ver H hH strict _ (hwa.2.2 i)
            rw [henc, decode_encodeNode ver H hH strict _ (hwb.2.2 i)] at hd
            simp only [Out.ok.injEq] at hd
            exact ih i _ (hwa.2.2 i) (hwb.2.2 i) hSa hSb hd.symm
        · -- present / nil
          exfalso
          simp only [vkid, hna, hnb, Bool.false_eq_true, if_false, if_true] at hi
          split at hi
          · exact viewT_ne_empty ver H _ hna hi
          · cases hi
        · exfalso
          simp only [vkid, hna, hnb, Bool.false_eq_true, if_false, if_true] at hi
          split at hi
          · exact viewT_ne_empty ver H _ hnb hi.symm
          · cases hi
        · rw [eq_nil_of_isNil hna, eq_nil_of_isNil hnb]
      rw [hcs]

/-- a proper descendant never has the encoding of its ancestor -/
theorem enc_ne_of_pdesc (ver : Ver) (H : Bytes → Bytes) (hH : ∀ m, (H m).length = 32)
    (T : Trie) (hw : WFT T) (hS : InjS H (Honest ver H T)) (d : Trie) (hd : PDesc d T) :
    encodeNode ver H d ≠ encodeNode ver H T := by
  intro he
  have hwd := wft_pdesc d T hd hw
  have h1 := decode_encodeNode ver H hH false d hwd
  rw [he, decode_encodeNode ver H hH false T hw] at h1
  simp only [Out.ok.injEq] at h1
  have := view_inj ver H hH false _ hS d T hwd hw (fun x hx => honest_pdesc ver H d x T hd hx)
    (fun x hx => hx) h1.symm
  have hs := pdesc_size d T hd
  rw [this] at hs
  omega

/-! ### the recursion of `loadProof` is no deeper than the number of proof items -/

/-- `loadProof` descends into the child `c`: it is referenced by hash and an item with its
    encoding is among `L` -/
def Follows (ver : Ver) (H : Bytes → Bytes) (L : List Bytes) (c : Trie) : Prop :=
  c.isNil = false ∧ 32 ≤ (encodeNode ver H c).length ∧ encodeNode ver H c ∈ L

/-- fuel `f` suffices to load `t` when the map holds the items `L` -/
def Fits (ver : Ver) (H : Bytes → Bytes) (L : List Bytes) : Nat → Trie → Prop
  | f, .branch _ _ cs => 1 ≤ f ∧ ∀ i, Follows ver H L (cs i) → Fits ver H L (f - 1) (cs i)
  | f, _ => 1 ≤ f

theorem fits_pos {ver : Ver} {H : Bytes → Bytes} {L : List Bytes} {f : Nat} {t : Trie}
    (h : Fits ver H L f t) : 1 ≤ f := by
  cases t with
  | nil => exact h
  | leaf _ _ => exact h
  | branch _ _ _ => exact h.1

theorem fits_mono (ver : Ver) (H : Bytes → Bytes) (L : List Bytes) :
    ∀ (t : Trie) (f g : Nat), f ≤ g → Fits ver H L f t → Fits ver H L g t := by
  intro t
  induction t with
  | nil => intro f g hfg h; simp only [Fits] at h ⊢; omega
  | leaf _ _ => intro f g hfg h; simp only [Fits] at h ⊢; omega
  | branch pk v cs ih =>
    intro f g hfg h
    exact ⟨by have := h.1; omega, fun i hi => ih i (f - 1) (g - 1) (by omega) (h.2 i hi)⟩

theorem fits_filter (ver : Ver) (H : Bytes → Bytes) (L : List Bytes) (e : Bytes) :
    ∀ (c : Trie) (f : Nat), (∀ d, PDesc d c → encodeNode ver H d ≠ e) →
      Fits ver H (L.filter (fun x => !(x == e))) f c → Fits ver H L f c := by
  intro c
  induction c with
  | nil => intro f _ h; exact h
  | leaf _ _ => intro f _ h; exact h
  | branch pk v cs ih =>
    intro f hd h
    refine ⟨h.1, fun i hi => ?_⟩
    have hne : encodeNode ver H (cs i) ≠ e := hd _ ⟨i, .inl rfl⟩
    have hi' : Follows ver H (L.filter (fun x => !(x == e))) (cs i) := by
      refine ⟨hi.1, hi.2.1, ?_⟩
      simp only [List.mem_filter, Bool.not_eq_eq_eq_not, Bool.not_true, beq_eq_false_iff_ne]
      exact ⟨hi.2.2, hne⟩
    exact ih i (f - 1) (fun d hdd => hd d ⟨i, .inr hdd⟩) (h.2 i hi')

theorem length_filter_ne_lt (L : List Bytes) (e : Bytes) (h : e ∈ L) :
    (L.filter (fun x => !(x == e))).length < L.length := by
  induction L with
  | nil => cases h
  | cons a r ih =>
    simp only [List.filter_cons]
    by_cases hae : a = e
    · subst hae
      simp only [beq_self_eq_true, Bool.not_true, Bool.false_eq_true, if_false, List.length_cons]
      have := List.length_filter_le (fun x => !(x == a)) r
      omega
    · have hb : (!(a == e)) = true := by simp [hae]
      simp only [hb, if_true, List.length_cons]
      rcases List.mem_cons.mp h with rfl | h
      · exact absurd rfl hae
      · have := ih h; omega

theorem fits_len (ver : Ver) (H : Bytes → Bytes) (hH : ∀ m, (H m).length = 32) :
    ∀ (n : Nat) (L : List Bytes) (t : Trie), L.length ≤ n → WFT t → InjS H (Honest ver H t) →
      Fits ver H L (L.length + 1) t := by
  intro n
  induction n with
  | zero =>
    intro L t hL _ _
    have : L = [] := List.eq_nil_of_length_eq_zero (by omega)
    subst this
    cases t with
    | nil => simp [Fits]
    | leaf _ _ => simp [Fits]
    | branch pk v cs => exact ⟨by simp, fun i hi => absurd hi.2.2 (by simp)⟩
  | succ n ih =>
    intro L t hL hw hS
    cases t with
    | nil => simp [Fits]
    | leaf _ _ => simp [Fits]
    | branch pk v cs =>
      refine ⟨by omega, fun i hi => ?_⟩
      have hlt := length_filter_ne_lt L _ hi.2.2
      have hSi : InjS H (Honest ver H (cs i)) :=
        fun x y hx hy hxy => hS x y (honest_child hx) (honest_child hy) hxy
      have h1 := ih (L.filter (fun x => !(x == encodeNode ver H (cs i)))) (cs i) (by omega) (hw.2.2 i) hSi
      have h2 := fits_mono ver H _ (cs i) _ (L.length + 1 - 1) (by omega) h1
      exact fits_filter ver H L _ (cs i) _
        (fun d hd => enc_ne_of_pdesc ver H hH (cs i) (hw.2.2 i) hSi d hd) h2

/-! ### `loadProof` succeeds on honest items -/

theorem mapGet_mem {m : Pairs} {d e : Bytes} (h : mapGet m d = some e) : (d, e) ∈ m := by
  unfold mapGet at h
  cases hf : m.reverse.find? (fun p => p.1 == d) with
  | none => simp [hf] at h
  | some p =>
    simp only [hf, Option.map_some, Option.some.injEq] at h
    have hmem : p ∈ m := by simpa using List.mem_of_find?_eq_some hf
    have hd : p.1 = d := by simpa using List.find?_some hf
    subst h; rw [← hd]; exact hmem

theorem loadKids_ok (strict : Bool) (m : Pairs) (rec : Node → Except VOut Node) :
    ∀ kids : List Node,
      (∀ c ∈ kids, ∀ mv, c = .stub mv → ∀ enc, mapGet m mv = some enc →
        ∃ n c', decode strict enc = .ok n ∧ n ≠ .empty ∧ rec n = .ok c') →
      ∃ kids', loadKids strict m rec kids = .ok kids' := by
  intro kids
  induction kids with
  | nil => intro _; exact ⟨[], rfl⟩
  | cons c cs ih =>
    intro h
    obtain ⟨cs', hcs⟩ := ih (fun c hc => h c (List.mem_cons_of_mem _ hc))
    unfold loadKids
    cases c with
    | empty => simp only [hcs]; exact ⟨_, rfl⟩
    | leaf _ _ _ => simp only [hcs]; exact ⟨_, rfl⟩
    | branch _ _ _ _ => simp only [hcs]; exact ⟨_, rfl⟩
    | stub mv =>
      simp only
      cases hg : mapGet m mv with
      | none => simp only [hcs]; exact ⟨_, rfl⟩
      | some enc =>
        obtain ⟨n, c', hd, hne, hr⟩ := h _ (List.mem_cons_self ..) mv rfl enc hg
        simp only [hd]
        cases n with
        | empty => exact absurd rfl hne
        | stub _ => simp only [hr, hcs]; exact ⟨_, rfl⟩
        | leaf _ _ _ => simp only [hr, hcs]; exact ⟨_, rfl⟩
        | branch _ _ _ _ => simp only [hr, hcs]; exact ⟨_, rfl⟩

theorem loadKids_nostub (strict : Bool) (m : Pairs) (rec : Node → Except VOut Node) :
    ∀ kids : List Node, (∀ c ∈ kids, ∀ mv, c ≠ .stub mv) → loadKids strict m rec kids = .ok kids := by
  intro kids
  induction kids with
  | nil => intro _; rfl
  | cons c cs ih =>
    intro h
    have hcs := ih (fun c hc => h c (List.mem_cons_of_mem _ hc))
    unfold loadKids
    cases c with
    | stub mv => exact absurd rfl (h _ (List.mem_cons_self ..) mv)
    | empty => simp only [hcs]
    | leaf _ _ _ => simp only [hcs]
    | branch _ _ _ _ => simp only [hcs]

/-- the items of the map -/
def mapItems (m : Pairs) : List Bytes := m.map (·.2)

theorem load_ok (ver : Ver) (H : Bytes → Bytes) (hH : ∀ m, (H m).length = 32) (strict : Bool)
    (T : Trie) (hS : InjS H (Honest ver H T)) (m : Pairs) (hm : MapOK H (Honest ver H T) m) :
    ∀ (t : Trie) (f : Nat), WFT t → Within t T → Fits ver H (mapItems m) f t →
      ∃ P, loadF strict m f (viewT ver H t) = .ok P := by
  intro t
  induction t with
  | nil =>
    intro f _ _ hf
    obtain ⟨f', rfl⟩ : ∃ f', f = f' + 1 := ⟨f - 1, by have := fits_pos hf; omega⟩
    exact ⟨.empty, by simp [viewT_nil, loadF]⟩
  | leaf pk v =>
    intro f _ _ hf
    obtain ⟨f', rfl⟩ : ∃ f', f = f' + 1 := ⟨f - 1, by have := fits_pos hf; omega⟩
    exact ⟨viewT ver H (.leaf pk v), by simp [viewT_leaf, loadF]⟩
  | branch pk v cs ih =>
    intro f hw hin hf
    obtain ⟨f', rfl⟩ : ∃ f', f = f' + 1 := ⟨f - 1, by have := fits_pos hf; omega⟩
    rw [viewT_branch ver H hH pk v cs hw.2.2]
    simp only [loadF]
    have hk : ∃ kids', loadKids strict m (loadF strict m f')
        ((List.finRange 16).map fun i => vkid ver H (cs i)) = .ok kids' := by
      apply loadKids_ok
      intro c hc mv hcm enc hg
      simp only [List.mem_map, List.mem_finRange, true_and] at hc
      obtain ⟨i, rfl⟩ := hc
      -- the slot is a stub: the child exists and is referenced by hash
      unfold vkid at hcm
      split at hcm
      · cases hcm
      · rename_i hnil
        have hnil' : (cs i).isNil = false := by simpa using hnil
        split at hcm
        · exact absurd hcm (viewT_not_stub ver H hH _ hnil' (hw.2.2 i) mv)
        · rename_i hlen
          simp only [Node.stub.injEq] at hcm
          subst hcm
          have hge := mapGet_some hm hg
          have hchild : Honest ver H T (encodeNode ver H (cs i)) :=
            honest_pdesc ver H _ _ T (hin.child i) (honest_self ver H _)
          have henc : enc = encodeNode ver H (cs i) := hS _ _ hge.2 hchild hge.1
          have hfol : Follows ver H (mapItems m) (cs i) := by
            refine ⟨hnil', by omega, ?_⟩
            rw [← henc]
            have := mapGet_mem hg
            simp only [mapItems, List.mem_map]
            exact ⟨_, this, rfl⟩
          obtain ⟨P, hP⟩ := ih i f' (hw.2.2 i) (.inr (hin.child i)) (by simpa using hf.2 i hfol)
          exact ⟨_, P, by rw [henc]; exact decode_encodeNode ver H hH strict _ (hw.2.2 i),
            viewT_ne_empty ver H _ hnil', hP⟩
    obtain ⟨kids', hk⟩ := hk
    simp only [hk]
    exact ⟨_, rfl⟩

/-! ### inlined subtrees are kept as decoded -/

theorem vkid_not_stub_of_short (ver : Ver) (H : Bytes → Bytes) (hH : ∀ m, (H m).length = 32)
    (pk : Nibs) (v : Option Bytes) (cs : Nib → Trie) (hw : ∀ i, WFT (cs i))
    (hl : (encodeNode ver H (.branch pk v cs)).length < 32) (i : Nib) :
    ∀ mv, vkid ver H (cs i) ≠ .stub mv := by
  intro mv
  unfold vkid
  split
  · intro h; cases h
  · rename_i hnil
    have hnil' : (cs i).isNil = false := by simpa using hnil
    split
    · exact viewT_not_stub ver H hH _ hnil' (hw i) mv
    · rename_i hlen
      exfalso
      -- a child referenced by hash takes 33 bytes of the branch encoding
      have hg := length_flatMap_ge (fun j => if (cs j).isNil then []
          else Gossamer.scaleBytes (Gossamer.merkleValue H (encodeNode ver H (cs j))))
        (List.finRange 16) i (List.mem_finRange i)
      simp only [hnil', Bool.false_eq_true, if_false] at hg
      have hs : (Gossamer.scaleBytes (Gossamer.merkleValue H (encodeNode ver H (cs i)))).length = 33 := by
        simp only [Gossamer.scaleBytes, Gossamer.merkleValue, hlen, if_false, List.length_append, hH, compactNat]
        simp
      rw [hs] at hg
      simp only [encodeNode, List.length_append] at hl
      omega

theorem load_inline (ver : Ver) (H : Bytes → Bytes) (hH : ∀ m, (H m).length = 32) (strict : Bool)
    (m : Pairs) (t : Trie) (hw : WFT t) (hl : (encodeNode ver H t).length < 32) :
    loadF strict m 1 (viewT ver H t) = .ok (viewT ver H t) := by
  cases t with
  | nil => simp [viewT_nil, loadF]
  | leaf pk v => simp [viewT_leaf, loadF]
  | branch pk v cs =>
    rw [viewT_branch ver H hH pk v cs hw.2.2]
    simp only [loadF]
    rw [loadKids_nostub]
    · simp [rebuild]
    · intro c hc mv
      simp only [List.mem_map, List.mem_finRange, true_and] at hc
      obtain ⟨i, rfl⟩ := hc
      exact vkid_not_stub_of_short ver H hH pk v cs hw.2.2 hl i mv

/-! ### reading the key from the rebuilt trie -/

theorem lookup_branch_some {pk : Nibs} {v : Option Bytes} {cs : Nib → Trie} {kn : Nibs} {x : Bytes}
    (h : Trie.lookup (.branch pk v cs) kn = some x) :
    (kn = pk ∧ v = some x) ∨ ∃ i rest, kn = pk ++ i :: rest ∧ Trie.lookup (cs i) rest = some x := by
  simp only [Trie.lookup] at h
  split at h
  · rename_i hk; exact .inl ⟨hk, h⟩
  · split at h
    · rename_i hne hp
      obtain ⟨r, rfl⟩ := isPrefixOf_iff.mp hp
      simp only [List.drop_left'] at h
      cases r with
      | nil => simp at h
      | cons i rest =>
        simp only [drop_length_append] at h
        exact .inr ⟨i, rest, rfl, h⟩
    · cases h

theorem allEmpty_false_of_getD : ∀ (kids : List Node) (i : Nat),
    (kids.getD i .empty).isEmpty = false → allEmpty kids = false := by
  intro kids
  induction kids with
  | nil => intro i h; simp [Node.isEmpty] at h
  | cons c cs ih =>
    intro i h
    cases i with
    | zero =>
      simp only [List.getD_cons_zero] at h
      simp [allEmpty, h]
    | succ i =>
      simp only [List.getD_cons_succ] at h
      simp [allEmpty, ih i h]

/-- the value of a node readable through the proof database: `leafValue` returns it -/
theorem leafValue_complete {ver : Ver} {H : Bytes → Bytes} {db : Pairs} {x : Bytes}
    (h : mustBeHashed ver x = true → mapGet db (H x) = some x) :
    leafValue db ((some x).map (storedValue ver H)) (hashedFlag ver (some x)) = some x := by
  simp only [Option.map_some, hashedFlag, leafValue, storedValue]
  by_cases hm : mustBeHashed ver x = true
  · simp [hm, h hm]
  · have hm' : mustBeHashed ver x = false := by simpa using hm
    simp [hm']

theorem mem_valueNode {ver : Ver} {x : Bytes} (h : mustBeHashed ver x = true) :
    x ∈ valueNode ver (some x) := by
  simp [valueNode, h]

/-- `walk` lists the node itself when its encoding is not inlined -/
theorem walk_self (ver : Ver) (H : Bytes → Bytes) (c : Trie) (k : Nibs) (d : List Bytes)
    (hn : c.isNil = false) (hl : 32 ≤ (encodeNode ver H c).length)
    (h : walk ver H false c k = some d) : encodeNode ver H c ∈ d := by
  have hge : decide ((encodeNode ver H c).length ≥ 32) = true := by simpa using hl
  cases c with
  | nil => simp [Trie.isNil] at hn
  | leaf pk v =>
    simp only [walk, Bool.false_or, hge, if_true] at h
    split at h
    · simp only [Option.some.injEq] at h; subst h; simp
    · cases h
  | branch pk v cs =>
    simp only [walk, Bool.false_or, hge, if_true] at h
    split at h
    · simp only [Option.some.injEq] at h; subst h; simp
    · split at h
      · cases h
      · split at h
        · split at h
          · simp only [Option.some.injEq] at h; subst h; simp
          · cases h
        · cases h

theorem path_get (ver : Ver) (H : Bytes → Bytes) (hH : ∀ m, (H m).length = 32) (strict : Bool)
    (T : Trie) (hwT : WFT T) (hS : InjS H (Honest ver H T)) (m db : Pairs) :
    ∀ (t : Trie) (kn : Nibs) (isRoot : Bool) (ns : List Bytes) (x : Bytes) (f : Nat) (P : Node),
      WFT t → Within t T → walk ver H isRoot t kn = some ns → Trie.lookup t kn = some x →
      (∀ e ∈ ns, mapGet db (H e) = some e) →
      (∀ e ∈ ns, e ≠ encodeNode ver H T → mapGet m (H e) = some e) →
      loadF strict m f (viewT ver H t) = .ok P → pget db P (nibB kn) = some x := by
  intro t
  induction t with
  | nil => intro kn isRoot ns x f P _ _ _ hl; simp at hl
  | leaf pk v =>
    intro kn isRoot ns x f P _ _ hwalk hl hdb _ hload
    simp only [Trie.lookup_leaf] at hl
    split at hl
    · rename_i hk
      simp only [Option.some.injEq] at hl
      subst hk; subst hl
      cases f with
      | zero => simp [loadF] at hload
      | succ f =>
        simp only [viewT_leaf, loadF, Except.ok.injEq] at hload
        subst hload
        simp only [walk, beq_self_eq_true, Bool.or_true, if_true, Option.some.injEq] at hwalk
        simp only [pget, if_true]
        have := leafValue_complete (ver := ver) (H := H) (db := db) (x := v) (fun hm =>
          hdb v (by rw [← hwalk]; exact List.mem_append_right _ (mem_valueNode hm)))
        simpa [hashedFlag] using this
    · cases hl
  | branch pk v cs ih =>
    intro kn isRoot ns x f P hw hin hwalk hl hdb hmm hload
    cases f with
    | zero => simp [loadF] at hload
    | succ f =>
      rw [viewT_branch ver H hH pk v cs hw.2.2] at hload
      simp only [loadF] at hload
      cases hk : loadKids strict m (loadF strict m f) ((List.finRange 16).map fun i => vkid ver H (cs i)) with
      | error e => simp [hk] at hload
      | ok kids' =>
        simp only [hk, Except.ok.injEq] at hload
        rcases lookup_branch_some hl with ⟨rfl, hv⟩ | ⟨i, rest, rfl, hchild⟩
        · -- the key ends at this branch
          subst hv
          simp only [walk, beq_self_eq_true, Bool.or_true, if_true, Option.some.injEq] at hwalk
          have hval := leafValue_complete (ver := ver) (H := H) (db := db) (x := x) (fun hm =>
            hdb x (by rw [← hwalk]; exact List.mem_append_right _ (mem_valueNode hm)))
          rw [← hload]
          unfold rebuild
          split
          · simp only [pget, if_true]; exact hval
          · simp only [pget, beq_self_eq_true, Bool.or_true, if_true]; exact hval
        · -- the key continues in child `i`
          have hne : (pk ++ i :: rest).length ≠ 0 := by simp
          have hkp : ((pk : Nibs) == pk ++ i :: rest) = false := by
            simpa using (append_cons_ne_self pk i rest).symm
          have hlen : (pk ++ i :: rest).length > pk.length := by simp
          simp only [walk, hne, hkp, decide_false, Bool.or_self, Bool.false_eq_true, if_false, hlen,
            decide_true, Bool.not_true, Trie.lcpLen_prefix, drop_length_append] at hwalk
          cases hd : walk ver H false (cs i) rest with
          | none => simp [hd] at hwalk
          | some deeper =>
            simp only [hd, Option.some.injEq] at hwalk
            have hsub : ∀ e ∈ deeper, e ∈ ns := fun e he => by
              rw [← hwalk]; exact List.mem_append_right _ he
            have hnil : (cs i).isNil = false := by
              cases hc : cs i with
              | nil => rw [hc] at hchild; simp at hchild
              | leaf _ _ => rfl
              | branch _ _ _ => rfl
            -- the rebuilt child answers the rest of the key
            have hstep := loadKids_spec strict m (loadF strict m f) _ _ hk i.val
            rw [getD_finRange_map] at hstep
            have hkid : pget db (kids'.getD i.val .empty) (nibB rest) = some x := by
              by_cases hshort : (encodeNode ver H (cs i)).length < 32
              · -- inlined: kept as decoded
                have hvk : vkid ver H (cs i) = viewT ver H (cs i) := by simp [vkid, hnil, hshort]
                rw [hvk] at hstep
                rw [kidStep_nonstub (viewT_not_stub ver H hH _ hnil (hw.2.2 i)) hstep]
                exact ih i rest false deeper x 1 _ (hw.2.2 i) (.inr (hin.child i)) hd hchild
                  (fun e he => hdb e (hsub e he)) (fun e he hne => hmm e (hsub e he) hne)
                  (load_inline ver H hH strict m _ (hw.2.2 i) hshort)
              · -- referenced by hash: its encoding is an item of the proof
                have hvk : vkid ver H (cs i) = .stub (H (encodeNode ver H (cs i))) := by
                  simp [vkid, hnil, hshort]
                rw [hvk] at hstep
                simp only [KidStep] at hstep
                have hself := walk_self ver H (cs i) rest deeper hnil (by omega) hd
                have hget := hmm _ (hsub _ hself)
                  (enc_ne_of_pdesc ver H hH T hwT hS _ (hin.child i))
                rcases hstep with ⟨hnone, _⟩ | ⟨enc, n, hg, hdec, _, hrec⟩
                · rw [hget] at hnone; cases hnone
                · rw [hget] at hg
                  simp only [Option.some.injEq] at hg
                  subst hg
                  rw [decode_encodeNode ver H hH strict _ (hw.2.2 i)] at hdec
                  simp only [Out.ok.injEq] at hdec
                  subst hdec
                  exact ih i rest false deeper x f _ (hw.2.2 i) (.inr (hin.child i)) hd hchild
                    (fun e he => hdb e (hsub e he)) (fun e he hne => hmm e (hsub e he) hne) hrec
            -- so the branch kept a child and stays a branch
            have hnotempty : (kids'.getD i.val .empty).isEmpty = false := by
              cases hc : kids'.getD i.val .empty with
              | empty => rw [hc] at hkid; simp [pget] at hkid
              | stub _ => rfl
              | leaf _ _ _ => rfl
              | branch _ _ _ _ => rfl
            rw [← hload]
            unfold rebuild
            rw [allEmpty_false_of_getD kids' i.val hnotempty]
            simp only [Bool.false_and, Bool.false_eq_true, if_false, pget, nibB_length]
            have e2 : (nibB pk == nibB (pk ++ i :: rest)) = false := by
              rw [Bool.eq_false_iff]; intro h
              have := nibB_inj (by simpa using h)
              exact append_cons_ne_self pk i rest this.symm
            simp only [hne, e2, decide_false, Bool.or_self, Bool.false_eq_true, if_false, nibB_isPrefixOf,
              isPrefixOf_append_self, Bool.not_true, nibB_drop, drop_length_append, nibB_cons,
              pgetKid_eq, nb_toNat]
            exact hkid

/-! ### the items `Generate` returns -/

theorem walk_honest (ver : Ver) (H : Bytes → Bytes) :
    ∀ (t : Trie) (isRoot : Bool) (kn : Nibs) (ns : List Bytes), walk ver H isRoot t kn = some ns →
      ∀ e ∈ ns, Honest ver H t e := by
  intro t
  induction t with
  | nil =>
    intro isRoot kn ns h e he
    simp only [walk] at h
    split at h
    · simp only [Option.some.injEq] at h; subst h; cases he
    · cases h
  | leaf pk v =>
    intro isRoot kn ns h e he
    simp only [walk] at h
    split at h
    · simp only [Option.some.injEq] at h; subst h
      rcases List.mem_append.mp he with he | he
      · split at he
        · simp only [List.mem_singleton] at he; exact .inl he
        · cases he
      · simp only [valueNode] at he
        split at he
        · simp only [List.mem_singleton] at he; exact .inr he
        · cases he
    · cases h
  | branch pk v cs ih =>
    intro isRoot kn ns h e he
    have hme : ∀ x ∈ (if isRoot || decide ((encodeNode ver H (.branch pk v cs)).length ≥ 32)
        then [encodeNode ver H (.branch pk v cs)] else []), Honest ver H (.branch pk v cs) x := by
      intro x hx
      split at hx
      · simp only [List.mem_singleton] at hx; exact .inl hx
      · cases hx
    simp only [walk] at h
    split at h
    · simp only [Option.some.injEq] at h; subst h
      rcases List.mem_append.mp he with he | he
      · exact hme e he
      · cases v with
        | none => simp [valueNode] at he
        | some x =>
          simp only [valueNode] at he
          split at he
          · simp only [List.mem_singleton] at he; exact .inr (.inl (by rw [he]))
          · cases he
    · split at h
      · cases h
      · split at h
        · rename_i i rest _
          cases hd : walk ver H false (cs i) rest with
          | none => simp [hd] at h
          | some deeper =>
            simp only [hd, Option.some.injEq] at h; subst h
            rcases List.mem_append.mp he with he | he
            · exact hme e he
            · exact honest_child (ih i false rest deeper hd e he)
        · cases h

theorem walk_root_self (ver : Ver) (H : Bytes → Bytes) (t : Trie) (kn : Nibs) (ns : List Bytes)
    (hn : t.isNil = false) (h : walk ver H true t kn = some ns) : encodeNode ver H t ∈ ns := by
  cases t with
  | nil => simp [Trie.isNil] at hn
  | leaf pk v =>
    simp only [walk, Bool.true_or, if_true] at h
    split at h
    · simp only [Option.some.injEq] at h; subst h; simp
    · cases h
  | branch pk v cs =>
    simp only [walk, Bool.true_or, if_true] at h
    split at h
    · simp only [Option.some.injEq] at h; subst h; simp
    · split at h
      · cases h
      · split at h
        · split at h
          · simp only [Option.some.injEq] at h; subst h; simp
          · cases h
        · cases h

/-- the Merkle value identifies an honest string -/
theorem mv_inj {H : Bytes → Bytes} (hH : ∀ m, (H m).length = 32) {S : Bytes → Prop} (hS : InjS H S)
    {a b : Bytes} (ha : S a) (hb : S b) (h : Gossamer.merkleValue H a = Gossamer.merkleValue H b) : a = b := by
  unfold Gossamer.merkleValue at h
  by_cases hla : a.length < 32 <;> by_cases hlb : b.length < 32
  · simpa [hla, hlb] using h
  · simp only [hla, hlb, if_true, if_false] at h
    have := hH b; rw [← h] at this; omega
  · simp only [hla, hlb, if_true, if_false] at h
    have := hH a; rw [h] at this; omega
  · simp only [hla, hlb, if_false] at h
    exact hS a b ha hb h

/-- invariant of the deduplication state: `seen` holds exactly the Merkle values of `out` -/
def DInv (H : Bytes → Bytes) (st : List Bytes × List Bytes) : Prop :=
  ∀ x ∈ st.1, ∃ e ∈ st.2, Gossamer.merkleValue H e = x

theorem dedup_spec (H : Bytes → Bytes) : ∀ (ns : List Bytes) (st : List Bytes × List Bytes),
    (∀ e ∈ st.2, e ∈ (dedupInto H st ns).2) ∧
    (∀ x ∈ st.1, x ∈ (dedupInto H st ns).1) ∧
    (∀ e ∈ ns, Gossamer.merkleValue H e ∈ (dedupInto H st ns).1) ∧
    (DInv H st → DInv H (dedupInto H st ns)) ∧
    (∀ e ∈ (dedupInto H st ns).2, e ∈ st.2 ∨ e ∈ ns) := by
  intro ns
  induction ns with
  | nil =>
    intro st
    obtain ⟨seen, out⟩ := st
    simp [dedupInto]
  | cons a r ih =>
    intro st
    obtain ⟨seen, out⟩ := st
    simp only [dedupInto]
    split
    · rename_i hc
      obtain ⟨h1, h2, h3, h4, h5⟩ := ih (seen, out)
      refine ⟨h1, h2, ?_, h4, ?_⟩
      · intro e he
        rcases List.mem_cons.mp he with rfl | he
        · exact h2 _ (by simpa using hc)
        · exact h3 e he
      · intro e he
        rcases h5 e he with h | h
        · exact .inl h
        · exact .inr (List.mem_cons_of_mem _ h)
    · obtain ⟨h1, h2, h3, h4, h5⟩ := ih (Gossamer.merkleValue H a :: seen, out ++ [a])
      refine ⟨fun e he => h1 e (by simp [he]), fun x hx => h2 x (by simp [hx]), ?_, ?_, ?_⟩
      · intro e he
        rcases List.mem_cons.mp he with rfl | he
        · exact h2 _ (by simp)
        · exact h3 e he
      · intro hinv
        apply h4
        intro x hx
        rcases List.mem_cons.mp hx with rfl | hx
        · exact ⟨a, by simp, rfl⟩
        · obtain ⟨e, he, hex⟩ := hinv x hx
          exact ⟨e, by simp [he], hex⟩
      · intro e he
        rcases h5 e he with h | h
        · rcases List.mem_append.mp h with h | h
          · exact .inl h
          · simp only [List.mem_singleton] at h; exact .inr (by simp [h])
        · exact .inr (List.mem_cons_of_mem _ h)

theorem generateFrom_spec (ver : Ver) (H : Bytes → Bytes) (t : Trie) :
    ∀ (ks : List Bytes) (st : List Bytes × List Bytes) (N : List Bytes),
      generateFrom ver H t st ks = some N → DInv H st →
      (∀ e ∈ st.2, e ∈ N) ∧
      (∀ x ∈ st.1, ∃ e ∈ N, Gossamer.merkleValue H e = x) ∧
      (∀ k ∈ ks, ∃ ns, walk ver H true t (Trie.keyLEToNibbles k) = some ns ∧
        ∀ e ∈ ns, ∃ e' ∈ N, Gossamer.merkleValue H e' = Gossamer.merkleValue H e) ∧
      (∀ e ∈ N, e ∈ st.2 ∨ ∃ k ∈ ks, ∃ ns, walk ver H true t (Trie.keyLEToNibbles k) = some ns ∧ e ∈ ns) := by
  intro ks
  induction ks with
  | nil =>
    intro st N h hinv
    simp only [generateFrom, Option.some.injEq] at h
    subst h
    exact ⟨fun e he => he, hinv, fun k hk => (by cases hk), fun e he => .inl he⟩
  | cons k ks ih =>
    intro st N h hinv
    simp only [generateFrom] at h
    cases hw : walk ver H true t (Trie.keyLEToNibbles k) with
    | none => simp [hw] at h
    | some ns =>
      simp only [hw] at h
      obtain ⟨d1, d2, d3, d4, d5⟩ := dedup_spec H ns st
      obtain ⟨g1, g2, g3, g4⟩ := ih _ N h (d4 hinv)
      refine ⟨fun e he => g1 e (d1 e he), fun x hx => g2 x (d2 x hx), ?_, ?_⟩
      · intro k' hk'
        rcases List.mem_cons.mp hk' with rfl | hk'
        · exact ⟨ns, hw, fun e he => g2 _ (d3 e he)⟩
        · exact g3 k' hk'
      · intro e he
        rcases g4 e he with h | ⟨k', hk', ns', hw', he'⟩
        · rcases d5 e h with h | h
          · exact .inl h
          · exact .inr ⟨k, by simp, ns, hw, h⟩
        · exact .inr ⟨k', List.mem_cons_of_mem _ hk', ns', hw', he'⟩

/-- every item of a generated proof is an honest string of the state; for each requested key the
    items of its walk are all there -/
theorem generate_spec (ver : Ver) (H : Bytes → Bytes) (hH : ∀ m, (H m).length = 32) (t : Trie)
    (hS : InjS H (Honest ver H t)) (ks : List Bytes) (N : List Bytes)
    (h : generate ver H t ks = some N) :
    (∀ e ∈ N, Honest ver H t e) ∧
    (∀ k ∈ ks, ∃ ns, walk ver H true t (Trie.keyLEToNibbles k) = some ns ∧ ∀ e ∈ ns, e ∈ N) := by
  obtain ⟨_, _, g3, g4⟩ := generateFrom_spec ver H t ks ([], []) N h (by intro x hx; cases hx)
  have hhon : ∀ e ∈ N, Honest ver H t e := by
    intro e he
    rcases g4 e he with h | ⟨k, _, ns, hw, hens⟩
    · cases h
    · exact walk_honest ver H t true _ ns hw e hens
  refine ⟨hhon, fun k hk => ?_⟩
  obtain ⟨ns, hw, hall⟩ := g3 k hk
  refine ⟨ns, hw, fun e he => ?_⟩
  obtain ⟨e', he', hmv⟩ := hall e he
  have := mv_inj hH hS (hhon e' he') (walk_honest ver H t true _ ns hw e he) hmv
  rw [← this]; exact he'

/-! ### the root of an honest proof -/

theorem scan_complete (strict : Bool) (root : Bytes) (n : Node) (hn : n ≠ .empty) :
    ∀ (ps acc : Pairs), (∃ p ∈ ps, p.1 = root) →
      (∀ p ∈ ps, p.1 = root → decode strict p.2 = .ok n) →
      ∃ m, scan strict root ps acc = .found n m ∧
        (∀ q ∈ acc, q ∈ m) ∧ (∀ q ∈ ps, q.1 ≠ root → q ∈ m) ∧ (∀ q ∈ m, q ∈ acc ∨ q ∈ ps) ∧
        m.length + 1 = acc.length + ps.length := by
  intro ps
  induction ps with
  | nil => intro acc h _; obtain ⟨p, hp, _⟩ := h; cases hp
  | cons p rest ih =>
    intro acc hex hdec
    simp only [scan]
    by_cases hp : p.1 = root
    · have hb : (p.1 == root) = true := by simpa using hp
      simp only [hb, if_true, hdec p (by simp) hp]
      have hfound : (match n with
          | .empty => Scan.emptyTrie
          | n => Scan.found n (acc.reverse ++ rest)) = Scan.found n (acc.reverse ++ rest) := by
        cases n with
        | empty => exact absurd rfl hn
        | stub _ => rfl
        | leaf _ _ _ => rfl
        | branch _ _ _ _ => rfl
      refine ⟨acc.reverse ++ rest, ?_, ?_, ?_, ?_, ?_⟩
      · cases n with
        | empty => exact absurd rfl hn
        | stub _ => rfl
        | leaf _ _ _ => rfl
        | branch _ _ _ _ => rfl
      · intro q hq; simp [hq]
      · intro q hq hne
        rcases List.mem_cons.mp hq with rfl | hq
        · exact absurd hp hne
        · simp [hq]
      · intro q hq
        simp only [List.mem_append, List.mem_reverse] at hq
        rcases hq with hq | hq
        · exact .inl hq
        · exact .inr (by simp [hq])
      · simp; omega
    · have hb : (p.1 == root) = false := by simpa using hp
      simp only [hb, Bool.false_eq_true, if_false]
      have hex' : ∃ q ∈ rest, q.1 = root := by
        obtain ⟨q, hq, hqr⟩ := hex
        rcases List.mem_cons.mp hq with rfl | hq
        · exact absurd hqr hp
        · exact ⟨q, hq, hqr⟩
      obtain ⟨m, h1, h2, h3, h4, h5⟩ := ih (p :: acc) hex' (fun q hq => hdec q (by simp [hq]))
      refine ⟨m, h1, fun q hq => h2 q (by simp [hq]), ?_, ?_, ?_⟩
      · intro q hq hne
        rcases List.mem_cons.mp hq with rfl | hq
        · exact h2 _ (by simp)
        · exact h3 q hq hne
      · intro q hq
        rcases h4 q hq with h | h
        · rcases List.mem_cons.mp h with rfl | h
          · exact .inr (by simp)
          · exact .inl h
        · exact .inr (by simp [h])
      · simp only [List.length_cons] at h5 ⊢; omega

/-- looking an honest item up by its hash returns that item -/
theorem mapGet_avail {H : Bytes → Bytes} {S : Bytes → Prop} (hS : InjS H S) {m : Pairs}
    (hm : MapOK H S m) {e : Bytes} (he : S e) (hmem : (H e, e) ∈ m) : mapGet m (H e) = some e := by
  have hs := mapGet_isSome_of_mem hmem
  cases hg : mapGet m (H e) with
  | none => rw [hg] at hs; cases hs
  | some e' =>
    have := mapGet_some hm hg
    rw [hS e' e this.2 he this.1]

/-! ### completeness of `Verify` on the proof `Generate` returns, under an injective hash -/

theorem verify_complete_inj (ver : Ver) (H : Bytes → Bytes) (hH : ∀ m, (H m).length = 32)
    (strict : Bool) (T : Trie) (hw : WFT T) (hS : InjS H (Honest ver H T))
    (ks : List Bytes) (N : List Bytes) (hgen : generate ver H T ks = some N)
    (k v : Bytes) (hk : k ∈ ks) (hlook : Trie.lookup T (toNibs k) = some v) :
    verify H strict N (hashTrie ver H T) k v = .ok := by
  obtain ⟨hhon, hwalks⟩ := generate_spec ver H hH T hS ks N hgen
  obtain ⟨ns, hwalk, hns⟩ := hwalks k hk
  rw [Gossamer.keyLEToNibbles_eq] at hwalk
  have hnil : T.isNil = false := by
    cases T with
    | nil => simp at hlook
    | leaf _ _ => rfl
    | branch _ _ _ => rfl
  have hrootN : encodeNode ver H T ∈ N := hns _ (walk_root_self ver H T _ ns hnil hwalk)
  -- the digest/encoding pairs
  have hpairs : MapOK H (Honest ver H T) (pairsOf H N) := by
    intro p hp
    simp only [pairsOf, List.mem_map] at hp
    obtain ⟨e, he, rfl⟩ := hp
    exact ⟨rfl, hhon e he⟩
  have hmemp : ∀ e ∈ N, (H e, e) ∈ pairsOf H N := fun e he => by
    simp only [pairsOf, List.mem_map]; exact ⟨e, he, rfl⟩
  -- the root is found
  have hscan := scan_complete strict (hashTrie ver H T) (viewT ver H T) (viewT_ne_empty ver H T hnil)
    (pairsOf H N) [] ⟨_, hmemp _ hrootN, rfl⟩ (by
      intro p hp hpr
      have hp2 := hpairs p hp
      have : p.2 = encodeNode ver H T :=
        hS _ _ hp2.2 (honest_self ver H T) (by rw [← hp2.1, hpr]; rfl)
      rw [this]
      exact decode_encodeNode ver H hH strict T hw)
  obtain ⟨m, hsc, _, hin, hsub, hlen⟩ := hscan
  have hm : MapOK H (Honest ver H T) m := by
    intro q hq
    rcases hsub q hq with h | h
    · cases h
    · exact hpairs q h
  -- every item other than the root is still in the map
  have hinm : ∀ e ∈ N, e ≠ encodeNode ver H T → (H e, e) ∈ m := by
    intro e he hne
    apply hin _ (hmemp e he)
    intro hroot
    exact hne (hS _ _ (hhon e he) (honest_self ver H T) hroot)
  -- loading succeeds
  have hfits : Fits ver H (mapItems m) ((pairsOf H N).length + 1) T := by
    have h1 := fits_len ver H hH (mapItems m).length (mapItems m) T (Nat.le_refl _) hw hS
    refine fits_mono ver H _ T _ _ ?_ h1
    simp only [mapItems, List.length_map, List.length_nil, Nat.zero_add] at hlen ⊢
    omega
  obtain ⟨P, hload⟩ := load_ok ver H hH strict T hS m hm T _ hw (.inl rfl) hfits
  -- the key is read from the rebuilt trie
  have hget := path_get ver H hH strict T hw hS m (pairsOf H N) T (toNibs k) true ns v _ P hw (.inl rfl)
    hwalk hlook
    (fun e he => mapGet_avail hS hpairs (hhon e (hns e he)) (hmemp e (hns e he)))
    (fun e he hne => mapGet_avail hS hm (hhon e (hns e he)) (hinm e (hns e he) hne))
    hload
  unfold verify verifyP
  have hne : (pairsOf H N).isEmpty = false := by
    cases hN : N with
    | nil => rw [hN] at hrootN; cases hrootN
    | cons _ _ => simp [pairsOf]
  rw [hne]
  simp only [Bool.false_eq_true, if_false, hsc, hload, Bridge.keyLEToNibbles_eq, hget]
  simp

/-! ### `Generate` succeeds on present keys -/

theorem walk_present (ver : Ver) (H : Bytes → Bytes) :
    ∀ (t : Trie) (isRoot : Bool) (kn : Nibs) (x : Bytes), Trie.lookup t kn = some x →
      ∃ ns, walk ver H isRoot t kn = some ns := by
  intro t
  induction t with
  | nil => intro _ kn x h; simp at h
  | leaf pk v =>
    intro isRoot kn x h
    simp only [Trie.lookup_leaf] at h
    split at h
    · rename_i hk; subst hk
      simp only [walk, beq_self_eq_true, Bool.or_true, if_true]
      exact ⟨_, rfl⟩
    · cases h
  | branch pk v cs ih =>
    intro isRoot kn x h
    rcases lookup_branch_some h with ⟨rfl, _⟩ | ⟨i, rest, rfl, hchild⟩
    · simp only [walk, beq_self_eq_true, Bool.or_true, if_true]
      exact ⟨_, rfl⟩
    · obtain ⟨deeper, hd⟩ := ih i false rest x hchild
      have hne : (pk ++ i :: rest).length ≠ 0 := by simp
      have hkp : ((pk : Nibs) == pk ++ i :: rest) = false := by
        simpa using (append_cons_ne_self pk i rest).symm
      have hlen : (pk ++ i :: rest).length > pk.length := by simp
      simp only [walk, hne, hkp, decide_false, Bool.or_self, Bool.false_eq_true, if_false, hlen,
        decide_true, Bool.not_true, Trie.lcpLen_prefix, drop_length_append, hd]
      exact ⟨_, rfl⟩

theorem generateFrom_present (ver : Ver) (H : Bytes → Bytes) (t : Trie) :
    ∀ (ks : List Bytes) (st : List Bytes × List Bytes),
      (∀ k ∈ ks, ∃ x, Trie.lookup t (toNibs k) = some x) → ∃ N, generateFrom ver H t st ks = some N := by
  intro ks
  induction ks with
  | nil => intro st _; exact ⟨_, rfl⟩
  | cons k ks ih =>
    intro st h
    obtain ⟨x, hx⟩ := h k (by simp)
    obtain ⟨ns, hns⟩ := walk_present ver H t true (toNibs k) x hx
    obtain ⟨N, hN⟩ := ih (dedupInto H st ns) (fun k' hk' => h k' (by simp [hk']))
    exact ⟨N, by simp only [generateFrom, Gossamer.keyLEToNibbles_eq, hns, hN]⟩

end Gossamer.C05
