/-
C04, incremental writes: `Put` on the heap refines `Trie.insert` and keeps the tree view (`TI`) of the
handle: representation, footprint without sharing, coherent caches.
-/
import Gossamer.Lib.C04Tree
namespace Gossamer
namespace TrieHeap
open Trie TrieCodec

/-- cells an operation on the sub-trie with footprint `fp` may write: its own cells and new cells -/
def Wr (hp : Heap) (fp : List Nat) (x : Nat) : Prop := x ∈ fp ∨ hp.size ≤ x

/-- result of a mutator on a sub-trie: the new sub-trie `t'` at `y`, again a tree of own cells taken
    from the old footprint or new, and only such cells were written -/
structure Out (H : Bytes → Bytes) (G : Bytes → Bytes → Prop) (hp : Heap) (g : Nat) (r : Bool) (fp : List Nat)
    (hp' : Heap) (t' : Trie) (y : Nat) : Prop where
  ti : ∃ N' fp', TI H G hp' g r t' N' y fp' ∧ fp'.Nodup ∧ (∀ z, z ∈ fp' → Wr hp fp z)
  fr : FR (Wr hp fp) hp hp'

def upd {α : Type} (f : Nib → α) (i : Nib) (v : α) : Nib → α := fun m => if m = i then v else f m

/-- a family of child footprints: each without repetition, pairwise disjoint, not containing the
    parent cell `b`, inside `P` -/
structure Fam (b : Nat) (P : Nat → Prop) (fps : Nib → List Nat) : Prop where
  nd : ∀ i, (fps i).Nodup
  dis : ∀ i j, i ≠ j → ∀ x, x ∈ fps i → x ∉ fps j
  nb : ∀ i, b ∉ fps i
  bd : ∀ i x, x ∈ fps i → P x

theorem Fam.nil (b : Nat) (P : Nat → Prop) : Fam b P (fun _ => []) :=
  ⟨fun _ => List.nodup_nil, fun _ _ _ _ h => (nomatch h), fun _ h => (nomatch h), fun _ _ h => (nomatch h)⟩

theorem Fam.set {b : Nat} {P : Nat → Prop} {fps : Nib → List Nat} (h : Fam b P fps) (i : Nib) (l : List Nat)
    (hl : l.Nodup) (hx : ∀ x, x ∈ l → P x ∧ x ≠ b ∧ ∀ m, m ≠ i → x ∉ fps m) : Fam b P (upd fps i l) := by
  refine ⟨fun m => ?_, fun m1 m2 hne x h1 h2 => ?_, fun m hm => ?_, fun m x hm => ?_⟩
  · unfold upd; by_cases e : m = i
    · rw [if_pos e]; exact hl
    · rw [if_neg e]; exact h.nd m
  · unfold upd at h1 h2
    by_cases e1 : m1 = i
    · rw [if_pos e1] at h1
      have e2 : m2 ≠ i := fun e => hne (e1.trans e.symm)
      rw [if_neg e2] at h2
      exact (hx x h1).2.2 m2 e2 h2
    · rw [if_neg e1] at h1
      by_cases e2 : m2 = i
      · rw [if_pos e2] at h2
        exact (hx x h2).2.2 m1 e1 h1
      · rw [if_neg e2] at h2
        exact h.dis m1 m2 hne x h1 h2
  · unfold upd at hm
    by_cases e : m = i
    · rw [if_pos e] at hm; exact (hx b hm).2.1 rfl
    · rw [if_neg e] at hm; exact h.nb m hm
  · unfold upd at hm
    by_cases e : m = i
    · rw [if_pos e] at hm; exact (hx x hm).1
    · rw [if_neg e] at hm; exact h.bd m x hm

theorem Fam.nodup {b : Nat} {P : Nat → Prop} {fps : Nib → List Nat} (h : Fam b P fps) :
    (b :: (List.finRange 16).flatMap fps).Nodup := by
  rw [List.nodup_cons]
  refine ⟨fun hm => ?_, (nodup_fm_iff fps).mpr ⟨h.nd, h.dis⟩⟩
  obtain ⟨i, _, hi⟩ := List.mem_flatMap.mp hm
  exact h.nb i hi

theorem ownL_own {hp : Heap} {g a : Nat} (h : (hp.get a).gen = g) : ownL hp g a = [a] := by
  unfold ownL; rw [if_pos h]

theorem ownL_not {hp : Heap} {g a : Nat} (h : (hp.get a).gen ≠ g) : ownL hp g a = [] := by
  unfold ownL; rw [if_neg h]

theorem kidTI_none (H : Bytes → Bytes) (G : Bytes → Bytes → Prop) (hp : Heap) (g : Nat) (m : Nib) :
    KidTI H G hp g (noChildren m) ((fun _ => Node.empty) m) ((fun _ => ([] : List Nat)) m) (noKids m) :=
  ⟨rfl, rfl, rfl⟩

theorem kidTI_upd {H : Bytes → Bytes} {G : Bytes → Bytes → Prop} {hp : Heap} {g : Nat} {ks : Nib → Option Nat}
    {cs : Nib → Trie} {kn : Nib → Node} {fps : Nib → List Nat} {i : Nib} {t : Trie} {k : Node} {l : List Nat}
    {x : Option Nat} (hall : ∀ m, m ≠ i → KidTI H G hp g (cs m) (kn m) (fps m) (ks m))
    (hx : KidTI H G hp g t k l x) (m : Nib) :
    KidTI H G hp g (setChild cs i t m) (upd kn i k m) (upd fps i l m) (setKid ks i x m) := by
  unfold setChild upd setKid
  by_cases e : m = i
  · simp only [if_pos e]; exact hx
  · simp only [if_neg e]; exact hall m e

theorem out_branch {H : Bytes → Bytes} {G : Bytes → Bytes → Prop} {hp hp' : Heap} {g : Nat} {r : Bool}
    {fp : List Nat} {b : Nat} {pk : Nibs} {v : Option Bytes} {cs : Nib → Trie} {kn : Nib → Node}
    {fps : Nib → List Nat} (hfr : FR (Wr hp fp) hp hp') (hlt : b < hp'.size)
    (hb : (hp'.get b).isBranch = true) (hpk : (hp'.get b).pk = pk) (hv : (hp'.get b).val = v)
    (hd : (hp'.get b).dirty = true) (hg : (hp'.get b).gen = g)
    (hk : ∀ i, KidTI H G hp' g (cs i) (kn i) (fps i) ((hp'.get b).kids i))
    (hfam : Fam b (Wr hp fp) fps) (hwb : Wr hp fp b) :
    Out H G hp g r fp hp' (.branch pk v cs) b := by
  refine ⟨⟨_, _, ti_branch_cell hlt hb hpk hv hd hg hk, ?_, ?_⟩, hfr⟩
  · rw [ownL_own hg]; exact hfam.nodup
  · intro z hz
    rw [ownL_own hg] at hz
    rcases List.mem_cons.mp hz with e | hz
    · rw [e]; exact hwb
    · obtain ⟨i, _, hi⟩ := List.mem_flatMap.mp hz
      exact hfam.bd i z hi

theorem out_leaf {H : Bytes → Bytes} {G : Bytes → Bytes → Prop} {hp hp' : Heap} {g : Nat} {r : Bool}
    {fp : List Nat} {b : Nat} {pk : Nibs} {v : Bytes} (hfr : FR (Wr hp fp) hp hp') (hlt : b < hp'.size)
    (hb : (hp'.get b).isBranch = false) (hpk : (hp'.get b).pk = pk) (hv : (hp'.get b).val = some v)
    (hk : ∀ i, (hp'.get b).kids i = none) (hd : (hp'.get b).dirty = true) (hg : (hp'.get b).gen = g)
    (hwb : Wr hp fp b) :
    Out H G hp g r fp hp' (.leaf pk v) b := by
  refine ⟨⟨_, _, ti_leaf_cell hlt hb hpk hv hk hd, ?_, ?_⟩, hfr⟩
  · rw [ownL_own hg]; simp
  · intro z hz
    rw [ownL_own hg] at hz
    rw [List.mem_singleton.mp hz]; exact hwb

/-- a dirty own leaf cell as a child slot -/
theorem kidTI_leaf {H : Bytes → Bytes} {G : Bytes → Bytes → Prop} {hp : Heap} {g : Nat} {b : Nat}
    {pk : Nibs} {v : Bytes} (hlt : b < hp.size) (hb : (hp.get b).isBranch = false) (hpk : (hp.get b).pk = pk)
    (hv : (hp.get b).val = some v) (hk : ∀ i, (hp.get b).kids i = none) (hd : (hp.get b).dirty = true)
    (hg : (hp.get b).gen = g) :
    KidTI H G hp g (.leaf pk v) (.leaf (nibBytes pk) (some v) (hp.get b).mbh) [b] (some b) := by
  refine ⟨fun h => (nomatch h), ?_⟩
  have := @ti_leaf_cell H G hp g false b pk v hlt hb hpk hv hk hd
  rw [ownL_own hg] at this
  exact this

theorem prepped_wr {hp : Heap} {g : Nat} {cv : Bool} {a : Nat} {hp' : Heap} {b : Nat} {fp : List Nat}
    (h : Prepped hp g cv a hp' b) (hfa : (hp.get a).gen = g → a ∈ fp) : Wr hp fp b := by
  rcases h.place with ⟨e, hg, _⟩ | ⟨e, _, _⟩
  · rw [e]; exact Or.inl (hfa hg)
  · rw [e]; exact Or.inr (Nat.le_refl _)

theorem sa_wr {hp : Heap} {g a : Nat} {fp : List Nat} (hfa : (hp.get a).gen = g → a ∈ fp) (x : Nat)
    (h : SA hp g a x) : Wr hp fp x := by
  rcases h with ⟨e, hg⟩ | h
  · rw [e]; exact Or.inl (hfa hg)
  · exact Or.inr h

theorem lcp_le : ∀ a b : Nibs, lcpLen a b ≤ a.length ∧ lcpLen a b ≤ b.length
  | [], _ => by simp [lcpLen]
  | _ :: _, [] => by simp [lcpLen]
  | x :: xs, y :: ys => by
    unfold lcpLen
    split
    · have := lcp_le xs ys
      simp only [List.length_cons]; omega
    · simp

/-- post-condition of a mutator that reports `mutated` -/
structure PostL (H : Bytes → Bytes) (G : Bytes → Bytes → Prop) (hp : Heap) (g : Nat) (r : Bool) (fp : List Nat)
    (a : Nat) (t t' : Trie) (res : Heap × Nat × Bool) : Prop where
  out : Out H G hp g r fp res.1 t' res.2.1
  same : res.2.2 = false → res.1 = hp ∧ res.2.1 = a ∧ t' = t

theorem insertInLeaf_tree (H : Bytes → Bytes) (hH : ∀ m, (H m).length = 32) (G : Bytes → Bytes → Prop) (c : Ctx)
    (hcH : c.H = H) {g : Nat} (hcg : c.g = g) {hp : Heap} {pk : Nibs} {lv : Bytes} {N : Node} {a : Nat}
    {fp : List Nat} {r : Bool} (h : TI H G hp g r (.leaf pk lv) N a fp) (hflav : (c.troot == some a) = r)
    (key : Nibs) (value : Bytes) :
    PostL H G hp g r fp a (.leaf pk lv) (Trie.insertInLeaf pk lv key value)
      (TrieHeap.insertInLeaf c hp a key value) := by
  obtain ⟨hlt, hb, hpk, hv, hk, hfp⟩ := ti_leaf_elim h
  have hfa : (hp.get a).gen = g → a ∈ fp := fun hg => by rw [hfp, ownL_own hg]; simp
  have hprep : ∀ cv, Prepped hp g cv a (prepForMutation c cv hp a).1 (prepForMutation c cv hp a).2 :=
    fun cv => prep_tree H hH G c hcH hcg cv hlt
      (fun _ => ⟨_, _, h.rep, h.coh, by show 1 ≤ bigFuel + 1; omega⟩) hflav
  have hnd : fp.Nodup := by rw [hfp]; unfold ownL; split <;> simp
  have hsame : Out H G hp g r fp hp (.leaf pk lv) a :=
    ⟨⟨N, fp, h, hnd, fun z hz => Or.inl hz⟩, FR.refl _ _⟩
  have hcl := lcp_le key pk
  unfold TrieHeap.insertInLeaf Trie.insertInLeaf
  simp only []
  rw [hpk]
  by_cases e1 : pk = key
  · simp only [if_pos e1]
    by_cases e2 : (hp.get a).mbh = mustBeHashed c.ver value ∧ (hp.get a).val = some value
    · rw [if_pos e2]
      have : lv = value := by have := e2.2; rw [hv] at this; injection this
      subst this
      exact ⟨hsame, fun _ => ⟨rfl, rfl, rfl⟩⟩
    · rw [if_neg e2]
      have hpp := hprep false
      generalize prepForMutation c false hp a = p at hpp ⊢
      obtain ⟨p1, b⟩ := p
      dsimp only at hpp ⊢
      have hwb : Wr hp fp b := prepped_wr hpp hfa
      have hgetb : (p1.modify b (fun x => { x with mbh := mustBeHashed c.ver value, val := some value })).get b =
          { p1.get b with mbh := mustBeHashed c.ver value, val := some value } := by
        rw [Heap.get_modify, if_pos ⟨rfl, hpp.lt⟩]
      refine ⟨?_, fun hf => Bool.noConfusion hf⟩
      dsimp only
      refine out_leaf ((hpp.fr.mono (sa_wr hfa)).trans (FR.modify p1 b _ hwb)) (by simpa using hpp.lt)
        ?_ ?_ ?_ ?_ ?_ ?_ hwb
      · rw [hgetb]; exact hpp.isBranch.trans hb
      · rw [hgetb]; exact hpp.pk.trans hpk
      · rw [hgetb]
      · intro m; rw [hgetb]; show (p1.get b).kids m = none; rw [hpp.kids]; exact hk m
      · rw [hgetb]; exact hpp.dirty
      · rw [hgetb]; exact hpp.gen
  · simp only [if_neg e1]
    by_cases e2 : key.length = lcpLen key pk
    · simp only [if_pos e2]
      by_cases e3 : key.length < pk.length
      · simp only [if_pos e3]
        rcases hdr : pk.drop (lcpLen key pk) with _ | ⟨i, rest⟩
        · exfalso
          have := List.drop_eq_nil_iff.mp hdr
          omega
        · dsimp only
          have hpp := hprep true
          generalize prepForMutation c true hp a = p at hpp ⊢
          obtain ⟨p1, b⟩ := p
          dsimp only at hpp ⊢
          have hwb : Wr hp fp b := prepped_wr hpp hfa
          have hgetb : ∀ n, ((p1.modify b (fun x => { x with pk := rest })).alloc n).1.get b =
              { p1.get b with pk := rest } := fun n => by
            rw [Heap.get_alloc_lt (by simpa using hpp.lt), Heap.get_modify, if_pos ⟨rfl, hpp.lt⟩]
          refine ⟨?_, fun hf => Bool.noConfusion hf⟩
          dsimp only
          refine out_branch (kn := upd (fun _ => Node.empty) i ?K) (fps := upd (fun _ => []) i [b])
            (((hpp.fr.mono (sa_wr hfa)).trans (FR.modify p1 b _ hwb)).trans (FR.alloc _ _ _))
            (by simp) ?_ ?_ ?_ ?_ ?_ ?_ ?_ ?_
          rotate_left
          · simp only [Heap.alloc_snd, Heap.get_alloc_self]; try rfl
          · simp only [Heap.alloc_snd, Heap.get_alloc_self]; try rfl
          · simp only [Heap.alloc_snd, Heap.get_alloc_self]; try rfl
          · simp only [Heap.alloc_snd, Heap.get_alloc_self]; try rfl
          · simp only [Heap.alloc_snd, Heap.get_alloc_self]; exact hcg
          · intro m
            simp only [Heap.alloc_snd, Heap.get_alloc_self]
            refine kidTI_upd (fun m _ => kidTI_none H G _ g m) (kidTI_leaf ?_ ?_ ?_ ?_ ?_ ?_ ?_) m
            · have := hpp.lt
              simp only [Heap.size_alloc, Heap.size_modify]; omega
            · rw [hgetb]; exact hpp.isBranch.trans hb
            · rw [hgetb]
            · rw [hgetb]; exact (hpp.val rfl).trans hv
            · intro m; rw [hgetb]; show (p1.get b).kids m = none; rw [hpp.kids]; exact hk m
            · rw [hgetb]; exact hpp.dirty
            · rw [hgetb]; exact hpp.gen
          · refine (Fam.nil _ _).set i [b] (by simp) (fun x hx => ?_)
            rw [List.mem_singleton.mp hx]
            exact ⟨hwb, Nat.ne_of_lt (show b < (p1.modify b _).size by simpa using hpp.lt),
              fun _ _ hm => (nomatch hm)⟩
          · exact Or.inr (Nat.le_trans hpp.fr.size (by simp))
      · simp only [if_neg e3]
        refine ⟨?_, fun hf => Bool.noConfusion hf⟩
        dsimp only
        refine out_branch (kn := fun _ => Node.empty) (fps := fun _ => []) (FR.alloc _ _ _)
          (by simp) ?_ ?_ ?_ ?_ ?_ ?_ (Fam.nil _ _) (Or.inr (Nat.le_refl _))
        · simp only [Heap.alloc_snd, Heap.get_alloc_self]; try rfl
        · simp only [Heap.alloc_snd, Heap.get_alloc_self]; try rfl
        · simp only [Heap.alloc_snd, Heap.get_alloc_self]; try rfl
        · simp only [Heap.alloc_snd, Heap.get_alloc_self]; try rfl
        · simp only [Heap.alloc_snd, Heap.get_alloc_self]; exact hcg
        · intro m
          simp only [Heap.alloc_snd, Heap.get_alloc_self]
          exact kidTI_none H G _ g m
    · simp only [if_neg e2]
      by_cases e3 : pk.length = lcpLen key pk
      · simp only [if_pos e3]
        rcases hdk : key.drop (lcpLen key pk) with _ | ⟨j, krest⟩
        · exfalso
          have := List.drop_eq_nil_iff.mp hdk
          omega
        · dsimp only
          refine ⟨?_, fun hf => Bool.noConfusion hf⟩
          dsimp only
          refine out_branch (kn := upd (fun _ => Node.empty) j ?K3) (fps := upd (fun _ => []) j [hp.size])
            ((FR.alloc _ _ _).trans (FR.alloc _ _ _))
            (by simp) ?_ ?_ ?_ ?_ ?_ ?_ ?_ ?_
          rotate_left
          · simp only [Heap.alloc_snd, Heap.get_alloc_self]; try rfl
          · simp only [Heap.alloc_snd, Heap.get_alloc_self]; try rfl
          · simp only [Heap.alloc_snd, Heap.get_alloc_self]; exact hv
          · simp only [Heap.alloc_snd, Heap.get_alloc_self]; try rfl
          · simp only [Heap.alloc_snd, Heap.get_alloc_self]; exact hcg
          · intro m
            simp only [Heap.alloc_snd, Heap.get_alloc_self]
            have hgl : ∀ n, (((hp.alloc (newLeaf c krest value)).1).alloc n).1.get hp.size =
                newLeaf c krest value := fun n => by
              rw [Heap.get_alloc_lt (by simp), Heap.get_alloc_self]
            refine kidTI_upd (fun m _ => kidTI_none H G _ g m) (kidTI_leaf ?_ ?_ ?_ ?_ ?_ ?_ ?_) m
            · simp only [Heap.size_alloc]; omega
            · rw [hgl]; rfl
            · rw [hgl]; rfl
            · rw [hgl]; rfl
            · intro m; rw [hgl]; rfl
            · rw [hgl]; rfl
            · rw [hgl]; exact hcg
          · refine (Fam.nil _ _).set j [hp.size] (by simp) (fun x hx => ?_)
            rw [List.mem_singleton.mp hx]
            exact ⟨Or.inr (Nat.le_refl _), Nat.ne_of_lt (by simp), fun _ _ hm => (nomatch hm)⟩
          · exact Or.inr (by simp)
      · simp only [if_neg e3]
        rcases hdr : pk.drop (lcpLen key pk) with _ | ⟨i, rest⟩
        · exfalso
          have := List.drop_eq_nil_iff.mp hdr
          omega
        rcases hdk : key.drop (lcpLen key pk) with _ | ⟨j, krest⟩
        · exfalso
          have := List.drop_eq_nil_iff.mp hdk
          omega
        dsimp only
        have hpp := hprep true
        generalize prepForMutation c true hp a = p at hpp ⊢
        obtain ⟨p1, b⟩ := p
        dsimp only at hpp ⊢
        have hwb : Wr hp fp b := prepped_wr hpp hfa
        have hgetb : ∀ n n', (((p1.modify b (fun x => { x with pk := rest })).alloc n).1.alloc n').1.get b =
            { p1.get b with pk := rest } := fun n n' => by
          rw [Heap.get_alloc_lt (by have := hpp.lt; simp only [Heap.size_alloc, Heap.size_modify]; omega),
            Heap.get_alloc_lt (by simpa using hpp.lt), Heap.get_modify, if_pos ⟨rfl, hpp.lt⟩]
        have hgl : ∀ n', (((p1.modify b (fun x => { x with pk := rest })).alloc (newLeaf c krest value)).1.alloc n').1.get
            p1.size = newLeaf c krest value := fun n' => by
          rw [Heap.get_alloc_lt (by simp)]
          have : p1.size = (p1.modify b (fun x => { x with pk := rest })).size := by simp
          rw [this, Heap.get_alloc_self]
        refine ⟨?_, fun hf => Bool.noConfusion hf⟩
        dsimp only
        refine out_branch (kn := upd (upd (fun _ => Node.empty) i ?K41) j ?K42)
          (fps := upd (upd (fun _ => []) i [b]) j [p1.size])
          ((((hpp.fr.mono (sa_wr hfa)).trans (FR.modify p1 b _ hwb)).trans (FR.alloc _ _ _)).trans (FR.alloc _ _ _))
          (by simp) ?_ ?_ ?_ ?_ ?_ ?_ ?_ ?_
        rotate_left; rotate_left
        · simp only [Heap.alloc_snd, Heap.get_alloc_self]; try rfl
        · simp only [Heap.alloc_snd, Heap.get_alloc_self]; try rfl
        · simp only [Heap.alloc_snd, Heap.get_alloc_self]; try rfl
        · simp only [Heap.alloc_snd, Heap.get_alloc_self]; try rfl
        · simp only [Heap.alloc_snd, Heap.get_alloc_self]; exact hcg
        · intro m
          simp only [Heap.alloc_snd, Heap.get_alloc_self, Heap.size_modify]
          refine kidTI_upd (fun m _ => kidTI_upd (fun m _ => kidTI_none H G _ g m)
            (kidTI_leaf ?_ ?_ ?_ ?_ ?_ ?_ ?_) m) (kidTI_leaf ?_ ?_ ?_ ?_ ?_ ?_ ?_) m
          · have := hpp.lt
            simp only [Heap.size_alloc, Heap.size_modify]; omega
          · rw [hgetb]; exact hpp.isBranch.trans hb
          · rw [hgetb]
          · rw [hgetb]; exact (hpp.val rfl).trans hv
          · intro m; rw [hgetb]; show (p1.get b).kids m = none; rw [hpp.kids]; exact hk m
          · rw [hgetb]; exact hpp.dirty
          · rw [hgetb]; exact hpp.gen
          · simp only [Heap.size_alloc, Heap.size_modify]; omega
          · rw [hgl]; rfl
          · rw [hgl]; rfl
          · rw [hgl]; rfl
          · intro m; rw [hgl]; rfl
          · rw [hgl]; rfl
          · rw [hgl]; exact hcg
        · refine ((Fam.nil _ _).set i [b] (by simp) (fun x hx => ?_)).set j [p1.size] (by simp) (fun x hx => ?_)
          · rw [List.mem_singleton.mp hx]
            refine ⟨hwb, Nat.ne_of_lt ?_, fun _ _ hm => (nomatch hm)⟩
            have := hpp.lt
            simp only [Heap.alloc_snd, Heap.size_alloc, Heap.size_modify]; omega
          · rw [List.mem_singleton.mp hx]
            refine ⟨Or.inr hpp.fr.size, Nat.ne_of_lt (by simp), fun m _ hm => ?_⟩
            unfold upd at hm
            split at hm
            · rw [List.mem_singleton] at hm
              have := hpp.lt
              omega
            · cases hm
        · exact Or.inr (Nat.le_trans hpp.fr.size (by simp))

end TrieHeap
end Gossamer
