/-
C04, incremental writes: `Put` on the heap refines `Trie.insert` and keeps the tree view (`TI`) of the
handle: representation, footprint without sharing, coherent caches.
-/
import Gossamer.Lib.C04Tree
namespace Gossamer
namespace TrieHeap
open Trie TrieCodec

/-- cells an operation on the sub-trie with footprint `fp` may write: its own cells and new cells -/
def Wr (hp : Heap) (fp : List Nat) (x : Nat) : Prop := x ∈ fp ∨ hp.size ≤ x

/-- result of a mutator on a sub-trie: the new sub-trie `t'` at `y`, again a tree of own cells taken
    from the old footprint or new, and only such cells were written -/
structure Out (H : Bytes → Bytes) (G : Bytes → Bytes → Prop) (hp : Heap) (g : Nat) (r : Bool) (fp : List Nat)
    (hp' : Heap) (t' : Trie) (y : Nat) : Prop where
  ti : ∃ N' fp', TI H G hp' g r t' N' y fp' ∧ fp'.Nodup ∧ (∀ z, z ∈ fp' → Wr hp fp z)
  fr : FR (Wr hp fp) hp hp'

def upd {α : Type} (f : Nib → α) (i : Nib) (v : α) : Nib → α := fun m => if m = i then v else f m

/-- a family of child footprints: each without repetition, pairwise disjoint, not containing the
    parent cell `b`, inside `P` -/
structure Fam (b : Nat) (P : Nat → Prop) (fps : Nib → List Nat) : Prop where
  nd : ∀ i, (fps i).Nodup
  dis : ∀ i j, i ≠ j → ∀ x, x ∈ fps i → x ∉ fps j
  nb : ∀ i, b ∉ fps i
  bd : ∀ i x, x ∈ fps i → P x

theorem Fam.nil (b : Nat) (P : Nat → Prop) : Fam b P (fun _ => []) :=
  ⟨fun _ => List.nodup_nil, fun _ _ _ _ h => (nomatch h), fun _ h => (nomatch h), fun _ _ h => (nomatch h)⟩

theorem Fam.set {b : Nat} {P : Nat → Prop} {fps : Nib → List Nat} (h : Fam b P fps) (i : Nib) (l : List Nat)
    (hl : l.Nodup) (hx : ∀ x, x ∈ l → P x ∧ x ≠ b ∧ ∀ m, m ≠ i → x ∉ fps m) : Fam b P (upd fps i l) := by
  refine ⟨fun m => ?_, fun m1 m2 hne x h1 h2 => ?_, fun m hm => ?_, fun m x hm => ?_⟩
  · unfold upd; by_cases e : m = i
    · rw [if_pos e]; exact hl
    · rw [if_neg e]; exact h.nd m
  · unfold upd at h1 h2
    by_cases e1 : m1 = i
    · rw [if_pos e1] at h1
      have e2 : m2 ≠ i := fun e => hne (e1.trans e.symm)
      rw [if_neg e2] at h2
      exact (hx x h1).2.2 m2 e2 h2
    · rw [if_neg e1] at h1
      by_cases e2 : m2 = i
      · rw [if_pos e2] at h2
        exact (hx x h2).2.2 m1 e1 h1
      · rw [if_neg e2] at h2
        exact h.dis m1 m2 hne x h1 h2
  · unfold upd at hm
    by_cases e : m = i
    · rw [if_pos e] at hm; exact (hx b hm).2.1 rfl
    · rw [if_neg e] at hm; exact h.nb m hm
  · unfold upd at hm
    by_cases e : m = i
    · rw [if_pos e] at hm; exact (hx x hm).1
    · rw [if_neg e] at hm; exact h.bd m x hm

theorem Fam.nodup {b : Nat} {P : Nat → Prop} {fps : Nib → List Nat} (h : Fam b P fps) :
    (b :: (List.finRange 16).flatMap fps).Nodup := by
  rw [List.nodup_cons]
  refine ⟨fun hm => ?_, (nodup_fm_iff fps).mpr ⟨h.nd, h.dis⟩⟩
  obtain ⟨i, _, hi⟩ := List.mem_flatMap.mp hm
  exact h.nb i hi

theorem ownL_own {hp : Heap} {g a : Nat} (h : (hp.get a).gen = g) : ownL hp g a = [a] := by
  unfold ownL; rw [if_pos h]

theorem ownL_not {hp : Heap} {g a : Nat} (h : (hp.get a).gen ≠ g) : ownL hp g a = [] := by
  unfold ownL; rw [if_neg h]

theorem kidTI_none (H : Bytes → Bytes) (G : Bytes → Bytes → Prop) (hp : Heap) (g : Nat) (m : Nib) :
    KidTI H G hp g (noChildren m) ((fun _ => Node.empty) m) ((fun _ => ([] : List Nat)) m) (noKids m) :=
  ⟨rfl, rfl, rfl⟩

theorem kidTI_upd {H : Bytes → Bytes} {G : Bytes → Bytes → Prop} {hp : Heap} {g : Nat} {ks : Nib → Option Nat}
    {cs : Nib → Trie} {kn : Nib → Node} {fps : Nib → List Nat} {i : Nib} {t : Trie} {k : Node} {l : List Nat}
    {x : Option Nat} (hall : ∀ m, m ≠ i → KidTI H G hp g (cs m) (kn m) (fps m) (ks m))
    (hx : KidTI H G hp g t k l x) (m : Nib) :
    KidTI H G hp g (setChild cs i t m) (upd kn i k m) (upd fps i l m) (setKid ks i x m) := by
  unfold setChild upd setKid
  by_cases e : m = i
  · simp only [if_pos e]; exact hx
  · simp only [if_neg e]; exact hall m e

theorem out_branch {H : Bytes → Bytes} {G : Bytes → Bytes → Prop} {hp hp' : Heap} {g : Nat} {r : Bool}
    {fp : List Nat} {b : Nat} {pk : Nibs} {v : Option Bytes} {cs : Nib → Trie} {kn : Nib → Node}
    {fps : Nib → List Nat} (hfr : FR (Wr hp fp) hp hp') (hlt : b < hp'.size)
    (hb : (hp'.get b).isBranch = true) (hpk : (hp'.get b).pk = pk) (hv : (hp'.get b).val = v)
    (hd : (hp'.get b).dirty = true) (hg : (hp'.get b).gen = g)
    (hk : ∀ i, KidTI H G hp' g (cs i) (kn i) (fps i) ((hp'.get b).kids i))
    (hfam : Fam b (Wr hp fp) fps) (hwb : Wr hp fp b) :
    Out H G hp g r fp hp' (.branch pk v cs) b := by
  refine ⟨⟨_, _, ti_branch_cell hlt hb hpk hv hd hg hk, ?_, ?_⟩, hfr⟩
  · rw [ownL_own hg]; exact hfam.nodup
  · intro z hz
    rw [ownL_own hg] at hz
    rcases List.mem_cons.mp hz with e | hz
    · rw [e]; exact hwb
    · obtain ⟨i, _, hi⟩ := List.mem_flatMap.mp hz
      exact hfam.bd i z hi

theorem out_leaf {H : Bytes → Bytes} {G : Bytes → Bytes → Prop} {hp hp' : Heap} {g : Nat} {r : Bool}
    {fp : List Nat} {b : Nat} {pk : Nibs} {v : Bytes} (hfr : FR (Wr hp fp) hp hp') (hlt : b < hp'.size)
    (hb : (hp'.get b).isBranch = false) (hpk : (hp'.get b).pk = pk) (hv : (hp'.get b).val = some v)
    (hk : ∀ i, (hp'.get b).kids i = none) (hd : (hp'.get b).dirty = true) (hg : (hp'.get b).gen = g)
    (hwb : Wr hp fp b) :
    Out H G hp g r fp hp' (.leaf pk v) b := by
  refine ⟨⟨_, _, ti_leaf_cell hlt hb hpk hv hk hd, ?_, ?_⟩, hfr⟩
  · rw [ownL_own hg]; simp
  · intro z hz
    rw [ownL_own hg] at hz
    rw [List.mem_singleton.mp hz]; exact hwb

/-- a dirty own leaf cell as a child slot -/
theorem kidTI_leaf {H : Bytes → Bytes} {G : Bytes → Bytes → Prop} {hp : Heap} {g : Nat} {b : Nat}
    {pk : Nibs} {v : Bytes} (hlt : b < hp.size) (hb : (hp.get b).isBranch = false) (hpk : (hp.get b).pk = pk)
    (hv : (hp.get b).val = some v) (hk : ∀ i, (hp.get b).kids i = none) (hd : (hp.get b).dirty = true)
    (hg : (hp.get b).gen = g) :
    KidTI H G hp g (.leaf pk v) (.leaf (nibBytes pk) (some v) (hp.get b).mbh) [b] (some b) := by
  refine ⟨fun h => (nomatch h), ?_⟩
  have := @ti_leaf_cell H G hp g false b pk v hlt hb hpk hv hk hd
  rw [ownL_own hg] at this
  exact this

theorem prepped_wr {hp : Heap} {g : Nat} {cv : Bool} {a : Nat} {hp' : Heap} {b : Nat} {fp : List Nat}
    (h : Prepped hp g cv a hp' b) (hfa : (hp.get a).gen = g → a ∈ fp) : Wr hp fp b := by
  rcases h.place with ⟨e, hg, _⟩ | ⟨e, _, _⟩
  · rw [e]; exact Or.inl (hfa hg)
  · rw [e]; exact Or.inr (Nat.le_refl _)

theorem sa_wr {hp : Heap} {g a : Nat} {fp : List Nat} (hfa : (hp.get a).gen = g → a ∈ fp) (x : Nat)
    (h : SA hp g a x) : Wr hp fp x := by
  rcases h with ⟨e, hg⟩ | h
  · rw [e]; exact Or.inl (hfa hg)
  · exact Or.inr h

theorem lcp_le : ∀ a b : Nibs, lcpLen a b ≤ a.length ∧ lcpLen a b ≤ b.length
  | [], _ => by simp [lcpLen]
  | _ :: _, [] => by simp [lcpLen]
  | x :: xs, y :: ys => by
    unfold lcpLen
    split
    · have := lcp_le xs ys
      simp only [List.length_cons]; omega
    · simp

/-- post-condition of a mutator that reports `mutated` -/
structure PostL (H : Bytes → Bytes) (G : Bytes → Bytes → Prop) (hp : Heap) (g : Nat) (r : Bool) (fp : List Nat)
    (a : Nat) (t t' : Trie) (res : Heap × Nat × Bool) : Prop where
  out : Out H G hp g r fp res.1 t' res.2.1
  same : res.2.2 = false → res.1 = hp ∧ res.2.1 = a ∧ t' = t

theorem insertInLeaf_tree (H : Bytes → Bytes) (hH : ∀ m, (H m).length = 32) (G : Bytes → Bytes → Prop) (c : Ctx)
    (hcH : c.H = H) {g : Nat} (hcg : c.g = g) {hp : Heap} {pk : Nibs} {lv : Bytes} {N : Node} {a : Nat}
    {fp : List Nat} {r : Bool} (h : TI H G hp g r (.leaf pk lv) N a fp) (hflav : (c.troot == some a) = r)
    (key : Nibs) (value : Bytes) :
    PostL H G hp g r fp a (.leaf pk lv) (Trie.insertInLeaf pk lv key value)
      (TrieHeap.insertInLeaf c hp a key value) := by
  obtain ⟨hlt, hb, hpk, hv, hk, hfp⟩ := ti_leaf_elim h
  have hfa : (hp.get a).gen = g → a ∈ fp := fun hg => by rw [hfp, ownL_own hg]; simp
  have hprep : ∀ cv, Prepped hp g cv a (prepForMutation c cv hp a).1 (prepForMutation c cv hp a).2 :=
    fun cv => prep_tree H hH G c hcH hcg cv hlt
      (fun _ => ⟨_, _, h.rep, h.coh, by show 1 ≤ bigFuel + 1; omega⟩) hflav
  have hnd : fp.Nodup := by rw [hfp]; unfold ownL; split <;> simp
  have hsame : Out H G hp g r fp hp (.leaf pk lv) a :=
    ⟨⟨N, fp, h, hnd, fun z hz => Or.inl hz⟩, FR.refl _ _⟩
  have hcl := lcp_le key pk
  unfold TrieHeap.insertInLeaf Trie.insertInLeaf
  simp only []
  rw [hpk]
  by_cases e1 : pk = key
  · simp only [if_pos e1]
    by_cases e2 : (hp.get a).mbh = mustBeHashed c.ver value ∧ (hp.get a).val = some value
    · rw [if_pos e2]
      have : lv = value := by have := e2.2; rw [hv] at this; injection this
      subst this
      exact ⟨hsame, fun _ => ⟨rfl, rfl, rfl⟩⟩
    · rw [if_neg e2]
      have hpp := hprep false
      generalize prepForMutation c false hp a = p at hpp ⊢
      obtain ⟨p1, b⟩ := p
      dsimp only at hpp ⊢
      have hwb : Wr hp fp b := prepped_wr hpp hfa
      have hgetb : (p1.modify b (fun x => { x with mbh := mustBeHashed c.ver value, val := some value })).get b =
          { p1.get b with mbh := mustBeHashed c.ver value, val := some value } := by
        rw [Heap.get_modify, if_pos ⟨rfl, hpp.lt⟩]
      refine ⟨?_, fun hf => Bool.noConfusion hf⟩
      dsimp only
      refine out_leaf ((hpp.fr.mono (sa_wr hfa)).trans (FR.modify p1 b _ hwb)) (by simpa using hpp.lt)
        ?_ ?_ ?_ ?_ ?_ ?_ hwb
      · rw [hgetb]; exact hpp.isBranch.trans hb
      · rw [hgetb]; exact hpp.pk.trans hpk
      · rw [hgetb]
      · intro m; rw [hgetb]; show (p1.get b).kids m = none; rw [hpp.kids]; exact hk m
      · rw [hgetb]; exact hpp.dirty
      · rw [hgetb]; exact hpp.gen
  · simp only [if_neg e1]
    by_cases e2 : key.length = lcpLen key pk
    · simp only [if_pos e2]
      by_cases e3 : key.length < pk.length
      · simp only [if_pos e3]
        rcases hdr : pk.drop (lcpLen key pk) with _ | ⟨i, rest⟩
        · exfalso
          have := List.drop_eq_nil_iff.mp hdr
          omega
        · dsimp only
          have hpp := hprep true
          generalize prepForMutation c true hp a = p at hpp ⊢
          obtain ⟨p1, b⟩ := p
          dsimp only at hpp ⊢
          have hwb : Wr hp fp b := prepped_wr hpp hfa
          have hgetb : ∀ n, ((p1.modify b (fun x => { x with pk := rest })).alloc n).1.get b =
              { p1.get b with pk := rest } := fun n => by
            rw [Heap.get_alloc_lt (by simpa using hpp.lt), Heap.get_modify, if_pos ⟨rfl, hpp.lt⟩]
          refine ⟨?_, fun hf => Bool.noConfusion hf⟩
          dsimp only
          refine out_branch (kn := upd (fun _ => Node.empty) i ?K) (fps := upd (fun _ => []) i [b])
            (((hpp.fr.mono (sa_wr hfa)).trans (FR.modify p1 b _ hwb)).trans (FR.alloc _ _ _))
            (by simp) ?_ ?_ ?_ ?_ ?_ ?_ ?_ ?_
          rotate_left
          · simp only [Heap.alloc_snd, Heap.get_alloc_self]; try rfl
          · simp only [Heap.alloc_snd, Heap.get_alloc_self]; try rfl
          · simp only [Heap.alloc_snd, Heap.get_alloc_self]; try rfl
          · simp only [Heap.alloc_snd, Heap.get_alloc_self]; try rfl
          · simp only [Heap.alloc_snd, Heap.get_alloc_self]; exact hcg
          · intro m
            simp only [Heap.alloc_snd, Heap.get_alloc_self]
            refine kidTI_upd (fun m _ => kidTI_none H G _ g m) (kidTI_leaf ?_ ?_ ?_ ?_ ?_ ?_ ?_) m
            · have := hpp.lt
              simp only [Heap.size_alloc, Heap.size_modify]; omega
            · rw [hgetb]; exact hpp.isBranch.trans hb
            · rw [hgetb]
            · rw [hgetb]; exact (hpp.val rfl).trans hv
            · intro m; rw [hgetb]; show (p1.get b).kids m = none; rw [hpp.kids]; exact hk m
            · rw [hgetb]; exact hpp.dirty
            · rw [hgetb]; exact hpp.gen
          · refine (Fam.nil _ _).set i [b] (by simp) (fun x hx => ?_)
            rw [List.mem_singleton.mp hx]
            exact ⟨hwb, Nat.ne_of_lt (show b < (p1.modify b _).size by simpa using hpp.lt),
              fun _ _ hm => (nomatch hm)⟩
          · exact Or.inr (Nat.le_trans hpp.fr.size (by simp))
      · simp only [if_neg e3]
        refine ⟨?_, fun hf => Bool.noConfusion hf⟩
        dsimp only
        refine out_branch (kn := fun _ => Node.empty) (fps := fun _ => []) (FR.alloc _ _ _)
          (by simp) ?_ ?_ ?_ ?_ ?_ ?_ (Fam.nil _ _) (Or.inr (Nat.le_refl _))
        · simp only [Heap.alloc_snd, Heap.get_alloc_self]; try rfl
        · simp only [Heap.alloc_snd, Heap.get_alloc_self]; try rfl
        · simp only [Heap.alloc_snd, Heap.get_alloc_self]; try rfl
        · simp only [Heap.alloc_snd, Heap.get_alloc_self]; try rfl
        · simp only [Heap.alloc_snd, Heap.get_alloc_self]; exact hcg
        · intro m
          simp only [Heap.alloc_snd, Heap.get_alloc_self]
          exact kidTI_none H G _ g m
    · simp only [if_neg e2]
      by_cases e3 : pk.length = lcpLen key pk
      · simp only [if_pos e3]
        rcases hdk : key.drop (lcpLen key pk) with _ | ⟨j, krest⟩
        · exfalso
          have := List.drop_eq_nil_iff.mp hdk
          omega
        · dsimp only
          refine ⟨?_, fun hf => Bool.noConfusion hf⟩
          dsimp only
          refine out_branch (kn := upd (fun _ => Node.empty) j ?K3) (fps := upd (fun _ => []) j [hp.size])
            ((FR.alloc _ _ _).trans (FR.alloc _ _ _))
            (by simp) ?_ ?_ ?_ ?_ ?_ ?_ ?_ ?_
          rotate_left
          · simp only [Heap.alloc_snd, Heap.get_alloc_self]; try rfl
          · simp only [Heap.alloc_snd, Heap.get_alloc_self]; try rfl
          · simp only [Heap.alloc_snd, Heap.get_alloc_self]; exact hv
          · simp only [Heap.alloc_snd, Heap.get_alloc_self]; try rfl
          · simp only [Heap.alloc_snd, Heap.get_alloc_self]; exact hcg
          · intro m
            simp only [Heap.alloc_snd, Heap.get_alloc_self]
            have hgl : ∀ n, (((hp.alloc (newLeaf c krest value)).1).alloc n).1.get hp.size =
                newLeaf c krest value := fun n => by
              rw [Heap.get_alloc_lt (by simp), Heap.get_alloc_self]
            refine kidTI_upd (fun m _ => kidTI_none H G _ g m) (kidTI_leaf ?_ ?_ ?_ ?_ ?_ ?_ ?_) m
            · simp only [Heap.size_alloc]; omega
            · rw [hgl]; rfl
            · rw [hgl]; rfl
            · rw [hgl]; rfl
            · intro m; rw [hgl]; rfl
            · rw [hgl]; rfl
            · rw [hgl]; exact hcg
          · refine (Fam.nil _ _).set j [hp.size] (by simp) (fun x hx => ?_)
            rw [List.mem_singleton.mp hx]
            exact ⟨Or.inr (Nat.le_refl _), Nat.ne_of_lt (by simp), fun _ _ hm => (nomatch hm)⟩
          · exact Or.inr (by simp)
      · simp only [if_neg e3]
        rcases hdr : pk.drop (lcpLen key pk) with _ | ⟨i, rest⟩
        · exfalso
          have := List.drop_eq_nil_iff.mp hdr
          omega
        rcases hdk : key.drop (lcpLen key pk) with _ | ⟨j, krest⟩
        · exfalso
          have := List.drop_eq_nil_iff.mp hdk
          omega
        dsimp only
        have hpp := hprep true
        generalize prepForMutation c true hp a = p at hpp ⊢
        obtain ⟨p1, b⟩ := p
        dsimp only at hpp ⊢
        have hwb : Wr hp fp b := prepped_wr hpp hfa
        have hgetb : ∀ n n', (((p1.modify b (fun x => { x with pk := rest })).alloc n).1.alloc n').1.get b =
            { p1.get b with pk := rest } := fun n n' => by
          rw [Heap.get_alloc_lt (by have := hpp.lt; simp only [Heap.size_alloc, Heap.size_modify]; omega),
            Heap.get_alloc_lt (by simpa using hpp.lt), Heap.get_modify, if_pos ⟨rfl, hpp.lt⟩]
        have hgl : ∀ n', (((p1.modify b (fun x => { x with pk := rest })).alloc (newLeaf c krest value)).1.alloc n').1.get
            p1.size = newLeaf c krest value := fun n' => by
          rw [Heap.get_alloc_lt (by simp)]
          have : p1.size = (p1.modify b (fun x => { x with pk := rest })).size := by simp
          rw [this, Heap.get_alloc_self]
        refine ⟨?_, fun hf => Bool.noConfusion hf⟩
        dsimp only
        refine out_branch (kn := upd (upd (fun _ => Node.empty) i ?K41) j ?K42)
          (fps := upd (upd (fun _ => []) i [b]) j [p1.size])
          ((((hpp.fr.mono (sa_wr hfa)).trans (FR.modify p1 b _ hwb)).trans (FR.alloc _ _ _)).trans (FR.alloc _ _ _))
          (by simp) ?_ ?_ ?_ ?_ ?_ ?_ ?_ ?_
        rotate_left; rotate_left
        · simp only [Heap.alloc_snd, Heap.get_alloc_self]; try rfl
        · simp only [Heap.alloc_snd, Heap.get_alloc_self]; try rfl
        · simp only [Heap.alloc_snd, Heap.get_alloc_self]; try rfl
        · simp only [Heap.alloc_snd, Heap.get_alloc_self]; try rfl
        · simp only [Heap.alloc_snd, Heap.get_alloc_self]; exact hcg
        · intro m
          simp only [Heap.alloc_snd, Heap.get_alloc_self, Heap.size_modify]
          refine kidTI_upd (fun m _ => kidTI_upd (fun m _ => kidTI_none H G _ g m)
            (kidTI_leaf ?_ ?_ ?_ ?_ ?_ ?_ ?_) m) (kidTI_leaf ?_ ?_ ?_ ?_ ?_ ?_ ?_) m
          · have := hpp.lt
            simp only [Heap.size_alloc, Heap.size_modify]; omega
          · rw [hgetb]; exact hpp.isBranch.trans hb
          · rw [hgetb]
          · rw [hgetb]; exact (hpp.val rfl).trans hv
          · intro m; rw [hgetb]; show (p1.get b).kids m = none; rw [hpp.kids]; exact hk m
          · rw [hgetb]; exact hpp.dirty
          · rw [hgetb]; exact hpp.gen
          · simp only [Heap.size_alloc, Heap.size_modify]; omega
          · rw [hgl]; rfl
          · rw [hgl]; rfl
          · rw [hgl]; rfl
          · intro m; rw [hgl]; rfl
          · rw [hgl]; rfl
          · rw [hgl]; exact hcg
        · refine ((Fam.nil _ _).set i [b] (by simp) (fun x hx => ?_)).set j [p1.size] (by simp) (fun x hx => ?_)
          · rw [List.mem_singleton.mp hx]
            refine ⟨hwb, Nat.ne_of_lt ?_, fun _ _ hm => (nomatch hm)⟩
            have := hpp.lt
            simp only [Heap.alloc_snd, Heap.size_alloc, Heap.size_modify]; omega
          · rw [List.mem_singleton.mp hx]
            refine ⟨Or.inr hpp.fr.size, Nat.ne_of_lt (by simp), fun m _ hm => ?_⟩
            unfold upd at hm
            split at hm
            · rw [List.mem_singleton] at hm
              have := hpp.lt
              omega
            · cases hm
        · exact Or.inr (Nat.le_trans hpp.fr.size (by simp))

/-! ### helpers for the branch cases -/

theorem lcp_lt : ∀ (key pk : Nibs), pk.isPrefixOf key = false → lcpLen key pk < pk.length
  | _, [], h => by simp at h
  | [], _ :: _, _ => by simp [lcpLen]
  | x :: xs, y :: ys, h => by
    unfold lcpLen
    by_cases e : x = y
    · subst e
      rw [if_pos rfl]
      have : ys.isPrefixOf xs = false := by simpa [List.isPrefixOf] using h
      have := lcp_lt xs ys this
      simp only [List.length_cons]; omega
    · rw [if_neg e]; simp

theorem prefix_split {pk key : Nibs} (h : pk.isPrefixOf key = true) : key = pk ++ key.drop pk.length := by
  obtain ⟨t, ht⟩ := List.isPrefixOf_iff_prefix.mp h
  rw [← ht]; simp

theorem setChild_self (cs : Nib → Trie) (i : Nib) : setChild cs i (cs i) = cs := by
  funext m; unfold setChild; split
  · rename_i e; rw [e]
  · rfl

theorem kid_frame {H : Bytes → Bytes} {G : Bytes → Bytes → Prop} {S : Nat → Prop} {hp hp' : Heap} {g : Nat}
    (hf : FR S hp hp') {t : Trie} {k : Node} {l : List Nat} {o : Option Nat}
    (hS : ∀ x, S x → hp.size ≤ x ∨ ((hp.get x).gen = g ∧ x ∉ l)) (h : KidTI H G hp g t k l o) :
    KidTI H G hp' g t k l o := by
  cases o with
  | none => exact h
  | some c => exact ⟨h.1, ti_frame hf t false k c l h.2 hS⟩

theorem prepped_sa {hp : Heap} {g : Nat} {cv : Bool} {a : Nat} {hp' : Heap} {b : Nat}
    (h : Prepped hp g cv a hp' b) : SA hp g a b := by
  rcases h.place with ⟨e, hg, _⟩ | ⟨e, _, _⟩
  · rw [e]; exact Or.inl ⟨rfl, hg⟩
  · rw [e]; exact Or.inr (Nat.le_refl _)

/-- the facts about a branch cell with a footprint without repetition -/
structure BrFacts (hp : Heap) (g : Nat) (a : Nat) (fp : List Nat) (fps : Nib → List Nat) : Prop where
  nd : ∀ i, (fps i).Nodup
  dis : ∀ i j, i ≠ j → ∀ x, x ∈ fps i → x ∉ fps j
  na : ∀ i, a ∉ fps i
  sub : ∀ i x, x ∈ fps i → x ∈ fp
  lt : ∀ i x, x ∈ fps i → x < hp.size
  own : ∀ i x, x ∈ fps i → (hp.get x).gen = g
  self : (hp.get a).gen = g → a ∈ fp

theorem brFacts {H : Bytes → Bytes} {G : Bytes → Bytes → Prop} {hp : Heap} {g : Nat} {a : Nat} {fp : List Nat}
    {fps : Nib → List Nat} {cs : Nib → Trie} {kn : Nib → Node}
    (hfp : fp = ownL hp g a ++ (List.finRange 16).flatMap fps) (hnd : fp.Nodup)
    (hno : (hp.get a).gen ≠ g → ∀ i, fps i = [])
    (hk : ∀ i, KidTI H G hp g (cs i) (kn i) (fps i) ((hp.get a).kids i)) : BrFacts hp g a fp fps := by
  rw [hfp] at hnd
  obtain ⟨_, h2, h3⟩ := List.nodup_append.mp hnd
  obtain ⟨nd, dis⟩ := (nodup_fm_iff fps).mp h2
  have hmem : ∀ i x, x ∈ fps i → x ∈ (List.finRange 16).flatMap fps :=
    fun i x hx => List.mem_flatMap.mpr ⟨i, List.mem_finRange i, hx⟩
  have hfpk : ∀ i x, x ∈ fps i → ∃ c, (hp.get a).kids i = some c ∧ FP hp g (cs i) c (fps i) := by
    intro i x hx
    have := hk i
    cases hkk : (hp.get a).kids i with
    | none => rw [hkk] at this; rw [this.2.2] at hx; cases hx
    | some c => rw [hkk] at this; exact ⟨c, rfl, this.2.fp⟩
  refine ⟨nd, dis, fun i hm => ?_, fun i x hx => ?_, fun i x hx => ?_, fun i x hx => ?_, fun hg => ?_⟩
  · by_cases hg : (hp.get a).gen = g
    · exact h3 a (by rw [ownL_own hg]; simp) a (hmem i a hm) rfl
    · rw [hno hg i] at hm; cases hm
  · rw [hfp]; exact List.mem_append_right _ (hmem i x hx)
  · obtain ⟨c, _, hf⟩ := hfpk i x hx
    exact fp_lt (cs i) c (fps i) hf x hx
  · obtain ⟨c, _, hf⟩ := hfpk i x hx
    exact fp_own (cs i) c (fps i) hf x hx
  · rw [hfp, ownL_own hg]; simp

/-- the family of child footprints of the prepared copy (or the cell itself) of a branch cell -/
theorem BrFacts.fam {hp : Heap} {g : Nat} {a : Nat} {fp : List Nat} {fps : Nib → List Nat}
    (h : BrFacts hp g a fp fps) {b : Nat} (hb : (b = a ∧ (hp.get a).gen = g) ∨ hp.size ≤ b) :
    Fam b (Wr hp fp) fps := by
  refine ⟨h.nd, h.dis, fun i hm => ?_, fun i x hx => Or.inl (h.sub i x hx)⟩
  rcases hb with ⟨e, _⟩ | hb
  · rw [e] at hm; exact h.na i hm
  · have := h.lt i b hm; omega

/-- the child slots of a branch cell survive writes to the cell itself and to new cells -/
theorem BrFacts.kids {H : Bytes → Bytes} {G : Bytes → Bytes → Prop} {hp hp' : Heap} {g : Nat} {a : Nat}
    {fp : List Nat} {fps : Nib → List Nat} (h : BrFacts hp g a fp fps) {cs : Nib → Trie} {kn : Nib → Node}
    (hf : FR (SA hp g a) hp hp')
    (hk : ∀ i, KidTI H G hp g (cs i) (kn i) (fps i) ((hp.get a).kids i)) (i : Nib) :
    KidTI H G hp' g (cs i) (kn i) (fps i) ((hp.get a).kids i) := by
  refine kid_frame hf (fun x hx => ?_) (hk i)
  rcases hx with ⟨e, hg⟩ | hx
  · rw [e]; exact Or.inr ⟨hg, h.na i⟩
  · exact Or.inl hx

/-- post-condition with an optional root -/
structure PostT (H : Bytes → Bytes) (G : Bytes → Bytes → Prop) (hp : Heap) (g : Nat) (r : Bool) (fp : List Nat)
    (a : Nat) (t t' : Trie) (res : Heap × Option Nat × Bool) : Prop where
  ex : ∃ y, res.2.1 = some y ∧ Out H G hp g r fp res.1 t' y
  same : res.2.2 = false → res.1 = hp ∧ res.2.1 = some a ∧ t' = t

theorem ti_ne_nil {H : Bytes → Bytes} {G : Bytes → Bytes → Prop} {hp : Heap} {g : Nat} {r : Bool} {t : Trie}
    {N : Node} {a : Nat} {fp : List Nat} (h : TI H G hp g r t N a fp) : t ≠ .nil := by
  intro e; rw [e] at h; exact h.rep.elim

theorem insertF_tree (H : Bytes → Bytes) (hH : ∀ m, (H m).length = 32) (G : Bytes → Bytes → Prop) (c : Ctx)
    (hcH : c.H = H) {g : Nat} (hcg : c.g = g) :
    ∀ (f : Nat) (hp : Heap) (t : Trie) (N : Node) (a : Nat) (fp : List Nat) (r : Bool) (key : Nibs)
      (value : Bytes), TI H G hp g r t N a fp → fp.Nodup → (c.troot == some a) = r → RootAbove c hp t →
      depth t ≤ bigFuel + 1 → key.length < f → ∀ t', t' = Trie.insert t key value →
      PostT H G hp g r fp a t t' (insertF c f hp (some a) key value)
  | 0, _, _, _, _, _, _, _, _, _, _, _, _, _, hf, _, _ => absurd hf (Nat.not_lt_zero _)
  | f + 1, hp, .nil, N, a, fp, r, key, value, h, _, _, _, _, _, _, _ => h.rep.elim
  | f + 1, hp, .leaf pk lv, N, a, fp, r, key, value, h, hnd, hflav, hra, hd, hf, t', ht' => by
    have hb : (hp.get a).isBranch = false := h.rep.1
    have hl := insertInLeaf_tree H hH G c hcH hcg h hflav key value
    subst ht'
    unfold insertF
    simp only [hb, Bool.not_false, if_true]
    exact ⟨⟨_, rfl, hl.out⟩, fun hf => by
      obtain ⟨h1, h2, h3⟩ := hl.same hf
      exact ⟨h1, by rw [h2], h3⟩⟩
  | f + 1, hp, .branch pk v cs, N, a, fp, r, key, value, h, hnd, hflav, hra, hd, hf, t', ht' => by
    obtain ⟨hlt, hb, hpk, hv, kn, fps, hN, hfp, hno, hk⟩ := ti_branch_elim h
    have bf := brFacts hfp hnd hno hk
    have hprep : ∀ cv, Prepped hp g cv a (prepForMutation c cv hp a).1 (prepForMutation c cv hp a).2 :=
      fun cv => prep_tree H hH G c hcH hcg cv hlt (fun _ => ⟨_, _, h.rep, h.coh, hd⟩) hflav
    have hsame : Out H G hp g r fp hp (.branch pk v cs) a :=
      ⟨⟨N, fp, h, hnd, fun z hz => Or.inl hz⟩, FR.refl _ _⟩
    unfold insertF
    simp only [hb, Bool.not_true, Bool.false_eq_true, if_false]
    rw [hpk]
    by_cases e1 : key = pk
    · simp only [if_pos e1]
      have hspec : t' = .branch pk (some value) cs := by rw [ht', Trie.insert, if_pos e1]
      by_cases e2 : (hp.get a).mbh = mustBeHashed c.ver value ∧ svEqual (hp.get a).val value = true
      · rw [if_pos e2]
        have hvv : v = some value := by
          have := e2.2; unfold svEqual at this; rw [hv] at this; exact eq_of_beq this
        refine ⟨⟨a, rfl, ?_⟩, fun _ => ⟨rfl, rfl, by rw [hspec, hvv]⟩⟩
        rw [hspec, ← hvv]; exact hsame
      · rw [if_neg e2]
        have hpp := hprep true
        generalize prepForMutation c true hp a = p at hpp ⊢
        obtain ⟨p1, b⟩ := p
        dsimp only at hpp ⊢
        have hgetb : (p1.modify b (fun x => { x with mbh := mustBeHashed c.ver value, val := some value })).get b =
            { p1.get b with mbh := mustBeHashed c.ver value, val := some value } := by
          rw [Heap.get_modify, if_pos ⟨rfl, hpp.lt⟩]
        have hfr : FR (SA hp g a) hp
            (p1.modify b (fun x => { x with mbh := mustBeHashed c.ver value, val := some value })) :=
          hpp.fr.trans (FR.modify p1 b _ (prepped_sa hpp))
        refine ⟨⟨b, rfl, ?_⟩, fun hf => Bool.noConfusion hf⟩
        rw [hspec]; dsimp only
        refine out_branch (kn := kn) (fps := fps) (hfr.mono (sa_wr bf.self)) (by simpa using hpp.lt)
          ?_ ?_ ?_ ?_ ?_ ?_ (bf.fam (prepped_sa hpp)) (prepped_wr hpp bf.self)
        · rw [hgetb]; exact hpp.isBranch.trans hb
        · rw [hgetb]; exact hpp.pk.trans hpk
        · rw [hgetb]
        · rw [hgetb]; exact hpp.dirty
        · rw [hgetb]; exact hpp.gen
        · intro i; rw [hgetb]
          show KidTI H G _ g (cs i) (kn i) (fps i) ((p1.get b).kids i)
          rw [hpp.kids]; exact bf.kids hfr hk i
    · simp only [if_neg e1]
      by_cases e2 : pk.isPrefixOf key = true
      · simp only [if_pos e2]
        rcases hdk : key.drop pk.length with _ | ⟨i, rest⟩
        · exfalso
          apply e1
          have := prefix_split e2
          rw [hdk] at this; simpa using this
        dsimp only
        have hspec : t' = .branch pk v (setChild cs i (Trie.insert (cs i) rest value)) := by
          rw [ht', Trie.insert, if_neg e1, if_pos e2]; simp only [hdk]
        have hki := hk i
        cases hkid : (hp.get a).kids i with
        | none =>
          dsimp only
          rw [hkid] at hki
          obtain ⟨hcsi, _, hfpsi⟩ := hki
          have hspec' : t' = .branch pk v (setChild cs i (.leaf rest value)) := by
            rw [hspec, hcsi]; rfl
          have hltA : a < (hp.alloc (newLeaf c rest value)).1.size := by simp; omega
          have hgA : (hp.alloc (newLeaf c rest value)).1.get a = hp.get a := Heap.get_alloc_lt hlt
          have h1 : TI H G (hp.alloc (newLeaf c rest value)).1 g r (.branch pk v cs) N a fp :=
            ti_frame (FR.alloc (fun _ => False) hp _) _ _ _ _ _ h (fun x hx => hx.elim)
          have hpp := prep_tree H hH G c hcH hcg true hltA (fun _ => ⟨_, _, h1.rep, h1.coh, hd⟩) hflav
          generalize prepForMutation c true (hp.alloc (newLeaf c rest value)).1 a = p at hpp ⊢
          obtain ⟨p1, b⟩ := p
          dsimp only at hpp ⊢
          simp only [Heap.alloc_snd]
          have sa1 : ∀ x, SA (hp.alloc (newLeaf c rest value)).1 g a x → SA hp g a x := by
            intro x hx
            rcases hx with ⟨e, hg⟩ | hx
            · rw [hgA] at hg; exact Or.inl ⟨e, hg⟩
            · right; simp at hx; omega
          have sab : SA hp g a b := sa1 b (prepped_sa hpp)
          have hgetb : (p1.modify b (fun x => { x with kids := setKid x.kids i (some hp.size) })).get b =
              { p1.get b with kids := setKid (p1.get b).kids i (some hp.size) } := by
            rw [Heap.get_modify, if_pos ⟨rfl, hpp.lt⟩]
          have hfr1 : FR (SA (hp.alloc (newLeaf c rest value)).1 g a) (hp.alloc (newLeaf c rest value)).1
              (p1.modify b (fun x => { x with kids := setKid x.kids i (some hp.size) })) :=
            hpp.fr.trans (FR.modify p1 b _ (prepped_sa hpp))
          have hfr : FR (SA hp g a) hp
              (p1.modify b (fun x => { x with kids := setKid x.kids i (some hp.size) })) :=
            (FR.alloc _ hp _).trans (hfr1.mono sa1)
          have hne : hp.size ≠ b := by
            rcases hpp.place with ⟨e, _, _⟩ | ⟨e, _, _⟩
            · rw [e]; omega
            · rw [e]; simp
          refine ⟨⟨b, rfl, ?_⟩, fun hf => Bool.noConfusion hf⟩
          rw [hspec']; dsimp only
          refine out_branch (kn := upd kn i ?KB2) (fps := upd fps i [hp.size])
            (hfr.mono (sa_wr bf.self)) (by simpa using hpp.lt)
            ?_ ?_ ?_ ?_ ?_ ?_ ?_ (sa_wr bf.self b sab)
          rotate_left
          · rw [hgetb]; exact hpp.isBranch.trans (by rw [hgA]; exact hb)
          · rw [hgetb]; exact hpp.pk.trans (by rw [hgA]; exact hpk)
          · rw [hgetb]; exact hpp.val rfl |>.trans (by rw [hgA]; exact hv)
          · rw [hgetb]; exact hpp.dirty
          · rw [hgetb]; exact hpp.gen
          · intro m; rw [hgetb]
            show KidTI H G _ g (setChild cs i (.leaf rest value) m) _ _
              (setKid (p1.get b).kids i (some hp.size) m)
            rw [hpp.kids, hgA]
            refine kidTI_upd (fun m _ => bf.kids hfr hk m) (kid_frame hfr1 (fun x hx => ?_)
              (kidTI_leaf (hp := (hp.alloc (newLeaf c rest value)).1) (b := hp.size) (by simp) ?_ ?_ ?_ ?_ ?_ ?_)) m
            · rcases hx with ⟨e, hg⟩ | hx
              · refine Or.inr ⟨by rw [e]; exact hg, ?_⟩
                rw [e]; simp; omega
              · exact Or.inl hx
            · rw [Heap.get_alloc_self]; rfl
            · rw [Heap.get_alloc_self]; rfl
            · rw [Heap.get_alloc_self]; rfl
            · intro m; rw [Heap.get_alloc_self]; rfl
            · rw [Heap.get_alloc_self]; rfl
            · rw [Heap.get_alloc_self]; exact hcg
          · refine (bf.fam sab).set i [hp.size] (by simp) (fun x hx => ?_)
            rw [List.mem_singleton.mp hx]
            exact ⟨Or.inr (Nat.le_refl _), hne, fun m _ hm => Nat.lt_irrefl _ (bf.lt m _ hm)⟩
        | some ch =>
          dsimp only
          rw [hkid] at hki
          obtain ⟨hcsne, htich⟩ := hki
          have hdlt : depth (cs i) < depth (.branch pk v cs) := depth_kid pk v cs i
          have hflavch : (c.troot == some ch) = false := by
            cases htr : c.troot == some ch with
            | false => rfl
            | true =>
              exfalso
              have := hra ch (cs i) (kn i) (eq_of_beq htr) htich.rep
              omega
          have hlen : rest.length < f := by
            have := congrArg List.length hdk
            simp only [List.length_drop, List.length_cons] at this
            omega
          have ih := insertF_tree H hH G c hcH hcg f hp (cs i) (kn i) ch (fps i) false rest value htich
            (bf.nd i) hflavch (rootAbove_mono hra (Nat.le_of_lt hdlt)) (by omega) hlen _ rfl
          generalize insertF c f hp (some ch) rest value = res at ih ⊢
          obtain ⟨h1, y', mflag⟩ := res
          dsimp only at ih ⊢
          cases mflag with
          | false =>
            simp only [Bool.not_false, if_true]
            obtain ⟨e1', _, e3'⟩ := ih.same rfl
            dsimp only at e1' e3'
            have hsp : t' = .branch pk v cs := by rw [hspec, e3', setChild_self]
            refine ⟨⟨a, rfl, ?_⟩, fun _ => ⟨e1', rfl, hsp⟩⟩
            dsimp only
            rw [hsp, e1']; exact hsame
          | true =>
            simp only [Bool.not_true, Bool.false_eq_true, if_false]
            obtain ⟨y, hy, ⟨Ni, fpi, hti, hndi, hbdi⟩, hfri⟩ := ih.ex
            dsimp only at hy hti hfri
            subst hy
            have hnwa : ¬ Wr hp (fps i) a := by
              intro hw
              rcases hw with hw | hw
              · exact bf.na i hw
              · omega
            obtain ⟨hs1, _, _⟩ := hfri.strip hlt hnwa
            have hlt1 : a < h1.size := Nat.lt_of_lt_of_le hlt hfri.size
            have hpp := prep_tree H hH G c hcH hcg true hlt1 (r := r) (fun hg => by
              have hg0 : (hp.get a).gen ≠ g := by rw [← strip_gen hs1]; exact hg
              have hnil := hno hg0 i
              have h1' := ti_frame hfri _ _ _ _ _ h (fun x hx => by
                rcases hx with hx | hx
                · rw [hnil] at hx; cases hx
                · exact Or.inl hx)
              exact ⟨_, _, h1'.rep, h1'.coh, hd⟩) hflav
            generalize prepForMutation c true h1 a = p at hpp ⊢
            obtain ⟨p1, b⟩ := p
            dsimp only at hpp ⊢
            have sa1 : ∀ x, SA h1 g a x → SA hp g a x := by
              intro x hx
              rcases hx with ⟨e, hg⟩ | hx
              · rw [strip_gen hs1] at hg; exact Or.inl ⟨e, hg⟩
              · exact Or.inr (Nat.le_trans hfri.size hx)
            have sab : SA hp g a b := sa1 b (prepped_sa hpp)
            have hgetb : (p1.modify b (fun x => { x with kids := setKid x.kids i (some y) })).get b =
                { p1.get b with kids := setKid (p1.get b).kids i (some y) } := by
              rw [Heap.get_modify, if_pos ⟨rfl, hpp.lt⟩]
            have hfr1 : FR (SA h1 g a) h1 (p1.modify b (fun x => { x with kids := setKid x.kids i (some y) })) :=
              hpp.fr.trans (FR.modify p1 b _ (prepped_sa hpp))
            have hfr : FR (fun x => x ∈ fps i ∨ SA hp g a x) hp
                (p1.modify b (fun x => { x with kids := setKid x.kids i (some y) })) :=
              (hfri.mono (fun x hx => by
                rcases hx with hx | hx
                · exact Or.inl hx
                · exact Or.inr (Or.inr hx))).trans (hfr1.mono (fun x hx => Or.inr (sa1 x hx)))
            have hwr : ∀ x, (x ∈ fps i ∨ SA hp g a x) → Wr hp fp x := by
              intro x hx
              rcases hx with hx | hx
              · exact Or.inl (bf.sub i x hx)
              · exact sa_wr bf.self x hx
            refine ⟨⟨b, rfl, ?_⟩, fun hf => Bool.noConfusion hf⟩
            rw [hspec]; dsimp only
            refine out_branch (kn := upd kn i Ni) (fps := upd fps i fpi)
              (hfr.mono hwr) (by simpa using hpp.lt)
              ?_ ?_ ?_ ?_ ?_ ?_ ?_ (sa_wr bf.self b sab)
            · rw [hgetb]; exact hpp.isBranch.trans ((strip_isBranch hs1).trans hb)
            · rw [hgetb]; exact hpp.pk.trans ((strip_pk hs1).trans hpk)
            · rw [hgetb]; exact (hpp.val rfl).trans ((strip_val hs1).trans hv)
            · rw [hgetb]; exact hpp.dirty
            · rw [hgetb]; exact hpp.gen
            · intro m; rw [hgetb]
              show KidTI H G _ g (setChild cs i (Trie.insert (cs i) rest value) m) _ _
                (setKid (p1.get b).kids i (some y) m)
              rw [hpp.kids, strip_kids hs1]
              have hkidi : KidTI H G (p1.modify b (fun x => { x with kids := setKid x.kids i (some y) })) g
                  (Trie.insert (cs i) rest value) Ni fpi (some y) := by
                refine ⟨ti_ne_nil hti, ti_frame hfr1 _ _ _ _ _ hti (fun x hx => ?_)⟩
                rcases hx with ⟨e, hg⟩ | hx
                · refine Or.inr ⟨by rw [e]; exact hg, fun hm => hnwa ?_⟩
                  rw [e] at hm; exact hbdi a hm
                · exact Or.inl hx
              refine kidTI_upd (fun m hm => kid_frame hfr (fun x hx => ?_) (hk m)) hkidi m
              rcases hx with hx | ⟨e, hg⟩ | hx
              · exact Or.inr ⟨bf.own i x hx, bf.dis i m (fun e => hm e.symm) x hx⟩
              · rw [e]; exact Or.inr ⟨hg, bf.na m⟩
              · exact Or.inl hx
            · refine (bf.fam sab).set i fpi hndi (fun x hx => ⟨?_, ?_, fun m hm hxm => ?_⟩)
              · rcases hbdi x hx with h' | h'
                · exact Or.inl (bf.sub i x h')
                · exact Or.inr h'
              · intro e
                have hxlt : x < h1.size := fp_lt _ _ _ hti.fp x hx
                rcases hpp.place with ⟨eb, _, _⟩ | ⟨eb, _, _⟩
                · rw [e, eb] at hx; exact hnwa (hbdi a hx)
                · omega
              · rcases hbdi x hx with h' | h'
                · exact bf.dis i m (fun e => hm e.symm) x h' hxm
                · have := bf.lt m x hxm; omega
      · simp only [if_neg e2]
        have e2' : pk.isPrefixOf key = false := by
          cases hh : pk.isPrefixOf key with
          | false => rfl
          | true => exact absurd hh e2
        have hcl := lcp_lt key pk e2'
        rcases hdr : pk.drop (lcpLen key pk) with _ | ⟨oi, orest⟩
        · exfalso
          have := List.drop_eq_nil_iff.mp hdr
          omega
        dsimp only
        have hpp := hprep true
        generalize prepForMutation c true hp a = p at hpp ⊢
        obtain ⟨p1, b⟩ := p
        dsimp only at hpp ⊢
        have hwb : Wr hp fp b := prepped_wr hpp bf.self
        have hbsz : b < p1.size := hpp.lt
        -- the old branch, with its shortened partial key, as a child slot of any later heap
        have hchild : ∀ hp', FR (SA hp g a) hp hp' → b < hp'.size →
            hp'.get b = { p1.get b with pk := orest } →
            KidTI H G hp' g (.branch orest v cs)
              (.branch (nibBytes orest) v (hp'.get b).mbh ((List.finRange 16).map kn))
              (b :: (List.finRange 16).flatMap fps) (some b) := by
          intro hp' hfr hlt' hget
          refine ⟨fun e => (nomatch e), ?_⟩
          have hgen : (hp'.get b).gen = g := by rw [hget]; exact hpp.gen
          have := @ti_branch_cell H G hp' g false b orest v cs kn fps hlt'
            (by rw [hget]; exact hpp.isBranch.trans hb) (by rw [hget])
            (by rw [hget]; exact (hpp.val rfl).trans hv) (by rw [hget]; exact hpp.dirty) hgen
            (fun m => by
              rw [hget]
              show KidTI H G hp' g (cs m) (kn m) (fps m) ((p1.get b).kids m)
              rw [hpp.kids]; exact bf.kids hfr hk m)
          rw [ownL_own hgen] at this
          exact this
        have hfr2 : FR (SA hp g a) hp (p1.modify b (fun x => { x with pk := orest })) :=
          hpp.fr.trans (FR.modify p1 b _ (prepped_sa hpp))
        have hfamb := (bf.fam (prepped_sa hpp)).nodup
        have hsub : ∀ x, x ∈ b :: (List.finRange 16).flatMap fps → Wr hp fp x ∧ x < p1.size := by
          intro x hx
          rcases List.mem_cons.mp hx with e | hx
          · rw [e]; exact ⟨hwb, hbsz⟩
          · obtain ⟨m, _, hm⟩ := List.mem_flatMap.mp hx
            exact ⟨Or.inl (bf.sub m x hm), Nat.lt_of_lt_of_le (bf.lt m x hm) hpp.fr.size⟩
        by_cases e3 : key.length ≤ lcpLen key pk
        · simp only [if_pos e3]
          have hspec : t' = .branch (key.take (lcpLen key pk)) (some value)
              (setChild noChildren oi (.branch orest v cs)) := by
            rw [ht', Trie.insert, if_neg e1]
            simp only [e2', Bool.false_eq_true, if_false, hdr, if_pos e3]
          have hget : ∀ n, ((p1.modify b (fun x => { x with pk := orest })).alloc n).1.get b =
              { p1.get b with pk := orest } := fun n => by
            rw [Heap.get_alloc_lt (by simpa using hbsz), Heap.get_modify, if_pos ⟨rfl, hbsz⟩]
          refine ⟨⟨_, rfl, ?_⟩, fun hf => Bool.noConfusion hf⟩
          rw [hspec]; dsimp only
          refine out_branch (kn := upd (fun _ => Node.empty) oi ?KB31)
            (fps := upd (fun _ => []) oi (b :: (List.finRange 16).flatMap fps))
            ((hfr2.trans (FR.alloc _ _ _)).mono (sa_wr bf.self)) (by simp)
            ?_ ?_ ?_ ?_ ?_ ?_ ?_ (Or.inr (Nat.le_trans hpp.fr.size (by simp)))
          rotate_left
          · simp only [Heap.alloc_snd, Heap.get_alloc_self]; try rfl
          · simp only [Heap.alloc_snd, Heap.get_alloc_self]; try rfl
          · simp only [Heap.alloc_snd, Heap.get_alloc_self]; try rfl
          · simp only [Heap.alloc_snd, Heap.get_alloc_self]; try rfl
          · simp only [Heap.alloc_snd, Heap.get_alloc_self]; exact hcg
          · intro m
            simp only [Heap.alloc_snd, Heap.get_alloc_self]
            exact kidTI_upd (fun m _ => kidTI_none H G _ g m)
              (hchild _ (hfr2.trans (FR.alloc _ _ _)) (by simp; omega) (hget _)) m
          · refine (Fam.nil _ _).set oi _ hfamb (fun x hx => ?_)
            obtain ⟨h1, h2⟩ := hsub x hx
            refine ⟨h1, Nat.ne_of_lt ?_, fun _ _ hm => (nomatch hm)⟩
            simp only [Heap.alloc_snd, Heap.size_modify]; exact h2
        · simp only [if_neg e3]
          rcases hdk : key.drop (lcpLen key pk) with _ | ⟨j, krest⟩
          · exfalso
            have := List.drop_eq_nil_iff.mp hdk
            omega
          dsimp only
          have hspec : t' = .branch (key.take (lcpLen key pk)) none
              (setChild (setChild noChildren oi (.branch orest v cs)) j (.leaf krest value)) := by
            rw [ht', Trie.insert, if_neg e1]
            simp only [e2', Bool.false_eq_true, if_false, hdr, if_neg e3, hdk]
          have hget : ∀ n n', (((p1.modify b (fun x => { x with pk := orest })).alloc n).1.alloc n').1.get b =
              { p1.get b with pk := orest } := fun n n' => by
            rw [Heap.get_alloc_lt (by simp only [Heap.size_alloc, Heap.size_modify]; omega),
              Heap.get_alloc_lt (by simpa using hbsz), Heap.get_modify, if_pos ⟨rfl, hbsz⟩]
          have hgl : ∀ n', (((p1.modify b (fun x => { x with pk := orest })).alloc (newLeaf c krest value)).1.alloc
              n').1.get p1.size = newLeaf c krest value := fun n' => by
            rw [Heap.get_alloc_lt (by simp)]
            have : p1.size = (p1.modify b (fun x => { x with pk := orest })).size := by simp
            rw [this, Heap.get_alloc_self]
          refine ⟨⟨_, rfl, ?_⟩, fun hf => Bool.noConfusion hf⟩
          rw [hspec]; dsimp only
          refine out_branch (kn := upd (upd (fun _ => Node.empty) oi ?KB32) j ?KB33)
            (fps := upd (upd (fun _ => []) oi (b :: (List.finRange 16).flatMap fps)) j [p1.size])
            (((hfr2.trans (FR.alloc _ _ _)).trans (FR.alloc _ _ _)).mono (sa_wr bf.self)) (by simp)
            ?_ ?_ ?_ ?_ ?_ ?_ ?_ (Or.inr (Nat.le_trans hpp.fr.size (by simp)))
          rotate_left; rotate_left
          · simp only [Heap.alloc_snd, Heap.get_alloc_self]; try rfl
          · simp only [Heap.alloc_snd, Heap.get_alloc_self]; try rfl
          · simp only [Heap.alloc_snd, Heap.get_alloc_self]; try rfl
          · simp only [Heap.alloc_snd, Heap.get_alloc_self]; try rfl
          · simp only [Heap.alloc_snd, Heap.get_alloc_self]; exact hcg
          · intro m
            simp only [Heap.alloc_snd, Heap.get_alloc_self, Heap.size_modify]
            refine kidTI_upd (fun m _ => kidTI_upd (fun m _ => kidTI_none H G _ g m)
              (hchild _ ((hfr2.trans (FR.alloc _ _ _)).trans (FR.alloc _ _ _))
                (by simp only [Heap.size_alloc, Heap.size_modify]; omega) (hget _ _)) m)
              (kidTI_leaf ?_ ?_ ?_ ?_ ?_ ?_ ?_) m
            · simp only [Heap.size_alloc, Heap.size_modify]; omega
            · rw [hgl]; rfl
            · rw [hgl]; rfl
            · rw [hgl]; rfl
            · intro m; rw [hgl]; rfl
            · rw [hgl]; rfl
            · rw [hgl]; exact hcg
          · refine ((Fam.nil _ _).set oi _ hfamb (fun x hx => ?_)).set j [p1.size] (by simp) (fun x hx => ?_)
            · obtain ⟨h1, h2⟩ := hsub x hx
              refine ⟨h1, Nat.ne_of_lt ?_, fun _ _ hm => (nomatch hm)⟩
              simp only [Heap.alloc_snd, Heap.size_alloc, Heap.size_modify]; omega
            · rw [List.mem_singleton.mp hx]
              refine ⟨Or.inr hpp.fr.size, Nat.ne_of_lt (by simp), fun m _ hm => ?_⟩
              unfold upd at hm
              split at hm
              · have := (hsub _ hm).2; omega
              · cases hm

end TrieHeap
end Gossamer
