/-
C33: the protocol-buffers wire parser AS protobuf-go v1.35 RUNS IT on arbitrary bytes
(`impl.(*MessageInfo).unmarshalPointer`, `protowire.ConsumeVarint/ConsumeBytes/ConsumeFieldValue`),
for messages whose known fields are all of wire type varint or length-delimited (true of
`api.v1.proto`).  Differences to the reference parser `Proto.parse` of `Lib/ChainProto.lean`
(property C14), which is the specification of well-formed messages only:

  * varints are at most 10 bytes and the tenth byte is at most 1 (`ConsumeVarint`), non-minimal
    encodings are accepted;
  * a field number is 1 … 2^29-1 at message level (`MaxValidNumber`), 1 … 2^31-1 inside a skipped
    group (`DecodeTag`);
  * a field that is unknown OR whose wire type does not fit is skipped by `ConsumeFieldValue`:
    fixed32 / fixed64 payloads, and start-group … end-group runs (recursively, at most 10000
    levels deep, the end tag must carry the same number); wire types 6, 7 and a stray end-group
    are errors.

The result is the list of varint and length-delimited fields in wire order (skipped fixed-width and
group fields can never match a known field); the message-specific folds (`BlockRequest.ofFields`,
`BlockData.ofFields`) are those of `Lib/ChainProto.lean` — they already truncate `uint32` fields
and ignore fields whose wire type does not fit.  The protobuf LIBRARY is trusted; this model is
tied to it by the correspondence run on random and damaged inputs.  Core Lean only.
-/
import Gossamer.Lib.ChainProto
namespace Gossamer.C33
open Gossamer Gossamer.Proto

/-- base-128 digits, at most `k` bytes -/
def uvar : Nat → Bytes → Option (Nat × Bytes)
  | 0, _ => none
  | _ + 1, [] => none
  | k + 1, b :: r =>
    if b.toNat < 128 then some (b.toNat, r)
    else
      match uvar k r with
      | none => none
      | some (n, r') => some (b.toNat - 128 + 128 * n, r')

/-- `protowire.ConsumeVarint`: at most ten bytes; ten bytes must still fit 64 bits -/
def consumeVarint (bs : Bytes) : Option (Nat × Bytes) :=
  match uvar 10 bs with
  | none => none
  | some (n, r) => if n < 18446744073709551616 then some (n, r) else none

/-- `protowire.ConsumeBytes` -/
def consumeBytes (bs : Bytes) : Option (Bytes × Bytes) :=
  match consumeVarint bs with
  | none => none
  | some (m, r) => if m > r.length then none else some (r.take m, r.drop m)

/-- `protowire.DefaultRecursionLimit` -/
def recursionLimit : Nat := 10000
/-- `protowire.MaxValidNumber` -/
def maxValidNumber : Nat := 536870911
/-- `math.MaxInt32`: the bound `DecodeTag` applies inside skipped groups -/
def maxGroupNumber : Nat := 2147483647

mutual
/-- `consumeFieldValueD(num, typ, b, depth)`; `lvl` = `DefaultRecursionLimit - depth`; returns the rest -/
def skipVal : Nat → Nat → Nat → Nat → Bytes → Option Bytes
  | 0, _, _, _, _ => none
  | fuel + 1, num, typ, lvl, bs =>
    if typ = 0 then (consumeVarint bs).map (·.2)
    else if typ = 1 then (if bs.length < 8 then none else some (bs.drop 8))
    else if typ = 2 then (consumeBytes bs).map (·.2)
    else if typ = 3 then (if lvl > recursionLimit then none else skipGroup fuel num lvl bs)
    else if typ = 5 then (if bs.length < 4 then none else some (bs.drop 4))
    else none
/-- the loop of the `StartGroupType` case: fields until the end-group tag of `num` -/
def skipGroup : Nat → Nat → Nat → Bytes → Option Bytes
  | 0, _, _, _ => none
  | fuel + 1, num, lvl, bs =>
    match consumeVarint bs with
    | none => none
    | some (tag, r) =>
      if tag / 8 > maxGroupNumber ∨ tag / 8 < 1 then none
      else if tag % 8 = 4 then (if tag / 8 = num then some r else none)
      else
        match skipVal fuel (tag / 8) (tag % 8) (lvl + 1) r with
        | none => none
        | some r' => skipGroup fuel num lvl r'
end

/-- the field loop of `unmarshalPointer` (fuel ≥ number of fields) -/
def parseLoop : Nat → Bytes → Option (List WField)
  | 0, bs => if bs = [] then some [] else none
  | fuel + 1, bs =>
    if bs = [] then some []
    else
      match consumeVarint bs with
      | none => none
      | some (tag, r) =>
        if tag / 8 < 1 ∨ tag / 8 > maxValidNumber then none
        else if tag % 8 = 0 then
          match consumeVarint r with
          | none => none
          | some (v, r') => (parseLoop fuel r').map (fun fs => ⟨tag / 8, .varint v⟩ :: fs)
        else if tag % 8 = 2 then
          match consumeBytes r with
          | none => none
          | some (b, r') => (parseLoop fuel r').map (fun fs => ⟨tag / 8, .len b⟩ :: fs)
        else if tag % 8 = 4 then none
        else
          match skipVal (2 * r.length + 2) (tag / 8) (tag % 8) 0 r with
          | none => none
          | some r' => parseLoop fuel r'

/-- `proto.Unmarshal` up to the message-specific fold -/
def goParse (bs : Bytes) : Option (List WField) := parseLoop bs.length bs

end Gossamer.C33
