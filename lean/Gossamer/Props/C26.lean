/-
C26 — theorems.  See Model/C26.lean for the model.

Spec vocabulary
* `AncI st a h` : `a` is the hash `h` or the hash of an ancestor of `h`, following parent links through the
  headers `GetHeader` answers (an inductive relation, no fuel).
* `Anc st a hdr` : `a` is `hdr`'s own hash or `AncI` of its parent — "`a` lies on `hdr`'s own fork".
  `hdr` itself need not be imported (the Go code supports headers "not fully imported by the blocktree").
* `Visible … hdr e` : a definition for epoch `e` exists that `hdr` may use: a persisted one, or an in-memory
  announcement made by a block on `hdr`'s own fork.
-/
import Gossamer.Model.C26
namespace Gossamer.C26

inductive AncI (st : St) : Nat → Nat → Prop
  | self {h : Nat} {x : Hdr} : getHeader st h = some x → AncI st h h
  | step {a h : Nat} {x : Hdr} : getHeader st h = some x → AncI st a x.parent → AncI st a h

def Anc (st : St) (a : Nat) (hdr : Hdr) : Prop := a = hdr.hash ∨ AncI st a hdr.parent

/-- the hash determines the header (true of Go's blake2b header hash) -/
def Consistent (st : St) (hdr : Hdr) : Prop := ∀ x, getHeader st hdr.hash = some x → x = hdr

/-- `hdr.number` is one more than its parent's, when the parent is known (AddBlock enforces it for
    imported headers; for a header that is not imported it is an assumption on the caller) -/
def HdrOK (st : St) (hdr : Hdr) : Prop := ∀ p, getHeader st hdr.parent = some p → p.number + 1 = hdr.number

structure WF (st : St) : Prop where
  nozero : ∀ x ∈ st.imported, x.hash ≠ 0
  num : ∀ x ∈ st.imported, HdrOK st x
  closed : ∀ x ∈ st.imported, x.parent ≠ 0 → (getHeader st x.parent).isSome
  uniq : ∀ x ∈ st.imported, getHeader st x.hash = some x

/-! ### basic facts -/

theorem getHeader_some {st : St} {h : Nat} {x : Hdr} (hx : getHeader st h = some x) :
    x ∈ st.imported ∧ x.hash = h := by
  unfold getHeader at hx
  exact ⟨List.mem_of_find?_eq_some hx, by simpa using List.find?_some hx⟩

theorem getHeader_zero {st : St} (hwf : WF st) : getHeader st 0 = none := by
  cases h : getHeader st 0 with
  | none => rfl
  | some x => exact absurd (getHeader_some h).2 (hwf.nozero x (getHeader_some h).1)

theorem consistent_of_getHeader {st : St} {h : Nat} {p : Hdr} (hp : getHeader st h = some p) :
    Consistent st p := by
  intro x hx
  rw [(getHeader_some hp).2, hp] at hx
  exact (Option.some.inj hx).symm

theorem AncI.inv {st : St} {a h : Nat} (H : AncI st a h) :
    ∃ x, getHeader st h = some x ∧ (a = h ∨ AncI st a x.parent) := by
  cases H with
  | self hx => exact ⟨_, hx, .inl rfl⟩
  | step hx hr => exact ⟨_, hx, .inr hr⟩

theorem ancList_sound (st : St) : ∀ (f h a : Nat), a ∈ ancList st f h → AncI st a h
  | 0, _, _, hm => by simp [ancList] at hm
  | f + 1, h, a, hm => by
    unfold ancList at hm
    cases hx : getHeader st h with
    | none => simp [hx] at hm
    | some x =>
      simp only [hx, List.mem_cons] at hm
      rcases hm with rfl | hm
      · exact .self hx
      · exact .step hx (ancList_sound st f x.parent a hm)

theorem isDesc_sound {st : St} {a d : Nat} (h : isDesc st a d = some true) : AncI st a d ∨ a = d := by
  unfold isDesc at h
  by_cases had : a = d
  · exact .inr had
  · simp only [had, if_false] at h
    cases ha : getHeader st a with
    | none => simp [ha] at h
    | some y =>
      cases hd : getHeader st d with
      | none => simp [ha, hd] at h
      | some x =>
        simp only [ha, hd, Option.some.injEq, decide_eq_true_eq] at h
        exact .inl (ancList_sound st _ _ _ h)

theorem hit_sound {st : St} {cur : Hdr} (hc : Consistent st cur) {e : Nat × Nat}
    (h : hit st cur.hash e = true) : Anc st e.1 cur := by
  unfold hit at h
  simp only [Bool.or_eq_true, decide_eq_true_eq, beq_iff_eq] at h
  rcases h with h | h
  · exact .inl h
  · rcases isDesc_sound h with h | h
    · obtain ⟨x, hx, hr⟩ := h.inv
      rcases hr with hr | hr
      · exact .inl hr
      · rw [hc _ hx] at hr; exact .inr hr
    · exact .inl h

/-! ### findAncestor: soundness, completeness, termination -/

theorem findAnc_sound (st : St) (entries : Entries) : ∀ (f : Nat) (cur : Hdr) (c : Entries),
    Consistent st cur → findAnc st entries f cur = .found c →
    c ≠ [] ∧ ∀ x ∈ c, x ∈ entries ∧ Anc st x.1 cur
  | 0, _, _, _, h => by simp [findAnc] at h
  | f + 1, cur, c, hc, h => by
    unfold findAnc at h
    simp only at h
    by_cases hne : entries.filter (hit st cur.hash) ≠ []
    · rw [if_pos hne] at h
      cases h
      refine ⟨hne, fun x hx => ?_⟩
      have := List.mem_filter.mp hx
      exact ⟨this.1, hit_sound hc this.2⟩
    · simp only [hne, if_false] at h
      by_cases hp0 : cur.parent = 0
      · simp [hp0] at h
      · simp only [hp0, if_false] at h
        cases hp : getHeader st cur.parent with
        | none => simp [hp] at h
        | some p =>
          simp only [hp] at h
          have ih := findAnc_sound st entries f p c (consistent_of_getHeader hp) h
          refine ⟨ih.1, fun x hx => ⟨(ih.2 x hx).1, ?_⟩⟩
          rcases (ih.2 x hx).2 with he | he
          · refine .inr ?_
            rw [he, (getHeader_some hp).2]
            exact .self hp
          · exact .inr (.step hp he)

theorem findAnc_complete (st : St) (hwf : WF st) (entries : Entries) : ∀ (f : Nat) (cur : Hdr),
    findAnc st entries f cur = .errHash → ∀ x ∈ entries, ¬ Anc st x.1 cur
  | 0, _, h => by simp [findAnc] at h
  | f + 1, cur, h => by
    unfold findAnc at h
    simp only at h
    by_cases hne : entries.filter (hit st cur.hash) ≠ []
    · simp [hne] at h
    · simp only [hne, if_false] at h
      have hnil : entries.filter (hit st cur.hash) = [] := by simpa using hne
      have hmiss : ∀ x ∈ entries, x.1 ≠ cur.hash := by
        intro x hx heq
        have hh : hit st cur.hash x = true := by simp [hit, heq]
        have : x ∈ entries.filter (hit st cur.hash) := List.mem_filter.mpr ⟨hx, hh⟩
        rw [hnil] at this
        exact absurd this (by simp)
      by_cases hp0 : cur.parent = 0
      · intro x hx ha
        rcases ha with ha | ha
        · exact hmiss x hx ha
        · rw [hp0] at ha
          obtain ⟨y, hy, _⟩ := ha.inv
          rw [getHeader_zero hwf] at hy
          cases hy
      · simp only [hp0, if_false] at h
        cases hp : getHeader st cur.parent with
        | none => simp [hp] at h
        | some p =>
          simp only [hp] at h
          have ih := findAnc_complete st hwf entries f p h
          intro x hx ha
          rcases ha with ha | ha
          · exact hmiss x hx ha
          · obtain ⟨y, hy, hr⟩ := ha.inv
            rw [hp] at hy
            cases hy
            rcases hr with hr | hr
            · exact ih x hx (.inl (hr.trans (getHeader_some hp).2.symm))
            · exact ih x hx (.inr hr)

theorem findAnc_fuel (st : St) (hwf : WF st) (entries : Entries) : ∀ (f : Nat) (cur : Hdr),
    HdrOK st cur → cur.number < f → findAnc st entries f cur ≠ .outOfFuel
  | 0, _, _, hlt => by omega
  | f + 1, cur, hok, hlt => by
    unfold findAnc
    simp only
    by_cases hne : entries.filter (hit st cur.hash) ≠ []
    · simp [hne]
    · simp only [hne, if_false]
      by_cases hp0 : cur.parent = 0
      · simp [hp0]
      · simp only [hp0, if_false]
        cases hp : getHeader st cur.parent with
        | none => simp
        | some p =>
          simp only
          have := hok p hp
          exact findAnc_fuel st hwf entries f p (hwf.num p (getHeader_some hp).1) (by omega)

theorem findAnc_mono (st : St) (entries : Entries) : ∀ (f f' : Nat) (cur : Hdr),
    findAnc st entries f cur ≠ .outOfFuel → f ≤ f' → findAnc st entries f' cur = findAnc st entries f cur
  | 0, _, _, h, _ => by simp [findAnc] at h
  | f + 1, 0, _, _, hle => by omega
  | f + 1, f' + 1, cur, h, hle => by
    unfold findAnc at h ⊢
    simp only at h ⊢
    by_cases hne : entries.filter (hit st cur.hash) ≠ []
    · simp [hne]
    · simp only [hne, if_false] at h ⊢
      by_cases hp0 : cur.parent = 0
      · simp [hp0]
      · simp only [hp0, if_false] at h ⊢
        cases hp : getHeader st cur.parent with
        | none => simp
        | some p =>
          simp only [hp] at h ⊢
          exact findAnc_mono st entries f f' p h (by omega)

theorem findAnc_errParent (st : St) (hwf : WF st) (entries : Entries) : ∀ (f : Nat) (cur : Hdr),
    findAnc st entries f cur = .errParent → getHeader st cur.parent = none ∧ cur.parent ≠ 0
  | 0, _, h => by simp [findAnc] at h
  | f + 1, cur, h => by
    unfold findAnc at h
    simp only at h
    by_cases hne : entries.filter (hit st cur.hash) ≠ []
    · simp [hne] at h
    · simp only [hne, if_false] at h
      by_cases hp0 : cur.parent = 0
      · simp [hp0] at h
      · simp only [hp0, if_false] at h
        cases hp : getHeader st cur.parent with
        | none => exact ⟨rfl, hp0⟩
        | some p =>
          simp only [hp] at h
          have ih := findAnc_errParent st hwf entries f p h
          have := hwf.closed p (getHeader_some hp).1 ih.2
          rw [ih.1] at this
          cases this

/-! ### Retrieve -/

theorem retrieve_mem {st : St} {m : EpochMap} {e : Nat} {hdr : Hdr} {c : Entries} (hc : Consistent st hdr)
    (h : retrieve st m e hdr = .mem c) :
    c ≠ [] ∧ ∃ es, lookup m e = some es ∧ ∀ x ∈ c, x ∈ es ∧ Anc st x.1 hdr := by
  unfold retrieve at h
  cases hl : lookup m e with
  | none => simp [hl] at h
  | some es =>
    simp only [hl] at h
    cases hf : findAnc st es (hdr.number + 1) hdr with
    | found c' =>
      simp only [hf, Res.mem.injEq] at h
      subst h
      have := findAnc_sound st es _ hdr c' hc hf
      exact ⟨this.1, es, rfl, this.2⟩
    | errHash => simp [hf] at h
    | errParent => simp [hf] at h
    | outOfFuel => simp [hf] at h

theorem retrieve_errHash {st : St} (hwf : WF st) {m : EpochMap} {e : Nat} {hdr : Hdr}
    (h : retrieve st m e hdr = .errHash) : ∃ es, lookup m e = some es ∧ ∀ x ∈ es, ¬ Anc st x.1 hdr := by
  unfold retrieve at h
  cases hl : lookup m e with
  | none => simp [hl] at h
  | some es =>
    simp only [hl] at h
    cases hf : findAnc st es (hdr.number + 1) hdr with
    | found c' => simp [hf] at h
    | errHash => exact ⟨es, rfl, findAnc_complete st hwf es _ hdr hf⟩
    | errParent => simp [hf] at h
    | outOfFuel => simp [hf] at h

theorem retrieve_errEpoch {st : St} {m : EpochMap} {e : Nat} {hdr : Hdr}
    (h : retrieve st m e hdr = .errEpoch) : lookup m e = none := by
  unfold retrieve at h
  cases hl : lookup m e with
  | none => rfl
  | some es =>
    simp only [hl] at h
    cases hf : findAnc st es (hdr.number + 1) hdr <;> simp [hf] at h

theorem retrieve_errParent {st : St} (hwf : WF st) {m : EpochMap} {e : Nat} {hdr : Hdr}
    (h : retrieve st m e hdr = .errParent) : getHeader st hdr.parent = none ∧ hdr.parent ≠ 0 := by
  unfold retrieve at h
  cases hl : lookup m e with
  | none => simp [hl] at h
  | some es =>
    simp only [hl] at h
    cases hf : findAnc st es (hdr.number + 1) hdr with
    | errParent => exact findAnc_errParent st hwf es _ hdr hf
    | found c' => simp [hf] at h
    | errHash => simp [hf] at h
    | outOfFuel => simp [hf] at h

theorem retrieve_no_timeout {st : St} (hwf : WF st) (m : EpochMap) (e : Nat) {hdr : Hdr} (hok : HdrOK st hdr) :
    retrieve st m e hdr ≠ .timeout := by
  unfold retrieve
  cases hl : lookup m e with
  | none => simp
  | some es =>
    simp only
    have := findAnc_fuel st hwf es (hdr.number + 1) hdr hok (by omega)
    cases hf : findAnc st es (hdr.number + 1) hdr with
    | outOfFuel => exact absurd hf this
    | found c' => simp
    | errHash => simp
    | errParent => simp

theorem retrieve_not_gen (st : St) (m : EpochMap) (e : Nat) (hdr : Hdr) : retrieve st m e hdr ≠ .gen := by
  unfold retrieve
  cases lookup m e with
  | none => simp
  | some es => simp only; cases findAnc st es (hdr.number + 1) hdr <;> simp

theorem retrieve_not_db (st : St) (m : EpochMap) (e : Nat) (hdr : Hdr) (d : Nat) :
    retrieve st m e hdr ≠ .db d := by
  unfold retrieve
  cases lookup m e with
  | none => simp
  | some es => simp only; cases findAnc st es (hdr.number + 1) hdr <;> simp

/-! ### property theorems about one state -/

/-- a definition for epoch `e` that `hdr` may use: persisted, or announced in memory on `hdr`'s own fork -/
def Visible (st : St) (m : EpochMap) (db : List (Nat × Nat)) (hdr : Hdr) (e : Nat) : Prop :=
  (lookup db e).isSome ∨ ∃ es x, lookup m e = some es ∧ x ∈ es ∧ Anc st x.1 hdr

/-- **own fork**: whatever in-memory epoch data `GetEpochDataRaw` can return (for any Go map order) was
    announced for that epoch by the queried block itself or by one of its ancestors. -/
theorem C26_own_fork {st : St} {hdr : Hdr} (hc : Consistent st hdr) {e : Nat} {c : Entries}
    (h : getEpochDataRaw st e hdr = .mem c) :
    c ≠ [] ∧ ∃ es, lookup st.nextEpoch e = some es ∧ ∀ x ∈ c, x ∈ es ∧ Anc st x.1 hdr := by
  unfold getEpochDataRaw at h
  by_cases he : e = 0
  · simp [he] at h
  · simp only [he, if_false] at h
    cases hd : lookup st.dbEpoch e with
    | some d => simp [hd] at h
    | none => simp only [hd] at h; exact retrieve_mem hc h

/-- **no foreign data**: the lookup fails with `errHashNotInMemory` exactly because nothing was announced for
    the epoch on the block's own fork — another fork's announcement is never handed out instead. -/
theorem C26_none_on_fork {st : St} (hwf : WF st) {hdr : Hdr} {e : Nat}
    (h : getEpochDataRaw st e hdr = .errHash) :
    ∃ es, lookup st.nextEpoch e = some es ∧ ∀ x ∈ es, ¬ Anc st x.1 hdr := by
  unfold getEpochDataRaw at h
  by_cases he : e = 0
  · simp [he] at h
  · simp only [he, if_false] at h
    cases hd : lookup st.dbEpoch e with
    | some d => simp [hd] at h
    | none => simp only [hd] at h; exact retrieve_errHash hwf h

/-- **fails promptly**: the `findAncestor` loop ends within `number + 1` iterations. -/
theorem C26_terminates {st : St} (hwf : WF st) (entries : Entries) {hdr : Hdr} (hok : HdrOK st hdr) :
    ∃ fuel, fuel ≤ hdr.number + 1 ∧ findAnc st entries fuel hdr ≠ .outOfFuel :=
  ⟨hdr.number + 1, Nat.le_refl _, findAnc_fuel st hwf entries _ hdr hok (by omega)⟩

/-- once the loop has ended, more iterations allowed change nothing: the fuelled model is the Go loop -/
theorem C26_fuel_stable (st : St) (entries : Entries) (f f' : Nat) (hdr : Hdr)
    (h : findAnc st entries f hdr ≠ .outOfFuel) (hle : f ≤ f') :
    findAnc st entries f' hdr = findAnc st entries f hdr := findAnc_mono st entries f f' hdr h hle

theorem getConfigData_no_timeout {st : St} (hwf : WF st) {hdr : Hdr} (hok : HdrOK st hdr) :
    ∀ e, getConfigData st hdr e ≠ .timeout
  | 0 => by simp [getConfigData]
  | e + 1 => by
    unfold getConfigData
    cases hd : lookup st.dbConfig (e + 1) with
    | some d => simp
    | none =>
      simp only
      have ht := retrieve_no_timeout hwf st.nextConfig (e + 1) hok
      cases hr : retrieve st st.nextConfig (e + 1) hdr with
      | timeout => exact absurd hr ht
      | errEpoch => exact getConfigData_no_timeout hwf hok e
      | errHash => exact getConfigData_no_timeout hwf hok e
      | gen => simp
      | db d => simp
      | mem c => simp
      | errParent => simp

/-- **never hangs**: neither lookup is still running after `number + 1` iterations -/
theorem C26_never_hangs {st : St} (hwf : WF st) {hdr : Hdr} (hok : HdrOK st hdr) (e : Nat) :
    getEpochDataRaw st e hdr ≠ .timeout ∧ getConfigData st hdr e ≠ .timeout := by
  refine ⟨?_, getConfigData_no_timeout hwf hok e⟩
  unfold getEpochDataRaw
  by_cases he : e = 0
  · simp [he]
  · simp only [he, if_false]
    cases hd : lookup st.dbEpoch e with
    | some d => simp
    | none => exact retrieve_no_timeout hwf st.nextEpoch e hok

/-- what `GetConfigData(e, hdr)` must be: the definition of the latest epoch `e' ≤ e` that has one visible to
    `hdr` (persisted first, else announced on `hdr`'s own fork), the genesis configuration when there is none;
    an error only when `hdr`'s parent is unknown. -/
def CfgSpec (st : St) (hdr : Hdr) (e : Nat) : Res → Prop
  | .gen => ∀ e', 1 ≤ e' → e' ≤ e → ¬ Visible st st.nextConfig st.dbConfig hdr e'
  | .db d => ∃ e', 1 ≤ e' ∧ e' ≤ e ∧ lookup st.dbConfig e' = some d ∧
      ∀ e'', e' < e'' → e'' ≤ e → ¬ Visible st st.nextConfig st.dbConfig hdr e''
  | .mem c => c ≠ [] ∧ ∃ e' es, 1 ≤ e' ∧ e' ≤ e ∧ lookup st.dbConfig e' = none ∧
      lookup st.nextConfig e' = some es ∧ (∀ x ∈ c, x ∈ es ∧ Anc st x.1 hdr) ∧
      ∀ e'', e' < e'' → e'' ≤ e → ¬ Visible st st.nextConfig st.dbConfig hdr e''
  | .errParent => getHeader st hdr.parent = none ∧ hdr.parent ≠ 0
  | .errEpoch => False
  | .errHash => False
  | .timeout => False

theorem CfgSpec_lift {st : St} {hdr : Hdr} {e : Nat} (hnv : ¬ Visible st st.nextConfig st.dbConfig hdr (e + 1))
    {r : Res} (h : CfgSpec st hdr e r) : CfgSpec st hdr (e + 1) r := by
  have key : ∀ e' e'', e' ≤ e → e' < e'' → e'' ≤ e + 1 →
      (∀ k, e' < k → k ≤ e → ¬ Visible st st.nextConfig st.dbConfig hdr k) →
      ¬ Visible st st.nextConfig st.dbConfig hdr e'' := by
    intro e' e'' _ h2 h3 hall
    by_cases hk : e'' = e + 1
    · rw [hk]; exact hnv
    · exact hall e'' h2 (by omega)
  cases r with
  | gen =>
    intro e' h1 h2
    by_cases hk : e' = e + 1
    · rw [hk]; exact hnv
    · exact h e' h1 (by omega)
  | db d =>
    obtain ⟨e', h1, h2, h3, h4⟩ := h
    exact ⟨e', h1, by omega, h3, fun e'' a b => key e' e'' h2 a b h4⟩
  | mem c =>
    obtain ⟨hne, e', es, h1, h2, h3, h4, h5, h6⟩ := h
    exact ⟨hne, e', es, h1, by omega, h3, h4, h5, fun e'' a b => key e' e'' h2 a b h6⟩
  | errParent => exact h
  | errEpoch => exact h
  | errHash => exact h
  | timeout => exact h

/-- **latest earlier configuration** -/
theorem C26_config_latest_earlier {st : St} (hwf : WF st) {hdr : Hdr} (hc : Consistent st hdr)
    (hok : HdrOK st hdr) : ∀ e, CfgSpec st hdr e (getConfigData st hdr e)
  | 0 => by
    simp only [getConfigData, CfgSpec]
    intro e' h1 h2; omega
  | e + 1 => by
    have ih := C26_config_latest_earlier hwf hc hok e
    unfold getConfigData
    cases hd : lookup st.dbConfig (e + 1) with
    | some d =>
      exact ⟨e + 1, by omega, Nat.le_refl _, hd, fun e'' a b => by omega⟩
    | none =>
      simp only
      cases hr : retrieve st st.nextConfig (e + 1) hdr with
      | errEpoch =>
        refine CfgSpec_lift ?_ ih
        rintro (hv | ⟨es, x, hl, _, _⟩)
        · simp [hd] at hv
        · rw [retrieve_errEpoch hr] at hl; cases hl
      | errHash =>
        refine CfgSpec_lift ?_ ih
        obtain ⟨es, hl, hno⟩ := retrieve_errHash hwf hr
        rintro (hv | ⟨es', x, hl', hx, ha⟩)
        · simp [hd] at hv
        · rw [hl] at hl'; cases hl'; exact hno x hx ha
      | mem c =>
        obtain ⟨hne, es, hl, hall⟩ := retrieve_mem hc hr
        exact ⟨hne, e + 1, es, by omega, Nat.le_refl _, hd, hl, hall, fun e'' a b => by omega⟩
      | errParent => exact retrieve_errParent hwf hr
      | timeout => exact absurd hr (retrieve_no_timeout hwf _ _ hok)
      | gen => exact absurd hr (retrieve_not_gen _ _ _ _)
      | db d => exact absurd hr (retrieve_not_db _ _ _ _ _)

/-! ### all histories: the invariant `WF` and where map entries come from -/

theorem getHeader_congr {st st' : St} (h : st'.imported = st.imported) (k : Nat) :
    getHeader st' k = getHeader st k := by unfold getHeader; rw [h]

theorem WF_congr {st st' : St} (h : st'.imported = st.imported) (hwf : WF st) : WF st' where
  nozero := by rw [h]; exact hwf.nozero
  num := by
    intro x hx p hp
    rw [h] at hx; rw [getHeader_congr h] at hp
    exact hwf.num x hx p hp
  closed := by
    intro x hx hp
    rw [h] at hx; rw [getHeader_congr h]
    exact hwf.closed x hx hp
  uniq := by
    intro x hx
    rw [h] at hx; rw [getHeader_congr h]
    exact hwf.uniq x hx

theorem WF_init (l : Nat) : WF (St.init l) where
  nozero := by intro x hx; simp [St.init] at hx; subst hx; decide
  num := by
    intro x hx p hp
    simp [St.init] at hx; subst hx
    simp [getHeader, St.init, genesis] at hp
  closed := by intro x hx hp; simp [St.init] at hx; subst hx; simp [genesis] at hp
  uniq := by intro x hx; simp [St.init] at hx; subst hx; simp [getHeader, St.init]

theorem getHeader_add {st : St} {h : Hdr} (k : Nat) :
    getHeader { st with imported := st.imported ++ [h] } k =
      match getHeader st k with
      | some x => some x
      | none => if h.hash = k then some h else none := by
  unfold getHeader
  simp only [List.find?_append]
  cases st.imported.find? (fun x => decide (x.hash = k)) with
  | some x => simp
  | none => by_cases hk : h.hash = k <;> simp [hk]

theorem WF_add {st st' : St} {h : Hdr} (hwf : WF st) (h0 : h.hash ≠ 0) (ha : addBlock st h = some st') :
    WF st' := by
  unfold addBlock at ha
  cases hp : getHeader st h.parent with
  | none => simp [hp] at ha
  | some p =>
    simp only [hp] at ha
    cases hh : getHeader st h.hash with
    | some y => simp [hh] at ha
    | none =>
      simp only [hh, Option.isSome_none, Bool.false_eq_true, if_false] at ha
      by_cases hn : p.number + 1 ≠ h.number
      · simp [hn] at ha
      · simp only [hn, if_false, Option.some.injEq] at ha
        subst ha
        have hnum : p.number + 1 = h.number := by omega
        refine ⟨?_, ?_, ?_, ?_⟩
        · intro x hx
          simp only [List.mem_append, List.mem_singleton] at hx
          rcases hx with hx | rfl
          · exact hwf.nozero x hx
          · exact h0
        · intro x hx q hq
          simp only [List.mem_append, List.mem_singleton] at hx
          rw [getHeader_add] at hq
          rcases hx with hx | rfl
          · cases hxp : getHeader st x.parent with
            | some y => simp only [hxp, Option.some.injEq] at hq; subst hq; exact hwf.num x hx y hxp
            | none =>
              by_cases hz : x.parent = 0
              · simp only [hxp] at hq
                by_cases hk : h.hash = x.parent
                · exact absurd (hk.trans hz) h0
                · simp [hk] at hq
              · have := hwf.closed x hx hz
                rw [hxp] at this; cases this
          · simp only [hp, Option.some.injEq] at hq; subst hq; exact hnum
        · intro x hx hz
          simp only [List.mem_append, List.mem_singleton] at hx
          rw [getHeader_add]
          rcases hx with hx | rfl
          · have := hwf.closed x hx hz
            cases hxp : getHeader st x.parent with
            | some y => simp
            | none => rw [hxp] at this; cases this
          · simp [hp]
        · intro x hx
          simp only [List.mem_append, List.mem_singleton] at hx
          rw [getHeader_add]
          rcases hx with hx | rfl
          · simp [hwf.uniq x hx]
          · simp [hh]

/-- the only assumption on a history: no imported header hashes to `common.EmptyHash` -/
def OpOK : Op → Prop
  | .add h => h.hash ≠ 0
  | _ => True

instance : DecidablePred OpOK := fun o => by
  cases o <;> unfold OpOK <;> infer_instance

theorem WF_step {st : St} (hwf : WF st) (o : Op) (ho : OpOK o) : WF (step st o).1 := by
  cases o with
  | add h =>
    simp only [step]
    cases ha : addBlock st h with
    | some st' => exact WF_add hwf ho ha
    | none => exact hwf
  | ann h d =>
    simp only [step]
    cases epochForBlock st h with
    | some e => exact WF_congr (st := st) rfl hwf
    | none => exact hwf
  | cfg h d =>
    simp only [step]
    cases epochForBlock st h with
    | some e => exact WF_congr (st := st) rfl hwf
    | none => exact hwf
  | dbe e d => exact WF_congr (st := st) rfl hwf
  | dbc e d => exact WF_congr (st := st) rfl hwf
  | restart => exact hwf

theorem foldl_inv {σ α : Type} (f : σ → α → σ) (P : List α → σ → Prop)
    (hstep : ∀ pre s o, P pre s → P (pre ++ [o]) (f s o)) :
    ∀ (ops pre : List α) (s : σ), P pre s → P (pre ++ ops) (ops.foldl f s)
  | [], pre, s, h => by simpa using h
  | o :: ops, pre, s, h => by
    have := foldl_inv f P hstep ops (pre ++ [o]) (f s o) (hstep pre s o h)
    simpa using this

/-- **reachable states are well formed** (for every history) -/
theorem C26_wf_reachable (l : Nat) (ops : List Op) (hops : ∀ o ∈ ops, OpOK o) : WF (run l ops) := by
  have := foldl_inv (fun s o => (step s o).1) (fun pre s => (∀ o ∈ pre, OpOK o) → WF s)
    (fun pre s o ih hpre => WF_step (ih (fun o' ho' => hpre o' (by simp [ho']))) o (hpre o (by simp)))
    ops [] (St.init l) (fun _ => WF_init l)
  exact this (by simpa using hops)

/-! #### Go-map lemmas -/

theorem lookup_cons {β : Type} (p : Nat × β) (m : List (Nat × β)) (k : Nat) :
    lookup (p :: m) k = if p.1 = k then some p.2 else lookup m k := by
  unfold lookup
  by_cases h : p.1 = k <;> simp [h]

theorem lookup_mem {β : Type} : ∀ (m : List (Nat × β)) (k : Nat) (v : β), lookup m k = some v → (k, v) ∈ m
  | [], _, _, h => by simp [lookup] at h
  | p :: m, k, v, h => by
    rw [lookup_cons] at h
    by_cases hp : p.1 = k
    · simp only [hp, if_true, Option.some.injEq] at h
      have : p = (k, v) := by cases p; simp_all
      simp [this]
    · simp only [hp, if_false] at h
      exact List.mem_cons_of_mem _ (lookup_mem m k v h)

theorem mem_insert {β : Type} {m : List (Nat × β)} {k : Nat} {v : β} {x : Nat × β}
    (h : x ∈ insert m k v) : x = (k, v) ∨ x ∈ m := by
  unfold insert at h
  by_cases ha : m.any (fun p => p.1 = k) = true
  · simp only [ha, if_true, List.mem_map] at h
    obtain ⟨y, hy, hxy⟩ := h
    by_cases hk : y.1 = k
    · simp only [hk, if_true] at hxy; exact .inl hxy.symm
    · simp only [hk, if_false] at hxy; exact .inr (hxy ▸ hy)
  · simp only [ha, Bool.false_eq_true, if_false, List.mem_append, List.mem_singleton] at h
    rcases h with h | h
    · exact .inr h
    · exact .inl h

theorem lookup_insert_ne {β : Type} (m : List (Nat × β)) (k k' : Nat) (v : β) (hne : k' ≠ k) :
    lookup (insert m k v) k' = lookup m k' := by
  unfold insert
  by_cases ha : m.any (fun p => p.1 = k) = true
  · simp only [ha, if_true]
    clear ha
    induction m with
    | nil => rfl
    | cons p m ih =>
      rw [List.map_cons, lookup_cons, lookup_cons, ih]
      by_cases hp : p.1 = k
      · have : ¬ p.1 = k' := by omega
        simp [hp, Ne.symm hne]
      · simp [hp]
  · simp only [ha, Bool.false_eq_true, if_false]
    clear ha
    induction m with
    | nil => simp [Ne.symm hne, lookup]
    | cons p m ih => rw [List.cons_append, lookup_cons, lookup_cons, ih]

theorem lookup_insert_self {β : Type} (m : List (Nat × β)) (k : Nat) (v w : β)
    (h : lookup (insert m k v) k = some w) : w = v := by
  have hm := lookup_mem _ _ _ h
  rcases mem_insert hm with he | hmem
  · exact (Prod.mk.inj he).2
  · -- (k, w) was already in m: then `any` holds and the entry was rewritten
    unfold insert at h
    have ha : m.any (fun p => p.1 = k) = true := List.any_eq_true.mpr ⟨(k, w), hmem, by simp⟩
    simp only [ha, if_true] at h
    clear ha hm hmem
    induction m with
    | nil => simp [lookup] at h
    | cons p m ih =>
      rw [List.map_cons, lookup_cons] at h
      by_cases hp : p.1 = k
      · simp [hp] at h; exact h.symm
      · simp only [hp, if_false] at h; exact ih h

/-- an entry found in the map after `store` is the stored one or was there before -/
theorem store_mem {m : EpochMap} {ep hash d e : Nat} {es : Entries} {x : Nat × Nat}
    (hl : lookup (store m ep hash d) e = some es) (hx : x ∈ es) :
    x = (hash, d) ∨ ∃ es0, lookup m e = some es0 ∧ x ∈ es0 := by
  unfold store at hl
  by_cases hee : e = ep
  · subst hee
    cases hm : lookup m e with
    | none =>
      simp only [hm] at hl
      have := lookup_insert_self _ _ _ _ hl
      subst this
      simp at hx; exact .inl hx
    | some es0 =>
      simp only [hm] at hl
      have := lookup_insert_self _ _ _ _ hl
      subst this
      rcases mem_insert hx with h | h
      · exact .inl h
      · exact .inr ⟨es0, rfl, h⟩
  · cases hm : lookup m ep with
    | none =>
      simp only [hm] at hl
      rw [lookup_insert_ne _ _ _ _ hee] at hl
      exact .inr ⟨es, hl, hx⟩
    | some es0 =>
      simp only [hm] at hl
      rw [lookup_insert_ne _ _ _ _ hee] at hl
      exact .inr ⟨es, hl, hx⟩

/-- every entry of the epoch-data map was put there by a `HandleBABEDigest` call for the block it names -/
def SrcE (ops : List Op) (st : St) : Prop :=
  ∀ e es x, lookup st.nextEpoch e = some es → x ∈ es → ∃ h, Op.ann h x.2 ∈ ops ∧ h.hash = x.1

def SrcC (ops : List Op) (st : St) : Prop :=
  ∀ e es x, lookup st.nextConfig e = some es → x ∈ es → ∃ h, Op.cfg h x.2 ∈ ops ∧ h.hash = x.1

theorem Src_step {pre : List Op} {st : St} (o : Op) (h : SrcE pre st ∧ SrcC pre st) :
    SrcE (pre ++ [o]) (step st o).1 ∧ SrcC (pre ++ [o]) (step st o).1 := by
  have weakE : ∀ st', st'.nextEpoch = st.nextEpoch → SrcE (pre ++ [o]) st' := by
    intro st' heq e es x hl hx
    rw [heq] at hl
    obtain ⟨hh, h1, h2⟩ := h.1 e es x hl hx
    exact ⟨hh, by simp [h1], h2⟩
  have weakC : ∀ st', st'.nextConfig = st.nextConfig → SrcC (pre ++ [o]) st' := by
    intro st' heq e es x hl hx
    rw [heq] at hl
    obtain ⟨hh, h1, h2⟩ := h.2 e es x hl hx
    exact ⟨hh, by simp [h1], h2⟩
  cases o with
  | add hd =>
    simp only [step]
    cases ha : addBlock st hd with
    | none => exact ⟨weakE _ rfl, weakC _ rfl⟩
    | some st' =>
      unfold addBlock at ha
      cases hp : getHeader st hd.parent with
      | none => simp [hp] at ha
      | some p =>
        simp only [hp] at ha
        by_cases c1 : (getHeader st hd.hash).isSome = true
        · simp [c1] at ha
        · by_cases c2 : p.number + 1 ≠ hd.number
          · simp [c1, c2] at ha
          · simp only [c1, c2, if_false, Option.some.injEq, Bool.false_eq_true] at ha
            subst ha
            exact ⟨weakE _ rfl, weakC _ rfl⟩
  | ann hd d =>
    simp only [step]
    cases epochForBlock st hd with
    | none => exact ⟨weakE _ rfl, weakC _ rfl⟩
    | some ep =>
      refine ⟨?_, weakC _ rfl⟩
      intro e es x hl hx
      rcases store_mem hl hx with hnew | ⟨es0, hl0, hx0⟩
      · exact ⟨hd, by simp [hnew], by simp [hnew]⟩
      · obtain ⟨hh, h1, h2⟩ := h.1 e es0 x hl0 hx0
        exact ⟨hh, by simp [h1], h2⟩
  | cfg hd d =>
    simp only [step]
    cases epochForBlock st hd with
    | none => exact ⟨weakE _ rfl, weakC _ rfl⟩
    | some ep =>
      refine ⟨weakE _ rfl, ?_⟩
      intro e es x hl hx
      rcases store_mem hl hx with hnew | ⟨es0, hl0, hx0⟩
      · exact ⟨hd, by simp [hnew], by simp [hnew]⟩
      · obtain ⟨hh, h1, h2⟩ := h.2 e es0 x hl0 hx0
        exact ⟨hh, by simp [h1], h2⟩
  | dbe e d => exact ⟨weakE _ rfl, weakC _ rfl⟩
  | dbc e d => exact ⟨weakE _ rfl, weakC _ rfl⟩
  | restart => exact ⟨weakE _ rfl, weakC _ rfl⟩

theorem Src_reachable (l : Nat) (ops : List Op) : SrcE ops (run l ops) ∧ SrcC ops (run l ops) := by
  have := foldl_inv (fun s o => (step s o).1) (fun pre s => SrcE pre s ∧ SrcC pre s)
    (fun pre s o ih => Src_step o ih) ops [] (St.init l)
    ⟨by intro e es x hl; simp [St.init, lookup] at hl, by intro e es x hl; simp [St.init, lookup] at hl⟩
  simpa [run] using this

/-! ### the property over all histories -/

/-- the hypotheses `Consistent`/`HdrOK` hold for every imported header of a well-formed state -/
theorem C26_imported_header_ok {st : St} (hwf : WF st) {x : Hdr} (hx : x ∈ st.imported) :
    Consistent st x ∧ HdrOK st x :=
  ⟨fun y hy => by rw [hwf.uniq x hx] at hy; exact (Option.some.inj hy).symm, hwf.num x hx⟩

/-- **own fork, all histories**: any in-memory epoch data returned for `hdr` after any sequence of imports,
    announcements, persisted definitions and restarts was announced (`HandleBABEDigest`) by `hdr` itself or by
    one of its ancestors. -/
theorem C26_own_fork_history (l : Nat) (ops : List Op) (hdr : Hdr) (hc : Consistent (run l ops) hdr)
    (e : Nat) (c : Entries) (h : getEpochDataRaw (run l ops) e hdr = .mem c) :
    c ≠ [] ∧ ∀ x ∈ c, Anc (run l ops) x.1 hdr ∧ ∃ b, Op.ann b x.2 ∈ ops ∧ b.hash = x.1 := by
  obtain ⟨hne, es, hl, hall⟩ := C26_own_fork hc h
  exact ⟨hne, fun x hx => ⟨(hall x hx).2, (Src_reachable l ops).1 e es x hl (hall x hx).1⟩⟩

/-- the same for the configuration -/
theorem C26_config_own_fork_history (l : Nat) (ops : List Op) (hops : ∀ o ∈ ops, OpOK o) (hdr : Hdr)
    (hc : Consistent (run l ops) hdr) (hok : HdrOK (run l ops) hdr)
    (e : Nat) (c : Entries) (h : getConfigData (run l ops) hdr e = .mem c) :
    c ≠ [] ∧ ∀ x ∈ c, Anc (run l ops) x.1 hdr ∧ ∃ b, Op.cfg b x.2 ∈ ops ∧ b.hash = x.1 := by
  have := C26_config_latest_earlier (C26_wf_reachable l ops hops) hc hok e
  rw [h] at this
  obtain ⟨hne, e', es, _, _, _, hl, hall, _⟩ := this
  exact ⟨hne, fun x hx => ⟨(hall x hx).2, (Src_reachable l ops).2 e' es x hl (hall x hx).1⟩⟩

/-- **prompt, all histories**: no lookup hangs, for any header whose number fits its parent's -/
theorem C26_prompt_history (l : Nat) (ops : List Op) (hops : ∀ o ∈ ops, OpOK o) (hdr : Hdr)
    (hok : HdrOK (run l ops) hdr) (e : Nat) :
    getEpochDataRaw (run l ops) e hdr ≠ .timeout ∧ getConfigData (run l ops) hdr e ≠ .timeout :=
  C26_never_hangs (C26_wf_reachable l ops hops) hok e

/-- **the epoch of a block is counted on its own fork**: when several blocks have number 1, the first slot
    `GetEpochForBlock` uses is the slot of the queried block itself (number 1) or of the number-1 block that
    is its ancestor; with a single number-1 block there is only one candidate. -/
theorem C26_first_slot_own_fork {st : St} {bh s : Nat} (h : retrieveFirst st bh = .ok s) :
    (∃ x, st.imported.filter (fun x => x.number = 1) = [x] ∧ s = x.slot) ∨
    ∃ b, getHeader st bh = some b ∧
      ((b.number = 1 ∧ s = b.slot) ∨
        ∃ x ∈ st.imported, x.number = 1 ∧ (AncI st x.hash bh ∨ x.hash = bh) ∧ s = x.slot) := by
  unfold retrieveFirst at h
  cases hl : st.imported.filter (fun x => x.number = 1) with
  | nil => simp [hl] at h
  | cons x t =>
    cases t with
    | nil =>
      simp only [hl, Slot.ok.injEq] at h
      exact .inl ⟨x, rfl, h.symm⟩
    | cons y t' =>
      simp only [hl] at h
      cases hb : getHeader st bh with
      | none => simp [hb] at h
      | some b =>
        simp only [hb] at h
        refine .inr ⟨b, rfl, ?_⟩
        by_cases h1 : b.number = 1
        · simp only [h1, if_true, Slot.ok.injEq] at h
          exact .inl ⟨h1, h.symm⟩
        · simp only [h1, if_false] at h
          cases hf : (x :: y :: t').find? (fun x => isDesc st x.hash bh == some true) with
          | none => simp [hf] at h
          | some z =>
            simp only [hf, Slot.ok.injEq] at h
            have hz := List.mem_of_find?_eq_some hf
            have hzp := List.find?_some hf
            rw [← hl] at hz
            have hzm := List.mem_filter.mp hz
            refine .inr ⟨z, hzm.1, by simpa using hzm.2, isDesc_sound (by simpa using hzp), h.symm⟩

/-! ### the loop before the repair, and concrete (non-vacuous) instances -/

def wA1 : Hdr := { hash := 2, parent := 1, number := 1, slot := 10 }
def wA2 : Hdr := { hash := 3, parent := 2, number := 2, slot := 11 }
def wA3 : Hdr := { hash := 4, parent := 3, number := 3, slot := 12 }
def wB2 : Hdr := { hash := 5, parent := 2, number := 2, slot := 11 }
/-- chain g ← a1 ← a2 ← a3, sibling b2 of a2 announces epoch data 7 and config 9 -/
def wOps : List Op := [.add wA1, .add wA2, .add wA3, .add wB2, .ann wB2 7, .cfg wB2 9]
def wSt : St := run 200 wOps

def wLit : St :=
  { epochLen := 200, imported := [genesis, wA1, wA2, wA3, wB2], nextEpoch := [(1, [(5, 7)])],
    nextConfig := [(1, [(5, 9)])], dbEpoch := [], dbConfig := [] }

theorem wSt_eq : wSt = wLit := by rfl

theorem old_loop_at_a1 : ∀ fuel, findAncOld wSt [(5, 7)] wA2 fuel wA1 = .outOfFuel
  | 0 => rfl
  | fuel + 1 => by
    have h1 : [((5 : Nat), (7 : Nat))].filter (hit wSt wA1.hash) = [] := by rw [wSt_eq]; decide
    have h2 : getHeader wSt wA2.parent = some wA1 := by rw [wSt_eq]; decide
    unfold findAncOld
    simp only [h1, h2, ne_eq, not_true_eq_false, if_false]
    have h3 : wA1.parent ≠ 0 := by decide
    simp only [h3, if_false]
    exact old_loop_at_a1 fuel

/-- **the defect that was repaired**: with `GetHeader(header.ParentHash)` the loop never ends for block a2 of
    the witness (no amount of fuel suffices), i.e. `C26_terminates` was false for the code as found. -/
theorem C26_old_loop_diverges : ∀ fuel, findAncOld wSt [(5, 7)] wA2 fuel wA2 = .outOfFuel
  | 0 => rfl
  | fuel + 1 => by
    have h1 : [((5 : Nat), (7 : Nat))].filter (hit wSt wA2.hash) = [] := by rw [wSt_eq]; decide
    have h2 : getHeader wSt wA2.parent = some wA1 := by rw [wSt_eq]; decide
    unfold findAncOld
    simp only [h1, h2, ne_eq, not_true_eq_false, if_false]
    have h3 : wA2.parent ≠ 0 := by decide
    simp only [h3, if_false]
    exact old_loop_at_a1 fuel

/-- the repaired loop on the same witness: prompt failure for a2/a3, own data for b2, and the genesis
    configuration (not an error, not b2's) for the blocks of the other fork -/
example : getEpochDataRaw wSt 1 wA2 = .errHash := by rw [wSt_eq]; decide
example : getEpochDataRaw wSt 1 wA3 = .errHash := by rw [wSt_eq]; decide
example : getEpochDataRaw wSt 1 wB2 = .mem [(5, 7)] := by rw [wSt_eq]; decide
example : getConfigData wSt wA3 1 = .gen := by rw [wSt_eq]; decide
example : getConfigData wSt wB2 3 = .mem [(5, 9)] := by rw [wSt_eq]; decide
example : ∀ o ∈ wOps, OpOK o := by decide
example : Consistent wSt wA3 ∧ HdrOK wSt wA3 :=
  C26_imported_header_ok (C26_wf_reachable 200 wOps (by decide)) (by show wA3 ∈ wSt.imported; rw [wSt_eq]; decide)

end Gossamer.C26
