/-
C26 — theorems.  Model: Model/C26.lean (over the block state of Model/C17, finalisation included);
per-state lemmas: Lib/C26Core.lean; header-table invariant: Lib/C26Db.lean.

Spec vocabulary
* `AncI st a h` : `a` is the hash `h` or the hash of an ancestor of `h`, following parent links through the
  headers `GetHeader` answers (unfinalised blocks and the finalised header table) — no fuel.
* `Anc st a hdr` : `a` is `hdr`'s own hash or `AncI` of its parent — "`a` lies on `hdr`'s own fork".
  `hdr` itself need not be imported ("not fully imported by the blocktree", the block being imported).
* `Visible … hdr e` : a definition for epoch `e` exists that `hdr` may use: a persisted one, or an in-memory
  announcement made by a block on `hdr`'s own fork.
* `WF u st` : the invariant of reachable block states (C17's `Inv` + the header-table invariant `DbInv`).
-/
import Gossamer.Lib.C26Core
namespace Gossamer.C26
open Gossamer.C17 (Blk findB)

/-! ### Go-map lemmas -/

theorem lookup_cons {β : Type} (p : Nat × β) (m : List (Nat × β)) (k : Nat) :
    lookup (p :: m) k = if p.1 = k then some p.2 else lookup m k := by
  unfold lookup
  by_cases h : p.1 = k <;> simp [h]

theorem lookup_mem {β : Type} : ∀ (m : List (Nat × β)) (k : Nat) (v : β), lookup m k = some v → (k, v) ∈ m
  | [], _, _, h => by simp [lookup] at h
  | p :: m, k, v, h => by
    rw [lookup_cons] at h
    by_cases hp : p.1 = k
    · simp only [hp, if_true, Option.some.injEq] at h
      have : p = (k, v) := by cases p; simp_all
      simp [this]
    · simp only [hp, if_false] at h
      exact List.mem_cons_of_mem _ (lookup_mem m k v h)

theorem mem_insert {β : Type} {m : List (Nat × β)} {k : Nat} {v : β} {x : Nat × β}
    (h : x ∈ insert m k v) : x = (k, v) ∨ x ∈ m := by
  unfold insert at h
  by_cases ha : m.any (fun p => p.1 = k) = true
  · simp only [ha, if_true, List.mem_map] at h
    obtain ⟨y, hy, hxy⟩ := h
    by_cases hk : y.1 = k
    · simp only [hk, if_true] at hxy; exact .inl hxy.symm
    · simp only [hk, if_false] at hxy; exact .inr (hxy ▸ hy)
  · simp only [ha, Bool.false_eq_true, if_false, List.mem_append, List.mem_singleton] at h
    rcases h with h | h
    · exact .inr h
    · exact .inl h

theorem mem_erase {β : Type} {m : List (Nat × β)} {k : Nat} {x : Nat × β} (h : x ∈ erase m k) : x ∈ m :=
  (List.mem_filter.mp h).1

/-- `x` is an entry of some inner map of `m` -/
def EntryIn (m : EpochMap) (x : Nat × Nat) : Prop := ∃ p ∈ m, x ∈ p.2

theorem entryIn_of_lookup {m : EpochMap} {e : Nat} {es : Entries} {x : Nat × Nat}
    (hl : lookup m e = some es) (hx : x ∈ es) : EntryIn m x := ⟨(e, es), lookup_mem m e es hl, hx⟩

theorem entryIn_store {m : EpochMap} {ep hash d : Nat} {x : Nat × Nat} (h : EntryIn (store m ep hash d) x) :
    x = (hash, d) ∨ EntryIn m x := by
  obtain ⟨p, hp, hx⟩ := h
  unfold store at hp
  cases hm : lookup m ep with
  | none =>
    simp only [hm] at hp
    rcases mem_insert hp with h1 | h1
    · subst h1; simp at hx; exact .inl hx
    · exact .inr ⟨p, h1, hx⟩
  | some es =>
    simp only [hm] at hp
    rcases mem_insert hp with h1 | h1
    · subst h1
      rcases mem_insert hx with h2 | h2
      · exact .inl h2
      · exact .inr (entryIn_of_lookup hm h2)
    · exact .inr ⟨p, h1, hx⟩

/-! ### Retrieve / RetrieveAndUpdate -/

theorem retrieve_mem {st : St} (inv : C17.Inv genesis st.bs) {m : EpochMap} {e : Nat} {hdr : Blk} {c : Entries}
    (hc : Consistent st hdr) (h : retrieve st m e hdr = .mem c) :
    c ≠ [] ∧ ∃ es, lookup m e = some es ∧ ∀ x ∈ c, x ∈ es ∧ Anc st x.1 hdr := by
  unfold retrieve at h
  cases hl : lookup m e with
  | none => simp [hl] at h
  | some es =>
    simp only [hl] at h
    cases hf : findAnc st es (hdr.number + 1) hdr with
    | found c' =>
      simp only [hf, Res.ofFA, Res.mem.injEq] at h
      subst h
      have := findAnc_sound st inv es _ hdr c' hc hf
      exact ⟨this.1, es, rfl, this.2⟩
    | errHash => simp [hf, Res.ofFA] at h
    | errParent => simp [hf, Res.ofFA] at h
    | outOfFuel => simp [hf, Res.ofFA] at h

theorem retrieve_errHash {st : St} (hz : getHeader st 0 = none) {m : EpochMap} {e : Nat} {hdr : Blk}
    (h : retrieve st m e hdr = .errHash) : ∃ es, lookup m e = some es ∧ ∀ x ∈ es, ¬ Anc st x.1 hdr := by
  unfold retrieve at h
  cases hl : lookup m e with
  | none => simp [hl] at h
  | some es =>
    simp only [hl] at h
    cases hf : findAnc st es (hdr.number + 1) hdr with
    | found c' => simp [hf, Res.ofFA] at h
    | errHash => exact ⟨es, rfl, findAnc_complete st hz es _ hdr hf⟩
    | errParent => simp [hf, Res.ofFA] at h
    | outOfFuel => simp [hf, Res.ofFA] at h

theorem retrieve_errEpoch {st : St} {m : EpochMap} {e : Nat} {hdr : Blk}
    (h : retrieve st m e hdr = .errEpoch) : lookup m e = none := by
  unfold retrieve at h
  cases hl : lookup m e with
  | none => rfl
  | some es =>
    simp only [hl] at h
    cases hf : findAnc st es (hdr.number + 1) hdr <;> simp [hf, Res.ofFA] at h

theorem retrieve_no_timeout {u : Univ} {st : St} (w : WF u st) (m : EpochMap) (e : Nat) {hdr : Blk}
    (hok : HdrOK st hdr) : retrieve st m e hdr ≠ .timeout := by
  unfold retrieve
  cases hl : lookup m e with
  | none => simp
  | some es =>
    simp only
    have := findAnc_fuel st w es (hdr.number + 1) hdr hok (by omega)
    cases hf : findAnc st es (hdr.number + 1) hdr with
    | outOfFuel => exact absurd hf this
    | found c' => simp [Res.ofFA]
    | errHash => simp [Res.ofFA]
    | errParent => simp [Res.ofFA]

theorem retrieve_not_gen (st : St) (m : EpochMap) (e : Nat) (hdr : Blk) : retrieve st m e hdr ≠ .gen := by
  unfold retrieve
  cases lookup m e with
  | none => simp
  | some es => simp only; cases findAnc st es (hdr.number + 1) hdr <;> simp [Res.ofFA]

theorem retrieve_not_db (st : St) (m : EpochMap) (e : Nat) (hdr : Blk) (d : Nat) :
    retrieve st m e hdr ≠ .db d := by
  unfold retrieve
  cases lookup m e with
  | none => simp
  | some es => simp only; cases findAnc st es (hdr.number + 1) hdr <;> simp [Res.ofFA]

/-- what `RetrieveAndUpdate` answers is what `Retrieve` answers -/
theorem retrieveAndUpdate_res (st : St) (m : EpochMap) (old new : Nat) (hdr : Blk) :
    (retrieveAndUpdate st m old new hdr).2 = retrieve st m old hdr ∨
      ((retrieveAndUpdate st m old new hdr).2 = .errHash ∧ retrieve st m old hdr = .mem []) := by
  unfold retrieveAndUpdate retrieve
  cases lookup m old with
  | none => exact .inl rfl
  | some es =>
    simp only
    cases hf : findAnc st es (hdr.number + 1) hdr with
    | found c => cases c with
      | nil => exact .inr ⟨rfl, rfl⟩
      | cons x r => exact .inl rfl
    | errHash => exact .inl rfl
    | errParent => exact .inl rfl
    | outOfFuel => exact .inl rfl

/-- every entry of the map after `RetrieveAndUpdate` was an entry before: entries only move between epochs -/
theorem retrieveAndUpdate_entries (st : St) (m : EpochMap) (old new : Nat) (hdr : Blk) (x : Nat × Nat)
    (h : EntryIn (retrieveAndUpdate st m old new hdr).1 x) : EntryIn m x := by
  unfold retrieveAndUpdate at h
  cases hl : lookup m old with
  | none => simpa [hl] using h
  | some es =>
    simp only [hl] at h
    cases hf : findAnc st es (hdr.number + 1) hdr with
    | errHash => simpa [hf] using h
    | errParent => simpa [hf] using h
    | outOfFuel => simpa [hf] using h
    | found c =>
      cases c with
      | nil => simpa [hf] using h
      | cons y r =>
        simp only [hf] at h
        have hy : y ∈ es := by
          -- `found` lists a filter of `es` at some level: extract membership from the definition
          have : ∀ (f : Nat) (cur : Blk) (c : Entries), findAnc st es f cur = .found c → ∀ z ∈ c, z ∈ es := by
            intro f
            induction f with
            | zero => intro cur c hc; simp [findAnc] at hc
            | succ k ih =>
              intro cur c hc z hz
              unfold findAnc at hc
              simp only at hc
              by_cases hne : es.filter (hit st cur.hash) ≠ []
              · rw [if_pos hne] at hc; cases hc; exact (List.mem_filter.mp hz).1
              · simp only [hne, if_false] at hc
                by_cases hp0 : cur.parent = 0
                · simp [hp0] at hc
                · simp only [hp0, if_false] at hc
                  cases hp : getHeader st cur.parent with
                  | none => simp [hp] at hc
                  | some p => simp only [hp] at hc; exact ih p c hc z hz
          exact this _ _ _ hf y (List.mem_cons_self ..)
        obtain ⟨p, hp, hx⟩ := h
        rcases mem_insert hp with h1 | h1
        · subst h1
          rcases mem_insert hx with h2 | h2
          · have : x = y := by rw [h2]
            rw [this]; exact entryIn_of_lookup hl hy
          · -- an entry of `hashes`, the inner map of `new` after the deletion
            cases hn : lookup (insert m old (erase es y.1)) new with
            | none => simp [hn] at h2
            | some hs =>
              simp only [hn, Option.getD_some] at h2
              have := lookup_mem _ _ _ hn
              rcases mem_insert this with h3 | h3
              · have : hs = erase es y.1 := (Prod.mk.inj h3).2
                rw [this] at h2
                exact entryIn_of_lookup hl (mem_erase h2)
              · exact ⟨(new, hs), h3, h2⟩
        · rcases mem_insert h1 with h3 | h3
          · subst h3; exact entryIn_of_lookup hl (mem_erase hx)
          · exact ⟨p, h3, hx⟩

/-! ### property theorems about one state -/

/-- a definition for epoch `e` that `hdr` may use: persisted, or announced in memory on `hdr`'s own fork -/
def Visible (st : St) (m : EpochMap) (db : List (Nat × Nat)) (hdr : Blk) (e : Nat) : Prop :=
  (lookup db e).isSome ∨ ∃ es x, lookup m e = some es ∧ x ∈ es ∧ Anc st x.1 hdr

/-- **own fork**: whatever in-memory epoch data `GetEpochDataRaw` can return (for any Go map order) was
    announced for that epoch by the queried block itself or by one of its ancestors — in any state of any
    history, finalisations included (`WF` holds in all of them). -/
theorem C26_own_fork {u : Univ} {st : St} (w : WF u st) {hdr : Blk} (hc : Consistent st hdr) {e : Nat} {c : Entries}
    (h : getEpochDataRaw st e hdr = .mem c) :
    c ≠ [] ∧ ∃ es, lookup st.nextEpoch e = some es ∧ ∀ x ∈ c, x ∈ es ∧ Anc st x.1 hdr := by
  unfold getEpochDataRaw at h
  by_cases he : e = 0
  · simp [he] at h
  · simp only [he, if_false] at h
    cases hd : lookup st.dbEpoch e with
    | some d => simp [hd] at h
    | none => simp only [hd] at h; exact retrieve_mem w.inv hc h

/-- **no foreign data**: the lookup fails with `errHashNotInMemory` exactly because nothing was announced for
    the epoch on the block's own fork — another fork's announcement is never handed out instead. -/
theorem C26_none_on_fork {u : Univ} {st : St} (w : WF u st) {hdr : Blk} {e : Nat}
    (h : getEpochDataRaw st e hdr = .errHash) :
    ∃ es, lookup st.nextEpoch e = some es ∧ ∀ x ∈ es, ¬ Anc st x.1 hdr := by
  unfold getEpochDataRaw at h
  by_cases he : e = 0
  · simp [he] at h
  · simp only [he, if_false] at h
    cases hd : lookup st.dbEpoch e with
    | some d => simp [hd] at h
    | none => simp only [hd] at h; exact retrieve_errHash w.zero h

/-- **fails promptly**: the `findAncestor` loop ends within `number + 1` iterations. -/
theorem C26_terminates {u : Univ} {st : St} (w : WF u st) (entries : Entries) {hdr : Blk} (hok : HdrOK st hdr) :
    ∃ fuel, fuel ≤ hdr.number + 1 ∧ findAnc st entries fuel hdr ≠ .outOfFuel :=
  ⟨hdr.number + 1, Nat.le_refl _, findAnc_fuel st w entries _ hdr hok (by omega)⟩

/-- once the loop has ended, more iterations allowed change nothing: the fuelled model is the Go loop -/
theorem C26_fuel_stable (st : St) (entries : Entries) (f f' : Nat) (hdr : Blk)
    (h : findAnc st entries f hdr ≠ .outOfFuel) (hle : f ≤ f') :
    findAnc st entries f' hdr = findAnc st entries f hdr := findAnc_mono st entries f f' hdr h hle

theorem getConfigData_no_timeout {u : Univ} {st : St} (w : WF u st) {hdr : Blk} (hok : HdrOK st hdr) :
    ∀ e, getConfigData st hdr e ≠ .timeout
  | 0 => by simp [getConfigData]
  | e + 1 => by
    unfold getConfigData
    cases hd : lookup st.dbConfig (e + 1) with
    | some d => simp
    | none =>
      simp only
      have ht := retrieve_no_timeout w st.nextConfig (e + 1) hok
      cases hr : retrieve st st.nextConfig (e + 1) hdr with
      | timeout => exact absurd hr ht
      | errEpoch => exact getConfigData_no_timeout w hok e
      | errHash => exact getConfigData_no_timeout w hok e
      | gen => simp
      | db d => simp
      | mem c => simp
      | errParent => simp

/-- **never hangs**: neither lookup is still running after `number + 1` iterations -/
theorem C26_never_hangs {u : Univ} {st : St} (w : WF u st) {hdr : Blk} (hok : HdrOK st hdr) (e : Nat) :
    getEpochDataRaw st e hdr ≠ .timeout ∧ getConfigData st hdr e ≠ .timeout := by
  refine ⟨?_, getConfigData_no_timeout w hok e⟩
  unfold getEpochDataRaw
  by_cases he : e = 0
  · simp [he]
  · simp only [he, if_false]
    cases hd : lookup st.dbEpoch e with
    | some d => simp
    | none => exact retrieve_no_timeout w st.nextEpoch e hok

/-- what `GetConfigData(e, hdr)` must be: the definition of the latest epoch `e' ≤ e` that has one visible to
    `hdr` (persisted first, else announced on `hdr`'s own fork), the genesis configuration when there is none;
    the only error left is a broken lineage (`GetHeader` of some ancestor's parent fails: a pruned block). -/
def CfgSpec (st : St) (hdr : Blk) (e : Nat) : Res → Prop
  | .gen => ∀ e', 1 ≤ e' → e' ≤ e → ¬ Visible st st.nextConfig st.dbConfig hdr e'
  | .db d => ∃ e', 1 ≤ e' ∧ e' ≤ e ∧ lookup st.dbConfig e' = some d ∧
      ∀ e'', e' < e'' → e'' ≤ e → ¬ Visible st st.nextConfig st.dbConfig hdr e''
  | .mem c => c ≠ [] ∧ ∃ e' es, 1 ≤ e' ∧ e' ≤ e ∧ lookup st.dbConfig e' = none ∧
      lookup st.nextConfig e' = some es ∧ (∀ x ∈ c, x ∈ es ∧ Anc st x.1 hdr) ∧
      ∀ e'', e' < e'' → e'' ≤ e → ¬ Visible st st.nextConfig st.dbConfig hdr e''
  | .errParent => True
  | .errEpoch => False
  | .errHash => False
  | .timeout => False

theorem CfgSpec_lift {st : St} {hdr : Blk} {e : Nat} (hnv : ¬ Visible st st.nextConfig st.dbConfig hdr (e + 1))
    {r : Res} (h : CfgSpec st hdr e r) : CfgSpec st hdr (e + 1) r := by
  have key : ∀ e' e'', e' ≤ e → e' < e'' → e'' ≤ e + 1 →
      (∀ k, e' < k → k ≤ e → ¬ Visible st st.nextConfig st.dbConfig hdr k) →
      ¬ Visible st st.nextConfig st.dbConfig hdr e'' := by
    intro e' e'' _ h2 h3 hall
    by_cases hk : e'' = e + 1
    · rw [hk]; exact hnv
    · exact hall e'' h2 (by omega)
  cases r with
  | gen =>
    intro e' h1 h2
    by_cases hk : e' = e + 1
    · rw [hk]; exact hnv
    · exact h e' h1 (by omega)
  | db d =>
    obtain ⟨e', h1, h2, h3, h4⟩ := h
    exact ⟨e', h1, by omega, h3, fun e'' a b => key e' e'' h2 a b h4⟩
  | mem c =>
    obtain ⟨hne, e', es, h1, h2, h3, h4, h5, h6⟩ := h
    exact ⟨hne, e', es, h1, by omega, h3, h4, h5, fun e'' a b => key e' e'' h2 a b h6⟩
  | errParent => exact h
  | errEpoch => exact h
  | errHash => exact h
  | timeout => exact h

/-- **latest earlier configuration** -/
theorem C26_config_latest_earlier {u : Univ} {st : St} (w : WF u st) {hdr : Blk} (hc : Consistent st hdr)
    (hok : HdrOK st hdr) : ∀ e, CfgSpec st hdr e (getConfigData st hdr e)
  | 0 => by
    simp only [getConfigData, CfgSpec]
    intro e' h1 h2; omega
  | e + 1 => by
    have ih := C26_config_latest_earlier w hc hok e
    unfold getConfigData
    cases hd : lookup st.dbConfig (e + 1) with
    | some d =>
      exact ⟨e + 1, by omega, Nat.le_refl _, hd, fun e'' a b => by omega⟩
    | none =>
      simp only
      cases hr : retrieve st st.nextConfig (e + 1) hdr with
      | errEpoch =>
        refine CfgSpec_lift ?_ ih
        rintro (hv | ⟨es, x, hl, _, _⟩)
        · simp [hd] at hv
        · rw [retrieve_errEpoch hr] at hl; cases hl
      | errHash =>
        refine CfgSpec_lift ?_ ih
        obtain ⟨es, hl, hno⟩ := retrieve_errHash w.zero hr
        rintro (hv | ⟨es', x, hl', hx, ha⟩)
        · simp [hd] at hv
        · rw [hl] at hl'; cases hl'; exact hno x hx ha
      | mem c =>
        obtain ⟨hne, es, hl, hall⟩ := retrieve_mem w.inv hc hr
        exact ⟨hne, e + 1, es, by omega, Nat.le_refl _, hd, hl, hall, fun e'' a b => by omega⟩
      | errParent => trivial
      | timeout => exact absurd hr (retrieve_no_timeout w _ _ hok)
      | gen => exact absurd hr (retrieve_not_gen _ _ _ _)
      | db d => exact absurd hr (retrieve_not_db _ _ _ _ _)

/-- **skipped epochs, own fork**: in-memory epoch data handed out for a skipped epoch
    (`GetSkippedEpochDataRaw`, also used with the block being imported) was announced on the header's fork -/
theorem C26_skipped_own_fork {u : Univ} {st : St} (w : WF u st) {hdr : Blk} (hc : Consistent st hdr)
    {s cur : Nat} {c : Entries} (h : (getSkippedEpochData st s cur hdr).2 = .mem c) :
    c ≠ [] ∧ ∃ es, lookup st.nextEpoch s = some es ∧ ∀ x ∈ c, x ∈ es ∧ Anc st x.1 hdr := by
  unfold getSkippedEpochData at h
  by_cases hs : s = 0
  · simp [hs] at h
  · simp only [hs, if_false] at h
    cases hm : dbMove st.dbEpoch s cur with
    | some p => simp [hm] at h
    | none =>
      simp only [hm] at h
      rcases retrieveAndUpdate_res st st.nextEpoch s cur hdr with hr | ⟨hr, _⟩
      · rw [hr] at h; exact retrieve_mem w.inv hc h
      · rw [hr] at h; cases h

/-- the same for `GetSkippedConfigData`, which falls back to the latest earlier configuration -/
theorem C26_skipped_config_own_fork {u : Univ} {st : St} (w : WF u st) {hdr : Blk} (hc : Consistent st hdr)
    (hok : HdrOK st hdr) {s cur : Nat} {c : Entries} (h : (getSkippedConfig st s cur hdr).2 = .mem c) :
    c ≠ [] ∧ ∀ x ∈ c, Anc st x.1 hdr ∧ EntryIn st.nextConfig x := by
  unfold getSkippedConfig at h
  by_cases hs : s = 0
  · simp [hs] at h
  · simp only [hs, if_false] at h
    cases hm : dbMove st.dbConfig s cur with
    | some p => simp [hm] at h
    | none =>
      simp only [hm] at h
      -- the answer of RetrieveAndUpdate, then possibly the fall-back
      have hru := retrieveAndUpdate_res st st.nextConfig s cur hdr
      have direct : retrieve st st.nextConfig s hdr = .mem c →
          c ≠ [] ∧ ∀ x ∈ c, Anc st x.1 hdr ∧ EntryIn st.nextConfig x := by
        intro hr
        obtain ⟨hne, es, hl, hall⟩ := retrieve_mem w.inv hc hr
        exact ⟨hne, fun x hx => ⟨(hall x hx).2, entryIn_of_lookup hl (hall x hx).1⟩⟩
      -- in the fall-back cases the map is unchanged
      have unchanged : ∀ r, (retrieveAndUpdate st st.nextConfig s cur hdr).2 = r → (r = .errEpoch ∨ r = .errHash) →
          (retrieveAndUpdate st st.nextConfig s cur hdr).1 = st.nextConfig := by
        intro r hr hcase
        unfold retrieveAndUpdate at hr ⊢
        cases hl : lookup st.nextConfig s with
        | none => rfl
        | some es =>
          simp only [hl] at hr ⊢
          cases hf : findAnc st es (hdr.number + 1) hdr with
          | found cc =>
            cases cc with
            | nil => rfl
            | cons y rr =>
              simp only [hf] at hr
              rcases hcase with hcase | hcase <;> rw [hcase] at hr <;> cases hr
          | errHash => rfl
          | errParent => rfl
          | outOfFuel => rfl
      have fallback : ∀ r, (retrieveAndUpdate st st.nextConfig s cur hdr).2 = r → (r = .errEpoch ∨ r = .errHash) →
          getConfigData { st with nextConfig := (retrieveAndUpdate st st.nextConfig s cur hdr).1 } hdr (s - 1) = .mem c →
          c ≠ [] ∧ ∀ x ∈ c, Anc st x.1 hdr ∧ EntryIn st.nextConfig x := by
        intro r hr hcase hg
        rw [unchanged r hr hcase] at hg
        have := C26_config_latest_earlier w hc hok (s - 1)
        have hst : ({ st with nextConfig := st.nextConfig } : St) = st := rfl
        rw [hst] at hg
        rw [hg] at this
        obtain ⟨hne, e', es, _, _, _, hl, hall, _⟩ := this
        exact ⟨hne, fun x hx => ⟨(hall x hx).2, entryIn_of_lookup hl (hall x hx).1⟩⟩
      cases hres : (retrieveAndUpdate st st.nextConfig s cur hdr).2 with
      | errEpoch =>
        have : getConfigData { st with nextConfig := (retrieveAndUpdate st st.nextConfig s cur hdr).1 } hdr (s - 1) = .mem c := by
          simpa [hres] using h
        exact fallback _ hres (.inl rfl) this
      | errHash =>
        have : getConfigData { st with nextConfig := (retrieveAndUpdate st st.nextConfig s cur hdr).1 } hdr (s - 1) = .mem c := by
          simpa [hres] using h
        exact fallback _ hres (.inr rfl) this
      | mem c' =>
        have hcc : c' = c := by simpa [hres] using h
        subst hcc
        rcases hru with hr | ⟨hr, _⟩
        · exact direct (hr ▸ hres)
        · rw [hres] at hr; cases hr
      | gen => simp [hres] at h
      | db d => simp [hres] at h
      | errParent => simp [hres] at h
      | timeout => simp [hres] at h

/-! ### all histories: the invariant `WF` -/

/-- assumptions on a history: imported headers are named by their hash in the universe, none hashes to
    `common.EmptyHash`, genesis is not imported a second time -/
def OpOK (u : Univ) : Op → Prop
  | .add h => (u.blk h).hash = h ∧ h ≠ 0 ∧ h ≠ genesis.hash
  | _ => True

theorem WF_congr {u : Univ} {st st' : St} (h : st'.bs = st.bs) (w : WF u st) : WF u st' :=
  ⟨h ▸ w.inv, h ▸ w.db, w.ugen⟩

theorem WF_init (u : Univ) (hu : u.blk genesis.hash = genesis) (l : Nat) : WF u (St.init l) :=
  ⟨C17.Inv_init genesis, DbInv_init u.blk genesis hu (by decide), hu⟩

theorem finalizeEpoch_bs (u : Univ) (st : St) (hdr : Blk) : (finalizeEpoch u st hdr).1.bs = st.bs := by
  unfold finalizeEpoch
  split
  · rfl
  · split
    · rfl
    · simp only []
      repeat' split
      all_goals rfl

theorem finalizeConfig_bs (u : Univ) (st : St) (hdr : Blk) : (finalizeConfig u st hdr).1.bs = st.bs := by
  unfold finalizeConfig
  split
  · rfl
  · split
    · rfl
    · simp only []
      repeat' split
      all_goals rfl

theorem getSkippedEpochData_bs (st : St) (s c : Nat) (hdr : Blk) : (getSkippedEpochData st s c hdr).1.bs = st.bs := by
  unfold getSkippedEpochData
  repeat' split
  all_goals rfl

theorem getSkippedConfig_bs (st : St) (s c : Nat) (hdr : Blk) : (getSkippedConfig st s c hdr).1.bs = st.bs := by
  unfold getSkippedConfig
  repeat' split
  all_goals rfl

theorem updateSkippedEpoch_bs (st : St) (s c : Nat) (hdr : Blk) : (updateSkippedEpoch st s c hdr).1.bs = st.bs := by
  unfold updateSkippedEpoch
  split <;> rfl

theorem updateSkippedConfig_bs (st : St) (s c : Nat) (hdr : Blk) : (updateSkippedConfig st s c hdr).1.bs = st.bs := by
  unfold updateSkippedConfig
  split <;> rfl

theorem updateSkipped_bs (st : St) (s c : Nat) (hdr : Blk) : (updateSkipped st s c hdr).1.bs = st.bs := by
  unfold updateSkipped
  split
  · rfl
  · split
    · rw [updateSkippedConfig_bs, updateSkippedEpoch_bs]
    · exact updateSkippedEpoch_bs _ _ _ _

/-- the block state after one operation -/
theorem step_bs (u : Univ) (st : St) (o : Op) :
    (step u st o).1.bs = match o with
      | .add h => (C17.addBlock st.bs (u.blk h)).1
      | .fin h r => (C17.setFinalised genesis.hash st.bs h r 0).1
      | _ => st.bs := by
  cases o with
  | add h => rfl
  | ann h d => simp only [step]; split <;> rfl
  | cfg h d => simp only [step]; split <;> rfl
  | dbe e d => rfl
  | dbc e d => rfl
  | restart => rfl
  | fin h r =>
    simp only [step]
    split
    · rw [finalizeConfig_bs, finalizeEpoch_bs]
    · rfl
  | skipE h s c => simp only [step]; split <;> first | rfl | exact getSkippedEpochData_bs _ _ _ _
  | skipC h s c => simp only [step]; split <;> first | rfl | exact getSkippedConfig_bs _ _ _ _
  | upd h s c => simp only [step]; split <;> first | rfl | exact updateSkipped_bs _ _ _ _

theorem WF_step {u : Univ} {st : St} (w : WF u st) (o : Op) (ho : OpOK u o) : WF u (step u st o).1 := by
  have hb := step_bs u st o
  cases o with
  | add h =>
    simp only at hb
    exact ⟨hb ▸ C17.Inv_add w.inv _ (by rw [ho.1]; exact ho.2.2),
      hb ▸ DbInv_add w.inv w.db h ho.1 ho.2.1, w.ugen⟩
  | fin h r =>
    simp only at hb
    exact ⟨hb ▸ C17.Inv_fin w.inv h r 0, hb ▸ DbInv_fin w.inv w.db h r 0, w.ugen⟩
  | ann h d => exact WF_congr hb w
  | cfg h d => exact WF_congr hb w
  | dbe e d => exact WF_congr hb w
  | dbc e d => exact WF_congr hb w
  | restart => exact WF_congr hb w
  | skipE h s c => exact WF_congr hb w
  | skipC h s c => exact WF_congr hb w
  | upd h s c => exact WF_congr hb w

theorem foldl_inv {σ α : Type} (f : σ → α → σ) (P : List α → σ → Prop)
    (hstep : ∀ pre s o, P pre s → P (pre ++ [o]) (f s o)) :
    ∀ (ops pre : List α) (s : σ), P pre s → P (pre ++ ops) (ops.foldl f s)
  | [], pre, s, h => by simpa using h
  | o :: ops, pre, s, h => by
    have := foldl_inv f P hstep ops (pre ++ [o]) (f s o) (hstep pre s o h)
    simpa using this

/-- **reachable states are well formed**, for every history — imports, announcements, finalisations (with
    pruning), skipped-epoch updates, restarts -/
theorem C26_wf_reachable (u : Univ) (hu : u.blk genesis.hash = genesis) (l : Nat) (ops : List Op)
    (hops : ∀ o ∈ ops, OpOK u o) : WF u (run u l ops) := by
  have := foldl_inv (fun s o => (step u s o).1) (fun pre s => (∀ o ∈ pre, OpOK u o) → WF u s)
    (fun pre s o ih hpre => WF_step (ih (fun o' ho' => hpre o' (by simp [ho']))) o (hpre o (by simp)))
    ops [] (St.init l) (fun _ => WF_init u hu l)
  exact this (by simpa using hops)

/-! ### all histories: where map entries and persisted definitions come from -/

/-- a persisted definition `d` was stored explicitly (`SetEpochDataRaw`/`StoreConfigData`) or copied by
    `Finalize…` from the announcement of a block that is in the header table (a finalised block) -/
def DOK (ann : Nat → Nat → Op) (dbop : Nat → Nat → Op) (ops : List Op) (bs : C17.St) (d : Nat) : Prop :=
  (∃ e, dbop e d ∈ ops) ∨ ∃ h, ann h d ∈ ops ∧ (findB bs.dbHdr h).isSome

structure Src (ops : List Op) (st : St) : Prop where
  e : ∀ x, EntryIn st.nextEpoch x ∨ EntryIn st.diskEpoch x → Op.ann x.1 x.2 ∈ ops
  c : ∀ x, EntryIn st.nextConfig x ∨ EntryIn st.diskConfig x → Op.cfg x.1 x.2 ∈ ops
  de : ∀ p ∈ st.dbEpoch, DOK .ann .dbe ops st.bs p.2
  dc : ∀ p ∈ st.dbConfig, DOK .cfg .dbc ops st.bs p.2

/-- `st'` only rearranges what `st` holds: same block state, entries and definitions taken from `st` -/
structure Sub (st st' : St) : Prop where
  bs : st'.bs = st.bs
  ne : ∀ x, EntryIn st'.nextEpoch x → EntryIn st.nextEpoch x
  nc : ∀ x, EntryIn st'.nextConfig x → EntryIn st.nextConfig x
  dke : st'.diskEpoch = st.diskEpoch
  dkc : st'.diskConfig = st.diskConfig
  de : ∀ p ∈ st'.dbEpoch, ∃ q ∈ st.dbEpoch, q.2 = p.2
  dc : ∀ p ∈ st'.dbConfig, ∃ q ∈ st.dbConfig, q.2 = p.2

theorem Sub.refl (st : St) : Sub st st :=
  ⟨rfl, fun _ h => h, fun _ h => h, rfl, rfl, fun p hp => ⟨p, hp, rfl⟩, fun p hp => ⟨p, hp, rfl⟩⟩

theorem Sub.trans {a b c : St} (h1 : Sub a b) (h2 : Sub b c) : Sub a c :=
  ⟨h2.bs.trans h1.bs, fun x h => h1.ne x (h2.ne x h), fun x h => h1.nc x (h2.nc x h), h2.dke.trans h1.dke,
    h2.dkc.trans h1.dkc,
    fun p hp => by obtain ⟨q, hq, e⟩ := h2.de p hp; obtain ⟨r, hr, e'⟩ := h1.de q hq; exact ⟨r, hr, e'.trans e⟩,
    fun p hp => by obtain ⟨q, hq, e⟩ := h2.dc p hp; obtain ⟨r, hr, e'⟩ := h1.dc q hq; exact ⟨r, hr, e'.trans e⟩⟩

theorem dbMove_sub {db db' : List (Nat × Nat)} {old new d : Nat} (h : dbMove db old new = some (db', d)) :
    ∀ p ∈ db', ∃ q ∈ db, q.2 = p.2 := by
  unfold dbMove at h
  cases hl : lookup db old with
  | none => simp [hl] at h
  | some v =>
    simp only [hl, Option.some.injEq, Prod.mk.injEq] at h
    obtain ⟨h1, _⟩ := h
    subst h1
    intro p hp
    rcases mem_insert hp with h2 | h2
    · exact ⟨(old, v), lookup_mem _ _ _ hl, by rw [h2]⟩
    · exact ⟨p, mem_erase h2, rfl⟩

theorem getSkippedEpochData_sub (st : St) (s c : Nat) (hdr : Blk) : Sub st (getSkippedEpochData st s c hdr).1 := by
  unfold getSkippedEpochData
  split
  · exact Sub.refl st
  · split
    · rename_i db' d hm
      exact ⟨rfl, fun _ h => h, fun _ h => h, rfl, rfl, dbMove_sub hm, fun p hp => ⟨p, hp, rfl⟩⟩
    · exact ⟨rfl, fun x h => retrieveAndUpdate_entries st _ _ _ _ x h, fun _ h => h, rfl, rfl,
        fun p hp => ⟨p, hp, rfl⟩, fun p hp => ⟨p, hp, rfl⟩⟩

theorem getSkippedConfig_sub (st : St) (s c : Nat) (hdr : Blk) : Sub st (getSkippedConfig st s c hdr).1 := by
  unfold getSkippedConfig
  split
  · exact Sub.refl st
  · split
    · rename_i db' d hm
      exact ⟨rfl, fun _ h => h, fun _ h => h, rfl, rfl, fun p hp => ⟨p, hp, rfl⟩, dbMove_sub hm⟩
    · have key : Sub st { st with nextConfig := (retrieveAndUpdate st st.nextConfig s c hdr).1 } :=
        ⟨rfl, fun _ h => h, fun x h => retrieveAndUpdate_entries st _ _ _ _ x h, rfl, rfl,
          fun p hp => ⟨p, hp, rfl⟩, fun p hp => ⟨p, hp, rfl⟩⟩
      simp only []
      split <;> exact key

theorem updateSkippedEpoch_sub (st : St) (s c : Nat) (hdr : Blk) : Sub st (updateSkippedEpoch st s c hdr).1 := by
  unfold updateSkippedEpoch
  split
  · rename_i p hm
    exact ⟨rfl, fun _ h => h, fun _ h => h, rfl, rfl, dbMove_sub (d := p.2) (by rw [hm]), fun p hp => ⟨p, hp, rfl⟩⟩
  · exact ⟨rfl, fun x h => retrieveAndUpdate_entries st _ _ _ _ x h, fun _ h => h, rfl, rfl,
      fun p hp => ⟨p, hp, rfl⟩, fun p hp => ⟨p, hp, rfl⟩⟩

theorem updateSkippedConfig_sub (st : St) (s c : Nat) (hdr : Blk) : Sub st (updateSkippedConfig st s c hdr).1 := by
  unfold updateSkippedConfig
  split
  · rename_i p hm
    exact ⟨rfl, fun _ h => h, fun _ h => h, rfl, rfl, fun p hp => ⟨p, hp, rfl⟩, dbMove_sub (d := p.2) (by rw [hm])⟩
  · exact ⟨rfl, fun _ h => h, fun x h => retrieveAndUpdate_entries st _ _ _ _ x h, rfl, rfl,
      fun p hp => ⟨p, hp, rfl⟩, fun p hp => ⟨p, hp, rfl⟩⟩

theorem updateSkipped_sub (st : St) (s c : Nat) (hdr : Blk) : Sub st (updateSkipped st s c hdr).1 := by
  unfold updateSkipped
  split
  · exact Sub.refl st
  · split
    · exact (updateSkippedEpoch_sub st s c hdr).trans (updateSkippedConfig_sub _ s c hdr)
    · exact updateSkippedEpoch_sub st s c hdr

theorem DOK_mono {ann dbop : Nat → Nat → Op} {ops : List Op} {bs bs' : C17.St} {d : Nat} (o : Op)
    (hm : ∀ h, (findB bs.dbHdr h).isSome → (findB bs'.dbHdr h).isSome) (h : DOK ann dbop ops bs d) :
    DOK ann dbop (ops ++ [o]) bs' d := by
  rcases h with ⟨e, he⟩ | ⟨x, hx, hs⟩
  · exact .inl ⟨e, by simp [he]⟩
  · exact .inr ⟨x, by simp [hx], hm x hs⟩

theorem Src_sub {ops : List Op} {st st' : St} (o : Op) (hs : Sub st st') (h : Src ops st) : Src (ops ++ [o]) st' where
  e := by
    intro x hx
    have : Op.ann x.1 x.2 ∈ ops := by
      rcases hx with hx | hx
      · exact h.e x (.inl (hs.ne x hx))
      · rw [hs.dke] at hx; exact h.e x (.inr hx)
    simp [this]
  c := by
    intro x hx
    have : Op.cfg x.1 x.2 ∈ ops := by
      rcases hx with hx | hx
      · exact h.c x (.inl (hs.nc x hx))
      · rw [hs.dkc] at hx; exact h.c x (.inr hx)
    simp [this]
  de := by
    intro p hp
    obtain ⟨q, hq, e⟩ := hs.de p hp
    rw [← e]
    exact DOK_mono o (by rw [hs.bs]; exact fun _ h => h) (h.de q hq)
  dc := by
    intro p hp
    obtain ⟨q, hq, e⟩ := hs.dc p hp
    rw [← e]
    exact DOK_mono o (by rw [hs.bs]; exact fun _ h => h) (h.dc q hq)

/-- the header table only grows -/
theorem dbHdr_mono_add (bs : C17.St) (b : Blk) (h : Nat) (hs : (findB bs.dbHdr h).isSome) :
    (findB (C17.addBlock bs b).1.dbHdr h).isSome := by
  rcases C17.addBlock_cases bs b with he | ⟨_, _, _, _, heq⟩
  · rw [he]; exact hs
  · rw [heq]; exact hs

theorem dbHdr_mono_fin {bs : C17.St} (inv : C17.Inv genesis bs) (t r s h : Nat) (hs : (findB bs.dbHdr h).isSome) :
    (findB (C17.setFinalised genesis.hash bs t r s).1.dbHdr h).isSome := by
  rcases C17.setFinalised_cases inv t r s with ⟨h1, _⟩ | ⟨_, _, h1⟩ | ⟨_, _, rb, hn, rest, m⟩
  · rw [h1]; exact hs
  · rw [h1]; exact hs
  · by_cases hx : h ∈ rest.map (·.hash)
    · obtain ⟨c, hc, hch⟩ := List.mem_map.mp hx
      rw [← hch, m.dbNew c hc]; rfl
    · rw [m.dbOld h hx]; exact hs

theorem entryIn_filter {m : EpochMap} {p : Nat × Entries → Bool} {x : Nat × Nat} (h : EntryIn (m.filter p) x) :
    EntryIn m x := by
  obtain ⟨q, hq, hx⟩ := h
  exact ⟨q, (List.mem_filter.mp hq).1, hx⟩

theorem Src_finalizeEpoch {u : Univ} {ops : List Op} {st : St} (hdr : Blk) (h : Src ops st) :
    Src ops (finalizeEpoch u st hdr).1 := by
  have base : Src ops st := h
  unfold finalizeEpoch
  split
  · exact base
  · split
    · exact base
    · simp only []
      split
      · exact base
      · split
        · exact base
        · rename_i entries hl
          split
          · exact base
          · rename_i x hper
            have hx : x ∈ persisted st entries := by rw [hper]; exact List.mem_cons_self ..
            have hxm := List.mem_filter.mp hx
            have hann : Op.ann x.1 x.2 ∈ ops := h.e x (.inl (entryIn_of_lookup hl hxm.1))
            refine ⟨?_, base.c, ?_, base.dc⟩
            · intro y hy
              rcases hy with hy | hy
              · exact base.e y (.inl (entryIn_filter hy))
              · exact base.e y (.inr (entryIn_filter hy))
            · intro p hp
              rcases mem_insert hp with h1 | h1
              · rw [h1]
                exact .inr ⟨x.1, hann, hxm.2⟩
              · exact base.de p h1
          · exact base

theorem Src_finalizeConfig {u : Univ} {ops : List Op} {st : St} (hdr : Blk) (h : Src ops st) :
    Src ops (finalizeConfig u st hdr).1 := by
  have base : Src ops st := h
  unfold finalizeConfig
  split
  · exact base
  · split
    · exact base
    · simp only []
      split
      · exact base
      · split
        · exact base
        · rename_i entries hl
          split
          · exact base
          · rename_i x hper
            have hx : x ∈ persisted st entries := by rw [hper]; exact List.mem_cons_self ..
            have hxm := List.mem_filter.mp hx
            have hcfg : Op.cfg x.1 x.2 ∈ ops := h.c x (.inl (entryIn_of_lookup hl hxm.1))
            refine ⟨base.e, ?_, base.de, ?_⟩
            · intro y hy
              rcases hy with hy | hy
              · exact base.c y (.inl (entryIn_filter hy))
              · exact base.c y (.inr (entryIn_filter hy))
            · intro p hp
              rcases mem_insert hp with h1 | h1
              · rw [h1]
                exact .inr ⟨x.1, hcfg, hxm.2⟩
              · exact base.dc p h1
          · exact base

theorem Src_init (l : Nat) : Src [] (St.init l) where
  e := by rintro x (⟨p, hp, _⟩ | ⟨p, hp, _⟩) <;> simp [St.init] at hp
  c := by rintro x (⟨p, hp, _⟩ | ⟨p, hp, _⟩) <;> simp [St.init] at hp
  de := by intro p hp; simp [St.init] at hp
  dc := by intro p hp; simp [St.init] at hp

theorem Src_step {u : Univ} {ops : List Op} {st : St} (w : WF u st) (o : Op) (h : Src ops st) :
    Src (ops ++ [o]) (step u st o).1 := by
  have base : Src (ops ++ [o]) st := Src_sub o (Sub.refl st) h
  cases o with
  | add hh =>
    refine ⟨base.e, base.c, ?_, ?_⟩
    · intro p hp
      exact DOK_mono _ (fun x hx => dbHdr_mono_add st.bs _ x hx) (h.de p hp)
    · intro p hp
      exact DOK_mono _ (fun x hx => dbHdr_mono_add st.bs _ x hx) (h.dc p hp)
  | ann hh d =>
    simp only [step]
    split
    · refine ⟨?_, base.c, base.de, base.dc⟩
      intro x hx
      rcases hx with hx | hx
      · rcases entryIn_store hx with h1 | h1
        · rw [h1]; simp
        · exact base.e x (.inl h1)
      · rcases entryIn_store hx with h1 | h1
        · rw [h1]; simp
        · exact base.e x (.inr h1)
    · exact base
  | cfg hh d =>
    simp only [step]
    split
    · refine ⟨base.e, ?_, base.de, base.dc⟩
      intro x hx
      rcases hx with hx | hx
      · rcases entryIn_store hx with h1 | h1
        · rw [h1]; simp
        · exact base.c x (.inl h1)
      · rcases entryIn_store hx with h1 | h1
        · rw [h1]; simp
        · exact base.c x (.inr h1)
    · exact base
  | dbe e d =>
    refine ⟨base.e, base.c, ?_, base.dc⟩
    intro p hp
    rcases mem_insert hp with h1 | h1
    · rw [h1]; exact .inl ⟨e, by simp⟩
    · exact base.de p h1
  | dbc e d =>
    refine ⟨base.e, base.c, base.de, ?_⟩
    intro p hp
    rcases mem_insert hp with h1 | h1
    · rw [h1]; exact .inl ⟨e, by simp⟩
    · exact base.dc p h1
  | restart =>
    refine ⟨?_, ?_, base.de, base.dc⟩
    · intro x hx
      exact base.e x (.inr (by rcases hx with hx | hx <;> exact hx))
    · intro x hx
      exact base.c x (.inr (by rcases hx with hx | hx <;> exact hx))
  | fin hh r =>
    simp only [step]
    -- after SetFinalisedHash: the header table has grown, nothing else of interest changed
    have mid : ∀ fsn', Src (ops ++ [Op.fin hh r])
        { st with bs := (C17.setFinalised genesis.hash st.bs hh r 0).1, fsn := fsn' } := by
      intro fsn'
      refine ⟨base.e, base.c, ?_, ?_⟩
      · intro p hp
        exact DOK_mono _ (fun x hx => dbHdr_mono_fin w.inv hh r 0 x hx) (h.de p hp)
      · intro p hp
        exact DOK_mono _ (fun x hx => dbHdr_mono_fin w.inv hh r 0 x hx) (h.dc p hp)
    split
    · exact Src_finalizeConfig _ (Src_finalizeEpoch _ (mid _))
    · have := mid st.fsn
      exact ⟨this.e, this.c, this.de, this.dc⟩
  | skipE hh s c =>
    simp only [step]
    split
    · exact base
    · exact Src_sub _ (getSkippedEpochData_sub st s c _) h
  | skipC hh s c =>
    simp only [step]
    split
    · exact base
    · exact Src_sub _ (getSkippedConfig_sub st s c _) h
  | upd hh s c =>
    simp only [step]
    split
    · exact base
    · exact Src_sub _ (updateSkipped_sub st s c _) h

theorem Src_reachable (u : Univ) (hu : u.blk genesis.hash = genesis) (l : Nat) (ops : List Op)
    (hops : ∀ o ∈ ops, OpOK u o) : Src ops (run u l ops) := by
  have := foldl_inv (fun s o => (step u s o).1)
    (fun pre s => (∀ o ∈ pre, OpOK u o) → WF u s ∧ Src pre s)
    (fun pre s o ih hpre => by
      have ih' := ih (fun o' ho' => hpre o' (by simp [ho']))
      exact ⟨WF_step ih'.1 o (hpre o (by simp)), Src_step ih'.1 o ih'.2⟩)
    ops [] (St.init l) (fun _ => ⟨WF_init u hu l, Src_init l⟩)
  exact (this (by simpa using hops)).2

/-! ### the property over all histories (finalisation included) -/

/-- **own fork, all histories**: any in-memory epoch data returned for the header with hash `h` after any
    sequence of imports, announcements, finalisations (pruning), skipped-epoch updates, persisted definitions
    and restarts was announced (`HandleBABEDigest`) by that block itself or by one of its ancestors. -/
theorem C26_own_fork_history (u : Univ) (hu : u.blk genesis.hash = genesis) (l : Nat) (ops : List Op)
    (hops : ∀ o ∈ ops, OpOK u o) (h : Nat) (hh : (u.blk h).hash = h) (e : Nat) (c : Entries)
    (hq : getEpochDataRaw (run u l ops) e (u.blk h) = .mem c) :
    c ≠ [] ∧ ∀ x ∈ c, Anc (run u l ops) x.1 (u.blk h) ∧ Op.ann x.1 x.2 ∈ ops := by
  have w := C26_wf_reachable u hu l ops hops
  obtain ⟨hne, es, hl, hall⟩ := C26_own_fork w (w.consistent hh) hq
  exact ⟨hne, fun x hx => ⟨(hall x hx).2,
    (Src_reachable u hu l ops hops).e x (.inl (entryIn_of_lookup hl (hall x hx).1))⟩⟩

/-- the same for the configuration -/
theorem C26_config_own_fork_history (u : Univ) (hu : u.blk genesis.hash = genesis) (l : Nat) (ops : List Op)
    (hops : ∀ o ∈ ops, OpOK u o) (h : Nat) (hh : (u.blk h).hash = h) (hok : HdrOK (run u l ops) (u.blk h))
    (e : Nat) (c : Entries) (hq : getConfigData (run u l ops) (u.blk h) e = .mem c) :
    c ≠ [] ∧ ∀ x ∈ c, Anc (run u l ops) x.1 (u.blk h) ∧ Op.cfg x.1 x.2 ∈ ops := by
  have w := C26_wf_reachable u hu l ops hops
  have := C26_config_latest_earlier w (w.consistent hh) hok e
  rw [hq] at this
  obtain ⟨hne, e', es, _, _, _, hl, hall, _⟩ := this
  exact ⟨hne, fun x hx => ⟨(hall x hx).2,
    (Src_reachable u hu l ops hops).c x (.inl (entryIn_of_lookup hl (hall x hx).1))⟩⟩

/-- the same for the skipped-epoch lookups (`GetSkippedEpochDataRaw`, `GetSkippedConfigData`) -/
theorem C26_skipped_own_fork_history (u : Univ) (hu : u.blk genesis.hash = genesis) (l : Nat) (ops : List Op)
    (hops : ∀ o ∈ ops, OpOK u o) (h : Nat) (hh : (u.blk h).hash = h) (hok : HdrOK (run u l ops) (u.blk h))
    (s cur : Nat) :
    (∀ c, (getSkippedEpochData (run u l ops) s cur (u.blk h)).2 = .mem c →
      c ≠ [] ∧ ∀ x ∈ c, Anc (run u l ops) x.1 (u.blk h) ∧ Op.ann x.1 x.2 ∈ ops) ∧
    (∀ c, (getSkippedConfig (run u l ops) s cur (u.blk h)).2 = .mem c →
      c ≠ [] ∧ ∀ x ∈ c, Anc (run u l ops) x.1 (u.blk h) ∧ Op.cfg x.1 x.2 ∈ ops) := by
  have w := C26_wf_reachable u hu l ops hops
  have src := Src_reachable u hu l ops hops
  refine ⟨fun c hc => ?_, fun c hc => ?_⟩
  · obtain ⟨hne, es, hl, hall⟩ := C26_skipped_own_fork w (w.consistent hh) hc
    exact ⟨hne, fun x hx => ⟨(hall x hx).2, src.e x (.inl (entryIn_of_lookup hl (hall x hx).1))⟩⟩
  · obtain ⟨hne, hall⟩ := C26_skipped_config_own_fork w (w.consistent hh) hok hc
    exact ⟨hne, fun x hx => ⟨(hall x hx).1, src.c x (.inl (hall x hx).2)⟩⟩

/-- **persisted definitions**: a definition answered from the database was stored explicitly or was copied on
    finalisation from the announcement of a block that is in the header table, i.e. of a finalised block -/
theorem C26_db_from_finalised (u : Univ) (hu : u.blk genesis.hash = genesis) (l : Nat) (ops : List Op)
    (hops : ∀ o ∈ ops, OpOK u o) (hdr : Blk) (e d : Nat) :
    (getEpochDataRaw (run u l ops) e hdr = .db d → DOK .ann .dbe ops (run u l ops).bs d) ∧
    (getConfigData (run u l ops) hdr e = .db d → DOK .cfg .dbc ops (run u l ops).bs d) := by
  have src := Src_reachable u hu l ops hops
  constructor
  · intro hq
    unfold getEpochDataRaw at hq
    by_cases he : e = 0
    · simp [he] at hq
    · simp only [he, if_false] at hq
      cases hd : lookup (run u l ops).dbEpoch e with
      | some d' =>
        simp only [hd, Res.db.injEq] at hq
        subst hq
        exact src.de _ (lookup_mem _ _ _ hd)
      | none => simp only [hd] at hq; exact absurd hq (retrieve_not_db _ _ _ _ _)
  · intro hq
    have key : ∀ e, getConfigData (run u l ops) hdr e = .db d → ∃ e', lookup (run u l ops).dbConfig e' = some d := by
      intro e
      induction e with
      | zero => intro h; simp [getConfigData] at h
      | succ k ih =>
        intro h
        unfold getConfigData at h
        cases hd : lookup (run u l ops).dbConfig (k + 1) with
        | some d' =>
          simp only [hd, Res.db.injEq] at h
          exact ⟨k + 1, by rw [hd, h]⟩
        | none =>
          simp only [hd] at h
          cases hr : retrieve (run u l ops) (run u l ops).nextConfig (k + 1) hdr with
          | errEpoch => rw [hr] at h; exact ih h
          | errHash => rw [hr] at h; exact ih h
          | db d' => exact absurd hr (retrieve_not_db _ _ _ _ _)
          | gen => simp [hr] at h
          | mem c => simp [hr] at h
          | errParent => simp [hr] at h
          | timeout => simp [hr] at h
    obtain ⟨e', he'⟩ := key e hq
    exact src.dc _ (lookup_mem _ _ _ he')

/-- **prompt, all histories**: no lookup hangs, for any header whose number fits its parent's -/
theorem C26_prompt_history (u : Univ) (hu : u.blk genesis.hash = genesis) (l : Nat) (ops : List Op)
    (hops : ∀ o ∈ ops, OpOK u o) (hdr : Blk) (hok : HdrOK (run u l ops) hdr) (e : Nat) :
    getEpochDataRaw (run u l ops) e hdr ≠ .timeout ∧ getConfigData (run u l ops) hdr e ≠ .timeout :=
  C26_never_hangs (C26_wf_reachable u hu l ops hops) hok e

/-- the hypotheses on a queried header hold for every header `GetHeader` knows (imported or finalised) -/
theorem C26_known_header_ok {u : Univ} {st : St} (w : WF u st) {h : Nat} (hh : (u.blk h).hash = h)
    (hk : (getHeader st h).isSome) : Consistent st (u.blk h) ∧ HdrOK st (u.blk h) :=
  ⟨w.consistent hh, w.hdrOK hh hk⟩

/-- **the epoch of a block is counted on its own fork**: while the first-slot key is not yet set and several
    blocks have number 1, the first slot `GetEpochForBlock` uses is the slot of the queried block itself
    (number 1) or of a number-1 block that is its ancestor. -/
theorem C26_first_slot_own_fork {u : Univ} {st : St} (inv : C17.Inv genesis st.bs) {bh s : Nat}
    (hf : st.fsn = 0) (h : retrieveFirst u st bh = .ok s) :
    (∃ x, hashesAt1 st = [x] ∧ s = u.slot x) ∨
    ∃ b, getHeader st bh = some b ∧
      ((b.number = 1 ∧ s = u.slot b.hash) ∨
        ∃ x ∈ hashesAt1 st, (AncI st x bh ∨ x = bh) ∧ s = u.slot x) := by
  unfold retrieveFirst at h
  simp only [hf, ne_eq, not_true_eq_false, if_false] at h
  cases hl : hashesAt1 st with
  | nil => simp [hl] at h
  | cons x t =>
    cases t with
    | nil =>
      simp only [hl] at h
      cases hg : getHeader st x with
      | none => simp [hg] at h
      | some y =>
        simp only [hg, Slot.ok.injEq] at h
        exact .inl ⟨x, rfl, h.symm⟩
    | cons y t' =>
      simp only [hl] at h
      cases hb : getHeader st bh with
      | none => simp [hb] at h
      | some b =>
        simp only [hb] at h
        refine .inr ⟨b, rfl, ?_⟩
        by_cases h1 : b.number = 1
        · simp only [h1, if_true, Slot.ok.injEq] at h
          exact .inl ⟨h1, h.symm⟩
        · simp only [h1, if_false] at h
          have scan : ∀ (l : List Nat), scanFirst u st bh l = .ok s →
              ∃ z ∈ l, (AncI st z bh ∨ z = bh) ∧ s = u.slot z := by
            intro l
            induction l with
            | nil => intro hs; simp [scanFirst] at hs
            | cons z r ih =>
              intro hs
              unfold scanFirst at hs
              cases hd : isDesc st z bh with
              | none => simp [hd] at hs
              | some v =>
                cases v with
                | true =>
                  simp only [hd] at hs
                  cases hgz : getHeader st z with
                  | none => simp [hgz] at hs
                  | some _ =>
                    simp only [hgz, Slot.ok.injEq] at hs
                    exact ⟨z, List.mem_cons_self .., isDesc_sound inv hd, hs.symm⟩
                | false =>
                  simp only [hd] at hs
                  obtain ⟨z', hz', hr⟩ := ih hs
                  exact ⟨z', List.mem_cons_of_mem _ hz', hr⟩
          obtain ⟨z, hz, hr⟩ := scan _ h
          exact .inr ⟨z, hz, hr⟩

/-! ### the loop before the repair, and concrete (non-vacuous) instances -/

def wA1 : Blk := { hash := 2, parent := 1, number := 1, sroot := 0 }
def wA2 : Blk := { hash := 3, parent := 2, number := 2, sroot := 0 }
def wA3 : Blk := { hash := 4, parent := 3, number := 3, sroot := 0 }
def wB2 : Blk := { hash := 5, parent := 2, number := 2, sroot := 0 }

def wU : Univ :=
  { blk := fun h => if h = 1 then genesis else if h = 2 then wA1 else if h = 3 then wA2 else if h = 4 then wA3
      else if h = 5 then wB2 else default
    slot := fun h => if h = 2 then 10 else if h = 3 then 11 else if h = 4 then 12 else if h = 5 then 11 else 0 }

/-- chain g ← a1 ← a2 ← a3, sibling b2 of a2 announces epoch data 7 and config 9 -/
def wOps : List Op := [.add 2, .add 3, .add 4, .add 5, .ann 5 7, .cfg 5 9]
def wSt : St := run wU 200 wOps

theorem wU_ok : wU.blk genesis.hash = genesis := rfl
theorem wOps_ok : ∀ o ∈ wOps, OpOK wU o := by
  intro o ho
  simp only [wOps, List.mem_cons, List.mem_nil_iff, or_false] at ho
  rcases ho with rfl | rfl | rfl | rfl | rfl | rfl <;> simp [OpOK, wU, wA1, wA2, wA3, wB2, genesis]

theorem old_loop_at_a1 : ∀ fuel, findAncOld wSt [(5, 7)] wA2 fuel wA1 = .outOfFuel
  | 0 => rfl
  | fuel + 1 => by
    have h1 : [((5 : Nat), (7 : Nat))].filter (hit wSt wA1.hash) = [] := by decide
    have h2 : getHeader wSt wA2.parent = some wA1 := by decide
    unfold findAncOld
    simp only [h1, h2, ne_eq, not_true_eq_false, if_false]
    have h3 : wA1.parent ≠ 0 := by decide
    simp only [h3, if_false]
    exact old_loop_at_a1 fuel

/-- **the defect that was repaired**: with `GetHeader(header.ParentHash)` the loop never ends for block a2 of
    the witness (no amount of fuel suffices), i.e. `C26_terminates` was false for the code as found. -/
theorem C26_old_loop_diverges : ∀ fuel, findAncOld wSt [(5, 7)] wA2 fuel wA2 = .outOfFuel
  | 0 => rfl
  | fuel + 1 => by
    have h1 : [((5 : Nat), (7 : Nat))].filter (hit wSt wA2.hash) = [] := by decide
    have h2 : getHeader wSt wA2.parent = some wA1 := by decide
    unfold findAncOld
    simp only [h1, h2, ne_eq, not_true_eq_false, if_false]
    have h3 : wA2.parent ≠ 0 := by decide
    simp only [h3, if_false]
    exact old_loop_at_a1 fuel

/-- the repaired loop on the same witness: prompt failure for a2/a3, own data for b2, and the genesis
    configuration (not an error, not b2's) for the blocks of the other fork -/
example : getEpochDataRaw wSt 1 wA2 = .errHash := by decide
example : getEpochDataRaw wSt 1 wA3 = .errHash := by decide
example : getEpochDataRaw wSt 1 wB2 = .mem [(5, 7)] := by decide
example : getConfigData wSt wA3 1 = .gen := by decide
example : getConfigData wSt wB2 3 = .mem [(5, 9)] := by decide
example : WF wU wSt := C26_wf_reachable wU wU_ok 200 wOps wOps_ok

/-- finalising a2 prunes b2: its announcements stay in the maps but no surviving block is served from them;
    finalising a block that announced persists its data for everybody -/
def wSt2 : St := run wU 200 (wOps ++ [.fin 3 1])
example : (wSt2.bs.tree.map (·.hash)) = [3, 4] := by decide
example : getEpochDataRaw wSt2 1 wA3 = .errHash := by decide
example : getConfigData wSt2 wA3 2 = .gen := by decide
def wSt3 : St := run wU 200 [.add 2, .add 3, .add 5, .ann 2 6, .ann 5 7, .fin 2 1]
example : getEpochDataRaw wSt3 1 wA2 = .db 6 := by decide
example : wSt3.nextEpoch = [] := by decide

end Gossamer.C26
