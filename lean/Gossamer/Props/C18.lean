/-
C18  Only supermajority-signed GRANDPA commits finalise blocks.

All theorems are about the model in Gossamer/Model/C18.lean (the code after the two `fix:` commits);
the differential run ties that model to lib/grandpa.  Signature validity is the oracle
`entryValid` (ed25519 is trusted).
-/
import Gossamer.Model.C18
namespace Gossamer.C18

deriving instance DecidableEq for Except

/-! ### threshold arithmetic -/

/-- "more than ⌊2n/3⌋" is exactly "more than two thirds" -/
theorem C18_threshold_arith (w n : Nat) : w > thr n ↔ 3 * w > 2 * n := by
  unfold thr; omega

/-- ... whereas "at least ⌊2n/3⌋" (what the code asks for) is not: 2 of 4, 2 of 3, 0 of 1 -/
theorem C18_threshold_not_strict_counterexample :
    ¬ (∀ w n : Nat, w ≥ thr n → 3 * w > 2 * n) := by
  intro h
  exact absurd (h 2 4 (by decide)) (by decide)

/-- reaching the code's threshold but not a supermajority means sitting exactly on it -/
theorem thr_boundary (w n : Nat) (h : thr n ≤ w) (hs : ¬ 3 * w > 2 * n) : w = thr n := by
  unfold thr at *; omega

/-! ### list facts (core has no `Nodup.insert` / subset-cardinality lemma) -/

theorem nodup_insert {l : List Nat} (a : Nat) (h : l.Nodup) : (l.insert a).Nodup := by
  by_cases m : a ∈ l
  · rw [List.insert_of_mem m]; exact h
  · rw [List.insert_of_not_mem m]; exact List.nodup_cons.mpr ⟨m, h⟩

/-- a duplicate-free list is no longer than any list that contains its elements -/
theorem nodup_subset_length_le :
    ∀ (l m : List Nat), l.Nodup → (∀ x ∈ l, x ∈ m) → l.length ≤ m.length := by
  intro l
  induction l with
  | nil => intro m _ _; simp
  | cons a t ih =>
    intro m hn h
    have hn' := List.nodup_cons.mp hn
    have ha : a ∈ m := h a (List.mem_cons_self ..)
    have ht : ∀ x ∈ t, x ∈ m.erase a := by
      intro x hx
      have hne : x ≠ a := fun e => hn'.1 (e ▸ hx)
      exact (List.mem_erase_of_ne hne).mpr (h x (List.mem_cons_of_mem _ hx))
    have := ih (m.erase a) hn'.2 ht
    have hl := List.length_erase_of_mem ha
    have hpos : 0 < m.length := List.length_pos_of_mem ha
    simp only [List.length_cons]
    omega

/-- a duplicate-free list of members of `m` that all satisfy `p` is no longer than the number of
    such members -/
theorem length_le_countP (p : Nat → Bool) (m l : List Nat) (hn : l.Nodup)
    (h : ∀ x ∈ l, x ∈ m ∧ p x = true) : l.length ≤ m.countP p := by
  rw [List.countP_eq_length_filter]
  exact nodup_subset_length_le l (m.filter p) hn (fun x hx => List.mem_filter.mpr (h x hx))

/-- if every member of the duplicate-free `m` with `p` is in `l`, there are at most `l.length` of them -/
theorem countP_le_length (p : Nat → Bool) (m l : List Nat) (hm : m.Nodup)
    (h : ∀ x ∈ m, p x = true → x ∈ l) : m.countP p ≤ l.length := by
  rw [List.countP_eq_length_filter]
  exact nodup_subset_length_le (m.filter p) l (hm.sublist List.filter_sublist)
    (fun x hx => h x (List.mem_filter.mp hx).1 (List.mem_filter.mp hx).2)

/-! ### the loop invariant -/

/-- what the three maps of `verifyCommitMessageJustification` mean, at any point of the loop -/
structure Inv (env : Env) (c : Commit) (acc : Acc) : Prop where
  supNodup : acc.sup.Nodup
  eqvNodup : acc.eqv.Nodup
  disj : ∀ id, id ∈ acc.sup → id ∉ acc.eqv
  eqvKey : ∀ id, id ∈ acc.eqv → acc.first.lookup id ≠ none
  first : ∀ id v, acc.first.lookup id = some v →
    ∃ e, e ∈ c.entries ∧ e.id = id ∧ entryValid env c e = true ∧ e.vote = v
  sup : ∀ id, id ∈ acc.sup →
    ∃ e, e ∈ c.entries ∧ e.id = id ∧ entryValid env c e = true ∧ onChain env c e = true
  eqv : ∀ id, id ∈ acc.eqv →
    ∃ e₁ e₂, e₁ ∈ c.entries ∧ e₂ ∈ c.entries ∧ e₁.id = id ∧ e₂.id = id ∧
      entryValid env c e₁ = true ∧ entryValid env c e₂ = true ∧ e₁.vote ≠ e₂.vote

theorem inv_empty (env : Env) (c : Commit) : Inv env c Acc.empty where
  supNodup := by simp [Acc.empty]
  eqvNodup := by simp [Acc.empty]
  disj := by simp [Acc.empty]
  eqvKey := by simp [Acc.empty]
  first := by simp [Acc.empty]
  sup := by simp [Acc.empty]
  eqv := by simp [Acc.empty]

/-- second valid precommit of `e.id`, for another vote: `e.id` becomes an equivocator -/
theorem inv_equivocate {env : Env} {c : Commit} {acc : Acc} {e : Entry} {v : Nat × Nat}
    (he : e ∈ c.entries) (hval : entryValid env c e = true) (h : Inv env c acc)
    (hv : acc.first.lookup e.id = some v) (hne : v ≠ (e.blk, e.num)) :
    Inv env c { acc with eqv := acc.eqv.insert e.id, sup := acc.sup.erase e.id } where
  supNodup := h.supNodup.erase _
  eqvNodup := nodup_insert _ h.eqvNodup
  disj := by
    intro id hs hq
    have hs' := (h.supNodup.mem_erase_iff).mp hs
    rcases List.mem_insert_iff.mp hq with hq | hq
    · exact hs'.1 hq
    · exact h.disj id hs'.2 hq
  eqvKey := by
    intro id hq
    rcases List.mem_insert_iff.mp hq with hq | hq
    · subst hq; simp [hv]
    · exact h.eqvKey id hq
  first := h.first
  sup := by
    intro id hs
    exact h.sup id ((h.supNodup.mem_erase_iff).mp hs).2
  eqv := by
    intro id hq
    rcases List.mem_insert_iff.mp hq with hq | hq
    · subst hq
      obtain ⟨e₁, h1, h2, h3, h4⟩ := h.first e.id v hv
      exact ⟨e₁, e, h1, he, h2, rfl, h3, hval, by rw [h4]; exact hne⟩
    · exact h.eqv id hq

/-- first valid precommit of `e.id` -/
theorem inv_first {env : Env} {c : Commit} {acc : Acc} {e : Entry} {isDesc : Bool}
    (he : e ∈ c.entries) (hval : entryValid env c e = true) (h : Inv env c acc)
    (hd : env.tree.isDescendantOf c.tblk e.blk = .ok isDesc)
    (hv : acc.first.lookup e.id = none) :
    Inv env c { first := (e.id, (e.blk, e.num)) :: acc.first
                eqv := acc.eqv
                sup := if isDesc then acc.sup.insert e.id else acc.sup } where
  supNodup := by
    cases isDesc
    · exact h.supNodup
    · exact nodup_insert _ h.supNodup
  eqvNodup := h.eqvNodup
  disj := by
    intro id hs hq
    cases isDesc
    · exact h.disj id hs hq
    · rcases List.mem_insert_iff.mp hs with hs | hs
      · subst hs; exact h.eqvKey _ hq hv
      · exact h.disj id hs hq
  eqvKey := by
    intro id hq
    have := h.eqvKey id hq
    rw [List.lookup_cons]
    split
    · simp
    · exact this
  first := by
    intro id v hl
    rw [List.lookup_cons] at hl
    split at hl
    · rename_i heq
      have : id = e.id := by simpa using heq
      subst this
      exact ⟨e, he, rfl, hval, by simpa [Entry.vote] using hl⟩
    · exact h.first id v hl
  sup := by
    intro id hs
    cases isDesc
    · exact h.sup id hs
    · rcases List.mem_insert_iff.mp hs with hs | hs
      · subst hs
        exact ⟨e, he, rfl, hval, by simp [onChain, hd]⟩
      · exact h.sup id hs
  eqv := h.eqv

theorem inv_step {env : Env} {c : Commit} {acc acc' : Acc} {e : Entry}
    (he : e ∈ c.entries) (h : Inv env c acc) (hs : stepEntry env c acc e = .ok acc') :
    Inv env c acc' := by
  unfold stepEntry at hs
  split at hs
  · injection hs with hs; subst hs; exact h
  · rename_i hval
    have hval : entryValid env c e = true := by simpa using hval
    split at hs
    · injection hs with hs; subst hs; exact h
    · rename_i isDesc hd
      split at hs
      · exact nomatch hs
      · split at hs
        · exact nomatch hs
        · split at hs
          · rename_i v hv
            split at hs
            · rename_i hne
              injection hs with hs; subst hs
              exact inv_equivocate he hval h hv hne
            · injection hs with hs; subst hs; exact h
          · rename_i hv
            injection hs with hs; subst hs
            exact inv_first he hval h hd hv

theorem inv_loop {env : Env} {c : Commit} :
    ∀ (es : List Entry) (acc acc' : Acc), (∀ e ∈ es, e ∈ c.entries) → Inv env c acc →
      loop env c es acc = .ok acc' → Inv env c acc' := by
  intro es
  induction es with
  | nil =>
    intro acc acc' _ h hl
    simp only [loop] at hl
    injection hl with hl; subst hl; exact h
  | cons e es ih =>
    intro acc acc' hsub h hl
    simp only [loop] at hl
    split at hl
    · rename_i a hs
      exact ih a acc' (fun x hx => hsub x (List.mem_cons_of_mem _ hx))
        (inv_step (hsub e (List.mem_cons_self ..)) h hs) hl
    · exact nomatch hl

theorem inv_verifyAcc {env : Env} {c : Commit} {acc : Acc} (h : verifyAcc env c = .ok acc) :
    Inv env c acc := by
  unfold verifyAcc at h
  split at h; · exact nomatch h
  split at h; · exact nomatch h
  split at h; · exact nomatch h
  split at h
  · exact nomatch h
  · exact nomatch h
  · exact inv_loop c.entries Acc.empty acc (fun _ hx => hx) (inv_empty env c) h

/-! ### what is counted -/

theorem entryValid_mem {env : Env} {c : Commit} {e : Entry} (h : entryValid env c e = true) :
    e.id ∈ env.auths := by
  simp [entryValid] at h; exact h.2

/-- every key the code counts is a current authority that supports the commit in the sense of the
    property, and it is counted once -/
theorem C18_counted_are_distinct_supporters {env : Env} {c : Commit} {acc : Acc}
    (h : verifyAcc env c = .ok acc) :
    (acc.sup ++ acc.eqv).Nodup ∧
      ∀ id, id ∈ acc.sup ++ acc.eqv → id ∈ env.auths ∧ supports env c id = true := by
  have inv := inv_verifyAcc h
  refine ⟨?_, ?_⟩
  · rw [List.nodup_append]
    refine ⟨inv.supNodup, inv.eqvNodup, ?_⟩
    intro a ha b hb hab
    subst hab
    exact inv.disj a ha hb
  · intro id hid
    rcases List.mem_append.mp hid with hs | hq
    · obtain ⟨e, h1, h2, h3, h4⟩ := inv.sup id hs
      subst h2
      refine ⟨entryValid_mem h3, ?_⟩
      simp only [supports, hasValidOnChain, Bool.or_eq_true, List.any_eq_true]
      exact Or.inl ⟨e, h1, by simp [h3, h4]⟩
    · obtain ⟨e₁, e₂, h1, h2, h3, h4, h5, h6, h7⟩ := inv.eqv id hq
      subst h3
      refine ⟨entryValid_mem h5, ?_⟩
      simp only [supports, hasTwoValid, Bool.or_eq_true, List.any_eq_true]
      exact Or.inr ⟨e₁, h1, e₂, h2, by simp [h4, h5, h6, h7]⟩

/-- `validAndEqv` never exceeds the number of distinct supporting authorities -/
theorem count_le_specCount {env : Env} {c : Commit} {acc : Acc} (h : verifyAcc env c = .ok acc) :
    acc.count ≤ specCount env c := by
  obtain ⟨hn, hall⟩ := C18_counted_are_distinct_supporters h
  have := length_le_countP (supports env c) env.auths (acc.sup ++ acc.eqv) hn hall
  simpa [Acc.count, specCount] using this

/-- `validAndEqv` as a function of the inputs (0 when the function returned before the comparison) -/
def codeCount (env : Env) (c : Commit) : Nat :=
  match verifyAcc env c with
  | .ok acc => acc.count
  | .error _ => 0

theorem verifyCommit_ok {env : Env} {c : Commit} (h : verifyCommit env c = .ok ()) :
    ∃ acc, verifyAcc env c = .ok acc ∧ thr env.n ≤ acc.count := by
  unfold verifyCommit at h
  split at h
  · exact nomatch h
  · rename_i acc ha
    split at h
    · exact nomatch h
    · exact ⟨acc, ha, by omega⟩

/-! ### C18_sound -/

/-- What the code as it stands guarantees: an accepted commit is backed by at least ⌊2n/3⌋ DISTINCT
    current authorities, each with a valid precommit for the commit's round and the current set on
    the target or a descendant, or with two different valid precommits. -/
theorem C18_accept_reaches_threshold {env : Env} {c : Commit} (h : verifyCommit env c = .ok ()) :
    thr env.n ≤ specCount env c := by
  obtain ⟨acc, ha, ht⟩ := verifyCommit_ok h
  have := count_le_specCount ha
  omega

/- The property itself:

     theorem C18_sound : verifyCommit env c = .ok () → supermajority (specCount env c) env.n = true

   does NOT hold for the code (known finding c18-threshold-not-strict): the comparison is
   `validAndEqv < threshold` with threshold = ⌊2n/3⌋.  It holds outside the region
   `validAndEqv = ⌊2n/3⌋`: -/
theorem C18_sound_partial {env : Env} {c : Commit} (h : verifyCommit env c = .ok ())
    (hregion : codeCount env c ≠ thr env.n) :
    supermajority (specCount env c) env.n = true := by
  obtain ⟨acc, ha, ht⟩ := verifyCommit_ok h
  have hle := count_le_specCount ha
  have hc : codeCount env c = acc.count := by simp [codeCount, ha]
  have : acc.count > thr env.n := by omega
  have : specCount env c > thr env.n := by omega
  simp only [supermajority, decide_eq_true_eq]
  exact (C18_threshold_arith _ _).mp this

/-- the same, for what `handleCommitMessage` does: SetFinalisedHash is called only for the target of
    a commit that passed, and (outside the region) has a supermajority behind it -/
theorem C18_finalise_sound_partial {env : Env} {c : Commit}
    (h : (handleCommit env c).fin ≠ none) (hregion : codeCount env c ≠ thr env.n) :
    (handleCommit env c).fin = some (c.tblk, c.round, env.set) ∧
      env.tree.known c.tblk = true ∧ env.tree.depth c.tblk = c.tnum ∧
      supermajority (specCount env c) env.n = true := by
  unfold handleCommit handleCommitG at h ⊢
  simp only [Bool.false_eq_true, ↓reduceIte] at h ⊢
  split; · simp_all
  split; · simp_all
  split; · simp_all
  split; · simp_all
  split
  · simp_all
  · rename_i hk hd _ _ _ hv
    have hs := C18_sound_partial hv hregion
    have hk' : env.tree.known c.tblk = true := by simpa using hk
    have hd' : env.tree.depth c.tblk = c.tnum := by simpa using hd
    split
    · exact ⟨rfl, hk', hd', hs⟩
    · split
      · exact ⟨rfl, hk', hd', hs⟩
      · exact ⟨rfl, hk', hd', hs⟩

/-! witnesses -/

/-- two blocks: 0 ← 1 ← 2, and 3 a sibling of 1 -/
def exTree : Tree := ⟨[0, 1, 0]⟩
def exEnv (n : Nat) : Env := ⟨List.range n, 0, exTree, 0, false, 0⟩
def exOk (id blk num : Nat) : Entry := ⟨id, blk, num, Sig.honest id blk num 1 0⟩
def exCommit (es : List Entry) : Commit := ⟨1, 0, 1, 1, es, 0⟩

/-- the negation of the full statement at a concrete witness: 4 authorities, 2 honest precommits -/
theorem C18_sound_counterexample :
    ∃ (env : Env) (c : Commit), verifyCommit env c = .ok () ∧
      (handleCommit env c).fin = some (1, 1, 0) ∧ specCount env c = 2 ∧ env.auths = [0, 1, 2, 3] ∧
      supermajority (specCount env c) env.n = false :=
  ⟨exEnv 4, exCommit [exOk 0 1 1, exOk 1 2 2], by decide⟩

/-- non-vacuity: 3 of 4 honest precommits (one on a descendant) are accepted, outside the region,
    and the block is finalised -/
example : verifyCommit (exEnv 4) (exCommit [exOk 0 1 1, exOk 1 2 2, exOk 2 1 1]) = .ok () ∧
    codeCount (exEnv 4) (exCommit [exOk 0 1 1, exOk 1 2 2, exOk 2 1 1]) ≠ thr 4 ∧
    (handleCommit (exEnv 4) (exCommit [exOk 0 1 1, exOk 1 2 2, exOk 2 1 1])).fin = some (1, 1, 0) := by
  decide

/-! ### C18_reject_finalises_nothing -/

/-- a commit that `verifyCommitMessageJustification` rejects causes neither SetFinalisedHash nor
    SetPrecommits -/
theorem C18_reject_finalises_nothing {env : Env} {c : Commit} (h : verifyCommit env c ≠ .ok ()) :
    (handleCommit env c).fin = none ∧ (handleCommit env c).pc = none := by
  unfold handleCommit handleCommitG
  simp only [Bool.false_eq_true, ↓reduceIte]
  split; · simp
  split; · simp
  split; · simp
  split; · simp
  split
  · simp
  · rename_i hv; exact absurd hv h

/-- a commit with fewer than ⌊2n/3⌋ distinct supporting authorities finalises nothing, whatever
    else it contains (repetitions, garbage, outsiders, off-chain votes) -/
theorem C18_short_commit_finalises_nothing {env : Env} {c : Commit}
    (h : specCount env c < thr env.n) :
    ((handleCommit env c).res ≠ .ok ∨ env.has = true) ∧
      (handleCommit env c).fin = none ∧ (handleCommit env c).pc = none := by
  have hv : verifyCommit env c ≠ .ok () := by
    intro hv
    have := C18_accept_reaches_threshold hv
    omega
  refine ⟨?_, C18_reject_finalises_nothing hv⟩
  unfold handleCommit handleCommitG
  simp only [Bool.false_eq_true, ↓reduceIte]
  split; · simp
  split; · simp
  split; · simp
  split
  · rename_i hh; exact Or.inr hh
  split
  · simp
  · rename_i hv'; exact absurd hv' hv

/-- SetFinalisedHash is called at most for the commit's own target, round and the current set, and
    only when the target is a known block with the claimed number, the set ids agree and the
    justification was accepted -/
theorem C18_finalises_only_verified_target {env : Env} {c : Commit} {x : Nat × Nat × Nat}
    (h : (handleCommit env c).fin = some x) :
    x = (c.tblk, c.round, env.set) ∧ verifyCommit env c = .ok () ∧ env.has = false ∧
      env.tree.known c.tblk = true ∧ env.tree.depth c.tblk = c.tnum := by
  unfold handleCommit handleCommitG at h
  simp only [Bool.false_eq_true, ↓reduceIte] at h
  split at h; · simp at h
  split at h; · simp at h
  split at h; · simp at h
  split at h; · simp at h
  split at h
  · simp at h
  · rename_i hk hd _ hh _ hv
    have hk' : env.tree.known c.tblk = true := by simpa using hk
    have hd' : env.tree.depth c.tblk = c.tnum := by simpa using hd
    have hh' : env.has = false := by simpa using hh
    split at h
    · simp at h; exact ⟨h.symm, hv, hh', hk', hd'⟩
    · split at h
      · simp at h; exact ⟨h.symm, hv, hh', hk', hd'⟩
      · simp at h; exact ⟨h.symm, hv, hh', hk', hd'⟩

/-- an accepted commit is for the current set and for a descendant of the highest finalised block -/
theorem C18_accept_set_and_ancestry {env : Env} {c : Commit} (h : verifyCommit env c = .ok ()) :
    c.set = env.set ∧ c.lm = 0 ∧ env.fault ≠ 1 ∧
      (env.fault ≠ 2 → env.tree.isDescendantOf env.fin c.tblk = .ok true) := by
  obtain ⟨acc, ha, _⟩ := verifyCommit_ok h
  unfold verifyAcc at ha
  split at ha; · exact nomatch ha
  split at ha; · exact nomatch ha
  split at ha; · exact nomatch ha
  rename_i h1 h2 h3
  refine ⟨by simpa using h2, by simpa using h1, h3, ?_⟩
  intro hf
  split at ha
  · exact nomatch ha
  · exact nomatch ha
  · rename_i hd; simpa [hf] using hd

/-! ### C18_equivocator_needs_two_valid -/

/-- a key enters `eqvVoters` only if it is a current authority and the commit holds two entries
    with its valid signature (right round, right set) for two different votes -/
theorem C18_equivocator_needs_two_valid {env : Env} {c : Commit} {acc : Acc}
    (h : verifyAcc env c = .ok acc) (id : Nat) (hid : id ∈ acc.eqv) :
    id ∈ env.auths ∧ ∃ e₁ e₂, e₁ ∈ c.entries ∧ e₂ ∈ c.entries ∧ e₁.id = id ∧ e₂.id = id ∧
      entryValid env c e₁ = true ∧ entryValid env c e₂ = true ∧ e₁.vote ≠ e₂.vote := by
  obtain ⟨e₁, e₂, h1, h2, h3, h4, h5, h6, h7⟩ := (inv_verifyAcc h).eqv id hid
  exact ⟨by rw [← h3]; exact entryValid_mem h5, e₁, e₂, h1, h2, h3, h4, h5, h6, h7⟩

/-- a key is counted as an ordinary supporter only for a valid precommit on the target's chain,
    and never together with being counted as an equivocator -/
theorem C18_supporter_needs_valid_on_chain {env : Env} {c : Commit} {acc : Acc}
    (h : verifyAcc env c = .ok acc) (id : Nat) (hid : id ∈ acc.sup) :
    id ∈ env.auths ∧ id ∉ acc.eqv ∧ ∃ e, e ∈ c.entries ∧ e.id = id ∧ entryValid env c e = true ∧
      onChain env c e = true := by
  have inv := inv_verifyAcc h
  obtain ⟨e, h1, h2, h3, h4⟩ := inv.sup id hid
  exact ⟨by rw [← h2]; exact entryValid_mem h3, inv.disj id hid, e, h1, h2, h3, h4⟩

/-- validity of an entry is exactly: the authority's own untouched precommit signature over this
    vote, the commit's round and the current set -/
theorem C18_valid_iff (env : Env) (c : Commit) (e : Entry) :
    entryValid env c e = true ↔
      e.sig = ⟨false, e.id, 1, e.blk, e.num, c.round, env.set, 0⟩ ∧ e.id ∈ env.auths := by
  simp only [entryValid, Sig.honest, Bool.and_eq_true]
  constructor
  · intro ⟨h1, h2⟩; exact ⟨of_decide_eq_true h1, List.contains_iff_mem.mp h2⟩
  · intro ⟨h1, h2⟩; exact ⟨decide_eq_true h1, List.contains_iff_mem.mpr h2⟩

/-- non-vacuity: a real equivocator (two valid precommits, neither on the target's chain) is counted
    once; one valid plus one badly signed entry is no equivocation; garbage pairs count nothing -/
example :
    (verifyAcc (exEnv 4) (exCommit [exOk 0 3 1, exOk 0 0 0, exOk 0 3 1])).toOption.map
        (fun a => (a.sup, a.eqv)) = some ([], [0]) ∧
    (verifyAcc (exEnv 4) (exCommit [exOk 0 1 1, { exOk 0 2 2 with sig := ⟨true, 0, 0, 0, 0, 0, 0, 0⟩ }]
        )).toOption.map (fun a => (a.sup, a.eqv)) = some ([0], []) ∧
    codeCount (exEnv 4) (exCommit [⟨100, 1, 1, ⟨true, 0, 0, 0, 0, 0, 0, 0⟩⟩,
        ⟨100, 1, 1, ⟨false, 100, 1, 1, 1, 1, 0, 3⟩⟩]) = 0 := by
  decide

/-! ### the count is exact: every supporting authority is counted -/

/-- the block of a vote is the target or a descendant -/
def voteOnChain (env : Env) (c : Commit) (v : Nat × Nat) : Bool :=
  match env.tree.isDescendantOf c.tblk v.1 with
  | .ok true => true
  | _ => false

theorem onChain_vote (env : Env) (c : Commit) (e : Entry) :
    onChain env c e = voteOnChain env c e.vote := by
  cases h : env.tree.isDescendantOf c.tblk e.blk with
  | error x => simp [onChain, voteOnChain, Entry.vote, h]
  | ok b => cases b <;> simp [onChain, voteOnChain, Entry.vote, h]

/-- the entry is looked at by the loop: valid signature of an authority, block known to the tree -/
def seen (env : Env) (c : Commit) (e : Entry) : Bool :=
  entryValid env c e && (match env.tree.isDescendantOf c.tblk e.blk with | .ok _ => true | .error _ => false)

/-- completeness half of the invariant, over the processed prefix `P` -/
structure InvC (env : Env) (c : Commit) (P : List Entry) (acc : Acc) : Prop where
  recd : ∀ e, e ∈ P → seen env c e = true →
    ∃ v, acc.first.lookup e.id = some v ∧ (e.vote ≠ v → e.id ∈ acc.eqv)
  cnt : ∀ id v, acc.first.lookup id = some v → voteOnChain env c v = true →
    id ∈ acc.sup ∨ id ∈ acc.eqv

theorem invC_empty (env : Env) (c : Commit) : InvC env c [] Acc.empty where
  recd := by simp
  cnt := by simp [Acc.empty]

theorem invC_skip {env : Env} {c : Commit} {P : List Entry} {acc : Acc} {e : Entry}
    (h : InvC env c P acc) (hs : seen env c e = false) : InvC env c (e :: P) acc where
  recd := by
    intro x hx hsx
    rcases List.mem_cons.mp hx with hx | hx
    · subst hx; rw [hs] at hsx; exact absurd hsx (by simp)
    · exact h.recd x hx hsx
  cnt := h.cnt

theorem invC_step {env : Env} {c : Commit} {P : List Entry} {acc acc' : Acc} {e : Entry}
    (h : InvC env c P acc) (hs : stepEntry env c acc e = .ok acc') :
    InvC env c (e :: P) acc' := by
  unfold stepEntry at hs
  split at hs
  · rename_i hval
    injection hs with hs; subst hs
    exact invC_skip h (by simp only [seen]; simp at hval; simp [hval])
  · rename_i hval
    have hval : entryValid env c e = true := by simpa using hval
    split at hs
    · rename_i derr hd
      injection hs with hs; subst hs
      exact invC_skip h (by simp [seen, hd])
    · rename_i isDesc hd
      split at hs
      · exact nomatch hs
      · split at hs
        · exact nomatch hs
        · split at hs
          · rename_i v hv
            split at hs
            · rename_i hne
              injection hs with hs; subst hs
              refine ⟨?_, ?_⟩
              · intro x hx hsx
                rcases List.mem_cons.mp hx with hx | hx
                · subst hx
                  exact ⟨v, hv, fun _ => List.mem_insert_iff.mpr (Or.inl rfl)⟩
                · obtain ⟨w, hw, hq⟩ := h.recd x hx hsx
                  exact ⟨w, hw, fun hn => List.mem_insert_iff.mpr (Or.inr (hq hn))⟩
              · intro id w hw hon
                by_cases hid : id = e.id
                · exact Or.inr (List.mem_insert_iff.mpr (Or.inl hid))
                · rcases h.cnt id w hw hon with hsup | heq
                  · exact Or.inl ((List.mem_erase_of_ne hid).mpr hsup)
                  · exact Or.inr (List.mem_insert_iff.mpr (Or.inr heq))
            · rename_i heq
              have heq : v = (e.blk, e.num) := by simpa using heq
              injection hs with hs; subst hs
              refine ⟨?_, h.cnt⟩
              intro x hx hsx
              rcases List.mem_cons.mp hx with hx | hx
              · subst hx
                exact ⟨v, hv, fun hn => absurd heq.symm (by simpa [Entry.vote] using hn)⟩
              · exact h.recd x hx hsx
          · rename_i hv
            injection hs with hs; subst hs
            refine ⟨?_, ?_⟩
            · intro x hx hsx
              rcases List.mem_cons.mp hx with hx | hx
              · subst hx
                exact ⟨(x.blk, x.num), by simp, fun hn => absurd rfl hn⟩
              · obtain ⟨w, hw, hq⟩ := h.recd x hx hsx
                have hne : x.id ≠ e.id := by
                  intro he; rw [he, hv] at hw; exact absurd hw (by simp)
                refine ⟨w, ?_, hq⟩
                rw [List.lookup_cons]
                have : (x.id == e.id) = false := by simpa using hne
                simp [this, hw]
            · intro id w hw hon
              rw [List.lookup_cons] at hw
              split at hw
              · rename_i hk
                have hk : id = e.id := by simpa using hk
                have hw : (e.blk, e.num) = w := by simpa using hw
                subst hw
                have : isDesc = true := by
                  simp only [voteOnChain, hd] at hon
                  cases isDesc <;> simp_all
                subst this
                exact Or.inl (by simp [hk])
              · rcases h.cnt id w hw hon with hsup | heq
                · refine Or.inl ?_
                  cases isDesc
                  · exact hsup
                  · exact List.mem_insert_iff.mpr (Or.inr hsup)
                · exact Or.inr heq

theorem invC_loop {env : Env} {c : Commit} :
    ∀ (es P : List Entry) (acc acc' : Acc), InvC env c P acc →
      loop env c es acc = .ok acc' → InvC env c (es.reverse ++ P) acc' := by
  intro es
  induction es with
  | nil =>
    intro P acc acc' h hl
    simp only [loop] at hl
    injection hl with hl; subst hl; simpa using h
  | cons e es ih =>
    intro P acc acc' h hl
    simp only [loop] at hl
    split at hl
    · rename_i a hs
      have := ih (e :: P) a acc' (invC_step h hs) hl
      simpa using this
    · exact nomatch hl

theorem invC_verifyAcc {env : Env} {c : Commit} {acc : Acc} (h : verifyAcc env c = .ok acc) :
    InvC env c c.entries.reverse acc := by
  unfold verifyAcc at h
  split at h; · exact nomatch h
  split at h; · exact nomatch h
  split at h; · exact nomatch h
  split at h
  · exact nomatch h
  · exact nomatch h
  · simpa using invC_loop c.entries [] Acc.empty acc (invC_empty env c) h

/-- every valid entry names a block the tree knows (no precommit is skipped for an unknown block) -/
def allSeen (env : Env) (c : Commit) : Prop :=
  ∀ e, e ∈ c.entries → entryValid env c e = true → seen env c e = true

/-- under `allSeen`, every authority that supports the commit is counted -/
theorem supporters_are_counted {env : Env} {c : Commit} {acc : Acc}
    (h : verifyAcc env c = .ok acc) (hall : allSeen env c) (id : Nat)
    (hs : supports env c id = true) : id ∈ acc.sup ++ acc.eqv := by
  have inv := invC_verifyAcc h
  have hrec : ∀ e, e ∈ c.entries → entryValid env c e = true →
      ∃ v, acc.first.lookup e.id = some v ∧ (e.vote ≠ v → e.id ∈ acc.eqv) :=
    fun e he hv => inv.recd e (by simpa using he) (hall e he hv)
  simp only [supports, hasValidOnChain, hasTwoValid, Bool.or_eq_true, List.any_eq_true] at hs
  rcases hs with ⟨e, he, hp⟩ | ⟨e₁, h1, e₂, h2, hp⟩
  · simp only [Bool.and_eq_true, beq_iff_eq] at hp
    obtain ⟨⟨hid, hv⟩, hon⟩ := hp
    obtain ⟨v, hl, hq⟩ := hrec e he hv
    by_cases hev : e.vote = v
    · have : voteOnChain env c v = true := by
        rw [← hev, ← onChain_vote]; exact hon
      rcases inv.cnt e.id v hl this with hh | hh
      · exact List.mem_append.mpr (Or.inl (hid ▸ hh))
      · exact List.mem_append.mpr (Or.inr (hid ▸ hh))
    · exact List.mem_append.mpr (Or.inr (hid ▸ hq hev))
  · simp only [Bool.and_eq_true, beq_iff_eq, bne_iff_ne] at hp
    obtain ⟨⟨⟨⟨hi1, hi2⟩, hv1⟩, hv2⟩, hne⟩ := hp
    obtain ⟨v, hl, hq⟩ := hrec e₁ h1 hv1
    obtain ⟨w, hl', hq'⟩ := hrec e₂ h2 hv2
    have hvw : v = w := by
      rw [hi1, ← hi2, hl'] at hl; injection hl with hl; exact hl.symm
    by_cases hev : e₁.vote = v
    · have : e₂.vote ≠ w := by rw [← hvw, ← hev]; exact fun h => hne h.symm
      exact List.mem_append.mpr (Or.inr (hi2 ▸ hq' this))
    · exact List.mem_append.mpr (Or.inr (hi1 ▸ hq hev))

/-- `validAndEqv` IS the number of distinct supporting authorities when no valid precommit names an
    unknown block -/
theorem C18_count_exact {env : Env} {c : Commit} {acc : Acc}
    (h : verifyAcc env c = .ok acc) (hall : allSeen env c) (hnd : env.auths.Nodup) :
    acc.count = specCount env c := by
  have hle := count_le_specCount h
  have hge := countP_le_length (supports env c) env.auths (acc.sup ++ acc.eqv) hnd
    (fun x _ hp => supporters_are_counted h hall x hp)
  simp only [specCount, Acc.count] at *
  simp only [List.length_append] at hge
  omega

/-- the decision of `verifyCommitMessageJustification`, completely: once the loop ran to its end
    without a header/number error, the commit is accepted exactly when at least ⌊2n/3⌋ distinct
    authorities support it -/
theorem C18_accept_iff {env : Env} {c : Commit} {acc : Acc}
    (h : verifyAcc env c = .ok acc) (hall : allSeen env c) (hnd : env.auths.Nodup) :
    verifyCommit env c = .ok () ↔ thr env.n ≤ specCount env c := by
  have hc := C18_count_exact h hall hnd
  unfold verifyCommit
  rw [h]
  simp only
  split
  · constructor
    · intro hh; exact nomatch hh
    · intro hh; omega
  · constructor
    · intro _; omega
    · intro _; rfl

/-! ### histories: commits and authority-set changes on one Service -/

theorem stateAfter_append (t : Tree) (s : Svc) (a b : List Op) :
    stateAfter t s (a ++ b) = stateAfter t (stateAfter t s a) b := by
  simp [stateAfter, List.foldl_append]

theorem stateAfter_cons (t : Tree) (s : Svc) (op : Op) (ops : List Op) :
    stateAfter t s (op :: ops) = stateAfter t (stepOp t s op).1 ops := by
  simp [stateAfter]

/-- the trace of a history, cut at any op: the op is executed in the state the prefix left -/
theorem run_split (t : Tree) : ∀ (pre : List Op) (s : Svc) (op : Op) (post : List Op),
    run t (pre ++ op :: post) s =
      run t pre s ++ (stepOp t (stateAfter t s pre) op).2 ::
        run t post (stepOp t (stateAfter t s pre) op).1 := by
  intro pre
  induction pre with
  | nil => intro s op post; simp [run, runG, stepOp, stateAfter]
  | cons p ps ih =>
    intro s op post
    have := ih (stepOp t s p).1 op post
    simp only [run, stepOp] at this ⊢
    simp only [List.cons_append, runG, stateAfter_cons, stepOp, this]

/-- handling a commit never changes the authority set or the set id -/
theorem commit_keeps_set (t : Tree) (s : Svc) (f : Nat) (c : Commit) :
    (stepOp t s (.commit f c)).1.auths = s.auths ∧ (stepOp t s (.commit f c)).1.set = s.set := by
  simp only [stepOp, stepOpG, Svc.record]
  split
  · split <;> simp
  · simp

theorem commits_keep_set (t : Tree) : ∀ (cs : List Op) (s : Svc),
    (∀ op ∈ cs, ∃ f c, op = .commit f c) →
      (stateAfter t s cs).auths = s.auths ∧ (stateAfter t s cs).set = s.set := by
  intro cs
  induction cs with
  | nil => intro s _; simp [stateAfter]
  | cons op ops ih =>
    intro s h
    obtain ⟨f, c, rfl⟩ := h op (List.mem_cons_self ..)
    rw [stateAfter_cons]
    have h1 := ih (stepOp t s (.commit f c)).1 (fun o ho => h o (List.mem_cons_of_mem _ ho))
    have h2 := commit_keeps_set t s f c
    exact ⟨h1.1.trans h2.1, h1.2.trans h2.2⟩

/-- `updateAuthorities`: a set change to another set id installs exactly the new voters ... -/
theorem setchange_installs (t : Tree) (s : Svc) (ns : Nat) (vs : List Nat) (h : ns ≠ s.set) :
    (stepOp t s (.setchange ns vs)).1.auths = vs ∧ (stepOp t s (.setchange ns vs)).1.set = ns := by
  simp [stepOp, stepOpG, Svc.setchange, h]

/-- ... and one that names the current set id changes nothing (the code's `currSetID == s.state.setID`) -/
theorem setchange_same_id (t : Tree) (s : Svc) (vs : List Nat) :
    (stepOp t s (.setchange s.set vs)).1 = s := by
  simp [stepOp, stepOpG, Svc.setchange]

/-- after a set change and any number of commits, the Service is in the new set with the new voters -/
theorem C18_history_current_set (t : Tree) (s0 : Svc) (pre cs : List Op) (ns : Nat) (vs : List Nat)
    (h : ns ≠ (stateAfter t s0 pre).set) (hc : ∀ op ∈ cs, ∃ f c, op = .commit f c) :
    (stateAfter t s0 (pre ++ .setchange ns vs :: cs)).auths = vs ∧
      (stateAfter t s0 (pre ++ .setchange ns vs :: cs)).set = ns := by
  rw [stateAfter_append, stateAfter_cons]
  have h1 := commits_keep_set t cs (stepOp t (stateAfter t s0 pre) (.setchange ns vs)).1 hc
  have h2 := setchange_installs t (stateAfter t s0 pre) ns vs h
  exact ⟨h1.1.trans h2.1, h1.2.trans h2.2⟩

/- The property over histories:

     after ANY history of commits and set changes, a commit that makes the Service call
     SetFinalisedHash is backed by more than two thirds of the authorities of the set the Service is
     in at that moment

   fails for the code only through the non-strict threshold (known finding); what holds: -/

/-- After any history `pre` on one Service, the next commit is handled against the authority set and
    set id the Service is in NOW (`stateAfter`): if SetFinalisedHash is called, it is for the commit's
    own target/round and the current set id, at least ⌊2n/3⌋ DISTINCT authorities OF THE CURRENT SET
    support the commit (n = size of the current set), every counted key is a current authority, and
    outside `validAndEqv = ⌊2n/3⌋` they are more than two thirds. -/
theorem C18_history_sound_partial (t : Tree) (s0 : Svc) (pre post : List Op) (f : Nat) (c : Commit) :
    let s := stateAfter t s0 pre
    let env := envOf t s f c
    let o := handleCommit env c
    run t (pre ++ .commit f c :: post) s0 = run t pre s0 ++ .commit o :: run t post (s.record f o) ∧
    (o.fin ≠ none →
      o.fin = some (c.tblk, c.round, s.set) ∧ c.set = s.set ∧
      thr s.auths.length ≤ s.auths.countP (supports env c) ∧
      (∃ acc, verifyAcc env c = .ok acc ∧ (acc.sup ++ acc.eqv).Nodup ∧
        thr s.auths.length ≤ (acc.sup ++ acc.eqv).length ∧
        ∀ id, id ∈ acc.sup ++ acc.eqv → id ∈ s.auths ∧ supports env c id = true) ∧
      (codeCount env c ≠ thr s.auths.length →
        supermajority (s.auths.countP (supports env c)) s.auths.length = true)) := by
  intro s env o
  refine ⟨by simpa [stepOp, stepOpG] using run_split t pre s0 (.commit f c) post, ?_⟩
  intro hfin
  obtain ⟨x, hx⟩ := Option.ne_none_iff_exists'.mp hfin
  have hv := C18_finalises_only_verified_target hx
  obtain ⟨acc, ha, ht⟩ := verifyCommit_ok hv.2.1
  have hd := C18_counted_are_distinct_supporters ha
  have hset := (C18_accept_set_and_ancestry hv.2.1).1
  refine ⟨by rw [hx, hv.1]; rfl, hset, C18_accept_reaches_threshold hv.2.1, ⟨acc, ha, hd.1, ?_, hd.2⟩, ?_⟩
  · simpa [Acc.count, Env.n, env, envOf] using ht
  · intro hreg
    exact C18_sound_partial hv.2.1 hreg

/-- a commit that does not make it leaves the Service state (highest finalised block, finalised
    rounds, authority set) exactly as it was -/
theorem C18_history_reject_keeps_state (t : Tree) (s : Svc) (f : Nat) (c : Commit)
    (h : verifyCommit (envOf t s f c) c ≠ .ok ()) : (stepOp t s (.commit f c)).1 = s := by
  have := (C18_reject_finalises_nothing h).1
  simp [stepOp, stepOpG, Svc.record, this]

/-- the coordinator's scenario, on the model: authorities {0,1,2,3} of set 0 are replaced by {2,4,5}
    in set 1.  A set-1 commit signed by the three that LEFT (0,1,3) finalises nothing; one signed by
    the two newcomers (4,5) reaches ⌊2·3/3⌋ = 2 of the NEW set. -/
def exSig (id blk num round set : Nat) : Entry := ⟨id, blk, num, Sig.honest id blk num round set⟩

example :
    let s0 : Svc := ⟨[0, 1, 2, 3], 0, 0, []⟩
    let h := [Op.commit 0 ⟨1, 0, 1, 1, [exSig 0 1 1 1 0, exSig 1 1 1 1 0, exSig 3 1 1 1 0], 0⟩,
              Op.setchange 1 [2, 4, 5],
              Op.commit 0 ⟨2, 1, 2, 2, [exSig 0 2 2 2 1, exSig 1 2 2 2 1, exSig 3 2 2 2 1], 0⟩,
              Op.commit 0 ⟨3, 1, 2, 2, [exSig 4 2 2 3 1, exSig 5 2 2 3 1], 0⟩]
    (run exTree h s0).map (fun o => match o with | .commit o => o.fin | .set _ _ => none) =
      [some (1, 1, 0), none, none, some (2, 3, 1)] ∧
    (stateAfter exTree s0 h).auths = [2, 4, 5] := by
  decide

/-! ### the defects that were repaired (historical model of the code before the `fix:` commits) -/

/-- `getEquivocatoryVoters(AuthData)`: same id, different signature bytes; nothing is verified -/
def eqvVotersOld : List Entry → List (Nat × Sig) → List Nat → List Nat
  | [], _, eq => eq
  | e :: es, voters, eq =>
    match voters.lookup e.id with
    | some s =>
      if s ≠ e.sig then eqvVotersOld es voters (eq.insert e.id)
      else eqvVotersOld es ((e.id, e.sig) :: voters) eq
    | none => eqvVotersOld es ((e.id, e.sig) :: voters) eq

/-- the old loop: `totalValidPrecommits++` per entry (number/header errors left out: they do not
    occur in the witnesses) -/
def countOld (env : Env) (c : Commit) (eqv : List Nat) : List Entry → Nat
  | [] => 0
  | e :: es =>
    (if entryValid env c e && !eqv.contains e.id && onChain env c e then 1 else 0) +
      countOld env c eqv es

def acceptOld (env : Env) (c : Commit) : Bool :=
  let eqv := eqvVotersOld c.entries [] []
  decide (thr env.n ≤ countOld env c eqv c.entries + eqv.length)

/-- before 55c97d324: one authority of four, repeated three times, was a "supermajority" -/
theorem C18_prefix_duplicates_counterexample :
    acceptOld (exEnv 4) (exCommit [exOk 0 1 1, exOk 0 1 1, exOk 0 1 1]) = true ∧
    specCount (exEnv 4) (exCommit [exOk 0 1 1, exOk 0 1 1, exOk 0 1 1]) = 1 ∧
    verifyCommit (exEnv 4) (exCommit [exOk 0 1 1, exOk 0 1 1, exOk 0 1 1]) = .error (.min 2 1) := by
  decide

def exGarbage (id t : Nat) : Entry :=
  ⟨id, 1, 1, if t = 0 then ⟨true, 0, 0, 0, 0, 0, 0, 0⟩ else ⟨false, id, 1, 1, 1, 1, 0, t⟩⟩

/-- before b355fe8fe: four entries without a single valid signature, of two keys that are not even
    authorities, were a "supermajority" of four authorities -/
theorem C18_prefix_fake_equivocators_counterexample :
    acceptOld (exEnv 4) (exCommit [exGarbage 100 0, exGarbage 100 1, exGarbage 101 0, exGarbage 101 2]) = true ∧
    specCount (exEnv 4) (exCommit [exGarbage 100 0, exGarbage 100 1, exGarbage 101 0, exGarbage 101 2]) = 0 ∧
    verifyCommit (exEnv 4) (exCommit [exGarbage 100 0, exGarbage 100 1, exGarbage 101 0, exGarbage 101 2])
      = .error (.min 2 0) := by
  decide

end Gossamer.C18
