import Gossamer.Model.C04
namespace Gossamer.C04
end Gossamer.C04
