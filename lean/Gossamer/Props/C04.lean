/-
C04 — Persisted state reads back identically.

Model: `Gossamer.TrieHeap` (`writeDirty`, `MTrie.writeDirty`), `Gossamer.TrieHeap.loadF`,
`getFromDB`/`gfdF` (`TrieHeapDB`, after the `fix:` commits), with the node decoder of C07.

* `C04_getFromDB`        — if the database represents the trie `t` under `root` (`RootRep`: decoded
                           nodes, children fetched by hash or inlined, hashed values fetched under
                           `partialKey ‖ hash`), `GetFromDB(db, root, key)` returns exactly the
                           in-memory `Get(key)` — for EVERY key, present or absent.
* `C04_getFromDB_stored` — the same from the WRITER's view: it suffices that the database holds, under
                           its Blake2b hash, the encoding of every node whose encoding has ≥ 32 bytes
                           and of the root, and every hashed value (`Sto`): decoding is then the real
                           decoder (`C07_node_roundtrip`), inlined sub-branches and V1 values included.
* `C04_absent`           — a key that the in-memory trie does not hold reads as absent (nil, no error).
* `C04_atNode`           — the recursion `getFromDBAtNode` against `retrieve`, at any node.

Write side (heap model `TrieHeap`):
* `C04_writeDirty_stores`, `C04_writeDirty_coherent`, `C04_writeDirty_getFromDB` — `WriteDirty` on a
                           trie with coherent caches establishes `Sto`, keeps coherence, and `GetFromDB`
                           then reads back every key.
* `C04_incremental_inv`, `C04_incremental_partial` — along lines `(Put|Delete|ClearPrefix|SetVersion)*;
                           WriteDirty; Snapshot; …` the caches stay coherent ("clean ⇒ already in the
                           database"), so every later `WriteDirty` persists a state that reads back
                           identically.  Main trie; `ClearPrefixLimit`, child tries and `Load` are tied
                           to the Go code by the differential run only; see the level note.
-/
import Gossamer.Lib.C04Stored
import Gossamer.Lib.C04WriteMain
import Gossamer.Lib.C04Chain
import Gossamer.Model.C04
namespace Gossamer.C04
open Gossamer Gossamer.Trie Gossamer.TrieHeap

/-- `getFromDBAtNode` on a decoded node that represents `t` reads what `retrieve` reads on `t` -/
theorem C04_atNode (db : DB) (t : Trie) (n : TrieCodec.Node) (key : Bytes) (f : Nat)
    (h : Rep db t n) (hk : IsNib key) (hf : key.length < f) :
    gfdF db f n key = some (retrieve t (key.map toNib)) := gfd_rep db t n key f h hk hf

/-- **`GetFromDB` = in-memory `Get`**, for every key, when the database represents the trie -/
theorem C04_getFromDB (H : Bytes → Bytes) (db : DB) (root : Bytes) (t : Trie)
    (h : RootRep H db root t) (key : Bytes) : getFromDB H db root key = some (Trie.get t key) :=
  getFromDB_rep H db root t h key

/-- **`GetFromDB` = in-memory `Get`** when the database holds the encodings of the nodes of `t` -/
theorem C04_getFromDB_stored (H : Bytes → Bytes) (hH : ∀ m, (H m).length = 32) (db : DB) (t : Trie)
    (N : TrieCodec.Node) (hs : Sto H db t N) (hwf : C07.WF N) (hne : t ≠ .nil)
    (hroot : H (TrieCodec.encode H N) ≠ H [0])
    (hdb : dbGet db (H (TrieCodec.encode H N)) = some (TrieCodec.encode H N)) (key : Bytes) :
    getFromDB H db (H (TrieCodec.encode H N)) key = some (Trie.get t key) :=
  getFromDB_of_sto H hH db t N hs hwf hne hroot hdb key

/-- absent keys read as absent: `nil` and no error -/
theorem C04_absent (H : Bytes → Bytes) (db : DB) (root : Bytes) (t : Trie) (h : RootRep H db root t)
    (key : Bytes) (ha : Trie.get t key = none) : getFromDB H db root key = some none := by
  rw [C04_getFromDB H db root t h key, ha]

/-- the empty state: every key is absent -/
theorem C04_empty (H : Bytes → Bytes) (db : DB) (key : Bytes) : getFromDB H db (H [0]) key = some none := by
  have := C04_getFromDB H db (H [0]) .nil (Or.inl ⟨rfl, rfl⟩) key
  rw [this]; rfl

/-! ### the write side: `WriteDirty` establishes what the read side needs -/

/-- **`WriteDirty` stores the trie.**  For a trie that the heap represents (`HRep`) and whose caches
    are coherent (`Coh`: a clean node carries the Merkle value of its sub-trie and that sub-trie is
    already in the database — true in particular when every node is dirty), after `WriteDirty` the
    database `Sto`-represents it and holds the root encoding under the root hash — the hypotheses of
    `C04_getFromDB_stored` — unless two DIFFERENT values stored in the database have the same hash. -/
theorem C04_writeDirty_stores (H : Bytes → Bytes) (hH : ∀ m, (H m).length = 32) (hp : Heap) (db : DB)
    (t : Handle) (r0 : Nat) (ht : t.root = some r0) (T : Trie) (N : TrieCodec.Node)
    (hr : HRep hp T N r0) (hc : Coh H (Mem db) hp true T N r0) (hd : depth T ≤ bigFuel)
    (hok : DBOK H db) :
    Collision H (writeDirty H hp db t).2 ∨
    (Sto H (writeDirty H hp db t).2 T N ∧
      dbGet (writeDirty H hp db t).2 (H (TrieCodec.encode H N)) = some (TrieCodec.encode H N)) := by
  obtain ⟨h1, h2, _, _, _, _⟩ := writeDirty_stoG H hH hp db t r0 ht T N hr hc hd
  have hok' : DBOK H (writeDirty H hp db t).2 :=
    writeDirtyF_dbok (t.ctx H) bigFuel (hp, db) t.root hok
  rcases noColl_or_collision H hH _ hok' with hn | hcol
  · exact Or.inr ⟨sto_of_mem H hn T N h1, dbGet_of_mem hn h2⟩
  · exact Or.inl hcol

/-- after `WriteDirty` the heap is coherent again (everything reachable is clean, its Merkle value
    cached, its sub-trie in the database): the invariant that incremental writes rely on -/
theorem C04_writeDirty_coherent (H : Bytes → Bytes) (hH : ∀ m, (H m).length = 32) (hp : Heap) (db : DB)
    (t : Handle) (r0 : Nat) (ht : t.root = some r0) (T : Trie) (N : TrieCodec.Node)
    (hr : HRep hp T N r0) (hc : Coh H (Mem db) hp true T N r0) (hd : depth T ≤ bigFuel) :
    HRep (writeDirty H hp db t).1 T N r0 ∧
    Coh H (Mem (writeDirty H hp db t).2) (writeDirty H hp db t).1 true T N r0 ∧
    ((writeDirty H hp db t).1.get r0).dirty = false ∧
    (∀ k v, Mem db k v → Mem (writeDirty H hp db t).2 k v) := by
  obtain ⟨_, _, h3, h4, h5, h6⟩ := writeDirty_stoG H hH hp db t r0 ht T N hr hc hd
  exact ⟨h3, h4, h5, h6⟩

/-- **Write, then read any key directly from the database**: `GetFromDB` on the root hash returns the
    in-memory `Get` — short of a collision between two stored values or between the root encoding
    and the encoding `[0]` of the empty trie. -/
theorem C04_writeDirty_getFromDB (H : Bytes → Bytes) (hH : ∀ m, (H m).length = 32) (hp : Heap) (db : DB)
    (t : Handle) (r0 : Nat) (ht : t.root = some r0) (T : Trie) (N : TrieCodec.Node)
    (hr : HRep hp T N r0) (hc : Coh H (Mem db) hp true T N r0) (hd : depth T ≤ bigFuel)
    (hsz : SizeOK T) (hok : DBOK H db) (key : Bytes) :
    Collision H (writeDirty H hp db t).2 ∨ H (TrieCodec.encode H N) = H [0] ∨
    getFromDB H (writeDirty H hp db t).2 (H (TrieCodec.encode H N)) key = some (Trie.get T key) := by
  rcases C04_writeDirty_stores H hH hp db t r0 ht T N hr hc hd hok with hcol | ⟨hs, hg⟩
  · exact Or.inl hcol
  · by_cases hz : H (TrieCodec.encode H N) = H [0]
    · exact Or.inr (Or.inl hz)
    · exact Or.inr (Or.inr (C04_getFromDB_stored H hH _ T N hs (hrep_wf T N r0 hr hsz) (HRep.ne_nil hr) hz hg key))

/-! ### incremental writes along a line of snapshots -/

/-- The states of ONE line of trie handles on the heap model, from `NewEmptyTrie()`: `Put`, `Delete`,
    `ClearPrefix`, `SetVersion`, `Snapshot` (the line continues with the snapshot, as dot/state
    does), `WriteDirty`; the last component is the pure trie (`Trie.put`/`delete`/`clearPrefix` of the
    C02 model on the same arguments) the handle stands for.  `depth T ≤ bigFuel` is the fuel of the model's recursions (100000 levels). -/
inductive Line (H : Bytes → Bytes) : Heap → DB → Handle → Trie → Prop
  | init (ver : Ver) : Line H Heap.empty [] { root := none, gen := 0, ver := ver } .nil
  | put {hp : Heap} {db : DB} {h : Handle} {T : Trie} (l : Line H hp db h T) (hd : depth T ≤ bigFuel)
      (k v : Bytes) : Line H (put H hp h k v).1 db (put H hp h k v).2 (Trie.put T k v)
  | delete {hp : Heap} {db : DB} {h : Handle} {T : Trie} (l : Line H hp db h T) (hd : depth T ≤ bigFuel)
      (k : Bytes) : Line H (delete H hp h k).1 db (delete H hp h k).2 (Trie.delete T k)
  | clearPrefix {hp : Heap} {db : DB} {h : Handle} {T : Trie} (l : Line H hp db h T) (hd : depth T ≤ bigFuel)
      (p : Bytes) : Line H (clearPrefix H hp h p).1 db (clearPrefix H hp h p).2 (Trie.clearPrefix T p)
  | setVersion {hp : Heap} {db : DB} {h : Handle} {T : Trie} (l : Line H hp db h T) (ver : Ver) :
      Line H hp db { h with ver := ver } T
  | snapshot {hp : Heap} {db : DB} {h : Handle} {T : Trie} (l : Line H hp db h T) :
      Line H hp db (snapshot h) T
  | writeDirty {hp : Heap} {db : DB} {h : Handle} {T : Trie} (l : Line H hp db h T) (hd : depth T ≤ bigFuel) :
      Line H (writeDirty H hp db h).1 (writeDirty H hp db h).2 h T

/-- **Cache coherence of the copy-on-write mutators (`Put`, `Delete`, `ClearPrefix`) as an invariant.**  In every state of a line the
    handle's view is a tree that represents `T`, no cell of the handle's own generation is shared
    between two positions, and every clean cell carries the Merkle value of its sub-trie, which the
    database already stores ("clean ⇒ already in the database"). -/
theorem C04_incremental_inv (H : Bytes → Bytes) (hH : ∀ m, (H m).length = 32) {hp : Heap} {db : DB}
    {h : Handle} {T : Trie} (l : Line H hp db h T) : CInv H hp db h T := by
  induction l with
  | init ver => exact cinv_init H ver
  | put _ hd k v ih => exact put_cinv H hH ih (Nat.le_succ_of_le hd) k v
  | delete _ hd k ih => exact delete_cinv H hH ih (Nat.le_succ_of_le hd) k
  | clearPrefix _ hd p ih => exact clearPrefix_cinv H hH ih (Nat.le_succ_of_le hd) p
  | setVersion _ ver ih => exact setVersion_cinv H ih ver
  | snapshot _ ih => exact snapshot_cinv H ih
  | writeDirty _ hd ih => exact writeDirty_cinv H hH ih hd

/-- **Incremental persistence (main trie; `ClearPrefixLimit` and child tries not covered).**  At ANY point of a line of snapshots —
    whatever was written and persisted before — `WriteDirty` followed by `GetFromDB` on the root hash
    that `Hash()` reports returns the in-memory `Get` of EVERY key (which is `Get` of the pure trie):
    the nodes that `WriteDirty` skips because they are clean are already in the database.  Exceptions are spelled out: two DIFFERENT
    stored values with the same hash, or a non-empty trie whose root hashes to the hash of the empty
    trie's encoding `[0]`. -/
theorem C04_incremental_partial (H : Bytes → Bytes) (hH : ∀ m, (H m).length = 32) {hp : Heap} {db : DB}
    {h : Handle} {T : Trie} (l : Line H hp db h T) (hd : depth T ≤ bigFuel) (hsz : SizeOK T) (key : Bytes) :
    ∃ root, (hash H (writeDirty H hp db h).1 h).2 = some root ∧
      (Collision H (writeDirty H hp db h).2 ∨ (h.root ≠ none ∧ root = H [0]) ∨
        getFromDB H (writeDirty H hp db h).2 root key = some (get hp h.root key)) ∧
      get hp h.root key = Trie.get T key := by
  have inv := C04_incremental_inv H hH l
  rw [cinv_get inv key]
  have hroot := inv.root
  cases hr : h.root with
  | none =>
    rw [hr] at hroot
    have hT : T = .nil := hroot
    subst hT
    refine ⟨H [0], ?_, Or.inr (Or.inr ?_), rfl⟩
    · show (hashRoot H _ h.root).2 = _
      rw [hr]; rfl
    · rw [C04_empty]; rfl
  | some r0 =>
    rw [hr] at hroot
    obtain ⟨N, fp, hti, _⟩ := hroot
    obtain ⟨_, _, _, h4, h5, _⟩ := writeDirty_stoG H hH hp db h r0 hr T N hti.rep hti.coh hd
    have hcl := (Coh.clean h4 (HRep.ne_nil hti.rep) h5).1
    refine ⟨H (TrieCodec.encode H N), ?_, ?_, rfl⟩
    · show (hashRoot H _ h.root).2 = _
      rw [hr]
      show (calcRootMV H _ r0).2 = _
      rw [calcRootMV_eq, if_pos ⟨h5, by rw [hcl]; simp [hH]⟩]
      exact hcl
    · rcases C04_writeDirty_getFromDB H hH hp db h r0 hr T N hti.rep hti.coh hd hsz inv.dbok key with
        hc | hz | hg
      · exact Or.inl hc
      · exact Or.inr (Or.inl ⟨fun e => (nomatch e), hz⟩)
      · exact Or.inr (Or.inr hg)

/-! ### a concrete persisted state (V1, a hashed 40-byte value, an inlined sub-branch) -/

/-- a 32-byte stand-in for the hash function, good enough for an example -/
def H1 : Bytes → Bytes := fun m => (m ++ List.replicate 32 0).take 32

def v40 : Bytes := List.replicate 40 7

/-- `ver h0 1; put 1234 <40 bytes>; put 5610 01; put 5611 02; put 5620 03; wd h0` -/
def exOps : List Op :=
  [.ver 0 Ver.v1, .put 0 [0x12, 0x34] v40, .put 0 [0x56, 0x10] [1], .put 0 [0x56, 0x11] [2],
   .put 0 [0x56, 0x20] [3], .wd 0]

def exState : St := exOps.foldl (fun s op => (stepModel H1 s op).1) St.init

def exRoot : Bytes := ((exState.ts[0]?).bind (fun m => (hash H1 exState.hp m.t).2)).getD []

set_option maxRecDepth 1000000 in
unseal encodeKids wdKids in
/-- the model's `WriteDirty` followed by the model's `GetFromDB`: the hashed value comes back as the
    value, keys below the inlined sub-branch are found, absent neighbours read nil -/
example : getFromDB H1 exState.db exRoot [0x12, 0x34] = some (some v40) ∧
    getFromDB H1 exState.db exRoot [0x56, 0x10] = some (some [1]) ∧
    getFromDB H1 exState.db exRoot [0x56, 0x20] = some (some [3]) ∧
    getFromDB H1 exState.db exRoot [0x14] = some none ∧
    getFromDB H1 exState.db exRoot [0x56] = some none := by
  refine ⟨by decide, by decide, by decide, by decide, by decide⟩

end Gossamer.C04
