/-
C19  Justification verification accepts exactly valid justifications.

`accept pick w vs c tBlk tNum pcs` is the model of `verifyWithVoterSet` (Model/C19.lean) with the voter
set `vs = newVoterSet ws`.  The specification below is written against the RAW weight list `ws`
(a voter listed several times has its weights summed by construction: every list entry is counted)
and uses only order-independent notions: membership in the precommit list, the ancestry relation
(`desc`, `pathTo`, `dist`), sums over the weight list.
-/
import Gossamer.Model.C19
import Gossamer.Lib.C19Chain
import Gossamer.Lib.C19Voters
import Gossamer.Lib.C19Tracker
import Gossamer.Lib.C19Verify
import Gossamer.Lib.C19Complete
namespace Gossamer.C19

/-! ## specification -/

/-- precommits signed by set members: ids whose listed weights sum to something positive -/
def membersOf (ws : List IdW) (pcs : List Pre) : List Pre :=
  pcs.filter (fun p => decide (0 < rawWeight ws p.id))

/-- summed listed weight of the voters that count for block `b`: voters with a precommit for `b` or a
    descendant, and voters with two different precommits (equivocators count for every block) -/
def specWeight (ws : List IdW) (c : Chain) (vp : List Pre) (b : Nat) : Nat :=
  wsum (fun id => supportsB c vp id b) ws

/-- supermajority threshold of the raw list: `total - ⌊(total-1)/3⌋` -/
def specThreshold (ws : List IdW) : Nat := threshold (rawTotal ws)

/-- the safety core of validity -/
structure ValidCore (w : Nat) (ws : List IdW) (c : Chain) (tBlk tNum : Nat) (pcs : List Pre) : Prop where
  /-- the voter set exists -/
  total_pos : 0 < rawTotal ws
  total_lt : rawTotal ws < U64
  /-- there is a lowest member precommit; every member precommit and the target descend from it, and
      the target number is the number of the target block -/
  base : ∃ b ∈ membersOf ws pcs, (∀ p ∈ membersOf ws pcs, b.num ≤ p.num ∧ desc c b.blk p.blk = true) ∧
      desc c b.blk tBlk = true ∧ (b.num + dist c b.blk tBlk) % 2 ^ w = tNum
  /-- some member voted for the target or a descendant -/
  voted : ∃ p ∈ membersOf ws pcs, desc c tBlk p.blk = true
  /-- supermajority weight on the target or its descendants -/
  super : specThreshold ws ≤ specWeight ws c (membersOf ws pcs) tBlk
  /-- every precommit carries a valid signature for the round and set -/
  sigs : ∀ p ∈ pcs, p.sigok = true
  /-- the supplied headers connect every precommit to the lowest one, none missing, none unused -/
  ancestry : ∃ lo ∈ pcs, (∀ p ∈ pcs, lo.num ≤ p.num) ∧
      (∀ p ∈ pcs, ∃ path, pathTo c lo.blk p.blk = some path) ∧
      (∀ h, h ∈ c.has ↔ ∃ p ∈ pcs, ∃ path, pathTo c lo.blk p.blk = some path ∧ h ∈ path)

/-! ## model facts -/

theorem members_eq {ws : List IdW} {vs : VoterSet} (h : newVoterSet ws = some vs) (pcs : List Pre) :
    pcs.filter (fun p => vs.contains p.id) = membersOf ws pcs := by
  unfold membersOf
  apply List.filter_congr
  intro p _
  rw [Bool.eq_iff_iff, contains_iff h]
  simp

/-- model weight = specification weight, for the tracker built from the member precommits -/
theorem weightOn_spec {ws : List IdW} {vs : VoterSet} (h : newVoterSet ws = some vs) (c : Chain)
    (vp : List Pre) (b : Nat) :
    weightOn vs c (trackAll [] vp) b = specWeight ws c vp b := by
  rw [weightOn_eq, wsum_congr (fun id => bit_eq_supports (trInv_all vp) c id b)]
  exact (newVoterSet_spec h).2.2.2.2.1 _

theorem threshold_spec {ws : List IdW} {vs : VoterSet} (h : newVoterSet ws = some vs) :
    vs.threshold = specThreshold ws := (newVoterSet_spec h).2.1

theorem bool_of_not_not {b : Bool} (h : ¬ (!b) = true) : b = true := by cases b <;> simp_all

/-- unfolding a successful `validateCommit` -/
theorem validateCommit_valid {pick : List Nat → Nat} {w : Nat} {vs : VoterSet} {c : Chain}
    {tBlk tNum : Nat} {pcs : List Pre}
    (h : (validateCommit pick w vs c tBlk tNum pcs).valid = true) :
    ∃ base, minPre (pcs.filter (fun p => vs.contains p.id)) = some base ∧
      (pcs.filter (fun p => vs.contains p.id)).all (fun p => desc c base.blk p.blk) = true ∧
      ((pcs.filter (fun p => vs.contains p.id)).foldl (importStep vs) Imp.init).stop = false ∧
      ghostIsTarget pick w vs c ((pcs.filter (fun p => vs.contains p.id)).foldl (importStep vs) Imp.init)
        base tBlk tNum = true := by
  unfold validateCommit at h
  simp only at h
  cases hm : minPre (pcs.filter (fun p => vs.contains p.id)) with
  | none => simp [hm] at h
  | some base =>
    simp only [hm] at h
    refine ⟨base, rfl, ?_⟩
    split at h
    · simp at h
    · rename_i hall
      split at h
      · simp at h
      · rename_i hstop
        exact ⟨bool_of_not_not hall, by simpa using hstop, h⟩

/-! ## C19_sound: whatever is accepted has supermajority support, valid signatures, exact ancestry -/

theorem C19_sound {pick : List Nat → Nat} (hp : LegalPick pick) {w : Nat} {ws : List IdW} {vs : VoterSet}
    (hvs : newVoterSet ws = some vs) {c : Chain} {tBlk tNum : Nat} {pcs : List Pre}
    (hacc : accept pick w vs c tBlk tNum pcs = true) :
    ValidCore w ws c tBlk tNum pcs := by
  unfold accept verifyWithVoterSet at hacc
  split at hacc
  · simp at hacc
  · rename_i hv
    have hv : (validateCommit pick w vs c tBlk tNum pcs).valid = true := by simpa using hv
    obtain ⟨base, hmin, hall, hstop, hghost⟩ := validateCommit_valid hv
    rw [members_eq hvs] at hmin hall hstop hghost
    obtain ⟨hbmem, hbmin⟩ := minPre_spec _ _ hmin
    obtain ⟨_, htr⟩ := import_tr vs _ _ hstop
    have htr : ((membersOf ws pcs).foldl (importStep vs) Imp.init).tr = trackAll [] (membersOf ws pcs) := htr
    -- the GHOST test
    unfold ghostIsTarget at hghost
    split at hghost
    · rename_i hcond
      simp only [Bool.and_eq_true, beq_iff_eq] at hghost
      obtain ⟨hg, hnum⟩ := hghost
      rw [htr] at hcond hg hnum
      obtain ⟨hd, hwt, hvoted⟩ := walk_spec hp vs c (trackAll [] (membersOf ws pcs))
        (c.par.length + 1) base.blk
      rw [hg] at hd hwt hvoted hnum
      have hsuper := hwt hcond.2
      rw [weightOn_spec hvs, threshold_spec hvs] at hsuper
      have hspec := newVoterSet_spec hvs
      -- outer checks
      cases hlm : lastMin none pcs with
      | none => simp [hlm] at hacc
      | some mp =>
        simp only [hlm] at hacc
        cases hvl : visitLoop c mp.blk pcs [] with
        | error e =>
          simp only [hvl] at hacc
          rcases visitLoop_error _ _ _ _ _ hvl with rfl | rfl <;> simp at hacc
        | ok vis =>
          simp only [hvl] at hacc
          split at hacc
          · rename_i hss
            obtain ⟨hlo, hlomin⟩ := lastMin_none_spec hlm
            obtain ⟨v1, v2⟩ := visitLoop_spec c mp.blk pcs [] vis hvl
            have hset := (sameSet_iff _ _).1 hss
            refine ⟨hspec.2.2.2.1, hspec.2.2.1, ?_, ?_, hsuper, fun p hp => (v1 p hp).1, ?_⟩
            · refine ⟨base, hbmem, ?_, hd, hnum⟩
              intro p hpm
              exact ⟨hbmin p hpm, by simpa using (List.all_eq_true.1 hall) p hpm⟩
            · rcases hvoted with hv | ⟨t, ht, hdt⟩
              · exact ⟨base, hbmem, by rw [hv]; exact desc_refl _ _⟩
              · exact ⟨t.first, (trInv_all _).mem_first t ht, hdt⟩
            · refine ⟨mp, hlo, hlomin, fun p hp => (v1 p hp).2, ?_⟩
              intro h
              rw [← hset h, v2 h]
              simp
          · simp at hacc
    · simp at hghost

/-! ## C19_dup_weights_summed: a voter listed several times has its weights summed -/

theorem C19_dup_weights_summed (ws : List IdW) :
    (∀ vs, newVoterSet ws = some vs →
      vs.total = rawTotal ws ∧ vs.threshold = rawTotal ws - (rawTotal ws - 1) / 3 ∧
      ∀ id, vs.weight? id = if rawWeight ws id = 0 then none else some (rawWeight ws id)) ∧
    (newVoterSet ws = none ↔ rawTotal ws = 0 ∨ U64 ≤ rawTotal ws) := by
  refine ⟨?_, ?_⟩
  · intro vs h
    have := newVoterSet_spec h
    exact ⟨this.1, this.2.1, this.2.2.2.2.2.1⟩
  · constructor
    · intro h
      rcases newVoterSet_none h with h | h
      · exact Or.inr h
      · exact Or.inl h
    · intro h
      cases hv : newVoterSet ws with
      | none => rfl
      | some vs =>
        have := newVoterSet_spec hv
        omega

/-- non-vacuity: a:1, a:5, b:1 is the set a ↦ 6, b ↦ 1 with total 7 and threshold 5 -/
example : newVoterSet [(0, 1), (0, 5), (1, 1)] = some ⟨[(0, 6), (1, 1)], 7, 5⟩ := by decide

/-! ## C19_width_independent: 32-bit and 64-bit block numbers give the same verdict -/

theorem ghostIsTarget_width (pick : List Nat → Nat) (vs : VoterSet) (c : Chain) (s : Imp) (base : Pre)
    (tBlk tNum : Nat) (hb : base.num + c.par.length + 1 < 2 ^ 32) :
    ghostIsTarget pick 32 vs c s base tBlk tNum = ghostIsTarget pick 64 vs c s base tBlk tNum := by
  unfold ghostIsTarget
  split
  · have hd := dist_le c base.blk (walk pick vs c s.tr (c.par.length + 1) base.blk)
    have h32 : (base.num + dist c base.blk (walk pick vs c s.tr (c.par.length + 1) base.blk)) % 2 ^ 32 =
        base.num + dist c base.blk (walk pick vs c s.tr (c.par.length + 1) base.blk) :=
      Nat.mod_eq_of_lt (by omega)
    have h64 : (base.num + dist c base.blk (walk pick vs c s.tr (c.par.length + 1) base.blk)) % 2 ^ 64 =
        base.num + dist c base.blk (walk pick vs c s.tr (c.par.length + 1) base.blk) :=
      Nat.mod_eq_of_lt (by omega)
    simp only [h32, h64]
  · rfl

theorem validateCommit_width (pick : List Nat → Nat) (vs : VoterSet) (c : Chain) (tBlk tNum : Nat)
    (pcs : List Pre) (hb : ∀ p ∈ pcs, p.num + c.par.length + 1 < 2 ^ 32) :
    validateCommit pick 32 vs c tBlk tNum pcs = validateCommit pick 64 vs c tBlk tNum pcs := by
  unfold validateCommit
  simp only
  cases hm : minPre (pcs.filter (fun p => vs.contains p.id)) with
  | none => rfl
  | some base =>
    have hmem := (minPre_spec _ _ hm).1
    have hbase := hb base (List.mem_filter.1 hmem).1
    simp only [ghostIsTarget_width pick vs c _ base tBlk tNum hbase]

theorem C19_width_independent (pick : List Nat → Nat) (vs : VoterSet) (c : Chain) (tBlk tNum : Nat)
    (pcs : List Pre) (hb : ∀ p ∈ pcs, p.num + c.par.length + 1 < 2 ^ 32) :
    verifyWithVoterSet pick 32 vs c tBlk tNum pcs = verifyWithVoterSet pick 64 vs c tBlk tNum pcs ∧
    accept pick 32 vs c tBlk tNum pcs = accept pick 64 vs c tBlk tNum pcs := by
  have h : verifyWithVoterSet pick 32 vs c tBlk tNum pcs = verifyWithVoterSet pick 64 vs c tBlk tNum pcs := by
    unfold verifyWithVoterSet
    rw [validateCommit_width pick vs c tBlk tNum pcs hb]
  exact ⟨h, by unfold accept; rw [h]⟩

/-! ## full validity: the GHOST is the target -/

/-- summed weight of the equivocating voters -/
def equivWeight (ws : List IdW) (vp : List Pre) : Nat := wsum (equivB vp) ws

/-- the GRANDPA fault assumption: equivocators weigh at most `total - threshold` (= ⌊(total-1)/3⌋) -/
def Tolerant (ws : List IdW) (pcs : List Pre) : Prop :=
  equivWeight ws (membersOf ws pcs) ≤ rawTotal ws - specThreshold ws

/-- block numbers increase along ancestry (true of the numbers of a real block tree) -/
def Mono (c : Chain) (pcs : List Pre) : Prop :=
  ∀ p ∈ pcs, ∀ q ∈ pcs, desc c p.blk q.blk = true → p.blk ≠ q.blk → p.num < q.num

/-- valid justification: the safety core, and no child of the target (towards a member's vote) has
    supermajority weight, i.e. the precommit GHOST is the target -/
structure Valid (w : Nat) (ws : List IdW) (c : Chain) (tBlk tNum : Nat) (pcs : List Pre) : Prop where
  core : ValidCore w ws c tBlk tNum pcs
  ghost : ∀ x, c.step x = some tBlk → (∃ p ∈ membersOf ws pcs, desc c x p.blk = true) →
    specWeight ws c (membersOf ws pcs) x < specThreshold ws

theorem supports_mono {c : Chain} {vp : List Pre} {id a b : Nat} (hd : desc c a b = true)
    (h : supportsB c vp id b = true) : supportsB c vp id a = true := by
  rw [supportsB_iff] at h ⊢
  rcases h with h | ⟨p, hp, hid, hdp⟩
  · exact Or.inl h
  · exact Or.inr ⟨p, hp, hid, desc_trans hd hdp⟩

theorem specWeight_mono (ws : List IdW) {c : Chain} (vp : List Pre) {a b : Nat} (hd : desc c a b = true) :
    specWeight ws c vp b ≤ specWeight ws c vp a :=
  wsum_mono (fun _ h => supports_mono hd h) ws

/-- a voter that counts for two incomparable blocks is an equivocator -/
theorem supports_incomparable {c : Chain} {vp : List Pre} {id y z : Nat}
    (hyz : desc c y z = false) (hzy : desc c z y = false)
    (hy : supportsB c vp id y = true) (hz : supportsB c vp id z = true) : equivB vp id = true := by
  rw [supportsB_iff] at hy hz
  rcases hy with hy | ⟨p, hp, hpid, hdp⟩
  · exact hy
  rcases hz with hz | ⟨q, hq, hqid, hdq⟩
  · exact hz
  cases hs : sameVS p q with
  | false => exact (equivB_iff vp id).2 ⟨p, hp, q, hq, hpid, hqid, hs⟩
  | true =>
    have hb := sameVS_blk hs
    rw [← hb] at hdq
    rcases desc_total hdp hdq with h | h
    · rw [h] at hyz; cases hyz
    · rw [h] at hzy; cases hzy

theorem no_two_branches {ws : List IdW} {c : Chain} {pcs : List Pre} (hpos : 0 < rawTotal ws)
    (htol : Tolerant ws pcs) {y z : Nat} (hyz : desc c y z = false) (hzy : desc c z y = false)
    (hy : specThreshold ws ≤ specWeight ws c (membersOf ws pcs) y)
    (hz : specThreshold ws ≤ specWeight ws c (membersOf ws pcs) z) : False := by
  have h := wsum_add_le (f := fun id => supportsB c (membersOf ws pcs) id y)
    (g := fun id => supportsB c (membersOf ws pcs) id z) (h := equivB (membersOf ws pcs))
    (fun i a b => supports_incomparable hyz hzy a b) ws
  have ht := threshold_gt (rawTotal ws) hpos
  unfold Tolerant equivWeight specThreshold at htol
  unfold specWeight specThreshold at hy hz
  omega

/-- under the fault assumption a block with supermajority weight has a non-equivocating supporter -/
theorem honest_supporter {ws : List IdW} {c : Chain} {pcs : List Pre} (hpos : 0 < rawTotal ws)
    (htol : Tolerant ws pcs) {b : Nat}
    (hb : specThreshold ws ≤ specWeight ws c (membersOf ws pcs) b) :
    ∃ id, supportsB c (membersOf ws pcs) id b = true ∧ equivB (membersOf ws pcs) id = false := by
  apply Classical.byContradiction
  intro hne
  have hall : ∀ id, supportsB c (membersOf ws pcs) id b = true → equivB (membersOf ws pcs) id = true := by
    intro id hs
    cases he : equivB (membersOf ws pcs) id with
    | true => rfl
    | false => exact absurd ⟨id, hs, he⟩ hne
  have hle : specWeight ws c (membersOf ws pcs) b ≤ equivWeight ws (membersOf ws pcs) :=
    wsum_mono hall ws
  have ht := threshold_gt (rawTotal ws) hpos
  unfold Tolerant specThreshold at htol
  unfold specThreshold at hb
  omega

/-- a non-equivocating supporter's (only) vote is the first vote of its tracker entry -/
theorem tracked_below {c : Chain} {vp : List Pre} {id b : Nat}
    (hs : supportsB c vp id b = true) (he : equivB vp id = false) :
    ∃ t ∈ trackAll [] vp, desc c b t.first.blk = true := by
  have hinv := trInv_all vp
  rw [supportsB_iff] at hs
  rcases hs with hs | ⟨p, hp, hpid, hd⟩
  · rw [hs] at he; cases he
  · cases hf : findT (trackAll [] vp) id with
    | none => exact absurd hpid ((hinv.none_iff id).1 hf p hp)
    | some t =>
      obtain ⟨a1, a2, a3, a4, a5⟩ := hinv.some_spec id t hf
      cases hsec : t.second with
      | some q =>
        obtain ⟨b1, b2, b3⟩ := a4 q hsec
        have : equivB vp id = true := (equivB_iff vp id).2 ⟨t.first, a2, q, b1, a3, b2, b3⟩
        rw [this] at he; cases he
      | none =>
        have := sameVS_blk (a5 hsec p hp hpid)
        exact ⟨t, findT_mem hf, by rw [this]; exact hd⟩

/-- siblings are incomparable -/
theorem siblings_incomparable {c : Chain} {cur x z : Nat} (hx : c.step x = some cur)
    (hz : c.step z = some cur) (hne : z ≠ x) : desc c x z = false ∧ desc c z x = false := by
  have aux : ∀ a b, c.step a = some cur → c.step b = some cur → b ≠ a → desc c b a = false := by
    intro a b ha hb hba
    cases hd : desc c b a with
    | false => rfl
    | true =>
      exfalso
      have hu := desc_iff.1 hd
      cases hu with
      | refl => exact hba rfl
      | step hs' hu' =>
        rw [ha] at hs'
        cases hs'
        have h1 : Up c b cur := Up.step hb (Up.refl _)
        have := h1.antisymm hu'
        subst this
        have := step_some hb
        omega
  exact ⟨aux z x hz hx (fun e => hne e.symm), aux x z hx hz hne⟩

/-- fuel needed to walk down from `cur` to `t` -/
def need (c : Chain) (t cur : Nat) : Nat :=
  if cur = t then 0 else if cur < c.par.length then t - cur else t + 1

/-- the walk reaches `t` when, on the way, exactly the child towards `t` qualifies -/
theorem walk_reach {pick : List Nat → Nat} (hp : LegalPick pick) (vs : VoterSet) (c : Chain)
    (tr : List Tracked) (t : Nat) (hterm : condChildren vs c tr t = [])
    (hstep : ∀ cur x, Up c t x → c.step x = some cur →
      x ∈ condChildren vs c tr cur ∧ ∀ z ∈ condChildren vs c tr cur, z = x) :
    ∀ (f cur : Nat), Up c t cur → need c t cur ≤ f → walk pick vs c tr f cur = t := by
  intro f
  induction f with
  | zero =>
    intro cur hu hn
    have hlt := hu.lt
    unfold need at hn
    simp only [walk]
    split at hn
    · assumption
    · split at hn <;> omega
  | succ f ih =>
    intro cur hu hn
    simp only [walk]
    by_cases hcur : cur = t
    · subst hcur; simp [hterm]
    · obtain ⟨x, hx, hux⟩ := hu.child hcur
      obtain ⟨hmem, huniq⟩ := hstep cur x hux hx
      cases hcc : condChildren vs c tr cur with
      | nil => rw [hcc] at hmem; simp at hmem
      | cons y ys =>
        simp only
        have hpick : pick (y :: ys) = x := by
          apply huniq
          rw [hcc]
          exact hp _ (by simp)
        rw [hpick]
        apply ih x hux
        have hsx := step_some hx
        have hltx := hux.lt
        have hltc := hu.lt
        unfold need at hn ⊢
        simp only [hcur, if_false] at hn
        split
        · omega
        · split at hn <;> simp only [hsx.1, if_true] <;> omega

theorem need_le (c : Chain) {t cur : Nat} (hu : Up c t cur) : need c t cur ≤ c.par.length + 1 := by
  have := hu.lt
  unfold need
  split
  · omega
  · split <;> omega

theorem members_sub {ws : List IdW} {pcs : List Pre} {p : Pre} (h : p ∈ membersOf ws pcs) : p ∈ pcs :=
  (List.mem_filter.1 h).1

/-! ## C19_complete: a valid justification is accepted (fault assumption, tree-consistent numbers) -/

theorem C19_complete {pick : List Nat → Nat} (hp : LegalPick pick) {w : Nat} {ws : List IdW} {vs : VoterSet}
    (hvs : newVoterSet ws = some vs) {c : Chain} {tBlk tNum : Nat} {pcs : List Pre}
    (hmono : Mono c pcs) (htol : Tolerant ws pcs)
    (hval : Valid w ws c tBlk tNum pcs) : accept pick w vs c tBlk tNum pcs = true := by
  obtain ⟨⟨hpos, hlt, ⟨b, hbmem, hball, hbT, hbnum⟩, hvoted, hsuper, hsigs, ⟨lo, hlomem, hlomin, hlopath, hloset⟩⟩,
    hghost⟩ := hval
  have hspec := newVoterSet_spec hvs
  -- the model's base is the specification's base
  have hne : membersOf ws pcs ≠ [] := by intro e; rw [e] at hbmem; simp at hbmem
  obtain ⟨b0, hmin⟩ := minPre_isSome hne
  obtain ⟨hb0mem, hb0min⟩ := minPre_spec _ _ hmin
  have hnum0 : b0.num = b.num := by
    have := (hball b0 hb0mem).1
    have := hb0min b hbmem
    omega
  have hblk0 : b0.blk = b.blk := by
    apply Classical.byContradiction
    intro hneq
    have := hmono b (members_sub hbmem) b0 (members_sub hb0mem) (hball b0 hb0mem).2 (fun e => hneq e.symm)
    omega
  have hall : (membersOf ws pcs).all (fun p => desc c b0.blk p.blk) = true := by
    rw [List.all_eq_true]
    intro p hpm
    rw [hblk0]; exact (hball p hpm).2
  -- the import loop
  have hstop := import_init_never_stops vs (membersOf ws pcs)
  obtain ⟨_, htr⟩ := import_tr vs _ _ hstop
  have htr : ((membersOf ws pcs).foldl (importStep vs) Imp.init).tr = trackAll [] (membersOf ws pcs) := htr
  have hcurW := curW_init vs hspec.2.2.2.2.2.2 (membersOf ws pcs)
  rw [htr] at hcurW
  have hthr := threshold_spec hvs
  -- weights
  have hwT : vs.threshold ≤ weightOn vs c (trackAll [] (membersOf ws pcs)) tBlk := by
    rw [weightOn_spec hvs, hthr]; exact hsuper
  have hwB : vs.threshold ≤ weightOn vs c (trackAll [] (membersOf ws pcs)) b0.blk := by
    rw [weightOn_spec hvs, hthr, hblk0]
    exact Nat.le_trans hsuper (specWeight_mono ws _ hbT)
  have hcur : vs.threshold ≤ ((membersOf ws pcs).foldl (importStep vs) Imp.init).curW := by
    rw [hcurW]
    refine Nat.le_trans hwT ?_
    rw [weightOn_eq]
    apply wsum_mono
    intro id hbit
    unfold bit at hbit
    cases hf : findT (trackAll [] (membersOf ws pcs)) id with
    | none => rw [hf] at hbit; simp at hbit
    | some t => simp
  -- the walk
  have hterm : condChildren vs c (trackAll [] (membersOf ws pcs)) tBlk = [] := by
    apply List.eq_nil_iff_forall_not_mem.2
    intro x hx
    obtain ⟨hch, hw⟩ := mem_condChildren.1 hx
    obtain ⟨t, ht, hct⟩ := mem_children.1 hch
    obtain ⟨hsx, hdx⟩ := childToward_spec hct
    have := hghost x hsx ⟨t.first, (trInv_all _).mem_first t ht, hdx⟩
    rw [weightOn_spec hvs, hthr] at hw
    omega
  have hstepP : ∀ cur x, Up c tBlk x → c.step x = some cur →
      x ∈ condChildren vs c (trackAll [] (membersOf ws pcs)) cur ∧
      ∀ z ∈ condChildren vs c (trackAll [] (membersOf ws pcs)) cur, z = x := by
    intro cur x hux hsx
    have hdxT : desc c x tBlk = true := desc_iff.2 hux
    have hwx : specThreshold ws ≤ specWeight ws c (membersOf ws pcs) x :=
      Nat.le_trans hsuper (specWeight_mono ws _ hdxT)
    constructor
    · rw [mem_condChildren]
      constructor
      · obtain ⟨id, hsup, hneq⟩ := honest_supporter hpos htol hsuper
        obtain ⟨t, ht, hdt⟩ := tracked_below hsup hneq
        exact mem_children.2 ⟨t, ht, childToward_of_step hsx (desc_trans hdxT hdt)⟩
      · rw [weightOn_spec hvs, hthr]; exact hwx
    · intro z hz
      obtain ⟨hch, hw⟩ := mem_condChildren.1 hz
      obtain ⟨t, ht, hct⟩ := mem_children.1 hch
      obtain ⟨hsz, _⟩ := childToward_spec hct
      rw [weightOn_spec hvs, hthr] at hw
      apply Classical.byContradiction
      intro hzx
      obtain ⟨h1, h2⟩ := siblings_incomparable hsx hsz hzx
      exact no_two_branches hpos htol h1 h2 hwx hw
  have huTB : Up c tBlk b0.blk := by rw [hblk0]; exact desc_iff.1 hbT
  have hwalk := walk_reach hp vs c _ tBlk hterm hstepP (c.par.length + 1) b0.blk huTB (need_le c huTB)
  -- validateCommit is valid
  have hvalid : (validateCommit pick w vs c tBlk tNum pcs).valid = true := by
    unfold validateCommit
    simp only [members_eq hvs, hmin, hall, Bool.not_true, Bool.false_eq_true, if_false, hstop]
    unfold ghostIsTarget
    rw [htr]
    simp only [hcur, hwB, and_self, if_true, hwalk, beq_self_eq_true, Bool.true_and, beq_iff_eq]
    rw [hnum0, hblk0]; exact hbnum
  -- outer checks
  have hpne : pcs ≠ [] := by intro e; rw [e] at hlomem; simp at hlomem
  obtain ⟨mp, hlm⟩ : ∃ mp, lastMin none pcs = some mp := by
    cases pcs with
    | nil => exact absurd rfl hpne
    | cons p ps => simp only [lastMin]; exact lastMin_isSome ps p
  obtain ⟨hmpmem, hmpmin⟩ := lastMin_none_spec hlm
  have hmpblk : mp.blk = lo.blk := by
    apply Classical.byContradiction
    intro hneq
    obtain ⟨path, hpath⟩ := hlopath mp hmpmem
    have hd : desc c lo.blk mp.blk = true := by unfold desc; simp [hpath]
    have := hmono lo hlomem mp hmpmem hd (fun e => hneq e.symm)
    have := hmpmin lo hlomem
    omega
  obtain ⟨vis, hvl⟩ := visitLoop_ok c mp.blk pcs []
    (fun p hpm => ⟨hsigs p hpm, by rw [hmpblk]; exact hlopath p hpm⟩)
  obtain ⟨_, v2⟩ := visitLoop_spec c mp.blk pcs [] vis hvl
  have hss : sameSet vis c.has = true := by
    rw [sameSet_iff]
    intro h
    rw [v2 h, hloset h, hmpblk]
    simp
  unfold accept verifyWithVoterSet
  simp [hvalid, hlm, hvl, hss]

/-! ## C19_ghost_maximal and C19_iff -/

/-- whatever is accepted under the fault assumption has the target as its GHOST -/
theorem C19_ghost_maximal {pick : List Nat → Nat} (hp : LegalPick pick) {w : Nat} {ws : List IdW}
    {vs : VoterSet} (hvs : newVoterSet ws = some vs) {c : Chain} {tBlk tNum : Nat} {pcs : List Pre}
    (htol : Tolerant ws pcs) (hacc : accept pick w vs c tBlk tNum pcs = true) :
    Valid w ws c tBlk tNum pcs := by
  have hcore := C19_sound hp hvs hacc
  refine ⟨hcore, ?_⟩
  intro x hsx ⟨p, hpm, hdp⟩
  -- unfold the walk result once more: the target has no qualifying child
  unfold accept verifyWithVoterSet at hacc
  split at hacc
  · simp at hacc
  · rename_i hv
    have hv : (validateCommit pick w vs c tBlk tNum pcs).valid = true := by simpa using hv
    obtain ⟨base, hmin, hall, hstop, hghost⟩ := validateCommit_valid hv
    rw [members_eq hvs] at hmin hall hstop hghost
    obtain ⟨_, htr⟩ := import_tr vs _ _ hstop
    have htr : ((membersOf ws pcs).foldl (importStep vs) Imp.init).tr = trackAll [] (membersOf ws pcs) := htr
    unfold ghostIsTarget at hghost
    split at hghost
    · simp only [Bool.and_eq_true, beq_iff_eq] at hghost
      obtain ⟨hg, _⟩ := hghost
      rw [htr] at hg
      -- either x is a child in the graph (then the walk would have gone on), or only equivocators count for it
      apply Classical.byContradiction
      intro hnot
      have hwx : specThreshold ws ≤ specWeight ws c (membersOf ws pcs) x := by omega
      obtain ⟨id, hsup, hneq⟩ := honest_supporter hcore.total_pos htol hwx
      obtain ⟨t, ht, hdt⟩ := tracked_below hsup hneq
      have hxch : x ∈ condChildren vs c (trackAll [] (membersOf ws pcs)) tBlk := by
        rw [mem_condChildren]
        refine ⟨mem_children.2 ⟨t, ht, childToward_of_step hsx hdt⟩, ?_⟩
        rw [weightOn_spec hvs, threshold_spec hvs]; exact hwx
      have hterm := walk_terminal hp vs c (trackAll [] (membersOf ws pcs)) (c.par.length + 1) base.blk
        (down_le c base.blk)
      rw [hg] at hterm
      rw [hterm] at hxch
      simp at hxch
    · simp at hghost

theorem C19_iff_partial {pick : List Nat → Nat} (hp : LegalPick pick) {w : Nat} {ws : List IdW}
    {vs : VoterSet} (hvs : newVoterSet ws = some vs) {c : Chain} {tBlk tNum : Nat} {pcs : List Pre}
    (hmono : Mono c pcs) (htol : Tolerant ws pcs) :
    accept pick w vs c tBlk tNum pcs = true ↔ Valid w ws c tBlk tNum pcs :=
  ⟨C19_ghost_maximal hp hvs htol, C19_complete hp hvs hmono htol⟩

/-! ## C19_order_independent: the verdict depends only on the SET of precommits -/

theorem members_congr {ws : List IdW} {pcs pcs' : List Pre} (h : ∀ p, p ∈ pcs ↔ p ∈ pcs') (p : Pre) :
    p ∈ membersOf ws pcs ↔ p ∈ membersOf ws pcs' := by
  unfold membersOf
  simp only [List.mem_filter, h p]

theorem supportsB_congr {c : Chain} {vp vp' : List Pre} (h : ∀ p, p ∈ vp ↔ p ∈ vp') (id b : Nat) :
    supportsB c vp id b = supportsB c vp' id b := by
  rw [Bool.eq_iff_iff, supportsB_iff, supportsB_iff, equivB_iff, equivB_iff]
  simp only [h]

theorem equivB_congr {vp vp' : List Pre} (h : ∀ p, p ∈ vp ↔ p ∈ vp') (id : Nat) :
    equivB vp id = equivB vp' id := by
  rw [Bool.eq_iff_iff, equivB_iff, equivB_iff]
  simp only [h]

theorem specWeight_congr (ws : List IdW) (c : Chain) {vp vp' : List Pre} (h : ∀ p, p ∈ vp ↔ p ∈ vp') (b : Nat) :
    specWeight ws c vp b = specWeight ws c vp' b :=
  wsum_congr (fun id => supportsB_congr h id b) ws

theorem valid_congr {w : Nat} {ws : List IdW} {c : Chain} {tBlk tNum : Nat} {pcs pcs' : List Pre}
    (h : ∀ p, p ∈ pcs ↔ p ∈ pcs') (hv : Valid w ws c tBlk tNum pcs) : Valid w ws c tBlk tNum pcs' := by
  have hm := members_congr (ws := ws) h
  obtain ⟨⟨hpos, hlt, ⟨b, hbmem, hball, hbT, hbnum⟩, ⟨pv, hpv, hdv⟩, hsuper, hsigs,
    ⟨lo, hlomem, hlomin, hlopath, hloset⟩⟩, hghost⟩ := hv
  refine ⟨⟨hpos, hlt, ⟨b, (hm b).1 hbmem, fun p hp => hball p ((hm p).2 hp), hbT, hbnum⟩,
    ⟨pv, (hm pv).1 hpv, hdv⟩, ?_, fun p hp => hsigs p ((h p).2 hp),
    ⟨lo, (h lo).1 hlomem, fun p hp => hlomin p ((h p).2 hp), fun p hp => hlopath p ((h p).2 hp), ?_⟩⟩, ?_⟩
  · rw [← specWeight_congr ws c hm]; exact hsuper
  · intro hh
    rw [hloset hh]
    simp only [h]
  · intro x hx ⟨p, hp, hd⟩
    rw [← specWeight_congr ws c hm]
    exact hghost x hx ⟨p, (hm p).2 hp, hd⟩

theorem tolerant_congr {ws : List IdW} {pcs pcs' : List Pre} (h : ∀ p, p ∈ pcs ↔ p ∈ pcs')
    (ht : Tolerant ws pcs) : Tolerant ws pcs' := by
  unfold Tolerant equivWeight at ht ⊢
  rw [← wsum_congr (fun id => equivB_congr (members_congr (ws := ws) h) id) ws]
  exact ht

theorem mono_congr {c : Chain} {pcs pcs' : List Pre} (h : ∀ p, p ∈ pcs ↔ p ∈ pcs') (hm : Mono c pcs) :
    Mono c pcs' :=
  fun p hp q hq => hm p ((h p).2 hp) q ((h q).2 hq)

/-- any two lists with the same precommits (in particular any permutation, with any resolution of
    the child order) get the same verdict, under the fault assumption and tree-consistent numbers -/
theorem C19_order_independent {pick pick' : List Nat → Nat} (hp : LegalPick pick) (hp' : LegalPick pick')
    {w : Nat} {ws : List IdW} {vs : VoterSet} (hvs : newVoterSet ws = some vs) {c : Chain}
    {tBlk tNum : Nat} {pcs pcs' : List Pre} (hperm : pcs.Perm pcs')
    (hmono : Mono c pcs) (htol : Tolerant ws pcs) :
    accept pick w vs c tBlk tNum pcs = accept pick' w vs c tBlk tNum pcs' := by
  have h : ∀ p, p ∈ pcs ↔ p ∈ pcs' := fun p => hperm.mem_iff
  have h' : ∀ p, p ∈ pcs' ↔ p ∈ pcs := fun p => (h p).symm
  rw [Bool.eq_iff_iff, C19_iff_partial hp hvs hmono htol,
    C19_iff_partial hp' hvs (mono_congr h hmono) (tolerant_congr h htol)]
  exact ⟨valid_congr h, valid_congr h'⟩

/-! ## the two extreme resolutions bracket every resolution (what the driver prints) -/

theorem legal_pickToward (c : Chain) (t : Nat) : LegalPick (pickToward c t) := by
  intro l hl
  unfold pickToward
  cases hf : l.find? (fun x => desc c x t) with
  | some x => exact List.mem_of_find?_eq_some hf
  | none => cases l with
    | nil => exact absurd rfl hl
    | cons y ys => simp

theorem legal_pickAway (c : Chain) (t : Nat) : LegalPick (pickAway c t) := by
  intro l hl
  unfold pickAway
  cases hf : l.find? (fun x => !desc c x t) with
  | some x => exact List.mem_of_find?_eq_some hf
  | none => cases l with
    | nil => exact absurd rfl hl
    | cons y ys => simp

/-- two qualifying children of one block that are both ancestors of `t` are the same block -/
theorem child_toward_unique {vs : VoterSet} {c : Chain} {tr : List Tracked} {cur x z t : Nat}
    (hx : x ∈ condChildren vs c tr cur) (hz : z ∈ condChildren vs c tr cur)
    (hxt : desc c x t = true) (hzt : desc c z t = true) : z = x := by
  obtain ⟨t1, _, h1⟩ := mem_children.1 (mem_condChildren.1 hx).1
  obtain ⟨t2, _, h2⟩ := mem_children.1 (mem_condChildren.1 hz).1
  apply Classical.byContradiction
  intro hne
  obtain ⟨a, b⟩ := siblings_incomparable (childToward_spec h1).1 (childToward_spec h2).1 hne
  rcases desc_total hxt hzt with h | h
  · rw [h] at a; cases a
  · rw [h] at b; cases b

theorem walk_toward {pick : List Nat → Nat} (hp : LegalPick pick) (vs : VoterSet) (c : Chain)
    (tr : List Tracked) (t : Nat) : ∀ (f cur : Nat), walk pick vs c tr f cur = t →
    walk (pickToward c t) vs c tr f cur = t := by
  intro f
  induction f with
  | zero => intro cur h; simpa [walk] using h
  | succ f ih =>
    intro cur h
    simp only [walk] at h ⊢
    cases hcc : condChildren vs c tr cur with
    | nil => simpa [hcc] using h
    | cons y ys =>
      simp only [hcc] at h ⊢
      have hm : pick (y :: ys) ∈ condChildren vs c tr cur := by rw [hcc]; exact hp _ (by simp)
      have hd : desc c (pick (y :: ys)) t = true := by
        have := (walk_spec hp vs c tr f (pick (y :: ys))).1
        rw [h] at this; exact this
      have hm' : pickToward c t (y :: ys) ∈ condChildren vs c tr cur := by
        rw [hcc]; exact legal_pickToward c t _ (by simp)
      have hd' : desc c (pickToward c t (y :: ys)) t = true := by
        unfold pickToward
        cases hf : (y :: ys).find? (fun x => desc c x t) with
        | some x => simpa using List.find?_some hf
        | none =>
          have := List.find?_eq_none.1 hf _ (by rw [← hcc]; exact hm)
          simp [hd] at this
      rw [child_toward_unique hm hm' hd hd']
      exact ih _ h

theorem walk_away {pick : List Nat → Nat} (hp : LegalPick pick) (vs : VoterSet) (c : Chain)
    (tr : List Tracked) (t : Nat) : ∀ (f cur : Nat), walk (pickAway c t) vs c tr f cur = t →
    walk pick vs c tr f cur = t := by
  intro f
  induction f with
  | zero => intro cur h; simpa [walk] using h
  | succ f ih =>
    intro cur h
    simp only [walk] at h ⊢
    cases hcc : condChildren vs c tr cur with
    | nil => simpa [hcc] using h
    | cons y ys =>
      simp only [hcc] at h ⊢
      have hla := legal_pickAway c t
      have hm' : pickAway c t (y :: ys) ∈ condChildren vs c tr cur := by
        rw [hcc]; exact hla _ (by simp)
      have hd' : desc c (pickAway c t (y :: ys)) t = true := by
        have := (walk_spec hla vs c tr f (pickAway c t (y :: ys))).1
        rw [h] at this; exact this
      -- the avoiding pick found nothing to avoid: every qualifying child is an ancestor of t
      have hall : ∀ z ∈ (y :: ys), desc c z t = true := by
        intro z hz
        cases hf : (y :: ys).find? (fun x => !desc c x t) with
        | some x =>
          have hx : (!desc c x t) = true := List.find?_some (p := fun x => !desc c x t) hf
          have : pickAway c t (y :: ys) = x := by unfold pickAway; rw [hf]
          rw [this] at hd'
          rw [hd'] at hx; cases hx
        | none =>
          have := List.find?_eq_none.1 hf z hz
          simpa using this
      have hm : pick (y :: ys) ∈ condChildren vs c tr cur := by rw [hcc]; exact hp _ (by simp)
      have hd : desc c (pick (y :: ys)) t = true := hall _ (hp _ (by simp))
      rw [child_toward_unique hm' hm hd' hd]
      exact ih _ h

theorem ghostIsTarget_of_walk {pick pick' : List Nat → Nat} {w : Nat} {vs : VoterSet} {c : Chain} {s : Imp}
    {base : Pre} {tBlk tNum : Nat}
    (hw : walk pick vs c s.tr (c.par.length + 1) base.blk = tBlk →
      walk pick' vs c s.tr (c.par.length + 1) base.blk = tBlk)
    (h : ghostIsTarget pick w vs c s base tBlk tNum = true) :
    ghostIsTarget pick' w vs c s base tBlk tNum = true := by
  unfold ghostIsTarget at h ⊢
  split at h
  · rename_i hc
    simp only [hc, and_self, if_true]
    simp only [Bool.and_eq_true, beq_iff_eq] at h ⊢
    obtain ⟨h1, h2⟩ := h
    rw [h1] at h2
    rw [hw h1]
    exact ⟨rfl, h2⟩
  · simp at h

theorem validateCommit_of_walk {pick pick' : List Nat → Nat} {w : Nat} {vs : VoterSet} {c : Chain}
    {tBlk tNum : Nat} {pcs : List Pre}
    (hw : ∀ tr f cur, walk pick vs c tr f cur = tBlk → walk pick' vs c tr f cur = tBlk)
    (h : (validateCommit pick w vs c tBlk tNum pcs).valid = true) :
    (validateCommit pick' w vs c tBlk tNum pcs).valid = true := by
  obtain ⟨base, hmin, hall, hstop, hg⟩ := validateCommit_valid h
  unfold validateCommit
  simp only [hmin, hall, hstop, Bool.not_true, Bool.false_eq_true, if_false]
  exact ghostIsTarget_of_walk (hw _ _ _) hg

theorem accept_of_walk {pick pick' : List Nat → Nat} {w : Nat} {vs : VoterSet} {c : Chain}
    {tBlk tNum : Nat} {pcs : List Pre}
    (hw : ∀ tr f cur, walk pick vs c tr f cur = tBlk → walk pick' vs c tr f cur = tBlk)
    (h : accept pick w vs c tBlk tNum pcs = true) : accept pick' w vs c tBlk tNum pcs = true := by
  unfold accept verifyWithVoterSet at h ⊢
  split at h
  · simp at h
  · rename_i hv
    have hv : (validateCommit pick w vs c tBlk tNum pcs).valid = true := by simpa using hv
    simp only [validateCommit_of_walk hw hv, Bool.not_true, Bool.false_eq_true, if_false] at h ⊢
    exact h

/-- every resolution of the child order lies between the two the driver evaluates: acceptance under
    the least favourable one (`spec=` field) implies acceptance by the code, which implies acceptance
    under the most favourable one (the model output) -/
theorem C19_bracket {pick : List Nat → Nat} (hp : LegalPick pick) (w : Nat) (vs : VoterSet) (c : Chain)
    (tBlk tNum : Nat) (pcs : List Pre) :
    (accept (pickAway c tBlk) w vs c tBlk tNum pcs = true → accept pick w vs c tBlk tNum pcs = true) ∧
    (accept pick w vs c tBlk tNum pcs = true → accept (pickToward c tBlk) w vs c tBlk tNum pcs = true) :=
  ⟨accept_of_walk (fun tr f cur => walk_away hp vs c tr tBlk f cur),
   accept_of_walk (fun tr f cur => walk_toward hp vs c tr tBlk f cur)⟩

/-- the "second equivocation by the same voter" early return of `ValidateCommit` is dead code: the
    tracker reports an equivocation at most once per voter -/
theorem C19_early_return_dead (vs : VoterSet) (vp : List Pre) :
    (vp.foldl (importStep vs) Imp.init).stop = false := import_init_never_stops vs vp

/-! ## the excluded region: equivocators beyond the fault assumption -/

/-- 4 unit voters; 0 and 1 equivocate, 2 votes for block 1, 3 for its sibling 2 -/
def cexWs : List IdW := [(0, 1), (1, 1), (2, 1), (3, 1)]
def cexChain : Chain := ⟨[0, 0, 0], [1, 2]⟩
def cexPcs : List Pre :=
  [⟨0, 0, 0, 0, true⟩, ⟨1, 1, 0, 1, true⟩, ⟨1, 1, 1, 0, true⟩, ⟨2, 1, 1, 1, true⟩, ⟨1, 1, 2, 0, true⟩,
   ⟨2, 1, 3, 0, true⟩]
/-- the same precommits in another order -/
def cexPcs' : List Pre :=
  [⟨0, 0, 0, 0, true⟩, ⟨1, 1, 0, 1, true⟩, ⟨2, 1, 3, 0, true⟩, ⟨2, 1, 1, 1, true⟩, ⟨1, 1, 1, 0, true⟩,
   ⟨1, 1, 2, 0, true⟩]
def cexVs : VoterSet := ⟨cexWs, 4, 3⟩

/-- without the fault assumption the verdict depends on which qualifying child is followed ... -/
theorem C19_iff_counterexample :
    newVoterSet cexWs = some cexVs ∧ Mono cexChain cexPcs ∧ ¬ Tolerant cexWs cexPcs ∧
    accept (pickToward cexChain 1) 32 cexVs cexChain 1 1 cexPcs = true ∧
    accept (pickAway cexChain 1) 32 cexVs cexChain 1 1 cexPcs = false := by
  refine ⟨by decide, by unfold Mono; decide, by unfold Tolerant; decide, by decide, by decide⟩

/-- ... and, for a fixed rule (first child in arrival order), on the order of the precommits -/
theorem C19_order_counterexample :
    cexPcs.Perm cexPcs' ∧
    accept (fun l => l.headD 0) 32 cexVs cexChain 1 1 cexPcs = true ∧
    accept (fun l => l.headD 0) 32 cexVs cexChain 1 1 cexPcs' = false := by
  refine ⟨by decide, by decide, by decide⟩

/-! ## non-vacuity: the hypotheses of the theorems hold on a concrete accepted justification -/

/-- 4 unit voters, chain 0 ← 1 ← 2; votes 1, 1, 2 (voter 3 silent); target 1 -/
def okPcs : List Pre := [⟨2, 7, 2, 0, true⟩, ⟨1, 6, 0, 0, true⟩, ⟨1, 6, 1, 0, true⟩]
def okChain : Chain := ⟨[0, 0, 1], [2]⟩

example : newVoterSet cexWs = some cexVs ∧ Mono okChain okPcs ∧ Tolerant cexWs okPcs ∧
    LegalPick (pickAway okChain 1) ∧
    accept (pickAway okChain 1) 32 cexVs okChain 1 6 okPcs = true ∧
    (∀ p ∈ okPcs, p.num + okChain.par.length + 1 < 2 ^ 32) :=
  ⟨by decide, by unfold Mono; decide, by unfold Tolerant; decide, legal_pickAway _ _, by decide, by decide⟩

/-! ## call sites -/

/-- `GetSetIDByBlockNumber`: the set id `j` returned for block number `n` satisfies
    `change j < n ≤ change (j+1)` (no lower bound for set 0, no upper bound for the last set) -/
theorem setIdLoop_spec (g : GState) (n : Nat) : ∀ (fuel curr j : Nat), curr + 1 ≤ fuel →
    (g.changeAt (curr + 2) = none ∨ ∃ u, g.changeAt (curr + 2) = some u ∧ n ≤ u) →
    setIdLoop g n fuel curr = some j →
    (j = 0 ∨ ∃ l, g.changeAt j = some l ∧ l < n) ∧
    (g.changeAt (j + 1) = none ∨ ∃ u, g.changeAt (j + 1) = some u ∧ n ≤ u) := by
  intro fuel
  induction fuel with
  | zero => intro curr j hf; omega
  | succ fuel ih =>
    intro curr j hf hq h
    simp only [setIdLoop] at h
    cases hu : g.changeAt (curr + 1) with
    | none =>
      simp only [hu] at h
      split at h
      · rename_i h0; subst h0
        simp only [Option.some.injEq] at h; subst h
        exact ⟨Or.inl rfl, Or.inl hu⟩
      · rename_i h0
        apply ih (curr - 1) j (by omega) _ h
        left
        have : curr - 1 + 2 = curr + 1 := by omega
        rw [this]; exact hu
    | some upper =>
      simp only [hu] at h
      cases hl : g.changeAt curr with
      | none => simp [hl] at h
      | some lower =>
        simp only [hl] at h
        split at h
        · rename_i hc
          simp only [Option.some.injEq] at h; subst h
          exact ⟨Or.inr ⟨lower, hl, hc.2⟩, Or.inr ⟨upper, hu, hc.1⟩⟩
        · rename_i hc
          split at h
          · rename_i hgt
            simp only [Option.some.injEq] at h; subst h
            exact ⟨Or.inr ⟨upper, hu, hgt⟩, hq⟩
          · rename_i hle
            split at h
            · rename_i h0; subst h0
              simp only [Option.some.injEq] at h; subst h
              exact ⟨Or.inl rfl, Or.inr ⟨upper, hu, by omega⟩⟩
            · rename_i h0
              apply ih (curr - 1) j (by omega) _ h
              right
              have : curr - 1 + 2 = curr + 1 := by omega
              rw [this]; exact ⟨upper, hu, by omega⟩

theorem C19_set_lookup {g : GState} (hlen : g.changeAt (g.cur + 2) = none) {n j : Nat}
    (h : setIdAt g n = some j) :
    (j = 0 ∨ ∃ l, g.changeAt j = some l ∧ l < n) ∧
    (g.changeAt (j + 1) = none ∨ ∃ u, g.changeAt (j + 1) = some u ∧ n ≤ u) :=
  setIdLoop_spec g n (g.cur + 2) g.cur j (by omega) (Or.inl hlen) h

theorem mem_resign {sset sid : Nat} {pcs : List Pre} {q : Pre} (h : q ∈ resign sset sid pcs) :
    ∃ p ∈ pcs, q = { p with sigok := p.sigok && sset == sid } := by
  unfold resign at h
  obtain ⟨p, hp, rfl⟩ := List.mem_map.1 h
  exact ⟨p, hp, rfl⟩

/-- `Service.VerifyBlockJustification` accepts only a justification that is valid for the (unit
    weight) voter set of the set id the imported block's number maps to, whose commit target is the
    imported block, and whose precommits are all signed for that set id -/
theorem C19_wrapper_sound {pick : List Nat → Nat} (hp : LegalPick pick) {g : GState}
    {ibBlk ibNum sset : Nat} {c : Chain} {tBlk tNum : Nat} {pcs : List Pre} {sid : Nat}
    (h : wrapper pick false g ibBlk ibNum sset c tBlk tNum pcs = .ok sid) :
    setIdAt g ibNum = some sid ∧ tBlk = ibBlk ∧ tNum = ibNum % 2 ^ 32 ∧
    ∃ a, g.authsAt sid = some a ∧
      ValidCore 32 (unitWs a) c tBlk tNum (resign sset sid pcs) ∧
      (Tolerant (unitWs a) (resign sset sid pcs) → Valid 32 (unitWs a) c tBlk tNum (resign sset sid pcs)) ∧
      sset = sid ∧ ∀ p ∈ pcs, p.sigok = true := by
  unfold wrapper at h
  cases hs : setIdAt g ibNum with
  | none => simp [hs] at h
  | some sid' =>
    simp only [hs] at h
    cases ha : g.authsAt sid' with
    | none => simp [ha] at h
    | some a =>
      simp only [ha, Bool.false_eq_true, if_false] at h
      cases hv : newVoterSet (unitWs a) with
      | none => simp [hv] at h
      | some vs =>
        simp only [hv] at h
        cases hr : verifyFinalizes pick 32 vs c tBlk tNum ibBlk (ibNum % 2 ^ 32) (resign sset sid' pcs) with
        | ok =>
          simp only [hr, WRes.ok.injEq] at h
          subst h
          unfold verifyFinalizes at hr
          split at hr
          · cases hr
          · rename_i hne
            have htb : tBlk = ibBlk := by
              apply Classical.byContradiction; intro e; exact hne (Or.inl e)
            have htn : tNum = ibNum % 2 ^ 32 := by
              apply Classical.byContradiction; intro e; exact hne (Or.inr e)
            have hacc : accept pick 32 vs c tBlk tNum (resign sset sid' pcs) = true := by
              unfold accept; rw [hr]; rfl
            have hcore := C19_sound hp hv hacc
            have hsig : ∀ p ∈ pcs, (p.sigok && sset == sid') = true := by
              intro p hpm
              have := hcore.sigs { p with sigok := p.sigok && sset == sid' }
                (by unfold resign; exact List.mem_map.2 ⟨p, hpm, rfl⟩)
              exact this
            have hnonempty : pcs ≠ [] := by
              intro e
              obtain ⟨lo, hlo, _⟩ := hcore.ancestry
              rw [e] at hlo; simp [resign] at hlo
            have hset : sset = sid' := by
              cases pcs with
              | nil => exact absurd rfl hnonempty
              | cons p ps =>
                have := hsig p (by simp)
                simp only [Bool.and_eq_true, beq_iff_eq] at this
                exact this.2
            refine ⟨rfl, htb, htn, a, ha, hcore, fun ht => C19_ghost_maximal hp hv ht hacc, hset, ?_⟩
            intro p hpm
            have := hsig p hpm
            simp only [Bool.and_eq_true] at this
            exact this.1
        | errTarget => simp [hr] at h
        | errCommit => simp [hr] at h
        | errSig => simp [hr] at h
        | errAncestry => simp [hr] at h
        | errUnused => simp [hr] at h

/-- the importer finalises a block (with the round and set id the finality gadget returned) only when
    the gadget accepted the justification; every failure leaves the block state unfinalised -/
theorem C19_importer_sound (hasJust : Bool) (gadget : Option (Nat × Nat)) (ff jf : Bool) (r s : Nat)
    (h : importData hasJust gadget ff jf = .finalised r s) :
    hasJust = true ∧ gadget = some (r, s) := by
  unfold importData at h
  split at h
  · rename_i hj
    cases gadget with
    | none => simp at h
    | some rs =>
      obtain ⟨r', s'⟩ := rs
      simp only at h
      split at h
      · cases h
      · split at h
        · cases h
        · simp only [ImpRes.finalised.injEq] at h
          exact ⟨hj, by rw [h.1, h.2]⟩
  · cases h

end Gossamer.C19
