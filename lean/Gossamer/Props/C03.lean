/-
C03 — Trie snapshots are isolated from one another.

Model: `Gossamer.TrieHeap` (heap of trie nodes with generations, in-place writes where the Go code
makes them, Merkle value caches) and `Gossamer.C03.stepOp` (handles, `Snapshot`, `SetVersion`, …).

* `C03_frame`     — for EVERY history: a mutating operation on a trie of generation `g` leaves every
                    existing node of another generation untouched except for its `MerkleValue` cache,
                    never changes a generation, and only creates nodes of generation `g`.
* `C03_isolated`  — for every history in which no operation writes through a handle that has a live
                    snapshot below it (`guardOp`, the exact predicate of the driver): an operation —
                    `Put`, `Delete`, `ClearPrefix`, `ClearPrefixLimit`, `Hash`, `WriteDirty`,
                    `SetVersion`, `Snapshot`, dropping a handle — leaves `Entries()` of every other
                    live handle unchanged, and its root hash (`RVal`, the fuel-free semantics of
                    `Hash()` reading the caches) unchanged provided the root node of the acting trie
                    is not a proper descendant of the other trie's root (`PD`).
* `C03_hash_sound`— the executable `Hash()` of the model returns exactly that root hash.
* `C03_isolated_full_counterexample` — without the guard the statement is false (a write to the
                    parent after `Snapshot()` shows through the snapshot): known finding
                    `parent-write-after-snapshot`.
-/
import Gossamer.Lib.C03Step
namespace Gossamer.C03
open Gossamer Gossamer.Trie Gossamer.TrieHeap

/-- the handle an operation acts on (its own view may change) -/
def Op.actor : Op → Option Nat
  | .put h _ _ => some h
  | .del h _ => some h
  | .clr h _ => some h
  | .clrl h _ _ => some h
  | .hash h => some h
  | .wd h => some h
  | .ver h _ => some h
  | .drop h => some h
  | .snap _ => none
  | .hashall => none
  | .bad => none

/-- the root node of the trie an operation hashes or writes through -/
def actorRoot (s : St) : Op → Option Nat
  | .put h _ _ => (s.handle? h).bind (·.t.root)
  | .del h _ => (s.handle? h).bind (·.t.root)
  | .clr h _ => (s.handle? h).bind (·.t.root)
  | .clrl h _ _ => (s.handle? h).bind (·.t.root)
  | .hash h => (s.handle? h).bind (·.t.root)
  | .wd h => (s.handle? h).bind (·.t.root)
  | _ => none

theorem same_refl (H : Bytes → Bytes) (s : St) {k : Nat} {y : HInfo} (hl : Live s k y) (ar : Option Nat) :
    Same H s s k y ar := ⟨hl, rfl, fun _ _ _ _ => Iff.rfl⟩

theorem guard_target {s : St} {op : Op} {h : Nat} (ht : op.target = some h) (hI : SInv s)
    (hg : guardOp s op = true) : ∀ j y, Live s j y → ¬ Anc s.hs h j := by
  unfold guardOp at hg
  rw [ht] at hg
  simp only [Bool.not_eq_true'] at hg
  exact no_live_desc hI.parentLt hg

/-- **One step.**  From a state satisfying the invariant, an operation that respects the guard keeps
    the invariant and leaves every other live handle alone. -/
theorem C03_step (H : Bytes → Bytes) (s : St) (hI : SInv s) (op : Op) (hne : op ≠ .hashall)
    (hg : guardOp s op = true) :
    SInv (stepOp H false s op).1 ∧
    ∀ k y, Live s k y → op.actor ≠ some k → Same H s (stepOp H false s op).1 k y (actorRoot s op) := by
  have hnone : ∀ (ar : Option Nat) (P : Nat → Prop),
      SInv s ∧ ∀ k y, Live s k y → P k → Same H s s k y ar :=
    fun ar _ => ⟨hI, fun k y hk _ => same_refl H s hk ar⟩
  cases op with
  | put h k v =>
    cases hh : s.handle? h with
    | none => simp only [stepOp, actorRoot, hh]; exact hnone _ _
    | some x =>
      simp only [stepOp, actorRoot, hh, Option.bind_some]
      have hl := handle?_live hh
      have hok := put_ok H s.hp x.t hI.wf (hI.roots h x hl) k v
      obtain ⟨h1, h2⟩ := mut_step hI hl hok (guard_target rfl hI hg)
      exact ⟨h1, fun k' y hk hne' => h2 k' y hk (fun e => hne' (by rw [e]; rfl))⟩
  | del h k =>
    cases hh : s.handle? h with
    | none => simp only [stepOp, actorRoot, hh]; exact hnone _ _
    | some x =>
      simp only [stepOp, actorRoot, hh, Option.bind_some]
      have hl := handle?_live hh
      have hok := delete_ok H s.hp x.t hI.wf (hI.roots h x hl) k
      obtain ⟨h1, h2⟩ := mut_step hI hl hok (guard_target rfl hI hg)
      exact ⟨h1, fun k' y hk hne' => h2 k' y hk (fun e => hne' (by rw [e]; rfl))⟩
  | clr h p =>
    cases hh : s.handle? h with
    | none => simp only [stepOp, actorRoot, hh]; exact hnone _ _
    | some x =>
      simp only [stepOp, actorRoot, hh, Option.bind_some]
      have hl := handle?_live hh
      split
      · exact hnone _ _
      · have hok := clearPrefix_ok H s.hp x.t hI.wf (hI.roots h x hl) p
        obtain ⟨h1, h2⟩ := mut_step hI hl hok (guard_target rfl hI hg)
        exact ⟨h1, fun k' y hk hne' => h2 k' y hk (fun e => hne' (by rw [e]; rfl))⟩
  | clrl h p n =>
    cases hh : s.handle? h with
    | none => simp only [stepOp, actorRoot, hh]; exact hnone _ _
    | some x =>
      simp only [stepOp, actorRoot, hh, Option.bind_some]
      have hl := handle?_live hh
      split
      · exact hnone _ _
      · have hok := clearPrefixLimit_ok H s.hp x.t hI.wf (hI.roots h x hl) p n
        obtain ⟨h1, h2⟩ := mut_step hI hl hok (guard_target rfl hI hg)
        exact ⟨h1, fun k' y hk hne' => h2 k' y hk (fun e => hne' (by rw [e]; rfl))⟩
  | snap h =>
    cases hh : s.handle? h with
    | none => simp only [stepOp, actorRoot, hh]; exact hnone _ _
    | some x =>
      simp only [stepOp, actorRoot, hh, Option.bind_some]
      have hl := handle?_live hh
      obtain ⟨h1, h2⟩ := snap_step (H := H) hI hl
      exact ⟨h1, fun k' y hk _ => h2 k' y hk⟩
  | ver h v =>
    cases hh : s.handle? h with
    | none => simp only [stepOp, actorRoot, hh]; exact hnone _ _
    | some x =>
      simp only [stepOp, actorRoot, hh, Option.bind_some]
      have hl := handle?_live hh
      split
      · exact hnone _ _
      · obtain ⟨h1, h2⟩ := ver_step (H := H) hI hl v
        exact ⟨h1, fun k' y hk hne' => h2 k' y hk (fun e => hne' (by rw [e]; rfl))⟩
  | hash h =>
    cases hh : s.handle? h with
    | none => simp only [stepOp, actorRoot, hh]; exact hnone _ _
    | some x =>
      simp only [stepOp, actorRoot, hh, Option.bind_some]
      obtain ⟨h1, h2⟩ := hash_step (H := H) hI x.t
      exact ⟨h1, fun k' y hk _ => h2 k' y hk⟩
  | hashall => exact absurd rfl hne
  | wd h =>
    cases hh : s.handle? h with
    | none => simp only [stepOp, actorRoot, hh]; exact hnone _ _
    | some x =>
      simp only [stepOp, actorRoot, hh, Option.bind_some]
      obtain ⟨h1, h2⟩ := wd_step (H := H) hI x.t
      exact ⟨h1, fun k' y hk _ => h2 k' y hk⟩
  | drop h =>
    cases hh : s.handle? h with
    | none => simp only [stepOp, actorRoot, hh]; exact hnone _ _
    | some x =>
      simp only [stepOp, actorRoot, hh, Option.bind_some]
      have hl := handle?_live hh
      obtain ⟨h1, h2⟩ := drop_step (H := H) hI hl
      exact ⟨h1, fun k' y hk hne' => h2 k' y hk (fun e => hne' (by rw [e]; rfl))⟩
  | bad => exact hnone _ _

/-- `hashall` (= `Hash()` of every live handle in turn) keeps the invariant and all entries -/
theorem C03_hashall (H : Bytes → Bytes) (s : St) (hI : SInv s) :
    SInv (stepOp H false s .hashall).1 ∧
    ∀ k y, Live s k y → Live (stepOp H false s .hashall).1 k y ∧
      entries (stepOp H false s .hashall).1.hp y.t.root = entries s.hp y.t.root := by
  have hc : CacheOnly s.hp (hashAll.go H 0 s.hp s.hs).1 := hashAll_go_cacheOnly H s.hs 0 s.hp
  exact cache_inv hI hc

/-! ### all histories -/

/-- the state after a history (a Go panic ends it) -/
def runState (H : Bytes → Bytes) : St → List Op → St
  | s, [] => s
  | s, op :: r => if (stepOp H false s op).2.2 then s else runState H (stepOp H false s op).1 r

theorem sinv_step (H : Bytes → Bytes) (s : St) (hI : SInv s) (op : Op) (hg : guardOp s op = true) :
    SInv (stepOp H false s op).1 := by
  by_cases hne : op = .hashall
  · subst hne; exact (C03_hashall H s hI).1
  · exact (C03_step H s hI op hne hg).1

/-- **The invariant holds after every history that respects the guard** (`violatesGuard` is the
    predicate the driver evaluates to tag the known finding). -/
theorem C03_inv_reachable (H : Bytes → Bytes) : ∀ (ops : List Op) (s : St), SInv s →
    violatesGuard H s ops = false → SInv (runState H s ops)
  | [], s, hI, _ => hI
  | op :: r, s, hI, hv => by
    unfold violatesGuard at hv
    unfold runState
    by_cases hg : guardOp s op = true
    · simp only [hg, Bool.not_true, Bool.false_eq_true, if_false] at hv
      split
      · exact hI
      · rename_i hp
        simp only [hp, if_false] at hv
        exact C03_inv_reachable H r _ (sinv_step H s hI op hg) hv
    · simp [hg] at hv

/-- **Isolation.**  After any history from the empty trie that respects the guard, an operation that
    respects the guard leaves every other live handle with the same `Entries()` and — if the root
    node of the acting trie does not lie strictly below the other trie's root — the same root hash. -/
theorem C03_isolated (H : Bytes → Bytes) (ops : List Op) (hv : violatesGuard H St.init ops = false)
    (op : Op) (hne : op ≠ .hashall) (hg : guardOp (runState H St.init ops) op = true) :
    ∀ k y, Live (runState H St.init ops) k y → op.actor ≠ some k →
      Same H (runState H St.init ops) (stepOp H false (runState H St.init ops) op).1 k y
        (actorRoot (runState H St.init ops) op) :=
  (C03_step H _ (C03_inv_reachable H ops St.init SInv.init hv) op hne hg).2

/-- `hashall` after such a history: every live handle keeps its entries -/
theorem C03_isolated_hashall (H : Bytes → Bytes) (ops : List Op)
    (hv : violatesGuard H St.init ops = false) :
    ∀ k y, Live (runState H St.init ops) k y →
      entries (stepOp H false (runState H St.init ops) .hashall).1.hp y.t.root =
        entries (runState H St.init ops).hp y.t.root :=
  fun k y hk => ((C03_hashall H _ (C03_inv_reachable H ops St.init SInv.init hv)).2 k y hk).2

/-- the root hash of the isolation theorem is what the executable `Hash()` of the model returns -/
theorem C03_hash_sound (H : Bytes → Bytes) (hp : Heap) (t : Handle) (r : Nat) (hr : t.root = some r)
    (m : Bytes) (h : (hash H hp t).2 = some m) : RVal H hp r m := hash_sound H hp t r hr m h

/-- the root hash is a function of the heap: two runs of `Hash()` that both return agree -/
theorem C03_hash_unique (H : Bytes → Bytes) (hp : Heap) (r : Nat) (m m' : Bytes)
    (h : RVal H hp r m) (h' : RVal H hp r m') : m = m' := h.functional h'

/-! ### the generation frame, for every history (guarded or not) -/

/-- well-formedness that every history keeps: child pointers and roots are allocated -/
structure WInv (s : St) : Prop where
  wf : HeapWF s.hp
  roots : ∀ (i : Nat) (x : HInfo), s.hs[i]? = some x → ∀ r, x.t.root = some r → r < s.hp.size

theorem WInv.init : WInv St.init where
  wf := by intro a ha; simp [St.init, Heap.empty, Heap.size] at ha
  roots := by
    intro i x hx r hr
    cases i with
    | zero => simp [St.init] at hx; subst hx; simp at hr
    | succ i => simp [St.init] at hx

theorem handle?_get {s : St} {h : Nat} {x : HInfo} (hh : s.handle? h = some x) : s.hs[h]? = some x :=
  (handle?_live hh).1

theorem winv_mut {H : Bytes → Bytes} {s : St} (hW : WInv s) {h : Nat} {x : HInfo}
    (hx : s.hs[h]? = some x) {hp' : Heap} {t' : Handle} (hok : TopOK H s.hp x.t hp' t') :
    WInv (s.setHandle hp' h x t') := by
  refine ⟨hok.good.wf, ?_⟩
  intro i y hy r hr
  unfold St.setHandle at hy
  simp only [getElem?_setAt] at hy
  split at hy
  · cases hy; exact (hok.root r hr).2
  · exact Nat.lt_of_lt_of_le (hW.roots i y hy r hr) hok.good.size

theorem winv_cache {s : St} (hW : WInv s) {hp' : Heap} (hc : CacheOnly s.hp hp') :
    WInv { s with hp := hp' } := by
  refine ⟨?_, ?_⟩
  · intro a ha i x hx
    show x < hp'.size
    rw [hc.size] at ha ⊢
    rw [strip_kids (hc.cell a)] at hx
    exact hW.wf a ha i x hx
  · intro i y hy r hr
    show r < hp'.size
    rw [hc.size]; exact hW.roots i y hy r hr

theorem winv_step (H : Bytes → Bytes) (s : St) (hW : WInv s) (op : Op) : WInv (stepOp H false s op).1 := by
  cases op with
  | put h k v =>
    cases hh : s.handle? h with
    | none => simp only [stepOp, hh]; exact hW
    | some x =>
      simp only [stepOp, hh]
      exact winv_mut hW (handle?_get hh) (put_ok H s.hp x.t hW.wf (hW.roots h x (handle?_get hh)) k v)
  | del h k =>
    cases hh : s.handle? h with
    | none => simp only [stepOp, hh]; exact hW
    | some x =>
      simp only [stepOp, hh]
      exact winv_mut hW (handle?_get hh) (delete_ok H s.hp x.t hW.wf (hW.roots h x (handle?_get hh)) k)
  | clr h p =>
    cases hh : s.handle? h with
    | none => simp only [stepOp, hh]; exact hW
    | some x =>
      simp only [stepOp, hh]
      split
      · exact hW
      · exact winv_mut hW (handle?_get hh) (clearPrefix_ok H s.hp x.t hW.wf (hW.roots h x (handle?_get hh)) p)
  | clrl h p n =>
    cases hh : s.handle? h with
    | none => simp only [stepOp, hh]; exact hW
    | some x =>
      simp only [stepOp, hh]
      split
      · exact hW
      · exact winv_mut hW (handle?_get hh)
          (clearPrefixLimit_ok H s.hp x.t hW.wf (hW.roots h x (handle?_get hh)) p n)
  | snap h =>
    cases hh : s.handle? h with
    | none => simp only [stepOp, hh]; exact hW
    | some x =>
      simp only [stepOp, hh, Bool.false_eq_true, if_false]
      refine ⟨hW.wf, ?_⟩
      intro i y hy r hr
      by_cases hi : i < s.hs.length
      · rw [List.getElem?_append_left hi] at hy; exact hW.roots i y hy r hr
      · by_cases he : i = s.hs.length
        · subst he
          simp at hy
          subst hy
          exact hW.roots h x (handle?_get hh) r hr
        · rw [List.getElem?_eq_none (by simp; omega)] at hy; cases hy
  | ver h v =>
    cases hh : s.handle? h with
    | none => simp only [stepOp, hh]; exact hW
    | some x =>
      simp only [stepOp, hh]
      split
      · exact hW
      · refine ⟨hW.wf, ?_⟩
        intro i y hy r hr
        unfold St.setHandle at hy
        simp only [getElem?_setAt] at hy
        split at hy
        · cases hy; exact hW.roots h x (handle?_get hh) r hr
        · exact hW.roots i y hy r hr
  | hash h =>
    cases hh : s.handle? h with
    | none => simp only [stepOp, hh]; exact hW
    | some x => simp only [stepOp, hh]; exact winv_cache hW (mvOnly_hash H s.hp x.t).cacheOnly
  | hashall => exact winv_cache hW (hashAll_go_cacheOnly H s.hs 0 s.hp)
  | wd h =>
    cases hh : s.handle? h with
    | none => simp only [stepOp, hh]; exact hW
    | some x => simp only [stepOp, hh]; exact winv_cache hW (writeDirty_cacheOnly H s.hp [] x.t)
  | drop h =>
    cases hh : s.handle? h with
    | none => simp only [stepOp, hh]; exact hW
    | some x =>
      simp only [stepOp, hh]
      refine ⟨hW.wf, ?_⟩
      intro i y hy r hr
      simp only [getElem?_setAt] at hy
      split at hy
      · cases hy; exact hW.roots h x (handle?_get hh) r hr
      · exact hW.roots i y hy r hr
  | bad => exact hW

theorem winv_run (H : Bytes → Bytes) : ∀ (ops : List Op) (s : St), WInv s → WInv (runState H s ops)
  | [], _, hW => hW
  | op :: r, s, hW => by
    unfold runState
    split
    · exact hW
    · exact winv_run H r _ (winv_step H s hW op)

/-- the result of a mutating method of the trie `t` -/
def mutResult (H : Bytes → Bytes) (hp : Heap) (t : Handle) : Op → Option Heap
  | .put _ k v => some (put H hp t k v).1
  | .del _ k => some (delete H hp t k).1
  | .clr _ p => some (clearPrefix H hp t p).1
  | .clrl _ p n => some (clearPrefixLimit H hp t p n).1
  | _ => none

/-- **Generation frame, for every history.**  A mutating operation on a trie of generation `g`
    only appends nodes, all of generation `g`; it never changes the generation of a node; and a node
    of another generation keeps every field except its `MerkleValue` cache. -/
theorem C03_frame (H : Bytes → Bytes) (ops : List Op) (op : Op) (h : Nat) (x : HInfo)
    (hx : (runState H St.init ops).handle? h = some x) (hp' : Heap)
    (hm : mutResult H (runState H St.init ops).hp x.t op = some hp') :
    (runState H St.init ops).hp.size ≤ hp'.size ∧
    (∀ a, a < (runState H St.init ops).hp.size →
      (hp'.get a).gen = ((runState H St.init ops).hp.get a).gen ∧
      (((runState H St.init ops).hp.get a).gen ≠ x.t.gen →
        (hp'.get a).strip = ((runState H St.init ops).hp.get a).strip ∧
        (hp'.get a).dirty = ((runState H St.init ops).hp.get a).dirty)) ∧
    (∀ a, (runState H St.init ops).hp.size ≤ a → a < hp'.size → (hp'.get a).gen = x.t.gen) := by
  have hW := winv_run H ops St.init WInv.init
  have hr := hW.roots h x (handle?_get hx)
  have key : ∀ t', TopOK H (runState H St.init ops).hp x.t hp' t' →
      (runState H St.init ops).hp.size ≤ hp'.size ∧
      (∀ a, a < (runState H St.init ops).hp.size →
        (hp'.get a).gen = ((runState H St.init ops).hp.get a).gen ∧
        (((runState H St.init ops).hp.get a).gen ≠ x.t.gen →
          (hp'.get a).strip = ((runState H St.init ops).hp.get a).strip ∧
          (hp'.get a).dirty = ((runState H St.init ops).hp.get a).dirty)) ∧
      (∀ a, (runState H St.init ops).hp.size ≤ a → a < hp'.size → (hp'.get a).gen = x.t.gen) := by
    intro t' hok
    refine ⟨hok.good.size, fun a ha => ⟨hok.good.gen a ha, fun hne => ?_⟩, fun a h1 h2 => hok.good.fresh a h1 h2⟩
    exact hok.good.frame a ha (fun ho => hne ho.2)
  cases op with
  | put _ k v => simp only [mutResult, Option.some.injEq] at hm; subst hm; exact key _ (put_ok H _ x.t hW.wf hr k v)
  | del _ k => simp only [mutResult, Option.some.injEq] at hm; subst hm; exact key _ (delete_ok H _ x.t hW.wf hr k)
  | clr _ p => simp only [mutResult, Option.some.injEq] at hm; subst hm; exact key _ (clearPrefix_ok H _ x.t hW.wf hr p)
  | clrl _ p n =>
    simp only [mutResult, Option.some.injEq] at hm; subst hm
    exact key _ (clearPrefixLimit_ok H _ x.t hW.wf hr p n)
  | snap _ => simp [mutResult] at hm
  | ver _ _ => simp [mutResult] at hm
  | hash _ => simp [mutResult] at hm
  | hashall => simp [mutResult] at hm
  | wd _ => simp [mutResult] at hm
  | drop _ => simp [mutResult] at hm
  | bad => simp [mutResult] at hm

/-! ### the unguarded statement is false; the guarded one is not vacuous -/

/-- some hash function (the witnesses below never hash) -/
def H0 : Bytes → Bytes := fun _ => []

/-- `put h0 12 01; snap h0` -/
def cexOps : List Op := [.put 0 [0x12] [1], .snap 0]

/-- `put h0 12 02`: a write through the parent of the live snapshot `h1` -/
def cexOp : Op := .put 0 [0x12] [2]

/-- **Without the guard the isolation statement is false**: after `put h0 12 01; snap h0`, the
    operation `put h0 12 02` (whose guard is false: `h0` has the live snapshot `h1`) changes the
    entries seen through `h1`.  Known finding `parent-write-after-snapshot`. -/
theorem C03_isolated_full_counterexample :
    violatesGuard H0 St.init cexOps = false ∧ guardOp (runState H0 St.init cexOps) cexOp = false ∧
    cexOp.actor ≠ some 1 ∧
    ∃ y, Live (runState H0 St.init cexOps) 1 y ∧
      entries (stepOp H0 false (runState H0 St.init cexOps) cexOp).1.hp y.t.root ≠
        entries (runState H0 St.init cexOps).hp y.t.root := by
  refine ⟨by decide, by decide, by decide, ⟨{ root := some 0, gen := 1, ver := Ver.v0 }, some 0, true⟩, ?_, ?_⟩
  · constructor <;> rfl
  · set_option maxRecDepth 100000 in decide

/-- a history that respects the guard, with three handles that end up with three different contents:
    the hypotheses of `C03_isolated` are satisfiable in a non-trivial way -/
def okOps : List Op :=
  [.put 0 [0x12] [1], .put 0 [0x13] [1], .snap 0, .snap 0, .put 1 [0x12] [2], .del 2 [0x13],
   .snap 1, .ver 3 Ver.v1, .put 3 [0x12, 0x34] [3]]

/-- `Entries()` of handle `i` -/
def entriesOf (s : St) (i : Nat) : List (Bytes × Option Bytes) :=
  match s.hs[i]? with
  | some x => entries s.hp x.t.root
  | none => []

set_option maxRecDepth 100000 in
unseal encodeKids in
example : violatesGuard H0 St.init okOps = false ∧
    guardOp (runState H0 St.init okOps) (.put 2 [0x12] [9]) = true ∧
    entriesOf (runState H0 St.init okOps) 0 = [([0x12], some [1]), ([0x13], some [1])] ∧
    entriesOf (runState H0 St.init okOps) 1 = [([0x12], some [2]), ([0x13], some [1])] ∧
    entriesOf (runState H0 St.init okOps) 2 = [([0x12], some [1])] ∧
    entriesOf (runState H0 St.init okOps) 3 =
      [([0x12], some [2]), ([0x12, 0x34], some [3]), ([0x13], some [1])] := by
  refine ⟨by decide, by decide, by decide, by decide, by decide, by decide⟩

end Gossamer.C03
