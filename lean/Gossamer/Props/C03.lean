import Gossamer.Model.C03
namespace Gossamer.C03
end Gossamer.C03
