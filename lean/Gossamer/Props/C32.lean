import Gossamer.Model.C32
namespace Gossamer.C32
end Gossamer.C32
