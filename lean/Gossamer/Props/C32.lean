/-
C32 — full sync imports only consistent chains, parents first.

Theorems about the model `Gossamer.C32` (lean/Gossamer/Model/C32.lean), for ALL bad-block lists, all
histories of announcements and `Process` calls and all responses (any split, order, duplication,
fork, disconnected fragment, forged hash, broken link, missing field):

* `C32_parents_first`  whenever the importer goes on to execute a block, its parent is known at that
                       moment (the flag of `Ev.exec` is the lookup of the parent hash in the known
                       set of that very moment: `C32_exec_flag`);
* `C32_never_fails`    consequently no `Process` call ends with "failed to get parent header", with a
                       finalisation of an unknown block or with a panic;
* `C32_at_most_once`   no block is executed twice in a whole history;
* `C32_rejects_non_chain`, `C32_rejects_forged_hash`  such a response is rejected by
                       `validateResults`, and `C32_rejected_no_effect`: a rejected response changes
                       nothing but the reputation (state, importer calls, re-requests are those of
                       the call without it); `C32_accepted_honest_chain`: whatever is accepted for a
                       header request is a non-empty hash-linked chain of blocks whose stated hash is
                       the hash of their header.
-/
import Gossamer.Lib.C32Import
namespace Gossamer.C32

/-! ### one `Process` call -/

structure ProcOk (st : St) (o : POut) : Prop where
  ok : o.outcome = .ok
  inv : Inv o.st
  mono : ∀ x ∈ st.known, x ∈ o.st.known
  flags : ∀ e ∈ o.events, e.flagOk = true
  fresh : ∀ x ∈ execIds o.events, x ∉ st.known ∧ x ∈ o.st.known
  nodup : (execIds o.events).Nodup

theorem any_isEmpty_false {ready : List (List BD)} (h : ∀ f ∈ ready, GoodFrag f) :
    ready.any (·.isEmpty) = false := by
  rw [List.any_eq_false]
  intro f hf
  have := (h f hf).1
  simpa using this

theorem finish_ok (v : Validated) {st1 : St} {ready : List (List BD)} (hinv : Inv st1)
    (hready : ∀ f ∈ ready, GoodFrag f) : ProcOk st1 (finish v st1 ready) := by
  have hfr : ∀ f ∈ mergeFrags (sortFrags ready), GoodFrag f :=
    mergeFrags_good (fun f hf => hready f (mem_sortFrags hf))
  have hnext : ReadyL st1.known
      ((mergeFrags (sortFrags ready)).filter (headParentKnown st1.known)).flatten :=
    readyL_flatten (fun f hf => ⟨hfr f (List.mem_filter.mp hf).1, (List.mem_filter.mp hf).2⟩)
  have h1 := importAll_ok (st := st1) hnext (fun x hx => hx)
  have hdisj : ∀ f ∈ (mergeFrags (sortFrags ready)).filter (fun f => !headParentKnown st1.known f),
      GoodFrag f := fun f hf => hfr f (List.mem_filter.mp hf).1
  unfold finish
  rw [if_neg (by rw [any_isEmpty_false hready]; simp)]
  simp only []
  generalize importAll st1
    ((mergeFrags (sortFrags ready)).filter (headParentKnown st1.known)).flatten = r1 at h1 ⊢
  rw [h1.ok]
  simp only []
  obtain ⟨hs1, hs2⟩ := second_spec (known := r1.1.known) (fin := r1.1.fin) hdisj
  generalize second r1.1.known r1.1.fin
    ((mergeFrags (sortFrags ready)).filter (fun f => !headParentKnown st1.known f)) = s at hs1 hs2 ⊢
  have hinv3 : Inv { r1.1 with disjoint := r1.1.disjoint ++ s.stored } := by
    constructor
    · intro f hf
      simp only at hf
      rcases List.mem_append.mp hf with h | h
      · rw [h1.dj] at h; exact hinv.dj f h
      · exact hs2 f h
    · intro b hb
      simp only at hb
      rw [h1.inc] at hb
      exact hinv.inc b hb
  have h2 := importAll_ok (st := { r1.1 with disjoint := r1.1.disjoint ++ s.stored })
    (K := r1.1.known) hs1 (fun x hx => hx)
  generalize importAll { r1.1 with disjoint := r1.1.disjoint ++ s.stored } s.next = r2 at h2 ⊢
  rw [h2.ok]
  simp only []
  have hinv4 : Inv r2.1 := ⟨by rw [h2.dj]; exact hinv3.dj, by rw [h2.inc]; exact hinv3.inc⟩
  refine ⟨rfl, removeIrrelevant_inv hinv4, fun x hx => h2.mono x (h1.mono x hx), ?_, ?_, ?_⟩
  · intro e he
    rcases List.mem_append.mp he with h | h
    · exact h1.flags e h
    · exact h2.flags e h
  · intro x hx
    simp only [execIds_append] at hx
    show x ∉ st1.known ∧ x ∈ r2.1.known
    rcases List.mem_append.mp hx with h | h
    · exact ⟨(h1.fresh x h).1, h2.mono x (h1.fresh x h).2⟩
    · exact ⟨fun hc => (h2.fresh x h).1 (h1.mono x hc), (h2.fresh x h).2⟩
  · simp only [execIds_append]
    refine List.nodup_append.mpr ⟨h1.nodup, h2.nodup, ?_⟩
    intro x hx y hy hxy
    subst hxy
    exact (h2.fresh x hy).1 (h1.fresh x hx).2

theorem process_ok (bad : List Nat) {st : St} (hinv : Inv st) (results : List Result) :
    ProcOk st (process bad st results) := by
  unfold process
  simp only []
  have habs : AbsInv st ((validateResults bad results).valid.foldl (absorb st.fin) (st, [])) :=
    foldl_absorb_inv _ _ ⟨hinv, by simp, rfl, rfl⟩ (fun v hv => validResp_of_mem hv)
  generalize (validateResults bad results).valid.foldl (absorb st.fin) (st, []) = acc at habs ⊢
  have h := finish_ok (validateResults bad results) habs.inv habs.ready
  refine ⟨h.ok, h.inv, ?_, h.flags, ?_, h.nodup⟩
  · intro x hx
    rw [← habs.known] at hx
    exact h.mono x hx
  · intro x hx
    rw [← habs.known]
    exact h.fresh x hx

/-! ### histories -/

structure RunInv (r : Run) : Prop where
  inv : Inv r.st
  flags : ∀ e ∈ r.trace, e.flagOk = true
  sub : ∀ x ∈ execIds r.trace, x ∈ r.st.known
  nodup : (execIds r.trace).Nodup
  outs : ∀ o ∈ r.outcomes, o = .ok

theorem step_inv (bad : List Nat) {r : Run} (h : RunInv r) (op : Op) : RunInv (step bad r op) := by
  cases op with
  | announce b =>
    exact ⟨newIncomplete_inv h.inv b, h.flags, h.sub, h.nodup, h.outs⟩
  | proc results =>
    have hp := process_ok bad h.inv results
    simp only [step]
    refine ⟨hp.inv, ?_, ?_, ?_, ?_⟩
    · intro e he
      rcases List.mem_append.mp he with h' | h'
      · exact h.flags e h'
      · exact hp.flags e h'
    · intro x hx
      simp only [execIds_append] at hx
      rcases List.mem_append.mp hx with h' | h'
      · exact hp.mono x (h.sub x h')
      · exact (hp.fresh x h').2
    · simp only [execIds_append]
      refine List.nodup_append.mpr ⟨h.nodup, hp.nodup, ?_⟩
      intro x hx y hy hxy
      subst hxy
      exact (hp.fresh x hy).1 (h.sub x hx)
    · intro o ho
      rcases List.mem_append.mp ho with h' | h'
      · exact h.outs o h'
      · simp only [List.mem_singleton] at h'
        rw [h', hp.ok]

theorem foldl_step_inv (bad : List Nat) : ∀ (ops : List Op) (r : Run), RunInv r →
    RunInv (ops.foldl (step bad) r)
  | [], _, h => h
  | op :: ops, r, h => foldl_step_inv bad ops _ (step_inv bad h op)

theorem run_inv (bad : List Nat) (ops : List Op) : RunInv (run bad ops) :=
  foldl_step_inv bad ops {} ⟨⟨by simp, by simp⟩, by simp, by simp [execIds], by simp [execIds], by simp⟩

/-! ### the property theorems -/

/-- The flag of an `exec` event is the lookup of the block's parent in the known set at the moment
    the importer is called, and the block was not known (by its stated hash). -/
theorem C32_exec_flag (st : St) (b' b : BD) (pk : Bool)
    (h : Ev.exec b pk ∈ (importBlock st b').2.1) :
    b = b' ∧ pk = st.known.contains b.parent ∧ st.known.contains b.stated = false := by
  unfold importBlock at h
  cases hk : st.known.contains b'.stated <;> cases hp : st.known.contains b'.parent <;>
    cases hb : b'.hasBody <;> cases hj : b'.just <;>
    simp only [hk, hp, hb, hj] at h <;> simp at h <;> (try split at h) <;> (try simp at h) <;>
    first
      | (obtain ⟨rfl, rfl⟩ := h; exact ⟨rfl, hp.symm, hk⟩)
      | (obtain ⟨_, rfl, rfl⟩ := h; exact ⟨rfl, hp.symm, hk⟩)

/-- The flag of a `handed` event is the lookup of the block's parent in the known set at the moment
    the strategy calls the importer. -/
theorem C32_handed_flag (st : St) (b' b : BD) (pk : Bool)
    (h : Ev.handed b pk ∈ (importBlock st b').2.1) : b = b' ∧ pk = st.known.contains b.parent := by
  unfold importBlock at h
  cases hk : st.known.contains b'.stated <;> cases hp : st.known.contains b'.parent <;>
    cases hb : b'.hasBody <;> cases hj : b'.just <;>
    simp only [hk, hp, hb, hj] at h <;> simp at h <;> (try split at h) <;> (try simp at h) <;>
    (obtain ⟨rfl, rfl⟩ := h; exact ⟨rfl, hp.symm⟩)

/-- Every block handed to the importer, in any history, has its parent known at that moment. -/
theorem C32_parents_first (bad : List Nat) (ops : List Op) (b : BD) (pk : Bool)
    (h : Ev.handed b pk ∈ (run bad ops).trace) : pk = true :=
  (run_inv bad ops).flags _ h

/-- ... in particular every block the importer goes on to execute. -/
theorem C32_parents_first_exec (bad : List Nat) (ops : List Op) (b : BD) (pk : Bool)
    (h : Ev.exec b pk ∈ (run bad ops).trace) : pk = true :=
  (run_inv bad ops).flags _ h

/-- No `Process` call of any history fails (unknown parent, finalising an unknown block) or panics. -/
theorem C32_never_fails (bad : List Nat) (ops : List Op) :
    ∀ o ∈ (run bad ops).outcomes, o = .ok :=
  (run_inv bad ops).outs

/-- No block (identified by the hash of its header) is executed twice in a history. -/
theorem C32_at_most_once (bad : List Nat) (ops : List Op) : (execIds (run bad ops).trace).Nodup :=
  (run_inv bad ops).nodup

/-- The unready set only ever holds non-empty hash-linked fragments of honest blocks. -/
theorem C32_unready_good (bad : List Nat) (ops : List Op) : Inv (run bad ops).st :=
  (run_inv bad ops).inv

theorem mem_ordered {r : Result} {b : BD} : b ∈ ordered r ↔ b ∈ r.blocks := by
  unfold ordered
  split <;> simp

/-- A completed response to a header request that is not a hash-linked chain is rejected; when its
    fields are in order the peer's reputation is changed for it. -/
theorem C32_rejects_non_chain (bad : List Nat) (r : Result) (hc : r.completed = true)
    (hk : r.kind.hdr = true) (hn : isChain (ordered r) = false) :
    (∃ rep blk, validateOne bad r = .reject rep blk) ∧
    (checkFields true (ordered r) = none → validateOne bad r = .reject (some .hdr) false) := by
  have hne : ¬ r.blocks.isEmpty = true := by
    intro he
    have : ordered r = [] := by
      unfold ordered
      split <;> simpa using he
    rw [this] at hn
    simp [isChain] at hn
  rw [validateOne_eq]
  simp only [hc, hne, hk, hn, Bool.not_true, Bool.false_eq_true, if_false, Bool.not_false,
    Bool.and_self, if_true]
  cases hcf : checkFields true (ordered r) with
  | none => exact ⟨⟨_, _, rfl⟩, fun _ => rfl⟩
  | some e => cases e <;> exact ⟨⟨_, _, rfl⟩, fun h => by simp at h⟩

/-- A completed response to a header request containing a block whose stated hash is not the hash of
    its header is rejected. -/
theorem C32_rejects_forged_hash (bad : List Nat) (r : Result) (hc : r.completed = true)
    (hk : r.kind.hdr = true) (hf : ∃ b ∈ r.blocks, b.stated ≠ b.id) :
    ∃ rep blk, validateOne bad r = .reject rep blk := by
  obtain ⟨b, hb, hne⟩ := hf
  have hcf : checkFields true (ordered r) ≠ none :=
    fun h => hne (checkFields_none_hdr _ h b (mem_ordered.mpr hb)).2
  have hnb : ¬ r.blocks.isEmpty = true := by
    intro he
    simp only [List.isEmpty_iff] at he
    rw [he] at hb
    simp at hb
  rw [validateOne_eq]
  simp only [hc, hnb, hk, Bool.not_true, Bool.false_eq_true, if_false]
  cases h : checkFields true (ordered r) with
  | none => exact absurd h hcf
  | some e => cases e <;> exact ⟨_, _, rfl⟩

/-- ... and when every block of it has a header and a body, the peer's reputation is changed. -/
theorem C32_forged_hash_reported (bad : List Nat) (r : Result) (hc : r.completed = true)
    (hk : r.kind.hdr = true) (hf : ∃ b ∈ r.blocks, b.stated ≠ b.id)
    (hbody : ∀ b ∈ r.blocks, b.hasBody = true) :
    validateOne bad r = .reject (some .hdr) false := by
  obtain ⟨b, hb, hne⟩ := hf
  have hcf : checkFields true (ordered r) ≠ none :=
    fun h => hne (checkFields_none_hdr _ h b (mem_ordered.mpr hb)).2
  have hnb : ¬ r.blocks.isEmpty = true := by
    intro he
    simp only [List.isEmpty_iff] at he
    rw [he] at hb
    simp at hb
  have hnil : ∀ l : List BD, (∀ b ∈ l, b.hasBody = true) → checkFields true l ≠ some .nilBody := by
    intro l
    induction l with
    | nil => intro _ h; simp [checkFields] at h
    | cons x rest ih =>
      intro hl h
      unfold checkFields at h
      split at h
      · simp at h
      · split at h
        · simp at h
        · split at h
          · rename_i h3
            simp [hl x List.mem_cons_self] at h3
          · exact ih (fun b hb => hl b (List.mem_cons_of_mem _ hb)) h
  rw [validateOne_eq]
  simp only [hc, hnb, hk, Bool.not_true, Bool.false_eq_true, if_false]
  cases h : checkFields true (ordered r) with
  | none => exact absurd h hcf
  | some e =>
    cases e
    · rfl
    · rfl
    · exact absurd h (hnil _ (fun b hb => hbody b (mem_ordered.mp hb)))

/-- Whatever `validateResults` lets through for a header request is a non-empty hash-linked chain of
    blocks with header and body whose stated hash is the hash of the header. -/
theorem C32_accepted_honest_chain (bad : List Nat) (rs : List Result) (k : Kind) (bs : List BD)
    (h : (k, bs) ∈ (validateResults bad rs).valid) (hk : k.hdr = true) :
    bs ≠ [] ∧ isChain bs = true ∧ ∀ b ∈ bs, b.stated = b.id ∧ b.hasBody = true :=
  (validResp_of_mem h).hdr hk

/-! ### a rejected response has no effect but on the reputation -/

theorem valid_cons (bad : List Nat) (r : Result) (rest : List Result) :
    (validateResults bad (r :: rest)).valid =
    (match validateOne bad r with
     | .accept bs => [(r.kind, bs)]
     | _ => []) ++ (validateResults bad rest).valid := by
  conv => lhs; unfold validateResults
  cases validateOne bad r <;> rfl

theorem validateResults_valid_append (bad : List Nat) : ∀ (a b : List Result),
    (validateResults bad (a ++ b)).valid = (validateResults bad a).valid ++ (validateResults bad b).valid
  | [], b => by simp [validateResults]
  | r :: a, b => by
    rw [List.cons_append, valid_cons, valid_cons, validateResults_valid_append bad a b,
      List.append_assoc]

theorem finish_indep (v1 v2 : Validated) (st : St) (ready : List (List BD)) :
    (finish v1 st ready).st = (finish v2 st ready).st ∧
    (finish v1 st ready).events = (finish v2 st ready).events ∧
    (finish v1 st ready).outcome = (finish v2 st ready).outcome ∧
    (finish v1 st ready).queued = (finish v2 st ready).queued := by
  unfold finish
  split
  · exact ⟨rfl, rfl, rfl, rfl⟩
  · simp only []
    split
    · split <;> exact ⟨rfl, rfl, rfl, rfl⟩
    · exact ⟨rfl, rfl, rfl, rfl⟩

/-- A response that `validateResults` rejects (not a chain, forged hash, missing field, bad block)
    changes neither the state nor what is handed to the importer nor the re-requests: the call
    behaves as if the response were not there. -/
theorem C32_rejected_no_effect (bad : List Nat) (st : St) (rs1 rs2 : List Result) (r : Result)
    (rep : Option Rep) (blk : Bool) (h : validateOne bad r = .reject rep blk) :
    (process bad st (rs1 ++ r :: rs2)).st = (process bad st (rs1 ++ rs2)).st ∧
    (process bad st (rs1 ++ r :: rs2)).events = (process bad st (rs1 ++ rs2)).events ∧
    (process bad st (rs1 ++ r :: rs2)).outcome = (process bad st (rs1 ++ rs2)).outcome ∧
    (process bad st (rs1 ++ r :: rs2)).queued = (process bad st (rs1 ++ rs2)).queued := by
  have hv : (validateResults bad (rs1 ++ r :: rs2)).valid = (validateResults bad (rs1 ++ rs2)).valid := by
    rw [validateResults_valid_append, validateResults_valid_append]
    congr 1
    rw [valid_cons, h]
    rfl
  unfold process
  simp only []
  rw [hv]
  exact finish_indep _ _ _ _

/-! ### the theorems are not vacuous: concrete histories -/

private def blk (id parent num : Nat) : BD :=
  { id := id, stated := id, parent := parent, num := num, hasHeader := true, hasBody := true, just := false }

/-- chain 1..4 on genesis; the upper half arrives first, then a descending ancestor search -/
private def demoOps : List Op :=
  [ .proc [{ peer := 0, kind := .asc, completed := true, blocks := [blk 3 2 3, blk 4 3 4] }],
    .proc [{ peer := 0, kind := .desc, completed := true, blocks := [blk 2 1 2, blk 1 0 1] }],
    .proc [{ peer := 1, kind := .asc, completed := true, blocks := [blk 1 0 1, blk 2 1 2] }] ]

example : execIds (run [] demoOps).trace = [1, 2, 3, 4] := by decide
example : (run [] demoOps).outcomes = [.ok, .ok, .ok] := by decide
example : (run [] (demoOps.take 1)).st.disjoint = [[blk 3 2 3, blk 4 3 4]] := by decide

/-- a forged hash and a broken link are rejected with a reputation change -/
private def forged : BD := { blk 1 0 1 with stated := 77 }
private def resForged : Result := { peer := 0, kind := .asc, completed := true, blocks := [forged] }
private def resBroken : Result :=
  { peer := 0, kind := .asc, completed := true, blocks := [blk 1 0 1, blk 3 2 3] }
example : validateOne [] resForged = .reject (some .hdr) false := by rfl
example : validateOne [] resBroken = .reject (some .hdr) false := by rfl

end Gossamer.C32
