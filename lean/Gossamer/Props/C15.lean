/-
C15 — the block tree matches the added blocks.

For EVERY history (any root, any sequence of AddBlock / Prune calls, accepted or refused) the Go structure
modelled in `Gossamer.Lib.BlockTree` (`tree … ops`) is compared with the flat specification state
(`spec … ops`): a list of blocks `(hash, parent, number, arrival, primary)` to which an accepted AddBlock appends
and from which finalising `f` keeps exactly the strict descendants of `f` (by parent links).
All queries of the tree are characterised from the parent links of that list.
-/
import Gossamer.Model.C15
import Gossamer.Lib.BlockTreeLca

namespace Gossamer.C15
open Gossamer.BlockTree

/-- the specification's transition for one call -/
def specStep (s : Spec) : Op → Spec
  | .add hd arr => s.addStep hd arr
  | .prune h => s.pruneStep h

def specRun (s : Spec) (ops : List Op) : Spec := ops.foldl specStep s

/-- the Go tree after a history that starts from `NewBlockTreeFromRoot` -/
def tree (rh rn ra : Nat) (ops : List Op) : BT := run (NewBlockTreeFromRoot rh rn ra) ops

/-- the specification state after the same history -/
def spec (rh rn ra : Nat) (ops : List Op) : Spec := specRun ⟨⟨rh, rn, ra, false⟩, []⟩ ops

theorem step_good {bt : BT} {s : Spec} (hi : Inv bt) (hs : Sim bt s) (op : Op) :
    Inv (step bt op) ∧ Sim (step bt op) (specStep s op) := by
  cases op with
  | add hd arr =>
    simp only [step, specStep]
    cases h : bt.addBlock hd arr with
    | ok bt' => exact ⟨inv_add hi h, (sim_add hi hs h).2⟩
    | error e =>
      have := sim_add_err hi hs h
      refine ⟨hi, ?_⟩
      simp only [Spec.addStep, this]
      exact hs
  | prune h => exact ⟨inv_prune hi h, sim_prune hi hs h⟩

theorem run_good : ∀ (ops : List Op) {bt : BT} {s : Spec}, Inv bt → Sim bt s →
    Inv (run bt ops) ∧ Sim (run bt ops) (specRun s ops) := by
  intro ops
  induction ops with
  | nil => intro bt s hi hs; exact ⟨hi, hs⟩
  | cons op ops ih =>
    intro bt s hi hs
    obtain ⟨hi', hs'⟩ := step_good hi hs op
    exact ih hi' hs'

/-- every reachable tree satisfies the invariant and is simulated by the specification state -/
theorem reach (rh rn ra : Nat) (ops : List Op) :
    Inv (tree rh rn ra ops) ∧ Sim (tree rh rn ra ops) (spec rh rn ra ops) :=
  run_good ops (inv_init rh rn ra) (sim_init rh rn ra)

/-- … hence the two flat views are interchangeable -/
theorem reachEq (rh rn ra : Nat) (ops : List Op) : SpecEq (spec rh rn ra ops) (tree rh rn ra ops).spec :=
  (reach rh rn ra ops).2.eq (reach rh rn ra ops).1

/-! ### the property -/

/-- **Contents.** The tree holds exactly the blocks of the specification state — the accepted blocks that descend
    from the last finalised block — once each, with the same payload and the same parent link. -/
theorem C15_contents (rh rn ra : Nat) (ops : List Op) :
    let bt := tree rh rn ra ops
    let S := spec rh rn ra ops
    bt.getAllBlocks.Nodup ∧ (∀ h, h ∈ bt.getAllBlocks ↔ S.present h) ∧
    (∀ h, (bt.getNode h).map (·.info) = S.infoOf h) ∧
    S.root = bt.root.info ∧ (∀ b, b ∈ S.blocks ↔ b ∈ bt.spec.blocks) := by
  intro bt S
  obtain ⟨hi, hs⟩ := reach rh rn ra ops
  have e := reachEq rh rn ra ops
  refine ⟨hi.nodup, ?_, ?_, hs.root, hs.mem⟩
  · intro h; rw [e.present, BT.spec, present_iff]; rfl
  · intro h; rw [e.infoOf, BT.spec, infoOf_eq hi.nodup]; rfl

/-- **Leaves.** The leaf map holds, once each, exactly the held blocks that are nobody's parent. -/
theorem C15_leaves (rh rn ra : Nat) (ops : List Op) :
    let bt := tree rh rn ra ops
    let S := spec rh rn ra ops
    bt.leafHashes.Nodup ∧ ∀ h, h ∈ bt.leafHashes ↔ S.isLeaf h := by
  intro bt S
  obtain ⟨hi, hs⟩ := reach rh rn ra ops
  have e := reachEq rh rn ra ops
  refine ⟨hi.leavesNodup, ?_⟩
  intro h
  rw [e.isLeaf, BT.spec, isLeaf_iff hi.nodup]
  simp only [BT.leafHashes, List.mem_map]
  constructor
  · rintro ⟨x, hx, he⟩; exact ⟨x, (hi.leavesMem x).1 hx, he⟩
  · rintro ⟨x, hx, he⟩; exact ⟨x, (hi.leavesMem x).2 hx, he⟩

/-- **Ancestry.** `IsDescendantOf(a, d)` answers by the parent links (and reports which argument is unknown). -/
theorem C15_isDescendantOf (rh rn ra : Nat) (ops : List Op) (a d : Hash) :
    let bt := tree rh rn ra ops
    let S := spec rh rn ra ops
    bt.isDescendantOf a d =
      if a = d then .ok true
      else if ¬ S.present a then .startNotFound
      else if ¬ S.present d then .endNotFound
      else .ok (decide (S.isAnc a d)) := by
  intro bt S
  obtain ⟨hi, hs⟩ := reach rh rn ra ops
  have e := reachEq rh rn ra ops
  have hp : ∀ x, S.present x ↔ x ∈ descF [bt.root] := fun x => by rw [e.present, BT.spec, present_iff]
  unfold BT.isDescendantOf BT.getNode
  by_cases had : a = d
  · simp [had]
  · simp only [had, if_false]
    cases hfa : findF a [bt.root] with
    | none =>
      have : ¬ S.present a := by rw [hp]; exact (findF_none _).1 hfa
      simp [this]
    | some pn =>
      have hpa : S.present a := by rw [hp, ← findF_isSome, hfa]; rfl
      simp only [hpa, not_true_eq_false, if_false]
      cases hfd : findF d [bt.root] with
      | none =>
        have : ¬ S.present d := by rw [hp]; exact (findF_none _).1 hfd
        simp [this]
      | some cn =>
        have hpd : S.present d := by rw [hp, ← findF_isSome, hfd]; rfl
        simp only [hpd, not_true_eq_false, if_false]
        have hcn : cn.info.hash = d := (findF_some _ _ hfd).2
        have hdm : d ∈ descF [bt.root] := (hp d).1 hpd
        have key : occF d [pn] = true ↔ S.isAnc a d := by
          rw [occF_iff, e.isAnc, BT.spec, isAnc_iff hi.nodup hdm]
          constructor
          · intro h; exact ⟨pn, hfa, h⟩
          · rintro ⟨na, hna, h⟩; rw [hfa] at hna; cases hna; exact h
        rw [hcn]
        by_cases hA : S.isAnc a d
        · simp [hA, key.2 hA]
        · have : occF d [pn] = false := by
            cases ho : occF d [pn]
            · rfl
            · exact absurd (key.1 ho) hA
          simp [hA, this]

/-- **Prune.** Finalising `f` reports — once each — exactly the held blocks that are neither ancestors nor
    descendants of `f` (nothing if `f` is unknown). -/
theorem C15_prune_exact (rh rn ra : Nat) (ops : List Op) (f : Hash) :
    let bt := tree rh rn ra ops
    let S := spec rh rn ra ops
    let pruned := (bt.prune f).2
    pruned.Nodup ∧ ∀ h, h ∈ pruned ↔ (S.present f ∧ S.present h ∧ ¬ S.isAnc h f ∧ ¬ S.isAnc f h) := by
  intro bt S pruned
  obtain ⟨hi, hs⟩ := reach rh rn ra ops
  have e := reachEq rh rn ra ops
  have hp : ∀ x, S.present x ↔ x ∈ descF [bt.root] := fun x => by rw [e.present, BT.spec, present_iff]
  have hanc : ∀ a d, d ∈ descF [bt.root] → (S.isAnc a d ↔ ∃ na, findF a [bt.root] = some na ∧ d ∈ descF [na]) :=
    fun a d hd => by rw [e.isAnc, BT.spec, isAnc_iff hi.nodup hd]
  show (bt.prune f).2.Nodup ∧ ∀ h, h ∈ (bt.prune f).2 ↔ _
  rcases prune_cases bt f with ⟨hc, h⟩ | ⟨n, hne, hf, h⟩
  · rw [h]
    refine ⟨List.nodup_nil, fun x => ?_⟩
    simp only [List.not_mem_nil, false_iff]
    rintro ⟨hpf, hpx, _, h2⟩
    rcases hc with hc | hc
    · apply h2
      rw [hanc f x ((hp x).1 hpx)]
      refine ⟨bt.root, ?_, (hp x).1 hpx⟩
      cases hr : bt.root with
      | mk i cs => rw [hr] at hc; simp [findF, hc]
    · exact absurd ((hp f).1 hpf) ((findF_none _).1 hc)
  · rw [h]
    have hns : n ∈ subsF [bt.root] := (findF_some _ _ hf).1
    have hnh : n.info.hash = f := (findF_some _ _ hf).2
    have hfm : f ∈ descF [bt.root] := hnh ▸ mem_subs_hash_mem hns
    refine ⟨(pruneF_sublist n _).nodup hi.nodup, fun x => ?_⟩
    show x ∈ pruneF n [bt.root] ↔ _
    rw [mem_pruneF [bt.root] hi.nodup (closedIn_of_subs hi.nodup hns), hnh]
    constructor
    · rintro ⟨hx, hnd, hna⟩
      refine ⟨(hp f).2 hfm, (hp x).2 hx, ?_, ?_⟩
      · rw [hanc x f hfm]; exact hna
      · rw [hanc f x hx]; rintro ⟨na, h1, h2⟩; rw [hf] at h1; cases h1; exact hnd h2
    · rintro ⟨_, hpx, h1, h2⟩
      have hx := (hp x).1 hpx
      refine ⟨hx, ?_, ?_⟩
      · intro hd; exact h2 ((hanc f x hx).2 ⟨n, hf, hd⟩)
      · rw [← hanc x f hfm]; exact h1

/-- **AddBlock.** It succeeds exactly when the specification accepts the header; otherwise it reports the first
    failing condition (unknown parent, duplicate, wrong number, primary flag undeterminable) and the tree is
    unchanged. -/
theorem C15_addBlock_errors (rh rn ra : Nat) (ops : List Op) (hd : Header) (arr : Nat) :
    let bt := tree rh rn ra ops
    let S := spec rh rn ra ops
    match bt.addBlock hd arr with
    | .ok bt' => S.addErr hd = none ∧ step bt (.add hd arr) = bt'
    | .error err => S.addErr hd = some err ∧ step bt (.add hd arr) = bt := by
  intro bt S
  obtain ⟨hi, hs⟩ := reach rh rn ra ops
  cases h : bt.addBlock hd arr with
  | ok bt' => exact ⟨(sim_add hi hs h).1, by simp [step, h]⟩
  | error err => exact ⟨sim_add_err hi hs h, by simp [step, h]⟩

/-- what `Spec.addErr` demands, spelled out: acceptance iff the parent is held, the hash is new, the number is the
    parent's + 1 and the header says whether the slot was primary -/
theorem addErr_none_iff (s : Spec) (hd : Header) :
    s.addErr hd = none ↔ (∃ pi, s.infoOf hd.parent = some pi ∧ pi.number + 1 = hd.number) ∧
      ¬ s.present hd.hash ∧ hd.kind.isSome := by
  unfold Spec.addErr
  cases hp : s.infoOf hd.parent with
  | none => simp
  | some pi =>
    by_cases h1 : s.present hd.hash
    · simp [h1]
    · by_cases h2 : pi.number + 1 = hd.number
      · cases hk : hd.kind <;> simp [h1, h2]
      · simp [h1, h2]

/-- **By number.** `GetHashesAtNumber n` returns, once each, exactly the held blocks with number `n`. -/
theorem C15_hashesAtNumber (rh rn ra : Nat) (ops : List Op) (num : Nat) :
    let bt := tree rh rn ra ops
    let S := spec rh rn ra ops
    (bt.getHashesAtNumber num).Nodup ∧
      ∀ h, h ∈ bt.getHashesAtNumber num ↔ ∃ i, S.infoOf h = some i ∧ i.number = num := by
  intro bt S
  obtain ⟨hi, hs⟩ := reach rh rn ra ops
  have e := reachEq rh rn ra ops
  have hinfo : ∀ h i, S.infoOf h = some i ↔ i ∈ infosF [bt.root] ∧ i.hash = h := by
    intro h i; rw [e.infoOf, BT.spec, infoOf_eq hi.nodup, findF_info_iff hi.nodup]
  have hnums := hi.nums
  have hleaf := hi.leavesMem
  cases hr : bt.root with
  | mk ri cs =>
    rw [hr] at hnums hleaf hinfo
    simp only [Node.info_mk, Node.children_mk] at hnums
    have hgt := numOK_gt cs _ hnums
    have hinf : ∀ x, x ∈ infosF [Node.mk ri cs] ↔ x = ri ∨ x ∈ infosF cs := by
      intro x; simp [infosF]
    have hlr : ∀ l, l ∈ leavesF cs → l ∈ leavesF [Node.mk ri cs] := by
      intro l hl
      have : leavesF [Node.mk ri cs] = (if cs.isEmpty then [ri] else []) ++ leavesF cs := by simp [leavesF]
      rw [this]; exact List.mem_append_right _ hl
    have hmem : ∀ h, _ := fun h => mem_hashesAtF (num := num) (h := h) cs _ hnums
    unfold BT.getHashesAtNumber
    simp only [hr, Node.info_mk]
    by_cases h1 : num < ri.number
    · simp only [h1, if_true]
      refine ⟨List.nodup_nil, fun h => ?_⟩
      simp only [List.not_mem_nil, false_iff, not_exists, not_and]
      intro i hi' hn
      rcases (hinf i).1 ((hinfo h i).1 hi').1 with rfl | hx
      · omega
      · have := hgt i hx; omega
    · simp only [h1, if_false]
      by_cases h2 : num > bt.leaves.foldl (fun hi l => if l.number > hi then l.number else hi) 0
      · simp only [h2, if_true]
        refine ⟨List.nodup_nil, fun h => ?_⟩
        simp only [List.not_mem_nil, false_iff, not_exists, not_and]
        intro i hi' hn
        have hmx := (foldl_max_ge bt.leaves 0).2
        -- a leaf at or below `i`
        have : ∃ l ∈ leavesF [Node.mk ri cs], i.number ≤ l.number := by
          rcases (hinf i).1 ((hinfo h i).1 hi').1 with rfl | hx
          · cases cs with
            | nil => exact ⟨i, by simp [leavesF], Nat.le_refl _⟩
            | cons c cs' =>
              cases c with
              | mk ci ccs =>
                have hci : ci ∈ infosF (.mk ci ccs :: cs') := by simp [infosF]
                obtain ⟨l, hl, hle⟩ := leaf_above _ _ hnums ci hci
                have := hgt ci hci
                exact ⟨l, hlr l hl, by omega⟩
          · obtain ⟨l, hl, hle⟩ := leaf_above _ _ hnums i hx
            exact ⟨l, hlr l hl, hle⟩
        obtain ⟨l, hl, hle⟩ := this
        have := hmx l ((hleaf l).2 hl)
        omega
      · simp only [h2, if_false]
        refine ⟨(hashesAtF_sublist num _).nodup (hr ▸ hi.nodup), fun h => ?_⟩
        simp only [hashesAtF, List.append_nil]
        constructor
        · intro hm
          split at hm
          · next he =>
            simp only [List.mem_singleton] at hm
            exact ⟨ri, (hinfo h ri).2 ⟨(hinf ri).2 (Or.inl rfl), hm.symm⟩, he.symm⟩
          · split at hm
            · obtain ⟨x, hx, hh, hn⟩ := (hmem h).1 hm
              exact ⟨x, (hinfo h x).2 ⟨(hinf x).2 (Or.inr hx), hh⟩, hn⟩
            · simp at hm
        · rintro ⟨i, hi', hn⟩
          obtain ⟨him, hih⟩ := (hinfo h i).1 hi'
          rcases (hinf i).1 him with rfl | hx
          · simp [hn, hih]
          · have := hgt i hx
            have e1 : ¬ num = ri.number := by omega
            have e2 : num > ri.number := by omega
            simp only [e1, if_false, e2, if_true]
            exact (hmem h).2 ⟨i, hx, hih, hn⟩

end Gossamer.C15

namespace Gossamer.C15
open Gossamer.BlockTree

/-- what Range / RangeInMemory must answer, from the parent links only -/
def specRange (S : Spec) (s e : Hash) (inMemory : Bool) : Except RangeErr (List Hash) :=
  if ¬ S.present e then .error .endNotFound
  else if inMemory = true ∧ ¬ S.present s then .error .startNotFound
  else
    let s' := if S.present s then s else S.root.hash
    match S.infoOf s', S.infoOf e with
    | some si, some ei =>
      if si.number > ei.number then .error .startGreater
      else if S.isAnc s' e then .ok (S.pathDown s' e)
      else .error .notAncestor
    | _, _ => .error .endNotFound

/-- `accumulateHashesInDescedingOrder` between two held blocks -/
theorem accumulate_spec (rh rn ra : Nat) (ops : List Op) (s' e : Hash) (sn en : Node)
    (hs : findF s' [(tree rh rn ra ops).root] = some sn) (he : findF e [(tree rh rn ra ops).root] = some en) :
    accumulate ((tree rh rn ra ops).up e) en.info sn.info =
      if sn.info.number > en.info.number then .error .startGreater
      else if (spec rh rn ra ops).isAnc s' e then .ok ((spec rh rn ra ops).pathDown s' e)
      else .error .notAncestor := by
  obtain ⟨hi, hsim⟩ := reach rh rn ra ops
  have eq := reachEq rh rn ra ops
  generalize tree rh rn ra ops = bt at *
  generalize spec rh rn ra ops = S at *
  obtain ⟨hsn, hsh⟩ := findF_some _ _ hs
  obtain ⟨hen, heh⟩ := findF_some _ _ he
  have hem : e ∈ descF [bt.root] := heh ▸ mem_subs_hash_mem hen
  have hu := up_facts hi hem
  have hanc : S.ancestors e = (bt.up e).map (·.hash) := by
    rw [eq.ancestors, BT.spec, ancestors_eq_up hi.nodup hem]; rfl
  have hinj := inj_of_nodup_map (·.hash) (infosF [bt.root]) (by rw [← descF_eq_map_infos]; exact hi.nodup)
  have hsni : sn.info ∈ infosF [bt.root] := by rw [← subsF_map_info]; exact List.mem_map.2 ⟨sn, hsn, rfl⟩
  have heni : en.info ∈ infosF [bt.root] := by rw [← subsF_map_info]; exact List.mem_map.2 ⟨en, hen, rfl⟩
  generalize hup : bt.up e = up at *
  have hlen : 0 < up.length := by cases up with | nil => exact absurd rfl hu.ne | cons _ _ => simp
  have h0 : up[0] = en.info := by
    apply hinj _ _ (hu.mem _ (List.getElem_mem hlen)) heni
    have := hu.head
    rw [List.getElem?_eq_getElem hlen] at this
    simp only [Option.map_some, Option.some.injEq] at this
    rw [this, heh]
  have hn0 := hu.nums 0 hlen
  rw [h0] at hn0
  -- the start node is not above the root
  have hsge : bt.root.info.number ≤ sn.info.number := by
    have hnums := hi.nums
    cases hr : bt.root with
    | mk ri cs =>
      rw [hr] at hsni hnums
      simp only [Node.info_mk, Node.children_mk] at hnums ⊢
      simp only [infosF, List.append_nil, List.mem_cons] at hsni
      rcases hsni with h | h
      · rw [h]; exact Nat.le_refl _
      · have := numOK_gt cs _ hnums _ h; omega
  unfold accumulate
  by_cases hgt : sn.info.number > en.info.number
  · simp [hgt]
  · simp only [hgt, if_false]
    have hk : en.info.number - sn.info.number < up.length := by omega
    rw [List.getElem?_eq_getElem hk]
    simp only
    have hnk := hu.nums _ hk
    by_cases hx : up[en.info.number - sn.info.number].hash = sn.info.hash
    · have hisAnc : S.isAnc s' e := by
        unfold Spec.isAnc
        rw [hanc, ← hsh, ← hx]
        exact List.mem_map.2 ⟨_, List.getElem_mem hk, rfl⟩
      simp only [hx, ne_eq, not_true_eq_false, if_false, hisAnc, if_true]
      congr 1
      unfold Spec.pathDown
      rw [hsh]
      congr 2
      rw [hanc]
      have hnd := up_hashes_nodup hi hu
      rw [takeWhile_eq_take (up.map (·.hash)) (en.info.number - sn.info.number) s' hnd (by simpa using hk)
        (by simp [hx, hsh])]
      simp [List.map_take]
    · have hnot : ¬ S.isAnc s' e := by
        unfold Spec.isAnc
        rw [hanc]
        intro hm
        obtain ⟨x, hxm, hxh⟩ := List.mem_map.1 hm
        obtain ⟨j, hj, rfl⟩ := List.getElem_of_mem hxm
        have hxe : up[j] = sn.info := hinj _ _ (hu.mem _ hxm) hsni (by rw [hxh, hsh])
        have hnj := hu.nums j hj
        rw [hxe] at hnj
        have : j = en.info.number - sn.info.number := by omega
        subst this
        exact hx (by rw [hxe])
      simp [hx, hnot]

/-- **Range.** `Range` and `RangeInMemory` return the chain of parent links from the start block down to the end
    block when the start (for `Range`: the root if the start is unknown) is an ancestor of the end, and an error
    otherwise. -/
theorem C15_range (rh rn ra : Nat) (ops : List Op) (s e : Hash) :
    let bt := tree rh rn ra ops
    let S := spec rh rn ra ops
    bt.range s e = specRange S s e false ∧ bt.rangeInMemory s e = specRange S s e true := by
  intro bt S
  obtain ⟨hi, hsim⟩ := reach rh rn ra ops
  have eq := reachEq rh rn ra ops
  have hp : ∀ x, S.present x ↔ (findF x [bt.root]).isSome := fun x => by
    rw [eq.present, BT.spec, present_iff, findF_isSome]
  have hinfo : ∀ x, S.infoOf x = (findF x [bt.root]).map (·.info) := fun x => by
    rw [eq.infoOf, BT.spec, infoOf_eq hi.nodup]
  have hroot : findF bt.root.info.hash [bt.root] = some bt.root := by
    cases hr : bt.root with
    | mk i cs => simp [findF]
  have hSroot : S.root.hash = bt.root.info.hash := by rw [hsim.root]
  unfold BT.range BT.rangeInMemory specRange BT.getNode
  cases he : findF e [bt.root] with
  | none =>
    have : ¬ S.present e := by rw [hp, he]; simp
    simp [this]
  | some en =>
    have hpe : S.present e := by rw [hp, he]; rfl
    simp only [hpe, not_true_eq_false, if_false, Bool.false_eq_true, false_and]
    cases hs : findF s [bt.root] with
    | none =>
      have hps : ¬ S.present s := by rw [hp, hs]; simp
      simp only [hps, not_false_eq_true, and_true, if_true, Option.getD_none, if_false]
      rw [hSroot, hinfo, hinfo, hroot, he]
      simp only [Option.map_some]
      have := accumulate_spec rh rn ra ops bt.root.info.hash e bt.root en hroot he
      rw [this]
    | some sn =>
      have hps : S.present s := by rw [hp, hs]; rfl
      simp only [hps, not_true_eq_false, and_false, if_false, if_true, Option.getD_some]
      rw [hinfo, hinfo, hs, he]
      simp only [Option.map_some]
      have := accumulate_spec rh rn ra ops s e sn en hs he
      refine ⟨this, ?_⟩
      by_cases hgt : sn.info.number > en.info.number
      · simp [hgt]
      · simp only [hgt, if_false]; rw [this]; simp only [hgt, if_false]; rfl

end Gossamer.C15

namespace Gossamer.C15
open Gossamer.BlockTree

/-- **Lowest common ancestor.** For two held blocks `LowestCommonAncestor` never panics and returns a common
    ancestor (by parent links) below which every other common ancestor lies; an unknown block gives an error. -/
theorem C15_lca (rh rn ra : Nat) (ops : List Op) (a b : Hash) :
    let bt := tree rh rn ra ops
    let S := spec rh rn ra ops
    (¬ (S.present a ∧ S.present b) → bt.lca a b = .notFound) ∧
    (S.present a → S.present b → ∃ c, bt.lca a b = .ok c ∧ S.isAnc c a ∧ S.isAnc c b ∧
      ∀ x, S.isAnc x a → S.isAnc x b → S.isAnc x c) := by
  intro bt S
  obtain ⟨hi, hsim⟩ := reach rh rn ra ops
  have eq := reachEq rh rn ra ops
  have hp : ∀ x, S.present x ↔ x ∈ descF [bt.root] := fun x => by rw [eq.present, BT.spec, present_iff]
  have hanc : ∀ x d, d ∈ descF [bt.root] → (S.isAnc x d ↔ x ∈ (bt.up d).map Info.hash) := by
    intro x d hd
    unfold Spec.isAnc
    rw [eq.ancestors, BT.spec, ancestors_eq_up hi.nodup hd]; rfl
  unfold BT.lca BT.getNode
  constructor
  · intro hn
    cases ha : findF a [bt.root] with
    | none => rfl
    | some an =>
      cases hb : findF b [bt.root] with
      | none => rfl
      | some bn =>
        exfalso; apply hn
        exact ⟨(hp a).2 ((findF_isSome _).1 (by rw [ha]; rfl)), (hp b).2 ((findF_isSome _).1 (by rw [hb]; rfl))⟩
  · intro hpa hpb
    have ham := (hp a).1 hpa
    have hbm := (hp b).1 hpb
    cases ha : findF a [bt.root] with
    | none => exact absurd ham ((findF_none _).1 ha)
    | some an =>
      cases hb : findF b [bt.root] with
      | none => exact absurd hbm ((findF_none _).1 hb)
      | some bn =>
        simp only
        have h0a := up_head_info hi ha
        have h0b := up_head_info hi hb
        unfold lcaNodes
        by_cases hgt : an.info.number > bn.info.number
        · simp only [hgt, if_true]
          obtain ⟨c, hc, hca, hcb, hlow⟩ := lca_core hi ham hbm an.info.number bn.info.number
            (by rw [h0a]; rfl) (by rw [h0b]; rfl) (by omega)
          have hcm : c ∈ descF [bt.root] := by
            obtain ⟨v, hv, hvc⟩ := List.mem_map.1 hca
            have := (up_facts hi ham).mem v hv
            rw [descF_eq_map_infos]; exact List.mem_map.2 ⟨v, this, hvc⟩
          refine ⟨c, by rw [hc], (hanc c a ham).2 hca, (hanc c b hbm).2 hcb, ?_⟩
          intro x hxa hxb
          exact (hanc x c hcm).2 (hlow x ((hanc x a ham).1 hxa) ((hanc x b hbm).1 hxb))
        · simp only [hgt, if_false]
          obtain ⟨c, hc, hcb, hca, hlow⟩ := lca_core hi hbm ham bn.info.number an.info.number
            (by rw [h0b]; rfl) (by rw [h0a]; rfl) (by omega)
          have hcm : c ∈ descF [bt.root] := by
            obtain ⟨v, hv, hvc⟩ := List.mem_map.1 hca
            have := (up_facts hi ham).mem v hv
            rw [descF_eq_map_infos]; exact List.mem_map.2 ⟨v, this, hvc⟩
          refine ⟨c, by rw [hc], (hanc c a ham).2 hca, (hanc c b hbm).2 hcb, ?_⟩
          intro x hxa hxb
          exact (hanc x c hcm).2 (hlow x ((hanc x b hbm).1 hxb) ((hanc x a ham).1 hxa))

end Gossamer.C15

namespace Gossamer.C15
open Gossamer.BlockTree

/-- the fuel of `Spec.chain` is enough: more steps never find more blocks (reachable states) -/
theorem spec_chain_fuel (rh rn ra : Nat) (ops : List Op) (h : Hash) (fuel : Nat)
    (hf : (spec rh rn ra ops).blocks.length ≤ fuel) :
    chainAux (spec rh rn ra ops).blocks fuel h = (spec rh rn ra ops).chain h := by
  obtain ⟨hi, hsim⟩ := reach rh rn ra ops
  have eq := reachEq rh rn ra ops
  rw [eq.chain, chainAux_congr eq.lookup]
  rw [eq.length] at hf
  generalize tree rh rn ra ops = bt at *
  have hnd := hi.nodup
  unfold BT.spec at hf ⊢
  cases hr : bt.root with
  | mk i cs =>
    rw [hr] at hnd hf
    obtain ⟨hn, hroot⟩ := spec_nodup hnd
    simp only [specOfNode, Node.info_mk, Node.children_mk] at hf ⊢
    cases hq : pathF h cs with
    | none =>
      have : lookup (blocksF i.hash cs) h = none := by
        apply lookup_none.2; rw [blocksF_map_hash]; exact (pathF_none cs).1 hq
      rw [chainAux_none this]
      unfold Spec.chain
      rw [chainAux_none this]
    | some q =>
      have hlen : q.length ≤ (blocksF i.hash cs).length := by
        have := (pathF_shape cs q hq).2.1
        rw [← blocksF_map_hash cs i.hash] at this
        simpa using this
      have key : ∀ fuel, q.length ≤ fuel → chainAux (blocksF i.hash cs) fuel h = linkUp q i.hash := by
        intro fuel hfu
        rw [path_chain cs i.hash q (fun b hb => lookup_of_mem hn hb) hq fuel hfu,
          chainAux_none (lookup_none.2 hroot)]
        simp
      unfold Spec.chain
      rw [key fuel (by omega), key _ hlen]

/-! ### concrete histories (the statements above are not vacuous) -/

/-- root 10 (number 0); blocks 11, 12, 13 under the root, 14 under 12 -/
def exampleOps : List Op :=
  [.add ⟨11, 10, 1, some true⟩ 0, .add ⟨12, 10, 1, some false⟩ 0, .add ⟨13, 10, 1, some true⟩ 1,
   .add ⟨14, 12, 2, some false⟩ 2]

/-- the tree they build (children in insertion order) and its leaf map -/
def exampleTree : BT :=
  ⟨.mk ⟨10, 0, 0, false⟩ [.mk ⟨11, 1, 0, true⟩ [], .mk ⟨12, 1, 0, false⟩ [.mk ⟨14, 2, 2, false⟩ []],
      .mk ⟨13, 1, 1, true⟩ []],
   [⟨11, 1, 0, true⟩, ⟨13, 1, 1, true⟩, ⟨14, 2, 2, false⟩]⟩

theorem exampleTree_eq : tree 10 0 0 exampleOps = exampleTree := by
  simp [tree, exampleOps, exampleTree, run, step, NewBlockTreeFromRoot, BT.addBlock, BT.getNode, findF,
    Node.addChild, addChildF, occF, leafReplace, leafStore, leafDelete]

example : exampleTree.getAllBlocks = [10, 11, 12, 14, 13] := by simp [exampleTree, BT.getAllBlocks, descF]
/-- the history that exposed the sibling-skipping defect: finalising 13 reports 11, 12 and 14 -/
example : (exampleTree.prune 13).2 = [11, 12, 14] := by
  simp [exampleTree, BT.prune, BT.getNode, findF, pruneF, occF]
example : (exampleTree.prune 12).2 = [11, 13] := by
  simp [exampleTree, BT.prune, BT.getNode, findF, pruneF, occF]
example : exampleTree.isDescendantOf 12 14 = .ok true := by
  simp [exampleTree, BT.isDescendantOf, BT.getNode, findF, occF]
example : exampleTree.isDescendantOf 11 14 = .ok false := by
  simp [exampleTree, BT.isDescendantOf, BT.getNode, findF, occF]
example : exampleTree.lca 11 14 = .ok 10 := by
  simp [exampleTree, BT.lca, BT.getNode, BT.up, findF, pathF, lcaNodes, lcaAligned, lcaWalk]
example : exampleTree.range 10 14 = .ok [10, 12, 14] := by
  simp [exampleTree, BT.range, BT.getNode, BT.up, findF, pathF, accumulate]
/-- a start that is not an ancestor of the end is refused (repaired code) -/
example : exampleTree.range 11 14 = .error .notAncestor := by
  simp [exampleTree, BT.range, BT.getNode, BT.up, findF, pathF, accumulate]
/-- numbers above the best leaf (11, number 1) are still reported (repaired code) -/
example : exampleTree.getHashesAtNumber 2 = [14] := by
  simp [exampleTree, BT.getHashesAtNumber, hashesAtF]
/-- an unknown parent is refused and the tree is unchanged -/
example : exampleTree.addBlock ⟨15, 99, 1, some true⟩ 0 = .error .parentNotFound := by
  simp [exampleTree, BT.addBlock, BT.getNode, findF]

end Gossamer.C15
