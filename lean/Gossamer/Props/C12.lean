/-
C12  SCALE decoding rejects malformed input safely.
-/
import Gossamer.Model.C12
namespace Gossamer.C12
open Gossamer Gossamer.Scale

/-- canonical decoder: a successful decode consumed exactly the canonical encoding of its result -/
theorem C12_spec_sound (t : Ty) (hwf : t.wf = true) (bs : Bytes) (v : Val) (r : Bytes)
    (h : decode Spec.codec t bs = some (v, r)) : wt t v = true ∧ bs = encode Spec.codec t v ++ r :=
  Spec.sound t hwf bs v r h

end Gossamer.C12
