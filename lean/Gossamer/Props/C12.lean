/-
C12  SCALE decoding rejects malformed input safely.

Model: `C12.decodeA` (Model/C12.lean): the walk of `decodeState.unmarshal` with its result, the
largest read buffer it allocated (`req`) and whether a short read was zero-filled (`zf`).
Spec: `decode Spec.codec`, the canonical SCALE decoder (rejects truncated input, non-canonical
compact integers, bad tags), proved sound and truncation-safe in Lib/Scale.

  C12_decodeA_res             decodeA's result is `Unmarshal` (`decode C11.codec`)
  C12_refines                 no zero-filled read  ⇒  every Go success is the canonical decoder's
                              success with the same value and rest; a zero-filled read ⇒ the
                              canonical decoder rejects the input
  C12_decode_sound_partial    (zf = false) success ⇒ input = canonical encoding of the value ++ rest
  C12_truncated_partial       (zf = false) strict prefixes of canonical encodings fail
  C12_noncanonical_rejected   (zf = false) only one byte string decodes to a given (value, rest)
  C12_*_counterexample        the zero-filled read is real (known finding bytes-short-read)
  C12_alloc_bounded_partial   types without byte strings: no read buffer above 67 bytes
  C12_alloc_ok_bounded        successful, not zero-filled decodes: no buffer above max 67 |input|
  C12_alloc_bounded_counterexample   4 input bytes allocate 2^30-1 (known finding bytes-alloc)
  C12_no_panic                the model's buffer indexing is always in range
-/
import Gossamer.Props.C11
namespace Gossamer.C12
open Gossamer Gossamer.Scale

/-! ## the instrumented walk computes `Unmarshal` -/

theorem decNA_res (f : Bytes → DRes) (n : Nat) (bs : Bytes) :
    (decNA f n bs).res = decN (fun b => (f b).res) n bs := by
  induction n generalizing bs with
  | zero => rfl
  | succ n ih =>
    simp only [decNA, decN]
    cases hf : (f bs).res with
    | none => rfl
    | some p =>
      obtain ⟨v, r⟩ := p
      simp only
      rw [ih r]
      cases decN (fun b => (f b).res) n r with
      | none => rfl
      | some q => rfl

theorem decN_congr (f g : Bytes → Option (Val × Bytes)) (h : ∀ b, f b = g b) (n : Nat) (bs : Bytes) :
    decN f n bs = decN g n bs := by
  have : f = g := funext h
  rw [this]

/-- the instrumented decoder returns exactly what `Unmarshal` (`decode C11.codec`) returns -/
theorem C12_decodeA_res (t : Ty) : ∀ bs, (decodeA t bs).res = decode C11.codec t bs := by
  induction t with
  | prim p => intro bs; rfl
  | unit => intro bs; rfl
  | pair a b iha ihb =>
    intro bs
    simp only [decodeA, decode]
    rw [← iha bs]
    cases h1 : (decodeA a bs).res with
    | none => rfl
    | some p =>
      obtain ⟨x, r⟩ := p
      simp only
      rw [← ihb r]
      cases (decodeA b r).res with
      | none => rfl
      | some q => rfl
  | option t ih =>
    intro bs
    cases bs with
    | nil => rfl
    | cons tag r =>
      simp only [decodeA, decode]
      by_cases h0 : tag = 0
      · simp [h0]
      · by_cases h1 : tag = 1
        · simp only [h0, h1, if_false, if_true]
          rw [← ih r]
          cases (decodeA t r).res with
          | none => rfl
          | some q => rfl
        · simp [h0, h1]
  | result a b iha ihb =>
    intro bs
    cases bs with
    | nil => rfl
    | cons tag r =>
      simp only [decodeA, decode]
      by_cases h0 : tag = 0
      · simp only [h0, if_true]
        rw [← iha r]
        cases (decodeA a r).res with
        | none => rfl
        | some q => rfl
      · by_cases h1 : tag = 1
        · simp only [h0, h1, if_false, if_true]
          rw [← ihb r]
          cases (decodeA b r).res with
          | none => rfl
          | some q => rfl
        · simp [h0, h1]
  | array n t ih =>
    intro bs
    simp only [decodeA, decode]
    rw [decNA_res, decN_congr _ _ ih]
    cases decN (decode C11.codec t) n bs with
    | none => rfl
    | some q => rfl
  | seq t ih =>
    intro bs
    simp only [decodeA, decode]
    show _ = match C11.decodeUintV bs with
      | none => none
      | some (n, r) => _
    cases C11.decodeUintV bs with
    | none => rfl
    | some q =>
      obtain ⟨n, r⟩ := q
      simp only
      rw [decNA_res, decN_congr _ _ ih]
      cases decN (decode C11.codec t) n r with
      | none => rfl
      | some q => rfl
  | enumNil => intro bs; rfl
  | enumCons i t rest iht ihr =>
    intro bs
    cases bs with
    | nil => rfl
    | cons tag r =>
      simp only [decodeA, decode]
      by_cases ht : tag.toNat = i
      · simp only [ht, if_true]
        rw [← iht r]
        cases (decodeA t r).res with
        | none => rfl
        | some q => rfl
      · simp only [ht, if_false]
        exact ihr (tag :: r)

/-! ## the Go decoder against the canonical decoder -/

/-- outcome `(res, zf)` of the Go decoder against the canonical outcome `spec`:
    without a zero-filled read every success is the canonical success; with one, the canonical
    decoder rejects -/
def Refines {α : Type} (res : Option α) (zf : Bool) (spec : Option α) : Prop :=
  (zf = false → ∀ x, res = some x → spec = some x) ∧ (zf = true → spec = none)

theorem goFilter_some (p : Prim) (o : Option (Val × Bytes)) (x : Val × Bytes)
    (h : C11.goFilter p o = some x) : o = some x := by
  cases p <;> simp only [C11.goFilter] at h <;> try exact h
  -- compact
  cases o with
  | none => simp [C11.goFilter] at h
  | some q =>
    obtain ⟨v, r⟩ := q
    cases v <;> simp only [C11.goFilter] at h <;> try exact h
    rename_i n
    by_cases hok : C11.uintOk n = true
    · simpa [hok] using h
    · simp [hok] at h

theorem prim_refines (p : Prim) (bs : Bytes) :
    Refines (C11.decPA p bs).res (C11.decPA p bs).zf (Spec.decKind p.kind bs) := by
  have ⟨h1, h2⟩ := C11.decPA_spec p bs
  refine ⟨fun hz x hx => ?_, h2⟩
  rw [h1 hz] at hx
  exact goFilter_some p _ x hx

theorem filt_some (o : Option (Nat × Bytes)) (x : Nat × Bytes) (h : C11.filt o = some x) : o = some x := by
  cases o with
  | none => simp [C11.filt] at h
  | some q =>
    obtain ⟨n, r⟩ := q
    by_cases hok : C11.uintOk n = true
    · simpa [C11.filt, hok] using h
    · simp [C11.filt, hok] at h

/-- `decodeLength`: a success is a canonical length below 2^64 -/
theorem len_refines (bs : Bytes) (n : Nat) (r : Bytes) (h : C11.decodeUintV bs = some (n, r)) :
    Spec.decLen bs = some (n, r) := by
  rw [C11.decodeUint_spec] at h
  have hc := filt_some _ _ h
  have hok : C11.uintOk n = true := by
    rw [hc] at h
    by_cases hok : C11.uintOk n = true
    · exact hok
    · simp [C11.filt, hok] at h
  have hlt := C11.uintOk_lt hok
  have : n < maxSeqLen := by rw [C11.maxSeqLen_eq, C11.pow2_64, ← C11.pow256_8]; exact hlt
  simp [Spec.decLen, hc, this]

theorem decNA_refines (f : Bytes → DRes) (g : Bytes → Option (Val × Bytes))
    (h : ∀ bs, Refines (f bs).res (f bs).zf (g bs)) :
    ∀ n bs, Refines (decNA f n bs).res (decNA f n bs).zf (decN g n bs) := by
  intro n
  induction n with
  | zero =>
    intro bs
    refine ⟨fun _ x hx => ?_, fun hz => ?_⟩
    · simpa [decNA, decN] using hx
    · simp [decNA] at hz
  | succ n ih =>
    intro bs
    have hb := h bs
    simp only [decNA, decN]
    cases ho : (f bs).res with
    | none =>
      refine ⟨fun _ x hx => by simp at hx, fun hz => ?_⟩
      try simp only at hz
      rw [hb.2 hz]
    | some p =>
      obtain ⟨v, r⟩ := p
      have hr := ih r
      simp only
      refine ⟨fun hz x hx => ?_, fun hz => ?_⟩
      · simp only [Bool.or_eq_false_iff] at hz
        rw [hb.1 hz.1 _ ho]
        simp only
        cases hl : (decNA f n r).res with
        | none => simp [hl] at hx
        | some q =>
          obtain ⟨vs, r'⟩ := q
          simp only [hl, Option.map_some, Option.some.injEq] at hx
          rw [hr.1 hz.2 _ hl]
          simp [← hx]
      · simp only [Bool.or_eq_true] at hz
        cases hzf : (f bs).zf with
        | true => rw [hb.2 hzf]
        | false =>
          rw [hb.1 hzf _ ho]
          simp only
          have : (decNA f n r).zf = true := by
            rcases hz with hz | hz
            · rw [hzf] at hz; cases hz
            · exact hz
          rw [hr.2 this]

/-- **Refinement**: for every type and every input, without a zero-filled read each success of the
    Go decoder is the success of the canonical decoder (same value, same rest); with a zero-filled
    read the canonical decoder rejects the input. -/
theorem C12_refines (t : Ty) :
    ∀ bs, Refines (decodeA t bs).res (decodeA t bs).zf (decode Spec.codec t bs) := by
  induction t with
  | prim p => intro bs; exact prim_refines p bs
  | unit =>
    intro bs
    refine ⟨fun _ x hx => ?_, fun hz => ?_⟩
    · simpa [decodeA, decode] using hx
    · simp [decodeA] at hz
  | pair a b iha ihb =>
    intro bs
    have ha := iha bs
    simp only [decodeA, decode]
    cases ho : (decodeA a bs).res with
    | none =>
      refine ⟨fun _ x hx => by simp at hx, fun hz => ?_⟩
      try simp only at hz
      rw [ha.2 hz]
    | some p =>
      obtain ⟨x, r⟩ := p
      have hb := ihb r
      simp only
      refine ⟨fun hz y hy => ?_, fun hz => ?_⟩
      · simp only [Bool.or_eq_false_iff] at hz
        rw [ha.1 hz.1 _ ho]
        simp only
        cases hl : (decodeA b r).res with
        | none => simp [hl] at hy
        | some q =>
          obtain ⟨w, r'⟩ := q
          simp only [hl, Option.map_some, Option.some.injEq] at hy
          rw [hb.1 hz.2 _ hl]
          simp [← hy]
      · simp only [Bool.or_eq_true] at hz
        cases hzf : (decodeA a bs).zf with
        | true => rw [ha.2 hzf]
        | false =>
          rw [ha.1 hzf _ ho]
          simp only
          have : (decodeA b r).zf = true := by
            rcases hz with hz | hz
            · rw [hzf] at hz; cases hz
            · exact hz
          rw [hb.2 this]
  | option t ih =>
    intro bs
    cases bs with
    | nil =>
      refine ⟨fun _ x hx => by simp [decodeA] at hx, fun hz => by simp [decodeA] at hz⟩
    | cons tag r =>
      simp only [decodeA, decode]
      by_cases h0 : tag = 0
      · simp only [h0, if_true]
        refine ⟨fun _ x hx => by simpa using hx, fun hz => by simp at hz⟩
      · by_cases h1 : tag = 1
        · subst h1
          have h10 : ¬ ((1:UInt8) = 0) := by decide
          simp only [h10, if_false, if_true]
          have hr := ih r
          refine ⟨fun hz y hy => ?_, fun hz => ?_⟩
          · try simp only at hz
            cases hl : (decodeA t r).res with
            | none => simp [hl] at hy
            | some q =>
              obtain ⟨w, r'⟩ := q
              simp only [hl, Option.map_some, Option.some.injEq] at hy
              rw [hr.1 hz _ hl]
              simp [← hy]
          · try simp only at hz
            rw [hr.2 hz]
        · simp only [h0, h1, if_false]
          refine ⟨fun _ x hx => by simp at hx, fun hz => by simp at hz⟩
  | result a b iha ihb =>
    intro bs
    cases bs with
    | nil =>
      refine ⟨fun _ x hx => by simp [decodeA] at hx, fun hz => by simp [decodeA] at hz⟩
    | cons tag r =>
      simp only [decodeA, decode]
      by_cases h0 : tag = 0
      · simp only [h0, if_true]
        have hr := iha r
        refine ⟨fun hz y hy => ?_, fun hz => ?_⟩
        · try simp only at hz
          cases hl : (decodeA a r).res with
          | none => simp [hl] at hy
          | some q =>
            obtain ⟨w, r'⟩ := q
            simp only [hl, Option.map_some, Option.some.injEq] at hy
            rw [hr.1 hz _ hl]
            simp [← hy]
        · try simp only at hz
          rw [hr.2 hz]
      · by_cases h1 : tag = 1
        · subst h1
          have h10 : ¬ ((1:UInt8) = 0) := by decide
          simp only [h10, if_false, if_true]
          have hr := ihb r
          refine ⟨fun hz y hy => ?_, fun hz => ?_⟩
          · try simp only at hz
            cases hl : (decodeA b r).res with
            | none => simp [hl] at hy
            | some q =>
              obtain ⟨w, r'⟩ := q
              simp only [hl, Option.map_some, Option.some.injEq] at hy
              rw [hr.1 hz _ hl]
              simp [← hy]
          · try simp only at hz
            rw [hr.2 hz]
        · simp only [h0, h1, if_false]
          refine ⟨fun _ x hx => by simp at hx, fun hz => by simp at hz⟩
  | array n t ih =>
    intro bs
    have hl := decNA_refines (decodeA t) (decode Spec.codec t) ih n bs
    simp only [decodeA, decode]
    refine ⟨fun hz y hy => ?_, fun hz => ?_⟩
    · try simp only at hz
      cases hr : (decNA (decodeA t) n bs).res with
      | none => simp [hr] at hy
      | some q =>
        obtain ⟨vs, r'⟩ := q
        simp only [hr, Option.map_some, Option.some.injEq] at hy
        rw [hl.1 hz _ hr]
        simp [← hy]
    · try simp only at hz
      rw [hl.2 hz]
  | seq t ih =>
    intro bs
    simp only [decodeA, decode]
    show Refines _ _ (match Spec.decLen bs with
      | none => none
      | some (n, r) => _)
    cases hu : C11.decodeUintV bs with
    | none =>
      refine ⟨fun _ x hx => by simp at hx, fun hz => by simp at hz⟩
    | some q =>
      obtain ⟨n, r⟩ := q
      have hlen := len_refines bs n r hu
      rw [hlen]
      have hl := decNA_refines (decodeA t) (decode Spec.codec t) ih n r
      simp only
      refine ⟨fun hz y hy => ?_, fun hz => ?_⟩
      · try simp only at hz
        cases hr : (decNA (decodeA t) n r).res with
        | none => simp [hr] at hy
        | some q =>
          obtain ⟨vs, r'⟩ := q
          simp only [hr, Option.map_some, Option.some.injEq] at hy
          rw [hl.1 hz _ hr]
          simp [← hy]
      · try simp only at hz
        rw [hl.2 hz]
  | enumNil =>
    intro bs
    refine ⟨fun _ x hx => by simp [decodeA] at hx, fun hz => by simp [decodeA] at hz⟩
  | enumCons i t rest iht ihr =>
    intro bs
    cases bs with
    | nil =>
      refine ⟨fun _ x hx => by simp [decodeA] at hx, fun hz => by simp [decodeA] at hz⟩
    | cons tag r =>
      simp only [decodeA, decode]
      by_cases ht : tag.toNat = i
      · simp only [ht, if_true]
        have hr := iht r
        refine ⟨fun hz y hy => ?_, fun hz => ?_⟩
        · try simp only at hz
          cases hl : (decodeA t r).res with
          | none => simp [hl] at hy
          | some q =>
            obtain ⟨w, r'⟩ := q
            simp only [hl, Option.map_some, Option.some.injEq] at hy
            rw [hr.1 hz _ hl]
            simp [← hy]
        · try simp only at hz
          rw [hr.2 hz]
      · simp only [ht, if_false]
        exact ihr (tag :: r)


/-! ## the property statements -/

/-- **Soundness** (partial: known finding bytes-short-read).  Full statement wanted: every
    successful decode consumed exactly the canonical encoding of its result.  It holds whenever no
    short read was zero-filled (`zf = false`). -/
theorem C12_decode_sound_partial (t : Ty) (hwf : t.wf = true) (bs : Bytes) (v : Val) (r : Bytes)
    (hz : (decodeA t bs).zf = false) (h : (decodeA t bs).res = some (v, r)) :
    wt t v = true ∧ bs = encode Spec.codec t v ++ r :=
  Spec.sound t hwf bs v r ((C12_refines t bs).1 hz _ h)

/-- the same for `Unmarshal` itself -/
theorem C12_unmarshal_sound_partial (t : Ty) (hwf : t.wf = true) (bs : Bytes) (v : Val) (r : Bytes)
    (hz : (decodeA t bs).zf = false) (h : C11.unmarshal t bs = some (v, r)) :
    wt t v = true ∧ bs = encode Spec.codec t v ++ r :=
  C12_decode_sound_partial t hwf bs v r hz (by rw [C12_decodeA_res]; exact h)

/-- **Truncation** (partial): a strict prefix of a canonical encoding is rejected, unless the
    decoder zero-filled a short read of a byte string. -/
theorem C12_truncated_partial (t : Ty) (hwf : t.wf = true) (v : Val) (p s : Bytes)
    (hw : wt t v = true) (he : encode Spec.codec t v = p ++ s) (hs : s ≠ [])
    (hz : (decodeA t p).zf = false) : (decodeA t p).res = none := by
  cases h : (decodeA t p).res with
  | none => rfl
  | some x =>
    have := (C12_refines t p).1 hz x h
    rw [Spec.truncated t hwf v p s hw he hs] at this
    cases this

/-- **Non-canonical input is rejected** (partial): two inputs that decode (without zero fill) to
    the same value and the same rest are the same byte string. -/
theorem C12_noncanonical_rejected (t : Ty) (hwf : t.wf = true) (bs bs' : Bytes) (v : Val) (r : Bytes)
    (hz : (decodeA t bs).zf = false) (h : (decodeA t bs).res = some (v, r))
    (hz' : (decodeA t bs').zf = false) (h' : (decodeA t bs').res = some (v, r)) : bs = bs' := by
  rw [(C12_decode_sound_partial t hwf bs v r hz h).2, (C12_decode_sound_partial t hwf bs' v r hz' h').2]

/-- a zero-filled read is exactly where the canonical decoder rejects -/
theorem C12_zero_fill_is_malformed (t : Ty) (bs : Bytes) (hz : (decodeA t bs).zf = true) :
    decode Spec.codec t bs = none := (C12_refines t bs).2 hz

/-- the excluded region is real: `10 01 02` declares 4 bytes and carries 2; the Go decoder
    succeeds, consumes everything and returns the zero-filled `01 02 00 00`, whose encoding
    `10 01 02 00 00` is not the input; the input is a strict prefix of the encoding of `01 02 03 04` -/
theorem C12_decode_sound_counterexample :
    (decodeA (.prim .bytes) [0x10, 1, 2]).zf = true ∧
    (decodeA (.prim .bytes) [0x10, 1, 2]).res.map (fun p => encode Spec.codec (.prim .bytes) p.1 ++ p.2)
      = some [0x10, 1, 2, 0, 0] ∧
    encode Spec.codec (.prim .bytes) (.bytes [1, 2, 3, 4]) = [0x10, 1, 2] ++ [3, 4] := by
  refine ⟨by decide, by decide, by decide⟩

/-- non-vacuity of the hypotheses: a non-trivial successful decode without zero fill -/
example : (decodeA (.pair (.prim .bytes) (.pair (.prim .compact) .unit)) [0x08, 7, 9, 0x01, 0x01, 5]).zf = false ∧
    (decodeA (.pair (.prim .bytes) (.pair (.prim .compact) .unit)) [0x08, 7, 9, 0x01, 0x01, 5]).res.isSome = true ∧
    Ty.wf (.pair (.prim .bytes) (.pair (.prim .compact) .unit)) = true := by
  refine ⟨by decide, by decide, by decide⟩

/-! ## no panic -/

/-- **No panic**: every buffer the decoder indexes or hands to `binary.LittleEndian.UintN` was
    filled by `io.ReadFull` to exactly the size it was made with, so `buf[byteLen-1]`
    (`decodeBigInt`) and the fixed-size reads are always in range; the model is a total function
    of (type, input).  (Panics of the reflect walk itself are observed by the harness only.) -/
theorem C12_no_panic (k : Nat) (bs buf r : Bytes) (h : C11.readFull k bs = some (buf, r)) :
    buf.length = k ∧ bs = buf ++ r ∧ (0 < k → buf.getLast?.isSome = true) := by
  unfold C11.readFull at h
  by_cases hl : bs.length < k
  · simp [hl] at h
  · simp only [hl, if_false, Option.some.injEq, Prod.mk.injEq] at h
    obtain ⟨h1, h2⟩ := h
    subst h1; subst h2
    have hlen : (bs.take k).length = k := by simp; omega
    refine ⟨hlen, by simp, fun hk => ?_⟩
    cases hb : bs.take k with
    | nil => rw [hb] at hlen; simp at hlen; omega
    | cons x xs => simp


/-! ## allocation -/

/-- no byte string / string anywhere in the type -/
def noBytes : Ty → Bool
  | .prim .bytes => false
  | .prim .str => false
  | .prim _ => true
  | .unit => true
  | .pair a b => noBytes a && noBytes b
  | .option t => noBytes t
  | .result a b => noBytes a && noBytes b
  | .array _ t => noBytes t
  | .seq t => noBytes t
  | .enumNil => true
  | .enumCons _ t rest => noBytes t && noBytes rest

theorem decodeUintReq_le (bs : Bytes) : C11.decodeUintReq bs ≤ 8 := by
  cases bs with
  | nil => simp [C11.decodeUintReq]
  | cons b r =>
    simp only [C11.decodeUintReq]
    split
    · omega
    · split
      · split <;> omega
      · omega

theorem decBigReq_le (bs : Bytes) : C11.decBigReq bs ≤ 67 := by
  cases bs with
  | nil => simp [C11.decBigReq]
  | cons b r =>
    have := b.toNat_lt
    simp only [C11.decBigReq]
    split
    · omega
    · split <;> omega

theorem decFixed_req (w : Nat) (s : Bool) (bs : Bytes) : (C11.decFixed w s bs).req = w := by
  unfold C11.decFixed
  cases C11.readFull w bs with
  | none => rfl
  | some p => rfl

theorem prim_req_le (p : Prim) (bs : Bytes) (h : noBytes (.prim p) = true) :
    (C11.decPA p bs).req ≤ 67 := by
  cases p <;> simp only [noBytes, Bool.false_eq_true] at h <;> simp only [C11.decPA]
  case u8 => rw [decFixed_req]; omega
  case u16 => rw [decFixed_req]; omega
  case u32 => rw [decFixed_req]; omega
  case u64 => rw [decFixed_req]; omega
  case u128 => rw [decFixed_req]; omega
  case i8 => rw [decFixed_req]; omega
  case i16 => rw [decFixed_req]; omega
  case i32 => rw [decFixed_req]; omega
  case i64 => rw [decFixed_req]; omega
  case compact =>
    have := decodeUintReq_le bs
    unfold C11.decCompact
    cases C11.decodeUintV bs with
    | none => simp [C11.PRes.fail]; omega
    | some q => simp [C11.PRes.ok]; omega
  case big =>
    have := decBigReq_le bs
    unfold C11.decBig
    cases C11.decBigV bs with
    | none => simp [C11.PRes.fail]; omega
    | some q => simp [C11.PRes.ok]; omega
  case bool =>
    cases bs with
    | nil => simp [C11.decBool, C11.PRes.fail]
    | cons b r =>
      simp only [C11.decBool]
      split
      · simp [C11.PRes.ok]
      · split <;> simp [C11.PRes.ok, C11.PRes.fail]

theorem decNA_req_le (f : Bytes → DRes) (k : Nat) (h : ∀ bs, (f bs).req ≤ k) :
    ∀ n bs, (decNA f n bs).req ≤ k := by
  intro n
  induction n with
  | zero => intro bs; simp [decNA]
  | succ n ih =>
    intro bs
    simp only [decNA]
    cases ho : (f bs).res with
    | none => exact h bs
    | some p =>
      obtain ⟨v, r⟩ := p
      simp only
      exact Nat.max_le.2 ⟨h bs, ih r⟩

/-- **Allocation** (partial: known finding bytes-alloc).  Full statement wanted: the decoder never
    allocates a read buffer larger than a constant plus the input.  For every type without byte
    strings, on every input, no buffer exceeds 67 bytes. -/
theorem C12_alloc_bounded_partial (t : Ty) (h : noBytes t = true) :
    ∀ bs, (decodeA t bs).req ≤ 67 := by
  induction t with
  | prim p => intro bs; exact prim_req_le p bs h
  | unit => intro bs; simp [decodeA]
  | pair a b iha ihb =>
    simp only [noBytes, Bool.and_eq_true] at h
    intro bs
    simp only [decodeA]
    cases ho : (decodeA a bs).res with
    | none => exact iha h.1 bs
    | some p =>
      obtain ⟨x, r⟩ := p
      exact Nat.max_le.2 ⟨iha h.1 bs, ihb h.2 r⟩
  | option t ih =>
    simp only [noBytes] at h
    intro bs
    cases bs with
    | nil => simp [decodeA]
    | cons tag r =>
      simp only [decodeA]
      split
      · simp
      · split
        · exact Nat.max_le.2 ⟨by omega, ih h r⟩
        · simp
  | result a b iha ihb =>
    simp only [noBytes, Bool.and_eq_true] at h
    intro bs
    cases bs with
    | nil => simp [decodeA]
    | cons tag r =>
      simp only [decodeA]
      split
      · exact Nat.max_le.2 ⟨by omega, iha h.1 r⟩
      · split
        · exact Nat.max_le.2 ⟨by omega, ihb h.2 r⟩
        · simp
  | array n t ih =>
    simp only [noBytes] at h
    intro bs
    simp only [decodeA]
    exact decNA_req_le _ 67 (ih h) n bs
  | seq t ih =>
    simp only [noBytes] at h
    intro bs
    have hq := decodeUintReq_le bs
    simp only [decodeA]
    cases hu : C11.decodeUintV bs with
    | none => simp only; omega
    | some q =>
      obtain ⟨n, r⟩ := q
      simp only
      exact Nat.max_le.2 ⟨by omega, decNA_req_le _ 67 (ih h) n r⟩
  | enumNil => intro bs; simp [decodeA]
  | enumCons i t rest iht ihr =>
    simp only [noBytes, Bool.and_eq_true] at h
    intro bs
    cases bs with
    | nil => simp [decodeA]
    | cons tag r =>
      simp only [decodeA]
      split
      · exact Nat.max_le.2 ⟨by omega, iht h.1 r⟩
      · exact ihr h.2 (tag :: r)


/-! ### honest successes allocate no more than they read -/

/-- a successful decode without zero fill allocated no buffer above `max 67 |input|`, and its
    rest is no longer than the input -/
def OkBound (res : Option (Val × Bytes)) (req : Nat) (zf : Bool) (bs : Bytes) : Prop :=
  zf = false → ∀ v r, res = some (v, r) → req ≤ max 67 bs.length ∧ r.length ≤ bs.length

def OkBoundL (res : Option (List Val × Bytes)) (req : Nat) (zf : Bool) (bs : Bytes) : Prop :=
  zf = false → ∀ vs r, res = some (vs, r) → req ≤ max 67 bs.length ∧ r.length ≤ bs.length

theorem decodeUintV_suffix (bs : Bytes) (n : Nat) (r : Bytes) (h : C11.decodeUintV bs = some (n, r)) :
    r.length < bs.length := by
  rw [C11.decodeUint_spec] at h
  have hc := filt_some _ _ h
  have hs := (compactDec_sound hc).2
  have hne := compactEnc_ne_nil n
  rw [hs, List.length_append]
  have : 0 < (compactEnc n).length := List.length_pos_iff.2 hne
  omega

theorem decBytes_okBound (bs : Bytes) :
    OkBound (C11.decBytes bs).res (C11.decBytes bs).req (C11.decBytes bs).zf bs := by
  intro hz v r' h
  have hq := decodeUintReq_le bs
  unfold C11.decBytes at hz h ⊢
  cases hu : C11.decodeUintV bs with
  | none => simp [hu, C11.PRes.fail] at h
  | some q =>
    obtain ⟨len, r⟩ := q
    have hs := decodeUintV_suffix bs len r hu
    simp only [hu] at hz h ⊢
    by_cases hbig : len > 4294967295
    · simp [hbig, C11.PRes.fail] at h
    · simp only [hbig, if_false] at hz h ⊢
      by_cases h0 : len = 0
      · simp only [h0, if_true, C11.PRes.ok, Option.some.injEq, Prod.mk.injEq] at h ⊢
        obtain ⟨_, hr⟩ := h
        subst hr
        exact ⟨by omega, by omega⟩
      · simp only [h0, if_false] at hz h ⊢
        cases r with
        | nil => simp [C11.PRes.fail] at h
        | cons x xs =>
          simp only [List.isEmpty_cons, Bool.false_eq_true, if_false, C11.PRes.ok,
            decide_eq_false_iff_not, Option.some.injEq, Prod.mk.injEq] at hz h ⊢
          obtain ⟨_, hr⟩ := h
          subst hr
          refine ⟨Nat.max_le.2 ⟨by omega, by omega⟩, ?_⟩
          simp only [List.length_drop]; omega

theorem readFull_suffix (k : Nat) (bs buf r : Bytes) (h : C11.readFull k bs = some (buf, r)) :
    r.length ≤ bs.length := by
  have := (C12_no_panic k bs buf r h).2.1
  rw [this]; simp

theorem prim_okBound (p : Prim) (bs : Bytes) :
    OkBound (C11.decPA p bs).res (C11.decPA p bs).req (C11.decPA p bs).zf bs := by
  by_cases hb : noBytes (.prim p) = true
  · intro hz v r h
    refine ⟨Nat.le_trans (prim_req_le p bs hb) (Nat.le_max_left _ _), ?_⟩
    -- the rest is a suffix: via the canonical decoder
    have ⟨h1, _⟩ := C11.decPA_spec p bs
    rw [h1 hz] at h
    have hs := goFilter_some p _ _ h
    have := (Spec.snd.sndP p bs v r hs).2
    rw [this]; simp
  · cases p <;> simp [noBytes] at hb
    · exact decBytes_okBound bs
    · exact decBytes_okBound bs

theorem decNA_okBound (f : Bytes → DRes) (h : ∀ bs, OkBound (f bs).res (f bs).req (f bs).zf bs) :
    ∀ n bs, OkBoundL (decNA f n bs).res (decNA f n bs).req (decNA f n bs).zf bs := by
  intro n
  induction n with
  | zero =>
    intro bs _ vs r hr
    simp only [decNA, Option.some.injEq, Prod.mk.injEq] at hr ⊢
    obtain ⟨_, h2⟩ := hr
    subst h2
    exact ⟨by omega, Nat.le_refl _⟩
  | succ n ih =>
    intro bs hz vs r' hr
    simp only [decNA] at hz hr ⊢
    cases ho : (f bs).res with
    | none => simp [ho] at hr
    | some p =>
      obtain ⟨v, r⟩ := p
      simp only [ho, Bool.or_eq_false_iff] at hz hr ⊢
      cases hl : (decNA f n r).res with
      | none => simp [hl] at hr
      | some q =>
        obtain ⟨ws, r2⟩ := q
        simp only [hl, Option.map_some, Option.some.injEq, Prod.mk.injEq] at hr
        obtain ⟨_, hr2⟩ := hr
        subst hr2
        have ⟨a1, a2⟩ := h bs hz.1 v r ho
        have ⟨b1, b2⟩ := ih r hz.2 ws r2 hl
        exact ⟨Nat.max_le.2 ⟨a1, by omega⟩, by omega⟩

/-- **Allocation of honest successes**: a decode that succeeds without a zero-filled read
    allocated no read buffer larger than `max 67 |input|` (and its rest is a suffix). -/
theorem C12_alloc_ok_bounded (t : Ty) :
    ∀ bs, OkBound (decodeA t bs).res (decodeA t bs).req (decodeA t bs).zf bs := by
  induction t with
  | prim p => intro bs; exact prim_okBound p bs
  | unit =>
    intro bs _ v r h
    simp only [decodeA, Option.some.injEq, Prod.mk.injEq] at h ⊢
    obtain ⟨_, h2⟩ := h; subst h2
    exact ⟨by omega, Nat.le_refl _⟩
  | pair a b iha ihb =>
    intro bs hz v r' hr
    simp only [decodeA] at hz hr ⊢
    cases ho : (decodeA a bs).res with
    | none => simp [ho] at hr
    | some p =>
      obtain ⟨x, r⟩ := p
      simp only [ho, Bool.or_eq_false_iff] at hz hr ⊢
      cases hl : (decodeA b r).res with
      | none => simp [hl] at hr
      | some q =>
        obtain ⟨y, r2⟩ := q
        simp only [hl, Option.map_some, Option.some.injEq, Prod.mk.injEq] at hr
        obtain ⟨_, hr2⟩ := hr
        subst hr2
        have ⟨a1, a2⟩ := iha bs hz.1 x r ho
        have ⟨b1, b2⟩ := ihb r hz.2 y r2 hl
        exact ⟨Nat.max_le.2 ⟨a1, by omega⟩, by omega⟩
  | option t ih =>
    intro bs hz v r' hr
    cases bs with
    | nil => simp [decodeA] at hr
    | cons tag r =>
      simp only [decodeA] at hz hr ⊢
      by_cases h0 : tag = 0
      · simp only [h0, if_true, Option.some.injEq, Prod.mk.injEq] at hr ⊢
        obtain ⟨_, h2⟩ := hr; subst h2
        simp only [List.length_cons]; exact ⟨by omega, by omega⟩
      · by_cases h1 : tag = 1
        · subst h1
          have h10 : ¬ ((1:UInt8) = 0) := by decide
          simp only [h10, if_false, if_true] at hz hr ⊢
          cases hl : (decodeA t r).res with
          | none => simp [hl] at hr
          | some q =>
            obtain ⟨y, r2⟩ := q
            simp only [hl, Option.map_some, Option.some.injEq, Prod.mk.injEq] at hr
            obtain ⟨_, hr2⟩ := hr
            subst hr2
            have ⟨b1, b2⟩ := ih r hz y r2 hl
            simp only [List.length_cons]
            exact ⟨Nat.max_le.2 ⟨by omega, by omega⟩, by omega⟩
        · simp [h0, h1] at hr
  | result a b iha ihb =>
    intro bs hz v r' hr
    cases bs with
    | nil => simp [decodeA] at hr
    | cons tag r =>
      simp only [decodeA] at hz hr ⊢
      by_cases h0 : tag = 0
      · simp only [h0, if_true] at hz hr ⊢
        cases hl : (decodeA a r).res with
        | none => simp [hl] at hr
        | some q =>
          obtain ⟨y, r2⟩ := q
          simp only [hl, Option.map_some, Option.some.injEq, Prod.mk.injEq] at hr
          obtain ⟨_, hr2⟩ := hr
          subst hr2
          have ⟨b1, b2⟩ := iha r hz y r2 hl
          simp only [List.length_cons]
          exact ⟨Nat.max_le.2 ⟨by omega, by omega⟩, by omega⟩
      · by_cases h1 : tag = 1
        · subst h1
          have h10 : ¬ ((1:UInt8) = 0) := by decide
          simp only [h10, if_false, if_true] at hz hr ⊢
          cases hl : (decodeA b r).res with
          | none => simp [hl] at hr
          | some q =>
            obtain ⟨y, r2⟩ := q
            simp only [hl, Option.map_some, Option.some.injEq, Prod.mk.injEq] at hr
            obtain ⟨_, hr2⟩ := hr
            subst hr2
            have ⟨b1, b2⟩ := ihb r hz y r2 hl
            simp only [List.length_cons]
            exact ⟨Nat.max_le.2 ⟨by omega, by omega⟩, by omega⟩
        · simp [h0, h1] at hr
  | array n t ih =>
    intro bs hz v r' hr
    simp only [decodeA] at hz hr ⊢
    cases hl : (decNA (decodeA t) n bs).res with
    | none => simp [hl] at hr
    | some q =>
      obtain ⟨ws, r2⟩ := q
      simp only [hl, Option.map_some, Option.some.injEq, Prod.mk.injEq] at hr
      obtain ⟨_, hr2⟩ := hr
      subst hr2
      exact decNA_okBound (decodeA t) ih n bs hz ws r2 hl
  | seq t ih =>
    intro bs hz v r' hr
    have hq := decodeUintReq_le bs
    simp only [decodeA] at hz hr ⊢
    cases hu : C11.decodeUintV bs with
    | none => simp [hu] at hr
    | some q0 =>
      obtain ⟨n, r⟩ := q0
      have hs := decodeUintV_suffix bs n r hu
      simp only [hu] at hz hr ⊢
      cases hl : (decNA (decodeA t) n r).res with
      | none => simp [hl] at hr
      | some q =>
        obtain ⟨ws, r2⟩ := q
        simp only [hl, Option.map_some, Option.some.injEq, Prod.mk.injEq] at hr
        obtain ⟨_, hr2⟩ := hr
        subst hr2
        have ⟨b1, b2⟩ := decNA_okBound (decodeA t) ih n r hz ws r2 hl
        exact ⟨Nat.max_le.2 ⟨by omega, by omega⟩, by omega⟩
  | enumNil => intro bs _ v r h; simp [decodeA] at h
  | enumCons i t rest iht ihr =>
    intro bs hz v r' hr
    cases bs with
    | nil => simp [decodeA] at hr
    | cons tag r =>
      simp only [decodeA] at hz hr ⊢
      by_cases ht : tag.toNat = i
      · simp only [ht, if_true] at hz hr ⊢
        cases hl : (decodeA t r).res with
        | none => simp [hl] at hr
        | some q =>
          obtain ⟨y, r2⟩ := q
          simp only [hl, Option.map_some, Option.some.injEq, Prod.mk.injEq] at hr
          obtain ⟨_, hr2⟩ := hr
          subst hr2
          have ⟨b1, b2⟩ := iht r hz y r2 hl
          simp only [List.length_cons]
          exact ⟨Nat.max_le.2 ⟨by omega, by omega⟩, by omega⟩
      · simp only [ht, if_false] at hz hr ⊢
        exact ihr (tag :: r) hz v r' hr

/-- the excluded region is real: the 4 input bytes `fe ff ff ff` declare a byte string of
    2^30-1 bytes; the decoder allocates all of it before it finds the input empty -/
theorem C12_alloc_bounded_counterexample :
    (decodeA (.prim .bytes) [0xfe, 0xff, 0xff, 0xff]).req = 1073741823 ∧
    (decodeA (.prim .bytes) [0xfe, 0xff, 0xff, 0xff]).res.isNone = true := by
  refine ⟨by decide, by decide⟩


/-! ## other readers -/

/-- **Reader independence** (partial: known finding bytes-chunked-read).  Full statement wanted:
    whatever legal `io.Reader` delivers the input (all at once, half of each request, one byte at
    a time, last data together with `io.EOF`), `NewDecoder(r).Decode` returns what `Unmarshal`
    returns.  It holds for every type without byte strings (all of them read with `io.ReadFull`):
    integers, big integers, u128, bool, fixed byte arrays, options, results, enums, arrays, slices,
    structs of these. -/
theorem C12_reader_independent_partial (k : RKind) (n : Nat) (t : Ty) (h : noByteString t = true) :
    ∀ bs, decode (codecR k n) t bs = decode C11.codec t bs := by
  induction t with
  | prim p =>
    intro bs
    cases p <;> simp [noByteString] at h <;> rfl
  | unit => intro bs; rfl
  | pair a b iha ihb =>
    simp only [noByteString, Bool.and_eq_true] at h
    intro bs
    simp only [decode, iha h.1 bs]
    cases decode C11.codec a bs with
    | none => rfl
    | some p => obtain ⟨x, r⟩ := p; simp only [ihb h.2 r]
  | option t ih =>
    simp only [noByteString] at h
    intro bs
    cases bs with
    | nil => rfl
    | cons tag r => simp only [decode, ih h r]
  | result a b iha ihb =>
    simp only [noByteString, Bool.and_eq_true] at h
    intro bs
    cases bs with
    | nil => rfl
    | cons tag r => simp only [decode, iha h.1 r, ihb h.2 r]
  | array m t ih =>
    simp only [noByteString] at h
    intro bs
    simp only [decode, decN_congr _ _ (ih h)]
  | seq t ih =>
    simp only [noByteString] at h
    intro bs
    simp only [decode]
    show (match C11.decLen bs with
      | none => none
      | some (m, r) => _) = (match C11.decLen bs with
      | none => none
      | some (m, r) => _)
    cases C11.decLen bs with
    | none => rfl
    | some q => obtain ⟨m, r⟩ := q; simp only [decN_congr _ _ (ih h)]
  | enumNil => intro bs; rfl
  | enumCons i t rest iht ihr =>
    simp only [noByteString, Bool.and_eq_true] at h
    intro bs
    cases bs with
    | nil => rfl
    | cons tag r => simp only [decode, iht h.1 r, ihr h.2 (tag :: r)]

/-- … in particular a fixed byte array `[N]byte` decodes alike through every reader, and a
    truncated one fails through every reader -/
theorem C12_reader_independent_unmarshal (k : RKind) (t : Ty) (h : noByteString t = true)
    (input : Bytes) : decodeR k t input = C11.unmarshal t input :=
  C12_reader_independent_partial k input.length t h input

/-- the excluded region is real: the complete, canonical `08 01 02` (the byte string `01 02`)
    decodes through `iotest.HalfReader` to `01 00` with `02` left over, and fails through
    `iotest.DataErrReader`; a fixed byte array does not -/
theorem C12_reader_independent_counterexample :
    (decodeR .buffer (.prim .bytes) [0x08, 1, 2]).map (fun p => encode Spec.codec (.prim .bytes) p.1 ++ p.2)
      = some [0x08, 1, 2] ∧
    (decodeR .half (.prim .bytes) [0x08, 1, 2]).map (fun p => encode Spec.codec (.prim .bytes) p.1 ++ p.2)
      = some [0x08, 1, 0, 2] ∧
    (decodeR .dataErr (.prim .bytes) [0x08, 1, 2]).isNone = true ∧
    (decodeR .half (.array 2 (.prim .u8)) [1, 2]).isSome = true ∧
    (decodeR .one (.array 2 (.prim .u8)) [1]).isNone = true := by
  refine ⟨by decide, by decide, by decide, by decide, by decide⟩

end Gossamer.C12
