/-
C37  Keystore encryption is a faithful, tamper-evident round trip.

The glue of lib/keystore/encrypt.go + helpers.go (model: Gossamer/Model/C37.lean) is proved
correct RELATIVE to two recorded assumptions about the AES-GCM / BLAKE2b oracles, packaged as
`Ideal C L` for a log `L` of honest encryptions:
  * correctness:  every honest ciphertext opens, under its key and nonce, to its message;
  * authenticity: nothing else opens (INT-CTXT idealisation: a (key, nonce, ciphertext) triple
    that opens is one of the honest ones).
Hash collision freedom appears as the explicit hypothesis `C.kdf pw' ≠ C.kdf pw`.
`C37_ideal_instance` shows the hypotheses are satisfiable for every log (the instance the
correspondence driver runs).
-/
import Gossamer.Model.C37
namespace Gossamer.C37
open Gossamer

/-- the two oracle assumptions, relative to the log of honest encryptions -/
structure Ideal (C : Crypto) (L : List Enc) : Prop where
  correct : ∀ e ∈ L, C.openAE e.k e.n (C.ct e) = some e.m
  authentic : ∀ k n c m, C.openAE k n c = some m → ∃ e ∈ L, e.k = k ∧ e.n = n ∧ C.ct e = c

/-! ### the hypotheses are satisfiable: the ideal-world instance of the driver -/

theorem idealSeal_inj (n m m' : Bytes) (h : idealSeal n m = idealSeal n m') : m = m' := by
  unfold idealSeal at h
  exact List.append_cancel_right h

theorem C37_ideal_instance (L : List Enc) : Ideal (idealCrypto L) L := by
  constructor
  · intro e he
    simp only [idealCrypto, Crypto.ct]
    cases hf : L.find? (fun e' => decide (e'.k = e.k ∧ e'.n = e.n ∧ idealSeal e'.n e'.m = idealSeal e.n e.m)) with
    | none =>
      have := List.find?_eq_none.mp hf e he
      simp at this
    | some e' =>
      have hp := List.find?_some hf
      simp only [decide_eq_true_eq] at hp
      obtain ⟨_, hn, hs⟩ := hp
      rw [hn] at hs
      simp [idealSeal_inj _ _ _ hs]
  · intro k n c m h
    have h' : (match L.find? (fun e' => decide (e'.k = k ∧ e'.n = n ∧ idealSeal e'.n e'.m = c)) with
        | some e => some e.m
        | none => none) = some m := h
    cases hf : L.find? (fun e' => decide (e'.k = k ∧ e'.n = n ∧ idealSeal e'.n e'.m = c)) with
    | none => rw [hf] at h'; simp at h'
    | some e' =>
      have hp := List.find?_some hf
      simp only [decide_eq_true_eq] at hp
      exact ⟨e', List.mem_of_find?_eq_some hf, hp.1, hp.2.1, hp.2.2⟩

/-! ### Decrypt -/

/-- `Decrypt` never panics, whatever the oracles do (holds since the length guard was added). -/
theorem C37_never_panics (C : Crypto) (data pw : Bytes) : decrypt C data pw ≠ .panic := by
  unfold decrypt
  split
  · simp
  · split <;> simp

/-- before the repair `Decrypt` panicked on every input shorter than the nonce -/
theorem C37_never_panics_before_fix_counterexample (C : Crypto) (data pw : Bytes)
    (h : data.length < nonceSize) : decryptOld C data pw = .panic := by
  simp [decryptOld, h]

theorem decrypt_ok_inv {C : Crypto} {data pw m : Bytes} (h : decrypt C data pw = .ok m) :
    nonceSize ≤ data.length ∧
      C.openAE (C.kdf pw) (data.take nonceSize) (data.drop nonceSize) = some m := by
  unfold decrypt at h
  split at h
  · simp at h
  · next hl =>
    refine ⟨Nat.le_of_not_lt hl, ?_⟩
    split at h
    · next m' hm => simp at h; rw [hm, h]
    · simp at h

/-- **Only honest blobs decrypt**: if `Decrypt` returns a plaintext at all, the input is byte for
    byte the stored blob of an honest encryption under this password's key, and the plaintext is
    that encryption's message (never a different one). -/
theorem C37_decrypt_ok_only_honest {C : Crypto} {L : List Enc} (h : Ideal C L)
    {data pw m : Bytes} (hd : decrypt C data pw = .ok m) :
    ∃ e ∈ L, e.k = C.kdf pw ∧ data = C.blob e ∧ m = e.m := by
  obtain ⟨_, ho⟩ := decrypt_ok_inv hd
  obtain ⟨e, he, hk, hn, hc⟩ := h.authentic _ _ _ _ ho
  refine ⟨e, he, hk, ?_, ?_⟩
  · simp [Crypto.blob, hn, hc]
  · have := h.correct e he
    rw [hk, hn, hc, ho] at this
    exact Option.some.inj this

/-- **Round trip**: what `Encrypt(msg, pw)` returns, `Decrypt(·, pw)` maps back to `msg`. -/
theorem C37_roundtrip {C : Crypto} {L : List Enc} (h : Ideal C L) (rnd msg pw : Bytes)
    (hr : nonceSize ≤ rnd.length) (hm : (⟨C.kdf pw, rnd.take nonceSize, msg⟩ : Enc) ∈ L) :
    ∃ data, encrypt C rnd msg pw = .ok data ∧ decrypt C data pw = .ok msg := by
  have hlen : (rnd.take nonceSize).length = nonceSize := by simp [List.length_take]; omega
  refine ⟨rnd.take nonceSize ++ C.sealAE (C.kdf pw) (rnd.take nonceSize) msg, ?_, ?_⟩
  · simp [encrypt, Nat.not_lt.mpr hr]
  · have hc := h.correct _ hm
    simp only [Crypto.ct] at hc
    unfold decrypt
    have h1 : ¬ (rnd.take nonceSize ++ C.sealAE (C.kdf pw) (rnd.take nonceSize) msg).length < nonceSize := by
      simp only [List.length_append, hlen]; omega
    rw [if_neg h1, List.take_left' hlen, List.drop_left' hlen, hc]

/-- **Tamper evidence (general form)**: any input that is not byte-identical to an honest blob
    under this password's key is rejected with an error. -/
theorem C37_tamper_errors {C : Crypto} {L : List Enc} (h : Ideal C L) (data pw : Bytes)
    (hne : ∀ e ∈ L, e.k = C.kdf pw → C.blob e ≠ data) : decrypt C data pw = .err := by
  cases hd : decrypt C data pw with
  | err => rfl
  | panic => exact absurd hd (C37_never_panics C data pw)
  | ok m =>
    obtain ⟨e, he, hk, hb, _⟩ := C37_decrypt_ok_only_honest h hd
    exact absurd hb.symm (hne e he hk)

/-- **Wrong password (general form)**: a password under whose key nothing was honestly encrypted
    decrypts nothing at all. -/
theorem C37_wrong_password_errors {C : Crypto} {L : List Enc} (h : Ideal C L) (data pw' : Bytes)
    (hk : ∀ e ∈ L, e.k ≠ C.kdf pw') : decrypt C data pw' = .err :=
  C37_tamper_errors h data pw' (fun e he hek => absurd hek (hk e he))

/-! ### one stored key blob: the statement of the property -/

section single
variable {C : Crypto} {pw nonce msg : Bytes}

/-- the log with the single honest encryption of `msg` under `pw` with `nonce` -/
abbrev one (C : Crypto) (pw nonce msg : Bytes) : List Enc := [⟨C.kdf pw, nonce, msg⟩]

/-- the stored blob -/
abbrev stored (C : Crypto) (pw nonce msg : Bytes) : Bytes := nonce ++ C.sealAE (C.kdf pw) nonce msg

/-- same password, untouched blob: the message comes back -/
theorem C37_single_roundtrip (h : Ideal C (one C pw nonce msg)) (hn : nonce.length = nonceSize) :
    decrypt C (stored C pw nonce msg) pw = .ok msg := by
  have hc := h.correct ⟨C.kdf pw, nonce, msg⟩ (by simp)
  simp only [Crypto.ct] at hc
  unfold decrypt
  have h1 : ¬ (stored C pw nonce msg).length < nonceSize := by
    simp only [List.length_append, hn]; omega
  rw [if_neg h1, List.take_left' hn, List.drop_left' hn, hc]

/-- a different password (with a different derived key) on ANY input: error -/
theorem C37_single_wrong_password_errors (h : Ideal C (one C pw nonce msg)) (data pw' : Bytes)
    (hk : C.kdf pw' ≠ C.kdf pw) : decrypt C data pw' = .err :=
  C37_wrong_password_errors h data pw' (by
    intro e he; simp at he; subst he; exact fun hh => hk hh.symm)

/-- **every modification** of the stored blob, under any password: error -/
theorem C37_single_tamper_errors (h : Ideal C (one C pw nonce msg)) (data pw' : Bytes)
    (hne : data ≠ stored C pw nonce msg) : decrypt C data pw' = .err :=
  C37_tamper_errors h data pw' (by
    intro e he _; simp at he; subst he; exact fun hh => hne hh.symm)

/-- whatever is decrypted from whatever input with whatever password: it is `msg`, the input is
    the stored blob and the password derives the same key — never a different plaintext -/
theorem C37_single_never_different (h : Ideal C (one C pw nonce msg)) {data pw' m : Bytes}
    (hd : decrypt C data pw' = .ok m) :
    m = msg ∧ data = stored C pw nonce msg ∧ C.kdf pw' = C.kdf pw := by
  obtain ⟨e, he, hk, hb, hm⟩ := C37_decrypt_ok_only_honest h hd
  simp at he; subst he
  exact ⟨hm, hb, hk.symm⟩

/-- truncation to EVERY shorter length (0 included), any password: error -/
theorem C37_truncation_errors (h : Ideal C (one C pw nonce msg)) (j : Nat) (pw' : Bytes)
    (hj : j < (stored C pw nonce msg).length) :
    decrypt C ((stored C pw nonce msg).take j) pw' = .err := by
  apply C37_single_tamper_errors h
  intro heq
  have := congrArg List.length heq
  simp only [List.length_take] at this
  omega

theorem xor_bit_ne (x : UInt8) (j : Nat) (hj : j < 8) : x ^^^ UInt8.ofNat (2 ^ j) ≠ x := by
  intro h
  have h2 : x ^^^ (x ^^^ UInt8.ofNat (2 ^ j)) = x ^^^ x := by rw [h]
  rw [← UInt8.xor_assoc, UInt8.xor_self, UInt8.zero_xor] at h2
  have : j = 0 ∨ j = 1 ∨ j = 2 ∨ j = 3 ∨ j = 4 ∨ j = 5 ∨ j = 6 ∨ j = 7 := by omega
  rcases this with h | h | h | h | h | h | h | h <;> subst h <;> revert h2 <;> decide

theorem flipBit_ne (b : Bytes) (i : Nat) (hi : i < 8 * b.length) : flipBit b i ≠ b := by
  intro h
  have hk : i / 8 < b.length := by omega
  have h1 : (flipBit b i)[i / 8]? = b[i / 8]? := by rw [h]
  unfold flipBit at h1
  rw [List.getElem?_set_self hk, List.getElem?_eq_getElem hk] at h1
  have h2 := Option.some.inj h1
  have : b.getD (i / 8) 0 = b[i / 8] := by
    simp [List.getD_eq_getElem?_getD, List.getElem?_eq_getElem hk]
  rw [this] at h2
  exact xor_bit_ne _ _ (Nat.mod_lt _ (by omega)) h2

/-- EVERY single-bit flip anywhere in the blob (nonce, body or tag), any password: error -/
theorem C37_bitflip_errors (h : Ideal C (one C pw nonce msg)) (i : Nat) (pw' : Bytes)
    (hi : i < 8 * (stored C pw nonce msg).length) :
    decrypt C (flipBit (stored C pw nonce msg) i) pw' = .err :=
  C37_single_tamper_errors h _ pw' (flipBit_ne _ _ hi)

/-- replacing the nonce by any other one: error -/
theorem C37_nonce_change_errors (h : Ideal C (one C pw nonce msg)) (nonce' pw' : Bytes)
    (hn : nonce' ≠ nonce) :
    decrypt C (nonce' ++ C.sealAE (C.kdf pw) nonce msg) pw' = .err := by
  apply C37_single_tamper_errors h
  intro heq
  exact hn (List.append_cancel_right heq)

/-- every mutation the correspondence run applies, when it changes the blob at all: error -/
theorem C37_mutation_errors (h : Ideal C (one C pw nonce msg)) (mu : Mut) (pw' : Bytes)
    (hch : mu.apply (stored C pw nonce msg) ≠ stored C pw nonce msg) :
    decrypt C (mu.apply (stored C pw nonce msg)) pw' = .err :=
  C37_single_tamper_errors h _ pw' hch

end single

/-- two honest encryptions of the same message under the same password with different nonces:
    exchanging the nonces makes both blobs undecryptable (given the two sealed bodies differ) -/
theorem C37_nonce_swap_errors {C : Crypto} {pw n1 n2 msg : Bytes}
    (h : Ideal C [⟨C.kdf pw, n1, msg⟩, ⟨C.kdf pw, n2, msg⟩]) (hn : n1 ≠ n2)
    (hb : C.sealAE (C.kdf pw) n1 msg ≠ C.sealAE (C.kdf pw) n2 msg) (pw' : Bytes) :
    decrypt C (n2 ++ C.sealAE (C.kdf pw) n1 msg) pw' = .err := by
  apply C37_tamper_errors h
  intro e he _ heq
  simp at he
  rcases he with he | he <;> subst he <;> simp only [Crypto.blob, Crypto.ct] at heq
  · exact hn (List.append_cancel_right heq)
  · exact hb (List.append_cancel_left heq).symm

/-! ### private keys (`EncryptPrivateKey` / `DecryptPrivateKey` / `DecodePrivateKey`) -/

theorem decode_name (pk : PrivKey) (hv : pk.valid) :
    decodePrivateKey pk.bytes pk.scheme.name = .ok pk := by
  obtain ⟨s, b⟩ := pk
  unfold PrivKey.valid at hv
  cases s <;> simp_all [decodePrivateKey, newPrivateKey, Scheme.name, Scheme.keyLen] <;> decide

/-- whatever `DecodePrivateKey(b, name of s)` accepts is the key ⟨s, b⟩ -/
theorem decode_name_inv (s : Scheme) (b : Bytes) (pk' : PrivKey)
    (h : decodePrivateKey b s.name = .ok pk') : pk' = ⟨s, b⟩ := by
  cases s <;> simp [decodePrivateKey, newPrivateKey, Scheme.name] at h <;> split at h <;>
    first
      | (injection h with h; exact h.symm)
      | (exact absurd h (by simp))

theorem C37_key_never_panics (C : Crypto) (data pw : Bytes) (kt : String) :
    decryptPrivateKey C data pw kt ≠ .panic := by
  unfold decryptPrivateKey
  cases hd : decrypt C data pw with
  | panic => exact absurd hd (C37_never_panics C data pw)
  | err => simp
  | ok m =>
    simp only [decodePrivateKey, newPrivateKey]
    repeat (split <;> try simp)

/-- **Key round trip**, all three schemes, every password: the decrypted key is the stored key. -/
theorem C37_key_roundtrip {C : Crypto} {L : List Enc} (h : Ideal C L) (rnd pw : Bytes) (pk : PrivKey)
    (hv : pk.valid) (hr : nonceSize ≤ rnd.length)
    (hm : (⟨C.kdf pw, rnd.take nonceSize, pk.bytes⟩ : Enc) ∈ L) :
    ∃ data, encryptPrivateKey C rnd pk pw = .ok data ∧
      decryptPrivateKey C data pw pk.scheme.name = .ok pk := by
  obtain ⟨data, he, hd⟩ := C37_roundtrip h rnd pk.bytes pw hr hm
  exact ⟨data, he, by simp [decryptPrivateKey, hd, decode_name pk hv]⟩

/-- **Never a different key**: with one stored key blob, whatever input and whatever password
    `DecryptPrivateKey` is given, if it returns a key at all then it is the stored key, the input is
    the untouched blob and the password derives the same AES key. -/
theorem C37_key_never_different {C : Crypto} {pw nonce : Bytes} {pk : PrivKey}
    (h : Ideal C (one C pw nonce pk.bytes)) {data pw' : Bytes} {pk' : PrivKey}
    (hd : decryptPrivateKey C data pw' pk.scheme.name = .ok pk') :
    pk' = pk ∧ data = stored C pw nonce pk.bytes ∧ C.kdf pw' = C.kdf pw := by
  unfold decryptPrivateKey at hd
  cases hdd : decrypt C data pw' with
  | err => simp [hdd] at hd
  | panic => simp [hdd] at hd
  | ok m =>
    simp only [hdd] at hd
    obtain ⟨hm, hb, hk⟩ := C37_single_never_different h hdd
    subst hm
    exact ⟨decode_name_inv _ _ _ hd, hb, hk⟩

/-- wrong password or any modification of the blob ⇒ `DecryptPrivateKey` errors (any key type) -/
theorem C37_key_tamper_or_wrong_password_errors {C : Crypto} {pw nonce : Bytes} {pk : PrivKey}
    (h : Ideal C (one C pw nonce pk.bytes)) (data pw' : Bytes) (kt : String)
    (hbad : data ≠ stored C pw nonce pk.bytes ∨ C.kdf pw' ≠ C.kdf pw) :
    decryptPrivateKey C data pw' kt = .err := by
  have : decrypt C data pw' = .err := by
    rcases hbad with hb | hk
    · exact C37_single_tamper_errors h data pw' hb
    · exact C37_single_wrong_password_errors h data pw' hk
  simp [decryptPrivateKey, this]

/-! ### the JSON key file (`EncryptAndWriteToFile` / `ReadFromFileAndDecrypt`) -/

theorem C37_file_never_panics (C : Crypto) (fs : FileState) (pw : Bytes) :
    readFromFileAndDecrypt C fs pw ≠ .panic := by
  cases fs with
  | absent => simp [readFromFileAndDecrypt]
  | garbled => simp [readFromFileAndDecrypt]
  | parsed f => exact C37_key_never_panics C _ _ _

theorem C37_file_roundtrip {C : Crypto} {L : List Enc} (h : Ideal C L) (rnd pw : Bytes) (pk : PrivKey)
    (pub : String) (hv : pk.valid) (hr : nonceSize ≤ rnd.length)
    (hm : (⟨C.kdf pw, rnd.take nonceSize, pk.bytes⟩ : Enc) ∈ L) :
    ∃ f, encryptToFile C rnd pk pub pw = .ok f ∧
      readFromFileAndDecrypt C (.parsed f) pw = .ok pk := by
  obtain ⟨data, he, hd⟩ := C37_key_roundtrip h rnd pw pk hv hr hm
  exact ⟨⟨pk.scheme.name, pub, data⟩, by simp [encryptToFile, he], by simpa [readFromFileAndDecrypt] using hd⟩

/- Full statement wanted: ANY modification of the key file makes ReadFromFileAndDecrypt return an
   error (or at least never a different key).  That is false for the code as it is: the Type field
   is not authenticated (counterexample below).  Proved: it holds for every file whose Type field
   is the written one — whatever happens to Ciphertext and PublicKey, and for a lost/garbled file. -/

/-- a file with the original Type: any change of the Ciphertext field, or a wrong password ⇒ error -/
theorem C37_file_tamper_errors_partial {C : Crypto} {pw nonce : Bytes} {pk : PrivKey}
    (h : Ideal C (one C pw nonce pk.bytes)) (f' : KeyFile) (pw' : Bytes)
    (hbad : f'.ciphertext ≠ stored C pw nonce pk.bytes ∨ C.kdf pw' ≠ C.kdf pw) :
    readFromFileAndDecrypt C (.parsed f') pw' = .err := by
  simpa [readFromFileAndDecrypt] using C37_key_tamper_or_wrong_password_errors h _ pw' f'.type hbad

/-- a file with the original Type never yields a different key -/
theorem C37_file_never_different_partial {C : Crypto} {pw nonce : Bytes} {pk : PrivKey}
    (h : Ideal C (one C pw nonce pk.bytes)) (f' : KeyFile) (pw' : Bytes) (pk' : PrivKey)
    (ht : f'.type = pk.scheme.name)
    (hd : readFromFileAndDecrypt C (.parsed f') pw' = .ok pk') : pk' = pk := by
  simp only [readFromFileAndDecrypt, ht] at hd
  exact (C37_key_never_different h hd).1

/-- the Type field is not covered by the authentication: the sr25519 key file of a 32-byte key,
    with `Type` rewritten to "secp256k1" and nothing else touched, decrypts under the right password
    to a DIFFERENT key (other scheme).  Shown in the ideal world, i.e. with perfect AEAD. -/
theorem C37_file_tamper_errors_counterexample :
    ∃ (C : Crypto) (pw nonce : Bytes) (pk pk' : PrivKey) (f : KeyFile),
      Ideal C (one C pw nonce pk.bytes) ∧ pk.valid ∧
      encryptToFile C nonce pk "pub" pw = .ok f ∧
      readFromFileAndDecrypt C (.parsed { f with type := "secp256k1" }) pw = .ok pk' ∧ pk' ≠ pk := by
  let pw : Bytes := [1]
  let nonce : Bytes := List.replicate 12 7
  let pk : PrivKey := ⟨.sr25519, List.replicate 32 9⟩
  refine ⟨idealCrypto [⟨pw, nonce, pk.bytes⟩], pw, nonce, pk, ⟨.secp256k1, List.replicate 32 9⟩,
    ⟨"sr25519", "pub", nonce ++ idealSeal nonce pk.bytes⟩, C37_ideal_instance _, by simp [PrivKey.valid, Scheme.keyLen, pk], by decide,
    by decide, by decide⟩

/-- the hypotheses of the single-blob theorems hold for a concrete non-trivial blob -/
example : Ideal (idealCrypto [⟨[1], List.replicate 12 7, [1, 2, 3]⟩])
    (one (idealCrypto [⟨[1], List.replicate 12 7, [1, 2, 3]⟩]) [1] (List.replicate 12 7) [1, 2, 3]) :=
  C37_ideal_instance _

/-! ### statelessness -/

/-- **Decrypt is a pure function of (ciphertext, password)**: the outcomes of ANY sequence of calls
    on one stored buffer (right password, wrong password, tampered copies, in any order) are the
    single-call outcomes on the original buffer, and the buffer is unchanged at the end.  In
    particular a failed attempt cannot spoil a later attempt with the right password. -/
theorem C37_decrypt_pure {α : Type} (f : Bytes → Bytes → Out α) (buf : Bytes) (ops : List SeqOp) :
    runOps f buf ops = (ops.map (SeqOp.outcome f buf), buf) := by
  induction ops with
  | nil => rfl
  | cons op rest ih => simp [runOps, ih]

/-- after any sequence of attempts the right password still opens the stored blob -/
theorem C37_right_password_after_any_attempts {C : Crypto} {pw nonce msg : Bytes}
    (h : Ideal C (one C pw nonce msg)) (hn : nonce.length = nonceSize) (ops : List SeqOp) :
    (runOps (decrypt C) (stored C pw nonce msg) (ops ++ [.onBuf pw])).1.getLast? = some (.ok msg) := by
  rw [C37_decrypt_pure]
  simp [SeqOp.outcome, C37_single_roundtrip h hn]

/-- **History independence**: the results of a history of Encrypt/Decrypt calls in one process are
    the per-call pure results, whatever was called before (in particular whatever password was
    used before, and wherever the caller keeps its password bytes). -/
theorem C37_history_independent (C : Crypto) (past calls : List Call) :
    runCalls C past calls = calls.map (Call.result C) := by
  induction calls generalizing past with
  | nil => rfl
  | cons c rest ih => simp [runCalls, ih]

end Gossamer.C37
