import Gossamer.Model.C37
namespace Gossamer.C37
end Gossamer.C37
