/-
C07 — trie node encoding round-trips and decoding is robust: theorems about the model
(`Gossamer.Lib.TrieCodec`, `Gossamer.Model.C07`).  Core Lean only.
-/
import Gossamer.Lib.TrieCodecLemmas
import Gossamer.Model.C07
namespace Gossamer.C07
open Gossamer Gossamer.TrieCodec


def isReal : Node → Bool
  | .leaf .. => true
  | .branch .. => true
  | _ => false

theorem encodeKids_cons_real (H : Bytes → Bytes) (c : Node) (cs : List Node) (h : isReal c = true) :
    encodeKids H (c :: cs) = scaleEncBytes (merkleValue H (encode H c)) ++ encodeKids H cs := by
  cases c <;> simp [isReal] at h <;> simp [encodeKids]

theorem viewKids_cons_real (H : Bytes → Bytes) (c : Node) (cs : List Node) (h : isReal c = true) :
    viewKids H (c :: cs) =
      (if (encode H c).length < 32 then view H c else .stub (H (encode H c))) :: viewKids H cs := by
  cases c <;> simp [isReal] at h <;> simp [viewKids]

theorem presentKids_cons_real (c : Node) (cs : List Node) (h : isReal c = true) :
    presentKids (c :: cs) = true :: presentKids cs := by
  cases c <;> simp [isReal] at h <;> simp [presentKids, Node.isEmpty]

theorem wfKids_cons_real (c : Node) (cs : List Node) (h : isReal c = true) :
    WFKids (c :: cs) ↔ (WF c ∧ WFKids cs) := by
  cases c <;> simp [isReal] at h <;> simp [WFKids]

theorem view_real (H : Bytes → Bytes) (c : Node) (h : isReal c = true) : view H c ≠ .empty := by
  cases c <;> simp [isReal] at h <;> simp [view]

theorem decodeHashedValue_append (h r : Bytes) (hl : h.length = 32) :
    decodeHashedValue (h ++ r) = .ok (h, r) := by
  unfold decodeHashedValue
  have hne : h ≠ [] := by intro e; simp [e] at hl
  have : readN hashLength (h ++ r) = some (h, r) := by
    have := readN_append h r hne
    rw [hl] at this; exact this
  rw [this]; simp [hl, hashLength]

theorem scaleEnc_length_ge (b : Bytes) : b.length + 1 ≤ (scaleEncBytes b).length := by
  unfold scaleEncBytes compactEnc
  split
  · simp
  · split
    · simp [length_leBytes]; omega
    · split
      · simp [length_leBytes]; omega
      · simp

theorem decodeKids_rt (H : Bytes → Bytes) (hH : ∀ m, (H m).length = 32) (strict : Bool)
    (dec : Bytes → Out Node) (K : Nat)
    (hdec : ∀ c, WF c → (encode H c).length < K → dec (encode H c) = .ok (view H c)) :
    ∀ (kids : List Node) (r : Bytes), WFKids kids → (encodeKids H kids).length ≤ K →
      decodeKids strict dec (presentKids kids) (encodeKids H kids ++ r) = .ok (viewKids H kids) := by
  intro kids
  induction kids with
  | nil => intro r _ _; simp [presentKids, decodeKids, viewKids]
  | cons c cs ih =>
    intro r hwf hlen
    by_cases hr : isReal c = true
    · rw [presentKids_cons_real c cs hr, encodeKids_cons_real H c cs hr, viewKids_cons_real H c cs hr]
      rw [wfKids_cons_real c cs hr] at hwf
      rw [encodeKids_cons_real H c cs hr] at hlen
      have hge := scaleEnc_length_ge (merkleValue H (encode H c))
      have hlen2 : (encodeKids H cs).length ≤ K := by simp at hlen; omega
      have hmvl : (merkleValue H (encode H c)).length < 1073741824 := by
        unfold merkleValue; split
        · omega
        · rw [hH]; omega
      rw [List.append_assoc]
      simp only [decodeKids]
      rw [scaleBytes_enc strict _ hmvl]
      simp only []
      by_cases he : (encode H c).length < 32
      · have hm : merkleValue H (encode H c) = encode H c := by simp [merkleValue, he]
        rw [hm] at hge hlen ⊢
        have hd := hdec c hwf.1 (by simp at hlen; omega)
        simp only [hashLength, he, if_true, hd]
        have hne := view_real H c hr
        rw [ih r hwf.2 hlen2]
        generalize view H c = x at hne ⊢
        cases x <;> simp_all
      · have hm : merkleValue H (encode H c) = H (encode H c) := by simp [merkleValue, he]
        rw [hm]
        have : ¬ ((H (encode H c)).length < hashLength) := by rw [hH]; simp [hashLength]
        simp only [this, he, if_false]
        simp only [ih r hwf.2 hlen2]
    · cases c with
      | empty =>
        simp only [presentKids, Node.isEmpty, encodeKids, viewKids, Bool.not_true, List.nil_append,
          decodeKids]
        simp only [WFKids] at hwf
        have hlen2 : (encodeKids H cs).length ≤ K := by simpa [encodeKids] using hlen
        rw [ih r hwf.2 hlen2]
      | stub mv =>
        simp only [WFKids] at hwf
        simp only [presentKids, Node.isEmpty, encodeKids, viewKids, Bool.not_false, decodeKids]
        have hge := scaleEnc_length_ge mv
        have hlen2 : (encodeKids H cs).length ≤ K := by simp [encodeKids] at hlen; omega
        rw [List.append_assoc, scaleBytes_enc strict mv (by omega)]
        have : ¬ (mv.length < hashLength) := by simp [hashLength, hwf.1]
        simp only [this, if_false]
        simp only [ih r hwf.2 hlen2]
      | leaf _ _ _ => simp [isReal] at hr
      | branch _ _ _ _ => simp [isReal] at hr

/-! ### the node codec round trip -/

theorem dhb_zero : decodeHeaderByte 0 = some (emptyV, 0) := by decide

theorem decodeHeader_zero : decodeHeader [0] = .ok (emptyV, 0, []) := by
  have h : (emptyV.pklMask == emptyV.bits) = true := by decide
  simp [decodeHeader, dhb_zero, h]

theorem leafVariantOf_facts (hashed : Bool) :
    leafVariantOf hashed ∈ nodeVariants ∧ leafVariantOf hashed ≠ emptyV ∧
    (leafVariantOf hashed = leafV ∨ leafVariantOf hashed = leafHashedV) ∧
    (leafVariantOf hashed = leafHashedV ↔ hashed = true) := by
  cases hashed <;> decide

theorem branchVariantOf_facts (v : Option Bytes) (hashed : Bool) :
    branchVariantOf v hashed ∈ nodeVariants ∧ branchVariantOf v hashed ≠ emptyV ∧
    ¬ (branchVariantOf v hashed = leafV ∨ branchVariantOf v hashed = leafHashedV) ∧
    (branchVariantOf v hashed = branchV ∨ branchVariantOf v hashed = branchValV ∨
      branchVariantOf v hashed = branchHashedV) := by
  cases v <;> cases hashed <;> simp [branchVariantOf] <;> decide

theorem presentKids_length : (kids : List Node) → (presentKids kids).length = kids.length
  | [] => rfl
  | c :: cs => by simp [presentKids, presentKids_length cs]

theorem decodeF_rt (H : Bytes → Bytes) (hH : ∀ m, (H m).length = 32) (strict : Bool) :
    ∀ (f : Nat) (n : Node), WF n → (encode H n).length < f →
      decodeF strict f (encode H n) = .ok (view H n) := by
  intro f
  induction f with
  | zero => intro n _ h; omega
  | succ f ih =>
    intro n hwf hlen
    cases n with
    | empty =>
      have : encode H .empty = [0] := rfl
      rw [this]
      simp [decodeF, decodeHeader_zero, view]
    | stub mv => simp [WF] at hwf
    | leaf pk v hashed =>
      simp only [WF] at hwf
      obtain ⟨hnib, hpk, hsome, hval⟩ := hwf
      obtain ⟨x, rfl⟩ := Option.isSome_iff_exists.mp hsome
      obtain ⟨hv1, hv2, hv3, hv4⟩ := leafVariantOf_facts hashed
      have hx := hval x rfl
      simp only [encode, List.append_assoc, decodeF]
      rw [header_roundtrip _ hv1 _ hpk]
      simp only [hv2, hv3, if_true, if_false, decodeLeaf]
      rw [key_roundtrip pk _ hnib]
      simp only []
      cases hashed with
      | true =>
        have : decodeHashedValue (valueEnc H (some x) true) = .ok (H x, []) := by
          have := decodeHashedValue_append (H x) [] (hH x)
          simpa [valueEnc] using this
        simp [hv4, this, view, viewValue]
      | false =>
        have : scaleBytes strict (valueEnc H (some x) false) = some (x, []) := by
          have := scaleBytes_enc strict x hx []
          simpa [valueEnc] using this
        have h2 : ¬ (leafVariantOf false = leafHashedV) := by decide
        simp [h2, this, view, viewValue]
    | branch pk v hashed kids =>
      simp only [WF] at hwf
      obtain ⟨hnib, hpk, hval, hk16, hkids⟩ := hwf
      obtain ⟨hv1, hv2, hv3, hv4⟩ := branchVariantOf_facts v hashed
      obtain ⟨b0, b1, hbm, hbits⟩ := bitmap_roundtrip (presentKids kids) (by rw [presentKids_length, hk16])
      simp only [encode, List.append_assoc, hbm, List.cons_append, List.nil_append] at hlen ⊢
      have hklen : (encodeKids H kids).length ≤ f := by
        simp only [List.length_append, List.length_cons] at hlen; omega
      have hK := decodeKids_rt H hH strict (decodeF strict f) f ih kids
      simp only [decodeF]
      rw [header_roundtrip _ hv1 _ hpk]
      simp only [hv2, hv3, hv4, if_true, if_false, decodeBranch]
      rw [key_roundtrip pk _ hnib]
      simp only [List.headD_cons, List.drop_succ_cons, List.drop_zero, hbits]
      cases v with
      | none =>
        have e1 : ¬ (branchVariantOf none hashed = branchValV) := by simp [branchVariantOf]; decide
        have e2 : ¬ (branchVariantOf none hashed = branchHashedV) := by simp [branchVariantOf]; decide
        have := hK [] hkids hklen
        rw [List.append_nil] at this
        simp [e1, e2, valueEnc, this, view, viewValue]
      | some x =>
        have hx := hval x rfl
        cases hashed with
        | true =>
          have e1 : ¬ (branchVariantOf (some x) true = branchValV) := by simp [branchVariantOf]; decide
          have e2 : branchVariantOf (some x) true = branchHashedV := by simp [branchVariantOf]
          have hd := decodeHashedValue_append (H x) (encodeKids H kids) (hH x)
          have := hK [] hkids hklen
          rw [List.append_nil] at this
          have e3 : ¬ (branchHashedV = branchValV) := by decide
          simp [e2, e3, valueEnc, hd, this, view, viewValue]
        | false =>
          have e1 : branchVariantOf (some x) false = branchValV := by simp [branchVariantOf]
          have hd := scaleBytes_enc strict x hx (encodeKids H kids)
          have := hK [] hkids hklen
          rw [List.append_nil] at this
          simp [e1, valueEnc, hd, this, view, viewValue]

end Gossamer.C07
