/-
C07 — trie node encoding round-trips and decoding is robust: theorems about the model
(`Gossamer.Lib.TrieCodec`, `Gossamer.Model.C07`).  Core Lean only.
-/
import Gossamer.Lib.TrieCodecLemmas
import Gossamer.Model.C07
namespace Gossamer.C07
open Gossamer Gossamer.TrieCodec


def isReal : Node → Bool
  | .leaf .. => true
  | .branch .. => true
  | _ => false

theorem encodeKids_cons_real (H : Bytes → Bytes) (c : Node) (cs : List Node) (h : isReal c = true) :
    encodeKids H (c :: cs) = scaleEncBytes (merkleValue H (encode H c)) ++ encodeKids H cs := by
  cases c <;> simp [isReal] at h <;> simp [encodeKids]

theorem viewKids_cons_real (H : Bytes → Bytes) (c : Node) (cs : List Node) (h : isReal c = true) :
    viewKids H (c :: cs) =
      (if (encode H c).length < 32 then view H c else .stub (H (encode H c))) :: viewKids H cs := by
  cases c <;> simp [isReal] at h <;> simp [viewKids]

theorem presentKids_cons_real (c : Node) (cs : List Node) (h : isReal c = true) :
    presentKids (c :: cs) = true :: presentKids cs := by
  cases c <;> simp [isReal] at h <;> simp [presentKids, Node.isEmpty]

theorem wfKids_cons_real (c : Node) (cs : List Node) (h : isReal c = true) :
    WFKids (c :: cs) ↔ (WF c ∧ WFKids cs) := by
  cases c <;> simp [isReal] at h <;> simp [WFKids]

theorem view_real (H : Bytes → Bytes) (c : Node) (h : isReal c = true) : view H c ≠ .empty := by
  cases c <;> simp [isReal] at h <;> simp [view]

theorem decodeHashedValue_append (h r : Bytes) (hl : h.length = 32) :
    decodeHashedValue (h ++ r) = .ok (h, r) := by
  unfold decodeHashedValue
  have hne : h ≠ [] := by intro e; simp [e] at hl
  have : readN hashLength (h ++ r) = some (h, r) := by
    have := readN_append h r hne
    rw [hl] at this; exact this
  rw [this]; simp [hl, hashLength]

theorem scaleEnc_length_ge (b : Bytes) : b.length + 1 ≤ (scaleEncBytes b).length := by
  unfold scaleEncBytes compactEnc
  split
  · simp
  · split
    · simp [length_leBytes]; omega
    · split
      · simp [length_leBytes]; omega
      · simp

theorem decodeKids_rt (H : Bytes → Bytes) (hH : ∀ m, (H m).length = 32) (strict : Bool)
    (dec : Bytes → Out Node) (K : Nat)
    (hdec : ∀ c, WF c → (encode H c).length < K → dec (encode H c) = .ok (view H c)) :
    ∀ (kids : List Node) (r : Bytes), WFKids kids → (encodeKids H kids).length ≤ K →
      decodeKids strict dec (presentKids kids) (encodeKids H kids ++ r) = .ok (viewKids H kids) := by
  intro kids
  induction kids with
  | nil => intro r _ _; simp [presentKids, decodeKids, viewKids]
  | cons c cs ih =>
    intro r hwf hlen
    by_cases hr : isReal c = true
    · rw [presentKids_cons_real c cs hr, encodeKids_cons_real H c cs hr, viewKids_cons_real H c cs hr]
      rw [wfKids_cons_real c cs hr] at hwf
      rw [encodeKids_cons_real H c cs hr] at hlen
      have hge := scaleEnc_length_ge (merkleValue H (encode H c))
      have hlen2 : (encodeKids H cs).length ≤ K := by simp at hlen; omega
      have hmvl : (merkleValue H (encode H c)).length < 1073741824 := by
        unfold merkleValue; split
        · omega
        · rw [hH]; omega
      rw [List.append_assoc]
      simp only [decodeKids]
      rw [scaleBytes_enc strict _ hmvl]
      simp only []
      by_cases he : (encode H c).length < 32
      · have hm : merkleValue H (encode H c) = encode H c := by simp [merkleValue, he]
        rw [hm] at hge hlen ⊢
        have hd := hdec c hwf.1 (by simp at hlen; omega)
        simp only [hashLength, he, if_true, hd]
        have hne := view_real H c hr
        rw [ih r hwf.2 hlen2]
        generalize view H c = x at hne ⊢
        cases x <;> simp_all
      · have hm : merkleValue H (encode H c) = H (encode H c) := by simp [merkleValue, he]
        rw [hm]
        have : ¬ ((H (encode H c)).length < hashLength) := by rw [hH]; simp [hashLength]
        simp only [this, he, if_false]
        simp only [ih r hwf.2 hlen2]
    · cases c with
      | empty =>
        simp only [presentKids, Node.isEmpty, encodeKids, viewKids, Bool.not_true, List.nil_append,
          decodeKids]
        simp only [WFKids] at hwf
        have hlen2 : (encodeKids H cs).length ≤ K := by simpa [encodeKids] using hlen
        rw [ih r hwf.2 hlen2]
      | stub mv =>
        simp only [WFKids] at hwf
        simp only [presentKids, Node.isEmpty, encodeKids, viewKids, Bool.not_false, decodeKids]
        have hge := scaleEnc_length_ge mv
        have hlen2 : (encodeKids H cs).length ≤ K := by simp [encodeKids] at hlen; omega
        rw [List.append_assoc, scaleBytes_enc strict mv (by omega)]
        have : ¬ (mv.length < hashLength) := by simp [hashLength, hwf.1]
        simp only [this, if_false]
        simp only [ih r hwf.2 hlen2]
      | leaf _ _ _ => simp [isReal] at hr
      | branch _ _ _ _ => simp [isReal] at hr

/-! ### the node codec round trip -/

theorem dhb_zero : decodeHeaderByte 0 = some (emptyV, 0) := by decide

theorem decodeHeader_zero : decodeHeader [0] = .ok (emptyV, 0, []) := by
  have h : (emptyV.pklMask == emptyV.bits) = true := by decide
  simp [decodeHeader, dhb_zero, h]

theorem leafVariantOf_facts (hashed : Bool) :
    leafVariantOf hashed ∈ nodeVariants ∧ leafVariantOf hashed ≠ emptyV ∧
    (leafVariantOf hashed = leafV ∨ leafVariantOf hashed = leafHashedV) ∧
    (leafVariantOf hashed = leafHashedV ↔ hashed = true) := by
  cases hashed <;> decide

theorem branchVariantOf_facts (v : Option Bytes) (hashed : Bool) :
    branchVariantOf v hashed ∈ nodeVariants ∧ branchVariantOf v hashed ≠ emptyV ∧
    ¬ (branchVariantOf v hashed = leafV ∨ branchVariantOf v hashed = leafHashedV) ∧
    (branchVariantOf v hashed = branchV ∨ branchVariantOf v hashed = branchValV ∨
      branchVariantOf v hashed = branchHashedV) := by
  cases v <;> cases hashed <;> simp [branchVariantOf] <;> decide

theorem presentKids_length : (kids : List Node) → (presentKids kids).length = kids.length
  | [] => rfl
  | c :: cs => by simp [presentKids, presentKids_length cs]

theorem decodeF_rt (H : Bytes → Bytes) (hH : ∀ m, (H m).length = 32) (strict : Bool) :
    ∀ (f : Nat) (n : Node), WF n → (encode H n).length < f →
      decodeF strict f (encode H n) = .ok (view H n) := by
  intro f
  induction f with
  | zero => intro n _ h; omega
  | succ f ih =>
    intro n hwf hlen
    cases n with
    | empty =>
      have : encode H .empty = [0] := rfl
      rw [this]
      simp [decodeF, decodeHeader_zero, view]
    | stub mv => simp [WF] at hwf
    | leaf pk v hashed =>
      simp only [WF] at hwf
      obtain ⟨hnib, hpk, hsome, hval⟩ := hwf
      obtain ⟨x, rfl⟩ := Option.isSome_iff_exists.mp hsome
      obtain ⟨hv1, hv2, hv3, hv4⟩ := leafVariantOf_facts hashed
      have hx := hval x rfl
      simp only [encode, List.append_assoc, decodeF]
      rw [header_roundtrip _ hv1 _ hpk]
      simp only [hv2, hv3, if_true, if_false, decodeLeaf]
      rw [key_roundtrip pk _ hnib]
      simp only []
      cases hashed with
      | true =>
        have : decodeHashedValue (valueEnc H (some x) true) = .ok (H x, []) := by
          have := decodeHashedValue_append (H x) [] (hH x)
          simpa [valueEnc] using this
        simp [hv4, this, view, viewValue]
      | false =>
        have : scaleBytes strict (valueEnc H (some x) false) = some (x, []) := by
          have := scaleBytes_enc strict x hx []
          simpa [valueEnc] using this
        have h2 : ¬ (leafVariantOf false = leafHashedV) := by decide
        simp [h2, this, view, viewValue]
    | branch pk v hashed kids =>
      simp only [WF] at hwf
      obtain ⟨hnib, hpk, hval, hk16, hkids⟩ := hwf
      obtain ⟨hv1, hv2, hv3, hv4⟩ := branchVariantOf_facts v hashed
      obtain ⟨b0, b1, hbm, hbits⟩ := bitmap_roundtrip (presentKids kids) (by rw [presentKids_length, hk16])
      simp only [encode, List.append_assoc, hbm, List.cons_append, List.nil_append] at hlen ⊢
      have hklen : (encodeKids H kids).length ≤ f := by
        simp only [List.length_append, List.length_cons] at hlen; omega
      have hK := decodeKids_rt H hH strict (decodeF strict f) f ih kids
      simp only [decodeF]
      rw [header_roundtrip _ hv1 _ hpk]
      simp only [hv2, hv3, hv4, if_true, if_false, decodeBranch]
      rw [key_roundtrip pk _ hnib]
      simp only [List.headD_cons, List.drop_succ_cons, List.drop_zero, hbits]
      cases v with
      | none =>
        have e1 : ¬ (branchVariantOf none hashed = branchValV) := by simp [branchVariantOf]; decide
        have e2 : ¬ (branchVariantOf none hashed = branchHashedV) := by simp [branchVariantOf]; decide
        have := hK [] hkids hklen
        rw [List.append_nil] at this
        simp [e1, e2, valueEnc, this, view, viewValue]
      | some x =>
        have hx := hval x rfl
        cases hashed with
        | true =>
          have e1 : ¬ (branchVariantOf (some x) true = branchValV) := by simp [branchVariantOf]; decide
          have e2 : branchVariantOf (some x) true = branchHashedV := by simp [branchVariantOf]
          have hd := decodeHashedValue_append (H x) (encodeKids H kids) (hH x)
          have := hK [] hkids hklen
          rw [List.append_nil] at this
          have e3 : ¬ (branchHashedV = branchValV) := by decide
          simp [e2, e3, valueEnc, hd, this, view, viewValue]
        | false =>
          have e1 : branchVariantOf (some x) false = branchValV := by simp [branchVariantOf]
          have hd := scaleBytes_enc strict x hx (encodeKids H kids)
          have := hK [] hkids hklen
          rw [List.append_nil] at this
          simp [e1, valueEnc, hd, this, view, viewValue]

/-- **Round trip (node codec).**  Every well-formed node — leaf or branch, without value, with an
    inline value or a value stored by hash, any partial key of up to 65535 nibbles, children inlined
    or referenced by hash — decodes from its encoding to the equivalent node `view H n`, whichever
    way pkg/scale treats short reads.  `H` is any 32-byte hash function. -/
theorem C07_node_roundtrip (H : Bytes → Bytes) (hH : ∀ m, (H m).length = 32) (strict : Bool)
    (n : Node) (hwf : WF n) : decode strict (encode H n) = .ok (view H n) :=
  decodeF_rt H hH strict _ n hwf (Nat.lt_succ_self _)

/-- **Header round trip**, for the five node variants and every partial key length up to 65535,
    with arbitrary following bytes `r`. -/
theorem C07_header_roundtrip (v : Variant) (hv : v ∈ nodeVariants) (pk r : Bytes)
    (h : pk.length ≤ 65535) : decodeHeader (encodeHeader v pk.length ++ r) = .ok (v, pk.length, r) :=
  header_roundtrip v hv pk.length h r

/-- **Partial key round trip.** -/
theorem C07_key_roundtrip (pk r : Bytes) (hn : Nibbles pk) :
    decodeKey pk.length (nibblesToKeyLE pk ++ r) = .ok (pk, r) :=
  key_roundtrip pk r hn

example : decodeHeader (encodeHeader leafV 62 ++ [7]) = .ok (leafV, 62, [7]) :=
  header_roundtrip leafV (by decide) 62 (by decide) [7]
example : decodeHeader (encodeHeader leafV 63 ++ [7]) = .ok (leafV, 63, [7]) :=
  header_roundtrip leafV (by decide) 63 (by decide) [7]
example : decodeHeader (encodeHeader leafV 64 ++ [7]) = .ok (leafV, 64, [7]) :=
  header_roundtrip leafV (by decide) 64 (by decide) [7]
example : decodeHeader (encodeHeader branchHashedV (15 + 255 * 3) ++ []) = .ok (branchHashedV, 15 + 255 * 3, []) :=
  header_roundtrip branchHashedV (by decide) _ (by decide) []
example : decodeHeader (encodeHeader leafHashedV 65535 ++ []) = .ok (leafHashedV, 65535, []) :=
  header_roundtrip leafHashedV (by decide) _ (by decide) []

/-- non-vacuity: a branch with a hashed value, an inlined leaf and a child referenced by hash is
    well-formed -/
example : WF (.branch [1, 2, 3] (some [9, 9]) true
    ([.leaf [4] (some [5]) false, .stub (List.replicate 32 7)] ++ List.replicate 14 .empty)) := by
  simp [WF, WFKids, Nibbles, ValueOK, List.replicate]

/-! ### robustness of the node decoder -/



theorem decodeLenRun_safe (v : Variant) : ∀ (r : Bytes) (acc : UInt16),
    decodeLenRun v acc r ≠ .panic ∧ decodeLenRun v acc r ≠ .fuel := by
  intro r
  induction r with
  | nil => intro acc; simp [decodeLenRun]
  | cons b r ih =>
    intro acc
    simp only [decodeLenRun]
    split
    · simp
    · split
      · simp
      · exact ih _

theorem decodeHeader_safe (bs : Bytes) : decodeHeader bs ≠ .panic ∧ decodeHeader bs ≠ .fuel := by
  cases bs with
  | nil => simp [decodeHeader]
  | cons b r =>
    simp only [decodeHeader]
    split
    · simp
    · split
      · simp
      · split
        · simp
        · exact decodeLenRun_safe _ _ _

theorem keyLEToNibbles_length (k : Bytes) : (keyLEToNibbles k).length = 2 * k.length := by
  induction k with
  | nil => rfl
  | cons a t ih => simp [keyLEToNibbles] at ih ⊢; omega

theorem decodeKey_safe (pkl : Nat) (r : Bytes) : decodeKey pkl r ≠ .panic ∧ decodeKey pkl r ≠ .fuel := by
  unfold decodeKey
  by_cases h0 : pkl = 0
  · simp [h0]
  · simp only [h0, if_false]
    cases hr : readN (pkl / 2 + pkl % 2) r with
    | none => simp
    | some p =>
      obtain ⟨got, r'⟩ := p
      simp only []
      by_cases hl : got.length ≠ pkl / 2 + pkl % 2
      · simp [hl]
      · have := keyLEToNibbles_length got
        have h2 : ¬ (pkl % 2 > (keyLEToNibbles got).length) := by
          simp at hl; omega
        simp [hl, h2]

theorem decodeHashedValue_safe (r : Bytes) : decodeHashedValue r ≠ .panic ∧ decodeHashedValue r ≠ .fuel := by
  unfold decodeHashedValue
  split
  · simp
  · split <;> simp

theorem decodeLeaf_safe (strict : Bool) (v : Variant) (pkl : Nat) (r : Bytes) :
    decodeLeaf strict v pkl r ≠ .panic ∧ decodeLeaf strict v pkl r ≠ .fuel := by
  unfold decodeLeaf
  have hk := decodeKey_safe pkl r
  split
  · simp
  · simp_all
  · simp_all
  · rename_i pk r1 _
    split
    · have hh := decodeHashedValue_safe r1
      split <;> simp_all
    · split <;> simp



/-- number of non-zero bytes: the termination measure of the recursion into inlined children -/
def nz (b : Bytes) : Nat := b.countP (· != 0)

theorem nz_take (n : Nat) (r : Bytes) : nz (r.take n) ≤ nz r := (List.take_sublist n r).countP_le
theorem nz_drop (n : Nat) (r : Bytes) : nz (r.drop n) ≤ nz r := (List.drop_sublist n r).countP_le
theorem nz_cons (b : UInt8) (r : Bytes) : nz r ≤ nz (b :: r) := by
  simp [nz, List.countP_cons]
theorem nz_cons_ne (b : UInt8) (r : Bytes) (h : b ≠ 0) : nz (b :: r) = nz r + 1 := by
  simp [nz, List.countP_cons, h]
theorem nz_pad (a : Bytes) (k : Nat) : nz (a ++ List.replicate k 0) = nz a := by
  simp [nz, List.countP_append, List.countP_replicate]
theorem nz_le_length (r : Bytes) : nz r ≤ r.length := List.countP_le_length

theorem readBuf_nz (strict : Bool) (n : Nat) (r buf r' : Bytes) (h : readBuf strict n r = some (buf, r')) :
    nz buf ≤ nz r ∧ nz r' ≤ nz r := by
  unfold readBuf at h
  cases r with
  | nil => simp at h
  | cons x xs =>
    simp only [] at h
    split at h
    · simp at h
    · simp only [Option.some.injEq, Prod.mk.injEq] at h
      obtain ⟨h1, h2⟩ := h
      subst h1; subst h2
      exact ⟨by rw [nz_pad]; exact nz_take _ _, nz_drop _ _⟩

theorem compactLen_nz (strict : Bool) (r : Bytes) (len : Nat) (r1 : Bytes)
    (h : compactLen strict r = some (len, r1)) : nz r1 ≤ nz r := by
  cases r with
  | nil => simp [compactLen] at h
  | cons p t =>
    have hc := nz_cons p t
    simp only [compactLen] at h
    split at h
    · simp at h; rw [← h.2]; exact hc
    · split at h
      · cases t with
        | nil => simp at h
        | cons b t2 =>
          simp only [] at h
          split at h
          · simp at h
          · simp at h; rw [← h.2]; exact Nat.le_trans (nz_cons b t2) hc
      · split at h
        · cases hb : readBuf strict 3 t with
          | none => simp [hb] at h
          | some q =>
            obtain ⟨buf, r2⟩ := q
            have := (readBuf_nz strict 3 t buf r2 hb).2
            simp only [hb] at h
            split at h
            · simp at h
            · simp at h; rw [← h.2]; omega
        · cases hb : readBuf strict (p.toNat / 4 + 4) t with
          | none => simp [hb] at h
          | some q =>
            obtain ⟨buf, r2⟩ := q
            have := (readBuf_nz strict _ t buf r2 hb).2
            simp only [hb] at h
            split at h
            · split at h
              · simp at h
              · simp at h; rw [← h.2]; omega
            · split at h
              · split at h
                · simp at h
                · simp at h; rw [← h.2]; omega
              · simp at h

theorem scaleBytes_nz (strict : Bool) (r hash r' : Bytes) (h : scaleBytes strict r = some (hash, r')) :
    nz hash ≤ nz r ∧ nz r' ≤ nz r := by
  unfold scaleBytes at h
  cases hc : compactLen strict r with
  | none => simp [hc] at h
  | some q =>
    obtain ⟨len, r1⟩ := q
    have h1 := compactLen_nz strict r len r1 hc
    simp only [hc] at h
    split at h
    · simp at h
    · split at h
      · simp at h; rw [h.1, ← h.2]; exact ⟨by simp [nz], h1⟩
      · have := readBuf_nz strict len r1 hash r' h
        omega


theorem decodeLenRun_nz (v : Variant) : ∀ (r0 : Bytes) (acc : UInt16) (v' : Variant) (n : Nat) (r : Bytes),
    decodeLenRun v acc r0 = .ok (v', n, r) → nz r ≤ nz r0 := by
  intro r0
  induction r0 with
  | nil => intro acc v' n r h; simp [decodeLenRun] at h
  | cons b t ih =>
    intro acc v' n r h
    simp only [decodeLenRun] at h
    split at h
    · simp at h
    · split at h
      · simp at h; rw [← h.2.2]; exact nz_cons b t
      · exact Nat.le_trans (ih _ _ _ _ h) (nz_cons b t)

theorem decodeHeader_nz (bs : Bytes) (v : Variant) (pkl : Nat) (r : Bytes)
    (h : decodeHeader bs = .ok (v, pkl, r)) (hv : v ≠ emptyV) : nz r + 1 ≤ nz bs := by
  cases bs with
  | nil => simp [decodeHeader] at h
  | cons b t =>
    have hb : b ≠ 0 := by
      intro e; subst e
      have hz : decodeHeader (0 :: t) = .ok (emptyV, 0, t) := by
        have h0 : (emptyV.pklMask == emptyV.bits) = true := by decide
        simp [decodeHeader, dhb_zero, h0]
      rw [hz] at h
      simp at h
      exact hv h.1.symm
    rw [nz_cons_ne b t hb]
    simp only [decodeHeader] at h
    split at h
    · simp at h
    · split at h
      · simp at h; rw [← h.2.2]; omega
      · split at h
        · simp at h; rw [← h.2.2]; omega
        · have := decodeLenRun_nz _ _ _ _ _ _ h; omega

theorem readN_nz (n : Nat) (r got r' : Bytes) (h : readN n r = some (got, r')) : nz r' ≤ nz r := by
  unfold readN at h
  cases r with
  | nil => simp at h
  | cons x xs => simp at h; rw [← h.2]; exact nz_drop _ _

theorem decodeKey_nz (pkl : Nat) (r pk r1 : Bytes) (h : decodeKey pkl r = .ok (pk, r1)) : nz r1 ≤ nz r := by
  unfold decodeKey at h
  by_cases h0 : pkl = 0
  · simp [h0] at h; rw [← h.2]; exact Nat.le_refl _
  · simp only [h0, if_false] at h
    cases hr : readN (pkl / 2 + pkl % 2) r with
    | none => simp [hr] at h
    | some p =>
      obtain ⟨got, r'⟩ := p
      have := readN_nz _ _ _ _ hr
      simp only [hr] at h
      split at h
      · simp at h
      · split at h
        · simp at h
        · simp at h; rw [← h.2]; exact this

theorem decodeHashedValue_nz (r hv r3 : Bytes) (h : decodeHashedValue r = .ok (hv, r3)) : nz r3 ≤ nz r := by
  unfold decodeHashedValue at h
  cases hr : readN hashLength r with
  | none => simp [hr] at h
  | some p =>
    obtain ⟨got, r'⟩ := p
    have := readN_nz _ _ _ _ hr
    simp only [hr] at h
    split at h
    · simp at h
    · simp at h; rw [← h.2]; exact this

/-- the children loop never panics if decoding an inlined child never does -/
theorem decodeKids_np (strict : Bool) (dec : Bytes → Out Node) (hd : ∀ h, dec h ≠ .panic) :
    ∀ (bits : List Bool) (r : Bytes), decodeKids strict dec bits r ≠ .panic := by
  intro bits
  induction bits with
  | nil => intro r; simp [decodeKids]
  | cons b bs ih =>
    intro r
    cases b with
    | false =>
      simp only [decodeKids]
      have := ih r
      split <;> simp_all
    | true =>
      simp only [decodeKids]
      cases hs : scaleBytes strict r with
      | none => simp
      | some p =>
        obtain ⟨hash, r'⟩ := p
        simp only []
        have h1 := hd hash
        have h2 := ih r'
        by_cases hl : hash.length < hashLength
        · simp only [hl, if_true]
          cases hdh : dec hash with
          | ok n =>
            cases n with
            | empty => simp
            | stub mv => simp only []; split <;> simp_all
            | leaf a b c => simp only []; split <;> simp_all
            | branch a b c d => simp only []; split <;> simp_all
          | err e => simp
          | panic => exact absurd hdh h1
          | fuel => simp
        · simp only [hl, if_false]
          split <;> simp_all

/-- the children loop runs out of fuel only if decoding an inlined child does -/
theorem decodeKids_nf (strict : Bool) (dec : Bytes → Out Node) (B : Nat)
    (hd : ∀ h, nz h < B → dec h ≠ .fuel) :
    ∀ (bits : List Bool) (r : Bytes), nz r < B → decodeKids strict dec bits r ≠ .fuel := by
  intro bits
  induction bits with
  | nil => intro r _; simp [decodeKids]
  | cons b bs ih =>
    intro r hr
    cases b with
    | false =>
      simp only [decodeKids]
      have := ih r hr
      split <;> simp_all
    | true =>
      simp only [decodeKids]
      cases hs : scaleBytes strict r with
      | none => simp
      | some p =>
        obtain ⟨hash, r'⟩ := p
        simp only []
        obtain ⟨hz1, hz2⟩ := scaleBytes_nz strict r hash r' hs
        have h1 := hd hash (by omega)
        have h2 := ih r' (by omega)
        by_cases hl : hash.length < hashLength
        · simp only [hl, if_true]
          cases hdh : dec hash with
          | ok n =>
            cases n with
            | empty => simp
            | stub mv => simp only []; split <;> simp_all
            | leaf a b c => simp only []; split <;> simp_all
            | branch a b c d => simp only []; split <;> simp_all
          | err e => simp
          | panic => simp
          | fuel => exact absurd hdh h1
        · simp only [hl, if_false]
          split <;> simp_all

theorem decodeBranch_np (strict : Bool) (dec : Bytes → Out Node) (hd : ∀ h, dec h ≠ .panic)
    (v : Variant) (pkl : Nat) (r : Bytes) : decodeBranch strict dec v pkl r ≠ .panic := by
  unfold decodeBranch
  have hk := (decodeKey_safe pkl r).1
  have hK := decodeKids_np strict dec hd
  cases hkey : decodeKey pkl r with
  | err e => simp
  | panic => exact absurd hkey hk
  | fuel => simp
  | ok p =>
    obtain ⟨pk, r1⟩ := p
    simp only []
    cases r1 with
    | nil => simp
    | cons b0 r1' =>
      simp only []
      split
      · cases hs : scaleBytes strict (List.drop 1 r1') with
        | none => simp
        | some q =>
          obtain ⟨val, r3⟩ := q
          simp only []
          have := hK (bitmapBits b0 (r1'.headD 0)) r3
          split <;> simp_all
      · split
        · have hh := (decodeHashedValue_safe (List.drop 1 r1')).1
          cases hs : decodeHashedValue (List.drop 1 r1') with
          | ok q =>
            obtain ⟨hv, r3⟩ := q
            simp only []
            have := hK (bitmapBits b0 (r1'.headD 0)) r3
            split <;> simp_all
          | err e => simp
          | panic => exact absurd hs hh
          | fuel => simp
        · have := hK (bitmapBits b0 (r1'.headD 0)) (List.drop 1 r1')
          split <;> simp_all

theorem decodeBranch_nf (strict : Bool) (dec : Bytes → Out Node) (B : Nat)
    (hd : ∀ h, nz h < B → dec h ≠ .fuel)
    (v : Variant) (pkl : Nat) (r : Bytes) (hr : nz r < B) : decodeBranch strict dec v pkl r ≠ .fuel := by
  unfold decodeBranch
  have hk := (decodeKey_safe pkl r).2
  have hK := decodeKids_nf strict dec B hd
  cases hkey : decodeKey pkl r with
  | err e => simp
  | panic => simp
  | fuel => exact absurd hkey hk
  | ok p =>
    obtain ⟨pk, r1⟩ := p
    have hz1 := decodeKey_nz pkl r pk r1 hkey
    simp only []
    cases r1 with
    | nil => simp
    | cons b0 r1' =>
      have hz2 : nz (List.drop 1 r1') ≤ nz (b0 :: r1') :=
        Nat.le_trans (nz_drop 1 r1') (nz_cons b0 r1')
      simp only []
      split
      · cases hs : scaleBytes strict (List.drop 1 r1') with
        | none => simp
        | some q =>
          obtain ⟨val, r3⟩ := q
          simp only []
          have hz3 := (scaleBytes_nz strict _ val r3 hs).2
          have := hK (bitmapBits b0 (r1'.headD 0)) r3 (by omega)
          split <;> simp_all
      · split
        · have hh := (decodeHashedValue_safe (List.drop 1 r1')).2
          cases hs : decodeHashedValue (List.drop 1 r1') with
          | ok q =>
            obtain ⟨hv, r3⟩ := q
            simp only []
            have hz3 := decodeHashedValue_nz _ hv r3 hs
            have := hK (bitmapBits b0 (r1'.headD 0)) r3 (by omega)
            split <;> simp_all
          | err e => simp
          | panic => simp
          | fuel => exact absurd hs hh
        · have := hK (bitmapBits b0 (r1'.headD 0)) (List.drop 1 r1') (by omega)
          split <;> simp_all

theorem decodeF_np (strict : Bool) : ∀ (f : Nat) (bs : Bytes), decodeF strict f bs ≠ .panic := by
  intro f
  induction f with
  | zero => intro bs; simp [decodeF]
  | succ f ih =>
    intro bs
    simp only [decodeF]
    have hh := (decodeHeader_safe bs).1
    cases hdr : decodeHeader bs with
    | err e => simp
    | panic => exact absurd hdr hh
    | fuel => simp
    | ok p =>
      obtain ⟨v, pkl, r⟩ := p
      simp only []
      split
      · simp
      · split
        · exact (decodeLeaf_safe strict v pkl r).1
        · split
          · exact decodeBranch_np strict _ ih v pkl r
          · simp

theorem decodeF_nf (strict : Bool) : ∀ (f : Nat) (bs : Bytes), nz bs < f → decodeF strict f bs ≠ .fuel := by
  intro f
  induction f with
  | zero => intro bs h; omega
  | succ f ih =>
    intro bs hbs
    simp only [decodeF]
    have hh := (decodeHeader_safe bs).2
    cases hdr : decodeHeader bs with
    | err e => simp
    | panic => simp
    | fuel => exact absurd hdr hh
    | ok p =>
      obtain ⟨v, pkl, r⟩ := p
      simp only []
      split
      · simp
      · rename_i hne
        have hz := decodeHeader_nz bs v pkl r hdr hne
        split
        · exact (decodeLeaf_safe strict v pkl r).2
        · split
          · exact decodeBranch_nf strict _ f ih v pkl r (by omega)
          · simp

/-- **Robustness (node codec): no panic.**  For every byte string, under either behaviour of short
    reads in pkg/scale, `node.Decode` returns a node or an error. -/
theorem C07_no_panic (strict : Bool) (bs : Bytes) : decode strict bs ≠ .panic :=
  decodeF_np strict _ bs

/-- **Robustness (node codec): termination.**  The recursion into inlined children always ends:
    the model never runs out of the fuel `len bs + 1` (each level consumes a non-zero header byte). -/
theorem C07_total (strict : Bool) (bs : Bytes) : decode strict bs ≠ .fuel :=
  decodeF_nf strict _ bs (Nat.lt_succ_of_le (nz_le_length bs))

/-- every byte string decodes to a node or to one of the error classes -/
theorem C07_decode_ok_or_err (strict : Bool) (bs : Bytes) :
    (∃ n, decode strict bs = .ok n) ∨ (∃ e, decode strict bs = .err e) := by
  have h1 := C07_no_panic strict bs
  have h2 := C07_total strict bs
  cases h : decode strict bs with
  | ok n => exact Or.inl ⟨n, rfl⟩
  | err e => exact Or.inr ⟨e, rfl⟩
  | panic => exact absurd h h1
  | fuel => exact absurd h h2


/-! ### the triedb codec -/


theorem unmarshal_ok (quirk : Bool) (h : Bytes) (hh : HashOK quirk h) : unmarshalH256 quirk h = some h := by
  obtain ⟨h1, h2⟩ := hh
  unfold unmarshalH256
  have ht : h.take 32 = h := by rw [← h1]; exact List.take_length
  cases quirk with
  | false => simp [h1, ht]
  | true => simp [h1, ht, h2 rfl]

theorem tdecodeKey_rt (d r : Bytes) (o : Nat) (ho : o < 2) (hd : d = [] → o = 0) :
    tdecodeKey (2 * d.length - o) (d ++ r) = .ok (d, o, r) := by
  unfold tdecodeKey
  cases d with
  | nil => simp [hd rfl]
  | cons x xs =>
    have h0 : ¬ (2 * (x :: xs).length - o = 0) := by simp; omega
    have hm : (2 * (x :: xs).length - o) % 2 = o := by simp; omega
    have hn : (2 * (x :: xs).length - o) / 2 + o = (x :: xs).length := by
      simp; omega
    simp only [h0, if_false]
    rw [hm, hn, readN_append (x :: xs) r (by simp)]
    simp

theorem tdecodeHashedValue_rt (quirk : Bool) (h r : Bytes) (hh : HashOK quirk h) :
    tdecodeHashedValue quirk (h ++ r) = .ok (h, r) := by
  unfold tdecodeHashedValue
  have hne : h ≠ [] := by intro e; have := hh.1; simp [e] at this
  have : readN 32 (h ++ r) = some (h, r) := by
    have := readN_append h r hne
    rw [hh.1] at this; exact this
  rw [this]
  simp [hh.1, unmarshal_ok quirk h hh]

theorem tdecodeKids_rt (quirk strict : Bool) : ∀ (kids : List TChild) (r : Bytes),
    (∀ c ∈ kids, TChildOK quirk c) →
      tdecodeKids quirk strict (kids.map (fun c => !c.isNone)) (kids.flatMap tchildEnc ++ r) = .ok kids := by
  intro kids
  induction kids with
  | nil => intro r _; simp [tdecodeKids]
  | cons c cs ih =>
    intro r hok
    have hcs := ih r (fun c hc => hok c (by simp [hc]))
    have hc := hok c (by simp)
    cases c with
    | none =>
      have e : (!TChild.isNone .none) = false := rfl
      simp only [List.map_cons, List.flatMap_cons, tchildEnc, List.nil_append, e, tdecodeKids, hcs]
    | inline b =>
      simp only [TChildOK] at hc
      have e : (!TChild.isNone (.inline b)) = true := rfl
      simp only [List.map_cons, List.flatMap_cons, tchildEnc, List.append_assoc, e, tdecodeKids]
      rw [scaleBytes_enc strict b (by omega)]
      simp only [hc, if_true, hcs]
    | hashed h =>
      simp only [TChildOK] at hc
      have e : (!TChild.isNone (.hashed h)) = true := rfl
      simp only [List.map_cons, List.flatMap_cons, tchildEnc, List.append_assoc, e, tdecodeKids]
      rw [scaleBytes_enc strict h (by rw [hc.1]; decide)]
      have : ¬ (h.length < 32) := by rw [hc.1]; decide
      simp only [this, if_false, unmarshal_ok quirk h hc, hcs]

theorem tleafVariant_facts (v : TValue) :
    tleafVariant v ∈ nodeVariants ∧ tleafVariant v ≠ emptyV ∧
    (tleafVariant v = leafV ∨ tleafVariant v = leafHashedV) := by
  cases v <;> simp only [tleafVariant] <;> decide

theorem tbranchVariant_facts (v : Option TValue) :
    tbranchVariant v ∈ nodeVariants ∧ tbranchVariant v ≠ emptyV ∧
    ¬ (tbranchVariant v = leafV ∨ tbranchVariant v = leafHashedV) ∧
    (tbranchVariant v = branchV ∨ tbranchVariant v = branchValV ∨ tbranchVariant v = branchHashedV) := by
  cases v with
  | none => decide
  | some x => cases x <;> simp only [tbranchVariant] <;> decide

/-- **Round trip (triedb codec)**, parametric in the zero-hash behaviour. -/
theorem tnode_roundtrip (quirk strict : Bool) (n : TNode) (hwf : TWF quirk n) :
    tdecodeG quirk strict (tencode n) = .ok n := by
  cases n with
  | empty =>
    have : tencode .empty = [0] := rfl
    rw [this]; simp [tdecodeG, decodeHeader_zero]
  | leaf d o v =>
    simp only [TWF] at hwf
    obtain ⟨ho, hd, hlen, hv⟩ := hwf
    obtain ⟨f1, f2, f3⟩ := tleafVariant_facts v
    simp only [tencode, tencodeLeaf, tencodeHeader, List.append_assoc, tdecodeG]
    rw [header_roundtrip _ f1 _ hlen]
    simp only [f2, if_false]
    rw [tdecodeKey_rt d _ o ho hd]
    simp only [f3, if_true, tdecodeLeaf]
    cases v with
    | inline b =>
      simp only [TValueOK] at hv
      have e : ¬ (tleafVariant (.inline b) = leafHashedV) := by simp only [tleafVariant]; decide
      have hs := scaleBytes_enc strict b hv []
      rw [List.append_nil] at hs
      simp [e, tvalueEnc, hs]
    | hashed h =>
      simp only [TValueOK] at hv
      have e : tleafVariant (.hashed h) = leafHashedV := rfl
      have hs := tdecodeHashedValue_rt quirk h [] hv
      rw [List.append_nil] at hs
      simp [e, tvalueEnc, hs]
  | branch d o v kids =>
    simp only [TWF] at hwf
    obtain ⟨ho, hd, hlen, hv, hk16, hkids⟩ := hwf
    obtain ⟨f1, f2, f3, f4⟩ := tbranchVariant_facts v
    obtain ⟨b0, b1, hbm, hbits⟩ := bitmap_roundtrip (kids.map (fun c => !c.isNone)) (by simp [hk16])
    have hK := tdecodeKids_rt quirk strict kids [] hkids
    rw [List.append_nil] at hK
    simp only [tencode, tencodeBranch, tencodeHeader, List.append_assoc, hbm, tdecodeG]
    rw [header_roundtrip _ f1 _ hlen]
    simp only [f2, if_false]
    rw [tdecodeKey_rt d _ o ho hd]
    simp only [f3, f4, if_true, if_false, List.cons_append, List.nil_append, tdecodeBranch, hbits]
    cases v with
    | none =>
      have e1 : ¬ (tbranchVariant none = branchValV) := by decide
      have e2 : ¬ (tbranchVariant none = branchHashedV) := by decide
      simp [e1, e2, hK]
    | some x =>
      have hx := hv x rfl
      cases x with
      | inline b =>
        simp only [TValueOK] at hx
        have e1 : tbranchVariant (some (.inline b)) = branchValV := rfl
        have hs := scaleBytes_enc strict b hx (kids.flatMap tchildEnc)
        simp [e1, tvalueEnc, hs, hK]
      | hashed h =>
        simp only [TValueOK] at hx
        have e2 : tbranchVariant (some (.hashed h)) = branchHashedV := rfl
        have e3 : ¬ (branchHashedV = branchValV) := by decide
        have hs := tdecodeHashedValue_rt quirk h (kids.flatMap tchildEnc) hx
        simp [e2, e3, tvalueEnc, hs, hK]

theorem tdecodeHashedValue_safe (quirk : Bool) (r : Bytes) :
    tdecodeHashedValue quirk r ≠ .panic ∧ tdecodeHashedValue quirk r ≠ .fuel := by
  unfold tdecodeHashedValue
  split
  · simp
  · split
    · simp
    · split <;> simp

theorem tdecodeKids_safe (quirk strict : Bool) : ∀ (bits : List Bool) (r : Bytes),
    tdecodeKids quirk strict bits r ≠ .panic ∧ tdecodeKids quirk strict bits r ≠ .fuel := by
  intro bits
  induction bits with
  | nil => intro r; simp [tdecodeKids]
  | cons b bs ih =>
    intro r
    cases b with
    | false =>
      simp only [tdecodeKids]
      have := ih r
      split <;> simp_all
    | true =>
      simp only [tdecodeKids]
      cases hs : scaleBytes strict r with
      | none => simp
      | some p =>
        obtain ⟨hash, r'⟩ := p
        simp only []
        have h2 := ih r'
        by_cases hl : hash.length < 32
        · simp only [hl, if_true]
          split <;> simp_all
        · simp only [hl, if_false]
          have hu : unmarshalH256 quirk hash = some (if (quirk && (hash.take 32).all (· == 0)) = true then [] else hash.take 32) := by
            simp [unmarshalH256, hl]
          rw [hu]
          simp only []
          split <;> simp_all

theorem tdecodeLeaf_safe (quirk strict : Bool) (v : Variant) (d : Bytes) (o : Nat) (r : Bytes) :
    tdecodeLeaf quirk strict v d o r ≠ .panic ∧ tdecodeLeaf quirk strict v d o r ≠ .fuel := by
  unfold tdecodeLeaf
  have hh := tdecodeHashedValue_safe quirk r
  split
  · split <;> simp_all
  · split <;> simp

theorem tdecodeBranch_safe (quirk strict : Bool) (v : Variant) (d : Bytes) (o : Nat) (r : Bytes) :
    tdecodeBranch quirk strict v d o r ≠ .panic ∧ tdecodeBranch quirk strict v d o r ≠ .fuel := by
  unfold tdecodeBranch
  have hK := tdecodeKids_safe quirk strict
  split
  · rename_i b0 b1 r2
    dsimp only
    split
    · cases hs : scaleBytes strict r2 with
      | none => simp
      | some q =>
        obtain ⟨val, r3⟩ := q
        simp only []
        have := hK (bitmapBits b0 b1) r3
        split <;> simp_all
    · split
      · have hh := tdecodeHashedValue_safe quirk r2
        cases hs : tdecodeHashedValue quirk r2 with
        | ok q =>
          obtain ⟨hv, r3⟩ := q
          simp only []
          have := hK (bitmapBits b0 b1) r3
          split <;> simp_all
        | err e => simp
        | panic => exact absurd hs hh.1
        | fuel => exact absurd hs hh.2
      · have := hK (bitmapBits b0 b1) r2
        split <;> simp_all
  · simp

theorem tdecodeKey_safe (pkl : Nat) (r : Bytes) : tdecodeKey pkl r ≠ .panic ∧ tdecodeKey pkl r ≠ .fuel := by
  unfold tdecodeKey
  split
  · simp
  · simp only []
    split
    · simp
    · split <;> simp

/-- **Robustness (triedb codec).**  `codec.Decode` returns a node or an error for every byte string:
    in particular the `panic(err)` after `scale.Unmarshal` in `decodeBranch` is unreachable. -/
theorem C07_tdecode_no_panic (quirk strict : Bool) (bs : Bytes) :
    tdecodeG quirk strict bs ≠ .panic ∧ tdecodeG quirk strict bs ≠ .fuel := by
  unfold tdecodeG
  have hh := decodeHeader_safe bs
  cases hdr : decodeHeader bs with
  | err e => simp
  | panic => exact absurd hdr hh.1
  | fuel => exact absurd hdr hh.2
  | ok p =>
    obtain ⟨v, pkl, r⟩ := p
    simp only []
    split
    · simp
    · have hk := tdecodeKey_safe pkl r
      cases hkey : tdecodeKey pkl r with
      | err e => simp
      | panic => exact absurd hkey hk.1
      | fuel => exact absurd hkey hk.2
      | ok q =>
        obtain ⟨d, o, r1⟩ := q
        simp only []
        split
        · exact tdecodeLeaf_safe quirk strict v d o r1
        · split
          · exact tdecodeBranch_safe quirk strict v d o r1
          · simp

/-- **Round trip (triedb codec), as the code is** (`_partial`: hashes must not be all zero).
    Full statement: `TWF false n → tdecode strict (tencode n) = .ok n`; it fails, see
    `C07_tnode_roundtrip_counterexample`. -/
theorem C07_tnode_roundtrip_partial (strict : Bool) (n : TNode) (hwf : TWF true n) :
    tdecode strict (tencode n) = .ok n := tnode_roundtrip true strict n hwf

/-- the same without the restriction, for a decoder whose `H256.UnmarshalSCALE` keeps the zero hash -/
theorem C07_tnode_roundtrip_spec (strict : Bool) (n : TNode) (hwf : TWF false n) :
    tdecodeG false strict (tencode n) = .ok n := tnode_roundtrip false strict n hwf

/-- a leaf whose value hash is 32 zero bytes does not decode back to itself -/
theorem C07_tnode_roundtrip_counterexample :
    ∃ n, TWF false n ∧ ∀ strict, tdecode strict (tencode n) ≠ .ok n := by
  refine ⟨.leaf [] 0 (.hashed (List.replicate 32 0)), ?_, ?_⟩
  · simp [TWF, TValueOK, HashOK]
  · intro strict
    have : tdecode strict (tencode (.leaf [] 0 (.hashed (List.replicate 32 0)))) =
        .ok (.leaf [] 0 (.hashed [])) := by cases strict <;> rfl
    rw [this]
    simp

/-- non-vacuity of the triedb round trip -/
example : TWF true (.branch [0x0a, 0xbc] 1 (some (.hashed (List.replicate 32 7)))
    ([.inline [0x41, 0x00], .hashed (List.replicate 32 9)] ++ List.replicate 14 .none)) := by
  simp [TWF, TValueOK, TChildOK, HashOK, List.replicate]


/-- The model has one flag for the reads inside pkg/scale.  This is enough: how the bytes of the
    compact length are read (zero-filling `Read` or `io.ReadFull`) cannot be observed through
    `decodeBytes`, only how the data bytes are read. -/
theorem C07_scale_int_mode_irrelevant (si si' sd : Bool) (r : Bytes) :
    scaleBytes2 si sd r = scaleBytes2 si' sd r ∧ scaleBytes2 sd sd r = scaleBytes sd r :=
  ⟨scaleBytes2_int_irrelevant si si' sd r, rfl⟩

end Gossamer.C07
