/-
C14: chain data structures encode as the specification defines.

  spec      `Gossamer.Chain` (Lib/ChainTypes.lean): the types of the Polkadot specification as SCALE
            descriptors + the canonical SCALE codec = the independent reference encoder;
            `Gossamer.Proto` (Lib/ChainProto.lean): protobuf wire format + block request/response.
  model     `Gossamer.C14` (Model/C14.lean): pkg/scale (the C11/C12 Go codec) applied to the Go
            declarations, `Header.Hash`, the protobuf mapping of block.go.

Theorems (all inputs):
  * C14_roundtrip, C14_roundtrip_<type>   every spec type round-trips through the reference codec
  * C14_encoding_injective                distinct values have distinct encodings
  * C14_encode_matches_spec               Go encoding = reference encoding, for every described type
  * C14_header_matches_spec, C14_fgjust_matches_spec   … also where the Go declaration is narrower
  * C14_roundtrip_go_partial (+ _counterexample)       Go decode ∘ Go encode = id (uint-5to7 excluded)
  * C14_header_other_counterexample       a spec-valid header with an `Other` item: not decodable
  * C14_header_hash, C14_header_hash_reachable, C14_header_hash_stale_counterexample
  * C14_fullvote_eq_localized             lib/grandpa's signed payload = finality-grandpa's
  * C14_varint_roundtrip, C14_wire_roundtrip, C14_blockrequest_roundtrip(_go), C14_blockdata_roundtrip,
    C14_blockresponse_roundtrip           protobuf reference codec
  * C14_request_message_roundtrip         block.go Encode/Decode of BlockRequestMessage
  * C14_digest_indices …                  variant tables
-/
import Gossamer.Model.C14
import Gossamer.Props.C11
namespace Gossamer.C14
open Gossamer Gossamer.Scale Gossamer.Chain

/-! ## 1. the reference codec round-trips on every type -/

/-- **round trip**, every described type, every well-typed value, any following bytes -/
theorem C14_roundtrip (c : CTy) (v : Val) (r : Bytes) (h : wtc c v = true) :
    dec c (enc c v ++ r) = some (v, r) := Chain.roundtrip c v r h

/-- **injectivity**: two values of a type with the same encoding are equal -/
theorem C14_encoding_injective (c : CTy) (v w : Val) (hv : wtc c v = true) (hw : wtc c w = true)
    (h : enc c v = enc c w) : v = w := Chain.enc_inj c v w hv hw h

theorem C14_roundtrip_header (v : Val) (r : Bytes) (h : wtc header v = true) :
    dec header (enc header v ++ r) = some (v, r) := C14_roundtrip _ v r h
theorem C14_roundtrip_digest (v : Val) (r : Bytes) (h : wtc digest v = true) :
    dec digest (enc digest v ++ r) = some (v, r) := C14_roundtrip _ v r h
theorem C14_roundtrip_body (v : Val) (r : Bytes) (h : wtc body v = true) :
    dec body (enc body v ++ r) = some (v, r) := C14_roundtrip _ v r h
theorem C14_roundtrip_babePreDigest (v : Val) (r : Bytes) (h : wtc babePreDigest v = true) :
    dec babePreDigest (enc babePreDigest v ++ r) = some (v, r) := C14_roundtrip _ v r h
theorem C14_roundtrip_babeConsensusDigest (v : Val) (r : Bytes) (h : wtc babeConsensusDigest v = true) :
    dec babeConsensusDigest (enc babeConsensusDigest v ++ r) = some (v, r) := C14_roundtrip _ v r h
theorem C14_roundtrip_grandpaConsensusDigest (v : Val) (r : Bytes)
    (h : wtc grandpaConsensusDigest v = true) :
    dec grandpaConsensusDigest (enc grandpaConsensusDigest v ++ r) = some (v, r) := C14_roundtrip _ v r h
theorem C14_roundtrip_vote (v : Val) (r : Bytes) (h : wtc vote v = true) :
    dec vote (enc vote v ++ r) = some (v, r) := C14_roundtrip _ v r h
theorem C14_roundtrip_fullVote (v : Val) (r : Bytes) (h : wtc fullVote v = true) :
    dec fullVote (enc fullVote v ++ r) = some (v, r) := C14_roundtrip _ v r h
theorem C14_roundtrip_signedVote (v : Val) (r : Bytes) (h : wtc signedVote v = true) :
    dec signedVote (enc signedVote v ++ r) = some (v, r) := C14_roundtrip _ v r h
theorem C14_roundtrip_commit (v : Val) (r : Bytes) (h : wtc commit v = true) :
    dec commit (enc commit v ++ r) = some (v, r) := C14_roundtrip _ v r h
theorem C14_roundtrip_justification (v : Val) (r : Bytes) (h : wtc justification v = true) :
    dec justification (enc justification v ++ r) = some (v, r) := C14_roundtrip _ v r h
theorem C14_roundtrip_grandpaMessage (v : Val) (r : Bytes) (h : wtc grandpaMessage v = true) :
    dec grandpaMessage (enc grandpaMessage v ++ r) = some (v, r) := C14_roundtrip _ v r h
theorem C14_roundtrip_fgCommit (n : CTy) (v : Val) (r : Bytes) (h : wtc (fgCommit n) v = true) :
    dec (fgCommit n) (enc (fgCommit n) v ++ r) = some (v, r) := C14_roundtrip _ v r h
theorem C14_roundtrip_fgJustification (n : CTy) (v : Val) (r : Bytes)
    (h : wtc (fgJustification n) v = true) :
    dec (fgJustification n) (enc (fgJustification n) v ++ r) = some (v, r) := C14_roundtrip _ v r h

/-- the descriptors are well formed, so the reference decoder is also SOUND on them (accepts only
    reference encodings) and rejects every truncation -/
theorem C14_wf : header.toTy.wf = true ∧ digest.toTy.wf = true ∧ babePreDigest.toTy.wf = true ∧
    babeConsensusDigest.toTy.wf = true ∧ grandpaConsensusDigest.toTy.wf = true ∧
    grandpaMessage.toTy.wf = true ∧ justification.toTy.wf = true ∧
    (fgJustification u32).toTy.wf = true ∧ equivocationProof.toTy.wf = true := by decide

theorem C14_header_decode_sound (bs : Bytes) (v : Val) (r : Bytes) (h : dec header bs = some (v, r)) :
    wtc header v = true ∧ bs = enc header v ++ r := Chain.sound header C14_wf.1 bs v r h

/-! ## 2. the Go encoder produces the reference encoding -/

/-- **byte-for-byte**: for every described type (all those whose Go declaration is the spec's
    shape) `scale.Marshal` of a value is exactly its reference encoding -/
theorem C14_encode_matches_spec (c : CTy) (v : Val) (h : wtc c v = true) : marshal c v = enc c v :=
  C11.C11_encode_canonical c.toTy v h

/-- `t'` extends `t`: every value of `t` is a value of `t'` with the same encoding -/
def Sub (t t' : Ty) : Prop :=
  ∀ v, wt t v = true → wt t' v = true ∧ ∀ C : Codec, encode C t' v = encode C t v

theorem Sub.refl (t : Ty) : Sub t t := fun _ h => ⟨h, fun _ => rfl⟩

theorem Sub.pair {a a' b b' : Ty} (ha : Sub a a') (hb : Sub b b') : Sub (.pair a b) (.pair a' b') := by
  intro v h
  cases v <;> simp [wt] at h
  rename_i x y
  have ⟨w1, e1⟩ := ha x h.1
  have ⟨w2, e2⟩ := hb y h.2
  exact ⟨by simp [wt, w1, w2], fun C => by simp [encode, e1 C, e2 C]⟩

theorem Sub.seq {t t' : Ty} (h : Sub t t') : Sub (.seq t) (.seq t') := by
  intro v hv
  cases v <;> simp [wt] at hv
  rename_i vs
  refine ⟨?_, fun C => ?_⟩
  · simp only [wt, Bool.and_eq_true, decide_eq_true_eq, List.all_eq_true]
    exact ⟨hv.1, fun x hx => (h x (hv.2 x hx)).1⟩
  · simp only [encode]
    rw [encList_congr (encode C t') (encode C t) vs (fun x hx => (h x (hv.2 x hx)).2 C)]

theorem Sub.enumNil (t' : Ty) : Sub .enumNil t' := by
  intro v h; cases v <;> simp [wt] at h

/-- the variant indices of an enum chain -/
def indices : Ty → List Nat
  | .enumCons i _ rest => i :: indices rest
  | _ => []

theorem wt_variant_mem : ∀ (t : Ty) (j : Nat) (x : Val), wt t (.variant j x) = true → j ∈ indices t := by
  intro t
  induction t with
  | enumCons i t rest _ ihr =>
    intro j x h
    by_cases hj : j = i
    · simp [indices, hj]
    · rw [wt_enumCons_ne t rest x hj] at h
      simp [indices, ihr j x h]
  | prim p => intro j x h; simp [wt, wtKind_variant] at h
  | _ => intro j x h; simp [wt] at h

/-- adding a variant with a fresh index in front of an enum extends it -/
theorem Sub.enumSkip (i : Nat) (t rest : Ty) (hi : i ∉ indices rest) (he : rest.isEnum = true) :
    Sub rest (.enumCons i t rest) := by
  intro v h
  have hv : ∃ j x, v = .variant j x := by
    cases rest <;> simp [Ty.isEnum] at he
    · simp [wt] at h
    · exact wt_enum_variant h
  obtain ⟨j, x, rfl⟩ := hv
  have hj : ¬ j = i := fun e => hi (e ▸ wt_variant_mem rest j x h)
  exact ⟨by rw [wt_enumCons_ne t rest x hj]; exact h, fun C => encode_enumCons_ne C t rest x hj⟩

/-- the Go `DigestItem` is the spec's without `Other` -/
theorem digestItem_sub : Sub goDigestItem.toTy digestItem.toTy :=
  Sub.enumSkip 0 _ _ (by decide) (by decide)

theorem headerOf_sub {i i' : CTy} (h : Sub i.toTy i'.toTy) : Sub (headerOf i).toTy (headerOf i').toTy :=
  Sub.pair (Sub.refl _) (Sub.pair (Sub.refl _) (Sub.pair (Sub.refl _) (Sub.pair (Sub.refl _)
    (Sub.pair (Sub.seq h) (Sub.refl _)))))

/-- **header, byte-for-byte**: every header the Go type can hold is a spec header and
    `scale.Marshal` of it is its reference encoding -/
theorem C14_header_matches_spec (v : Val) (h : wtc goHeader v = true) :
    wtc header v = true ∧ marshal goHeader v = enc header v := by
  have ⟨w, e⟩ := headerOf_sub digestItem_sub v h
  refine ⟨w, ?_⟩
  show C11.marshal goHeader.toTy v = encode Spec.codec header.toTy v
  rw [C11.C11_encode_canonical _ v h]
  exact (e Spec.codec).symm

theorem C14_digest_matches_spec (v : Val) (h : wtc goDigest v = true) :
    wtc digest v = true ∧ marshal goDigest v = enc digest v := by
  have ⟨w, e⟩ := Sub.seq digestItem_sub v h
  refine ⟨w, ?_⟩
  show C11.marshal goDigest.toTy v = encode Spec.codec digest.toTy v
  rw [C11.C11_encode_canonical _ v h]
  exact (e Spec.codec).symm

/-- **finality-grandpa justification, byte-for-byte** (ancestry headers without digest items,
    the only ones the Go type can hold) -/
theorem C14_fgjust_matches_spec (n : CTy) (v : Val) (h : wtc (goFgJustification n) v = true) :
    wtc (fgJustification n) v = true ∧ marshal (goFgJustification n) v = enc (fgJustification n) v := by
  have s : Sub (goFgJustification n).toTy (fgJustification n).toTy :=
    Sub.pair (Sub.refl _) (Sub.pair (Sub.refl _)
      (Sub.pair (Sub.seq (headerOf_sub (Sub.enumNil _))) (Sub.refl _)))
  have ⟨w, e⟩ := s v h
  refine ⟨w, ?_⟩
  show C11.marshal (goFgJustification n).toTy v = encode Spec.codec (fgJustification n).toTy v
  rw [C11.C11_encode_canonical _ v h]
  exact (e Spec.codec).symm

/-! ## 3. Go round trip -/

/-- **Go round trip** (partial: known finding uint-5to7).  Full statement wanted:
    `wtc c v → unmarshal c (marshal c v ++ r) = some (v, r)`; it holds when no compact integer
    (header number) and no sequence length of the value lies in [2^32, 2^56). -/
theorem C14_roundtrip_go_partial (c : CTy) (v : Val) (r : Bytes) (h : wtc c v = true)
    (hq : leavesOk C11.okLeaf C11.okLen c.toTy v = true) :
    unmarshal c (marshal c v ++ r) = some (v, r) := C11.C11_roundtrip_partial c.toTy v r h hq

/-- a header with number 2^32 is encoded and then refused -/
def hdrBig : Val :=
  let z : Val := .list (List.replicate 32 (.nat 0))
  .pair z (.pair (.nat 4294967296) (.pair z (.pair z (.pair (.list []) .unit))))

theorem C14_roundtrip_go_counterexample :
    wtc goHeader hdrBig = true ∧ (unmarshal goHeader (marshal goHeader hdrBig)).isNone = true := by
  constructor <;> decide

/-- the hypotheses of `C14_roundtrip_go_partial` hold for a real header -/
def hdrOk : Val :=
  let z : Val := .list (List.replicate 32 (.nat 7))
  .pair z (.pair (.nat 4294967295) (.pair z (.pair z
    (.pair (.list [.variant 6 (.pair (.list [.nat 66, .nat 65, .nat 66, .nat 69]) (.pair (.bytes [1, 2]) .unit)),
                   .variant 8 .unit]) .unit))))

example : wtc goHeader hdrOk = true ∧ leavesOk C11.okLeaf C11.okLen goHeader.toTy hdrOk = true := by
  constructor <;> decide

/-- **known finding digest-other**: a spec-valid header holding an `Other` digest item is not a
    value of the Go type, and the Go decoder refuses its reference encoding -/
def hdrOther : Val :=
  let z : Val := .list (List.replicate 32 (.nat 0))
  .pair z (.pair (.nat 1) (.pair z (.pair z (.pair (.list [.variant 0 (.bytes [1])]) .unit))))

theorem C14_header_other_counterexample :
    wtc header hdrOther = true ∧ wtc goHeader hdrOther = false ∧
    (unmarshal goHeader (enc header hdrOther)).isNone = true ∧
    dec header (enc header hdrOther) = some (hdrOther, []) := by
  refine ⟨by decide, by decide, by decide, ?_⟩
  have := C14_roundtrip header hdrOther [] (by decide)
  simpa using this

/-! ## 4. Header.Hash -/

/-- **header hash**: `Hash()` of a header whose cache is empty (a literal, a decoded header, a
    deep copy) is the hash of its encoding … -/
theorem C14_header_hash (H : Bytes → Bytes) (v : Val) :
    ((HeaderM.fresh v).hash H).1 = H (marshal goHeader v) := by
  simp [HeaderM.hash, HeaderM.fresh]

/-- … which is the hash of the REFERENCE encoding (BLAKE2b-256 for `H`) -/
theorem C14_header_hash_spec (H : Bytes → Bytes) (v : Val) (h : wtc goHeader v = true) :
    ((HeaderM.fresh v).hash H).1 = H (enc header v) := by
  rw [C14_header_hash, (C14_header_matches_spec v h).2]

/-- the cache is empty or holds the hash of the current fields -/
def HeaderM.Inv (H : Bytes → Bytes) (h : HeaderM) : Prop :=
  h.cache = zero32 ∨ h.cache = H (marshal goHeader h.fields)

theorem HeaderM.hash_inv (H : Bytes → Bytes) (h : HeaderM) (hi : h.Inv H) :
    (h.hash H).1 = H (marshal goHeader h.fields) ∧ (h.hash H).2.Inv H ∧ (h.hash H).2.fields = h.fields := by
  unfold HeaderM.hash
  by_cases hz : h.cache = zero32
  · rw [if_pos hz]; exact ⟨rfl, Or.inr rfl, rfl⟩
  · rw [if_neg hz]
    rcases hi with hi | hi
    · exact absurd hi hz
    · exact ⟨hi, Or.inr hi, rfl⟩

/-- `k` calls of `Hash()` -/
def hashN (H : Bytes → Bytes) : Nat → HeaderM → HeaderM
  | 0, h => h
  | k + 1, h => hashN H k (h.hash H).2

theorem hashN_inv (H : Bytes → Bytes) (k : Nat) : ∀ h : HeaderM, h.Inv H →
    (hashN H k h).Inv H ∧ (hashN H k h).fields = h.fields := by
  induction k with
  | zero => intro h hi; exact ⟨hi, rfl⟩
  | succ k ih =>
    intro h hi
    have ⟨_, i2, f2⟩ := HeaderM.hash_inv H h hi
    have ⟨i3, f3⟩ := ih _ i2
    exact ⟨i3, by rw [hashN, f3, f2]⟩

/-- **header hash, every reachable state without field assignment**: after `NewHeader` or any
    number of earlier `Hash()` calls, `Hash()` is the hash of the encoding -/
theorem C14_header_hash_reachable (H : Bytes → Bytes) (v : Val) (k : Nat) :
    ((hashN H k (HeaderM.fresh v)).hash H).1 = H (marshal goHeader v) := by
  have ⟨i, f⟩ := hashN_inv H k (HeaderM.fresh v) (Or.inl rfl)
  have := (HeaderM.hash_inv H _ i).1
  rw [this, f]; rfl

theorem C14_newHeader_hash (H : Bytes → Bytes) (v : Val) :
    ((HeaderM.new H v).hash H).1 = H (marshal goHeader v) :=
  C14_header_hash_reachable H v 1

/-- **known finding hash-stale-cache**: assigning a field after `Hash()` leaves the old hash in
    the cache (here `H` = the first 32 bytes of the encoding, i.e. the parent hash) -/
theorem C14_header_hash_stale_counterexample :
    ∃ (H : Bytes → Bytes) (v v' : Val), wtc goHeader v = true ∧ wtc goHeader v' = true ∧
      ((((HeaderM.fresh v).hash H).2.setFields v').hash H).1 ≠ H (marshal goHeader v') := by
  let z (k : Nat) : Val := .list (List.replicate 32 (.nat k))
  let mk (k : Nat) : Val := .pair (z k) (.pair (.nat 1) (.pair (z 0) (.pair (z 0) (.pair (.list []) .unit))))
  refine ⟨fun bs => bs.take 32, mk 7, mk 8, by decide, by decide, by decide⟩

/-! ## 5. the signed payload -/

/-- **lib/grandpa `FullVote` = finality-grandpa localized payload**: the bytes a lib/grandpa
    voter signs (stage byte, vote, round, set id) are the bytes `(Message, round, set_id)` of the
    specification, for the three message kinds 0 prevote, 1 precommit, 2 primary propose -/
theorem C14_fullvote_eq_localized (s : Nat) (hs : s ≤ 2) (hv nv rd sid : Val) :
    enc fullVote (.pair (.nat s) (.pair (.pair hv (.pair nv .unit)) (.pair rd (.pair sid .unit)))) =
    enc (localizedPayload u32)
      (.pair (.variant s (.pair hv (.pair nv .unit))) (.pair rd (.pair sid .unit))) := by
  have : s = 0 ∨ s = 1 ∨ s = 2 := by omega
  rcases this with rfl | rfl | rfl <;> rfl

/-! ## 6. protobuf messages -/

theorem C14_varint_roundtrip (n : Nat) (r : Bytes) : Proto.unvarint (Proto.varint n ++ r) = some (n, r) :=
  Proto.unvarint_varint n r

theorem C14_wire_roundtrip (fs : List Proto.WField) (hn : ∀ f ∈ fs, 1 ≤ f.num) :
    Proto.parse (Proto.encFields fs) = some fs := Proto.parse_encFields fs hn

/-- BlockRequest round-trips in field-number order … -/
theorem C14_blockrequest_roundtrip (m : Proto.BlockRequest) (h : m.wf) :
    Proto.BlockRequest.decode m.encode = some m := Proto.BlockRequest.decode_encode m h
/-- … and in protobuf-go's order (oneof member last) -/
theorem C14_blockrequest_roundtrip_go (m : Proto.BlockRequest) (h : m.wf) :
    Proto.BlockRequest.decode m.encodeGo = some m := Proto.BlockRequest.decode_encodeGo m h
theorem C14_blockdata_roundtrip (d : Proto.BlockData) : Proto.BlockData.decode d.encode = some d :=
  Proto.BlockData.decode_encode d
theorem C14_blockresponse_roundtrip (r : Proto.BlockResponse) :
    Proto.BlockResponse.decode r.encode = some r := Proto.BlockResponse.decode_encode r

theorem toPb_wf (m : BlockRequestMessage) (h : m.wf) : m.toPb.wf := by
  obtain ⟨h1, _, h3, _⟩ := h
  constructor
  · show 16777216 * m.requestedData < 4294967296
    omega
  · show m.max.getD 0 < 4294967296
    cases hm : m.max with
    | none => simp
    | some k => simpa using h3 k hm

theorem ofPb_toPb (m : BlockRequestMessage) (h : m.wf) :
    BlockRequestMessage.ofPb m.toPb = some m.norm := by
  obtain ⟨rd, sb, dir, mx⟩ := m
  obtain ⟨h1, h2, h3, h4⟩ := h
  simp only at h1 h2 h3 h4
  have e1 : 16777216 * rd / 16777216 % 256 = rd := by omega
  have e2 : dir % 256 = dir := Nat.mod_eq_of_lt h2
  cases sb with
  | number n =>
    have hlt : (if 4294967295 < n then 4294967295 else n) < 256 ^ 4 := by
      have : (256:Nat) ^ 4 = 4294967296 := by decide
      rw [this]; split <;> omega
    simp only [BlockRequestMessage.ofPb, BlockRequestMessage.toPb, fromBlockEncode, length_leBytes,
      if_true, natOfLE_leBytes_lt hlt, e1, e2, BlockRequestMessage.norm]
    cases mx with
    | none => simp
    | some k => by_cases hk : k = 0 <;> simp [hk]
  | hash b =>
    have hb : b.length = 32 := h4 b rfl
    have e4 : bytesToHash b = b := by simp [bytesToHash, hb]
    simp only [BlockRequestMessage.ofPb, BlockRequestMessage.toPb, fromBlockEncode, e1, e2, e4,
      BlockRequestMessage.norm]
    cases mx with
    | none => simp
    | some k => by_cases hk : k = 0 <;> simp [hk]

/-- **BlockRequestMessage round trip** (block.go `Encode` then `Decode`): the message comes back
    up to what the wire format cannot express — `Max = &0` reads back as nil, a start number
    above 2^32-1 was clamped by `FromBlock.Encode` -/
theorem C14_request_message_roundtrip (m : BlockRequestMessage) (h : m.wf) :
    BlockRequestMessage.decode m.encode = some m.norm := by
  simp only [BlockRequestMessage.decode, BlockRequestMessage.encode,
    Proto.BlockRequest.decode_encodeGo _ (toPb_wf m h), Option.bind_some, ofPb_toPb m h]

/-- … exactly: a message in normal form is read back unchanged -/
theorem C14_request_message_roundtrip_exact (m : BlockRequestMessage) (h : m.wf)
    (h1 : m.max ≠ some 0) (h2 : ∀ n, m.startingBlock = .number n → n ≤ 4294967295) :
    BlockRequestMessage.decode m.encode = some m := by
  rw [C14_request_message_roundtrip m h]
  obtain ⟨rd, sb, dir, mx⟩ := m
  simp only at h1 h2
  cases sb with
  | number n =>
    have : ¬ 4294967295 < n := by have := h2 n rfl; omega
    simp [BlockRequestMessage.norm, h1, this]
  | hash b => simp [BlockRequestMessage.norm, h1]

/-- the hypotheses are satisfiable: a typical sync request -/
example : (⟨19, .number 1000, 0, some 128⟩ : BlockRequestMessage).wf := by
  refine ⟨by decide, by decide, ?_, ?_⟩
  · intro k hk; cases hk; decide
  · intro b hb; cases hb

/-! ### BlockResponseMessage (block.go `blockDataToProtobuf` / `protobufToBlockData`) -/

/-- values a Go `types.BlockData` of a response holds and the Go decoder reads back: a 32-byte
    hash, a header of the Go type without a compact leaf in [2^32, 2^56) (finding uint-5to7),
    extrinsics of lengths a Go slice can have -/
def BlockDataM.wf (d : BlockDataM) : Prop :=
  d.hash.length = 32 ∧
  (∀ h, d.header = some h → wtc goHeader h = true ∧ leavesOk C11.okLeaf C11.okLen goHeader.toTy h = true) ∧
  (∀ es, d.body = some es → es.length < 4294967296 ∧ ∀ e ∈ es, e.length < maxBytesLen)

theorem unmarshal_goHeader_nil : unmarshal goHeader [] = none := by decide

theorem marshal_goHeader_ne_nil (h : Val) (hw : wtc goHeader h = true)
    (hq : leavesOk C11.okLeaf C11.okLen goHeader.toTy h = true) : marshal goHeader h ≠ [] := by
  intro e
  have := C14_roundtrip_go_partial goHeader h [] hw hq
  rw [e, List.append_nil, unmarshal_goHeader_nil] at this
  cases this

theorem flatten_encP (es : List Bytes) :
    (es.map (fun e => C11.encP .bytes (.bytes e))).flatten =
      encList (encode C11.codec (.prim .bytes)) (es.map Val.bytes) := by
  induction es with
  | nil => rfl
  | cons e es ih => simp only [List.map_cons, List.flatten_cons, encList, ih]; rfl

theorem map_bytesOfVal (es : List Bytes) : (es.map Val.bytes).map bytesOfVal = es := by
  induction es with
  | nil => rfl
  | cons e es ih => simp [bytesOfVal, ih]

theorem bodyOfEncoded_roundtrip (es : List Bytes) (hl : es.length < 4294967296)
    (he : ∀ e ∈ es, e.length < maxBytesLen) :
    bodyOfEncoded (es.map (fun e => C11.encP .bytes (.bytes e))) = some es := by
  have h64 : es.length < 2 ^ 64 := by
    have : (2:Nat) ^ 64 = 18446744073709551616 := by decide
    omega
  have h67 : es.length < 256 ^ 67 := lt_pow67 (by decide : 8 ≤ 67) (by rw [C11.pow256_8]; omega)
  have enc_eq : C11.encodeBigInt es.length ++ (es.map (fun e => C11.encP .bytes (.bytes e))).flatten =
      C11.marshal (.seq (.prim .bytes)) (.list (es.map Val.bytes)) := by
    rw [flatten_encP, C11.C11_encodeBigInt_canonical _ h67, ← C11.C11_encodeUint_canonical _ h64]
    simp [C11.marshal, encode, C11.codec]
  have hw : wt (.seq (.prim .bytes)) (.list (es.map Val.bytes)) = true := by
    simp only [wt, List.length_map, Bool.and_eq_true, decide_eq_true_eq, List.all_eq_true, List.mem_map]
    refine ⟨by unfold maxSeqLen; omega, ?_⟩
    rintro x ⟨e, hm, rfl⟩
    simpa [Prim.kind, wtKind] using he e hm
  have hq : leavesOk C11.okLeaf C11.okLen (.seq (.prim .bytes)) (.list (es.map Val.bytes)) = true := by
    simp only [leavesOk, List.length_map, Bool.and_eq_true, List.all_eq_true, List.mem_map]
    refine ⟨?_, ?_⟩
    · simp only [C11.okLen, C11.uintOk, Bool.or_eq_true, decide_eq_true_eq]; left; omega
    · rintro x ⟨e, _, rfl⟩; rfl
  have rt := C11.C11_roundtrip_partial _ _ [] hw hq
  rw [List.append_nil] at rt
  simp only [bodyOfEncoded, List.length_map]
  rw [enc_eq, rt]
  simp only [map_bytesOfVal]

theorem optOfBytes_getD (o : Option Bytes) : optOfBytes (o.getD []) = if o = some [] then none else o := by
  cases o with
  | none => rfl
  | some b => cases b <;> simp [optOfBytes]

theorem headerOfPb_toPb (hdr : Option Val)
    (h : ∀ x, hdr = some x → wtc goHeader x = true ∧ leavesOk C11.okLeaf C11.okLen goHeader.toTy x = true) :
    headerOfPb (headerToPb hdr) = some hdr := by
  cases hdr with
  | none => rfl
  | some x =>
    have ⟨hw, hq⟩ := h x rfl
    have rt := C14_roundtrip_go_partial goHeader x [] hw hq
    rw [List.append_nil] at rt
    simp only [headerOfPb, headerToPb, marshal_goHeader_ne_nil x hw hq, if_false, rt]

theorem bodyOfPb_toPb (bdy : Option (List Bytes))
    (h : ∀ es, bdy = some es → es.length < 4294967296 ∧ ∀ e ∈ es, e.length < maxBytesLen) :
    bodyOfPb (bodyToPb bdy) = some (if bdy = some [] then none else bdy) := by
  cases bdy with
  | none => rfl
  | some es =>
    cases es with
    | nil => rfl
    | cons e es =>
      have ⟨hl, he⟩ := h (e :: es) rfl
      simp only [bodyOfPb, bodyToPb]
      rw [bodyOfEncoded_roundtrip (e :: es) hl he]
      simp

theorem justOfPb_toPb (js : Option Bytes) : justOfPb (js.getD []) (js == some []) = js := by
  cases js with
  | none => rfl
  | some b => cases b <;> simp [justOfPb]

/-- one block: what `protobufToBlockData` reads from what `blockDataToProtobuf` wrote -/
theorem blockData_ofPb_toPb (d : BlockDataM) (h : d.wf) : BlockDataM.ofPb d.toPb = some d.norm := by
  obtain ⟨hash, hdr, bdy, rc, mq, js⟩ := d
  obtain ⟨h1, h2, h3⟩ := h
  simp only at h1 h2 h3
  have e1 : bytesToHash hash = hash := by simp [bytesToHash, h1]
  simp only [BlockDataM.ofPb, BlockDataM.toPb, BlockDataM.norm, headerOfPb_toPb hdr h2,
    bodyOfPb_toPb bdy h3, e1, justOfPb_toPb, optOfBytes_getD]

theorem optMapM_map_map {α β γ : Type} (f : β → Option γ) (g : α → β) (k : α → γ) (l : List α)
    (h : ∀ a ∈ l, f (g a) = some (k a)) : optMapM f (l.map g) = some (l.map k) := by
  induction l with
  | nil => rfl
  | cons a as ih =>
    simp only [List.map_cons, optMapM, h a (by simp), ih (fun x hx => h x (by simp [hx]))]

/-- **BlockResponseMessage round trip** (block.go `Encode` then `Decode`): every block comes back
    up to what the wire format cannot express — an empty body / receipt / message queue reads
    back as nil; an empty justification survives through `is_empty_justification` -/
theorem C14_response_message_roundtrip (ds : List BlockDataM) (h : ∀ d ∈ ds, d.wf) :
    responseDecode (responseEncode ds) = some (ds.map BlockDataM.norm) := by
  simp only [responseDecode, responseEncode, Proto.BlockResponse.decode_encode]
  exact optMapM_map_map BlockDataM.ofPb BlockDataM.toPb BlockDataM.norm ds
    (fun d hd => blockData_ofPb_toPb d (h d hd))

/-- the hypotheses are satisfiable: a block with header, body and an empty justification -/
example : (⟨List.replicate 32 1, some hdrOk, some [[1, 2], []], none, some [9], some []⟩ : BlockDataM).wf := by
  refine ⟨by decide, ?_, ?_⟩
  · intro h hh; cases hh; constructor <;> decide
  · intro es he; cases he; constructor <;> decide

/-! ## 7. variant index tables (tied to the Go `IndexValue` / `ValueAt` tables by `idx` cases) -/

theorem C14_digest_indices :
    goDigestItem.table = [(4, "ConsensusDigest"), (5, "SealDigest"), (6, "PreRuntimeDigest"),
      (8, "RuntimeEnvironmentUpdated")] ∧
    digestItem.table = (0, "Other") :: goDigestItem.table := ⟨rfl, rfl⟩

theorem C14_babe_indices :
    babePreDigest.table = [(1, "BabePrimaryPreDigest"), (2, "BabeSecondaryPlainPreDigest"),
      (3, "BabeSecondaryVRFPreDigest")] ∧
    babeConsensusDigest.table = [(1, "NextEpochData"), (2, "BABEOnDisabled"), (3, "VersionedNextConfigData")] :=
  ⟨rfl, rfl⟩

theorem C14_grandpa_indices :
    grandpaConsensusDigest.table = [(1, "GrandpaScheduledChange"), (2, "GrandpaForcedChange"),
      (3, "GrandpaOnDisabled"), (4, "GrandpaPause"), (5, "GrandpaResume")] ∧
    grandpaMessage.table = [(0, "VoteMessage"), (1, "CommitMessage"), (2, "VersionedNeighbourPacket"),
      (3, "CatchUpRequest"), (4, "CatchUpResponse")] ∧
    (fgMessage u32).table = [(0, "Prevote"), (1, "Precommit"), (2, "PrimaryPropose")] := ⟨rfl, rfl, rfl⟩

end Gossamer.C14
