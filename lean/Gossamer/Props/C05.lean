import Gossamer.Model.C05
namespace Gossamer.C05
end Gossamer.C05
