/-
C05 — storage read proofs are complete and sound: theorems about the model
(`Gossamer.Model.C05`: `generate`, `verify`).  Core Lean only.

`H` (BLAKE2b-256 in the code) is a parameter with 32-byte digests.  Collision resistance is not
assumed: each theorem concludes "… or a collision is exhibited", where the collision is between an
item SUPPLIED by the prover and a DIFFERENT node encoding or stored value of the state
(`CollisionWith`).  (A bare `∃ a ≠ b, H a = H b` is true of every hash with fixed-size digests and
would make the statements vacuous.)
-/
import Gossamer.Lib.TrieProofSound
import Gossamer.Lib.TrieProofComplete
import Gossamer.Lib.TrieProofMemo
import Gossamer.Lib.TrieRefine
namespace Gossamer.C05
open Gossamer Gossamer.TrieCodec Gossamer.Bridge Gossamer.Trie

/-! ### sizes: tries that represent maps with keys of at most 32767 bytes and values below 1 GiB -/

/-- keys short enough for the partial-key length field (the Go encoder panics beyond 65535
    nibbles), values shorter than 2^30 bytes -/
def SizesOK (es : Entries) : Prop := ∀ e ∈ es, e.1.length ≤ 32767 ∧ e.2.length < 1073741824

theorem wft_of_bnd : ∀ t : Trie, Canon t →
    (∀ k v, lookup t k = some v → k.length ≤ 65535 ∧ v.length < 1073741824) → WFT t := by
  intro t
  induction t with
  | nil => intro _ _; trivial
  | leaf pk v =>
    intro _ hb
    exact hb pk v (by simp)
  | branch pk v cs ih =>
    intro hc hb
    obtain ⟨hcs, hshape⟩ := hc
    have hchild : ∃ i, cs i ≠ nil := by
      rcases hshape with ⟨i, _, _, hi, _⟩ | ⟨_, i, hi⟩
      · exact ⟨i, hi⟩
      · exact ⟨i, hi⟩
    obtain ⟨i, hi⟩ := hchild
    obtain ⟨k, x, hk⟩ := canon_has_key (cs i) (hcs i) hi
    have h1 := (hb (pk ++ i :: k) x (by rw [lookup_branch_child]; exact hk)).1
    refine ⟨by simp at h1; omega, ?_, ?_⟩
    · intro y hy
      exact (hb pk y (by rw [lookup_branch_self]; exact hy)).2
    · intro j
      refine ih j (hcs j) ?_
      intro k' v' hk'
      have := hb (pk ++ j :: k') v' (by rw [lookup_branch_child]; exact hk')
      refine ⟨?_, this.2⟩
      have := this.1
      simp at this; omega

theorem wft_of_rep {t : Trie} {es : Entries} (h : Rep t es) (hs : SizesOK es) : WFT t := by
  apply wft_of_bnd t h.canon
  intro k v hk
  rw [← get_entriesN, h.entries] at hk
  have hmem := OMap.get_some_mem hk
  simp only [OMap.mapK, List.mem_map] at hmem
  obtain ⟨e, he, heq⟩ := hmem
  cases heq
  have := hs e he
  rw [length_toNibs]
  exact ⟨by omega, this.2⟩

/-! ### soundness -/

/-- **Soundness (trie level, every input).**  Whatever proof items are supplied (omitted,
    duplicated, foreign, altered nodes), if `Verify` accepts the non-empty value `value` for `key`
    under the root hash of the state trie `t`, then `Get(key)` on `t` returns exactly `value` — or
    one of the supplied items collides under `H` with a different node encoding or stored value
    of `t`. -/
theorem C05_sound (ver : Ver) (H : Bytes → Bytes) (hH : ∀ m, (H m).length = 32) (strict : Bool)
    (nodes : List Bytes) (t : Trie) (hw : WFT t) (key value : Bytes) (hv : value ≠ [])
    (h : verify H strict nodes (hashTrie ver H t) key value = .ok) :
    Trie.get t key = some value ∨ CollisionWith ver H (· ∈ nodes) t := by
  rcases injOn_or_collision ver H (· ∈ nodes) t with hinj | hc
  · left
    obtain ⟨pv, hget, hval⟩ := verify_sound_inj ver H hH strict nodes t hw hinj key value h
    rcases hval with hval | hval
    · exact absurd hval hv
    · rw [Trie.get, Gossamer.keyLEToNibbles_eq, hget, hval]
  · exact .inr hc

/-- the hypotheses of `C05_sound` are satisfiable and its first disjunct is what holds: on the
    three-key state below (`cexTrie`, defined with the counterexamples) the root alone proves `1f ↦ dd` -/
example : verify (fun b => (b ++ List.replicate 32 0).take 32) false
      [encodeNode Ver.v0 (fun b => (b ++ List.replicate 32 0).take 32)
        (Trie.put (Trie.put Trie.nil [0x12, 0x34] [0xaa]) [0x1f] [0xdd])]
      (hashTrie Ver.v0 (fun b => (b ++ List.replicate 32 0).take 32)
        (Trie.put (Trie.put Trie.nil [0x12, 0x34] [0xaa]) [0x1f] [0xdd])) [0x1f] [0xdd] = .ok ∧
    Trie.get (Trie.put (Trie.put Trie.nil [0x12, 0x34] [0xaa]) [0x1f] [0xdd]) [0x1f] = some [0xdd] := by
  decide

/-- FULL STATEMENT (false for the code, see `C05_sound_map_counterexample`):
    `Rep t es → verify … (specRoot ver H es) key value = ok → value ≠ [] →
       OMap.get key es = some value ∨ CollisionWith …`.
    **Soundness against the map the state represents**, proved outside the region of the
    `len(key) == 0` short cut of `retrieveFromBranch` (finding `empty-remaining-key` of C02, which
    `Verify` inherits through `Get`): a verified pair is an entry of the state. -/
theorem C05_sound_map_partial (ver : Ver) (H : Bytes → Bytes) (hH : ∀ m, (H m).length = 32)
    (strict : Bool) (nodes : List Bytes) {t : Trie} {es : Entries} (hr : Rep t es) (hs : SizesOK es)
    (key value : Bytes) (hv : value ≠ [])
    (hk : emptyKeyHit t (toNibs key) = false)
    (h : verify H strict nodes (specRoot ver H es) key value = .ok) :
    OMap.get key es = some value ∨ CollisionWith ver H (· ∈ nodes) t := by
  have hroot : specRoot ver H es = hashTrie ver H t := by rw [specRoot, ← hr.eq_build]
  rw [hroot] at h
  rcases C05_sound ver H hH strict nodes t (wft_of_rep hr hs) key value hv h with hg | hc
  · left; rw [← hr.get key hk]; exact hg
  · exact .inr hc

/-- **No proof for an absent key.**  If `key` is not in the state (and outside the short-cut region)
    no set of proof items makes `Verify` accept a non-empty value for it, short of a collision. -/
theorem C05_absent (ver : Ver) (H : Bytes → Bytes) (hH : ∀ m, (H m).length = 32)
    (strict : Bool) (nodes : List Bytes) {t : Trie} {es : Entries} (hr : Rep t es) (hs : SizesOK es)
    (key value : Bytes) (hv : value ≠ []) (hk : emptyKeyHit t (toNibs key) = false)
    (habs : OMap.get key es = none) :
    verify H strict nodes (specRoot ver H es) key value ≠ .ok ∨ CollisionWith ver H (· ∈ nodes) t := by
  by_cases h : verify H strict nodes (specRoot ver H es) key value = .ok
  · rcases C05_sound_map_partial ver H hH strict nodes hr hs key value hv hk h with hg | hc
    · rw [habs] at hg; cases hg
    · exact .inr hc
  · exact .inl h

/-- a present key is never in the short-cut region: a WRONG non-empty value for a PRESENT key is
    never accepted -/
theorem C05_wrong_value (ver : Ver) (H : Bytes → Bytes) (hH : ∀ m, (H m).length = 32)
    (strict : Bool) (nodes : List Bytes) {t : Trie} {es : Entries} (hr : Rep t es) (hs : SizesOK es)
    (key value v : Bytes) (hv : value ≠ []) (hpres : OMap.get key es = some v) (hne : value ≠ v) :
    verify H strict nodes (specRoot ver H es) key value ≠ .ok ∨ CollisionWith ver H (· ∈ nodes) t := by
  by_cases h : verify H strict nodes (specRoot ver H es) key value = .ok
  · rcases C05_sound_map_partial ver H hH strict nodes hr hs key value hv (hr.safe_of_present hpres) h
      with hg | hc
    · rw [hpres] at hg; cases hg; exact absurd rfl hne
    · exact .inr hc
  · exact .inl h

/-! ### the excluded regions are real: counterexamples on a concrete hash

`H0` pads or truncates to 32 bytes: a "hash" with 32-byte digests on which everything below is
decidable.  The honest strings of a trie are enumerated by `honestList`, so the absence of a relevant
collision is checked by computation too. -/

def H0 (b : Bytes) : Bytes := (b ++ List.replicate 32 0).take 32

theorem H0_len (m : Bytes) : (H0 m).length = 32 := by
  simp [H0]

def honestList (ver : Ver) (H : Bytes → Bytes) : Trie → List Bytes
  | .nil => [encodeNode ver H .nil]
  | .leaf pk v => [encodeNode ver H (.leaf pk v), v]
  | .branch pk v cs =>
    encodeNode ver H (.branch pk v cs) ::
      (v.toList ++ (List.finRange 16).flatMap fun i => honestList ver H (cs i))

theorem honest_mem (ver : Ver) (H : Bytes → Bytes) :
    ∀ (t : Trie) (b : Bytes), Honest ver H t b → b ∈ honestList ver H t := by
  intro t
  induction t with
  | nil => intro b h; simp only [Honest] at h; simp [honestList, h]
  | leaf pk v => intro b h; simp only [Honest] at h; simpa [honestList] using h
  | branch pk v cs ih =>
    intro b h
    simp only [Honest] at h
    simp only [honestList, List.mem_cons, List.mem_append, List.mem_flatMap, List.mem_finRange, true_and]
    rcases h with h | h | ⟨i, h⟩
    · exact .inl h
    · exact .inr (.inl (by simp [h]))
    · exact .inr (.inr ⟨i, ih i b h⟩)

/-- no supplied item collides with an honest string, checked on the finite lists -/
theorem no_collision_of_lists {ver : Ver} {H : Bytes → Bytes} {nodes : List Bytes} {t : Trie}
    (h : ∀ a ∈ nodes, ∀ b ∈ honestList ver H t, a ≠ b → H a ≠ H b) :
    ¬ CollisionWith ver H (· ∈ nodes) t := by
  rintro ⟨a, b, ha, hb, hne, hh⟩
  exact h a ha b (honest_mem ver H t b hb) hne hh

/-- the state `1234 ↦ aa, 123456 ↦ cc, 1f ↦ dd`: the key `12` ends on arrival at the branch of `1234` -/
def cexTrie : Trie :=
  Trie.put (Trie.put (Trie.put Trie.nil [0x12, 0x34] [0xaa]) [0x12, 0x34, 0x56] [0xcc]) [0x1f] [0xdd]
def cexMap : Entries :=
  OMap.upsert [0x1f] [0xdd] (OMap.upsert [0x12, 0x34, 0x56] [0xcc] (OMap.upsert [0x12, 0x34] [0xaa] []))

theorem cex_rep : Rep cexTrie cexMap := ((Rep.empty.put _ _).put _ _).put _ _

theorem cex_sizes : SizesOK cexMap := by
  have hm : cexMap = [([0x12, 0x34], [0xaa]), ([0x12, 0x34, 0x56], [0xcc]), ([0x1f], [0xdd])] := by decide
  intro e he
  rw [hm] at he
  simp only [List.mem_cons, List.not_mem_nil, or_false] at he
  rcases he with rfl | rfl | rfl <;> decide

/-- the honest proof of key `1234`: the root alone (every other node is inlined) -/
def cexProof : List Bytes := [encodeNode Ver.v0 H0 cexTrie]

/-- **Inside the short-cut region the map-level statement fails**: under the root of the state
    `{1234 ↦ aa, 123456 ↦ cc, 1f ↦ dd}` the honest proof of `1234` makes `Verify` confirm
    `(12, aa)`, a key that is not in the state, and no collision is involved. -/
theorem C05_sound_map_counterexample :
    ∃ (ver : Ver) (H : Bytes → Bytes) (strict : Bool) (nodes : List Bytes) (t : Trie) (es : Entries)
      (key value : Bytes),
      (∀ m, (H m).length = 32) ∧ Rep t es ∧ SizesOK es ∧ value ≠ [] ∧
      verify H strict nodes (specRoot ver H es) key value = .ok ∧
      ¬ (OMap.get key es = some value ∨ CollisionWith ver H (· ∈ nodes) t) := by
  refine ⟨Ver.v0, H0, false, cexProof, cexTrie, cexMap, [0x12], [0xaa], H0_len, cex_rep, cex_sizes,
    by decide, ?_, ?_⟩
  · have hroot : specRoot Ver.v0 H0 cexMap = hashTrie Ver.v0 H0 cexTrie := by
      rw [specRoot, ← cex_rep.eq_build]
    rw [hroot]
    decide
  · rintro (h | h)
    · revert h; decide
    · exact no_collision_of_lists (by decide) h

/-- the state `01 ↦ 02` -/
def cexTrie1 : Trie := Trie.put Trie.nil [0x01] [0x02]

/-- **The hypothesis `value ≠ []` of `C05_sound` is needed**: an EMPTY claimed value is accepted for
    a present key whatever its value (the `len(value) > 0` guard of `Verify`; finding `empty-claim`). -/
theorem C05_empty_claim_counterexample :
    ∃ (ver : Ver) (H : Bytes → Bytes) (strict : Bool) (nodes : List Bytes) (t : Trie) (key : Bytes),
      (∀ m, (H m).length = 32) ∧ WFT t ∧
      verify H strict nodes (hashTrie ver H t) key [] = .ok ∧
      ¬ (Trie.get t key = some [] ∨ CollisionWith ver H (· ∈ nodes) t) := by
  have hw : WFT cexTrie1 := by
    have hr : Rep cexTrie1 (OMap.upsert [0x01] [0x02] []) := Rep.empty.put _ _
    refine wft_of_rep hr ?_
    have hm : OMap.upsert ([0x01] : Bytes) [0x02] [] = [([0x01], [0x02])] := by decide
    intro e he
    rw [hm] at he
    simp only [List.mem_cons, List.not_mem_nil, or_false] at he
    subst he; decide
  refine ⟨Ver.v0, H0, false, [encodeNode Ver.v0 H0 cexTrie1], cexTrie1, [0x01], H0_len, hw,
    by decide, ?_⟩
  rintro (h | h)
  · revert h; decide
  · exact no_collision_of_lists (by decide) h

/-- **`Generate` has no proof of absence**: for a key that is not in the state it returns
    `ErrKeyNotFound` (finding `generate-absent`). -/
theorem C05_generate_absent_counterexample :
    ∃ (ver : Ver) (H : Bytes → Bytes) (t : Trie) (key : Bytes),
      Trie.get t key = none ∧ generate ver H t [key] = none :=
  ⟨Ver.v0, H0, cexTrie1, [0x03], by decide, by decide⟩

/-! ### completeness -/

/-- **Completeness (trie level).**  If `Generate` returns the proof `N` for the keys `ks` of the state
    trie `t` (V0 or V1, values on either side of the hashing threshold), then for every requested
    key `k` holding `v`, `Verify(N, root(t), k, v)` succeeds — or two DIFFERENT honest strings of
    the state (node encodings, stored values) collide under `H`. -/
theorem C05_complete (ver : Ver) (H : Bytes → Bytes) (hH : ∀ m, (H m).length = 32) (strict : Bool)
    (t : Trie) (hw : WFT t) (ks N : List Bytes) (hgen : generate ver H t ks = some N)
    (k v : Bytes) (hk : k ∈ ks) (hpres : Trie.lookup t (toNibs k) = some v) :
    verify H strict N (hashTrie ver H t) k v = .ok ∨ CollisionWith ver H (Honest ver H t) t := by
  rcases injOn_or_collision ver H (Honest ver H t) t with hinj | hc
  · exact .inl (verify_complete_inj ver H hH strict t hw hinj ks N hgen k v hk hpres)
  · exact .inr hc

/-- `Generate` succeeds whenever every requested key is present -/
theorem C05_generate_present (ver : Ver) (H : Bytes → Bytes) (t : Trie) (ks : List Bytes)
    (h : ∀ k ∈ ks, ∃ x, Trie.lookup t (toNibs k) = some x) : ∃ N, generate ver H t ks = some N :=
  generateFrom_present ver H t ks ([], []) h

/-- **Completeness against the map the state represents**: for keys of the state, the generated
    proof exists and lets the verifier confirm each requested entry under the state root. -/
theorem C05_complete_map (ver : Ver) (H : Bytes → Bytes) (hH : ∀ m, (H m).length = 32) (strict : Bool)
    {t : Trie} {es : Entries} (hr : Rep t es) (hs : SizesOK es) (ks : List Bytes)
    (hks : ∀ k ∈ ks, ∃ x, OMap.get k es = some x) :
    ∃ N, generate ver H t ks = some N ∧
      ∀ k ∈ ks, ∀ v, OMap.get k es = some v →
        verify H strict N (specRoot ver H es) k v = .ok ∨ CollisionWith ver H (Honest ver H t) t := by
  have hroot : specRoot ver H es = hashTrie ver H t := by rw [specRoot, ← hr.eq_build]
  obtain ⟨N, hN⟩ := C05_generate_present ver H t ks (fun k hk => by
    obtain ⟨x, hx⟩ := hks k hk
    exact ⟨x, by rw [hr.lookup_eq]; exact hx⟩)
  refine ⟨N, hN, fun k hk v hv => ?_⟩
  rw [hroot]
  exact C05_complete ver H hH strict t (wft_of_rep hr hs) ks N hN k v hk (by rw [hr.lookup_eq]; exact hv)

/-- the hypotheses are satisfiable and the conclusion is the left disjunct on a concrete state:
    the three-key state of the counterexample, proof for `1234` and `1f` -/
example : ∃ N, generate Ver.v0 H0 cexTrie [[0x12, 0x34], [0x1f]] = some N ∧
    verify H0 false N (hashTrie Ver.v0 H0 cexTrie) [0x12, 0x34] [0xaa] = .ok ∧
    verify H0 false N (hashTrie Ver.v0 H0 cexTrie) [0x1f] [0xdd] = .ok ∧
    verify H0 false N (hashTrie Ver.v0 H0 cexTrie) [0x1f] [0xaa] = .mismatch :=
  ⟨_, rfl, by decide, by decide, by decide⟩

/-! ### the driver runs the functions the theorems are about -/

/-- the driver computes `Generate` on a trie whose node encodings are computed once (`annot`,
    `generateE`) and the root as the hash of the annotated root: they are `generate` and `hashTrie` -/
theorem C05_driver_generate (ver : Ver) (H : Bytes → Bytes) (t : Trie) (ks : List Bytes) :
    generateE ver H (annot ver H t) ks = generate ver H t ks ∧
    H (annot ver H t).enc = hashTrie ver H t :=
  ⟨generateE_annot ver H t ks, root_annot ver H t⟩

/-- the driver caches the digest pairs of the current proof: `verify` is `verifyP` on them -/
theorem C05_driver_verify (H : Bytes → Bytes) (strict : Bool) (nodes : List Bytes) (root key value : Bytes) :
    verifyP strict (pairsOf H nodes) root key value = verify H strict nodes root key value := rfl

end Gossamer.C05
