/-
C13  128-bit integers have consistent numeric views.
Property theorems only (helper lemmas are local `private` facts about the Base numerals).
-/
import Gossamer.Model.C13
namespace Gossamer.C13
open Gossamer

/-! ### helper lemmas -/

theorem natOfBE_replicate_zero (k : Nat) (b : Bytes) :
    natOfBE (List.replicate k (0 : UInt8) ++ b) = natOfBE b := by
  induction k with
  | zero => simp
  | succ k ih => rw [List.replicate_succ, List.cons_append, natOfBE_cons, ih]; simp

theorem natOfBE_dropWhile_zero (b : Bytes) : natOfBE (b.dropWhile (· == 0)) = natOfBE b := by
  induction b with
  | nil => rfl
  | cons x xs ih =>
    by_cases h : x = 0
    · subst h; simp only [List.dropWhile_cons, beq_self_eq_true, if_true, ih, natOfBE_cons]; simp
    · have : (x == 0) = false := by simpa using h
      simp [this]

theorem natOfLE_trimLE (b : Bytes) : natOfLE (trimLE b) = natOfLE b := by
  unfold trimLE
  rw [← natOfBE_reverse, List.reverse_reverse, natOfBE_dropWhile_zero, natOfBE_reverse]

theorem natOfBE_trimBE (b : Bytes) : natOfBE (trimBE b) = natOfBE b := natOfBE_dropWhile_zero b

theorem natOfLE_lt (b : Bytes) : natOfLE b < 256 ^ b.length := by
  induction b with
  | nil => simp [natOfLE]
  | cons x xs ih =>
    simp only [natOfLE, List.length_cons, Nat.pow_succ]
    have := x.toNat_lt
    omega

theorem natOfBE_lt (b : Bytes) : natOfBE b < 256 ^ b.length := by
  have := natOfLE_lt b.reverse
  rw [← natOfBE_reverse, List.reverse_reverse, List.length_reverse] at this
  exact this

theorem natOfBE_append (a b : Bytes) : natOfBE (a ++ b) = natOfBE a * 256 ^ b.length + natOfBE b := by
  have := natOfLE_append b.reverse a.reverse
  rw [← List.reverse_append, ← natOfBE_reverse, ← natOfBE_reverse, ← natOfBE_reverse] at this
  simp only [List.reverse_reverse, List.length_reverse] at this
  rw [this]; rw [Nat.mul_comm]; omega

theorem u64_ofNat_toNat (n : Nat) (h : n < 2 ^ 64) : (UInt64.ofNat n).toNat = n := by
  simp [UInt64.toNat_ofNat', Nat.mod_eq_of_lt h]

/-- a 16-byte big-endian string splits into two 64-bit halves -/
theorem be_halves (b : Bytes) (h : b.length = 16) :
    (be64 b).toNat * 2 ^ 64 + (be64 (b.drop 8)).toNat = natOfBE b := by
  have h1 : (b.take 8).length = 8 := by simp [h]
  have h2 : ((b.drop 8).take 8) = b.drop 8 := by
    apply List.take_of_length_le; simp [h]
  have h3 : (b.drop 8).length = 8 := by simp [h]
  unfold be64
  rw [h2, u64_ofNat_toNat, u64_ofNat_toNat]
  · conv => rhs; rw [← List.take_append_drop 8 b]
    rw [natOfBE_append, h3]
  · have := natOfBE_lt (b.drop 8); rw [h3, show (256:Nat)^8 = 2^64 from by decide] at this; exact this
  · have := natOfBE_lt (b.take 8); rw [h1, show (256:Nat)^8 = 2^64 from by decide] at this; exact this

theorem le_halves (b : Bytes) (h : b.length = 16) :
    (le64 (b.drop 8)).toNat * 2 ^ 64 + (le64 b).toNat = natOfLE b := by
  have h1 : (b.take 8).length = 8 := by simp [h]
  have h2 : ((b.drop 8).take 8) = b.drop 8 := by
    apply List.take_of_length_le; simp [h]
  have h3 : (b.drop 8).length = 8 := by simp [h]
  unfold le64
  rw [h2, u64_ofNat_toNat, u64_ofNat_toNat]
  · conv => rhs; rw [← List.take_append_drop 8 b]
    rw [natOfLE_append, h1, show (256:Nat)^8 = 2^64 from by decide]; omega
  · have := natOfLE_lt (b.take 8); rw [h1, show (256:Nat)^8 = 2^64 from by decide] at this; exact this
  · have := natOfLE_lt (b.drop 8); rw [h3, show (256:Nat)^8 = 2^64 from by decide] at this; exact this

theorem natOfLE_leMin (n : Nat) : natOfLE (leMin n) = n := by
  induction n using Nat.strongRecOn with
  | _ n ih =>
    unfold leMin
    by_cases h : n = 0
    · simp [h, natOfLE]
    · simp only [h, dite_false, natOfLE, ih (n / 256) (by omega)]
      have : (UInt8.ofNat (n % 256)).toNat = n % 256 := by simp [UInt8.toNat_ofNat']
      rw [this]; omega

theorem length_leMin (n k : Nat) (h : n < 256 ^ k) : (leMin n).length ≤ k := by
  induction k generalizing n with
  | zero => have : n = 0 := by simpa using h
            subst this; unfold leMin; simp
  | succ k ih =>
    unfold leMin
    by_cases h0 : n = 0
    · simp [h0]
    · simp only [h0, dite_false, List.length_cons]
      have : n / 256 < 256 ^ k := by
        rw [Nat.pow_succ] at h; exact Nat.div_lt_of_lt_mul (by rw [Nat.mul_comm]; exact h)
      have := ih _ this; omega

theorem natOfLE_padLE (b : Bytes) : natOfLE (padLE b) = natOfLE b := by
  unfold padLE
  rw [← natOfBE_reverse, List.reverse_append, List.reverse_replicate, natOfBE_replicate_zero,
    natOfBE_reverse]

/-! ### property theorems -/

/-- little-endian bytes denote the value -/
theorem C13_bytesLE (u : U128) : natOfLE (bytesLE u) = u.toNat := by
  unfold bytesLE U128.toNat
  rw [natOfLE_trimLE, natOfLE_append, natOfLE_leBytes, natOfLE_leBytes, length_leBytes]
  have h1 := u.lower.toNat_lt
  have h2 := u.upper.toNat_lt
  rw [show (256:Nat)^8 = 2^64 from by decide, Nat.mod_eq_of_lt h1, Nat.mod_eq_of_lt h2]
  omega

/-- big-endian bytes denote the value -/
theorem C13_bytesBE (u : U128) : natOfBE (bytesBE u) = u.toNat := by
  have : beBytes 8 u.upper.toNat ++ beBytes 8 u.lower.toNat
      = (leBytes 8 u.lower.toNat ++ leBytes 8 u.upper.toNat).reverse := by
    simp [beBytes]
  unfold bytesBE
  rw [natOfBE_trimBE, this, natOfBE_reverse]
  have := C13_bytesLE u
  unfold bytesLE at this
  rwa [natOfLE_trimLE] at this

/-- the decimal string (and JSON form) is the decimal numeral of the value -/
theorem C13_string (u : U128) : toDec u = decChars u.toNat := by
  unfold toDec; rw [C13_bytesBE]

/-- big-integer conversion: every n < 2^128 converts to the value n -/
theorem C13_ofBig (n : Nat) (h : n < 2 ^ 128) : (ofBig n).toNat = n := by
  have hl : (leMin n).length ≤ 16 := length_leMin n 16 (by rw [show (256:Nat)^16 = 2^128 from by decide]; exact h)
  have key : ∀ b : Bytes, b.length = 16 → natOfBE b = n →
      ({ upper := be64 b, lower := be64 (b.drop 8) } : U128).toNat = n := by
    intro b hb hv
    unfold U128.toNat; simp only; rw [be_halves b hb, hv]
  unfold ofBig bigBytes
  simp only [List.length_reverse]
  by_cases hlt : (leMin n).length < 16
  · simp only [hlt, if_true]
    apply key
    · simp [padBE]; omega
    · unfold padBE; rw [natOfBE_replicate_zero, natOfBE_reverse, natOfLE_leMin]
  · simp only [hlt, if_false]
    apply key
    · simp; omega
    · rw [natOfBE_reverse, natOfLE_leMin]

/-- constructor from little-endian bytes (at most 16) denotes the little-endian number -/
theorem C13_ofBytesLE (b : Bytes) (h : b.length ≤ 16) : (ofBytesLE b).toNat = natOfLE b := by
  unfold ofBytesLE U128.toNat
  by_cases hlt : b.length < 16
  · simp only [hlt, if_true]
    rw [le_halves _ (by simp [padLE]; omega), natOfLE_padLE]
  · simp only [hlt, if_false]
    rw [le_halves _ (by omega)]

/-- constructor from big-endian bytes (at most 16) denotes the big-endian number -/
theorem C13_ofBytesBE (b : Bytes) (h : b.length ≤ 16) : (ofBytesBE b).toNat = natOfBE b := by
  unfold ofBytesBE U128.toNat
  by_cases hlt : b.length < 16
  · simp only [hlt, if_true]
    rw [be_halves _ (by simp [padBE]; omega)]; unfold padBE; rw [natOfBE_replicate_zero]
  · simp only [hlt, if_false]
    rw [be_halves _ (by omega)]

theorem toNat_lt (u : U128) : u.toNat < 2 ^ 128 := by
  unfold U128.toNat
  have h1 := u.lower.toNat_lt
  have h2 := u.upper.toNat_lt
  omega

theorem toNat_inj (u v : U128) (h : u.toNat = v.toNat) : u = v := by
  unfold U128.toNat at h
  have h1 := u.lower.toNat_lt
  have h2 := v.lower.toNat_lt
  have hu : u.upper.toNat = v.upper.toNat := by omega
  have hl : u.lower.toNat = v.lower.toNat := by omega
  cases u; cases v
  simp only [U128.mk.injEq]
  exact ⟨UInt64.toNat_inj.mp hu, UInt64.toNat_inj.mp hl⟩

/-- JSON-decoding the JSON form gives back the original value -/
theorem C13_json_roundtrip (u : U128) : unmarshal? (toDec u) = some u := by
  unfold unmarshal?
  rw [C13_string, parseDec_decChars]
  simp only [Option.map_some, Option.some.injEq]
  exact toNat_inj _ _ (C13_ofBig _ (toNat_lt u))

/-- all views at once (the statement of C13) -/
theorem C13_views (u : U128) :
    natOfLE (bytesLE u) = u.toNat ∧ natOfBE (bytesBE u) = u.toNat ∧
    toDec u = decChars u.toNat ∧ (ofBig u.toNat) = u ∧ unmarshal? (toDec u) = some u :=
  ⟨C13_bytesLE u, C13_bytesBE u, C13_string u,
   toNat_inj _ _ (C13_ofBig _ (toNat_lt u)), C13_json_roundtrip u⟩

/-- `Compare` is the order of the denoted numbers -/
theorem C13_compare (u v : U128) :
    compare u v = (if u.toNat > v.toNat then 1 else if u.toNat < v.toNat then -1 else 0) := by
  unfold compare U128.toNat
  have h1 := u.lower.toNat_lt
  have h2 := v.lower.toNat_lt
  simp only [gt_iff_lt, UInt64.lt_iff_toNat_lt]
  split <;> split <;> (try split) <;> (try split) <;> (try split) <;> (try split) <;> (try rfl) <;> omega

theorem length_trimLE_le (b : Bytes) : (trimLE b).length ≤ b.length := by
  unfold trimLE
  rw [List.length_reverse]
  have h : ∀ l : Bytes, (l.dropWhile (fun x => x == 0)).length ≤ l.length := by
    intro l
    induction l with
    | nil => simp
    | cons x xs ih =>
      simp only [List.dropWhile_cons]
      split
      · simp only [List.length_cons]; omega
      · simp
  have := h b.reverse
  simpa using this

theorem length_bytesLE_le (u : U128) : (bytesLE u).length ≤ 16 := by
  have := length_trimLE_le (leBytes 8 u.lower.toNat ++ leBytes 8 u.upper.toNat)
  simpa [bytesLE, length_leBytes] using this

/-- the SCALE form is exactly 16 bytes and denotes the value in little-endian -/
theorem C13_scale_value (u : U128) : (scaleEnc u).length = 16 ∧ natOfLE (scaleEnc u) = u.toNat := by
  have h := length_bytesLE_le u
  refine ⟨?_, ?_⟩
  · simp [scaleEnc, padLE]; omega
  · unfold scaleEnc; rw [natOfLE_padLE, C13_bytesLE]

/-- SCALE decoding of the SCALE encoding gives back the value (the path taken by AccountInfo and
    by genesis balances) -/
theorem C13_scale_roundtrip (u : U128) : scaleDec (scaleEnc u) = u := by
  apply toNat_inj
  have h := C13_scale_value u
  unfold scaleDec
  rw [C13_ofBytesLE _ (by omega), h.2]

/-! non-vacuity: a non-palindromic value (513 = 0x0201) satisfies every clause concretely -/
example : let u : U128 := ⟨0, 513⟩
    bytesLE u = [1, 2] ∧ bytesBE u = [2, 1] ∧ u.toNat = 513 := by decide
example : toDec ⟨0, 513⟩ = ['5','1','3'] := by
  rw [C13_string]; simp [decChars, decAux, U128.toNat, decDigit]

end Gossamer.C13
