/-
C31  Block request planning and serving cover exactly the requested range.

Part 1 (planning): for all `a ≤ b` the requests of `NewAscendingBlockRequests a b` are
consecutive, ascending, each of 1..128 blocks, and together cover `[a, b]` exactly once.
Part 2 (serving): a successful response of `CreateBlockResponse` starts at the requested block,
is parent-linked in the requested direction, is no longer than min(requested max, 128) and every
block carries exactly the requested fields (that exist for it) — over block states with forks and
after a finalisation that moved a prefix of the chain to the database and pruned forks.
Part 3 (limiter): a call is refused iff the same request was already served
`maxNumberOfSameRequestPerPeer` times to that peer within the LRU window of 100 keys.
-/
import Gossamer.Model.C31
namespace Gossamer.C31

/-! ## Part 1: planning -/

/-- the heights a list of planned requests asks for, in order -/
def heights (rs : List PReq) : List Nat := rs.flatMap (fun r => List.range' r.start r.max)

/-- `rs` is a chain of back-to-back requests from height `s` up to (excluding) height `e` -/
def Consecutive : Nat → List PReq → Nat → Prop
  | s, [], e => s = e
  | s, r :: rs, e => r.start = s ∧ Consecutive (s + r.max) rs e

theorem heights_of_consecutive : ∀ (rs : List PReq) (s e : Nat), Consecutive s rs e →
    heights rs = List.range' s (e - s) ∧ s ≤ e
  | [], s, e, h => by
    simp [Consecutive] at h
    subst h
    simp [heights]
  | r :: rs, s, e, h => by
    obtain ⟨h1, h2⟩ := h
    obtain ⟨ih, hle⟩ := heights_of_consecutive rs _ _ h2
    refine ⟨?_, by omega⟩
    have : heights (r :: rs) = List.range' r.start r.max ++ heights rs := by
      simp [heights]
    rw [this, ih, h1]
    have he : e - s = r.max + (e - (s + r.max)) := by omega
    rw [he, ← List.range'_append_1]

/-- blocks still to request at iteration `i` -/
private def rem (diff i : Nat) : Nat := diff - maxBlocks * i

private theorem planLoop_spec (q m : Nat) (hm : m < maxBlocks) :
    ∀ (cnt i start : Nat),
      i + cnt = (if m ≠ 0 then q + 1 else q) →
      start + rem (maxBlocks * q + m) i ≤ W →
      Consecutive start
        (planLoop (if m ≠ 0 then q + 1 else q) m cnt i start) (start + rem (maxBlocks * q + m) i)
      ∧ ∀ r ∈ planLoop (if m ≠ 0 then q + 1 else q) m cnt i start, 1 ≤ r.max ∧ r.max ≤ maxBlocks := by
  intro cnt
  induction cnt with
  | zero =>
    intro i start hi _
    simp only [planLoop, Consecutive, rem, maxBlocks] at *
    refine ⟨?_, by simp⟩
    split at hi <;> omega
  | succ cnt ih =>
    intro i start hi hW
    simp only [planLoop]
    by_cases hlast : i = (if m ≠ 0 then q + 1 else q) - 1 ∧ m ≠ 0
    · -- last, short request
      obtain ⟨hl, hm0⟩ := hlast
      simp only [hm0, ne_eq, not_false_eq_true, ite_true] at hi hl ⊢
      have hcnt : cnt = 0 := by omega
      have hiq : i = q := by omega
      subst hcnt
      simp only [hl, and_self, ite_true, planLoop, Consecutive,
        true_and, List.mem_singleton, forall_eq]
      simp only [rem, maxBlocks] at *
      subst hiq
      refine ⟨by omega, by omega, by omega⟩
    · simp only [hlast, ite_false]
      -- a full request of 128 blocks
      have hfull : maxBlocks ≤ rem (maxBlocks * q + m) i := by
        simp only [rem, maxBlocks] at *
        by_cases hm0 : m = 0
        · simp only [hm0, ne_eq, not_true_eq_false, ite_false] at hi hlast ⊢
          have : i + 1 ≤ q := by omega
          have : 128 * (i + 1) ≤ 128 * q := Nat.mul_le_mul_left _ this
          omega
        · simp only [hm0, ne_eq, not_false_eq_true, ite_true, and_true] at hi hlast ⊢
          have : i + 1 ≤ q := by omega
          have : 128 * (i + 1) ≤ 128 * q := Nat.mul_le_mul_left _ this
          omega
      have hrem : rem (maxBlocks * q + m) (i + 1) = rem (maxBlocks * q + m) i - maxBlocks := by
        simp only [rem, maxBlocks]
        omega
      by_cases hc : cnt = 0
      · subst hc
        simp only [planLoop, Consecutive, true_and, List.mem_singleton, forall_eq]
        refine ⟨?_, by simp [maxBlocks]⟩
        -- nothing is left after this request
        simp only [rem, maxBlocks] at *
        by_cases hm0 : m = 0
        · simp only [hm0, ne_eq, not_true_eq_false, ite_false] at hi
          have : q = i + 1 := by omega
          subst this
          omega
        · simp only [hm0, ne_eq, not_false_eq_true, ite_true, and_true] at hi hlast
          omega
      · -- more requests follow, so the next start did not wrap
        have hpos : 0 < rem (maxBlocks * q + m) (i + 1) := by
          simp only [rem, maxBlocks] at *
          by_cases hm0 : m = 0
          · simp only [hm0, ne_eq, not_true_eq_false, ite_false] at hi
            have : i + 2 ≤ q := by omega
            have : 128 * (i + 2) ≤ 128 * q := Nat.mul_le_mul_left _ this
            omega
          · simp only [hm0, ne_eq, not_false_eq_true, ite_true] at hi
            have : i + 1 ≤ q := by omega
            have : 128 * (i + 1) ≤ 128 * q := Nat.mul_le_mul_left _ this
            omega
        have hnowrap : (start + maxBlocks) % W = start + maxBlocks := by
          apply Nat.mod_eq_of_lt
          omega
        rw [hnowrap]
        obtain ⟨ihc, ihb⟩ := ih (i + 1) (start + maxBlocks) (by omega) (by omega)
        refine ⟨⟨rfl, ?_⟩, ?_⟩
        · have : start + maxBlocks + rem (maxBlocks * q + m) (i + 1)
              = start + rem (maxBlocks * q + m) i := by omega
          rw [this] at ihc
          exact ihc
        · intro r hr
          rcases List.mem_cons.mp hr with h | h
          · subst h
            simp [maxBlocks]
          · exact ihb r h

/-- the block count computed with wrap-around is the true count, except for the whole `uint` range -/
private theorem diff_eq (a b : Nat) (hab : a ≤ b) (hb : b < W) (hfull : ¬ (a = 0 ∧ b = W - 1)) :
    (b + W - ((a + W - 1) % W)) % W = b + 1 - a := by
  simp only [W] at *
  omega

/-- **Planning, chain form.** The requests are back to back from `a` to `b + 1`, each of 1..128 blocks. -/
theorem C31_plan_consecutive (a b : Nat) (hab : a ≤ b) (hb : b < W)
    (hfull : ¬ (a = 0 ∧ b = W - 1)) :
    Consecutive a (plan a b) (b + 1) ∧ ∀ r ∈ plan a b, 1 ≤ r.max ∧ r.max ≤ maxBlocks := by
  unfold plan
  have hd := diff_eq a b hab hb hfull
  simp only [show ¬ a > b by omega, ite_false, hd]
  by_cases h1 : b + 1 - a = 1
  · simp only [h1, ite_true, Consecutive, true_and, List.mem_singleton, forall_eq, maxBlocks]
    omega
  · simp only [h1, ite_false]
    have hm : (b + 1 - a) % maxBlocks < maxBlocks := Nat.mod_lt _ (by simp [maxBlocks])
    have hdm : maxBlocks * ((b + 1 - a) / maxBlocks) + (b + 1 - a) % maxBlocks = b + 1 - a :=
      Nat.div_add_mod _ _
    have key := planLoop_spec ((b + 1 - a) / maxBlocks) ((b + 1 - a) % maxBlocks) hm
      (if (b + 1 - a) % maxBlocks ≠ 0 then (b + 1 - a) / maxBlocks + 1 else (b + 1 - a) / maxBlocks)
      0 a (by simp) (by simp only [rem, hdm]; simp only [W] at *; omega)
    simp only [rem, hdm, Nat.mul_zero, Nat.sub_zero] at key
    have he : a + (b + 1 - a) = b + 1 := by omega
    rw [he] at key
    exact key

/-- **Planning covers exactly the requested range** (property C31, first sentence): for all
    `a ≤ b` (Go `uint`s; the single excluded pair is the whole 2^64 range, see the counterexample)
    the heights requested, read in order, are exactly `a, a+1, …, b` — every height once, ascending —
    and no request asks for more than `MaxBlocksInResponse` (nor for 0) blocks. -/
theorem C31_plan_partition (a b : Nat) (hab : a ≤ b) (hb : b < W)
    (hfull : ¬ (a = 0 ∧ b = W - 1)) :
    heights (plan a b) = List.range' a (b + 1 - a)
    ∧ Consecutive a (plan a b) (b + 1)
    ∧ ∀ r ∈ plan a b, 1 ≤ r.max ∧ r.max ≤ maxBlocks := by
  obtain ⟨hc, hbnd⟩ := C31_plan_consecutive a b hab hb hfull
  exact ⟨(heights_of_consecutive _ _ _ hc).1, hc, hbnd⟩

/-- an inverted range plans nothing -/
theorem C31_plan_empty (a b : Nat) (h : b < a) : plan a b = [] := by
  simp [plan, h]

/-- the excluded pair really fails: for the whole `uint` range the count wraps to 0 -/
theorem C31_plan_partition_counterexample : plan 0 (W - 1) = [] := by decide

example : plan 1 259 = [⟨1, 128⟩, ⟨129, 128⟩, ⟨257, 3⟩] := by decide
example : plan 0 128 = [⟨0, 128⟩, ⟨128, 1⟩] := by decide

/-! ## Part 2: serving -/

/-- A well-formed block state: block 0 is genesis (number 0, never pruned); every other block
    that is still known has an earlier, still known block as parent and the parent's number plus
    one.  (`addSeg` and `finalise` keep this, see `wf_addSeg`, `wf_finalise`.) -/
structure WF (t : Tree) : Prop where
  root : t.blocks[0]? = some ⟨0, 0, false⟩
  child : ∀ i, 0 < i → known t i = true →
    parentOf t i < i ∧ known t (parentOf t i) = true ∧ numOf t i = numOf t (parentOf t i) + 1

/-- `y` is a block of the tree other than genesis and `x` is its parent -/
def Link (t : Tree) (x y : Nat) : Prop := y ≠ 0 ∧ known t y = true ∧ parentOf t y = x

/-- every two neighbours of the list are related by `R` -/
def Linked (R : Nat → Nat → Prop) (l : List Nat) : Prop :=
  ∀ i x y, l[i]? = some x → l[i + 1]? = some y → R x y

/-- the fields block `h` must carry for `RequestedData = mask`: requested and stored -/
def expectedFields (t : Tree) (mask h : Nat) : Nat :=
  bit (mask.testBit 0) 1 + bit (mask.testBit 1 && hasBody t h) 2
    + bit (mask.testBit 2 && hasReceipt h) 4
    + bit (mask.testBit 3 && hasMessageQueue h) 8 + bit (mask.testBit 4 && hasJustification h) 16

/-! ### generic list lemmas -/

theorem linked_take {R} {l : List Nat} (n : Nat) (h : Linked R l) : Linked R (l.take n) := by
  intro i x y hx hy
  rw [List.getElem?_take] at hx hy
  by_cases h1 : i + 1 < n
  · have h0 : i < n := by omega
    simp only [h1, h0, ite_true] at hx hy
    exact h i x y hx hy
  · simp [h1] at hy

theorem linked_drop {R} {l : List Nat} (n : Nat) (h : Linked R l) : Linked R (l.drop n) := by
  intro i x y hx hy
  rw [List.getElem?_drop] at hx hy
  exact h (n + i) x y hx (by rw [← hy]; congr 1)

theorem linked_reverse {R} {l : List Nat} (h : Linked R l) :
    Linked (fun x y => R y x) l.reverse := by
  intro i x y hx hy
  have hi : i + 1 < l.length := by
    have := (List.getElem?_eq_some_iff.mp hy).1
    simpa using this
  rw [List.getElem?_reverse (by omega)] at hx hy
  have e : l.length - 1 - i = (l.length - 1 - (i + 1)) + 1 := by omega
  rw [e] at hx
  exact h _ y x hy hx

/-! ### the tree -/

theorem numOf_zero {t : Tree} (wf : WF t) : numOf t 0 = 0 := by
  simp [numOf, wf.root]

theorem known_zero {t : Tree} (wf : WF t) : known t 0 = true := by
  simp [known, wf.root]

theorem ne_zero_of_num_pos {t : Tree} (wf : WF t) {x : Nat} (h : 1 ≤ numOf t x) : x ≠ 0 := by
  intro h0
  subst h0
  rw [numOf_zero wf] at h
  omega

/-- the ancestors of a known block are known and numbered downwards -/
theorem upN_known {t : Tree} (wf : WF t) {h : Nat} (hk : known t h = true) :
    ∀ k, k ≤ numOf t h → known t (upN t h k) = true ∧ numOf t (upN t h k) = numOf t h - k
  | 0, _ => by simp [upN, hk]
  | k + 1, hle => by
    obtain ⟨ihk, ihn⟩ := upN_known wf hk k (by omega)
    have hne := ne_zero_of_num_pos wf (x := upN t h k) (by omega)
    obtain ⟨_, h2, h3⟩ := wf.child (upN t h k) (by omega) ihk
    simp only [upN]
    exact ⟨h2, by omega⟩

theorem numOf_upN {t : Tree} (wf : WF t) {h : Nat} (hk : known t h = true) (k : Nat)
    (hle : k ≤ numOf t h) : numOf t (upN t h k) = numOf t h - k := (upN_known wf hk k hle).2

theorem link_upN {t : Tree} (wf : WF t) {h : Nat} (hkn : known t h = true) (k : Nat)
    (hk : k < numOf t h) : Link t (upN t h (k + 1)) (upN t h k) := by
  obtain ⟨h1, h2⟩ := upN_known wf hkn k (by omega)
  exact ⟨ne_zero_of_num_pos wf (by omega), h1, rfl⟩

/-! ### `getBlockData` -/

private theorem testBit_mask (m i : Nat) : decide ((m &&& 2 ^ i) >>> i = 1) = m.testBit i := by
  have h1 : m &&& 2 ^ i = 2 ^ i * (m / 2 ^ i % 2) := by
    apply Nat.eq_of_testBit_eq
    intro j
    rw [Nat.testBit_and, Nat.testBit_two_pow, Nat.testBit_two_pow_mul]
    by_cases hj : i = j
    · subst hj
      simp only [decide_true, Bool.and_true, Nat.le_refl, Nat.sub_self, Bool.true_and]
      rw [Nat.testBit_eq_decide_div_mod_eq, Nat.testBit_eq_decide_div_mod_eq]
      simp
    · simp only [hj, decide_false, Bool.and_false]
      by_cases hle : i ≤ j
      · simp only [hle, decide_true, Bool.true_and]
        have hlt : m / 2 ^ i % 2 < 2 ^ (j - i) := by
          have : 2 ^ 1 ≤ 2 ^ (j - i) := Nat.pow_le_pow_right (by omega) (by omega)
          omega
        exact (Nat.testBit_lt_two_pow hlt).symm
      · simp [hle]
  rw [h1, Nat.shiftRight_eq_div_pow, Nat.mul_div_cancel_left _ (Nat.two_pow_pos i),
    Nat.testBit_eq_decide_div_mod_eq]

theorem getBlockData_known (t : Tree) (h mask : Nat) (hk : known t h = true) :
    getBlockData t h mask = ⟨h, expectedFields t mask h⟩ := by
  have b0 : decide (mask &&& 1 = 1) = mask.testBit 0 := by simpa using testBit_mask mask 0
  have b1 : decide ((mask &&& 2) >>> 1 = 1) = mask.testBit 1 := by simpa using testBit_mask mask 1
  have b2 : decide ((mask &&& 4) >>> 2 = 1) = mask.testBit 2 := by simpa using testBit_mask mask 2
  have b3 : decide ((mask &&& 8) >>> 3 = 1) = mask.testBit 3 := by simpa using testBit_mask mask 3
  have b4 : decide ((mask &&& 16) >>> 4 = 1) = mask.testBit 4 := by simpa using testBit_mask mask 4
  simp only [getBlockData, expectedFields, hk, b0, b1, b2, b3, b4, Bool.and_true]

/-! ### blocks by number: the chain of the best block -/

/-- the block with number `n` on the chain of the best block (`GetHashByNumber` for `n ≤ best`) -/
def canon (t : Tree) (n : Nat) : Nat := upN t (best t) (bestNum t - n)

/-- the response entry for block `h`: the block and exactly its requested fields -/
def blk (t : Tree) (mask h : Nat) : BData := ⟨h, expectedFields t mask h⟩

theorem hashByNumber_eq (t : Tree) (n : Nat) :
    hashByNumber t n = if n > bestNum t then none else some (canon t n) := rfl

theorem firstIdx_spec (n : Nat) : ∀ (l : List Blk) (i : Nat),
    firstIdx n l i = 0 ∨ ∃ b, l[firstIdx n l i - i]? = some b ∧ b.dead = false ∧ i ≤ firstIdx n l i
  | [], _ => Or.inl rfl
  | b :: rest, i => by
    simp only [firstIdx]
    split
    · rename_i hb
      right
      refine ⟨b, by simp, ?_, Nat.le_refl _⟩
      cases hd : b.dead <;> simp_all
    · rcases firstIdx_spec n rest (i + 1) with h0 | ⟨b', hb', hd', hle⟩
      · exact Or.inl h0
      · right
        refine ⟨b', ?_, hd', by omega⟩
        have e : firstIdx n rest (i + 1) - i = (firstIdx n rest (i + 1) - (i + 1)) + 1 := by omega
        rw [e, List.getElem?_cons_succ]
        exact hb'

/-- the best block is a block of the state -/
theorem best_known {t : Tree} (wf : WF t) : known t (best t) = true := by
  rcases firstIdx_spec (maxNum t) t.blocks.toList 0 with h0 | ⟨b, hb, hd, _⟩
  · simp only [best, firstWithNum, h0]
    exact known_zero wf
  · simp only [best, firstWithNum, known]
    simp only [Nat.sub_zero, Array.getElem?_toList] at hb
    simp [hb, hd]

theorem canon_known {t : Tree} (wf : WF t) {n : Nat} (_h : n ≤ bestNum t) :
    known t (canon t n) = true :=
  (upN_known wf (best_known wf) (bestNum t - n) (by simp only [bestNum]; omega)).1

theorem canon_num {t : Tree} (wf : WF t) {n : Nat} (h : n ≤ bestNum t) : numOf t (canon t n) = n := by
  have := numOf_upN wf (best_known wf) (bestNum t - n) (by simp only [bestNum]; omega)
  simp only [canon, bestNum] at *
  omega

theorem canon_link {t : Tree} (wf : WF t) {n : Nat} (h : n + 1 ≤ bestNum t) :
    Link t (canon t n) (canon t (n + 1)) := by
  have := link_upN wf (best_known wf) (bestNum t - n - 1) (by simp only [bestNum] at *; omega)
  have e1 : bestNum t - n - 1 + 1 = bestNum t - n := by omega
  have e2 : bestNum t - n - 1 = bestNum t - (n + 1) := by omega
  rw [e1, e2] at this
  exact this

theorem getBlockDataByNumber_ok {t : Tree} (wf : WF t) {n mask : Nat} {b : BData} (_hn : 1 ≤ n)
    (h : getBlockDataByNumber t n mask = .ok b) : n ≤ bestNum t ∧ b = blk t mask (canon t n) := by
  simp only [getBlockDataByNumber, hashByNumber_eq] at h
  by_cases hgt : n > bestNum t
  · simp [hgt] at h
  · simp only [hgt, ite_false] at h
    have hle : n ≤ bestNum t := by omega
    rw [getBlockData_known t _ mask (canon_known wf hle)] at h
    injection h with h
    exact ⟨hle, h.symm⟩

theorem ascByNumber_ok {t : Tree} (wf : WF t) (mask : Nat) :
    ∀ (cnt start : Nat) (bs : List BData), 1 ≤ start → ascByNumber t mask cnt start = .ok bs →
      bs.length = cnt ∧ (0 < cnt → start + cnt - 1 ≤ bestNum t)
      ∧ ∀ i, i < cnt → bs[i]? = some (blk t mask (canon t (start + i)))
  | 0, start, bs, _, h => by
    simp only [ascByNumber] at h
    injection h with h
    subst h
    simp
  | cnt + 1, start, bs, hs, h => by
    simp only [ascByNumber] at h
    split at h
    · simp at h
    · rename_i b hb
      split at h
      · simp at h
      · rename_i bs' hbs'
        injection h with h
        subst h
        obtain ⟨hle, hb'⟩ := getBlockDataByNumber_ok wf hs hb
        obtain ⟨ihl, ihb, ihi⟩ := ascByNumber_ok wf mask cnt (start + 1) bs' (by omega) hbs'
        refine ⟨by simp [ihl], ?_, ?_⟩
        · intro _
          by_cases hc : cnt = 0
          · omega
          · have := ihb (by omega)
            omega
        · intro i hi
          cases i with
          | zero => simp [hb']
          | succ j =>
            have := ihi j (by omega)
            have e : start + 1 + j = start + (j + 1) := by omega
            rw [e] at this
            simpa using this

theorem descByNumber_ok {t : Tree} (wf : WF t) (mask : Nat) :
    ∀ (cnt start : Nat) (bs : List BData), cnt ≤ start → descByNumber t mask cnt start = .ok bs →
      bs.length = cnt ∧ (0 < cnt → start ≤ bestNum t)
      ∧ ∀ i, i < cnt → bs[i]? = some (blk t mask (canon t (start - i)))
  | 0, start, bs, _, h => by
    simp only [descByNumber] at h
    injection h with h
    subst h
    simp
  | cnt + 1, start, bs, hs, h => by
    simp only [descByNumber] at h
    split at h
    · simp at h
    · rename_i b hb
      split at h
      · simp at h
      · rename_i bs' hbs'
        injection h with h
        subst h
        obtain ⟨hle, hb'⟩ := getBlockDataByNumber_ok wf (by omega) hb
        obtain ⟨ihl, _, ihi⟩ := descByNumber_ok wf mask cnt (start - 1) bs' (by omega) hbs'
        refine ⟨by simp [ihl], fun _ => hle, ?_⟩
        intro i hi
        cases i with
        | zero => simp [hb']
        | succ j =>
          have := ihi j (by omega)
          have e : start - 1 - j = start - (j + 1) := by omega
          rw [e] at this
          simpa using this

/-! ### blocks by hash: `Range` and `handleChainByHash` -/

theorem pathUp_length (t : Tree) (d : Nat) : ∀ k, (pathUp t d k).length = k
  | 0 => rfl
  | k + 1 => by simp [pathUp, pathUp_length t d k]

theorem pathUp_get (t : Tree) (d : Nat) :
    ∀ k j, j < k → (pathUp t d k)[j]? = some (upN t d (k - 1 - j))
  | 0, _, h => by omega
  | k + 1, 0, _ => by simp [pathUp]
  | k + 1, j + 1, h => by
    have := pathUp_get t d k j (by omega)
    have e : k + 1 - 1 - (j + 1) = k - 1 - j := by omega
    simp only [pathUp, List.getElem?_cons_succ, e]
    exact this

/-- what a successful `Range(a, d)` returns: the path `a = upN d k, …, upN d 1, d` -/
theorem range_ok {t : Tree} {a d : Nat} {sub : List Nat} (h : range t a d = some sub) :
    ∃ k, sub.length = k + 1 ∧ (∀ i, i ≤ k → sub[i]? = some (upN t d (k - i)))
      ∧ upN t d k = a ∧ numOf t d = numOf t a + k ∧ (a = d ∨ known t d = true) := by
  unfold range at h
  split at h
  · rename_i had
    injection h with h
    subst h
    subst had
    refine ⟨0, rfl, ?_, rfl, rfl, Or.inl rfl⟩
    intro i hi
    have : i = 0 := by omega
    subst this
    simp [upN]
  · split at h
    · simp at h
    · split at h
      · simp at h
      · split at h
        · simp at h
        · split at h
          · simp at h
          · split at h
            · simp at h
            · rename_i _ _ hkd _ hnum hup
              injection h with h
              subst h
              have hup' : upN t d (numOf t d - numOf t a) = a := by simpa using hup
              refine ⟨numOf t d - numOf t a, by simp [pathUp_length], ?_, hup', by omega,
                Or.inr (by simpa using hkd)⟩
              intro i hi
              cases i with
              | zero => simp [hup']
              | succ j =>
                have := pathUp_get t d (numOf t d - numOf t a) j (by omega)
                have e : numOf t d - numOf t a - 1 - j = numOf t d - numOf t a - (j + 1) := by omega
                rw [e] at this
                simpa using this

/-- the facts about a successful `Range(a, d)` with a known start that the serving code relies on -/
theorem range_facts {t : Tree} (wf : WF t) {a d : Nat} {sub : List Nat} (ha : known t a = true)
    (h : range t a d = some sub) :
    Linked (Link t) sub ∧ (∀ x ∈ sub, known t x = true) ∧ sub[0]? = some a
      ∧ sub[sub.length - 1]? = some d ∧ 0 < sub.length := by
  obtain ⟨k, hlen, hget, hup, hnum, hkd⟩ := range_ok h
  have hkd : known t d = true := by
    rcases hkd with h | h
    · rw [← h]; exact ha
    · exact h
  have hnumi : ∀ i, i ≤ k → numOf t (upN t d (k - i)) = numOf t a + i := by
    intro i hi
    rw [numOf_upN wf hkd (k - i) (by omega)]
    omega
  refine ⟨?_, ?_, ?_, ?_, by omega⟩
  · intro i x y hx hy
    have hi : i + 1 ≤ k := by
      have := (List.getElem?_eq_some_iff.mp hy).1
      omega
    rw [hget i (by omega)] at hx
    rw [hget (i + 1) hi] at hy
    injection hx with hx
    injection hy with hy
    subst hx
    subst hy
    have := link_upN wf hkd (k - (i + 1)) (by omega)
    have e : k - (i + 1) + 1 = k - i := by omega
    rw [e] at this
    exact this
  · intro x hx
    obtain ⟨i, hi, hxi⟩ := List.getElem_of_mem hx
    have hik : i ≤ k := by omega
    have hs : sub[i]? = some x := by rw [List.getElem?_eq_getElem hi, hxi]
    rw [hget i hik] at hs
    injection hs with hs
    subst hs
    exact (upN_known wf hkd (k - i) (by omega)).1
  · simpa [hup] using hget 0 (by omega)
  · have := hget k (by omega)
    simpa [hlen, upN] using this

/-- ids of a response -/
def idsOf (bs : List BData) : List Nat := bs.map (·.id)

/-- every entry is a block of the tree carrying exactly its requested fields -/
def FieldsExact (t : Tree) (mask : Nat) (bs : List BData) : Prop :=
  ∀ b ∈ bs, known t b.id = true ∧ b = blk t mask b.id

theorem map_getBlockData {t : Tree} (mask : Nat) :
    ∀ (l : List Nat), (∀ x ∈ l, known t x = true) →
      l.map (fun h => getBlockData t h mask) = l.map (blk t mask)
  | [], _ => rfl
  | x :: l, h => by
    simp only [List.map_cons]
    rw [getBlockData_known t x mask (h x (by simp)), map_getBlockData mask l
      (fun y hy => h y (by simp [hy]))]
    rfl

theorem idsOf_map_blk (t : Tree) (mask : Nat) (l : List Nat) : idsOf (l.map (blk t mask)) = l := by
  simp [idsOf, blk, List.map_map, Function.comp_def]

theorem fieldsExact_map_blk {t : Tree} (mask : Nat) (l : List Nat)
    (h : ∀ x ∈ l, known t x = true) : FieldsExact t mask (l.map (blk t mask)) := by
  intro b hb
  obtain ⟨x, hx, rfl⟩ := List.mem_map.mp hb
  exact ⟨h x hx, rfl⟩

/-- `handleChainByHash` on a known ancestor -/
theorem chainByHash_ok {t : Tree} (wf : WF t) {a d max mask : Nat} {desc : Bool}
    {bs : List BData} (ha : known t a = true)
    (h : chainByHash t a d max mask desc = .ok bs) :
    bs.length ≤ max ∧ FieldsExact t mask bs
    ∧ (desc = false → Linked (Link t) (idsOf bs) ∧ ∀ x, (idsOf bs)[0]? = some x → x = a)
    ∧ (desc = true → Linked (fun x y => Link t y x) (idsOf bs)
        ∧ ∀ x, (idsOf bs)[0]? = some x → x = d) := by
  unfold chainByHash at h
  split at h
  · simp at h
  · rename_i sub hr
    obtain ⟨hlink, hknown, hhead, hlast, hpos⟩ := range_facts wf ha hr
    injection h with h
    -- the pruned sub-chain
    generalize hs' : (if sub.length > max then
        (if desc = true then sub.drop (sub.length - max) else sub.take max) else sub) = sub' at h
    have hlen' : sub'.length ≤ max := by
      rw [← hs']
      split
      · split
        · simp only [List.length_drop]; omega
        · simp only [List.length_take]; omega
      · omega
    have hknown' : ∀ x ∈ sub', known t x = true := by
      intro x hx
      rw [← hs'] at hx
      split at hx
      · split at hx
        · exact hknown x (List.mem_of_mem_drop hx)
        · exact hknown x (List.mem_of_mem_take hx)
      · exact hknown x hx
    have hlink' : Linked (Link t) sub' := by
      rw [← hs']
      split
      · split
        · exact linked_drop _ hlink
        · exact linked_take _ hlink
      · exact hlink
    rw [map_getBlockData mask sub' hknown'] at h
    cases desc with
    | false =>
      simp only [Bool.false_eq_true, ite_false] at h hs'
      subst h
      refine ⟨by simpa using hlen', fieldsExact_map_blk mask sub' hknown', ?_, by simp⟩
      intro _
      rw [idsOf_map_blk]
      refine ⟨hlink', ?_⟩
      intro x hx
      rw [← hs'] at hx
      split at hx
      · rw [List.getElem?_take] at hx
        split at hx
        · rw [hhead] at hx; injection hx with hx; exact hx.symm
        · simp at hx
      · rw [hhead] at hx; injection hx with hx; exact hx.symm
    | true =>
      simp only [ite_true] at h hs'
      subst h
      have hfe : FieldsExact t mask (sub'.map (blk t mask)).reverse := by
        intro b hb
        exact fieldsExact_map_blk mask sub' hknown' b (List.mem_reverse.mp hb)
      refine ⟨by simpa using hlen', hfe, by simp, ?_⟩
      intro _
      have hids : idsOf (sub'.map (blk t mask)).reverse = sub'.reverse := by
        rw [← List.map_reverse, idsOf_map_blk]
      rw [hids]
      refine ⟨linked_reverse hlink', ?_⟩
      intro x hx
      have hl : 0 < sub'.length := by
        have := (List.getElem?_eq_some_iff.mp hx).1
        simpa using this
      rw [List.getElem?_reverse hl] at hx
      rw [← hs'] at hx hl
      split at hx
      · rename_i hgt
        simp only [hgt, ite_true, List.length_drop] at hl
        rw [List.getElem?_drop, List.length_drop] at hx
        have e : sub.length - max + (sub.length - (sub.length - max) - 1 - 0) = sub.length - 1 := by
          omega
        rw [e, hlast] at hx
        injection hx with hx
        exact hx.symm
      · simp only [Nat.sub_zero] at hx
        rw [hlast] at hx
        injection hx with hx
        exact hx.symm

/-! ### the property -/

theorem effMax_le (m : Option Nat) : effMax m ≤ maxBlocks := by
  unfold effMax
  split
  · split <;> simp only [maxBlocks] at * <;> omega
  · exact Nat.le_refl _

theorem effMax_le_max (x : Nat) : effMax (some x) ≤ x := by
  simp only [effMax]
  split <;> simp only [maxBlocks] at * <;> omega

/-- The block a request names. By hash: that block. By number: the block with that number on the
    chain of the best block; a descending request above the best block names the best block
    (`handleDescendingRequest`: "only return blocks from our best block and below"). -/
def StartsAt (t : Tree) (r : Request) (x : Nat) : Prop :=
  match r.from_ with
  | .hash h => x = h
  | .num n => if r.dir = 0 then x = canon t n else x = canon t (min n (bestNum t))

private theorem idsOf_get {bs : List BData} {cnt mask : Nat} {f : Nat → Nat}
    (hl : bs.length = cnt) (hg : ∀ i, i < cnt → bs[i]? = some (blk t mask (f i)))
    {i x : Nat} (hx : (idsOf bs)[i]? = some x) : i < cnt ∧ x = f i := by
  simp only [idsOf, List.getElem?_map] at hx
  by_cases hi : i < cnt
  · rw [hg i hi] at hx
    simp only [Option.map_some, blk] at hx
    injection hx with hx
    exact ⟨hi, hx.symm⟩
  · have : bs[i]? = none := by
      apply List.getElem?_eq_none
      omega
    simp [this] at hx

private theorem fields_of_get {t : Tree} {bs : List BData} {cnt mask : Nat} {f : Nat → Nat}
    (hl : bs.length = cnt) (hg : ∀ i, i < cnt → bs[i]? = some (blk t mask (f i)))
    (hk : ∀ i, i < cnt → known t (f i) = true) : FieldsExact t mask bs := by
  intro b hb
  obtain ⟨i, hi, hbi⟩ := List.getElem_of_mem hb
  have h1 : bs[i]? = some b := by rw [List.getElem?_eq_getElem hi, hbi]
  rw [hg i (by omega)] at h1
  injection h1 with h1
  subst h1
  exact ⟨hk i (by omega), rfl⟩

/-- the conclusions of the serving property for one response -/
structure ServedChain (t : Tree) (r : Request) (bs : List BData) : Prop where
  /-- no longer than the requested maximum and the protocol maximum -/
  len_protocol : bs.length ≤ maxBlocks
  len_requested : ∀ m, r.max = some m → bs.length ≤ m
  /-- every entry is a block of the tree with exactly the requested fields -/
  fields : FieldsExact t r.mask bs
  /-- the first block, if any, is the requested block -/
  start : ∀ x, (idsOf bs)[0]? = some x → StartsAt t r x
  /-- ascending: every next block is a child of the one before (gap-free, parent to child) -/
  asc : r.dir = 0 → Linked (Link t) (idsOf bs)
  /-- descending: every next block is the parent of the one before (gap-free, child to parent) -/
  desc : r.dir = 1 → Linked (fun x y => Link t y x) (idsOf bs)

private theorem served_of_effMax {r : Request} {bs : List BData}
    (hlen : bs.length ≤ effMax r.max) :
    bs.length ≤ maxBlocks ∧ ∀ m, r.max = some m → bs.length ≤ m := by
  refine ⟨Nat.le_trans hlen (effMax_le _), ?_⟩
  intro m hm
  rw [hm] at hlen
  exact Nat.le_trans hlen (effMax_le_max m)

theorem handleAscending_ok {t : Tree} (wf : WF t) {r : Request} {bs : List BData}
    (hdir : r.dir = 0) (hgen : r.from_ ≠ .num 0) (h : handleAscending t r = .ok bs) :
    ServedChain t r bs := by
  unfold handleAscending at h
  cases hf : r.from_ with
  | hash hh =>
    simp only [hf] at h
    split at h
    · simp at h
    · rename_i hk
      have hk' : known t hh = true := by simpa using hk
      split at h
      · simp at h
      · rename_i eh _
        obtain ⟨hlen, hfe, hasc, _⟩ := chainByHash_ok wf hk' h
        obtain ⟨hl, hst⟩ := hasc rfl
        obtain ⟨h1, h2⟩ := served_of_effMax (r := r) hlen
        exact ⟨h1, h2, hfe, fun x hx => by simp only [StartsAt, hf]; exact hst x hx,
          fun _ => hl, fun hd => by omega⟩
  | num n =>
    have hn : n ≠ 0 := by
      intro h0
      subst h0
      exact hgen hf
    simp only [hf, hn, ite_false] at h
    split at h
    · simp at h
    · rename_i hbest
      have hmod : (n + effMax r.max + W - 1) % W ≤ n + effMax r.max - 1 := by
        simp only [W]
        omega
      generalize (n + effMax r.max + W - 1) % W = e at h hmod
      generalize hend : (if e > bestNum t then bestNum t else e) = en at h
      have hen : en ≤ e := by
        rw [← hend]
        split <;> omega
      obtain ⟨hl, hb, hg⟩ := ascByNumber_ok wf r.mask _ n bs (by omega) h
      have hcnt : bs.length ≤ effMax r.max := by
        rw [hl]
        omega
      obtain ⟨h1, h2⟩ := served_of_effMax (r := r) hcnt
      have hkn : ∀ i, i < bs.length → known t (canon t (n + i)) = true := by
        intro i hi
        have := hb (by omega)
        exact canon_known wf (by omega)
      refine ⟨h1, h2, fields_of_get hl hg (by rw [← hl]; exact hkn), ?_, ?_, fun hd => by omega⟩
      · intro x hx
        obtain ⟨_, hx'⟩ := idsOf_get hl hg hx
        simp only [StartsAt, hf, hdir, ite_true]
        simpa using hx'
      · intro _ i x y hx hy
        obtain ⟨_, hx'⟩ := idsOf_get hl hg hx
        obtain ⟨hi, hy'⟩ := idsOf_get hl hg hy
        subst hx'
        subst hy'
        have := hb (by omega)
        exact canon_link wf (by omega)

theorem handleDescending_ok {t : Tree} (wf : WF t) {r : Request} {bs : List BData}
    (hdir : r.dir = 1) (h : handleDescending t r = .ok bs) : ServedChain t r bs := by
  unfold handleDescending at h
  cases hf : r.from_ with
  | hash hh =>
    simp only [hf] at h
    split at h
    · simp at h
    · generalize hend : (if numOf t hh > effMax r.max then numOf t hh - effMax r.max + 1 else 1)
        = en at h
      have hen : 1 ≤ en := by
        rw [← hend]
        split <;> omega
      split at h
      · simp at h
      · rename_i eh heh
        -- the end block is on the best chain and has a number ≥ 1
        rw [hashByNumber_eq] at heh
        by_cases hgt : en > bestNum t
        · simp [hgt] at heh
        · simp only [hgt, ite_false] at heh
          injection heh with heh
          have hk : known t eh = true := by
            rw [← heh]
            exact canon_known wf (by omega)
          obtain ⟨hlen, hfe, _, hdesc⟩ := chainByHash_ok wf hk h
          obtain ⟨hl, hst⟩ := hdesc rfl
          obtain ⟨h1, h2⟩ := served_of_effMax (r := r) hlen
          exact ⟨h1, h2, hfe, fun x hx => by simp only [StartsAt, hf]; exact hst x hx,
            fun hd => by omega, fun _ => hl⟩
  | num n =>
    simp only [hf] at h
    generalize hs : (if bestNum t < n then bestNum t else n) = s at h
    have hsmin : s = min n (bestNum t) := by
      rw [← hs]
      split <;> omega
    obtain ⟨hl, hb, hg⟩ := descByNumber_ok wf r.mask _ s bs (by split <;> omega) h
    have hcnt : bs.length ≤ effMax r.max := by
      rw [hl]
      split <;> omega
    have hcs : bs.length ≤ s := by
      rw [hl]
      split <;> omega
    obtain ⟨h1, h2⟩ := served_of_effMax (r := r) hcnt
    have hkn : ∀ i, i < bs.length → known t (canon t (s - i)) = true := by
      intro i hi
      have := hb (by omega)
      exact canon_known wf (by omega)
    refine ⟨h1, h2, fields_of_get hl hg (by rw [← hl]; exact hkn), ?_, fun hd => by omega, ?_⟩
    · intro x hx
      obtain ⟨_, hx'⟩ := idsOf_get hl hg hx
      have hd1 : ¬ r.dir = 0 := by omega
      simp only [StartsAt, hf, hd1, ite_false, ← hsmin]
      simpa using hx'
    · intro _ i x y hx hy
      obtain ⟨_, hx'⟩ := idsOf_get hl hg hx
      obtain ⟨hi, hy'⟩ := idsOf_get hl hg hy
      subst hx'
      subst hy'
      have := hb (by omega)
      have hlk := canon_link wf (n := s - (i + 1)) (by omega)
      have e : s - (i + 1) + 1 = s - i := by omega
      rw [e] at hlk
      exact hlk

/-
Full statement (property C31, second sentence), for every well-formed tree `t`, request `r`:
    serve t r = .ok bs → ServedChain t r bs
It fails only for an ascending request by number for block 0, which the code answers from block 1
(`handleAscendingRequest`: "if startBlock == 0 { startBlock = 1 }", asserted by the repository's
own test `ascending_request_nil_startHash`): see `C31_serve_chain_counterexample`.
-/

/-- **A served response is a gap-free chain from the requested block** (property C31, second
    sentence): for every well-formed block tree and every request (by number or by hash, either
    direction, any `Max`, any field mask) other than "ascending from number 0", a successful
    response (1) has at most `min(Max, 128)` blocks, (2) starts at the requested block,
    (3) is parent-linked in the requested direction, every block being a block of the tree,
    (4) carries for every block exactly the requested fields (that are stored for it). -/
theorem C31_serve_chain_partial (t : Tree) (wf : WF t) (r : Request) (bs : List BData)
    (hgen : ¬ (r.from_ = .num 0 ∧ r.dir = 0)) (h : serve t r = .ok bs) : ServedChain t r bs := by
  unfold serve dispatch at h
  split at h
  · simp at h
  · split at h
    · rename_i hd
      exact handleAscending_ok wf hd (fun hf => hgen ⟨hf, hd⟩) h
    · split at h
      · rename_i hd
        exact handleDescending_ok wf hd h
      · simp at h

/-! ### requests by number are always answered, with as many blocks as allowed and available -/

theorem getBlockDataByNumber_total (t : Tree) (mask : Nat) {n : Nat} (h : n ≤ bestNum t) :
    ∃ b, getBlockDataByNumber t n mask = .ok b := by
  simp only [getBlockDataByNumber, hashByNumber_eq, show ¬ n > bestNum t by omega, ite_false]
  exact ⟨_, rfl⟩

theorem ascByNumber_total (t : Tree) (mask : Nat) :
    ∀ (cnt start : Nat), start + cnt ≤ bestNum t + 1 →
      ∃ bs, ascByNumber t mask cnt start = .ok bs ∧ bs.length = cnt
  | 0, _, _ => ⟨[], rfl, rfl⟩
  | cnt + 1, start, h => by
    obtain ⟨b, hb⟩ := getBlockDataByNumber_total t mask (n := start) (by omega)
    obtain ⟨bs, hbs, hl⟩ := ascByNumber_total t mask cnt (start + 1) (by omega)
    exact ⟨b :: bs, by simp only [ascByNumber, hb, hbs], by simp [hl]⟩

theorem descByNumber_total (t : Tree) (mask : Nat) :
    ∀ (cnt start : Nat), start ≤ bestNum t →
      ∃ bs, descByNumber t mask cnt start = .ok bs ∧ bs.length = cnt
  | 0, _, _ => ⟨[], rfl, rfl⟩
  | cnt + 1, start, h => by
    obtain ⟨b, hb⟩ := getBlockDataByNumber_total t mask (n := start) h
    obtain ⟨bs, hbs, hl⟩ := descByNumber_total t mask cnt (start - 1) (by omega)
    exact ⟨b :: bs, by simp only [descByNumber, hb, hbs], by simp [hl]⟩

theorem serve_asc_by_number_length (t : Tree) (n : Nat) (mx : Option Nat) (mask : Nat)
    (hmask : mask ≠ 0) (hW : bestNum t + maxBlocks < W) (h1 : 1 ≤ n) (hn : n ≤ bestNum t) :
    ∃ bs, serve t ⟨.num n, 0, mx, mask⟩ = .ok bs
      ∧ bs.length = min (effMax mx) (bestNum t + 1 - n) := by
  have hmx := effMax_le mx
  have hn0 : n ≠ 0 := by omega
  have hb : ¬ bestNum t < n := by omega
  have hmod : (n + effMax mx + W - 1) % W = n + effMax mx - 1 := by
    simp only [W, maxBlocks] at hW hmx ⊢
    omega
  have hs : serve t ⟨.num n, 0, mx, mask⟩ = ascByNumber t mask
      ((if n + effMax mx - 1 > bestNum t then bestNum t else n + effMax mx - 1) + 1 - n) n := by
    simp only [serve, dispatch, handleAscending, hmask, hn0, hb, hmod, ite_true, ite_false]
  obtain ⟨bs, hbs, hl⟩ := ascByNumber_total t mask
    ((if n + effMax mx - 1 > bestNum t then bestNum t else n + effMax mx - 1) + 1 - n) n
    (by split <;> omega)
  refine ⟨bs, by rw [hs, hbs], ?_⟩
  rw [hl]
  split <;> omega

theorem serve_desc_by_number_length (t : Tree) (n : Nat) (mx : Option Nat) (mask : Nat)
    (hmask : mask ≠ 0) :
    ∃ bs, serve t ⟨.num n, 1, mx, mask⟩ = .ok bs
      ∧ bs.length = min (effMax mx) (min n (bestNum t)) := by
  generalize hs : (if bestNum t < n then bestNum t else n) = s
  have hsmin : s = min n (bestNum t) := by
    rw [← hs]
    split <;> omega
  have hserve : serve t ⟨.num n, 1, mx, mask⟩ = descByNumber t mask
      (s + 1 - (if s > effMax mx then s - effMax mx + 1 else 1)) s := by
    simp only [serve, dispatch, handleDescending, hmask, hs, ite_true, ite_false,
      show ¬ (1 : Nat) = 0 by omega]
  obtain ⟨bs, hbs, hl⟩ := descByNumber_total t mask
    (s + 1 - (if s > effMax mx then s - effMax mx + 1 else 1)) s (by omega)
  refine ⟨bs, by rw [hserve, hbs], ?_⟩
  rw [hl, ← hsmin]
  split <;> omega

/-- **Requests by number are answered in full**: an ascending request for an existing block
    `1 ≤ n ≤ best` returns exactly `min(Max, 128, best - n + 1)` blocks, a descending request
    from `n` returns exactly `min(Max, 128, min(n, best))` blocks (down to block 1; genesis is
    never served by number).  With `C31_serve_chain_partial` this determines the response.
    (For ascending requests block numbers are assumed to stay 128 below 2^64.) -/
theorem C31_serve_by_number_length (t : Tree) (r : Request) (n : Nat) (hmask : r.mask ≠ 0)
    (hf : r.from_ = .num n) :
    (r.dir = 0 → bestNum t + maxBlocks < W → 1 ≤ n → n ≤ bestNum t →
      ∃ bs, serve t r = .ok bs ∧ bs.length = min (effMax r.max) (bestNum t + 1 - n))
    ∧ (r.dir = 1 →
      ∃ bs, serve t r = .ok bs ∧ bs.length = min (effMax r.max) (min n (bestNum t))) := by
  obtain ⟨fr, dir, mx, mask⟩ := r
  simp only at hf hmask ⊢
  subst hf
  constructor
  · intro hd hW h1 hn
    subst hd
    exact serve_asc_by_number_length t n mx mask hmask hW h1 hn
  · intro hd
    subst hd
    exact serve_desc_by_number_length t n mx mask hmask

/-! ### the trees of the correspondence run are well formed (the theorems are not vacuous) -/

theorem get_push_lt (bs : Array Blk) (b : Blk) {i : Nat} (h : i < bs.size) :
    (bs.push b)[i]? = bs[i]? := by
  rw [Array.getElem?_push]
  have : i ≠ bs.size := by omega
  simp [this]

theorem known_lt {t : Tree} {i : Nat} (h : known t i = true) : i < t.size := by
  simp only [known, Tree.size] at *
  by_cases hi : i < t.blocks.size
  · exact hi
  · have : t.blocks[i]? = none := by simp; omega
    simp [this] at h

theorem wf_genesis : WF genesisTree := by
  refine ⟨rfl, ?_⟩
  intro i h0 h1
  have := known_lt h1
  simp only [genesisTree, Tree.size] at this
  have : i < 1 := this
  omega

theorem wf_push {t : Tree} (wf : WF t) {p : Nat} (hp : known t p = true) :
    WF ⟨t.blocks.push ⟨p, numOf t p + 1, false⟩, t.fin⟩ := by
  have hps : p < t.blocks.size := known_lt hp
  have hsz : 0 < t.blocks.size := by omega
  -- the old blocks are unchanged
  have hold : ∀ i, i < t.blocks.size →
      known ⟨t.blocks.push ⟨p, numOf t p + 1, false⟩, t.fin⟩ i = known t i
      ∧ parentOf ⟨t.blocks.push ⟨p, numOf t p + 1, false⟩, t.fin⟩ i = parentOf t i
      ∧ numOf ⟨t.blocks.push ⟨p, numOf t p + 1, false⟩, t.fin⟩ i = numOf t i := by
    intro i hi
    simp only [known, parentOf, numOf, get_push_lt t.blocks _ hi, and_self]
  constructor
  · show (t.blocks.push _)[0]? = _
    rw [get_push_lt t.blocks _ hsz]
    exact wf.root
  · intro i h0 hi
    have hlt := known_lt hi
    simp only [Tree.size, Array.size_push] at hlt
    by_cases his : i = t.blocks.size
    · subst his
      have hpar : parentOf ⟨t.blocks.push ⟨p, numOf t p + 1, false⟩, t.fin⟩ t.blocks.size = p := by
        simp [parentOf]
      have hnum : numOf ⟨t.blocks.push ⟨p, numOf t p + 1, false⟩, t.fin⟩ t.blocks.size
          = numOf t p + 1 := by
        simp [numOf]
      obtain ⟨hk, _, hn⟩ := hold p hps
      rw [hpar, hnum, hk, hn]
      exact ⟨hps, hp, rfl⟩
    · have hlt' : i < t.blocks.size := by omega
      obtain ⟨hk, hpa, hn⟩ := hold i hlt'
      rw [hk] at hi
      obtain ⟨h1, h2, h3⟩ := wf.child i h0 hi
      obtain ⟨hk', _, hn'⟩ := hold (parentOf t i) (by omega)
      rw [hpa, hn, hk', hn']
      exact ⟨h1, h2, h3⟩

/-- every tree the harness builds (`genesisTree` extended by segments below existing blocks) -/
theorem wf_addSeg : ∀ (k : Nat) {t : Tree} {p : Nat}, WF t → known t p = true → WF (addSeg t k p)
  | 0, _, _, wf, _ => wf
  | k + 1, t, p, wf, hp => by
    simp only [addSeg]
    refine wf_addSeg k (wf_push wf hp) ?_
    simp [known, Tree.size]

/-! #### finalisation keeps the state well formed -/

theorem upN_parent (t : Tree) (h : Nat) : ∀ k, upN t (parentOf t h) k = upN t h (k + 1)
  | 0 => rfl
  | k + 1 => by
    show parentOf t (upN t (parentOf t h) k) = parentOf t (upN t h (k + 1))
    rw [upN_parent t h k]

theorem eq_zero_of_num_zero {t : Tree} (wf : WF t) {x : Nat} (hk : known t x = true)
    (hn : numOf t x = 0) : x = 0 := by
  by_cases h0 : x = 0
  · exact h0
  · have := (wf.child x (by omega) hk).2.2
    omega

/-- block `i` is kept by `finalise t fin`: an ancestor or a descendant of the finalised block -/
def keeps (t : Tree) (fin i : Nat) : Prop :=
  (numOf t i ≤ fin ∧ upN t (canon t fin) (fin - numOf t i) = i)
  ∨ (fin ≤ numOf t i ∧ upN t i (numOf t i - fin) = canon t fin)

theorem finalise_get (t : Tree) (fin i : Nat) :
    (finalise t fin).blocks[i]? = t.blocks[i]?.map (fun b =>
      if ((b.num ≤ fin && upN t (canon t fin) (fin - b.num) = i)
          || (fin ≤ b.num && upN t i (b.num - fin) = canon t fin)) = true
      then b else { b with dead := true }) := by
  simp only [finalise, canon, List.getElem?_toArray, List.getElem?_map, List.getElem?_zipIdx,
    Array.getElem?_toList, Option.map_map, Nat.zero_add]
  rfl

theorem finalise_parentOf (t : Tree) (fin i : Nat) : parentOf (finalise t fin) i = parentOf t i := by
  simp only [parentOf, finalise_get]
  cases t.blocks[i]? with
  | none => rfl
  | some b => simp only [Option.map_some]; split <;> rfl

theorem finalise_numOf (t : Tree) (fin i : Nat) : numOf (finalise t fin) i = numOf t i := by
  simp only [numOf, finalise_get]
  cases t.blocks[i]? with
  | none => rfl
  | some b => simp only [Option.map_some]; split <;> rfl

theorem finalise_known (t : Tree) (fin i : Nat) :
    known (finalise t fin) i = true ↔ known t i = true ∧ keeps t fin i := by
  simp only [known, numOf, keeps, finalise_get]
  cases hb : t.blocks[i]? with
  | none => simp
  | some b =>
    simp only [Option.map_some, Option.getD_some]
    split
    · rename_i hk
      simp only [Bool.or_eq_true, Bool.and_eq_true, decide_eq_true_eq] at hk
      simp [hk]
    · rename_i hk
      simp only [Bool.or_eq_true, Bool.and_eq_true, decide_eq_true_eq] at hk
      simp [hk]

theorem finalise_upN (t : Tree) (fin h : Nat) : ∀ k, upN (finalise t fin) h k = upN t h k
  | 0 => rfl
  | k + 1 => by
    show parentOf (finalise t fin) (upN (finalise t fin) h k) = parentOf t (upN t h k)
    rw [finalise_parentOf, finalise_upN t fin h k]

/-- `SetFinalisedHash` of a block of the best chain keeps the state well formed -/
theorem wf_finalise {t : Tree} (wf : WF t) {fin : Nat} (hfin : fin ≤ bestNum t) :
    WF (finalise t fin) := by
  have hfk := canon_known wf hfin
  have hfn := canon_num wf hfin
  constructor
  · -- genesis is an ancestor of the finalised block
    have h0 : upN t (canon t fin) fin = 0 := by
      obtain ⟨h1, h2⟩ := upN_known wf hfk fin (by omega)
      exact eq_zero_of_num_zero wf h1 (by omega)
    rw [finalise_get, wf.root]
    simp [h0]
  · intro i hi0 hki
    obtain ⟨hk, hkeep⟩ := (finalise_known t fin i).mp hki
    obtain ⟨h1, h2, h3⟩ := wf.child i hi0 hk
    rw [finalise_parentOf, finalise_numOf, finalise_numOf]
    refine ⟨h1, (finalise_known t fin _).mpr ⟨h2, ?_⟩, h3⟩
    -- the parent of a kept block is kept
    rcases hkeep with ⟨hle, hup⟩ | ⟨hge, hup⟩
    · left
      refine ⟨by omega, ?_⟩
      have e : fin - numOf t (parentOf t i) = (fin - numOf t i) + 1 := by omega
      rw [e]
      show parentOf t (upN t (canon t fin) (fin - numOf t i)) = parentOf t i
      rw [hup]
    · by_cases heq : numOf t i = fin
      · left
        refine ⟨by omega, ?_⟩
        have hif : i = canon t fin := by
          have := hup
          rw [heq, Nat.sub_self] at this
          exact this
        have e : fin - numOf t (parentOf t i) = 1 := by omega
        rw [e, ← hif]
        rfl
      · right
        refine ⟨by omega, ?_⟩
        have e : numOf t (parentOf t i) - fin + 1 = numOf t i - fin := by omega
        rw [upN_parent, e]
        exact hup

/-- main chain 1..4 and a fork 5, 6 on block 1 -/
def exampleTree : Tree := addSeg (addSeg genesisTree 4 0) 2 1

theorem exampleTree_wf : WF exampleTree :=
  wf_addSeg 2 (wf_addSeg 4 wf_genesis (by decide)) (by decide)

/-- the same tree after finalising block 2: the fork 5, 6 on block 1 is pruned, blocks 0..2 live
    in the database -/
def prunedTree : Tree := finalise exampleTree 2

theorem prunedTree_wf : WF prunedTree := wf_finalise exampleTree_wf (by decide)

example : (List.range 8).map (known prunedTree) = [true, true, true, true, true, false, false, false] := by
  decide
-- a pruned block is unknown; ascending from a finalised block crosses into the block tree
example : (serve prunedTree ⟨.hash 5, 0, none, 1⟩).toOption = none := by decide
example : (serve prunedTree ⟨.hash 1, 0, none, 1⟩).toOption
    = some [⟨1, 1⟩, ⟨2, 1⟩, ⟨3, 1⟩, ⟨4, 1⟩] := by decide +kernel
example : (serve prunedTree ⟨.num 4, 1, some 3, 3⟩).toOption = some [⟨4, 3⟩, ⟨3, 3⟩, ⟨2, 3⟩] := by
  decide
-- block 3 finalised: its body is missing from the database and is served as absent, no error
example : (serve (finalise exampleTree 3) ⟨.num 4, 1, some 3, 3⟩).toOption
    = some [⟨4, 3⟩, ⟨3, 1⟩, ⟨2, 3⟩] := by decide

-- non-trivial responses that the theorem speaks about
example : (serve exampleTree ⟨.num 2, 0, some 2, 19⟩).toOption = some [⟨2, 3⟩, ⟨3, 19⟩] := by decide
example : (serve exampleTree ⟨.hash 6, 1, none, 1⟩).toOption = some [⟨6, 1⟩, ⟨5, 1⟩, ⟨1, 1⟩] := by
  decide
example : (serve exampleTree ⟨.hash 1, 0, some 3, 1⟩).toOption = some [⟨1, 1⟩, ⟨2, 1⟩, ⟨3, 1⟩] := by
  decide +kernel

/-- The excluded request really fails: ascending from number 0 is answered from block 1. -/
theorem C31_serve_chain_counterexample :
    ∃ (t : Tree) (r : Request) (bs : List BData),
      WF t ∧ serve t r = .ok bs ∧ ¬ ServedChain t r bs := by
  refine ⟨exampleTree, ⟨.num 0, 0, some 2, 1⟩, [⟨1, 1⟩, ⟨2, 1⟩], exampleTree_wf, by rfl, ?_⟩
  intro h
  have := h.start 1 (by decide)
  simp only [StartsAt, ite_true] at this
  exact absurd this (by decide)

/-- descending from number 0 is answered with no block at all (genesis is never served by number) -/
theorem C31_serve_genesis_desc_counterexample :
    (serve exampleTree ⟨.num 0, 1, none, 1⟩).toOption = some [] := by decide

/-! ## Part 3: the same-request limiter -/

/-- what one non-empty-mask call does to the seen-requests cache -/
def stepK (c : Cache) (k : ReqKey) : Cache :=
  if (lruGet c k).1 ≥ maxSame then (lruGet c k).2
  else lruPut seenCap (lruGet c k).2 k ((lruGet c k).1 + 1)

theorem request_cache (t : Tree) (c : Cache) (p : Nat) (r : Request) :
    (request t c p r).1 = if r.mask = 0 then c else stepK c (reqKey p r) := by
  unfold request stepK
  split
  · rfl
  · simp only
    split <;> rfl

/-- **The refusal rule**: a call is refused exactly when the cache holds a count of at least
    `maxNumberOfSameRequestPerPeer` for (peer, request); a request for no data is never counted. -/
theorem request_refused_iff (t : Tree) (c : Cache) (p : Nat) (r : Request) :
    (∃ c', request t c p r = (c', .refused)) ↔
      r.mask ≠ 0 ∧ maxSame ≤ (lruGet c (reqKey p r)).1 := by
  unfold request
  split
  · rename_i h0
    simp [h0]
  · rename_i h0
    simp only
    split
    · rename_i hge
      simp [h0, hge]
    · rename_i hge
      simp [h0]
      omega

/-! ### the cache as a function of the history of keys (newest first) -/

/-- distinct keys of the history, most recently used first -/
def recency : List ReqKey → List ReqKey
  | [] => []
  | k :: older => k :: (recency older).filter (· ≠ k)

/-- the LRU window: the `seenCap` most recently used distinct keys -/
def window (hist : List ReqKey) : List ReqKey := (recency hist).take seenCap

/-- how often `k` was served (not refused) since it last entered the window -/
def servedCount : List ReqKey → ReqKey → Nat
  | [], _ => 0
  | k' :: older, k =>
    if k' = k then
      (if servedCount older k ≥ maxSame then servedCount older k else servedCount older k + 1)
    else if k ∈ window (k' :: older) then servedCount older k else 0

/-- the cache after the calls with these keys -/
def cacheOf : List ReqKey → Cache
  | [] => []
  | k :: older => stepK (cacheOf older) k

theorem recency_nodup : ∀ hist, (recency hist).Nodup
  | [] => List.nodup_nil
  | k :: older => by
    simp only [recency, List.nodup_cons]
    exact ⟨by simp, (recency_nodup older).filter _⟩

theorem servedCount_le : ∀ hist k, servedCount hist k ≤ maxSame
  | [], _ => by simp [servedCount]
  | k' :: older, k => by
    have := servedCount_le older k
    simp only [servedCount]
    split
    · split <;> omega
    · split <;> omega

theorem servedCount_out {hist : List ReqKey} {k : ReqKey} (h : k ∉ window hist) :
    servedCount hist k = 0 := by
  cases hist with
  | nil => rfl
  | cons k' older =>
    simp only [servedCount]
    split
    · rename_i heq
      subst heq
      exfalso
      apply h
      simp [window, recency, seenCap]
    · simp [h]

/-- removing one element that occurs in the first `n+1` places of a duplicate-free list and
    then keeping `n` places is the same as removing it everywhere and keeping `n` places -/
theorem take_filter_ne (k : ReqKey) : ∀ (l : List ReqKey) (n : Nat), l.Nodup →
    ((l.take (n + 1)).filter (· ≠ k)).take n = (l.filter (· ≠ k)).take n
  | [], _, _ => by simp
  | x :: l, n, hnd => by
    have hnd' := (List.nodup_cons.mp hnd)
    by_cases hx : x = k
    · subst hx
      have hnot : ∀ y ∈ l, y ≠ x := fun y hy h => hnd'.1 (h ▸ hy)
      have h1 : l.filter (· ≠ x) = l := List.filter_eq_self.mpr (by simpa using hnot)
      have h2 : (l.take n).filter (· ≠ x) = l.take n :=
        List.filter_eq_self.mpr (by
          intro y hy
          simpa using hnot y (List.mem_of_mem_take hy))
      simp only [ne_eq, decide_not] at h1 h2
      simp [List.take_succ_cons, h1, h2, List.take_take]
    · cases n with
      | zero => simp
      | succ m =>
        have ih := take_filter_ne k l m hnd'.2
        simp only [List.take_succ_cons, List.filter_cons, hx, ne_eq, not_false_eq_true,
          decide_true, ite_true]
        rw [ih]

theorem find_map_pair (S : ReqKey → Nat) (k : ReqKey) : ∀ (l : List ReqKey),
    (l.map (fun x => (x, S x))).find? (fun e => e.1 = k) = if k ∈ l then some (k, S k) else none
  | [] => by simp
  | x :: l => by
    simp only [List.map_cons, List.find?_cons]
    by_cases hx : x = k
    · subst hx; simp
    · have ih := find_map_pair S k l
      simp only [hx, decide_false, List.mem_cons]
      rw [ih]
      have : ¬ k = x := fun h => hx h.symm
      simp [this]

theorem filter_map_pair (S : ReqKey → Nat) (k : ReqKey) (l : List ReqKey) :
    (l.map (fun x => (x, S x))).filter (fun e => e.1 ≠ k)
      = (l.filter (· ≠ k)).map (fun x => (x, S x)) := by
  rw [List.filter_map]
  rfl

theorem map_congr_mem {l : List ReqKey} {f g : ReqKey → ReqKey × Nat} (h : ∀ x ∈ l, f x = g x) :
    l.map f = l.map g := List.map_congr_left h

theorem window_cons (k : ReqKey) (older : List ReqKey) :
    window (k :: older) = k :: ((recency older).filter (· ≠ k)).take 99 := by
  simp [window, recency, seenCap, List.take_succ_cons]

theorem servedCount_other {k' k : ReqKey} {older : List ReqKey} (hne : k' ≠ k)
    (hin : k ∈ window (k' :: older)) : servedCount (k' :: older) k = servedCount older k := by
  simp [servedCount, hne, hin]

/-- **The cache is a function of the history**: its keys are the LRU window (the 100 most
    recently used distinct (peer, request) keys, most recent first) and every key carries the
    number of times it was served since it last entered the window. -/
theorem cacheOf_eq : ∀ hist, cacheOf hist = (window hist).map (fun k => (k, servedCount hist k))
  | [] => rfl
  | k :: older => by
    have ih := cacheOf_eq older
    have hnd := recency_nodup older
    have hG := take_filter_ne k (recency older) 99 hnd
    simp only [cacheOf]
    rw [ih, window_cons]
    -- the part of the new window behind `k`
    have htail : ∀ x ∈ ((recency older).filter (· ≠ k)).take 99,
        (fun y => (y, servedCount older y)) x = (fun y => (y, servedCount (k :: older) y)) x := by
      intro x hx
      have hxk : x ≠ k := by
        have := List.mem_of_mem_take hx
        simpa using (List.mem_filter.mp this).2
      have hin : x ∈ window (k :: older) := by
        rw [window_cons]
        exact List.mem_cons_of_mem _ hx
      simp only
      rw [servedCount_other (fun h => hxk h.symm) hin]
    have htl := List.map_congr_left htail
    simp only [List.map_cons]
    by_cases hin : k ∈ window older
    · -- a hit: the entry moves to the front
      have hfind : (lruGet ((window older).map (fun x => (x, servedCount older x))) k)
          = (servedCount older k,
              (k, servedCount older k) :: (((window older).filter (· ≠ k)).map
                (fun x => (x, servedCount older x)))) := by
        simp only [lruGet, find_map_pair, hin, ite_true, filter_map_pair]
      have hlen : ((window older).filter (· ≠ k)).length ≤ 99 := by
        have h1 : ((window older).filter (· ≠ k)).length < (window older).length := by
          apply List.length_filter_lt_length_iff_exists.mpr
          exact ⟨k, hin, by simp⟩
        have h2 : (window older).length ≤ 100 := by
          simp only [window, seenCap, List.length_take]
          omega
        omega
      have hW : (window older).filter (· ≠ k) = ((recency older).filter (· ≠ k)).take 99 := by
        rw [← hG]
        exact (List.take_of_length_le hlen).symm
      simp only [stepK, hfind]
      by_cases hge : servedCount older k ≥ maxSame
      · simp only [hge, ite_true, hW, htl]
        congr 2
        simp [servedCount, hge]
      · simp only [hge, ite_false, lruPut, List.any_cons, decide_true, Bool.true_or, ite_true,
          List.filter_cons, ne_eq, not_true_eq_false, decide_false, hW, htl]
        have hff : List.filter (fun e => e.1 ≠ k) ((((recency older).filter (· ≠ k)).take 99).map
              (fun y => (y, servedCount (k :: older) y)))
            = (((recency older).filter (· ≠ k)).take 99).map
              (fun y => (y, servedCount (k :: older) y)) := by
          apply List.filter_eq_self.mpr
          intro e he
          obtain ⟨x, hx, rfl⟩ := List.mem_map.mp he
          have := List.mem_of_mem_take hx
          simpa using (List.mem_filter.mp this).2
        simp only [ne_eq, decide_not] at hff ⊢
        simp only [Bool.false_eq_true, ite_false, hff]
        congr 2
        simp [servedCount, hge]
    · -- a miss: a new entry, the least recently used one is dropped when the cache is full
      have hfind : (lruGet ((window older).map (fun x => (x, servedCount older x))) k)
          = (0, (window older).map (fun x => (x, servedCount older x))) := by
        simp only [lruGet, find_map_pair, hin, ite_false]
      have hany : ((window older).map (fun x => (x, servedCount older x))).any
          (fun e => e.1 = k) = false := by
        simp only [List.any_map, List.any_eq_false]
        intro x hx
        simp only [Function.comp, decide_eq_true_eq]
        intro hxk
        exact hin (hxk ▸ hx)
      have hself : (window older).filter (· ≠ k) = window older := by
        apply List.filter_eq_self.mpr
        intro x hx
        simpa using (fun h : x = k => hin (h ▸ hx))
      have hW : ((recency older).filter (· ≠ k)).take 99 = (recency older).take 99 := by
        rw [← hG]
        have : ((recency older).take (99 + 1)).filter (· ≠ k) = (recency older).take 100 := hself
        rw [this, List.take_take]
        simp
      have hdrop : (if ((window older).map (fun x => (x, servedCount older x))).length ≥ seenCap
            then ((window older).map (fun x => (x, servedCount older x))).dropLast
            else (window older).map (fun x => (x, servedCount older x)))
          = ((recency older).take 99).map (fun x => (x, servedCount older x)) := by
        simp only [List.length_map, window, seenCap, List.length_take]
        split
        · rename_i hl
          rw [← List.map_dropLast, List.dropLast_eq_take, List.length_take, List.take_take]
          have : min (min 100 (recency older).length - 1) 100 = 99 := by omega
          rw [this]
        · rename_i hl
          have hle : (recency older).length ≤ 99 := by omega
          rw [List.take_of_length_le (by omega), List.take_of_length_le hle]
      have h0 := servedCount_out hin
      simp only [stepK, hfind, maxSame, show ¬ (0 ≥ 2) by omega, ite_false, lruPut, hany,
        Bool.false_eq_true]
      rw [hdrop, ← hW, htl]
      congr 2
      simp [servedCount, h0, maxSame]

/-! ### histories of calls -/

/-- the seen-requests cache of a service that handled the calls `ops` (oldest first) -/
def cacheAfter (t : Tree) (ops : List (Nat × Request)) : Cache :=
  ops.foldl (fun c o => (request t c o.1 o.2).1) []

/-- the keys of the calls that reach the limiter (non-empty field mask), newest first -/
def keysOf (ops : List (Nat × Request)) : List ReqKey :=
  ops.foldl (fun ks o => if o.2.mask = 0 then ks else reqKey o.1 o.2 :: ks) []

theorem cacheAfter_eq (t : Tree) (ops : List (Nat × Request)) :
    cacheAfter t ops = cacheOf (keysOf ops) := by
  suffices h : ∀ (ops : List (Nat × Request)) (c : Cache) (ks : List ReqKey), c = cacheOf ks →
      ops.foldl (fun c o => (request t c o.1 o.2).1) c
        = cacheOf (ops.foldl (fun ks o => if o.2.mask = 0 then ks else reqKey o.1 o.2 :: ks) ks) by
    exact h ops [] [] rfl
  intro ops
  induction ops with
  | nil => intro c ks h; simpa using h
  | cons o rest ih =>
    intro c ks h
    simp only [List.foldl_cons]
    apply ih
    rw [request_cache]
    split
    · exact h
    · rw [h]; rfl

theorem lruGet_cacheOf (hist : List ReqKey) (k : ReqKey) :
    (lruGet (cacheOf hist) k).1 = servedCount hist k := by
  rw [cacheOf_eq]
  simp only [lruGet, find_map_pair]
  by_cases hin : k ∈ window hist
  · simp only [hin, ite_true]
  · simp only [hin, ite_false]
    exact (servedCount_out hin).symm

/-- **The limiter** (all histories): after any sequence of calls to one service, a call by
    `peer` with request `r` is refused (`errMaxNumberOfSameRequest`, the peer is reported) if and
    only if it asks for some data and that very request was already served
    `maxNumberOfSameRequestPerPeer` times to that peer since the (peer, request) key last entered
    the LRU window of the 100 most recently used keys. -/
theorem C31_limiter_refused_iff (t : Tree) (ops : List (Nat × Request)) (peer : Nat) (r : Request) :
    (∃ c', request t (cacheAfter t ops) peer r = (c', .refused)) ↔
      r.mask ≠ 0 ∧ servedCount (keysOf ops) (reqKey peer r) = maxSame := by
  rw [request_refused_iff, cacheAfter_eq, lruGet_cacheOf]
  have := servedCount_le (keysOf ops) (reqKey peer r)
  constructor
  · rintro ⟨h1, h2⟩; exact ⟨h1, by omega⟩
  · rintro ⟨h1, h2⟩; exact ⟨h1, by omega⟩

/-- the keys the service remembers are exactly the LRU window of the history -/
theorem C31_limiter_window (t : Tree) (ops : List (Nat × Request)) :
    (cacheAfter t ops).map (·.1) = window (keysOf ops) := by
  rw [cacheAfter_eq, cacheOf_eq]
  simp [List.map_map, Function.comp_def]

/-- the same request again and again: served `maxNumberOfSameRequestPerPeer` times, then refused -/
theorem C31_limiter_repeat (k : ReqKey) : ∀ j, servedCount (List.replicate j k) k = min j maxSame
  | 0 => by simp [servedCount]
  | j + 1 => by
    have ih := C31_limiter_repeat k j
    simp only [List.replicate_succ, servedCount, ite_true, ih, maxSame]
    split <;> omega

theorem recency_prefix : ∀ (fs older : List ReqKey), fs.Nodup →
    ∃ rest, recency (fs ++ older) = fs ++ rest
  | [], older, _ => ⟨recency older, rfl⟩
  | f :: fs, older, hnd => by
    obtain ⟨hf, hfs⟩ := List.nodup_cons.mp hnd
    obtain ⟨rest, hr⟩ := recency_prefix fs older hfs
    refine ⟨rest.filter (· ≠ f), ?_⟩
    simp only [List.cons_append, recency, hr, List.filter_append]
    congr 2
    apply List.filter_eq_self.mpr
    intro x hx
    simpa using (fun h : x = f => hf (h ▸ hx))

/-- eviction by capacity: once 100 other distinct keys were used after it, a key is forgotten
    (its count starts again at 0), however often it was served before -/
theorem C31_limiter_evicted (k : ReqKey) (fs older : List ReqKey) (hnd : fs.Nodup)
    (hlen : fs.length = seenCap) (hk : k ∉ fs) :
    k ∉ window (fs ++ older) ∧ servedCount (fs ++ older) k = 0 := by
  obtain ⟨rest, hr⟩ := recency_prefix fs older hnd
  have hw : window (fs ++ older) = fs := by
    simp only [window, hr, ← hlen]
    simp
  have : k ∉ window (fs ++ older) := by rw [hw]; exact hk
  exact ⟨this, servedCount_out this⟩

end Gossamer.C31
