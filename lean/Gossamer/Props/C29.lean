/-
C29  Hashing helpers agree with the reference implementations.
What *can* be a theorem in this family: the glue of lib/common/hasher.go over the reference
primitives.  "The Go primitive equals the reference on every input" is not a theorem about a model
of gossamer (third-party library code is not translated): that part is decided by correspondence
against the executable references of Lib/HashRef.lean and is claimed at level `other`.
-/
import Gossamer.Model.C29
namespace Gossamer.C29
open Gossamer Gossamer.HashRef

theorem u64le_length (x : UInt64) : (u64le x).length = 8 := by simp [u64le]

/-- Twox128 is xxHash64 with seeds 0 and 1, each little-endian, concatenated -/
theorem C29_twox128 (m : Bytes) : twox128 m = twox64 m ++ u64le (xxh64 1 m) := rfl

/-- Twox256 extends Twox128 with seeds 2 and 3 -/
theorem C29_twox256 (m : Bytes) :
    twox256 m = twox128 m ++ u64le (xxh64 2 m) ++ u64le (xxh64 3 m) := by
  simp [twox256, twox128]

theorem C29_twox_lengths (m : Bytes) :
    (twox64 m).length = 8 ∧ (twox128 m).length = 16 ∧ (twox256 m).length = 32 := by
  simp [twox64, twox128, twox256, u64le_length]

/-- the 64-bit little-endian rendering is injective: distinct xxHash64 values give distinct Twox64 bytes -/
theorem C29_u64le_value (x : UInt64) : natOfLE (u64le x) = x.toNat := by
  have h : ∀ i : Nat, i < 8 → ((x >>> (8 * i).toUInt64).toUInt8).toNat = (x.toNat / 2 ^ (8 * i)) % 256 := by
    intro i hi
    have : i = 0 ∨ i = 1 ∨ i = 2 ∨ i = 3 ∨ i = 4 ∨ i = 5 ∨ i = 6 ∨ i = 7 := by omega
    rcases this with h|h|h|h|h|h|h|h <;> subst h <;>
      simp [UInt64.toNat_shiftRight, UInt64.toNat_toUInt8, Nat.shiftRight_eq_div_pow]
  have hx := x.toNat_lt
  simp only [u64le, List.range, List.range.loop, List.map, natOfLE]
  rw [h 0 (by omega), h 1 (by omega), h 2 (by omega), h 3 (by omega), h 4 (by omega), h 5 (by omega),
    h 6 (by omega), h 7 (by omega)]
  omega

end Gossamer.C29
