/-
C29  Hashing helpers agree with the reference implementations.
What *can* be a theorem in this family: the glue of lib/common/hasher.go over the reference
primitives.  "The Go primitive equals the reference on every input" is not a theorem about a model
of gossamer (third-party library code is not translated): that part is decided by correspondence
against the executable references of Lib/HashRef.lean and is claimed at level `other`.
-/
import Gossamer.Model.C29
namespace Gossamer.C29
open Gossamer Gossamer.HashRef Gossamer.SigRef Gossamer.SrRef

theorem u64le_length (x : UInt64) : (u64le x).length = 8 := by simp [u64le]

/-- Twox128 is xxHash64 with seeds 0 and 1, each little-endian, concatenated -/
theorem C29_twox128 (m : Bytes) : twox128 m = twox64 m ++ u64le (xxh64 1 m) := rfl

/-- Twox256 extends Twox128 with seeds 2 and 3 -/
theorem C29_twox256 (m : Bytes) :
    twox256 m = twox128 m ++ u64le (xxh64 2 m) ++ u64le (xxh64 3 m) := by
  simp [twox256, twox128]

theorem C29_twox_lengths (m : Bytes) :
    (twox64 m).length = 8 ∧ (twox128 m).length = 16 ∧ (twox256 m).length = 32 := by
  simp [twox64, twox128, twox256, u64le_length]

/-- the 64-bit little-endian rendering is injective: distinct xxHash64 values give distinct Twox64 bytes -/
theorem C29_u64le_value (x : UInt64) : natOfLE (u64le x) = x.toNat := by
  have h : ∀ i : Nat, i < 8 → ((x >>> (8 * i).toUInt64).toUInt8).toNat = (x.toNat / 2 ^ (8 * i)) % 256 := by
    intro i hi
    have : i = 0 ∨ i = 1 ∨ i = 2 ∨ i = 3 ∨ i = 4 ∨ i = 5 ∨ i = 6 ∨ i = 7 := by omega
    rcases this with h|h|h|h|h|h|h|h <;> subst h <;>
      simp [UInt64.toNat_shiftRight, UInt64.toNat_toUInt8, Nat.shiftRight_eq_div_pow]
  have hx := x.toNat_lt
  simp only [u64le, List.range, List.range.loop, List.map, natOfLE]
  rw [h 0 (by omega), h 1 (by omega), h 2 (by omega), h 3 (by omega), h 4 (by omega), h 5 (by omega),
    h 6 (by omega), h 7 (by omega)]
  omega

/-! ### sr25519: what is provable about the reference's glue

The group law, Keccak-f and the ristretto maps are executable definitions validated by correspondence
(RFC 9496 vectors, the merlin test vector, go-schnorrkel on honest and adversarial inputs); the theorems
below are about the framing and the format checks around them. -/

/-- merlin `append_message` is exactly: one meta-AD of `label ‖ le32(len)` followed by one AD of the message -/
theorem C29_merlin_append (t : Transcript) (label msg : Bytes) :
    appendMessage t label msg
      = absorb (beginOp (absorb (beginOp t (flagM ||| flagA)) (label ++ u32le msg.length)) flagA) msg := rfl

/-- `challenge_bytes`: one meta-AD of `label ‖ le32(n)` followed by a PRF of n bytes -/
theorem C29_merlin_challenge (t : Transcript) (label : Bytes) (n : Nat) :
    challengeBytes t label n
      = squeeze n (beginOp (absorb (beginOp t (flagM ||| flagA)) (label ++ u32le n)) (flagI ||| flagA ||| flagC)) := rfl

/-- absorbing is a fold: data may be fed in pieces (the `more` continuation of STROBE) -/
theorem C29_absorb_append (s : Strobe) (a b : Bytes) : absorb s (a ++ b) = absorb (absorb s a) b := by
  simp [absorb, List.foldl_append]

/-- the length frame is 4 bytes and determines the length below 2^32: two messages of different length
    never produce the same framing under the same label -/
theorem C29_merlin_len_frame (n m : Nat) (hn : n < 2 ^ 32) (hm : m < 2 ^ 32) :
    (u32le n).length = 4 ∧ (u32le n = u32le m → n = m) := by
  refine ⟨length_leBytes 4 n, fun h => ?_⟩
  have h1 := natOfLE_leBytes 4 n
  have h2 := natOfLE_leBytes 4 m
  simp only [u32le] at h
  rw [h] at h1
  have e : (256 : Nat) ^ 4 = 2 ^ 32 := by decide
  rw [e] at h1 h2
  omega

/-- a PRF of n bytes returns n bytes -/
theorem C29_squeeze_length (n : Nat) (s : Strobe) : (squeeze n s).2.length = n := by
  induction n generalizing s with
  | zero => simp [squeeze]
  | succ k ih => simp [squeeze, ih]

/-- the signing context of Substrate is three framed messages on a fresh "SigningContext" transcript -/
theorem C29_signing_context (msg : Bytes) :
    signingContext substrateCtx msg
      = appendMessage (appendMessage (newTranscript (str "SigningContext")) [] (str "substrate"))
          (str "sign-bytes") msg := rfl

/-- the challenge scalar is reduced: it is a canonical scalar whatever the transcript -/
theorem C29_challenge_reduced (t : Transcript) (lb : SigLabels) (pk r : Bytes) :
    challengeScalar t lb pk r < edL := by
  unfold challengeScalar scalarWide
  exact Nat.mod_lt _ (by decide)

/-- **schnorrkel marker**: a signature whose marker bit (bit 7 of byte 63) is clear is rejected by the
    reference verifier and by the model of gossamer's `VerifySignature`/`PublicKey.Verify` -/
theorem C29_sr_marker (pk msg sig : Bytes) (h : markerSet sig = false) :
    srVerifyRef pk msg sig = false ∧ srVerifyGo pk msg sig = false := by
  constructor
  · unfold srVerifyRef verifyRef
    simp [h]
  · unfold srVerifyGo verifyGo
    simp [h]

/-- wrong lengths are rejected before anything is parsed -/
theorem C29_sr_lengths (pk msg sig : Bytes) (h : pk.length ≠ 32 ∨ sig.length ≠ 64) :
    srVerifyRef pk msg sig = false ∧ srVerifyGo pk msg sig = false ∧ srVerifyDeprecatedRef pk msg sig = false := by
  refine ⟨?_, ?_, ?_⟩
  · unfold srVerifyRef verifyRef; simp [h]
  · unfold srVerifyGo verifyGo; simp [h]
  · unfold srVerifyDeprecatedRef; simp [h]

/-- an accepted signature is well formed: marked, canonical scalar (s < ℓ), decodable public key -/
theorem C29_sr_accept_wellformed (pk msg sig : Bytes) (h : srVerifyRef pk msg sig = true) :
    pk.length = 32 ∧ sig.length = 64 ∧ markerSet sig = true ∧ sigScalar sig < edL ∧ (rDecode pk).isSome := by
  unfold srVerifyRef verifyRef at h
  split at h
  · cases h
  · rename_i hl
    split at h
    · cases h
    · rename_i hm
      split at h
      · cases h
      · rename_i hs
        split at h
        · cases h
        · rename_i a ha
          refine ⟨by omega, by omega, by simpa using hm, by omega, by simp [ha]⟩

/-- ristretto255 DECODE only accepts canonical (< p) non-negative (even) field encodings of 32 bytes -/
theorem C29_ristretto_canonical (b : Bytes) (q : EdPt) (h : rDecode b = some q) :
    b.length = 32 ∧ natOfLE b < edP ∧ natOfLE b % 2 = 0 := by
  unfold rDecode at h
  split at h
  · cases h
  · rename_i hl
    simp only at h
    split at h
    · cases h
    · rename_i hp
      split at h
      · cases h
      · rename_i ho
        refine ⟨by omega, by omega, ?_⟩
        have : natOfLE b % 2 = 0 ∨ natOfLE b % 2 = 1 := by omega
        rcases this with e | e
        · exact e
        · simp [e] at ho

/-- the deprecated entry point of the reference: a marked, canonical signature is judged by the current
    protocol alone (the 0.1.1 protocol is only tried for signatures that do not parse as current ones) -/
theorem C29_sr_deprecated_ref_marked (pk msg sig : Bytes) (hl : pk.length = 32 ∧ sig.length = 64)
    (hm : markerSet sig = true) (hs : sigScalar sig < edL) :
    srVerifyDeprecatedRef pk msg sig = srVerifyRef pk msg sig := by
  unfold srVerifyDeprecatedRef
  simp [hl.1, hl.2, hm, hs]

/-- ... whereas gossamer's `VerifyDeprecated` never looks at the marker bit (finding
    `sr25519-deprecated-differs`): its verdict on a signature and on the marked copy coincide -/
theorem C29_sr_deprecated_go_marker_blind (pk msg sig : Bytes) (hl : sig.length = 64) :
    srVerifyDeprecatedGo pk msg (setMarker sig) = srVerifyDeprecatedGo pk msg sig := by
  have h63 : (sig.take 63).length = 63 := by simp [List.length_take]; omega
  have hlen : (setMarker sig).length = 64 := by simp [setMarker, h63]
  have hidem : setMarker (setMarker sig) = setMarker sig := by
    have ht : (setMarker sig).take 63 = sig.take 63 := by
      simp [setMarker, h63]
    have hg : (setMarker sig).getD 63 0 = (sig.getD 63 0) ||| 0x80 := by
      simp [setMarker, List.getD_eq_getElem?_getD, h63]
    show (setMarker sig).take 63 ++ [(setMarker sig).getD 63 0 ||| 0x80] = setMarker sig
    rw [ht, hg]
    simp [setMarker, UInt8.or_assoc]
  unfold srVerifyDeprecatedGo
  simp [hl, hlen, hidem]

/-! ### host functions (model of lib/runtime/wazero/imports.go) -/

/-- finding `sr25519-v1-always-valid`, as a statement about the model: the verdict of
    `ext_crypto_sr25519_verify_version_1` does not depend on message or signature -/
theorem C29_host_sr1_ignores_signature (pk m sg m' sg' : Bytes) :
    hostSr1Go pk m sg = hostSr1Go pk m' sg' := rfl

/-- for every key other than the all-zero one, `ext_crypto_sr25519_verify_version_2` is the verifier -/
theorem C29_host_sr2_nonzero (pk m sg : Bytes) (h : pk ≠ zeros32) :
    hostSr2Go pk m sg = srVerifyGo pk m sg := by
  unfold hostSr2Go
  simp [h]

/-- the recovery host functions answer `00 ‖ key` (65 or 34 bytes) or `01 ‖ v` with v one of the three
    variants of EcdsaVerifyError -/
theorem C29_host_recover_shape (c : Bool) (m sg : Bytes) :
    (∃ q, ecdsaRecover m sg = some q ∧ hostRecoverGo c m sg = 0 :: (if c then compressQ q else q)) ∨
    (ecdsaRecover m sg = none ∧ ∃ v : UInt8, v ≤ 2 ∧ hostRecoverGo c m sg = [1, v]) := by
  unfold hostRecoverGo
  cases h : ecdsaRecover m sg with
  | none =>
    right
    refine ⟨rfl, ecdsaErrCode sg, ?_, rfl⟩
    unfold ecdsaErrCode
    simp only
    repeat' split
    all_goals decide
  | some q => left; exact ⟨q, rfl, by simp⟩

/-- a recovery id outside 0..3 (after the optional −27) is reported as BadV, before r and s are looked at -/
theorem C29_host_recover_badv (sg : Bytes)
    (h : (if (sg.getD 64 0).toNat ≥ 27 then (sg.getD 64 0).toNat - 27 else (sg.getD 64 0).toNat) > 3) :
    ecdsaErrCode sg = 1 := by
  unfold ecdsaErrCode
  simp only
  rw [if_pos h]

end Gossamer.C29
