/-
C24 — BABE verification accepts exactly authorised blocks.  Theorems about `Gossamer.C24`
(Model/C24.lean), for ALL hash functions, configurations, authority counts, digests and ALL valuations
of the crypto oracles.

Full statement (FALSE for the code as it is):
  C24_iff : verify H ss c1 c2 n rand digest o = .ok ↔ authorised H ss c1 c2 n rand digest o = true
`getVerifierInfo` keeps only `SecondarySlots > 0`, so a secondary-plain claim passes under the VRF-only
configuration (and vice versa, and both under the invalid values 3..255).  Proved instead:
  C24_verify_iff         what the code accepts, exactly (`authorisedLax`)
  C24_authorised_accepted   completeness: every authorised header is accepted
  C24_iff_partial        the full statement outside the region `kindMismatch`
  C24_iff_counterexample the negation at a concrete witness
  C24_own_claims_pass / C24_own_claims_authorised
-/
import Gossamer.Model.C24
namespace Gossamer.C24
open Gossamer.C25 (secondaryAuthor Author)

theorem vrfVerdict_ok (t : Tri) : vrfVerdict t = .ok ↔ t = .yes := by
  cases t <;> simp [vrfVerdict]

theorem sealVerdict_ok (t : Tri) : sealVerdict t = .ok ↔ t = .yes := by
  cases t <;> simp [sealVerdict]

/-- the claim part, with the code's `secondarySlots` flag -/
def claimAccepted (H : Bytes → Bytes) (info : Info) (rand : Bytes) (o : Oracles) : Option PreDigest → Bool
  | none => false
  | some pd => decide (pd.idx < info.n) &&
      (match pd with | .primary _ _ => true | _ => info.secondarySlots) &&
      claimRight H info.n rand o pd

theorem verifyPreRuntimeDigest_ok (H : Bytes → Bytes) (info : Info) (rand : Bytes)
    (d : Option PreDigest) (o : Oracles) :
    verifyPreRuntimeDigest H info rand d o = .ok ↔ claimAccepted H info rand o d = true := by
  cases d with
  | none => simp [verifyPreRuntimeDigest, claimAccepted]
  | some pd =>
    unfold verifyPreRuntimeDigest claimAccepted
    by_cases hi : info.n ≤ pd.idx
    · have : ¬ pd.idx < info.n := by omega
      simp [hi, this]
    · have hlt : pd.idx < info.n := by omega
      simp only [hi, if_false, hlt, decide_true, Bool.true_and]
      cases pd with
      | primary idx slot =>
        simp only [claimRight]
        cases ha : o.attach <;> cases hb : o.below <;> simp [vrfVerdict_ok]
      | secPlain idx slot =>
        simp only [claimRight]
        cases hs : info.secondarySlots <;> simp
      | secVRF idx slot =>
        simp only [claimRight]
        cases hs : info.secondarySlots <;> simp [vrfVerdict_ok]
        by_cases ha : secondaryAuthor H rand slot info.n = .idx idx <;> simp [ha, vrfVerdict_ok]

/-- verifyAuthorshipRight accepts exactly: ≥ 2 items, first a pre-digest whose claim is accepted,
    last a seal, seal signature valid -/
theorem verifyAuthorshipRight_ok (H : Bytes → Bytes) (info : Info) (rand : Bytes)
    (digest : List Item) (o : Oracles) :
    verifyAuthorshipRight H info rand digest o = .ok ↔
      2 ≤ digest.length ∧ ∃ d, digest.head? = some (.pre d) ∧ digest.getLast? = some .sealItem ∧
        claimAccepted H info rand o d = true ∧ o.sig = .yes := by
  unfold verifyAuthorshipRight
  by_cases hl : digest.length < 2
  · simp only [hl, if_true]
    constructor
    · intro h; cases h
    · intro h; omega
  · simp only [hl, if_false]
    have hl2 : 2 ≤ digest.length := by omega
    cases hh : digest.head? with
    | none => simp
    | some it =>
      cases it with
      | sealItem => simp
      | other => simp
      | pre d =>
        cases hg : digest.getLast? with
        | none => simp
        | some lt =>
          cases lt with
          | pre _ => simp
          | other => simp
          | sealItem =>
            simp only [hl2, true_and]
            constructor
            · intro h
              refine ⟨d, rfl, ?_⟩
              cases hv : verifyPreRuntimeDigest H info rand d o <;> simp only [hv] at h <;>
                first
                | (exact ⟨(verifyPreRuntimeDigest_ok H info rand d o).1 hv, (sealVerdict_ok _).1 h⟩)
                | cases h
            · rintro ⟨d', hd, hc, hs⟩
              have : d' = d := by
                simp only [Option.some.injEq, Item.pre.injEq] at hd; exact hd.symm
              subst this
              rw [(verifyPreRuntimeDigest_ok H info rand d' o).2 hc]
              exact (sealVerdict_ok _).2 hs

theorem getVerifierInfo_none (ss c1 c2 n : Nat) (h : c1 = 0 ∨ c2 = 0 ∨ c1 > c2) :
    getVerifierInfo ss c1 c2 n = none := by
  unfold getVerifierInfo; rw [if_pos h]

theorem getVerifierInfo_some (ss c1 c2 n : Nat) (h : ¬ (c1 = 0 ∨ c2 = 0 ∨ c1 > c2)) :
    getVerifierInfo ss c1 c2 n = some ⟨n, decide (ss > 0)⟩ := by
  unfold getVerifierInfo; rw [if_neg h]

/-- What the code accepts, exactly (all inputs, all oracle valuations). -/
theorem C24_verify_iff (H : Bytes → Bytes) (ss c1 c2 n : Nat) (rand : Bytes) (digest : List Item)
    (o : Oracles) :
    verify H ss c1 c2 n rand digest o = .ok ↔ authorisedLax H ss c1 c2 n rand digest o = true := by
  unfold verify authorisedLax
  by_cases hc : c1 = 0 ∨ c2 = 0 ∨ c1 > c2
  · have : ¬ (c1 ≠ 0 ∧ c2 ≠ 0 ∧ c1 ≤ c2) := by omega
    rw [getVerifierInfo_none _ _ _ _ hc]
    simp [this]
  · have hv : (c1 ≠ 0 ∧ c2 ≠ 0 ∧ c1 ≤ c2) = True := by
      apply eq_true; omega
    rw [getVerifierInfo_some _ _ _ _ hc]
    simp only [hv, decide_true, Bool.true_and]
    rw [verifyAuthorshipRight_ok]
    by_cases hl : 2 ≤ digest.length
    · simp only [hl, true_and, decide_true, Bool.true_and]
      cases hh : digest.head? with
      | none => simp
      | some it =>
        cases it with
        | sealItem => simp
        | other => simp
        | pre d =>
          cases hg : digest.getLast? with
          | none => simp
          | some lt =>
            cases lt with
            | pre _ => simp
            | other => simp
            | sealItem =>
              cases d with
              | none => simp [claimAccepted]
              | some pd =>
                simp only [Option.some.injEq, Item.pre.injEq, exists_eq_left', true_and,
                  claimAccepted, kindAllowedLax]
                cases pd <;> simp [and_assoc]
    · simp [hl]

/-- the region where the code and the specification differ: a secondary claim of a kind the
    configuration does not allow while `SecondarySlots > 0` -/
def kindMismatch (ss : Nat) (digest : List Item) : Bool :=
  match digest.head? with
  | some (.pre (some pd)) => kindAllowedLax ss pd && !kindAllowed ss pd
  | _ => false

theorem kindAllowed_lax (ss : Nat) (pd : PreDigest) (h : kindAllowed ss pd = true) :
    kindAllowedLax ss pd = true := by
  cases pd <;> simp_all [kindAllowed, kindAllowedLax]

theorem authorised_lax (H : Bytes → Bytes) (ss c1 c2 n : Nat) (rand : Bytes) (digest : List Item)
    (o : Oracles) (h : authorised H ss c1 c2 n rand digest o = true) :
    authorisedLax H ss c1 c2 n rand digest o = true := by
  unfold authorised at h
  unfold authorisedLax
  cases hh : digest.head? with
  | none => simp [hh] at h
  | some it =>
    cases it with
    | sealItem => simp [hh] at h
    | other => simp [hh] at h
    | pre d =>
      cases d with
      | none => simp [hh] at h
      | some pd =>
        cases hg : digest.getLast? with
        | none => simp [hh, hg] at h
        | some lt =>
          cases lt with
          | pre _ => simp [hh, hg] at h
          | other => simp [hh, hg] at h
          | sealItem =>
            simp only [hh, hg, Bool.and_eq_true] at h ⊢
            obtain ⟨⟨h1, h2⟩, ⟨⟨h3, h4⟩, h5⟩, h6⟩ := h
            exact ⟨⟨h1, h2⟩, ⟨⟨h3, kindAllowed_lax _ _ h4⟩, h5⟩, h6⟩

/-- completeness: every authorised header passes verification -/
theorem C24_authorised_accepted (H : Bytes → Bytes) (ss c1 c2 n : Nat) (rand : Bytes)
    (digest : List Item) (o : Oracles) (h : authorised H ss c1 c2 n rand digest o = true) :
    verify H ss c1 c2 n rand digest o = .ok :=
  (C24_verify_iff H ss c1 c2 n rand digest o).2 (authorised_lax H ss c1 c2 n rand digest o h)

/-- Outside the region `kindMismatch`: a block passes verification iff it is authorised. -/
theorem C24_iff_partial (H : Bytes → Bytes) (ss c1 c2 n : Nat) (rand : Bytes) (digest : List Item)
    (o : Oracles) (hreg : kindMismatch ss digest = false) :
    verify H ss c1 c2 n rand digest o = .ok ↔ authorised H ss c1 c2 n rand digest o = true := by
  constructor
  · intro hv
    have hl := (C24_verify_iff H ss c1 c2 n rand digest o).1 hv
    unfold authorisedLax at hl
    unfold authorised
    unfold kindMismatch at hreg
    cases hh : digest.head? with
    | none => simp [hh] at hl
    | some it =>
      cases it with
      | sealItem => simp [hh] at hl
      | other => simp [hh] at hl
      | pre d =>
        cases d with
        | none => simp [hh] at hl
        | some pd =>
          cases hg : digest.getLast? with
          | none => simp [hh, hg] at hl
          | some lt =>
            cases lt with
            | pre _ => simp [hh, hg] at hl
            | other => simp [hh, hg] at hl
            | sealItem =>
              simp only [hh, hg, Bool.and_eq_true] at hl ⊢
              simp only [hh] at hreg
              obtain ⟨⟨h1, h2⟩, ⟨⟨h3, h4⟩, h5⟩, h6⟩ := hl
              have h4' : kindAllowed ss pd = true := by
                rw [h4] at hreg
                cases hk : kindAllowed ss pd
                · simp [hk] at hreg
                · rfl
              exact ⟨⟨h1, h2⟩, ⟨⟨h3, h4'⟩, h5⟩, h6⟩
  · exact C24_authorised_accepted H ss c1 c2 n rand digest o

/-- The full statement fails: under `SecondarySlots = 2` (primary + secondary VRF only) a
    secondary-PLAIN claim by the slot's assigned authority, sealed by it, passes verification. -/
theorem C24_iff_counterexample :
    ∃ (H : Bytes → Bytes) (o : Oracles),
      verify H 2 1 4 1 [] [.pre (some (.secPlain 0 5)), .sealItem] o = .ok ∧
      authorised H 2 1 4 1 [] [.pre (some (.secPlain 0 5)), .sealItem] o = false :=
  ⟨fun _ => [0], ⟨false, false, .no, .yes⟩, by decide, by decide⟩

/-- … and the other way round: a secondary-VRF claim under `SecondarySlots = 1` (plain only). -/
theorem C24_iff_counterexample_vrf :
    ∃ (H : Bytes → Bytes) (o : Oracles),
      verify H 1 1 4 1 [] [.pre (some (.secVRF 0 5)), .sealItem] o = .ok ∧
      authorised H 1 1 4 1 [] [.pre (some (.secVRF 0 5)), .sealItem] o = false :=
  ⟨fun _ => [0], ⟨false, false, .yes, .yes⟩, by decide, by decide⟩

/-! ### the node's own claims -/

theorem claimSlot_cases (H : Bytes → Bytes) (ss n me : Nat) (rand : Bytes) (slot : Nat) (b : Bool)
    (pd : PreDigest) (h : claimSlot H ss n me rand slot b = some pd) :
    (b = true ∧ pd = .primary me slot) ∨
    (b = false ∧ ss = 2 ∧ secondaryAuthor H rand slot n = .idx me ∧ pd = .secVRF me slot) ∨
    (b = false ∧ ss = 1 ∧ secondaryAuthor H rand slot n = .idx me ∧ pd = .secPlain me slot) := by
  unfold claimSlot at h
  cases b with
  | true => simp at h; exact Or.inl ⟨rfl, h.symm⟩
  | false =>
    simp only [Bool.false_eq_true, if_false] at h
    by_cases h0 : ss = 0
    · simp [h0] at h
    · simp only [h0, if_false] at h
      by_cases h2 : ss = 2
      · simp only [h2, if_true] at h
        by_cases ha : secondaryAuthor H rand slot n = .idx me
        · simp only [ha, if_true, Option.some.injEq] at h
          exact Or.inr (Or.inl ⟨rfl, h2, ha, h.symm⟩)
        · simp [ha] at h
      · simp only [h2, if_false] at h
        by_cases h1 : ss = 1
        · simp only [h1, if_true] at h
          by_cases ha : secondaryAuthor H rand slot n = .idx me
          · simp only [ha, if_true, Option.some.injEq] at h
            exact Or.inr (Or.inr ⟨rfl, h1, ha, h.symm⟩)
          · simp [ha] at h
        · simp [h1] at h

/-- Every claim produced by the node's own slot lottery is authorised (specification) … -/
theorem C24_own_claims_authorised (H : Bytes → Bytes) (ss c1 c2 n me : Nat) (rand : Bytes)
    (slot : Nat) (b : Bool) (pd : PreDigest) (o : Oracles)
    (hcfg : c1 ≠ 0 ∧ c2 ≠ 0 ∧ c1 ≤ c2) (hme : me < n)
    (hclaim : claimSlot H ss n me rand slot b = some pd)
    (hattach : o.attach = true) (hbelow : o.below = b) (hvrf : o.vrf = .yes) (hsig : o.sig = .yes) :
    authorised H ss c1 c2 n rand [.pre (some pd), .sealItem] o = true := by
  unfold authorised
  simp only [hcfg, ne_eq, not_false_eq_true, and_self, decide_true, List.length_cons, List.length_nil,
    Nat.reduceAdd, Nat.le_refl, Bool.true_and, List.head?_cons, List.getLast?_cons_cons,
    List.getLast?_singleton]
  rcases claimSlot_cases H ss n me rand slot b pd hclaim with ⟨hb, rfl⟩ | ⟨hb, h2, ha, rfl⟩ | ⟨hb, h1, ha, rfl⟩
  · simp [PreDigest.idx, hme, kindAllowed, claimRight, hattach, hbelow, hb, hvrf, hsig]
  · simp [PreDigest.idx, hme, kindAllowed, claimRight, h2, ha, hvrf, hsig]
  · simp [PreDigest.idx, hme, kindAllowed, claimRight, h1, ha, hsig]

/-- … and passes verification. -/
theorem C24_own_claims_pass (H : Bytes → Bytes) (ss c1 c2 n me : Nat) (rand : Bytes)
    (slot : Nat) (b : Bool) (pd : PreDigest) (o : Oracles)
    (hcfg : c1 ≠ 0 ∧ c2 ≠ 0 ∧ c1 ≤ c2) (hme : me < n)
    (hclaim : claimSlot H ss n me rand slot b = some pd)
    (hattach : o.attach = true) (hbelow : o.below = b) (hvrf : o.vrf = .yes) (hsig : o.sig = .yes) :
    verify H ss c1 c2 n rand [.pre (some pd), .sealItem] o = .ok :=
  C24_authorised_accepted _ _ _ _ _ _ _ _
    (C24_own_claims_authorised H ss c1 c2 n me rand slot b pd o hcfg hme hclaim hattach hbelow hvrf hsig)

/-- the hypotheses are satisfiable: authority 0 of 1 claims a secondary-plain slot under ss = 1 -/
example : claimSlot (fun _ => [0]) 1 1 0 [] 7 false = some (.secPlain 0 7) := by decide

end Gossamer.C24
