/-
C24 — BABE verification accepts exactly authorised blocks.  Theorems about `Gossamer.C24`
(Model/C24.lean), for ALL hash functions, configurations, authority counts, digests and ALL valuations
of the crypto oracles.

Full statement (FALSE for the code as it is):
  C24_iff : verify H ss c1 c2 n rand digest o = .ok ↔ authorised H ss c1 c2 n rand digest o = true
`getVerifierInfo` keeps only `SecondarySlots > 0`, so a secondary-plain claim passes under the VRF-only
configuration (and vice versa, and both under the invalid values 3..255).  Proved instead:
  C24_verify_iff         what the code accepts, exactly (`authorisedLax`)
  C24_authorised_accepted   completeness: every authorised header is accepted
  C24_iff_partial        the full statement outside the region `kindMismatch`
  C24_iff_counterexample the negation at a concrete witness
  C24_own_claims_pass / C24_own_claims_authorised
  C24_manager_history_independent   on one VerificationManager the verdict of VerifyBlock for a header is the
                         single-shot verdict with the epoch data of the header's own branch, whatever was
                         verified or disabled before (VerifyBlock reads no manager state)
  C24_verifyBlock_iff_partial / C24_manager_accepts_authorised
-/
import Gossamer.Model.C24
import Gossamer.Props.C25
namespace Gossamer.C24
open Gossamer.C25 (secondaryAuthor Author)

theorem vrfVerdict_ok (t : Tri) : vrfVerdict t = .ok ↔ t = .yes := by
  cases t <;> simp [vrfVerdict]

theorem sealVerdict_ok (t : Tri) : sealVerdict t = .ok ↔ t = .yes := by
  cases t <;> simp [sealVerdict]

/-- the claim part, with the code's `secondarySlots` flag -/
def claimAccepted (H : Bytes → Bytes) (info : Info) (rand : Bytes) (o : Oracles) : Option PreDigest → Bool
  | none => false
  | some pd => decide (pd.idx < info.n) &&
      (match pd with | .primary _ _ => true | _ => info.secondarySlots) &&
      claimRight H info.n rand o pd

theorem verifyPreRuntimeDigest_ok (H : Bytes → Bytes) (info : Info) (rand : Bytes)
    (d : Option PreDigest) (o : Oracles) :
    verifyPreRuntimeDigest H info rand d o = .ok ↔ claimAccepted H info rand o d = true := by
  cases d with
  | none => simp [verifyPreRuntimeDigest, claimAccepted]
  | some pd =>
    unfold verifyPreRuntimeDigest claimAccepted
    by_cases hi : info.n ≤ pd.idx
    · have : ¬ pd.idx < info.n := by omega
      simp [hi, this]
    · have hlt : pd.idx < info.n := by omega
      simp only [hi, if_false, hlt, decide_true, Bool.true_and]
      cases pd with
      | primary idx slot =>
        simp only [claimRight]
        cases ha : o.attach <;> cases hb : o.below <;> simp [vrfVerdict_ok]
      | secPlain idx slot =>
        simp only [claimRight]
        cases hs : info.secondarySlots <;> simp
      | secVRF idx slot =>
        simp only [claimRight]
        cases hs : info.secondarySlots <;> simp [vrfVerdict_ok]
        by_cases ha : secondaryAuthor H rand slot info.n = .idx idx <;> simp [ha, vrfVerdict_ok]

/-- verifyAuthorshipRight accepts exactly: ≥ 2 items, first a pre-digest whose claim is accepted,
    last a seal, seal signature valid -/
theorem verifyAuthorshipRight_ok (H : Bytes → Bytes) (info : Info) (rand : Bytes)
    (digest : List Item) (o : Oracles) :
    verifyAuthorshipRight H info rand digest o = .ok ↔
      2 ≤ digest.length ∧ ∃ d, digest.head? = some (.pre d) ∧ digest.getLast? = some .sealItem ∧
        claimAccepted H info rand o d = true ∧ o.sig = .yes := by
  unfold verifyAuthorshipRight
  by_cases hl : digest.length < 2
  · simp only [hl, if_true]
    constructor
    · intro h; cases h
    · intro h; omega
  · simp only [hl, if_false]
    have hl2 : 2 ≤ digest.length := by omega
    cases hh : digest.head? with
    | none => simp
    | some it =>
      cases it with
      | sealItem => simp
      | other => simp
      | pre d =>
        cases hg : digest.getLast? with
        | none => simp
        | some lt =>
          cases lt with
          | pre _ => simp
          | other => simp
          | sealItem =>
            simp only [hl2, true_and]
            constructor
            · intro h
              refine ⟨d, rfl, ?_⟩
              cases hv : verifyPreRuntimeDigest H info rand d o <;> simp only [hv] at h <;>
                first
                | (exact ⟨(verifyPreRuntimeDigest_ok H info rand d o).1 hv, (sealVerdict_ok _).1 h⟩)
                | cases h
            · rintro ⟨d', hd, hc, hs⟩
              have : d' = d := by
                simp only [Option.some.injEq, Item.pre.injEq] at hd; exact hd.symm
              subst this
              rw [(verifyPreRuntimeDigest_ok H info rand d' o).2 hc]
              exact (sealVerdict_ok _).2 hs

theorem getVerifierInfo_none (ss c1 c2 n : Nat) (h : c1 = 0 ∨ c2 = 0 ∨ c1 > c2) :
    getVerifierInfo ss c1 c2 n = none := by
  unfold getVerifierInfo; rw [if_pos h]

theorem getVerifierInfo_some (ss c1 c2 n : Nat) (h : ¬ (c1 = 0 ∨ c2 = 0 ∨ c1 > c2)) :
    getVerifierInfo ss c1 c2 n = some ⟨n, decide (ss > 0)⟩ := by
  unfold getVerifierInfo; rw [if_neg h]

/-- What the code accepts, exactly (all inputs, all oracle valuations). -/
theorem C24_verify_iff (H : Bytes → Bytes) (ss c1 c2 n : Nat) (rand : Bytes) (digest : List Item)
    (o : Oracles) :
    verify H ss c1 c2 n rand digest o = .ok ↔ authorisedLax H ss c1 c2 n rand digest o = true := by
  unfold verify authorisedLax
  by_cases hc : c1 = 0 ∨ c2 = 0 ∨ c1 > c2
  · have : ¬ (c1 ≠ 0 ∧ c2 ≠ 0 ∧ c1 ≤ c2) := by omega
    rw [getVerifierInfo_none _ _ _ _ hc]
    simp [this]
  · have hv : (c1 ≠ 0 ∧ c2 ≠ 0 ∧ c1 ≤ c2) = True := by
      apply eq_true; omega
    rw [getVerifierInfo_some _ _ _ _ hc]
    simp only [hv, decide_true, Bool.true_and]
    rw [verifyAuthorshipRight_ok]
    by_cases hl : 2 ≤ digest.length
    · simp only [hl, true_and, decide_true, Bool.true_and]
      cases hh : digest.head? with
      | none => simp
      | some it =>
        cases it with
        | sealItem => simp
        | other => simp
        | pre d =>
          cases hg : digest.getLast? with
          | none => simp
          | some lt =>
            cases lt with
            | pre _ => simp
            | other => simp
            | sealItem =>
              cases d with
              | none => simp [claimAccepted]
              | some pd =>
                simp only [Option.some.injEq, Item.pre.injEq, exists_eq_left', true_and,
                  claimAccepted, kindAllowedLax]
                cases pd <;> simp [and_assoc]
    · simp [hl]

/-- the region where the code and the specification differ: a secondary claim of a kind the
    configuration does not allow while `SecondarySlots > 0` -/
def kindMismatch (ss : Nat) (digest : List Item) : Bool :=
  match digest.head? with
  | some (.pre (some pd)) => kindAllowedLax ss pd && !kindAllowed ss pd
  | _ => false

theorem kindAllowed_lax (ss : Nat) (pd : PreDigest) (h : kindAllowed ss pd = true) :
    kindAllowedLax ss pd = true := by
  cases pd <;> simp_all [kindAllowed, kindAllowedLax]

theorem authorised_lax (H : Bytes → Bytes) (ss c1 c2 n : Nat) (rand : Bytes) (digest : List Item)
    (o : Oracles) (h : authorised H ss c1 c2 n rand digest o = true) :
    authorisedLax H ss c1 c2 n rand digest o = true := by
  unfold authorised at h
  unfold authorisedLax
  cases hh : digest.head? with
  | none => simp [hh] at h
  | some it =>
    cases it with
    | sealItem => simp [hh] at h
    | other => simp [hh] at h
    | pre d =>
      cases d with
      | none => simp [hh] at h
      | some pd =>
        cases hg : digest.getLast? with
        | none => simp [hh, hg] at h
        | some lt =>
          cases lt with
          | pre _ => simp [hh, hg] at h
          | other => simp [hh, hg] at h
          | sealItem =>
            simp only [hh, hg, Bool.and_eq_true] at h ⊢
            obtain ⟨⟨h1, h2⟩, ⟨⟨h3, h4⟩, h5⟩, h6⟩ := h
            exact ⟨⟨h1, h2⟩, ⟨⟨h3, kindAllowed_lax _ _ h4⟩, h5⟩, h6⟩

/-- completeness: every authorised header passes verification -/
theorem C24_authorised_accepted (H : Bytes → Bytes) (ss c1 c2 n : Nat) (rand : Bytes)
    (digest : List Item) (o : Oracles) (h : authorised H ss c1 c2 n rand digest o = true) :
    verify H ss c1 c2 n rand digest o = .ok :=
  (C24_verify_iff H ss c1 c2 n rand digest o).2 (authorised_lax H ss c1 c2 n rand digest o h)

/-- Outside the region `kindMismatch`: a block passes verification iff it is authorised. -/
theorem C24_iff_partial (H : Bytes → Bytes) (ss c1 c2 n : Nat) (rand : Bytes) (digest : List Item)
    (o : Oracles) (hreg : kindMismatch ss digest = false) :
    verify H ss c1 c2 n rand digest o = .ok ↔ authorised H ss c1 c2 n rand digest o = true := by
  constructor
  · intro hv
    have hl := (C24_verify_iff H ss c1 c2 n rand digest o).1 hv
    unfold authorisedLax at hl
    unfold authorised
    unfold kindMismatch at hreg
    cases hh : digest.head? with
    | none => simp [hh] at hl
    | some it =>
      cases it with
      | sealItem => simp [hh] at hl
      | other => simp [hh] at hl
      | pre d =>
        cases d with
        | none => simp [hh] at hl
        | some pd =>
          cases hg : digest.getLast? with
          | none => simp [hh, hg] at hl
          | some lt =>
            cases lt with
            | pre _ => simp [hh, hg] at hl
            | other => simp [hh, hg] at hl
            | sealItem =>
              simp only [hh, hg, Bool.and_eq_true] at hl ⊢
              simp only [hh] at hreg
              obtain ⟨⟨h1, h2⟩, ⟨⟨h3, h4⟩, h5⟩, h6⟩ := hl
              have h4' : kindAllowed ss pd = true := by
                rw [h4] at hreg
                cases hk : kindAllowed ss pd
                · simp [hk] at hreg
                · rfl
              exact ⟨⟨h1, h2⟩, ⟨⟨h3, h4'⟩, h5⟩, h6⟩
  · exact C24_authorised_accepted H ss c1 c2 n rand digest o

/-- The full statement fails: under `SecondarySlots = 2` (primary + secondary VRF only) a
    secondary-PLAIN claim by the slot's assigned authority, sealed by it, passes verification. -/
theorem C24_iff_counterexample :
    ∃ (H : Bytes → Bytes) (o : Oracles),
      verify H 2 1 4 1 [] [.pre (some (.secPlain 0 5)), .sealItem] o = .ok ∧
      authorised H 2 1 4 1 [] [.pre (some (.secPlain 0 5)), .sealItem] o = false :=
  ⟨fun _ => [0], ⟨false, false, .no, .yes⟩, by decide, by decide⟩

/-- … and the other way round: a secondary-VRF claim under `SecondarySlots = 1` (plain only). -/
theorem C24_iff_counterexample_vrf :
    ∃ (H : Bytes → Bytes) (o : Oracles),
      verify H 1 1 4 1 [] [.pre (some (.secVRF 0 5)), .sealItem] o = .ok ∧
      authorised H 1 1 4 1 [] [.pre (some (.secVRF 0 5)), .sealItem] o = false :=
  ⟨fun _ => [0], ⟨false, false, .yes, .yes⟩, by decide, by decide⟩

/-! ### one VerificationManager, many calls -/

/-- The verdict of VerifyBlock does not depend on what the manager did before: in ANY sequence of
    VerifyBlock / SetOnDisabled calls, started from ANY manager state, the output of every VerifyBlock
    call is the single-shot verdict computed from the epoch data of the header's own branch. -/
theorem C24_manager_history_independent (H : Bytes → Bytes) (env : Env) (ops : List Op) :
    ∀ (st : MState) (i : Nat) (b : VB), ops[i]? = some (.vb b) →
      (runOps H env st ops)[i]? = some (.verdict (verifyBlock H env b)) := by
  induction ops with
  | nil => intro st i b h; simp at h
  | cons op ops ih =>
    intro st i b h
    cases i with
    | zero =>
      simp only [List.getElem?_cons_zero, Option.some.injEq] at h
      subst h
      simp [runOps, stepOp]
    | succ j =>
      simp only [List.getElem?_cons_succ] at h
      simp only [runOps, List.getElem?_cons_succ]
      exact ih _ j b h

/-- the same, said about two different histories -/
theorem C24_manager_two_histories (H : Bytes → Bytes) (env : Env) (pre1 pre2 : List Op) (st1 st2 : MState)
    (b : VB) :
    (runOps H env st1 (pre1 ++ [.vb b]))[pre1.length]? =
    (runOps H env st2 (pre2 ++ [.vb b]))[pre2.length]? := by
  have h1 := C24_manager_history_independent H env (pre1 ++ [Op.vb b]) st1 pre1.length b (by simp)
  have h2 := C24_manager_history_independent H env (pre2 ++ [Op.vb b]) st2 pre2.length b (by simp)
  rw [h1, h2]

/-- SetOnDisabled never changes what VerifyBlock answers (the code keeps `onDisabled` but
    VerifyBlock does not read it) and the run has one output per call -/
theorem runOps_length (H : Bytes → Bytes) (env : Env) (ops : List Op) :
    ∀ st, (runOps H env st ops).length = ops.length := by
  induction ops with
  | nil => intro st; rfl
  | cons op ops ih => intro st; simp [runOps, ih]

theorem verifyWith_iff_partial (H : Bytes → Bytes) (d : Desc) (digest : List Item) (o : Oracles)
    (hreg : kindMismatch d.ss digest = false) :
    verifyWith H d digest o = .ok ↔ authorised H d.ss d.c1 d.c2 d.n (randOf d.rb) digest o = true :=
  C24_iff_partial H d.ss d.c1 d.c2 d.n (randOf d.rb) digest o hreg

/-- the descriptor VerifyBlock uses for a header (when it gets as far as building a verifier) -/
def descOfBlock (env : Env) (b : VB) : Desc :=
  match b.parent with
  | .blk k => env.at b.branch (whereEpoch (epochOfK k) b.epoch)
  | _ => env.at b.branch b.epoch

/-- VerifyBlock accepts a header iff its parent is known, its epoch is not below its parent's, and it
    is authorised under the epoch data of its own branch — outside the region `kindMismatch`. -/
theorem C24_verifyBlock_iff_partial (H : Bytes → Bytes) (env : Env) (b : VB)
    (hreg : kindMismatch (descOfBlock env b).ss b.digest = false) :
    verifyBlock H env b = .ok ↔ blockAuthorised H env b = true := by
  unfold verifyBlock blockAuthorised
  unfold descOfBlock at hreg
  cases hp : b.parent with
  | unknown => simp
  | genesis =>
    simp only [hp] at hreg
    simp only []
    exact verifyWith_iff_partial H _ _ _ hreg
  | blk k =>
    simp only [hp] at hreg
    simp only []
    by_cases he : epochOfK k > b.epoch
    · have : ¬ epochOfK k ≤ b.epoch := by omega
      simp [he, this]
    · have hle : epochOfK k ≤ b.epoch := by omega
      simp only [he, if_false, hle, decide_true, Bool.true_and]
      exact verifyWith_iff_partial H _ _ _ hreg

/-- completeness on the manager level, unconditional: an authorised header is accepted, whatever the
    manager verified or disabled before -/
theorem C24_manager_accepts_authorised (H : Bytes → Bytes) (env : Env) (pre : List Op) (st : MState)
    (b : VB) (h : blockAuthorised H env b = true) :
    (runOps H env st (pre ++ [.vb b]))[pre.length]? = some (.verdict .ok) := by
  have h1 := C24_manager_history_independent H env (pre ++ [Op.vb b]) st pre.length b (by simp)
  rw [h1]
  congr 2
  unfold blockAuthorised at h
  unfold verifyBlock
  cases hp : b.parent with
  | unknown => simp [hp] at h
  | genesis =>
    simp only [hp] at h
    exact C24_authorised_accepted _ _ _ _ _ _ _ _ h
  | blk k =>
    simp only [hp, Bool.and_eq_true, decide_eq_true_eq] at h
    have : ¬ epochOfK k > b.epoch := by omega
    simp only [this, if_false]
    exact C24_authorised_accepted _ _ _ _ _ _ _ _ h.2

/-- two branches announcing different descriptors for epoch 1: the same header material is judged by
    its own branch's data (non-vacuity of the manager theorems: the verdicts really differ) -/
example :
    let env : Env := ⟨⟨1, 0, 1, 1, 0⟩, ⟨1, 0, 1, 1, 1⟩, ⟨1, 0, 1, 1, 0⟩⟩
    let d : List Item := [.pre (some (.secPlain 0 5)), .sealItem]
    let o : Oracles := ⟨false, false, .no, .yes⟩
    runOps (fun _ => [0]) env MState.init
      [.vb ⟨.A, .blk 1, 1, d, o⟩, .vb ⟨.B, .blk 1, 1, d, o⟩, .dis .A 2 0, .vb ⟨.B, .blk 1, 1, d, o⟩,
       .vb ⟨.A, .blk 1, 1, d, o⟩]
    = [.verdict .ok, .verdict .badSlotClaim, .dis .ok, .verdict .badSlotClaim, .verdict .ok] := by
  decide

/-! ### the disabled-authority bookkeeping (all reachable manager states) -/

/-- no producer is recorded as disabled twice along one branch: a later entry for the same
    (epoch, producer) is never at a descendant-or-self of an earlier entry's block -/
def DisInv (st : MState) : Prop :=
  st.disabled.Pairwise fun e1 e2 =>
    e1.epoch = e2.epoch → e1.idx = e2.idx →
      ¬ (isDescendantOf e1.blk e2.blk = true ∧ e2.number ≥ e1.number)

theorem setOnDisabled_inv (env : Env) (st : MState) (br : Branch) (k idx : Nat) (h : DisInv st) :
    DisInv (setOnDisabled env st br k idx).1 := by
  unfold setOnDisabled
  simp only []
  -- the cache step does not touch `disabled`
  have key : ∀ (st1 : MState) (n : Nat), st1.disabled = st.disabled →
      DisInv (if idx ≥ n then (st1, DisResult.index)
        else if (st1.disabled.filter fun e => e.epoch = epochOfK k ∧ e.idx = idx).any
            (fun e => isDescendantOf e.blk ⟨br, k⟩ && decide (k ≥ e.number)) then (st1, DisResult.already)
        else ({ st1 with disabled := st1.disabled ++ [⟨epochOfK k, idx, k, ⟨br, k⟩⟩] }, DisResult.ok)).1 := by
    intro st1 n hd
    have h1 : DisInv st1 := by unfold DisInv; rw [hd]; exact h
    by_cases hi : idx ≥ n
    · simp only [hi, if_true]; exact h1
    · simp only [hi, if_false]
      by_cases ha : (st1.disabled.filter fun e => e.epoch = epochOfK k ∧ e.idx = idx).any
            (fun e => isDescendantOf e.blk ⟨br, k⟩ && decide (k ≥ e.number)) = true
      · simp only [ha, if_true]; exact h1
      · simp only [ha]
        unfold DisInv
        simp only [Bool.false_eq_true, if_false]
        rw [List.pairwise_append]
        refine ⟨h1, List.pairwise_singleton _ _, ?_⟩
        intro e he e2 he2 hep hix
        simp only [List.mem_singleton] at he2
        subst he2
        simp only at hep hix
        intro ⟨hd1, hn⟩
        apply ha
        rw [List.any_eq_true]
        refine ⟨e, ?_, ?_⟩
        · rw [List.mem_filter]
          exact ⟨he, by simp [hep, hix]⟩
        · simp only [Bool.and_eq_true, decide_eq_true_eq]
          exact ⟨hd1, hn⟩
  cases hl : st.cache.lookup (epochOfK k) with
  | some n => simp only []; exact key st n rfl
  | none =>
    simp only []
    cases hg : getVerifierInfo (env.at br (epochOfK k)).ss (env.at br (epochOfK k)).c1
        (env.at br (epochOfK k)).c2 (env.at br (epochOfK k)).n with
    | none => simp only []; exact h
    | some info => simp only []; exact key _ info.n rfl

/-- the state after a run -/
def runState (H : Bytes → Bytes) (env : Env) : MState → List Op → MState
  | st, [] => st
  | st, op :: ops => runState H env (stepOp H env st op).1 ops

/-- In every manager state reachable by any sequence of VerifyBlock / SetOnDisabled calls, no producer
    is recorded as disabled twice along one branch (the duplicate is refused with
    ErrAuthorityAlreadyDisabled instead). -/
theorem C24_disabled_no_duplicates (H : Bytes → Bytes) (env : Env) (ops : List Op) :
    ∀ st, DisInv st → DisInv (runState H env st ops) := by
  induction ops with
  | nil => intro st h; exact h
  | cons op ops ih =>
    intro st h
    simp only [runState]
    apply ih
    cases op with
    | vb b => exact h
    | dis br k idx => exact setOnDisabled_inv env st br k idx h

theorem DisInv_init : DisInv MState.init := by
  unfold DisInv MState.init; exact List.Pairwise.nil

/-! ### the node's own claims -/

theorem claimSlot_cases (H : Bytes → Bytes) (ss n me : Nat) (rand : Bytes) (slot : Nat) (b : Bool)
    (pd : PreDigest) (h : claimSlot H ss n me rand slot b = some pd) :
    (b = true ∧ pd = .primary me slot) ∨
    (b = false ∧ ss = 2 ∧ secondaryAuthor H rand slot n = .idx me ∧ pd = .secVRF me slot) ∨
    (b = false ∧ ss = 1 ∧ secondaryAuthor H rand slot n = .idx me ∧ pd = .secPlain me slot) := by
  unfold claimSlot at h
  cases b with
  | true => simp at h; exact Or.inl ⟨rfl, h.symm⟩
  | false =>
    simp only [Bool.false_eq_true, if_false] at h
    by_cases h0 : ss = 0
    · simp [h0] at h
    · simp only [h0, if_false] at h
      by_cases h2 : ss = 2
      · simp only [h2, if_true] at h
        by_cases ha : secondaryAuthor H rand slot n = .idx me
        · simp only [ha, if_true, Option.some.injEq] at h
          exact Or.inr (Or.inl ⟨rfl, h2, ha, h.symm⟩)
        · simp [ha] at h
      · simp only [h2, if_false] at h
        by_cases h1 : ss = 1
        · simp only [h1, if_true] at h
          by_cases ha : secondaryAuthor H rand slot n = .idx me
          · simp only [ha, if_true, Option.some.injEq] at h
            exact Or.inr (Or.inr ⟨rfl, h1, ha, h.symm⟩)
          · simp [ha] at h
        · simp [h1] at h

/-- Every claim produced by the node's own slot lottery is authorised (specification) … -/
theorem C24_own_claims_authorised (H : Bytes → Bytes) (ss c1 c2 n me : Nat) (rand : Bytes)
    (slot : Nat) (b : Bool) (pd : PreDigest) (o : Oracles)
    (hcfg : c1 ≠ 0 ∧ c2 ≠ 0 ∧ c1 ≤ c2) (hme : me < n)
    (hclaim : claimSlot H ss n me rand slot b = some pd)
    (hattach : o.attach = true) (hbelow : o.below = b) (hvrf : o.vrf = .yes) (hsig : o.sig = .yes) :
    authorised H ss c1 c2 n rand [.pre (some pd), .sealItem] o = true := by
  unfold authorised
  simp only [hcfg, ne_eq, not_false_eq_true, and_self, decide_true, List.length_cons, List.length_nil,
    Nat.reduceAdd, Nat.le_refl, Bool.true_and, List.head?_cons, List.getLast?_cons_cons,
    List.getLast?_singleton]
  rcases claimSlot_cases H ss n me rand slot b pd hclaim with ⟨hb, rfl⟩ | ⟨hb, h2, ha, rfl⟩ | ⟨hb, h1, ha, rfl⟩
  · simp [PreDigest.idx, hme, kindAllowed, claimRight, hattach, hbelow, hb, hvrf, hsig]
  · simp [PreDigest.idx, hme, kindAllowed, claimRight, h2, ha, hvrf, hsig]
  · simp [PreDigest.idx, hme, kindAllowed, claimRight, h1, ha, hsig]

/-- … and passes verification. -/
theorem C24_own_claims_pass (H : Bytes → Bytes) (ss c1 c2 n me : Nat) (rand : Bytes)
    (slot : Nat) (b : Bool) (pd : PreDigest) (o : Oracles)
    (hcfg : c1 ≠ 0 ∧ c2 ≠ 0 ∧ c1 ≤ c2) (hme : me < n)
    (hclaim : claimSlot H ss n me rand slot b = some pd)
    (hattach : o.attach = true) (hbelow : o.below = b) (hvrf : o.vrf = .yes) (hsig : o.sig = .yes) :
    verify H ss c1 c2 n rand [.pre (some pd), .sealItem] o = .ok :=
  C24_authorised_accepted _ _ _ _ _ _ _ _
    (C24_own_claims_authorised H ss c1 c2 n me rand slot b pd o hcfg hme hclaim hattach hbelow hvrf hsig)

/-! ### the threshold boundary -/

/-- A primary claim whose 128-bit VRF in-out value `v = natOfLE res` is NOT strictly below the epoch
    threshold (in particular `v = threshold`) is rejected, whatever else holds: with the `below`
    oracle being C25's `checkPrimary res thr`. -/
theorem C24_primary_at_or_over_threshold_rejected (H : Bytes → Bytes) (ss c1 c2 n : Nat) (rand : Bytes)
    (digest : List Item) (o : Oracles) (idx slot : Nat) (res : Bytes) (thr : C13.U128)
    (hres : res.length ≤ 16) (hhead : digest.head? = some (.pre (some (.primary idx slot))))
    (hbelow : o.below = C25.checkPrimary res thr) (hv : thr.toNat ≤ natOfLE res) :
    verify H ss c1 c2 n rand digest o ≠ .ok := by
  intro hok
  have hl := (C24_verify_iff H ss c1 c2 n rand digest o).1 hok
  have hb : o.below = false := by
    rw [hbelow, C25.C25_compare res thr hres]
    simp; omega
  unfold authorisedLax at hl
  rw [hhead] at hl
  cases hg : digest.getLast? with
  | none => simp [hg] at hl
  | some lt =>
    cases lt with
    | pre _ => simp [hg] at hl
    | other => simp [hg] at hl
    | sealItem => simp [hg, claimRight, hb] at hl

/-- … and the node's own lottery does not claim a primary slot at the boundary -/
theorem C24_no_primary_claim_at_threshold (H : Bytes → Bytes) (ss n me : Nat) (rand : Bytes) (slot : Nat)
    (res : Bytes) (thr : C13.U128) (hres : res.length ≤ 16) (hv : thr.toNat ≤ natOfLE res) :
    claimSlot H ss n me rand slot (C25.checkPrimary res thr) ≠ some (.primary me slot) := by
  have hb : C25.checkPrimary res thr = false := by
    rw [C25.C25_compare res thr hres]; simp; omega
  rw [hb]
  intro h
  rcases claimSlot_cases H ss n me rand slot false _ h with ⟨hb', _⟩ | ⟨_, _, _, h2⟩ | ⟨_, _, _, h2⟩
  · cases hb'
  · cases h2
  · cases h2

/-- the hypotheses are satisfiable: authority 0 of 1 claims a secondary-plain slot under ss = 1 -/
example : claimSlot (fun _ => [0]) 1 1 0 [] 7 false = some (.secPlain 0 7) := by decide

end Gossamer.C24
