/-
Property C27: slot equivocations are detected exactly.

Layers:
 * `Gossamer.Lib.C27DB`   – lemmas on the association-map database and on the byte keys;
 * `Gossamer.Lib.C27Spec` – theory of the abstract state machine (Substrate `check_equivocation`);
 * this file – the refinement `R` between the database model of dot/state/slot.go and the abstract
   machine, and the property theorems stated about the *model* (`mstep`, run from the empty database).

Hypotheses that appear everywhere: the codec is lawful (SCALE round-trips, never empty) and the
inputs are Go `uint64` values (`Op.wf`).
-/
import Gossamer.Model.C27
import Gossamer.Lib.C27DB
import Gossamer.Lib.C27Spec
open Gossamer Gossamer.C27
namespace Gossamer.C27

section
variable {H S Hh : Type}

/-- refinement relation between the database and the abstract state -/
structure R (c : Codec H S) (db : DB) (st : Spec H S) : Prop where
  start_none : st.start = none → db.get startKey = none
  start_some : ∀ n, st.start = some n → n < 2 ^ 64 ∧ db.get startKey = some (leBytes 8 n)
  slot_nil : ∀ n, n < 2 ^ 64 → st.slots n = [] → db.get (slotKey n) = none
  slot_cons : ∀ n, n < 2 ^ 64 → st.slots n ≠ [] → db.get (slotKey n) = some (c.enc (st.slots n))

theorem R_empty (c : Codec H S) : R c [] (Spec.empty : Spec H S) :=
  ⟨fun _ => rfl, fun _ h => by simp [Spec.empty] at h, fun _ _ _ => rfl,
   fun _ _ h => by simp [Spec.empty] at h⟩

theorem read_slot {c : Codec H S} (hc : c.Lawful) {db : DB} {st : Spec H S} (hR : R c db st)
    {n : Nat} (hn : n < 2 ^ 64) :
    (if ((db.get (slotKey n)).getD []).length > 0 then c.dec ((db.get (slotKey n)).getD [])
      else some []) = some (st.slots n) := by
  by_cases h : st.slots n = []
  · rw [hR.slot_nil n hn h, h]; simp
  · rw [hR.slot_cons n hn h]
    have := hc.enc_ne (st.slots n)
    have hl : (c.enc (st.slots n)).length > 0 := List.length_pos_iff.mpr this
    simp [hl, hc.dec_enc]

theorem read_start {c : Codec H S} {db : DB} {st : Spec H S} (hR : R c db st) (slot : Nat) :
    (if ((db.get startKey).getD []).length > 0 then le64 ((db.get startKey).getD []) else slot)
      = st.start.getD slot := by
  cases h : st.start with
  | none => rw [hR.start_none h]; simp
  | some n =>
    obtain ⟨hn, hg⟩ := hR.start_some n h
    rw [hg]; simp [leBytes8_ne_nil, le64_leBytes n hn]

theorem scan_eq_find [DecidableEq S] [DecidableEq Hh] (hash : H → Hh) (slot : Nat) (header : H) (signer : S) (l : List (H × S)) :
    scan hash slot header signer l =
      (l.find? (fun e => e.2 = signer)).map
        (fun e => if hash header ≠ hash e.1 then .proof slot signer e.1 header else .none) := by
  induction l with
  | nil => rfl
  | cons e r ih =>
    obtain ⟨ph, ps⟩ := e
    by_cases h : ps = signer
    · by_cases h2 : hash ph = hash header
      · simp [scan, h, h2]
      · have : ¬ hash header = hash ph := fun x => h2 x.symm
        simp [scan, h, h2, this]
    · simp [scan, h, ih]

theorem mem_pruneKeys {first newFirst n : Nat} (hn : n < 2 ^ 64) (hnf : newFirst ≤ 2 ^ 64) :
    slotKey n ∈ pruneKeys first newFirst ↔ first ≤ n ∧ n < newFirst := by
  simp only [pruneKeys, List.mem_map, List.mem_range'_1]
  constructor
  · rintro ⟨m, ⟨h1, h2⟩, h3⟩
    have hm : m < 2 ^ 64 := by omega
    have := slotKey_inj hm hn h3
    subst this; omega
  · intro ⟨h1, h2⟩
    exact ⟨n, ⟨h1, by omega⟩, rfl⟩

theorem startKey_not_mem_pruneKeys (first newFirst : Nat) : startKey ∉ pruneKeys first newFirst := by
  simp only [pruneKeys, List.mem_map, not_exists, not_and]
  intro m _ h
  exact slotKey_ne_startKey m h

theorem R_write {c : Codec H S} {db : DB} {st : Spec H S} (hR : R c db st) {slot first newFirst : Nat}
    (h2 : slot < 2 ^ 64) (hnf : newFirst < 2 ^ 64) (keys : List Bytes)
    (hk : ∀ n, n < 2 ^ 64 → (slotKey n ∈ keys ↔ first ≤ n ∧ n < newFirst))
    (hs : startKey ∉ keys) (l' : List (H × S)) (hl : l' ≠ []) :
    R c (db.flush ([BatchOp.put (slotKey slot) (c.enc l'), BatchOp.put startKey (leBytes 8 newFirst)]
          ++ keys.map BatchOp.del))
      { start := some newFirst,
        slots := fun n => if first ≤ n ∧ n < newFirst then [] else if n = slot then l' else st.slots n } := by
  constructor
  · intro h; simp at h
  · intro n h
    simp only [Option.some.injEq] at h
    subst h
    refine ⟨hnf, ?_⟩
    rw [get_flush_batch]; simp [hs]
  · intro n hn h
    rw [get_flush_batch]
    by_cases hr : first ≤ n ∧ n < newFirst
    · simp [(hk n hn).mpr hr]
    · simp only [hr, if_false] at h
      have hne : n ≠ slot := by intro e; simp [e, hl] at h
      simp only [hne, if_false] at h
      have hk' : slotKey n ∉ keys := fun x => hr ((hk n hn).mp x)
      have h3 : ¬ slotKey slot = slotKey n := fun e => hne (slotKey_inj h2 hn e).symm
      simp [hk', (slotKey_ne_startKey n).symm, h3, hR.slot_nil n hn h]
  · intro n hn h
    rw [get_flush_batch]
    by_cases hr : first ≤ n ∧ n < newFirst
    · simp [hr] at h
    · simp only [hr, if_false] at h ⊢
      have hk' : slotKey n ∉ keys := fun x => hr ((hk n hn).mp x)
      by_cases hne : n = slot
      · subst hne; simp [hk', (slotKey_ne_startKey n).symm]
      · simp only [hne, if_false] at h ⊢
        have h3 : ¬ slotKey slot = slotKey n := fun e => hne (slotKey_inj h2 hn e).symm
        simp [hk', (slotKey_ne_startKey n).symm, h3, hR.slot_cons n hn h]

variable [DecidableEq S] [DecidableEq Hh]

/-- one step: same output, and the refinement relation is preserved -/
theorem refines_step {c : Codec H S} (hc : c.Lawful) (hash : H → Hh) {db : DB} {st : Spec H S}
    (hR : R c db st) (o : Op H S) (h1 : o.slotNow < 2 ^ 64) (h2 : o.slot < 2 ^ 64) :
    (mstep c hash db o).1 = (sstep hash st o).1 ∧ R c (mstep c hash db o).2 (sstep hash st o).2 := by
  obtain ⟨slotNow, slot, header, signer⟩ := o
  simp only at h1 h2
  simp only [mstep, sstep, checkEquivocation, specStep, satSub, maxSlotCapacity, pruningBound]
  by_cases hcap : slotNow - slot > 1000
  · simp only [hcap, if_true]; exact ⟨trivial, hR⟩
  simp only [hcap, if_false]
  rw [read_slot hc hR h2]
  simp only
  rw [read_start hR slot]
  have hfirst : st.start.getD slot < 2 ^ 64 := by
    cases h : st.start with
    | none => simpa using h2
    | some n => simpa using (hR.start_some n h).1
  generalize hf : st.start.getD slot = first at hfirst ⊢
  by_cases hlt : slotNow < first
  · simp only [hlt, if_true]; exact ⟨trivial, hR⟩
  simp only [hlt, if_false]
  rw [scan_eq_find]
  cases hfind : (st.slots slot).find? (fun e => e.2 = signer) with
  | some e =>
    obtain ⟨prev, ps⟩ := e
    simp only [Option.map_some]
    by_cases hh : hash header = hash prev
    · simp only [hh, ne_eq, not_true_eq_false, if_false]; exact ⟨trivial, hR⟩
    · simp only [hh, ne_eq, not_false_eq_true, if_true]; exact ⟨trivial, hR⟩
  | none =>
    simp only [Option.map_none]
    refine ⟨trivial, ?_⟩
    by_cases hp : slotNow - first ≥ 2000
    · simp only [hp, if_true]
      exact R_write hR h2 (by omega) _ (fun n hn => mem_pruneKeys hn (by omega))
        (startKey_not_mem_pruneKeys _ _) _ (by simp)
    · simp only [hp, if_false]
      exact R_write hR h2 hfirst [] (fun n hn => by simp) (by simp) _ (by simp)

/-- the literals 1000 / 2000 in the statements below are the constants of slot.go (tied to the Go
    values by the `const` cases of the correspondence run) -/
theorem C27_constants : maxSlotCapacity = 1000 ∧ pruningBound = 2000 := by decide

/-- inputs are Go `uint64` -/
def Op.wf (o : Op H S) : Prop := o.slotNow < 2 ^ 64 ∧ o.slot < 2 ^ 64

/-- database after a history of checks, from the empty database -/
def mst (c : Codec H S) (hash : H → Hh) (ops : List (Op H S)) : DB := (run (mstep c hash) [] ops).2

theorem refines_run {c : Codec H S} (hc : c.Lawful) (hash : H → Hh) :
    ∀ (ops : List (Op H S)) (db : DB) (st : Spec H S), R c db st → (∀ o ∈ ops, o.wf) →
      (run (mstep c hash) db ops).1 = (run (sstep hash) st ops).1 ∧
      R c (run (mstep c hash) db ops).2 (run (sstep hash) st ops).2 := by
  intro ops
  induction ops with
  | nil => intro db st hR _; exact ⟨rfl, hR⟩
  | cons o r ih =>
    intro db st hR hwf
    obtain ⟨ho1, ho2⟩ := hwf o (by simp)
    obtain ⟨e1, hR'⟩ := refines_step hc hash hR o ho1 ho2
    obtain ⟨e2, hR''⟩ := ih _ _ hR' (fun x hx => hwf x (by simp [hx]))
    simp only [run]
    exact ⟨by rw [e1, e2], hR''⟩

/-- **C27_refines**: for every sequence of checks the database model of slot.go returns exactly the
    outputs of the reference state machine, and its database represents the reference state. -/
theorem C27_refines {c : Codec H S} (hc : c.Lawful) (hash : H → Hh) (ops : List (Op H S))
    (hwf : ∀ o ∈ ops, o.wf) :
    (run (mstep c hash) [] ops).1 = (run (sstep hash) Spec.empty ops).1 ∧
      R c (mst c hash ops) (sst hash ops) :=
  refines_run hc hash ops [] Spec.empty (R_empty c) hwf

/-- the abstract content of a database: what `CheckEquivocation` would read from it -/
def absState (c : Codec H S) (db : DB) : Spec H S where
  start := (db.get startKey).map le64
  slots := fun n => match db.get (slotKey n) with
    | some b => (c.dec b).getD []
    | none => []

theorem abs_start {c : Codec H S} {db : DB} {st : Spec H S} (hR : R c db st) :
    (absState c db).start = st.start := by
  cases h : st.start with
  | none => simp [absState, hR.start_none h]
  | some n =>
    obtain ⟨hn, hg⟩ := hR.start_some n h
    simp [absState, hg, le64_leBytes n hn]

theorem abs_slots {c : Codec H S} (hc : c.Lawful) {db : DB} {st : Spec H S} (hR : R c db st)
    {n : Nat} (hn : n < 2 ^ 64) : (absState c db).slots n = st.slots n := by
  by_cases h : st.slots n = []
  · simp [absState, hR.slot_nil n hn h, h]
  · simp [absState, hR.slot_cons n hn h, hc.dec_enc]

section model
variable {c : Codec H S} (hc : c.Lawful) (hash : H → Hh)
include hc

theorem R_mst (pre : List (Op H S)) (hpre : ∀ x ∈ pre, x.wf) : R c (mst c hash pre) (sst hash pre) :=
  (C27_refines hc hash pre hpre).2

theorem mstep_out (pre : List (Op H S)) (hpre : ∀ x ∈ pre, x.wf) (o : Op H S) (ho : o.wf) :
    (mstep c hash (mst c hash pre) o).1 = (sstep hash (sst hash pre) o).1 :=
  (refines_step hc hash (R_mst hc hash pre hpre) o ho.1 ho.2).1

/-- **C27_proof_sound**: a returned proof names the checked slot and signer, carries the checked
    header as second header and, as first header, a header with a different hash that an earlier
    check of the same slot and signer recorded (that check itself returned no proof). -/
theorem C27_proof_sound (pre : List (Op H S)) (hpre : ∀ x ∈ pre, x.wf) (o : Op H S) (ho : o.wf)
    {sl : Nat} {off : S} {a b : H}
    (h : (mstep c hash (mst c hash pre) o).1 = .proof sl off a b) :
    sl = o.slot ∧ off = o.signer ∧ b = o.header ∧ hash a ≠ hash b ∧
      ∃ p1 o' p2, pre = p1 ++ o' :: p2 ∧ o'.slot = o.slot ∧ o'.signer = o.signer ∧ o'.header = a ∧
        (mstep c hash (mst c hash p1) o').1 = .none := by
  rw [mstep_out hc hash pre hpre o ho] at h
  obtain ⟨h1, h2, h3, h4, _, h6⟩ := spec_proof_shape hash _ o h
  refine ⟨h1, h2, h3, h4, ?_⟩
  obtain ⟨p1, o', p2, hq, hs, he, _, hn⟩ := (inv_all hash pre).prov _ _ h6
  have hp1 : ∀ x ∈ p1, x.wf := fun x hx => hpre x (by rw [hq]; simp [hx])
  have ho' : o'.wf := hpre o' (by rw [hq]; simp)
  refine ⟨p1, o', p2, hq, hs, ?_, ?_, ?_⟩
  · exact (Prod.mk.inj he).2
  · exact (Prod.mk.inj he).1
  · rw [mstep_out hc hash p1 hp1 o' ho']; exact hn

/-- **C27_exact**: after any history, a check returns the proof `(slot, signer, a, header)` exactly
    when it is inside the retained window (not older than 1000 slots, not before the start marker)
    and the database holds the header `a`, of different hash, for that signer and slot. -/
theorem C27_exact (pre : List (Op H S)) (hpre : ∀ x ∈ pre, x.wf) (o : Op H S) (ho : o.wf) (a : H) :
    (mstep c hash (mst c hash pre) o).1 = .proof o.slot o.signer a o.header ↔
      (o.slotNow - o.slot ≤ 1000 ∧ (absState c (mst c hash pre)).start.getD o.slot ≤ o.slotNow ∧
        (a, o.signer) ∈ (absState c (mst c hash pre)).slots o.slot ∧ hash a ≠ hash o.header) := by
  have hR := R_mst hc hash pre hpre
  rw [mstep_out hc hash pre hpre o ho, abs_start hR, abs_slots hc hR ho.2,
    spec_exact hash _ (uniqueSigners_sst hash pre) o a]
  simp only [inWindow, and_assoc]

/-- **C27_complete_in_window** (the `←` direction of `C27_exact`) -/
theorem C27_complete_in_window (pre : List (Op H S)) (hpre : ∀ x ∈ pre, x.wf) (o : Op H S)
    (ho : o.wf) (a : H) (hcap : o.slotNow - o.slot ≤ 1000)
    (hstart : (absState c (mst c hash pre)).start.getD o.slot ≤ o.slotNow)
    (hm : (a, o.signer) ∈ (absState c (mst c hash pre)).slots o.slot)
    (hh : hash a ≠ hash o.header) :
    (mstep c hash (mst c hash pre) o).1 = .proof o.slot o.signer a o.header :=
  (C27_exact hc hash pre hpre o ho a).mpr ⟨hcap, hstart, hm, hh⟩

/-- **C27_retained**: a recorded entry of slot `n` stays in the database through every later check
    whose current slot is at most `n + 1000`. -/
theorem C27_retained (pre ops : List (Op H S)) (hpre : ∀ x ∈ pre, x.wf) (hops : ∀ x ∈ ops, x.wf)
    (n : Nat) (hn : n < 2 ^ 64) (e : H × S) (hm : e ∈ (absState c (mst c hash pre)).slots n)
    (hnow : ∀ x ∈ ops, x.slotNow ≤ n + 1000) :
    e ∈ (absState c (mst c hash (pre ++ ops))).slots n := by
  have hall : ∀ x ∈ pre ++ ops, x.wf := by
    intro x hx
    rcases List.mem_append.mp hx with h | h
    · exact hpre x h
    · exact hops x h
  rw [abs_slots hc (R_mst hc hash pre hpre) hn] at hm
  rw [abs_slots hc (R_mst hc hash _ hall) hn]
  have : sst hash (pre ++ ops) = (run (sstep hash) (sst hash pre) ops).2 := by
    simp only [sst, run_append]
  rw [this]
  exact spec_retained hash ops _ n e hm hnow

/-- **C27_complete_history**: let `o'` be the first check of its (slot, signer), made for a slot that
    is not in the future and at most 1000 old, at a time not earlier than the checks before it.  Then
    any later check `o` of the same slot and signer with a header of different hash, made while time
    has not moved more than 1000 slots past that slot (and not earlier than the checks before it),
    returns the proof carrying `o'.header` and `o.header`. -/
theorem C27_complete_history (p1 p2 : List (Op H S)) (o' o : Op H S)
    (hwf : ∀ x ∈ p1 ++ o' :: p2, x.wf) (ho : o.wf)
    (hfirst : ∀ x ∈ p1, ¬ (x.slot = o'.slot ∧ x.signer = o'.signer))
    (hfut : o'.slot ≤ o'.slotNow) (hcap : o'.slotNow - o'.slot ≤ 1000)
    (ht1 : ∀ x ∈ p1, x.slotNow ≤ o'.slotNow)
    (ht2 : ∀ x ∈ p1 ++ o' :: p2, x.slotNow ≤ o.slotNow)
    (hslot : o.slot = o'.slot) (hsig : o.signer = o'.signer)
    (hrecent : o.slotNow ≤ o'.slot + 1000)
    (hh : hash o'.header ≠ hash o.header) :
    (mstep c hash (mst c hash (p1 ++ o' :: p2)) o).1 = .proof o.slot o.signer o'.header o.header := by
  rw [mstep_out hc hash _ hwf o ho]
  exact spec_complete_history hash p1 p2 o' o hfirst hfut hcap ht1 ht2 hslot hsig hrecent hh

/-- **C27_idempotent**: once a check has returned no proof, repeating the identical check any number
    of times never yields a proof. -/
theorem C27_idempotent (pre : List (Op H S)) (hpre : ∀ x ∈ pre, x.wf) (o : Op H S) (ho : o.wf)
    (h : (mstep c hash (mst c hash pre) o).1 = .none) (k : Nat) :
    (run (mstep c hash) (mstep c hash (mst c hash pre) o).2 (List.replicate k o)).1
      = List.replicate k .none := by
  have hR := R_mst hc hash pre hpre
  obtain ⟨e1, hR'⟩ := refines_step hc hash hR o ho.1 ho.2
  rw [e1] at h
  have hrep : ∀ x ∈ List.replicate k o, x.wf := fun x hx => by
    rw [(List.mem_replicate.mp hx).2]; exact ho
  rw [(refines_run hc hash (List.replicate k o) _ _ hR' hrep).1]
  have hfix := spec_idempotent hash _ o h
  generalize (sstep hash (sst hash pre) o).2 = st' at hfix
  clear hrep
  induction k with
  | zero => rfl
  | succ k ih => simp only [List.replicate_succ, run, hfix, ih]

/-- **C27_idempotent_recorded**: re-checking the header that is recorded for the signer and slot
    (any header of the same hash) never yields a proof. -/
theorem C27_idempotent_recorded (pre : List (Op H S)) (hpre : ∀ x ∈ pre, x.wf) (o : Op H S)
    (ho : o.wf) (a : H) (hm : (a, o.signer) ∈ (absState c (mst c hash pre)).slots o.slot)
    (hh : hash a = hash o.header) :
    (mstep c hash (mst c hash pre) o).1 = .none := by
  have hR := R_mst hc hash pre hpre
  rw [abs_slots hc hR ho.2] at hm
  rw [mstep_out hc hash pre hpre o ho,
    spec_recheck_recorded hash _ (uniqueSigners_sst hash pre) o a hm hh]

/-- **C27_unique_signer**: the database never holds two entries of one signer in one slot. -/
theorem C27_unique_signer (pre : List (Op H S)) (hpre : ∀ x ∈ pre, x.wf) (n : Nat) (hn : n < 2 ^ 64) :
    ((absState c (mst c hash pre)).slots n).Pairwise (fun a b => a.2 ≠ b.2) := by
  rw [abs_slots hc (R_mst hc hash pre hpre) hn]
  exact uniqueSigners_sst hash pre n

/- Full statement of the storage invariant of the design: `∀ stored slot s, start ≤ s`.  It does NOT hold
   for all histories (`C27_start_le_stored_counterexample`); it holds when no check was made for a slot
   below the start marker of its time. -/
/-- **C27_start_le_stored_partial** -/
theorem C27_start_le_stored_partial (pre : List (Op H S)) (hpre : ∀ x ∈ pre, x.wf)
    (habove : ∀ p1 o p2, pre = p1 ++ o :: p2 →
      ∀ f, (absState c (mst c hash p1)).start = some f → f ≤ o.slot)
    (n : Nat) (hn : n < 2 ^ 64) (f : Nat)
    (hne : (absState c (mst c hash pre)).slots n ≠ [])
    (hst : (absState c (mst c hash pre)).start = some f) : f ≤ n := by
  have hR := R_mst hc hash pre hpre
  rw [abs_slots hc hR hn] at hne
  rw [abs_start hR] at hst
  apply spec_start_le_stored hash pre _ n f hne hst
  intro p1 x p2 hq g hg
  have hp1 : ∀ y ∈ p1, y.wf := fun y hy => hpre y (by rw [hq]; simp [hy])
  apply habove p1 x p2 hq g
  rw [abs_start (R_mst hc hash p1 hp1)]; exact hg

end model
end

/-! ### a lawful codec instance, the counterexamples and non-vacuity -/

theorem byteCodec_go (l : List (UInt8 × UInt8)) :
    bytePairs (l.flatMap (fun e => [e.1, e.2])) = some l := by
  induction l with
  | nil => rfl
  | cons e r ih => simp [bytePairs, ih]

theorem byteCodec_lawful : byteCodec.Lawful :=
  ⟨fun l => by simp [byteCodec, byteCodec_go], fun l => by simp [byteCodec]⟩

/-- **C27_start_le_stored_counterexample**: `check(10,10,h,s); check(10,5,h,s)` stores slot 5 below
    the start marker 10 (and no later pruning ever deletes it: pruning starts at the marker). -/
theorem C27_start_le_stored_counterexample :
    let hist : List (Op UInt8 UInt8) := [⟨10, 10, 0, 0⟩, ⟨10, 5, 0, 0⟩]
    let db := mst byteCodec (fun x : UInt8 => x) hist
    (∀ x ∈ hist, x.wf) ∧ (absState byteCodec db).start = some 10 ∧
      (absState byteCodec db).slots 5 ≠ [] := by
  intro hist db
  have hwf : ∀ x ∈ hist, x.wf := by
    intro x hx
    simp only [hist, List.mem_cons, List.not_mem_nil, or_false] at hx
    rcases hx with h | h <;> subst h <;> simp [Op.wf]
  have hR := R_mst byteCodec_lawful (fun x : UInt8 => x) hist hwf
  refine ⟨hwf, ?_, ?_⟩
  · rw [abs_start hR]
    simp [hist, sst, run, sstep, specStep, Spec.empty]
  · rw [abs_slots byteCodec_lawful hR (by decide)]
    simp [hist, sst, run, sstep, specStep, Spec.empty]

/-- **C27_idempotent_naive_counterexample**: "re-checking an identical header never yields a proof"
    cannot be read as "identical to the previous check": after `A`, the conflicting header `B` yields
    a proof every time it is checked (it is never recorded). -/
theorem C27_idempotent_naive_counterexample :
    let A : Op UInt8 UInt8 := ⟨10, 10, 1, 0⟩
    let B : Op UInt8 UInt8 := ⟨10, 10, 2, 0⟩
    (run (mstep byteCodec (fun x : UInt8 => x)) [] [A, B, B]).1
      = [.none, .proof 10 0 1 2, .proof 10 0 1 2] := by
  intro A B
  have hwf : ∀ x ∈ [A, B, B], x.wf := by
    intro x hx
    simp only [List.mem_cons, List.not_mem_nil, or_false] at hx
    rcases hx with h | h | h <;> subst h <;> simp [Op.wf, A, B]
  rw [(C27_refines byteCodec_lawful (fun x : UInt8 => x) [A, B, B] hwf).1]
  simp [A, B, run, sstep, specStep, Spec.empty]

/-- non-vacuity: the hypotheses of `C27_complete_history` are satisfiable -/
example :
    (mstep byteCodec (fun x : UInt8 => x)
      (mst byteCodec (fun x : UInt8 => x) ([] ++ (⟨1000, 7, 1, 2⟩ : Op UInt8 UInt8) :: [⟨1006, 1006, 3, 2⟩]))
      ⟨1007, 7, 4, 2⟩).1 = .proof 7 2 1 4 := by
  apply C27_complete_history byteCodec_lawful (fun x : UInt8 => x) [] [⟨1006, 1006, 3, 2⟩]
    ⟨1000, 7, 1, 2⟩ ⟨1007, 7, 4, 2⟩
  · intro x hx
    simp only [List.nil_append, List.mem_cons, List.not_mem_nil, or_false] at hx
    rcases hx with h | h <;> subst h <;> simp [Op.wf]
  · simp [Op.wf]
  · simp
  · simp
  · simp
  · simp
  · intro x hx
    simp only [List.nil_append, List.mem_cons, List.not_mem_nil, or_false] at hx
    rcases hx with h | h <;> subst h <;> simp
  · rfl
  · rfl
  · simp
  · decide

end Gossamer.C27
